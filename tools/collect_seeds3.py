#!/usr/bin/env python3
"""round 3: merge the sub-agents' meta.json with my confirmation (/tmp/ev/seeds/<id>/confirm.json), the first-pass check
results (/tmp/ev/seeds/<id>/result.json: machinery as of the start of round 3, run from an isolated copy of /verif against
a clone of /repo with the patch applied) and the re-runs after strengthening (recorded below; run in /repo itself:
git -C /repo apply; ./check <id> --tier quick; git -C /repo checkout -- .)"""
import glob, json, os, re
RERUN = {
 "C02-3": {"C02": ("caught", "VIOLATION property=C02 replay=/verif/replays/C02-1-input.json", ["S02 scalar/f32/n=12289/fwd process_outofplace_with_scratch constant-full"], "new input class constant-full (a constant with a full significand in both element types: sums of 1.25 are exact) + anchor lengths (large Rader primes)")},
 "C05-4": {"C05": ("caught", "VIOLATION property=C05 replay=/verif/replays/C05-1-input.json", ["history-scratch auto/f32 n=1063 entry0"], "S05 history phase (fresh planner per large smooth base, then Bluestein lengths with 12 n + 64 < 2 base) + K6 in C05")},
 "C08-3": {"C08": ("caught", "VIOLATION property=C08 replay=/verif/replays/C08-1-input.json", ["scratch-dependence direct/f32/(Bluesteins 10 (Radix4 32))/fwd process_immutable_with_scratch scratch=adv+1 fill=+Inf"], "S08 on constructor-built instances (Bluestein with an inner transform much longer than 2n-1, Rader / mixed radix / Good-Thomas over planned inners)")},
 "C10-3": {"C10": ("caught", "VIOLATION property=C10 replay=/verif/replays/C10-1-input.json", ["history-panic scalar/f64 [512:fwd,719:fwd]", "history scalar/f64 [176:fwd,180:fwd,752:fwd] :: step 2"], "K6/S10 pool of powers of two with their 3*2^k neighbours and the Bluestein primes whose inner length is 3*2^k")},
 "C12-4": {"C12": ("caught", "VIOLATION property=C12 replay=/verif/replays/C12-1-input.json", ["wellshaped-panicked f32/fwd/(Raders (MixedRadix (Bluesteins 1 (Butterfly 1)) (Butterfly 4))) process_outofplace_with_scratch"], "first pass: caught without input (T1 regenerates the formula, scratch_suffices no longer proves); stress trees with inner in-place scratch exactly len+1 now give the concrete input")},
 "C14-4": {"C14": ("caught", "VIOLATION property=C14 replay=/verif/replays/C14-1-input.json", ["third-type OpCount(16 bytes)/n=0/fwd"], "first pass: caught without input (K7); S14 now uses the automatic planner at f32/f64 first in the process")},
 "C16-3": {"C16": ("caught", "VIOLATION property=C16 replay=/verif/replays/C16-1-input.json", ["witness-does-not-compile [features: none] error[E0599]: no function or associated item named `plan_fft_inverse` found for struct `FftPlannerAvx<T>`"], "first pass: caught without input (T5 surface table); the witness crate is now compiled under every cargo feature set")},
 "C16-4": {"C16": ("caught", "VIOLATION property=C16 replay=/verif/replays/C16-1-input.json", ["witness-does-not-compile error[E0624]: associated function `direction_of` is private"], "first pass: caught without input (T5); the witness now names Butterfly3/6::direction_of")},
}
n_kept = 0
for d in sorted(glob.glob("/tmp/ev/seeds/C*-[34]")):
    sid = os.path.basename(d)
    dst = f"/verif/seeded/{sid}"
    if not os.path.isdir(dst):
        print("missing in /verif/seeded:", sid); continue
    conf = json.load(open(f"{d}/confirm.json")) if os.path.exists(f"{d}/confirm.json") else {}
    res = json.load(open(f"{d}/result.json")) if os.path.exists(f"{d}/result.json") else {}
    if not (conf.get("applies") and conf.get("compiles") and conf.get("tests_pass") and conf.get("demo_discriminates")):
        print("NOT CONFIRMED:", sid, conf); continue
    meta = json.load(open(f"{d}/meta.json"))
    out = {
        "id": sid, "round": 3, "breaks_property": sid.split("-")[0],
        "summary": meta.get("summary"), "needs_to_manifest": meta.get("needs_to_manifest") or meta.get("needs"),
        "files": meta.get("files"), "demo_cmd": meta.get("demo_cmd"),
        "confirmed_by_me": {"patch_applies": conf.get("applies"), "crate_compiles": conf.get("compiles"),
            "compiles_with_hooks": conf.get("compiles_with_hooks"), "existing_tests_pass_with_change": conf.get("tests_pass"),
            "demo_rc_without_change": conf.get("demo_without_rc"), "demo_rc_with_change": conf.get("demo_with_rc"),
            "what_i_ran": "tools/seedconfirm.py in the agent's scratch worktree (git apply; cargo build; RUSTFLAGS=--cfg rustfft_verif cargo check; cargo test --offline; demo with and without the change)"},
        "first_round_checks": {p: {"caught": r["rc"] == 1, "verdict": next((l for l in r["lines"] if l.startswith("VIOLATION")), (r["lines"] or [""])[-1])[:200].replace("/tmp/ev/verif", "/verif"),
                                   "first_failing_cases": [str(x)[:200] for x in r.get("replay_head", [])[:3]]}
                               for p, r in res.get("checks", {}).items()},
        "first_round_note": "machinery as of the start of round 3 (commit before the strengthening), run from an isolated copy of /verif against a clone of /repo with the patch applied",
    }
    if sid in RERUN:
        out["second_round_checks"] = {p: {"caught": v[0] == "caught", "verdict": v[1], "first_failing_cases": v[2]} for p, v in RERUN[sid].items()}
        out["strengthening"] = "; ".join(v[3] for v in RERUN[sid].values())
        out["second_round_note"] = "run in /repo itself: git -C /repo apply patch.diff; ./check <id> --tier quick; git -C /repo checkout -- ."
    fires = []
    for rr in (out.get("first_round_checks", {}), out.get("second_round_checks", {})):
        for p, r in rr.items():
            if not r["caught"]: continue
            for h in r["first_failing_cases"][:3]:
                if h.startswith("{"):
                    m = re.search(r'"id": "([^"]+)"', h) or re.search(r'"target": "([^"]+)"', h) or re.search(r'"kind": "([^"]+)"', h)
                    fires.append(f"{p}: correspondence/obligation {m.group(1) if m else '?'}")
                else:
                    fires.append(f"{p}: search `{h.split(' ')[0]}` e.g. `{h[:100]}`"); break
    out["caught_by"] = "; ".join(dict.fromkeys(fires))
    json.dump(out, open(f"{dst}/meta.json", "w"), indent=1)
    n_kept += 1
    print(sid, {p: ("caught" if r["caught"] else "MISSED") for p, r in out["first_round_checks"].items()}, "->", {p: "caught" for p in out.get("second_round_checks", {})})
print("kept", n_kept)
