#!/usr/bin/env python3
"""Regenerate /verif/MANIFEST.json from tools/propdefs.py (claimed checks) and the list of all property ids."""
import json, os, sys
ROOT = os.path.dirname(os.path.dirname(os.path.abspath(__file__)))
sys.path.insert(0, os.path.join(ROOT, "tools"))
from propdefs import PROPS, NOT_YET

ids = [json.loads(l)["id"] for l in open(os.path.join(ROOT, "properties.jsonl"))]
hooks_commits = [l.strip() for l in open(os.path.join(ROOT, "tools", "hook_commits.txt")) if l.strip()]
checks, na = [], []
for pid in ids:
    if pid in PROPS and "manifest" in PROPS[pid]:
        m = PROPS[pid]["manifest"]
        checks.append({
            "property_id": pid,
            "quick_cmd": f"./check {pid} --tier quick",
            "thorough_cmd": f"./check {pid} --tier thorough",
            "evidence_file": f"/verif/evidence/{pid}.json",
            "replay_cmd_template": f"./check {pid} --replay {{path}}",
            "engine": "lean-model + rust-harness",
            "level_claimed": {"category": PROPS[pid]["level"], "text": m["text"], "design_ref": m.get("design_ref", "DESIGN.md §6 " + pid)},
            "level_note": m["note"],
            "technique": m["technique"],
        })
    else:
        na.append({"property_id": pid, "reason": NOT_YET.get(pid, "check not built yet in this round; see DESIGN.md §6 for the plan")})
man = {
    "version": 1,
    "setup_cmd": "./setup.sh",
    "hooks": {
        "guard": "rustfft_verif",
        "enable": "RUSTFLAGS=\"--cfg rustfft_verif\" (set in /verif/harness/.cargo/config.toml; the harness is a path-dependent crate on /repo)",
        "baseline_off_cmd": "cd /repo && cargo test --workspace --no-fail-fast --offline",
        "source_commits": hooks_commits,
        "add_only": True,
    },
    "engines": [
        {"name": "lean-model", "path": "lean", "serves_properties": [c["property_id"] for c in checks],
         "kind_free_text": "Lean 4 model (lean/RFV/Model, lean/RFV/Gen regenerated), theorems (lean/RFV/Props, lean/RFV/Proofs), executable driver rfvmodel"},
        {"name": "rust-harness", "path": "harness", "serves_properties": [c["property_id"] for c in checks],
         "kind_free_text": "correspondence (line protocol) + property-directed search on the real code; path-dependent on /repo, built with --cfg rustfft_verif, debug assertions and overflow checks on"},
    ],
    "checks": checks,
    "notes": "Every check is ./check <id>; tier via --tier or VERIF_TIER; seed via VERIF_SEED. Known findings: known_findings.json. See DESIGN.md.",
    "not_applicable": na,
}
json.dump(man, open(os.path.join(ROOT, "MANIFEST.json"), "w"), indent=1)
print("MANIFEST: %d checks, %d not claimed" % (len(checks), len(na)))
