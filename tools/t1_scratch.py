#!/usr/bin/env python3
"""Translator T1: regenerate lean/RFV/Gen/Scratch.lean from the scratch-length arithmetic in /repo's constructors.

For every portable algorithm the `let … = …;` chain of its constructor (and, where the lengths are given as
closures to a boilerplate macro, those closures) is parsed with a small expression parser
(integers, identifiers, method calls on the inner FFTs, `max(a, b)`, `if c { a } else { b }`, `+ - *`, comparisons)
and emitted as Lean definitions over the inner instances' `Spec`s.  Anything outside that grammar makes the
translator fail closed (exit 3), which the driver treats as an undischarged obligation.

What is *assumed* rather than extracted (each assumption is re-checked by correspondence K3 on built instances):
  * `inner_fft_multiplier.len()` (Bluestein) equals `inner_fft.len()`;
  * `cross_fft_len` after the twiddle loop of Radix3/Radix4 equals `len`.
"""
import re, sys, os

REPO = os.environ.get("RFV_REPO", "/repo")

class Fail(Exception):
    pass

TOKEN = re.compile(r"\s*(?:(\d+)|([A-Za-z_][A-Za-z_0-9]*(?:::[A-Za-z_][A-Za-z_0-9]*)*)|(>=|<=|==|!=|[-+*(){}<>,.;]))")

def tokenize(s):
    out, i = [], 0
    s = s.strip()
    while i < len(s):
        m = TOKEN.match(s, i)
        if not m or m.end() == i:
            raise Fail("cannot tokenize: %r" % s[i:i+30])
        if m.group(1): out.append(("num", m.group(1)))
        elif m.group(2): out.append(("id", m.group(2)))
        else: out.append(("p", m.group(3)))
        i = m.end()
        while i < len(s) and s[i].isspace(): i += 1
    return out

class Parser:
    def __init__(self, toks): self.t, self.i = toks, 0
    def peek(self): return self.t[self.i] if self.i < len(self.t) else (None, None)
    def eat(self, kind=None, val=None):
        k, v = self.peek()
        if k is None or (kind and k != kind) or (val and v != val):
            raise Fail("expected %s %s, got %s %s" % (kind, val, k, v))
        self.i += 1
        return v
    def expr(self):
        if self.peek() == ("id", "if"): return self.ifx()
        return self.cmp()
    def ifx(self):
        self.eat("id", "if"); c = self.cmp(); self.eat("p", "{"); a = self.expr(); self.eat("p", "}")
        self.eat("id", "else"); self.eat("p", "{"); b = self.expr(); self.eat("p", "}")
        return ("if", c, a, b)
    def cmp(self):
        a = self.add()
        k, v = self.peek()
        if k == "p" and v in (">", "<", ">=", "<=", "==", "!="):
            self.i += 1; b = self.add(); return ("cmp", v, a, b)
        return a
    def add(self):
        a = self.mul()
        while self.peek() in (("p", "+"), ("p", "-")):
            op = self.eat(); b = self.mul(); a = ("bin", op, a, b)
        return a
    def mul(self):
        a = self.atom()
        while self.peek() == ("p", "*"):
            self.eat(); b = self.atom(); a = ("bin", "*", a, b)
        return a
    def atom(self):
        k, v = self.peek()
        if k == "num": self.i += 1; return ("num", v)
        if k == "p" and v == "(":
            self.i += 1; e = self.expr(); self.eat("p", ")"); return e
        if k == "id" and v == "if": return self.ifx()
        if k == "id":
            self.i += 1
            if v in ("max", "std::cmp::max", "cmp::max") and self.peek() == ("p", "("):
                self.eat(); a = self.expr(); self.eat("p", ","); b = self.expr()
                if self.peek() == ("p", ","): self.eat()
                self.eat("p", ")"); return ("max", a, b)
            path = v
            while self.peek() == ("p", "."):
                self.eat(); nm = self.eat("id"); path += "." + nm
                if self.peek() == ("p", "("):
                    self.eat(); self.eat("p", ")"); path += "()"
            return ("ref", path)
        raise Fail("unexpected token %s %s" % (k, v))

def parse(s):
    p = Parser(tokenize(s))
    e = p.expr()
    if p.i != len(p.t): raise Fail("trailing tokens in %r" % s)
    return e

def to_lean(e, env, names, depth=0):
    if depth > 40: raise Fail("let-chain too deep")
    t = e[0]
    if t == "num": return e[1]
    if t == "max": return "(max %s %s)" % (to_lean(e[1], env, names, depth), to_lean(e[2], env, names, depth))
    if t == "bin": return "(%s %s %s)" % (to_lean(e[2], env, names, depth), e[1], to_lean(e[3], env, names, depth))
    if t == "cmp":
        op = {">": ">", "<": "<", ">=": "≥", "<=": "≤", "==": "=", "!=": "≠"}[e[1]]
        return "%s %s %s" % (to_lean(e[2], env, names, depth), op, to_lean(e[3], env, names, depth))
    if t == "if":
        return "(if %s then %s else %s)" % (to_lean(e[1], env, names, depth), to_lean(e[2], env, names, depth), to_lean(e[3], env, names, depth))
    if t == "ref":
        path = e[1]
        if path in names: return names[path]
        if path in env: return to_lean(env[path], env, names, depth + 1)
        raise Fail("unresolved name %r" % path)
    raise Fail("bad node")

def fn_body(src, header_re):
    m = re.search(header_re, src)
    if not m: raise Fail("function not found: %s" % header_re)
    i = src.index("{", m.end() - 1)
    depth, j = 0, i
    while True:
        c = src[j]
        if c == "{": depth += 1
        elif c == "}":
            depth -= 1
            if depth == 0: break
        j += 1
    return src[i + 1:j]

def strip_comments(s):
    return re.sub(r"//[^\n]*", "", s)

def lets(body):
    """all `let [mut] NAME = EXPR;` at any depth whose EXPR parses (later ones win only if the name is new:
    the constructors bind each scratch name once)."""
    env = {}
    for m in re.finditer(r"\blet\s+(?:mut\s+)?([A-Za-z_][A-Za-z_0-9]*)\s*(?::[^=;]+)?=\s*", body):
        name = m.group(1)
        # take text up to the matching ';' at brace depth 0
        j, depth = m.end(), 0
        while j < len(body):
            c = body[j]
            if c in "{(": depth += 1
            elif c in "})": depth -= 1
            elif c == ";" and depth == 0: break
            j += 1
        txt = body[m.end():j]
        try:
            e = parse(txt)
        except Fail:
            continue
        if name not in env: env[name] = e
    return env

def field(body, name):
    """`name: EXPR,` inside the final struct literal, or shorthand `name,` (then the let of that name)."""
    m = re.search(r"\b%s\s*:\s*([^,\n]+),\s*\n" % name, body)
    if m:
        return parse(m.group(1))
    if re.search(r"\b%s\s*,\s*\n" % name, body):
        return ("ref", name)
    raise Fail("field %s not found" % name)

def macro_closures(src, struct):
    """the closures given to boilerplate_fft!(Struct, len, inplace, oop, immut)"""
    m = re.search(r"boilerplate_fft!\(\s*%s\s*,(.*?)\n\);" % struct, src, re.S)
    if not m: raise Fail("boilerplate_fft!(%s …) not found" % struct)
    txt = strip_comments(m.group(1))
    parts = re.split(r"\|\s*(?:this\s*:\s*&\w+<_>|_)\s*\|", txt)
    parts = [p.strip().rstrip(",").strip() for p in parts if p.strip()]
    if len(parts) != 4: raise Fail("expected 4 closures for %s, got %d" % (struct, len(parts)))
    return [parse(p) for p in parts]

def read(rel):
    return strip_comments(open(os.path.join(REPO, rel)).read())

out = []
def emit(name, params, expr): out.append("def %s %s : Nat :=\n  %s\n" % (name, params, expr))

def two_fft(rel, struct, prefix):
    src = read(rel)
    body = fn_body(src, r"impl<T: FftNum> %s<T>\s*\{\s*pub fn new\(" % struct)
    env = lets(body)
    names = {
        "len": "len",
        "width_fft.get_inplace_scratch_len()": "w.inplace", "width_fft.get_outofplace_scratch_len()": "w.oop",
        "height_fft.get_inplace_scratch_len()": "h.inplace", "height_fft.get_outofplace_scratch_len()": "h.oop",
    }
    for fld, suffix in (("inplace_scratch_len", "inplace"), ("outofplace_scratch_len", "oop"), ("immut_scratch_len", "immut")):
        emit("%s_%s" % (prefix, suffix), "(len : Nat) (w h : Spec)", to_lean(field(body, fld), env, names))

def base_fft(rel, struct, prefix, ctor):
    src = read(rel)
    body = fn_body(src, r"pub fn %s\(" % ctor)
    env = lets(body)
    env.pop("cross_fft_len", None)
    names = {"len": "len", "cross_fft_len": "len", "base_fft.get_inplace_scratch_len()": "base.inplace"}
    for fld, suffix in (("inplace_scratch_len", "inplace"), ("outofplace_scratch_len", "oop"), ("immut_scratch_len", "immut")):
        emit("%s_%s" % (prefix, suffix), "(len : Nat) (base : Spec)", to_lean(field(body, fld), env, names))

def vec_lens(body):
    """`let [mut] NAME = vec![<elem>; LEN];`  ->  {"NAME.len()": parsed LEN}"""
    res = {}
    for m in re.finditer(r"\blet\s+(?:mut\s+)?([A-Za-z_][A-Za-z_0-9]*)\s*(?::[^=;]+)?=\s*vec!\[[^;\]]+;\s*([^\]]+)\];", body):
        try:
            res[m.group(1) + ".len()"] = parse(m.group(2))
        except Fail:
            pass
    return res

def simd_algorithms():
    """the AVX / SSE algorithm constructors that wrap inner transforms (crate-private; reached through the AVX / SSE planners)"""
    # MixedRadix{2..16}xnAvx: one macro, `mixedradix_gen_data!`
    src = read("src/avx/avx_mixed_radix.rs")
    body = fn_body(src, r"macro_rules!\s+mixedradix_gen_data\s*\{")
    body = body.replace("$inner_fft", "inner_fft").replace("$row_count", "row_count")
    env = lets(body)
    names = {"len": "len", "inner_fft.get_outofplace_scratch_len()": "inner.oop",
             "inner_fft.get_inplace_scratch_len()": "inner.inplace"}
    for fld, suffix in (("inplace_scratch_len", "inplace"), ("outofplace_scratch_len", "oop"), ("immut_scratch_len", "immut")):
        emit("avxMixedRadix_%s" % suffix, "(len : Nat) (inner : Spec)", to_lean(field(body, fld), env, names))
    uses = len(re.findall(r"mixedradix_gen_data!\(", src))
    structs = len(re.findall(r"boilerplate_avx_fft_commondata!\(\s*MixedRadix\w+Avx\s*\)", src))
    if uses != structs or uses == 0:
        raise Fail("avx_mixed_radix.rs: %d uses of mixedradix_gen_data! for %d MixedRadix*Avx structs" % (uses, structs))
    # RadersAvx2
    src = read("src/avx/avx_raders.rs")
    body = fn_body(src, r"unsafe fn new_with_avx\(inner_fft: Arc<dyn Fft<T>>\) -> Self\s*\{")
    env = lets(body)
    env.pop("inner_fft_len", None)
    names = {"inner_fft_len": "inner.len", "inner_fft.get_inplace_scratch_len()": "inner.inplace"}
    for fld, suffix in (("inplace_scratch_len", "inplace"), ("outofplace_scratch_len", "oop"), ("immut_scratch_len", "immut")):
        emit("avxRaders_%s" % suffix, "(inner : Spec)", to_lean(field(body, fld), env, names))
    m = re.search(r"boilerplate_avx_fft!\(\s*RadersAvx2\s*,(.*?)\n\);", src, re.S)
    if not m or [x for x in re.findall(r"this\.(\w+)", m.group(1))] != ["len", "inplace_scratch_len", "outofplace_scratch_len", "immut_scratch_len"]:
        raise Fail("RadersAvx2: boilerplate closures are not the four plain fields")
    # BluesteinsAvx
    src = read("src/avx/avx_bluesteins.rs")
    body = fn_body(src, r"unsafe fn new_with_avx\(len: usize, inner_fft: Arc<dyn Fft<T>>\) -> Self\s*\{")
    env = lets(body)
    env.pop("inner_fft_len", None)
    env.update({k: v for k, v in vec_lens(body).items()})
    names = {"inner_fft_len": "inner.len", "inner_fft.get_inplace_scratch_len()": "inner.inplace"}
    lens = [to_lean(field(body, fld), env, names) for fld in ("inplace_scratch_len", "outofplace_scratch_len", "immut_scratch_len")]
    if not (lens[0] == lens[1] == lens[2]): raise Fail("BluesteinsAvx scratch fields differ: %r" % lens)
    emit("avxBluesteins_scratch", "(inner : Spec)", lens[0])
    # SseRadix4 (boilerplate_fft_sse_oop!): the three lengths are literal method bodies of the macro
    src = read("src/sse/sse_common.rs")
    mac = fn_body(src, r"macro_rules!\s+boilerplate_fft_sse_oop\s*\{")
    if not re.search(r"boilerplate_fft_sse_oop!\(\s*SseRadix4\b", read("src/sse/sse_radix4.rs")):
        raise Fail("SseRadix4 no longer uses boilerplate_fft_sse_oop!")
    for meth, suffix in (("get_inplace_scratch_len", "inplace"), ("get_outofplace_scratch_len", "oop"), ("get_immutable_scratch_len", "immut")):
        b = fn_body(mac, r"fn %s\(&self\) -> usize\s*\{" % meth).strip()
        emit("sseRadix4_%s" % suffix, "(len : Nat)", to_lean(parse(b), {}, {"self.len()": "len"}))

def main():
    try:
        two_fft("src/algorithm/mixed_radix.rs", "MixedRadix", "mixedRadix")
        two_fft("src/algorithm/good_thomas_algorithm.rs", "GoodThomasAlgorithm", "goodThomas")
        # Rader
        src = read("src/algorithm/raders_algorithm.rs")
        body = fn_body(src, r"impl<T: FftNum> RadersAlgorithm<T>\s*\{\s*pub fn new\(")
        env = lets(body)
        env.pop("inner_fft_len", None)
        names = {"inner_fft_len": "inner.len", "inner_fft.get_inplace_scratch_len()": "inner.inplace"}
        for fld, suffix in (("inplace_scratch_len", "inplace"), ("outofplace_scratch_len", "oop"), ("immut_scratch_len", "immut")):
            emit("raders_%s" % suffix, "(inner : Spec)", to_lean(field(body, fld), env, names))
        # Bluestein: the three lengths are closures of the boilerplate macro, and must coincide
        src = read("src/algorithm/bluesteins_algorithm.rs")
        cl = macro_closures(src, "BluesteinsAlgorithm")
        names = {"this.inner_fft_multiplier.len()": "inner.len", "this.inner_fft.get_inplace_scratch_len()": "inner.inplace"}
        lens = [to_lean(c, {}, names) for c in cl[1:]]
        emit("bluesteins_inplace", "(inner : Spec)", lens[0])
        emit("bluesteins_oop", "(inner : Spec)", lens[1])
        emit("bluesteins_immut", "(inner : Spec)", lens[2])
        if not (lens[0] == lens[1] == lens[2]): raise Fail("Bluestein scratch closures differ: %r" % lens)
        emit("bluesteins_scratch", "(inner : Spec)", lens[0])
        base_fft("src/algorithm/radixn.rs", "RadixN", "radixN", "new")
        base_fft("src/algorithm/radix4.rs", "Radix4", "radix4", "new_with_base")
        base_fft("src/algorithm/radix3.rs", "Radix3", "radix3", "new_with_base")
        simd_algorithms()
    except Fail as e:
        sys.stderr.write("T1 translator failed closed: %s\n" % e)
        sys.exit(3)
    hdr = ("/-\nGENERATED by /verif/tools/t1_scratch.py from /repo on every run — do not edit.\n"
           "Scratch-length formulas of the portable algorithm constructors, as functions of the inner instances' specs.\n-/\n"
           "import RFV.Model.SpecTypes\n\nset_option linter.unusedVariables false\n\nnamespace RFV.Gen\n\n")
    text = hdr + "\n".join(out) + "\nend RFV.Gen\n"
    dst = sys.argv[1] if len(sys.argv) > 1 else "/verif/lean/RFV/Gen/Scratch.lean"
    old = open(dst).read() if os.path.exists(dst) else None
    if old != text:
        open(dst, "w").write(text)
    print("T1: %d definitions -> %s%s" % (len(out), dst, "" if old != text else " (unchanged)"))

main()
