#!/usr/bin/env python3
"""phase 1 of seed evaluation: in the seed's own scratch worktree confirm that the patch applies, compiles, passes the
existing suite, and that the demo fails with it and passes without it. Writes <change-dir>/confirm.json."""
import json, os, subprocess, sys
def sh(cmd, cwd=None, env=None, timeout=7200):
    e = dict(os.environ); e["CARGO_NET_OFFLINE"] = "true"
    if env: e.update(env)
    p = subprocess.run(cmd, cwd=cwd, env=e, shell=True, stdout=subprocess.PIPE, stderr=subprocess.STDOUT, text=True, timeout=timeout)
    return p.returncode, p.stdout
wt, cdir = sys.argv[1], sys.argv[2]
patch = os.path.join(cdir, "patch.diff")
meta = json.load(open(os.path.join(cdir, "meta.json")))
tgt = {"CARGO_TARGET_DIR": os.path.join(wt, "target")}
res = {}
def demo(label):
    d = os.path.join(cdir, "demo")
    cmd = meta.get("demo_cmd") or ""
    run = "cargo test --offline" if "cargo test" in cmd else ("cargo run --offline --release" if "--release" in cmd else "cargo run --offline")
    env = {"CARGO_TARGET_DIR": os.path.join(wt, "target-demo")}
    rc, out = sh(run, cwd=d, env=env)
    res[f"demo_{label}_rc"] = rc; res[f"demo_{label}_tail"] = out[-400:]
    return rc
sh("git checkout -- src Cargo.toml", cwd=wt)
rc0 = demo("without")
rc, out = sh(f"git apply {patch}", cwd=wt)
res["applies"] = rc == 0
if rc == 0:
    rc, out = sh("cargo build --offline", cwd=wt, env=tgt); res["compiles"] = rc == 0
    rc, out = sh("RUSTFLAGS='--cfg rustfft_verif' cargo check --offline", cwd=wt, env={"CARGO_TARGET_DIR": os.path.join(wt, "target-verif")}); res["compiles_with_hooks"] = rc == 0
    rc, out = sh("cargo test --offline 2>&1 | grep -E '^test result|FAILED|panicked at' | head -8", cwd=wt, env=tgt)
    res["tests"] = out.strip()
    res["tests_pass"] = out.count("test result: ok") >= 3 and "FAILED" not in out
    rc1 = demo("with")
    res["demo_discriminates"] = (rc0 == 0 and rc1 != 0)
sh("git checkout -- src Cargo.toml", cwd=wt)
json.dump(res, open(os.path.join(cdir, "confirm.json"), "w"), indent=1)
print(cdir, {k: v for k, v in res.items() if not k.endswith("_tail") and k != "tests"})
