#!/usr/bin/env python3
"""copy confirmed seeded changes from the scratch worktrees into /verif/seeded/<id>/ (patch.diff, demo sources, meta.json
with what it needs, what was run, and which checks caught it)"""
import glob, json, os, shutil
for cdir in sorted(glob.glob("/tmp/wt-C*/SEED/change*")):
    prop = cdir.split("/")[2][3:]
    k = cdir[-1]
    sid = f"{prop}-{k}"
    if not (os.path.exists(f"{cdir}/patch.diff") and os.path.exists(f"{cdir}/meta.json")):
        continue
    conf = json.load(open(f"{cdir}/confirm.json")) if os.path.exists(f"{cdir}/confirm.json") else {}
    res = json.load(open(f"{cdir}/result.json")) if os.path.exists(f"{cdir}/result.json") else {}
    if "applies" not in conf and "applies" in res:
        conf = {k2: res.get(k2) for k2 in ("applies", "compiles", "tests_pass", "demo_discriminates", "demo_with_rc", "demo_without_rc")}
    if not (conf.get("applies") and conf.get("compiles") and conf.get("tests_pass") and conf.get("demo_discriminates")):
        print("NOT CONFIRMED, skipped:", sid, conf); continue
    dst = f"/verif/seeded/{sid}"
    os.makedirs(dst, exist_ok=True)
    shutil.copy(f"{cdir}/patch.diff", f"{dst}/patch.diff")
    if os.path.isdir(f"{dst}/demo"): shutil.rmtree(f"{dst}/demo")
    os.makedirs(f"{dst}/demo/src", exist_ok=True)
    for f in glob.glob(f"{cdir}/demo/Cargo.toml") + glob.glob(f"{cdir}/demo/src/*.rs") + glob.glob(f"{cdir}/demo/tests/*.rs") + glob.glob(f"{cdir}/demo/.cargo/config.toml"):
        rel = os.path.relpath(f, f"{cdir}/demo")
        os.makedirs(os.path.dirname(f"{dst}/demo/{rel}") or f"{dst}/demo", exist_ok=True)
        shutil.copy(f, f"{dst}/demo/{rel}")
    meta = json.load(open(f"{cdir}/meta.json"))
    meta_out = {
        "id": sid, "breaks_property": prop,
        "summary": meta.get("summary"), "needs_to_manifest": meta.get("needs"), "files": meta.get("files"),
        "demo_cmd": meta.get("demo_cmd"),
        "confirmed_by_me": {"patch_applies": conf.get("applies"), "crate_compiles": conf.get("compiles"),
                            "compiles_with_hooks": conf.get("compiles_with_hooks"),
                            "existing_tests_pass_with_change": conf.get("tests_pass"),
                            "demo_rc_without_change": conf.get("demo_without_rc"), "demo_rc_with_change": conf.get("demo_with_rc"),
                            "what_i_ran": "tools/seedconfirm.py in the scratch worktree (git apply; cargo build; cargo test --offline; demo with and without), then tools/seedrun.py (git -C /repo apply; ./check <property> --tier quick; git -C /repo checkout -- .)"},
        "first_round_checks": {p: {"caught": r["rc"] == 1, "verdict": (r["lines"][0] if r["lines"] else "")[:200], "first_failing_cases": r.get("replay_head", [])[:3]}
                               for p, r in res.get("checks", {}).items()},
    }
    res2 = json.load(open(f"{cdir}/result2.json")) if os.path.exists(f"{cdir}/result2.json") else {}
    if res2:
        meta_out["second_round_checks"] = {p: {"caught": r["rc"] == 1, "verdict": (r["lines"][0] if r["lines"] else "")[:200], "first_failing_cases": r.get("replay_head", [])[:3]}
                                           for p, r in res2.get("checks", {}).items()}
    fires = []
    for rr in (res, res2):
        for p, r in rr.get("checks", {}).items():
            if r["rc"] != 1: continue
            for h in r.get("replay_head", [])[:4]:
                if h.startswith("{"):
                    try: fires.append(f"{p}: correspondence/obligation {json.loads(h).get('id', json.loads(h).get('kind'))}")
                    except Exception:
                        import re
                        m = re.search(r'"id": "([^"]+)"', h); fires.append(f"{p}: correspondence/obligation {m.group(1) if m else '?'}")
                else:
                    fires.append(f"{p}: search `{h.split(' ')[0]}` e.g. `{h[:90]}`"); break
    meta_out["caught_by"] = "; ".join(dict.fromkeys(fires))
    json.dump(meta_out, open(f"{dst}/meta.json", "w"), indent=1)
    print("kept", sid, {p: ("caught" if r["rc"] == 1 else "MISSED") for p, r in res.get("checks", {}).items()})
