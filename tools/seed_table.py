#!/usr/bin/env python3
"""print the markdown table of DESIGN.md §12.7 from /verif/seeded/*/meta.json"""
import glob, json, re
rows = []
for f in sorted(glob.glob("/verif/seeded/*/meta.json")):
    m = json.load(open(f))
    s = re.sub(r"\s+", " ", m.get("summary") or "")
    s = s[:150].rsplit(" ", 1)[0] + " …"
    def fmt(d):
        out = []
        for p, r in sorted((d or {}).items()):
            first = (r.get("first_failing_cases") or [""])[0]
            tag = "caught" if r.get("caught") else "**missed**"
            nf = " (no-failing-input-found)" if "no-failing-input-found" in (r.get("verdict") or "") else ""
            out.append(f"{p}: {tag}{nf}")
        return "; ".join(out)
    r1 = fmt(m.get("first_round_checks"))
    r2 = fmt(m.get("second_round_checks"))
    rows.append(f"| {m['id']} | {s} | {r1} | {r2 or '—'} | {m.get('caught_by', '')} |")
print("| seed | change (abridged; full text in seeded/<id>/meta.json) | round 1 (quick tier) | after strengthening | which part of the check fires |")
print("|---|---|---|---|---|")
print("\n".join(rows))
