#!/usr/bin/env python3
"""Evaluate a seeded breaking change: tools/seedrun.py <worktree> <change-dir> <property> [more properties…]

1. confirm in the scratch worktree: patch applies, crate compiles, the existing test suite passes with it,
   the demonstration fails with it and passes without it;
2. apply the patch to /repo (never committed), run ./check <property> (quick) for each listed property, undo;
3. print a JSON summary (also written to <change-dir>/result.json).
"""
import json, os, subprocess, sys, time

def sh(cmd, cwd=None, env=None, timeout=3600):
    e = dict(os.environ); e["CARGO_NET_OFFLINE"] = "true"
    if env: e.update(env)
    p = subprocess.run(cmd, cwd=cwd, env=e, shell=isinstance(cmd, str), stdout=subprocess.PIPE, stderr=subprocess.STDOUT, text=True, timeout=timeout)
    return p.returncode, p.stdout

wt, cdir, props = sys.argv[1], sys.argv[2], sys.argv[3:]
patch = os.path.join(cdir, "patch.diff")
meta = json.load(open(os.path.join(cdir, "meta.json"))) if os.path.exists(os.path.join(cdir, "meta.json")) else {}
res = {"change": cdir, "meta_summary": meta.get("summary", "")[:300], "needs": meta.get("needs", "")[:300]}
tgt = {"CARGO_TARGET_DIR": os.path.join(wt, "target")}
skip_confirm = os.environ.get("SEED_SKIP_CONFIRM") == "1"

def demo(label):
    d = os.path.join(cdir, "demo")
    cmd = meta.get("demo_cmd") or "cargo run --offline"
    if "cargo test" in cmd: cmd = "cargo test --offline"
    elif "--release" in cmd: cmd = "cargo run --offline --release"
    else: cmd = "cargo run --offline"
    env = dict(tgt)
    if "rustfft_verif" in (meta.get("demo_cmd") or "") or os.path.exists(os.path.join(d, ".cargo", "config.toml")):
        pass
    if "RUSTFLAGS" in (meta.get("demo_cmd") or ""):
        env["RUSTFLAGS"] = "--cfg rustfft_verif"
    env["CARGO_TARGET_DIR"] = os.path.join(wt, "target-demo")
    rc, out = sh(cmd, cwd=d, env=env)
    res[f"demo_{label}_rc"] = rc
    res[f"demo_{label}_tail"] = out[-300:]
    return rc

if not skip_confirm:
    sh("git checkout -- src Cargo.toml", cwd=wt)
    rc0 = demo("without")
    rc, out = sh(["git", "apply", patch], cwd=wt)
    res["applies"] = rc == 0
    if rc == 0:
        rc, out = sh("cargo build --offline", cwd=wt, env=tgt)
        res["compiles"] = rc == 0
        rc, out = sh("cargo test --offline 2>&1 | grep -E '^test result|FAILED|panicked' | head -8", cwd=wt, env=tgt)
        res["tests"] = out.strip()
        res["tests_pass"] = "FAILED" not in out and "failed" not in out.replace("0 failed", "") and "test result: ok" in out
        rc1 = demo("with")
        res["demo_discriminates"] = (rc0 == 0 and rc1 != 0)
    sh("git checkout -- src Cargo.toml", cwd=wt)

# run my checks against /repo with the patch applied
rc, out = sh(["git", "-C", "/repo", "status", "--short"])
if out.strip():
    print("refusing: /repo working tree not clean:", out); sys.exit(2)
rc, out = sh(["git", "-C", "/repo", "apply", patch])
res["applies_to_repo"] = rc == 0
res["checks"] = {}
try:
    if rc == 0:
        for p in props:
            t = time.time()
            rc, out = sh(["/verif/check", p, "--tier", "quick"], cwd="/verif", timeout=7200)
            lines = [l for l in out.splitlines() if l.startswith(("VIOLATION", "KNOWN-FINDING", "["))]
            res["checks"][p] = {"rc": rc, "wall_s": round(time.time() - t, 1), "lines": [l[:300] for l in lines][-4:]}
            # keep a copy of the replay for the record
            for l in lines:
                if l.startswith("VIOLATION"):
                    rp = l.split("replay=")[1].split()[0]
                    if os.path.exists(rp):
                        d = json.load(open(rp))
                        keys = [f.get("key", "")[:160] for f in d.get("failures", [])[:5]] or [json.dumps(b)[:300] for b in d.get("broken", [])[:4]]
                        res["checks"][p]["replay_head"] = keys
finally:
    sh(["git", "-C", "/repo", "checkout", "--", "."])
    sh(["git", "-C", "/repo", "clean", "-fdq", "src"])
    # the Gen/*.lean files were regenerated from the patched tree: regenerate them from the clean one
    for t in ("t1_scratch", "t6_twiddles", "t4_scan", "t5_surface"):
        sh([sys.executable, f"/verif/tools/{t}.py"])
json.dump(res, open(os.path.join(cdir, os.environ.get("SEED_RESULT", "result.json")), "w"), indent=1)
print(json.dumps(res, indent=1))
