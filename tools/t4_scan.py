#!/usr/bin/env python3
"""Translator T4: structural scan of /repo/src, emitted as Lean data (lean/RFV/Gen/Scan.lean), regenerated on every run.

Lists, outside #[cfg(test)] modules and outside the verification hooks (verif_*.rs, #[cfg(rustfft_verif)] blocks):
  * interior mutability / shared mutable state: UnsafeCell, Cell<, RefCell, Atomic*, Mutex, RwLock, OnceCell, OnceLock,
    lazy_static, `static mut`, thread_local!
  * `unsafe impl Send|Sync`
  * shared-to-mutable pointer casts: `as *mut` whose source is not an `as_mut_ptr()` / `&mut` on the same expression, `transmute`
  * inside every function that takes an immutable slice parameter and whose name marks it as part of the immutable entry
    (`process_immutable_with_scratch`, `*_immut*`): any `workaround_transmute_mut(<immutable param>)`,
    `<immutable param>.as_ptr() as *mut`, or `store*`/`=` through the immutable parameter
  * every CPU-feature detection site and every `TypeId::of` site with its enclosing function (for C13)
Anything it cannot classify is listed as `unclassified` (fail closed: the Lean theorems require that list to be empty).
"""
import os, re, sys

REPO = os.environ.get("RFV_REPO", "/repo")
SRC = os.path.join(REPO, "src")

def strip_comments(s):
    s = re.sub(r"/\*.*?\*/", lambda m: "\n" * m.group(0).count("\n"), s, flags=re.S)
    return re.sub(r"//[^\n]*", "", s)

def drop_blocks(src, start_re):
    """blank out every `{...}` block that follows a match of start_re (e.g. #[cfg(test)] mod … { … })"""
    out = src
    while True:
        m = re.search(start_re, out)
        if not m:
            return out
        # first `{` or `;` outside (), [] and <> nesting: `fn f() -> [u64; 3] {` has a body, `use a::b;` has none
        i, semi, nest, k = -1, -1, 0, m.end()
        while k < len(out):
            ch = out[k]
            if ch in "([": nest += 1
            elif ch in ")]": nest -= 1
            elif ch == "{" and nest <= 0: i = k; break
            elif ch == ";" and nest <= 0: semi = k; break
            k += 1
        if i == -1 or (semi != -1 and semi < i):
            # an item without a body: blank the attribute line only
            out = out[:m.start()] + " " * (m.end() - m.start()) + out[m.end():]
            continue
        depth, j = 0, i
        while j < len(out):
            if out[j] == "{": depth += 1
            elif out[j] == "}":
                depth -= 1
                if depth == 0: break
            j += 1
        blank = "".join(ch if ch == "\n" else " " for ch in out[m.start():j + 1])
        out = out[:m.start()] + blank + out[j + 1:]

def lean_str(s):
    return '"' + s.replace("\\", "\\\\").replace('"', '\\"') + '"'

files = []
for dp, _, fs in os.walk(SRC):
    for fn in sorted(fs):
        if fn.endswith(".rs") and not fn.startswith("verif_") and fn != "test_utils.rs":
            rel = os.path.relpath(os.path.join(dp, fn), REPO)
            if "/neon/" in rel or "/wasm_simd/" in rel:
                continue   # not compiled on x86_64: out of scope of every claim
            files.append(rel)
files.sort()

interior, unsafe_impl, casts_bad, casts_ok, immut_viol, detect_sites, typeid_sites, unclassified = [], [], [], [], [], [], [], []
immut_fns = 0

INTERIOR = re.compile(r"\b(UnsafeCell|RefCell|OnceCell|OnceLock|Mutex|RwLock|lazy_static|thread_local)\b|\bCell\s*<|\bAtomic[A-Z]\w*|\bstatic\s+mut\b")

for rel in files:
    raw = open(os.path.join(REPO, rel)).read()
    src = strip_comments(raw)
    src = drop_blocks(src, r"#\[cfg\(test\)\]\s*(?:pub\s+)?mod\s+\w+")
    src = drop_blocks(src, r"#\[cfg\(rustfft_verif\)\]")
    src = drop_blocks(src, r"#\[cfg\(all\(rustfft_verif[^\]]*\]")
    lines = src.split("\n")
    # enclosing function per line (last `fn name` seen at or above)
    cur_fn = "?"
    fn_at = []
    for ln in lines:
        m = re.search(r"\bfn\s+([A-Za-z_0-9]+)", ln)
        if m: cur_fn = m.group(1)
        fn_at.append(cur_fn)
    for i, ln in enumerate(lines):
        loc = f"{rel}:{i+1}"
        if INTERIOR.search(ln):
            interior.append(f"{loc}: {ln.strip()[:80]}")
        if re.search(r"\bunsafe\s+impl\b.*\b(Send|Sync)\b", ln):
            unsafe_impl.append(f"{loc}: {ln.strip()[:80]}")
        if re.search(r"\btransmute\s*(::|\()", ln) and "workaround_transmute" not in ln:
            casts_bad.append(f"{loc}: {ln.strip()[:80]}")
        for m in re.finditer(r"([A-Za-z_][A-Za-z_0-9]*)\s+as\s+\*mut\b", ln):
            srcid = m.group(1)
            # the nearest enclosing fn signature above this line
            sig = ""
            for k in range(i, max(-1, i - 40), -1):
                if re.search(r"\bfn\s+\w+", lines[k]):
                    sig = " ".join(lines[k:min(len(lines), k + 8)])
                    break
            declared_mut = re.search(rf"\b{re.escape(srcid)}\s*:\s*\*mut\b", sig) is not None
            if "as_mut_ptr()" in ln or "&mut" in ln or declared_mut:
                casts_ok.append(loc)
            else:
                casts_bad.append(f"{loc}: {ln.strip()[:80]}")
        if re.search(r"\)\s*as\s+\*mut\b", ln) and "as_mut_ptr()" not in ln and "&mut" not in ln:
            casts_bad.append(f"{loc}: {ln.strip()[:80]}")
        if "is_x86_feature_detected!" in ln:
            feats = re.findall(r'is_x86_feature_detected!\("([^"]+)"\)', ln)
            detect_sites.append(f"{rel}:{fn_at[i]}:{','.join(feats)}")
        if "TypeId::of" in ln:
            typeid_sites.append(f"{rel}:{fn_at[i]}")
    # functions of the immutable entry
    for m in re.finditer(r"\bfn\s+(process_immutable_with_scratch|\w*immut\w*)\s*(<[^>]*>)?\s*\(", src):
        name = m.group(1)
        # parameter list
        j, depth = m.end() - 1, 0
        while True:
            if src[j] == "(": depth += 1
            elif src[j] == ")":
                depth -= 1
                if depth == 0: break
            j += 1
        params = src[m.end():j]
        b = src.find("{", j)
        semi = src.find(";", j)
        if b == -1 or (semi != -1 and semi < b):
            continue  # trait method declaration
        depth, k = 0, b
        while k < len(src):
            if src[k] == "{": depth += 1
            elif src[k] == "}":
                depth -= 1
                if depth == 0: break
            k += 1
        body = src[b:k + 1]
        immut_params = [p.split(":")[0].strip().replace("mut ", "") for p in re.split(r",(?![^<]*>)", params)
                        if re.search(r":\s*&\s*(?:'\w+\s+)?\[", p) or re.search(r":\s*impl\s+(AvxArray|SseArray|NeonArray)\b(?!Mut)", p)]
        immut_params = [p for p in immut_params if p and p != "self"]
        if not immut_params:
            continue
        immut_fns += 1
        line0 = src[:m.start()].count("\n") + 1
        for p in immut_params:
            pe = re.escape(p)
            pats = [rf"workaround_transmute_mut\(\s*{pe}\b", rf"\b{pe}\s*\.\s*as_ptr\(\)\s*as\s*\*mut", rf"\b{pe}\s*\[[^\]]*\]\s*=[^=]",
                    rf"\b{pe}\s*\.\s*(store\w*|as_mut_ptr|get_unchecked_mut|iter_mut|copy_from_slice|swap|fill)\s*\(",
                    rf"&mut\s+\*?{pe}\b", rf"\*\s*{pe}\s*\.\s*as_ptr\(\)[^;]*=[^=]"]
            for pat in pats:
                mm = re.search(pat, body)
                if mm:
                    immut_viol.append(f"{rel}:{line0} fn {name}: `{body[mm.start():mm.end()+20].strip()[:60]}` on immutable parameter `{p}`")

def lean_list(name, items, doc):
    body = ",\n  ".join(lean_str(x) for x in items)
    return f"/-- {doc} -/\ndef {name} : List String := [\n  {body}]\n" if items else f"/-- {doc} -/\ndef {name} : List String := []\n"

out = ["/-\nGENERATED by /verif/tools/t4_scan.py from /repo/src on every run — do not edit.\n-/\nnamespace RFV.Scan\n"]
out.append(f"def filesScanned : Nat := {len(files)}\n")
out.append(f"def immutFunctionsScanned : Nat := {immut_fns}\n")
out.append(f"def mutPointerCastsFromMutSources : Nat := {len(casts_ok)}\n")
out.append(lean_list("interiorMutability", interior, "interior mutability / shared mutable state outside tests and hooks"))
out.append(lean_list("unsafeImplSendSync", unsafe_impl, "`unsafe impl Send|Sync`"))
out.append(lean_list("sharedToMutCasts", casts_bad, "`transmute` or `as *mut` whose source is not visibly `&mut`/`as_mut_ptr()`"))
out.append(lean_list("immutEntryWrites", immut_viol, "writes / mutable re-typing through an immutable slice parameter inside the immutable entry's functions"))
out.append(lean_list("featureDetectionSites", sorted(set(detect_sites)), "file:function:features of every is_x86_feature_detected! site"))
out.append(lean_list("typeIdSites", sorted(set(typeid_sites)), "file:function of every TypeId::of site"))
out.append(lean_list("unclassified", unclassified, "shapes the scanner could not classify (fail closed)"))
out.append("end RFV.Scan\n")
text = "\n".join(out)
dst = sys.argv[1] if len(sys.argv) > 1 else "/verif/lean/RFV/Gen/Scan.lean"
old = open(dst).read() if os.path.exists(dst) else None
if old != text:
    open(dst, "w").write(text)
print(f"T4: {len(files)} files, {immut_fns} immutable-entry functions, interior={len(interior)} unsafe_impl={len(unsafe_impl)} bad_casts={len(casts_bad)} immut_writes={len(immut_viol)} detect_sites={len(set(detect_sites))} typeid_sites={len(set(typeid_sites))}")
