#!/usr/bin/env python3
"""round 4: merge the sub-agents' meta.json with my confirmation (/tmp/ev/seeds/<id>/confirm.json), the first-pass check
results (/tmp/ev/seeds/<id>/result.json: machinery as of the start of round 4, run from an isolated copy of /verif against
a clone of /repo with the patch applied) and the re-runs after strengthening (recorded below; run in /repo itself:
git -C /repo apply; ./check <id> --tier quick; git -C /repo checkout -- .)"""
import glob, json, os, re
RERUN = json.load(open("/verif/seeded/round4_reruns.json")) if os.path.exists("/verif/seeded/round4_reruns.json") else {}
n_kept = 0
for d in sorted(glob.glob("/tmp/ev/seeds/C*-5")):
    sid = os.path.basename(d)
    dst = f"/verif/seeded/{sid}"
    if not os.path.isdir(dst):
        print("missing in /verif/seeded:", sid); continue
    conf = json.load(open(f"{d}/confirm.json")) if os.path.exists(f"{d}/confirm.json") else {}
    res = json.load(open(f"{d}/result.json")) if os.path.exists(f"{d}/result.json") else {}
    if not (conf.get("applies") and conf.get("compiles") and conf.get("tests_pass") and conf.get("demo_discriminates")):
        print("NOT CONFIRMED:", sid, conf); continue
    meta = json.load(open(f"{d}/meta.json"))
    out = {
        "id": sid, "round": 4, "breaks_property": sid.split("-")[0],
        "summary": meta.get("summary"), "needs_to_manifest": meta.get("needs_to_manifest") or meta.get("needs"),
        "files": meta.get("files"), "demo_cmd": meta.get("demo_cmd"),
        "confirmed_by_me": {"patch_applies": conf.get("applies"), "crate_compiles": conf.get("compiles"),
            "compiles_with_hooks": conf.get("compiles_with_hooks"), "existing_tests_pass_with_change": conf.get("tests_pass"),
            "demo_rc_without_change": conf.get("demo_without_rc"), "demo_rc_with_change": conf.get("demo_with_rc"),
            "what_i_ran": "tools/seedconfirm.py in the agent's scratch worktree (git apply; cargo build; RUSTFLAGS=--cfg rustfft_verif cargo check; cargo test --offline; demo with and without the change)"},
        "first_round_checks": {p: {"caught": r["rc"] == 1, "verdict": next((l for l in r["lines"] if l.startswith("VIOLATION")), (r["lines"] or [""])[-1])[:200].replace("/tmp/ev/verif", "/verif"),
                                   "first_failing_cases": [str(x)[:200] for x in r.get("replay_head", [])[:3]]}
                               for p, r in res.get("checks", {}).items()},
        "first_round_note": "machinery as committed when the last round-4 agent finished (it already contained the strengthening prompted by the agents' own reports, see DESIGN 12.10), run from an isolated copy of /verif against a clone of /repo with the patch applied",
    }
    if sid in RERUN:
        out["second_round_checks"] = {p: {"caught": v[0] == "caught", "verdict": v[1], "first_failing_cases": v[2]} for p, v in RERUN[sid].items()}
        out["strengthening"] = "; ".join(v[3] for v in RERUN[sid].values())
        out["second_round_note"] = "run in /repo itself: git -C /repo apply patch.diff; ./check <id> --tier quick; git -C /repo checkout -- ."
    fires = []
    for rr in (out.get("first_round_checks", {}), out.get("second_round_checks", {})):
        for p, r in rr.items():
            if not r["caught"]: continue
            for h in r["first_failing_cases"][:3]:
                if h.startswith("{"):
                    m = re.search(r'"id": "([^"]+)"', h) or re.search(r'"target": "([^"]+)"', h) or re.search(r'"kind": "([^"]+)"', h)
                    fires.append(f"{p}: correspondence/obligation {m.group(1) if m else '?'}")
                else:
                    fires.append(f"{p}: search `{h.split(' ')[0]}` e.g. `{h[:100]}`"); break
    out["caught_by"] = "; ".join(dict.fromkeys(fires))
    json.dump(out, open(f"{dst}/meta.json", "w"), indent=1)
    n_kept += 1
    print(sid, {p: ("caught" if r["caught"] else "MISSED") for p, r in out["first_round_checks"].items()}, "->", {p: "caught" for p in out.get("second_round_checks", {})})
print("kept", n_kept)
