def hello := "world"
