/- helper lemmas about the AVX planner model (core Lean only) -/
import RFV.Model.Avx
namespace RFV

theorem avxHeuristic32_bfly (len : Nat) (f : PartialFactors) (b : Nat) (rs : List Nat)
    (h : avxHeuristic32 len f = some (b, rs)) : avxIsButterfly .f32 b = true := by
  unfold avxHeuristic32 at h
  repeat' split at h
  all_goals (first | (simp only [Option.some.injEq, Prod.mk.injEq] at h; obtain ⟨rfl, _⟩ := h; decide) | (simp at h; done))

theorem avxHeuristic64_bfly (f : PartialFactors) (b : Nat) (rs : List Nat)
    (h : avxHeuristic64 f = some (b, rs)) : avxIsButterfly .f64 b = true := by
  unfold avxHeuristic64 at h
  repeat' split at h
  all_goals (first | (simp only [Option.some.injEq, Prod.mk.injEq] at h; obtain ⟨rfl, _⟩ := h; decide) | (simp at h; done))

theorem avxIsButterfly_other (b : Nat) : avxIsButterfly .other b = avxIsButterfly .f64 b := rfl

theorem avxHardcoded_bfly (ty : ElemTy) (p23 : Nat) (p : AvxPlan) (h : avxHardcoded ty p23 = some p) :
    ∃ b, p.base = .bfly b ∧ avxIsButterfly ty b = true := by
  cases ty <;>
  · simp only [avxHardcoded] at h
    repeat' split at h
    all_goals (first | (simp only [Option.some.injEq] at h; subst h; exact ⟨_, rfl, by decide⟩) | (simp at h; done))

theorem avxBaseOther_bfly (ty : ElemTy) (avx2 : Bool) (len other : Nat) (p : AvxPlan) (b : Nat)
    (hp : avxBaseOther ty avx2 len other = .ok p) (hb : p.base = .bfly b) : avxIsButterfly ty b = true := by
  unfold avxBaseOther at hp
  split at hp
  · injection hp with hp; subst hp
    simp only [AvxPlan.butterfly, AvxPlan.mk', AvxBase.bfly.injEq] at hb; subst hb; assumption
  · simp only at hp
    split at hp
    · injection hp with hp; subst hp; simp [AvxPlan.mk'] at hb
    · split at hp
      · injection hp with hp; subst hp; simp [AvxPlan.mk'] at hb
      · simp at hp

/-- whatever base `plan_mixed_radix_base` returns, if it is a butterfly then `construct_butterfly` knows it -/
theorem avxPlanBase_bfly_valid (ty : ElemTy) (avx2 : Bool) (len : Nat) (f : PartialFactors) (p : AvxPlan) (b : Nat)
    (hp : avxPlanBase ty avx2 len f = .ok p) (hb : p.base = .bfly b) : avxIsButterfly ty b = true := by
  unfold avxPlanBase at hp
  split at hp
  · exact avxBaseOther_bfly _ _ _ _ _ _ hp hb
  · split at hp
    · injection hp with hp; subst hp
      simp only [AvxPlan.butterfly, AvxPlan.mk', AvxBase.bfly.injEq] at hb; subst hb; assumption
    · simp only at hp
      split at hp
      · rename_i h
        injection hp with hp; subst hp
        simp only [AvxPlan.butterfly, AvxPlan.mk', AvxBase.bfly.injEq] at hb; subst hb; exact h.2
      · split at hp
        · rename_i q hq
          injection hp with hp; subst hp
          obtain ⟨b', hb', hv⟩ := avxHardcoded_bfly _ _ _ hq
          rw [hb'] at hb; injection hb with hb; subst hb; exact hv
        · split at hp
          · rename_i b' rs hq
            injection hp with hp; subst hp
            simp only [AvxPlan.butterfly, AvxPlan.mk', AvxBase.bfly.injEq] at hb; subst hb
            cases ty
            · exact avxHeuristic32_bfly _ _ _ _ hq
            · exact avxHeuristic64_bfly _ _ _ hq
            · exact avxHeuristic64_bfly _ _ _ hq
          · simp at hp

end RFV

namespace RFV

@[simp] theorem AvxPlan.pushRadix_base (p : AvxPlan) (r : Nat) : (p.pushRadix r).base = p.base := rfl
@[simp] theorem AvxPlan.pushRadixPower_base (p : AvxPlan) (r k : Nat) : (p.pushRadixPower r k).base = p.base := rfl

theorem avxStep16_base (rf rf' : PartialFactors) (plan plan' : AvxPlan)
    (h : avxStep16 rf plan = .ok (rf', plan')) : plan'.base = plan.base := by
  unfold avxStep16 at h
  split at h
  · split at h
    · simp at h
    · injection h with h; injection h with _ h2; subst h2; rfl
  · injection h with h; injection h with _ h2; subst h2; rfl

theorem avxPushChain_base (rf : PartialFactors) (p12 p6 : Nat) (plan : AvxPlan) :
    (avxPushChain rf p12 p6 plan).base = plan.base := by
  unfold avxPushChain
  simp only
  repeat' split
  all_goals rfl

theorem avxPlanMixedRadix_base (rf : PartialFactors) (plan q : AvxPlan)
    (h : avxPlanMixedRadix rf plan = .ok q) : q.base = plan.base := by
  unfold avxPlanMixedRadix at h
  split at h
  · injection h with h; subst h; rfl
  · simp only at h
    generalize rf.divideBy _ = d at h
    cases d with
    | none => simp at h
    | some rf1 =>
      simp only at h
      cases hs : avxStep16 rf1 plan with
      | error e => simp [hs] at h
      | ok pr =>
        obtain ⟨rf', plan'⟩ := pr
        simp only [hs] at h
        injection h with h; subst h
        rw [avxPushChain_base]
        exact avxStep16_base _ _ _ _ hs

theorem avxReplan_base (cached : Nat → Bool) (plan : AvxPlan) :
    (avxReplan cached plan).base = plan.base ∨ ∃ n, (avxReplan cached plan).base = .cache n := by
  unfold avxReplan
  simp only
  split
  · exact Or.inr ⟨_, rfl⟩
  · split
    · exact Or.inr ⟨_, rfl⟩
    · exact Or.inl rfl

end RFV
