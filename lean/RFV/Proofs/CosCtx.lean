/-
From a cosine system to a lawful twiddle system on the complex pairs `Cx R`:
`cosCtx S inverse invR` (Props/C01BflyCx) satisfies `Ctx.Lawful` with `ok n := 0 < n ∧ n ∣ N`, given that the system is
*principal* (the orthogonality law, an extra hypothesis exactly as in `Ctx.Lawful`) and that `invR m · m = 1` for the
divisors of `N`.  Everything else — angle addition, periodicity, `cos² + sin² = 1`, the scaling law — is derived from the
`CosSys` laws through an integer-indexed view `csZ`.
-/
import Mathlib.Tactic.Ring
import Mathlib.Tactic.Linarith
import Mathlib.Tactic.LinearCombination
import Mathlib.Data.Int.ModEq
import Mathlib.Algebra.Ring.MinimalAxioms
import RFV.Props.C01BflyCx
import RFV.Proofs.Algebra.Basic

open Finset BigOperators

namespace RFV

variable {R : Type} [CommRing R]

/-! ### `Cx R` is a commutative ring -/

instance : One (Cx R) := ⟨⟨1, 0⟩⟩
instance : Neg (Cx R) := ⟨fun a => ⟨-a.re, -a.im⟩⟩

@[simp] theorem Cx.one_re : (1 : Cx R).re = 1 := rfl
@[simp] theorem Cx.one_im : (1 : Cx R).im = 0 := rfl
@[simp] theorem Cx.neg_re (a : Cx R) : (-a).re = -a.re := rfl
@[simp] theorem Cx.neg_im (a : Cx R) : (-a).im = -a.im := rfl

instance : CommRing (Cx R) :=
  CommRing.ofMinimalAxioms
    (by intro a b c; ext <;> simp <;> ring)
    (by intro a; ext <;> simp)
    (by intro a; ext <;> simp)
    (by intro a b c; ext <;> simp <;> ring)
    (by intro a b; ext <;> simp <;> ring)
    (by intro a; ext <;> simp)
    (by intro a b c; ext <;> simp <;> ring)

theorem Cx.natCast_eq (m : Nat) : ((m : Nat) : Cx R) = ⟨(m : R), 0⟩ := by
  induction m with
  | zero => ext <;> simp
  | succ m ih => rw [Nat.cast_succ, ih]; ext <;> simp

/-! ### integer-indexed cosines -/

section
variable {N : Nat} (S : CosSys R N)

/-- `cos(2π z / N)` for an integer `z` -/
def csZ (z : Int) : R := S.cs (z % (N : Int)).toNat

theorem csZ_ofNat (hN : 0 < N) (a : Nat) : csZ S (a : Int) = S.cs a := by
  unfold csZ
  have : ((a : Int) % (N : Int)).toNat = a % N := by
    rw [show ((a : Int) % (N : Int)) = ((a % N : Nat) : Int) from (Int.natCast_mod a N).symm, Int.toNat_natCast]
  rw [this, S.cs_mod]

theorem csZ_add_N (z : Int) : csZ S (z + N) = csZ S z := by
  unfold csZ; rw [Int.add_emod_right]

theorem csZ_congr (hN : 0 < N) {x y : Int} (h : x % (N : Int) = y % (N : Int)) : csZ S x = csZ S y := by
  unfold csZ; rw [h]

/-- every integer is congruent to a natural number -/
theorem csZ_eq_nat (hN : 0 < N) (z : Int) : csZ S z = S.cs (z % (N : Int)).toNat := rfl

theorem toNat_emod_lt (hN : 0 < N) (z : Int) : (z % (N : Int)).toNat < N := by
  have h1 : 0 ≤ z % (N : Int) := Int.emod_nonneg _ (by exact_mod_cast hN.ne')
  have h2 : z % (N : Int) < N := Int.emod_lt_of_pos _ (by exact_mod_cast hN)
  omega

/-- `z ≡ (z mod N as a natural number)` -/
theorem modEq_toNat (hN : 0 < N) (z : Int) : Int.ModEq (N : Int) z (((z % (N : Int)).toNat : Nat) : Int) := by
  have h1 : 0 ≤ z % (N : Int) := Int.emod_nonneg _ (by exact_mod_cast hN.ne')
  rw [Int.toNat_of_nonneg h1]
  exact (Int.mod_modEq z N).symm

theorem csZ_modEq (hN : 0 < N) {x y : Int} (h : Int.ModEq (N : Int) x y) : csZ S x = csZ S y :=
  csZ_congr S hN h

theorem csZ_neg (hN : 0 < N) (z : Int) : csZ S (-z) = csZ S z := by
  set a := (z % (N : Int)).toNat with ha
  have haN : a < N := toNat_emod_lt hN z
  have hza : Int.ModEq (N : Int) z (a : Int) := modEq_toNat hN z
  have e1 : csZ S z = S.cs a := rfl
  have e2 : csZ S (-z) = csZ S ((N - a : Nat) : Int) := by
    apply csZ_modEq S hN
    have hc : ((N - a : Nat) : Int) = -(a : Int) + N := by omega
    rw [hc]
    have h1 : Int.ModEq (N : Int) (-z) (-(a : Int)) := hza.neg
    have h2 : Int.ModEq (N : Int) (-(a : Int)) (-(a : Int) + N) := by
      unfold Int.ModEq; rw [Int.add_emod_right]
    exact h1.trans h2
  rw [e2, csZ_ofNat S hN, e1, S.cs_even a haN.le]

theorem csZ_prod (hN : 0 < N) (x y : Int) : 2 * (csZ S x * csZ S y) = csZ S (x + y) + csZ S (x - y) := by
  set a := (x % (N : Int)).toNat with ha
  set b := (y % (N : Int)).toNat with hb
  have hbN : b < N := toNat_emod_lt hN y
  have hxa : Int.ModEq (N : Int) x (a : Int) := modEq_toNat hN x
  have hyb : Int.ModEq (N : Int) y (b : Int) := modEq_toNat hN y
  have e1 : csZ S x = S.cs a := rfl
  have e2 : csZ S y = S.cs b := rfl
  have e3 : csZ S (x + y) = S.cs (a + b) := by
    rw [← csZ_ofNat S hN (a + b)]
    apply csZ_modEq S hN
    push_cast
    exact hxa.add hyb
  have e4 : csZ S (x - y) = S.cs (a + (N - b % N)) := by
    rw [← csZ_ofNat S hN (a + (N - b % N))]
    apply csZ_modEq S hN
    have hbm : b % N = b := Nat.mod_eq_of_lt hbN
    rw [hbm]
    have hc : ((a + (N - b) : Nat) : Int) = (a : Int) - b + N := by omega
    rw [hc]
    have h1 : Int.ModEq (N : Int) (x - y) ((a : Int) - b) := hxa.sub hyb
    have h2 : Int.ModEq (N : Int) ((a : Int) - b) ((a : Int) - b + N) := by
      unfold Int.ModEq; rw [Int.add_emod_right]
    exact h1.trans h2
  rw [e1, e2, e3, e4]
  exact S.prod a b

theorem csZ_zero (hN : 0 < N) : csZ S 0 = 1 := by
  have := csZ_ofNat S hN 0
  simpa [S.cs_zero] using this

theorem csZ_quarter (hN : 0 < N) (h4 : 4 ∣ N) : csZ S ((N / 4 : Nat) : Int) = 0 := by
  rw [csZ_ofNat S hN]; exact S.cs_quarter

/-- half turn -/
theorem csZ_half (hN : 0 < N) (h4 : 4 ∣ N) (z : Int) : csZ S (z + 2 * ((N / 4 : Nat) : Int)) = - csZ S z := by
  -- 2·cos(z + Q)·cos(Q) = cos(z + 2Q) + cos(z), and cos Q = 0
  have h := csZ_prod S hN (z + ((N / 4 : Nat) : Int)) ((N / 4 : Nat) : Int)
  rw [csZ_quarter S hN h4, mul_zero, mul_zero] at h
  have e1 : z + ((N / 4 : Nat) : Int) + ((N / 4 : Nat) : Int) = z + 2 * ((N / 4 : Nat) : Int) := by ring
  have e2 : z + ((N / 4 : Nat) : Int) - ((N / 4 : Nat) : Int) = z := by ring
  rw [e1, e2] at h
  exact eq_neg_of_add_eq_zero_left h.symm

end

/-! ### the unit circle -/

section
variable {N : Nat} (S : CosSys R N)

/-- the quarter turn as an integer -/
def Qz (N : Nat) : Int := ((N / 4 : Nat) : Int)

/-- `sin(2π z / N) = cos(2π z / N - π/2)` -/
def snZ (z : Int) : R := csZ S (z - Qz N)

theorem half_cancel {hf : R} (h2 : 2 * hf = 1) {a b : R} (h : 2 * a = 2 * b) : a = b := by
  calc a = (2 * hf) * a := by rw [h2, one_mul]
    _ = hf * (2 * a) := by ring
    _ = hf * (2 * b) := by rw [h]
    _ = (2 * hf) * b := by ring
    _ = b := by rw [h2, one_mul]

theorem cs_add (hN : 0 < N) (h4 : 4 ∣ N) (x y : Int) :
    csZ S (x + y) = csZ S x * csZ S y - snZ S x * snZ S y := by
  apply half_cancel S.two_half
  have p1 := csZ_prod S hN x y
  have p2 := csZ_prod S hN (x - Qz N) (y - Qz N)
  have e1 : x - Qz N + (y - Qz N) = (x + y) + -(2 * Qz N) := by ring
  have e2 : x - Qz N - (y - Qz N) = x - y := by ring
  rw [e1, e2] at p2
  -- cos(w - 2Q) = -cos w
  have hh : csZ S ((x + y) + -(2 * Qz N)) = - csZ S (x + y) := by
    have := csZ_half S hN h4 ((x + y) + -(2 * Qz N))
    have e : (x + y) + -(2 * Qz N) + 2 * ((N / 4 : Nat) : Int) = x + y := by unfold Qz; ring
    rw [e] at this
    rw [this]; ring
  rw [hh] at p2
  unfold snZ
  linear_combination p2 - p1

theorem sn_add (hN : 0 < N) (h4 : 4 ∣ N) (x y : Int) :
    snZ S (x + y) = csZ S x * snZ S y + snZ S x * csZ S y := by
  apply half_cancel S.two_half
  have p1 := csZ_prod S hN x (y - Qz N)
  have p2 := csZ_prod S hN (x - Qz N) y
  have e1 : x + (y - Qz N) = (x + y) - Qz N := by ring
  have e2 : x - (y - Qz N) = (x - y) + Qz N := by ring
  have e3 : x - Qz N + y = (x + y) - Qz N := by ring
  have e4 : x - Qz N - y = (x - y) - Qz N := by ring
  rw [e1, e2] at p1
  rw [e3, e4] at p2
  -- cos(w + Q) + cos(w - Q) = 2 cos w cos Q = 0
  have p3 := csZ_prod S hN (x - y) (Qz N)
  have hq : csZ S (Qz N) = 0 := csZ_quarter S hN h4
  rw [hq, mul_zero, mul_zero] at p3
  unfold snZ
  linear_combination (-1) * p1 - p2 + p3

theorem cs_sq_add_sn_sq (hN : 0 < N) (h4 : 4 ∣ N) (x : Int) : csZ S x * csZ S x + snZ S x * snZ S x = 1 := by
  have h := cs_add S hN h4 x (-x)
  have e : x + -x = 0 := by ring
  rw [e, csZ_zero S hN, csZ_neg S hN] at h
  -- sin(-x) = -sin x
  have hs : snZ S (-x) = - snZ S x := by
    unfold snZ
    have e1 : -x - Qz N = -(x + Qz N) := by ring
    rw [e1, csZ_neg S hN]
    have := csZ_half S hN h4 (x - Qz N)
    have e2 : x - Qz N + 2 * ((N / 4 : Nat) : Int) = x + Qz N := by unfold Qz; ring
    rw [e2] at this
    exact this
  rw [hs] at h
  linear_combination -h

theorem sn_zero (hN : 0 < N) (h4 : 4 ∣ N) : snZ S 0 = 0 := by
  unfold snZ
  have e : (0 : Int) - Qz N = -(Qz N) := by ring
  rw [e, csZ_neg S hN]; exact csZ_quarter S hN h4

end

/-! ### the twiddle system is lawful -/

section
variable {N : Nat} (S : CosSys R N)

/-- the unit-circle element of angle index `z` -/
def eZ (inverse : Bool) (z : Int) : Cx R := ⟨csZ S z, (if inverse then 1 else -1) * snZ S z⟩

theorem eZ_add (hN : 0 < N) (h4 : 4 ∣ N) (inverse : Bool) (x y : Int) :
    eZ S inverse (x + y) = eZ S inverse x * eZ S inverse y := by
  unfold eZ
  ext
  · simp only [Cx.mul_re]
    rw [cs_add S hN h4]
    cases inverse <;> simp <;> ring
  · simp only [Cx.mul_im]
    rw [sn_add S hN h4]
    cases inverse <;> simp <;> ring

theorem eZ_zero (hN : 0 < N) (h4 : 4 ∣ N) (inverse : Bool) : eZ S inverse 0 = 1 := by
  unfold eZ
  ext
  · simp [csZ_zero S hN]
  · simp [sn_zero S hN h4]

theorem eZ_congr (hN : 0 < N) (inverse : Bool) {x y : Int} (h : x % (N : Int) = y % (N : Int)) :
    eZ S inverse x = eZ S inverse y := by
  unfold eZ snZ
  have h' : (x - Qz N) % (N : Int) = (y - Qz N) % (N : Int) :=
    (show Int.ModEq (N : Int) x y from h).sub_right (Qz N)
  rw [csZ_congr S hN h, csZ_congr S hN h']

/-- the twiddle of `cosCtx` is the unit-circle element of angle index `(k % n)·(N/n)` -/
theorem cosCtx_tw (hN : 0 < N) (h4 : 4 ∣ N) (inverse : Bool) (invR : Nat → R) (k n : Nat) :
    (cosCtx S inverse invR).tw k n = eZ S inverse (((k % n) * (N / n) : Nat) : Int) := by
  unfold cosCtx eZ gridCos gridSin snZ
  ext
  · simp only
    rw [csZ_ofNat S hN]
  · simp only
    congr 1
    -- cos(a + 3Q) = cos(a - Q)  (a full turn apart)
    rw [← csZ_ofNat S hN ((k % n) * (N / n) + 3 * (N / 4))]
    apply csZ_congr S hN
    obtain ⟨q, rfl⟩ := h4
    have e : 4 * q / 4 = q := by omega
    unfold Qz
    rw [e]
    have : (((k % n) * (4 * q / n) + 3 * q : Nat) : Int) = (((k % n) * (4 * q / n) : Nat) : Int) - q + ((4 * q : Nat) : Int) := by
      push_cast; ring
    rw [this, Int.add_emod_right]

theorem cosCtx_tw_zero (hN : 0 < N) (h4 : 4 ∣ N) (inverse : Bool) (invR : Nat → R) (n : Nat) :
    (cosCtx S inverse invR).tw 0 n = 1 := by
  rw [cosCtx_tw S hN h4]
  simp only [Nat.zero_mod, Nat.zero_mul, Nat.cast_zero]
  exact eZ_zero S hN h4 inverse

theorem cosCtx_tw_add (hN : 0 < N) (h4 : 4 ∣ N) (inverse : Bool) (invR : Nat → R) (n a b : Nat)
    (hn : 0 < n ∧ n ∣ N) :
    (cosCtx S inverse invR).tw (a + b) n = (cosCtx S inverse invR).tw a n * (cosCtx S inverse invR).tw b n := by
  rw [cosCtx_tw S hN h4, cosCtx_tw S hN h4, cosCtx_tw S hN h4, ← eZ_add S hN h4]
  apply eZ_congr S hN
  obtain ⟨hn0, ⟨m, rfl⟩⟩ := hn
  have hm : n * m / n = m := Nat.mul_div_cancel_left m hn0
  rw [hm]
  have key : ((a + b) % n * m) % (n * m) = ((a % n * m + b % n * m)) % (n * m) := by
    rw [← Nat.add_mul, Nat.add_mod a b n]
    rw [Nat.mul_mod_mul_right, Nat.mul_mod_mul_right, Nat.mod_mod]
  have := congrArg (fun t : Nat => (t : Int)) key
  simp only [Int.natCast_mod] at this
  push_cast at this ⊢
  exact this

theorem cosCtx_tw_period (hN : 0 < N) (h4 : 4 ∣ N) (inverse : Bool) (invR : Nat → R) (n : Nat) :
    (cosCtx S inverse invR).tw n n = 1 := by
  rw [cosCtx_tw S hN h4]
  simp only [Nat.mod_self, Nat.zero_mul, Nat.cast_zero]
  exact eZ_zero S hN h4 inverse

theorem cosCtx_lawful (hN : 0 < N) (h4 : 4 ∣ N) (inverse : Bool) (invR : Nat → R)
    (hinv : ∀ m, 0 < m → m ∣ N → invR m * (m : R) = 1)
    (horth : ∀ n j, 0 < n → n ∣ N → 0 < j → j < n →
      ∑ k ∈ range n, (cosCtx S inverse invR).tw (j * k) n = 0) :
    (cosCtx S inverse invR).Lawful (fun n => 0 < n ∧ n ∣ N) where
  ok_pos := fun n h => h.1
  ok_dvd := fun n d h hd => ⟨Nat.pos_of_dvd_of_pos hd h.1, dvd_trans hd h.2⟩
  tw_zero := fun n _ => cosCtx_tw_zero S hN h4 inverse invR n
  tw_add := fun n a b hn => cosCtx_tw_add S hN h4 inverse invR n a b hn
  tw_period := fun n _ => cosCtx_tw_period S hN h4 inverse invR n
  tw_scale := fun m n k hmn => by
    rw [cosCtx_tw S hN h4, cosCtx_tw S hN h4]
    obtain ⟨hpos, ⟨t, ht⟩⟩ := hmn
    have hm0 : 0 < m := Nat.pos_of_mul_pos_right hpos
    have hn0 : 0 < n := Nat.pos_of_mul_pos_left hpos
    congr 2
    subst ht
    have e1 : m * n * t / (m * n) = t := Nat.mul_div_cancel_left t hpos
    have e2 : m * n * t / n = m * t := by
      rw [show m * n * t = n * (m * t) by ring]; exact Nat.mul_div_cancel_left _ hn0
    rw [e1, e2, Nat.mul_mod_mul_left]; ring
  tw_orth := fun n j hn hj hjn => horth n j hn.1 hn.2 hj hjn
  conj_add := fun a b => by unfold cosCtx; ext <;> simp <;> ring
  conj_mul := fun a b => by unfold cosCtx; ext <;> simp <;> ring
  conj_conj := fun a => by unfold cosCtx; ext <;> simp
  conj_zero := by unfold cosCtx; ext <;> simp
  conj_tw := fun n k _ => by
    rw [cosCtx_tw S hN h4]
    have h1 := cs_sq_add_sn_sq S hN h4 (((k % n) * (N / n) : Nat) : Int)
    generalize (((k % n) * (N / n) : Nat) : Int) = z at h1 ⊢
    unfold cosCtx eZ
    ext
    · simp only [Cx.mul_re, Cx.one_re]
      cases inverse
      · simp only [Bool.false_eq_true, if_false]; linear_combination h1
      · simp only [if_true]; linear_combination h1
    · simp only [Cx.mul_im, Cx.one_im]
      cases inverse
      · simp only [Bool.false_eq_true, if_false]; ring
      · simp only [if_true]; ring
  inv_mul := fun m hm => by
    rw [Cx.natCast_eq]
    unfold cosCtx
    ext
    · simp [hinv m hm.1 hm.2]
    · simp
  conj_inv := fun m _ => by unfold cosCtx; ext <;> simp

end

end RFV
