/-
Helper lemmas for "no constructor assert fires on a planned tree" (`Recipe.spec`, `RFV/Model/Spec.lean`):
`isPrimeNat` is primality, and the predicate `SpecOK` is preserved by every construction of the scalar planner.
The scratch formulas come from the generated `RFV/Gen/Scratch.lean`; they are only ever used through
`simp only [Gen.…]` followed by `split`/`omega`.
-/
import RFV.Proofs.PlanScalar
import RFV.Model.Spec

namespace RFV

/-! ### `isPrimeNat` (the specification of `miller_rabin`) is primality -/

theorem isPrimeAux_of_forall (n : Nat) : ∀ fuel d, (∀ m, d ≤ m → m * m ≤ n → ¬ m ∣ n) →
    isPrimeAux n fuel d = true := by
  intro fuel
  induction fuel with
  | zero => intro d _; rfl
  | succ fuel ih =>
    intro d h
    rw [isPrimeAux]
    split
    · rfl
    · rename_i hdd
      split
      · rename_i hmod
        exact absurd (Nat.dvd_of_mod_eq_zero hmod) (h d (le_refl _) (by omega))
      · exact ih (d + 1) (fun m hm hmm => h m (by omega) hmm)

theorem forall_of_isPrimeAux (n : Nat) : ∀ fuel d, isPrimeAux n fuel d = true →
    ∀ m, d ≤ m → m < d + fuel → m * m ≤ n → ¬ m ∣ n := by
  intro fuel
  induction fuel with
  | zero => intro d _ m h1 h2; omega
  | succ fuel ih =>
    intro d h m h1 h2 h3
    rw [isPrimeAux] at h
    split at h
    · rename_i hdd
      have : d * d ≤ m * m := Nat.mul_le_mul h1 h1
      omega
    · split at h
      · cases h
      · rename_i hmod
        rcases Nat.eq_or_lt_of_le h1 with rfl | hlt
        · exact fun hd => hmod (Nat.mod_eq_zero_of_dvd hd)
        · exact ih (d + 1) h m (by omega) (by omega) h3

theorem isPrimeNat_iff (n : Nat) : isPrimeNat n = true ↔ Nat.Prime n := by
  unfold isPrimeNat
  rw [Bool.and_eq_true, decide_eq_true_eq, Nat.prime_def_le_sqrt]
  constructor
  · rintro ⟨h2, ha⟩
    refine ⟨h2, fun m hm hs => ?_⟩
    have hmm : m * m ≤ n := Nat.le_sqrt.1 hs
    have : m ≤ m * m := Nat.le_mul_self m
    exact forall_of_isPrimeAux n n 2 ha m hm (by omega) hmm
  · rintro ⟨h2, hp⟩
    exact ⟨h2, isPrimeAux_of_forall n n 2 (fun m hm hmm => hp m hm (Nat.le_sqrt.2 hmm))⟩

/-! ### the invariant carried through the planner -/

/-- `r` builds without tripping a constructor assert, advertises its own length, and — if it is short enough to
be a child of `MixedRadixSmall` / `GoodThomasAlgorithmSmall` — meets their scratch requirements. -/
def SpecOK (ty : ElemTy) (r : Recipe) : Prop :=
  ∃ s, r.spec ty = .ok s ∧ s.len = r.len ∧ (r.len < 33 → s.oop = 0 ∧ s.inplace ≤ s.len)

theorem smallAsserts_ok (name : String) (w h : Spec) (hw : w.oop = 0 ∧ w.inplace ≤ w.len)
    (hh : h.oop = 0 ∧ h.inplace ≤ h.len) : smallAsserts name w h = .ok () := by
  unfold smallAsserts
  rw [if_neg (by omega), if_neg (by omega), if_neg (by omega), if_neg (by omega)]

theorem radersAsserts_ok (n : Nat) (hp : Nat.Prime n) (hroot : (primitiveRoot n).isSome = true) :
    radersAsserts n = .ok () := by
  unfold radersAsserts
  rw [if_neg (by rw [(isPrimeNat_iff n).2 hp]; simp)]
  obtain ⟨g, hg⟩ := Option.isSome_iff_exists.1 hroot
  rw [hg]

variable {ty : ElemTy}

theorem specOK_dft (n : Nat) : SpecOK ty (.dft n) := by
  unfold SpecOK; rw [Recipe.spec]
  exact ⟨_, rfl, rfl, fun _ => ⟨rfl, le_refl _⟩⟩

theorem specOK_bfly (b : Nat) : SpecOK ty (.bfly b) := by
  unfold SpecOK; rw [Recipe.spec]
  exact ⟨_, rfl, rfl, fun _ => ⟨rfl, Nat.zero_le _⟩⟩

theorem specOK_primeBfly (b : Nat) : SpecOK ty (.primeBfly b) := by
  unfold SpecOK; rw [Recipe.spec]
  exact ⟨_, rfl, rfl, fun _ => ⟨rfl, Nat.zero_le _⟩⟩

/-- `GoodThomasAlgorithmSmall::new`: children short enough, coprime lengths -/
theorem specOK_gtSmall (a b : Recipe) (ha : SpecOK ty a) (hb : SpecOK ty b) (ha33 : a.len < 33)
    (hb33 : b.len < 33) (hg : Nat.gcd a.len b.len = 1) : SpecOK ty (.goodThomasSmall a b) := by
  obtain ⟨sa, ha, hal, has⟩ := ha
  obtain ⟨sb, hb, hbl, hbs⟩ := hb
  have hgcd : ¬ Nat.gcd sa.len sb.len ≠ 1 := by rw [hal, hbl]; exact not_not.2 hg
  unfold SpecOK; rw [Recipe.spec, ha, hb]
  simp only [smallAsserts_ok _ sa sb (has ha33) (hbs hb33), if_neg hgcd]
  exact ⟨_, rfl, by simp only [Recipe.len, hal, hbl], fun _ => ⟨rfl, le_refl _⟩⟩

/-- `MixedRadixSmall::new`: children short enough -/
theorem specOK_mrSmall (a b : Recipe) (ha : SpecOK ty a) (hb : SpecOK ty b) (ha33 : a.len < 33)
    (hb33 : b.len < 33) : SpecOK ty (.mixedRadixSmall a b) := by
  obtain ⟨sa, ha, hal, has⟩ := ha
  obtain ⟨sb, hb, hbl, hbs⟩ := hb
  unfold SpecOK; rw [Recipe.spec, ha, hb]
  simp only [smallAsserts_ok _ sa sb (has ha33) (hbs hb33)]
  exact ⟨_, rfl, by simp only [Recipe.len, hal, hbl], fun _ => ⟨rfl, le_refl _⟩⟩

/-- `MixedRadix::new` has no assert -/
theorem specOK_mixedRadix (a b : Recipe) (ha : SpecOK ty a) (hb : SpecOK ty b) (h33 : 33 ≤ a.len * b.len) :
    SpecOK ty (.mixedRadix a b) := by
  obtain ⟨sa, ha, hal, _⟩ := ha
  obtain ⟨sb, hb, hbl, _⟩ := hb
  unfold SpecOK; rw [Recipe.spec, ha, hb]
  refine ⟨_, rfl, by simp only [Recipe.len, hal, hbl], fun hlt => ?_⟩
  simp only [Recipe.len] at hlt; omega

/-- `RadersAlgorithm::new`: the length is prime and has a primitive root -/
theorem specOK_raders (hroot : ∀ p, Nat.Prime p → (primitiveRoot p).isSome = true) (i : Recipe)
    (hi : SpecOK ty i) (hp : Nat.Prime (i.len + 1)) (h33 : 33 ≤ i.len + 1) : SpecOK ty (.raders i) := by
  obtain ⟨si, hi, hil, _⟩ := hi
  unfold SpecOK; rw [Recipe.spec, hi]
  simp only [hil, radersAsserts_ok _ hp (hroot _ hp)]
  refine ⟨_, rfl, by simp only [Recipe.len], fun hlt => ?_⟩
  simp only [Recipe.len] at hlt; omega

/-- `BluesteinsAlgorithm::new`: `2n-1 ≤ inner length` -/
theorem specOK_bluesteins (n : Nat) (i : Recipe) (hi : SpecOK ty i) (h33 : 33 ≤ n) (hb : 2 * n - 1 ≤ i.len) :
    SpecOK ty (.bluesteins n i) := by
  obtain ⟨si, hi, hil, _⟩ := hi
  unfold SpecOK; rw [Recipe.spec, hi]
  simp only
  rw [if_neg (by omega), if_neg (by rw [hil]; omega)]
  refine ⟨_, rfl, by simp only [Recipe.len], fun hlt => ?_⟩
  simp only [Recipe.len] at hlt; omega

theorem specOK_radixN (fs : List Nat) (b : Recipe) (hb : SpecOK ty b) (hpos : 0 < fs.foldl (· * ·) 1) :
    SpecOK ty (.radixN fs b) := by
  obtain ⟨sb, hb, hbl, hbs⟩ := hb
  unfold SpecOK; rw [Recipe.spec, hb]
  refine ⟨_, rfl, by simp only [Recipe.len, hbl], fun hlt => ?_⟩
  simp only [Recipe.len] at hlt
  have hle : b.len ≤ b.len * fs.foldl (· * ·) 1 := Nat.le_mul_of_pos_right _ hpos
  obtain ⟨h1, h2⟩ := hbs (by omega)
  simp only [Gen.radixN_inplace, Gen.radixN_oop, hbl]
  constructor <;> split <;> omega

theorem specOK_radix4 (k : Nat) (b : Recipe) (hb : SpecOK ty b) : SpecOK ty (.radix4 k b) := by
  obtain ⟨sb, hb, hbl, hbs⟩ := hb
  unfold SpecOK; rw [Recipe.spec, hb]
  refine ⟨_, rfl, by simp only [Recipe.len, hbl], fun hlt => ?_⟩
  simp only [Recipe.len] at hlt
  have hle : b.len ≤ b.len * 2 ^ (2 * k) := Nat.le_mul_of_pos_right _ (Nat.pow_pos (by omega))
  obtain ⟨h1, h2⟩ := hbs (by omega)
  simp only [Gen.radix4_inplace, Gen.radix4_oop, hbl]
  constructor <;> split <;> omega

/-- `SseRadix4::new`: `base_len % (2 * COMPLEX_PER_VECTOR) == 0 && base_len > 0` for the four bases the planner uses -/
theorem specOK_sseRadix4 (k b : Nat) (hb : b ∈ [12, 16, 24, 32]) : SpecOK ty (.sseRadix4 k (.bfly b)) := by
  have hmod : (specBfly b).len % (2 * complexPerVectorSse ty) = 0 ∧ (specBfly b).len > 0 := by
    simp only [List.mem_cons, List.mem_nil_iff, or_false] at hb
    cases ty <;> rcases hb with rfl | rfl | rfl | rfl <;> decide
  unfold SpecOK; rw [Recipe.spec, Recipe.spec]
  simp only []
  rw [if_neg (not_not.2 hmod)]
  exact ⟨_, rfl, by simp only [Recipe.len, specBfly], fun _ => ⟨rfl, le_refl _⟩⟩

theorem specOK_scalarClosed (ty : ElemTy) (hroot : ∀ p, Nat.Prime p → (primitiveRoot p).isSome = true) :
    ScalarClosed (SpecOK ty) where
  dft := fun n _ => specOK_dft n
  bfly := fun b _ => specOK_bfly b
  gtSmallBfly := fun l r hl hr hg => specOK_gtSmall _ _ (specOK_bfly l) (specOK_bfly r)
    (productButterflies_lt l hl) (productButterflies_lt r hr) hg
  mrSmallBfly := fun l r hl hr => specOK_mrSmall _ _ (specOK_bfly l) (specOK_bfly r)
    (productButterflies_lt l hl) (productButterflies_lt r hr)
  gtSmall := fun a b ha hb _ _ ha31 hb31 hg _ => specOK_gtSmall a b ha hb (by omega) (by omega) hg
  mrSmall := fun a b ha hb _ _ ha31 hb31 _ => specOK_mrSmall a b ha hb (by omega) (by omega)
  mixedRadix := fun a b ha hb _ _ h33 _ => specOK_mixedRadix a b ha hb h33
  raders := fun i hi hp h33 _ => specOK_raders hroot i hi hp h33
  bluesteins := fun n i hi _ h33 hb _ _ _ => specOK_bluesteins n i hi h33 hb
  radixN := fun fs b hb _ _ _ hpos => specOK_radixN fs b hb hpos
  radix4 := fun k b hb _ _ => specOK_radix4 k b hb

theorem specOK_sseClosed (ty : ElemTy) (hroot : ∀ p, Nat.Prime p → (primitiveRoot p).isSome = true) :
    SseClosed (SpecOK ty) where
  dft := specOK_dft 0
  bfly := by
    intro b r h
    unfold sseButterfly at h
    split at h
    · simp only [Option.some.injEq] at h; subst h; exact specOK_bfly b
    · split at h
      · simp only [Option.some.injEq] at h; subst h; exact specOK_primeBfly b
      · cases h
  gtSmall := specOK_gtSmall
  mrSmall := specOK_mrSmall
  mixedRadix := fun a b ha hb _ _ h33 => specOK_mixedRadix a b ha hb h33
  raders := fun i hi hp h33 _ => specOK_raders hroot i hi hp h33
  bluesteins := fun n i hi _ h33 hb _ _ => specOK_bluesteins n i hi h33 hb
  sseRadix4 := specOK_sseRadix4

end RFV
