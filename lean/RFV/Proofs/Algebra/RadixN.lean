/-
C06 (algebra): `RadixN` (and `Radix4`, `Radix3` as `RadixN [4,…,4]`, `RadixN [3,…,3]`):
the digit-reversed transpose, the base FFTs and one decimation-in-time Cooley–Tukey layer per factor
compute the DFT of length `baseLen * ∏ fs`.

Invariant carried through the layers (`semRadixLayers_spec`): with `fs` the factors still to be applied and
`P = ∏ fs`, the buffer consists of `P` consecutive blocks of length `cols`, block `b` being the DFT of the
decimated signal `j ↦ x (reverseRemainders fs b 0 + j * P)`.
-/
import RFV.Proofs.Algebra.Chunks

open Finset BigOperators

namespace RFV

variable {K : Type} [CommRing K]

/-! ### `reverseRemainders` -/

/-- the accumulator of `reverseRemainders` only contributes its value times the product of the factors -/
theorem reverseRemainders_acc (fs : List Nat) : ∀ v acc : Nat,
    reverseRemainders fs v acc = acc * fs.prod + reverseRemainders fs v 0 := by
  induction fs with
  | nil => intro v acc; simp [reverseRemainders]
  | cons g gs ih =>
    intro v acc
    simp only [reverseRemainders, List.prod_cons]
    rw [ih (v / g) (acc * g + v % g), ih (v / g) (0 * g + v % g)]
    ring

/-- peeling the first factor: the lowest digit of the argument becomes the highest digit of the result -/
theorem reverseRemainders_cons (g : Nat) (gs : List Nat) (v : Nat) :
    reverseRemainders (g :: gs) v 0 = (v % g) * gs.prod + reverseRemainders gs (v / g) 0 := by
  rw [reverseRemainders, reverseRemainders_acc]
  simp

theorem reverseRemainders_cons_block (g : Nat) (gs : List Nat) (ch r : Nat) (hr : r < g) :
    reverseRemainders (g :: gs) (ch * g + r) 0 = r * gs.prod + reverseRemainders gs ch 0 := by
  rw [reverseRemainders_cons, Nat.add_comm (ch * g) r, add_mul_mod_of_lt _ _ _ hr, add_mul_div_of_lt _ _ _ hr]

/-- the reversed index stays inside the digit range (so the gather of `semRadixN` reads inside the buffer) -/
theorem reverseRemainders_lt (fs : List Nat) : ∀ v : Nat, v < fs.prod → reverseRemainders fs v 0 < fs.prod := by
  induction fs with
  | nil => intro v hv; simp [reverseRemainders]
  | cons g gs ih =>
    intro v hv
    rw [List.prod_cons] at hv ⊢
    have hg : 0 < g := Nat.pos_of_ne_zero (fun h0 => by rw [h0, Nat.zero_mul] at hv; omega)
    have h1 : reverseRemainders gs (v / g) 0 < gs.prod := ih _ (Nat.div_lt_of_lt_mul hv)
    have h2 : v % g < g := Nat.mod_lt _ hg
    rw [reverseRemainders_cons]
    have h3 : (v % g + 1) * gs.prod ≤ g * gs.prod := Nat.mul_le_mul_right _ h2
    rw [Nat.add_mul, Nat.one_mul] at h3
    omega

theorem foldl_mul_eq_list_prod (fs : List Nat) : fs.foldl (· * ·) 1 = fs.prod := by
  have h : ∀ (l : List Nat) (a : Nat), l.foldl (· * ·) a = a * l.prod := by
    intro l
    induction l with
    | nil => intro a; simp
    | cons g gs ih => intro a; rw [List.foldl_cons, ih, List.prod_cons, Nat.mul_assoc]
  rw [h, Nat.one_mul]

/-! ### one layer = one decimation-in-time Cooley–Tukey step on every chunk -/

theorem semRadixLayer_size (c : Ctx K) (cols f : Nat) (data : Array K) :
    (semRadixLayer c cols f data).size = data.size := by
  simp [semRadixLayer]

/-- If, in every chunk `ch` of `cols * f` elements, the `r`-th sub-block of length `cols` is the DFT of the signal
`s ch` decimated by `f` at offset `r`, then after the layer chunk `ch` is the DFT of length `cols * f` of `s ch`. -/
theorem at'_semRadixLayer {c : Ctx K} {ok : Nat → Prop} (hc : c.Lawful ok) (cols f cnt : Nat) (data : Array K)
    (s : Nat → Nat → K) (hok : ok (cols * f)) (hsz : data.size = cnt * (cols * f))
    (H : ∀ ch, ch < cnt → ∀ r, r < f → ∀ idx, idx < cols →
      at' data (ch * (cols * f) + idx + r * cols) = dftF c cols (fun j => s ch (r + j * f)) idx)
    (ch : Nat) (hch : ch < cnt) (i : Nat) (hi : i < cols * f) :
    at' (semRadixLayer c cols f data) (ch * (cols * f) + i) = dftF c (cols * f) (s ch) i := by
  have hcols : 0 < cols := pos_left hc cols f hok
  have hok' : ok (f * cols) := by rwa [Nat.mul_comm]
  have hlt : ch * (cols * f) + i < data.size := by
    have : (ch + 1) * (cols * f) ≤ cnt * (cols * f) := Nat.mul_le_mul_right _ hch
    rw [Nat.add_mul, Nat.one_mul] at this
    omega
  have hidx : i % cols < cols := Nat.mod_lt _ hcols
  have hq : i / cols < f := Nat.div_lt_of_lt_mul hi
  have hi' : i = i % cols + cols * (i / cols) := (Nat.mod_add_div i cols).symm
  unfold semRadixLayer
  dsimp only
  rw [at'_tab_lt _ _ _ hlt, sumTo_eq_sum, Nat.add_comm (ch * (cols * f)) i, add_mul_div_of_lt _ _ _ hi,
    add_mul_mod_of_lt _ _ _ hi]
  unfold dftF
  rw [Nat.mul_comm cols f, sum_range_mul]
  apply sum_congr rfl
  intro r hr
  have hr' : r < f := mem_range.mp hr
  rw [Nat.mul_comm f cols, H ch hch r hr' _ hidx]
  unfold dftF
  rw [sum_mul, sum_mul]
  apply sum_congr rfl
  intro j _
  have e : (r + j * f) * i = i % cols * r + cols * (r * (i / cols)) + f * (j * (i % cols)) + f * cols * (j * (i / cols)) := by
    conv_lhs => rw [hi']
    ring
  rw [Nat.mul_comm cols f, ← tw_combine hc f cols hok' (i % cols * r) (r * (i / cols)) (j * (i % cols)) _ _ e]
  ring

/-! ### all layers -/

theorem semRadixLayers_size (c : Ctx K) (fs : List Nat) : ∀ (cols : Nat) (data : Array K),
    (semRadixLayers c fs cols data).size = data.size := by
  induction fs with
  | nil => intro cols data; rfl
  | cons g gs ih => intro cols data; rw [semRadixLayers, ih, semRadixLayer_size]

/-- The layer invariant: `fs.prod` blocks of length `cols`, block `b` the DFT of
`j ↦ x (reverseRemainders fs b 0 + j * fs.prod)`; after all layers the buffer is the DFT of `x`. -/
theorem semRadixLayers_spec {c : Ctx K} {ok : Nat → Prop} (hc : c.Lawful ok) (fs : List Nat) :
    ∀ (cols : Nat) (data : Array K) (x : Nat → K), ok (cols * fs.prod) → data.size = cols * fs.prod →
      (∀ b, b < fs.prod → ∀ i, i < cols →
        at' data (b * cols + i) = dftF c cols (fun j => x (reverseRemainders fs b 0 + j * fs.prod)) i) →
      ∀ o, o < cols * fs.prod → at' (semRadixLayers c fs cols data) o = dftF c (cols * fs.prod) x o := by
  induction fs with
  | nil =>
    intro cols data x _ _ H o ho
    simp only [List.prod_nil, Nat.mul_one] at ho ⊢
    have := H 0 (by simp) o ho
    simp only [Nat.zero_mul, Nat.zero_add, reverseRemainders, List.prod_nil, Nat.mul_one] at this
    rw [semRadixLayers, this]
  | cons g gs ih =>
    intro cols data x hok hsz H o ho
    rw [List.prod_cons] at hok hsz ho H ⊢
    rw [← Nat.mul_assoc] at hok hsz ho ⊢
    have hokcg : ok (cols * g) := ok_left hc _ _ hok
    rw [semRadixLayers]
    apply ih (cols * g) (semRadixLayer c cols g data) x hok (by rw [semRadixLayer_size, hsz]) _ o ho
    intro ch hch i hi
    have hsz' : data.size = gs.prod * (cols * g) := by rw [hsz, Nat.mul_comm]
    apply at'_semRadixLayer hc cols g gs.prod data (fun ch j => x (reverseRemainders gs ch 0 + j * gs.prod))
      hokcg hsz' _ ch hch i hi
    intro ch hch r hr idx hidx
    have hb : ch * g + r < g * gs.prod := by
      have : (ch + 1) * g ≤ gs.prod * g := Nat.mul_le_mul_right g hch
      rw [Nat.add_mul, Nat.one_mul, Nat.mul_comm gs.prod g] at this
      omega
    have e1 : ch * (cols * g) + idx + r * cols = (ch * g + r) * cols + idx := by ring
    rw [e1, H (ch * g + r) hb idx hidx]
    apply dftF_congr
    intro j _
    rw [reverseRemainders_cons_block g gs ch r hr]
    congr 1
    ring

/-! ### `RadixN` -/

theorem semRadixN_isDft (c : Ctx K) (ok : Nat → Prop) (hc : c.Lawful ok) (fs : List Nat) (_hfs : ∀ f ∈ fs, 1 ≤ f)
    (baseLen : Nat) (hok : ok (baseLen * fs.foldl (· * ·) 1)) (fB : Array K → Array K) (hB : IsDft c baseLen fB) :
    IsDft c (baseLen * fs.foldl (· * ·) 1) (semRadixN c fs baseLen fB) := by
  intro x _
  rw [foldl_mul_eq_list_prod] at hok ⊢
  rw [semDft_eq_tab]
  unfold semRadixN
  rw [foldl_mul_eq_list_prod]
  dsimp only
  apply eq_tab_of_at'
  · rw [semRadixLayers_size, mapChunks_size, tab_size]
  · apply semRadixLayers_spec hc fs baseLen _ (at' x) hok (by rw [mapChunks_size, tab_size])
    intro b hb i hi
    have hsz : (tab (baseLen * fs.prod) fun o =>
        at' x (reverseRemainders fs (o / baseLen) 0 + o % baseLen * fs.prod)).size = fs.prod * baseLen := by
      rw [tab_size, Nat.mul_comm]
    rw [at'_mapChunks_isDft c baseLen fB hB _ fs.prod b i hsz hb hi]
    apply dftF_congr
    intro j hj
    have hlt : b * baseLen + j < baseLen * fs.prod := by
      have : (b + 1) * baseLen ≤ fs.prod * baseLen := Nat.mul_le_mul_right baseLen hb
      rw [Nat.add_mul, Nat.one_mul, Nat.mul_comm fs.prod baseLen] at this
      omega
    rw [at'_tab_lt _ _ _ hlt, Nat.add_comm (b * baseLen) j, add_mul_div_of_lt _ _ _ hj, add_mul_mod_of_lt _ _ _ hj]

end RFV
