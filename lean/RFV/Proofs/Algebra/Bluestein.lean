/-
Bluestein's algorithm (`BluesteinsAlgorithm`, `BluesteinsAvx`) computes the DFT of length `n`,
given an inner transform of any length `M ≥ 2n - 1` that computes the DFT of length `M`.
-/
import Mathlib.Tactic.LinearCombination
import RFV.Proofs.Algebra.Inverse

open Finset BigOperators

namespace RFV

variable {K : Type} [CommRing K]

/-- `|k - j|` -/
def adist (k j : Nat) : Nat := if j ≤ k then k - j else j - k

/-- chirp identity `b_j b_k = b_{k-j} · tw(jk, n)`, from `j² + k² = (k-j)² + 2jk` -/
theorem chirp_le {c : Ctx K} {ok : Nat → Prop} (hc : c.Lawful ok) (n : Nat) (h2 : ok (2 * n)) (j k : Nat)
    (hjk : j ≤ k) :
    c.tw (j * j % (2 * n)) (2 * n) * c.tw (k * k % (2 * n)) (2 * n)
      = c.tw ((k - j) * (k - j) % (2 * n)) (2 * n) * c.tw (j * k) n := by
  rw [hc.tw_mod _ _ h2, hc.tw_mod _ _ h2, hc.tw_mod _ _ h2, ← hc.tw_add _ _ _ h2, ← hc.tw_scale 2 n (j * k) h2,
    ← hc.tw_add _ _ _ h2]
  congr 1
  obtain ⟨d, rfl⟩ := Nat.exists_eq_add_of_le hjk
  rw [Nat.add_sub_cancel_left]
  ring

theorem chirp {c : Ctx K} {ok : Nat → Prop} (hc : c.Lawful ok) (n : Nat) (h2 : ok (2 * n)) (j k : Nat) :
    c.tw (j * j % (2 * n)) (2 * n) * c.tw (k * k % (2 * n)) (2 * n)
        * c.conj (c.tw (adist k j * adist k j % (2 * n)) (2 * n))
      = c.tw (j * k) n := by
  unfold adist
  by_cases hjk : j ≤ k
  · rw [if_pos hjk, chirp_le hc n h2 j k hjk, mul_comm (c.tw _ _) (c.tw (j * k) n), mul_assoc, hc.tw_conj _ _ h2,
      mul_one]
  · rw [if_neg hjk, mul_comm (c.tw (j * j % _) _), chirp_le hc n h2 k j (by omega),
      mul_comm (c.tw _ _) (c.tw (k * j) n), mul_assoc, hc.tw_conj _ _ h2, mul_one, Nat.mul_comm]

theorem sum_range_ite_lt (n M : Nat) (h : n ≤ M) (F : Nat → K) :
    ∑ j ∈ range M, (if j < n then F j else 0) = ∑ j ∈ range n, F j := by
  have hsub : range n ⊆ range M := range_subset_range.mpr h
  rw [← sum_subset hsub (f := fun j => if j < n then F j else 0)]
  · exact sum_congr rfl (fun j hj => by rw [if_pos (mem_range.mp hj)])
  · intro j _ hj
    rw [if_neg (by simpa using hj)]

theorem semBluesteins_isDft (c : Ctx K) (ok : Nat → Prop) (hc : c.Lawful ok) (n M : Nat) (hn : 1 ≤ n)
    (hM : 2 * n - 1 ≤ M) (hok2 : ok (2 * n)) (hokM : ok M) (fI : Array K → Array K) (hI : IsDft c M fI) :
    IsDft c n (semBluesteins c n M fI) := by
  intro x _
  rw [semDft_eq_tab]
  unfold semBluesteins
  simp only []
  refine tab_congr n _ _ (fun k hk => ?_)
  have hkM : k < M := by omega
  -- the kernel read at the cyclic index is the conjugate chirp at the distance
  have hkern : ∀ j, j < n →
      (fun i => if i < n then c.conj (c.tw (i * i % (2 * n)) (2 * n)) * c.inv M
        else if i + n > M then c.conj (c.tw ((M - i) * (M - i) % (2 * n)) (2 * n)) * c.inv M else 0) (cyc M k j)
      = c.conj (c.tw (adist k j * adist k j % (2 * n)) (2 * n)) * c.inv M := by
    intro j hj
    unfold cyc adist
    by_cases hjk : j ≤ k
    · simp only [if_pos hjk]
      rw [if_pos (by omega)]
    · simp only [if_neg hjk]
      rw [if_neg (by omega), if_pos (by omega)]
      have : M - (M + k - j) = j - k := by omega
      rw [this]
  rw [conj_pipeline0 c ok hc M hokM fI hI _ _ k hkM]
  have hsum : ∑ j ∈ range M, (if j < n then at' x j * c.tw (j * j % (2 * n)) (2 * n) else 0) *
        (fun i => if i < n then c.conj (c.tw (i * i % (2 * n)) (2 * n)) * c.inv M
          else if i + n > M then c.conj (c.tw ((M - i) * (M - i) % (2 * n)) (2 * n)) * c.inv M else 0) (cyc M k j)
      = ∑ j ∈ range n, at' x j * c.tw (j * j % (2 * n)) (2 * n) *
          (c.conj (c.tw (adist k j * adist k j % (2 * n)) (2 * n)) * c.inv M) := by
    rw [← sum_range_ite_lt n M (by omega)]
    refine sum_congr rfl (fun j _ => ?_)
    by_cases hj : j < n
    · rw [if_pos hj, if_pos hj, hkern j hj]
    · rw [if_neg hj, if_neg hj, zero_mul]
  rw [hsum, dftF, mul_sum, sum_mul]
  refine sum_congr rfl (fun j _ => ?_)
  have key := chirp hc n hok2 j k
  have hinv := hc.inv_mul M hokM
  linear_combination (at' x j * (c.inv M * (M : K))) * key + (at' x j * c.tw (j * k) n) * hinv

end RFV
