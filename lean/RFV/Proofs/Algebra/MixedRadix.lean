/-
C06 (algebra): the six-step mixed-radix decomposition (`MixedRadix`, `MixedRadixSmall`) and the AVX
`MixedRadix{r}xnAvx` decomposition compute the DFT of length `w * h` (resp. `r * m`) whenever their inner
transforms compute the DFTs of lengths `w`, `h` (resp. `m`).
-/
import RFV.Proofs.Algebra.Chunks

open Finset BigOperators

namespace RFV

variable {K : Type} [CommRing K]

/-- Cooley–Tukey on index functions, input `j = xx + y*w`, output `k = ky + h*kx`
(`ky`, `kx` arbitrary here; the callers take `ky = k % h`, `kx = k / h`). -/
theorem cooleyTukey_sum {c : Ctx K} {ok : Nat → Prop} (hc : c.Lawful ok) (w h : Nat) (hok : ok (w * h))
    (x : Nat → K) (ky kx : Nat) :
    ∑ xx ∈ range w, ((∑ y ∈ range h, x (xx + y * w) * c.tw (y * ky) h) * c.tw (xx * ky) (w * h)) * c.tw (xx * kx) w
      = ∑ j ∈ range (w * h), x j * c.tw (j * (ky + h * kx)) (w * h) := by
  rw [sum_range_mul]
  apply sum_congr rfl
  intro xx _
  rw [sum_mul, sum_mul]
  apply sum_congr rfl
  intro y _
  rw [← tw_combine hc w h hok (xx * ky) (xx * kx) (y * ky) ((xx + y * w) * (ky + h * kx)) (y * kx) (by ring)]
  ring

theorem semMixedRadix_isDft (c : Ctx K) (ok : Nat → Prop) (hc : c.Lawful ok) (w h : Nat) (hok : ok (w * h))
    (fw fh : Array K → Array K) (hw : IsDft c w fw) (hh : IsDft c h fh) :
    IsDft c (w * h) (semMixedRadix c w h fw fh) := by
  intro x _
  have hhpos : 0 < h := pos_right hc w h hok
  rw [semDft_eq_tab]
  unfold semMixedRadix
  apply tab_congr
  intro k hk
  have hkh : k % h < h := Nat.mod_lt _ hhpos
  have hkw : k / h < w := Nat.div_lt_of_lt_mul (by rwa [Nat.mul_comm] at hk)
  rw [getD_ofFn _ _ _ _ hkh, hw.at'_tab _ _ hkw]
  unfold dftF
  have hk' : k = k % h + h * (k / h) := (Nat.mod_add_div k h).symm
  conv_rhs => rw [hk']
  rw [← cooleyTukey_sum hc w h hok]
  apply sum_congr rfl
  intro xx hxx
  dsimp only
  rw [getD_ofFn _ _ _ _ (mem_range.mp hxx), hh.at'_tab _ _ hkh]
  rfl

/-- `MixedRadix{r}xnAvx`: the same decomposition with the roles `w = m` (inner FFT, done second),
`h = r` (column butterflies, done first, with the twiddles applied before the inner FFT). -/
theorem semAvxMixedRadix_isDft (c : Ctx K) (ok : Nat → Prop) (hc : c.Lawful ok) (r m : Nat) (hok : ok (r * m))
    (fI : Array K → Array K) (hI : IsDft c m fI) :
    IsDft c (r * m) (semAvxMixedRadix c r m fI) := by
  intro x _
  have hok' : ok (m * r) := by rwa [Nat.mul_comm]
  have hrpos : 0 < r := pos_left hc r m hok
  have hmpos : 0 < m := pos_right hc r m hok
  rw [semDft_eq_tab]
  unfold semAvxMixedRadix
  apply tab_congr
  intro k hk
  have hkr : k % r < r := Nat.mod_lt _ hrpos
  have hkm : k / r < m := Nat.div_lt_of_lt_mul hk
  simp only
  rw [Nat.add_comm (k / r), at'_mapChunks_isDft c m fI hI _ r (k % r) (k / r) (tab_size _ _) hkr hkm]
  unfold dftF
  have hk' : k = k % r + r * (k / r) := (Nat.mod_add_div k r).symm
  conv_rhs => rw [hk', Nat.mul_comm r m]
  rw [← cooleyTukey_sum hc m r hok']
  apply sum_congr rfl
  intro col hcol
  have hcol' : col < m := mem_range.mp hcol
  have hlt : k % r * m + col < r * m := by
    have : (k % r + 1) * m ≤ r * m := Nat.mul_le_mul_right m hkr
    rw [Nat.add_mul, Nat.one_mul] at this
    omega
  beta_reduce
  rw [at'_tab_lt _ _ _ hlt, sumTo_eq_sum, Nat.add_comm (k % r * m) col, add_mul_div_of_lt _ _ _ hcol',
    add_mul_mod_of_lt _ _ _ hcol', Nat.mul_comm r m]

end RFV
