/-
Inverse transform (C-algebra basis): `modPow` is modular exponentiation; the context of the opposite
direction `cinv c` is lawful again; forward-then-inverse (and inverse-then-forward) is `n • x`, unnormalised;
the inverse transform is `conj ∘ forward ∘ conj`; array-level corollaries for `semDft`.
-/
import Mathlib.Algebra.BigOperators.Ring.Finset
import Mathlib.Algebra.BigOperators.Intervals
import Mathlib.Data.Nat.ModEq
import Mathlib.Tactic.Ring
import Mathlib.Tactic.Linarith
import RFV.Proofs.Algebra.Basic

open Finset BigOperators

namespace RFV

/-! ### (1) `modPow` -/

theorem modPowAux_zero (m fuel base result : Nat) : modPowAux m fuel base 0 result = result := by
  cases fuel <;> simp [modPowAux]

theorem modPowAux_eq (m : Nat) : ∀ (fuel base e result : Nat), e < fuel → 0 < e →
    modPowAux m fuel base e result = result * base ^ e % m := by
  intro fuel
  induction fuel with
  | zero => intro _ e _ h; omega
  | succ fuel ih =>
    intro base e result hlt hpos
    rw [modPowAux, if_pos hpos]
    simp only []
    rcases Nat.eq_zero_or_pos (e / 2) with h2 | h2
    · have he : e = 1 := by omega
      subst he
      rw [h2, modPowAux_zero]; simp
    · rw [ih _ _ _ (by omega) h2]
      have hsq : (base * base % m) ^ (e / 2) ≡ base ^ (2 * (e / 2)) [MOD m] := by
        rw [pow_mul, pow_two]
        exact (Nat.mod_modEq _ _).pow _
      rcases Nat.mod_two_eq_zero_or_one e with h0 | h1
      · rw [if_neg (by omega)]
        have he : 2 * (e / 2) = e := by omega
        rw [he] at hsq
        exact hsq.mul_left _
      · rw [if_pos h1]
        have he : 2 * (e / 2) + 1 = e := by omega
        have h3 : result * base % m * (base * base % m) ^ (e / 2) ≡ result * base * base ^ (2 * (e / 2)) [MOD m] :=
          (Nat.mod_modEq _ _).mul hsq
        rw [mul_assoc, ← pow_succ', he] at h3
        exact h3

/-- `modular_exponent` is modular exponentiation.  The only exception is `e = 0, m = 1`, where the loop body never
runs and the initial `result = 1` is returned unreduced (`b ^ 0 % 1 = 0`); `m = 0` is fine (`x % 0 = x`). -/
theorem modPow_eq (b e m : Nat) (h : m ≠ 1 ∨ 0 < e) : modPow b e m = b ^ e % m := by
  unfold modPow
  rcases Nat.eq_zero_or_pos e with he | he
  · subst he
    rw [modPowAux_zero]
    have hm : m ≠ 1 := by omega
    rcases Nat.eq_zero_or_pos m with h0 | h0
    · subst h0; simp
    · rw [pow_zero, Nat.mod_eq_of_lt (by omega)]
  · rw [modPowAux_eq m _ _ _ _ (by omega) he, one_mul]

/-- the exceptional case, for the record -/
theorem modPow_zero_one (b : Nat) : modPow b 0 1 = 1 := by
  unfold modPow; rw [modPowAux_zero]

/-! ### the context of the opposite direction -/

/-- the context of the opposite direction: every twiddle is conjugated -/
def cinv {K : Type} (c : Ctx K) : Ctx K := { c with tw := fun i n => c.conj (c.tw i n) }

@[simp] theorem cinv_tw {K : Type} (c : Ctx K) (i n : Nat) : (cinv c).tw i n = c.conj (c.tw i n) := rfl
@[simp] theorem cinv_conj {K : Type} (c : Ctx K) : (cinv c).conj = c.conj := rfl
@[simp] theorem cinv_inv {K : Type} (c : Ctx K) : (cinv c).inv = c.inv := rfl

variable {K : Type} [CommRing K]

section laws
variable {c : Ctx K} {ok : Nat → Prop}

theorem Ctx.Lawful.conj_sum (hc : c.Lawful ok) (s : Finset Nat) (f : Nat → K) :
    c.conj (∑ i ∈ s, f i) = ∑ i ∈ s, c.conj (f i) := by
  classical
  induction s using Finset.induction_on with
  | empty => simp [hc.conj_zero]
  | insert a s ha ih => rw [sum_insert ha, sum_insert ha, hc.conj_add, ih]

theorem Ctx.Lawful.tw_conj (hc : c.Lawful ok) (n k : Nat) (hn : ok n) : c.tw k n * c.conj (c.tw k n) = 1 := by
  rw [mul_comm]; exact hc.conj_tw n k hn

theorem Ctx.Lawful.conj_one (hc : c.Lawful ok) (n : Nat) (hn : ok n) : c.conj 1 = 1 := by
  have := hc.conj_tw n 0 hn
  rwa [hc.tw_zero n hn, mul_one] at this

/-- `tw (q * n) n = 1` -/
theorem Ctx.Lawful.tw_mul_period (hc : c.Lawful ok) (n q : Nat) (hn : ok n) : c.tw (q * n) n = 1 := by
  induction q with
  | zero => rw [Nat.zero_mul]; exact hc.tw_zero n hn
  | succ q ih => rw [Nat.succ_mul, hc.tw_add n _ _ hn, ih, hc.tw_period n hn, mul_one]

theorem Ctx.Lawful.tw_add_mul_period (hc : c.Lawful ok) (n a q : Nat) (hn : ok n) :
    c.tw (a + q * n) n = c.tw a n := by
  rw [hc.tw_add n _ _ hn, hc.tw_mul_period n q hn, mul_one]

/-- twiddles only depend on the index modulo the length -/
theorem Ctx.Lawful.tw_mod (hc : c.Lawful ok) (n a : Nat) (hn : ok n) : c.tw (a % n) n = c.tw a n := by
  conv_rhs => rw [← Nat.mod_add_div a n, mul_comm n (a / n)]
  rw [hc.tw_add_mul_period n _ _ hn]

theorem Ctx.Lawful.tw_congr (hc : c.Lawful ok) (n a b : Nat) (hn : ok n) (h : a % n = b % n) :
    c.tw a n = c.tw b n := by
  rw [← hc.tw_mod n a hn, ← hc.tw_mod n b hn, h]

/-- (4) the opposite direction is again a lawful twiddle system -/
theorem cinv_lawful (hc : c.Lawful ok) : (cinv c).Lawful ok where
  ok_pos := hc.ok_pos
  ok_dvd := hc.ok_dvd
  tw_zero n hn := by rw [cinv_tw, hc.tw_zero n hn, hc.conj_one n hn]
  tw_add n a b hn := by simp only [cinv_tw]; rw [hc.tw_add n a b hn, hc.conj_mul]
  tw_period n hn := by rw [cinv_tw, hc.tw_period n hn, hc.conj_one n hn]
  tw_scale m n k h := by simp only [cinv_tw]; rw [hc.tw_scale m n k h]
  tw_orth n j hn h0 hj := by
    simp only [cinv_tw]
    rw [← hc.conj_sum, hc.tw_orth n j hn h0 hj, hc.conj_zero]
  conj_add := hc.conj_add
  conj_mul := hc.conj_mul
  conj_conj := hc.conj_conj
  conj_zero := hc.conj_zero
  conj_tw n k hn := by
    simp only [cinv_tw, cinv_conj]
    rw [hc.conj_conj]; exact hc.tw_conj n k hn
  inv_mul := hc.inv_mul
  conj_inv := hc.conj_inv

theorem cinv_cinv_tw (hc : c.Lawful ok) (i n : Nat) : (cinv (cinv c)).tw i n = c.tw i n := by
  simp only [cinv_tw, cinv_conj]; exact hc.conj_conj _

end laws

/-! ### function-level identities -/

theorem dftF_ext (c : Ctx K) (n : Nat) (x y : Nat → K) (h : ∀ j, j < n → x j = y j) (k : Nat) :
    dftF c n x k = dftF c n y k := by
  unfold dftF
  exact sum_congr rfl (fun j hj => by rw [h j (mem_range.mp hj)])

theorem dftF_cinv_cinv {c : Ctx K} {ok : Nat → Prop} (hc : c.Lawful ok) (n : Nat) (x : Nat → K) (k : Nat) :
    dftF (cinv (cinv c)) n x k = dftF c n x k := by
  unfold dftF
  exact sum_congr rfl (fun j _ => by rw [cinv_cinv_tw hc])

/-- generalised orthogonality, diagonal and off-diagonal, for indices below `n` -/
theorem orth_pair {c : Ctx K} {ok : Nat → Prop} (hc : c.Lawful ok) (n : Nat) (hn : ok n) (i k : Nat)
    (hi : i < n) (hk : k < n) :
    ∑ j ∈ range n, c.tw (i * j) n * c.conj (c.tw (j * k) n) = if i = k then (n : K) else 0 := by
  rcases Nat.lt_trichotomy i k with h | h | h
  · rw [if_neg (by omega)]
    have : ∀ j ∈ range n, c.tw (i * j) n * c.conj (c.tw (j * k) n) = c.conj (c.tw ((k - i) * j) n) := by
      intro j _
      have e : j * k = (k - i) * j + i * j := by
        rw [← Nat.add_mul, Nat.sub_add_cancel (le_of_lt h), Nat.mul_comm]
      rw [e, hc.tw_add n _ _ hn, hc.conj_mul, mul_comm, mul_assoc, hc.conj_tw n _ hn, mul_one]
    rw [sum_congr rfl this, ← hc.conj_sum, hc.tw_orth n (k - i) hn (by omega) (by omega), hc.conj_zero]
  · subst h
    rw [if_pos rfl]
    have : ∀ j ∈ range n, c.tw (i * j) n * c.conj (c.tw (j * i) n) = 1 := by
      intro j _
      rw [Nat.mul_comm j i]; exact hc.tw_conj n _ hn
    rw [sum_congr rfl this]; simp
  · rw [if_neg (by omega)]
    have : ∀ j ∈ range n, c.tw (i * j) n * c.conj (c.tw (j * k) n) = c.tw ((i - k) * j) n := by
      intro j _
      have e : i * j = (i - k) * j + j * k := by
        rw [Nat.mul_comm j k, ← Nat.add_mul, Nat.sub_add_cancel (le_of_lt h)]
      rw [e, hc.tw_add n _ _ hn, mul_assoc, hc.tw_conj n _ hn, mul_one]
    rw [sum_congr rfl this, hc.tw_orth n (i - k) hn (by omega) (by omega)]

/-- (2) forward then inverse is `n • x` (unnormalised) -/
theorem dftF_inverse (c : Ctx K) (ok : Nat → Prop) (hc : c.Lawful ok) (n : Nat) (hn : ok n) (x : Nat → K)
    (k : Nat) (hk : k < n) :
    dftF (cinv c) n (dftF c n x) k = (n : K) * x k := by
  unfold dftF
  simp only [cinv_tw]
  calc ∑ j ∈ range n, (∑ i ∈ range n, x i * c.tw (i * j) n) * c.conj (c.tw (j * k) n)
      = ∑ j ∈ range n, ∑ i ∈ range n, x i * (c.tw (i * j) n * c.conj (c.tw (j * k) n)) := by
        refine sum_congr rfl (fun j _ => ?_)
        rw [sum_mul]
        exact sum_congr rfl (fun i _ => by ring)
    _ = ∑ i ∈ range n, x i * ∑ j ∈ range n, c.tw (i * j) n * c.conj (c.tw (j * k) n) := by
        rw [sum_comm]
        exact sum_congr rfl (fun i _ => by rw [mul_sum])
    _ = ∑ i ∈ range n, x i * (if i = k then (n : K) else 0) := by
        refine sum_congr rfl (fun i hi => ?_)
        rw [orth_pair hc n hn i k (mem_range.mp hi) hk]
    _ = (n : K) * x k := by
        simp only [mul_ite, mul_zero]
        rw [sum_ite_eq' (range n) k, if_pos (mem_range.mpr hk), mul_comm]

/-- (2') inverse then forward is `n • x` as well -/
theorem dftF_inverse' (c : Ctx K) (ok : Nat → Prop) (hc : c.Lawful ok) (n : Nat) (hn : ok n) (x : Nat → K)
    (k : Nat) (hk : k < n) :
    dftF c n (dftF (cinv c) n x) k = (n : K) * x k := by
  rw [← dftF_cinv_cinv hc]
  exact dftF_inverse (cinv c) ok (cinv_lawful hc) n hn x k hk

/-- (3) inverse = conj ∘ forward ∘ conj -/
theorem dftF_conj (c : Ctx K) (ok : Nat → Prop) (hc : c.Lawful ok) (n : Nat) (x : Nat → K) (k : Nat) :
    dftF (cinv c) n x k = c.conj (dftF c n (fun j => c.conj (x j)) k) := by
  unfold dftF
  rw [hc.conj_sum]
  exact sum_congr rfl (fun j _ => by rw [hc.conj_mul, hc.conj_conj, cinv_tw])

/-- (3') forward = conj ∘ inverse ∘ conj -/
theorem dftF_conj' (c : Ctx K) (ok : Nat → Prop) (hc : c.Lawful ok) (n : Nat) (x : Nat → K) (k : Nat) :
    dftF c n x k = c.conj (dftF (cinv c) n (fun j => c.conj (x j)) k) := by
  rw [dftF_conj c ok hc, hc.conj_conj]
  exact dftF_ext c n _ _ (fun j _ => by rw [hc.conj_conj]) k

/-- the trick the Rust code uses to run an inverse inner FFT with a forward one:
`conj (DFT (conj y)) = IDFT y` (unnormalised) -/
theorem conj_dftF_conj (c : Ctx K) (ok : Nat → Prop) (hc : c.Lawful ok) (n : Nat) (y : Nat → K) (k : Nat) :
    c.conj (dftF c n (fun j => c.conj (y j)) k) = dftF (cinv c) n y k :=
  (dftF_conj c ok hc n y k).symm

/-! ### (5) array-level corollaries -/

theorem dftF_at'_tab (c : Ctx K) (n : Nat) (f : Nat → K) (k : Nat) :
    dftF c n (at' (tab n f)) k = dftF c n f k :=
  dftF_ext c n _ _ (fun j hj => at'_tab_lt n f j hj) k

theorem semDft_tab (c : Ctx K) (n : Nat) (f : Nat → K) : semDft c n (tab n f) = tab n (dftF c n f) := by
  rw [semDft_eq_tab]
  exact tab_congr n _ _ (fun k _ => dftF_at'_tab c n f k)

theorem semDft_inverse (c : Ctx K) (ok : Nat → Prop) (hc : c.Lawful ok) (n : Nat) (hn : ok n) (x : Array K) :
    semDft (cinv c) n (semDft c n x) = tab n (fun k => (n : K) * at' x k) := by
  rw [semDft_eq_tab c, semDft_tab]
  exact tab_congr n _ _ (fun k hk => dftF_inverse c ok hc n hn (at' x) k hk)

theorem semDft_inverse' (c : Ctx K) (ok : Nat → Prop) (hc : c.Lawful ok) (n : Nat) (hn : ok n) (x : Array K) :
    semDft c n (semDft (cinv c) n x) = tab n (fun k => (n : K) * at' x k) := by
  rw [semDft_eq_tab (cinv c), semDft_tab]
  exact tab_congr n _ _ (fun k hk => dftF_inverse' c ok hc n hn (at' x) k hk)

/-- normalised round trip on an array of the right length: `inv n • IDFT (DFT x) = x` -/
theorem semDft_roundtrip (c : Ctx K) (ok : Nat → Prop) (hc : c.Lawful ok) (n : Nat) (hn : ok n) (x : Array K)
    (hx : x.size = n) :
    tab n (fun k => c.inv n * at' (semDft (cinv c) n (semDft c n x)) k) = x := by
  rw [semDft_inverse c ok hc n hn x]
  conv_rhs => rw [← tab_at' x, hx]
  refine tab_congr n _ _ (fun k hk => ?_)
  rw [at'_tab_lt _ _ _ hk, ← mul_assoc, hc.inv_mul n hn, one_mul]

/-- the inverse transform on arrays is `conj ∘ forward ∘ conj` -/
theorem semDft_cinv (c : Ctx K) (ok : Nat → Prop) (hc : c.Lawful ok) (n : Nat) (x : Array K) :
    semDft (cinv c) n x = tab n (fun k => c.conj (at' (semDft c n (tab n (fun j => c.conj (at' x j)))) k)) := by
  rw [semDft_eq_tab]
  refine tab_congr n _ _ (fun k hk => ?_)
  rw [at'_semDft _ _ _ _ hk, dftF_at'_tab, dftF_conj c ok hc]

/-! ### the cyclic convolution theorem, and the `conj–DFT–conj` pipeline of Rader and Bluestein -/

/-- the index `(k - j) mod M` for `j, k < M`, written without `%` -/
def cyc (M k j : Nat) : Nat := if j ≤ k then k - j else M + k - j

theorem cyc_lt (M k j : Nat) (hk : k < M) (hj : j < M) : cyc M k j < M := by
  unfold cyc; split <;> omega

theorem dftF_add (c : Ctx K) (n : Nat) (x y : Nat → K) (k : Nat) :
    dftF c n (fun j => x j + y j) k = dftF c n x k + dftF c n y k := by
  unfold dftF
  rw [← sum_add_distrib]
  exact sum_congr rfl (fun j _ => by ring)

/-- `tw(j l) · conj tw(l k) = conj tw(l m)` whenever `j + m ≡ k (mod M)` -/
theorem tw_shift {c : Ctx K} {ok : Nat → Prop} (hc : c.Lawful ok) (M : Nat) (hM : ok M) (j k m q l : Nat)
    (h : j + m = k + q * M) :
    c.tw (j * l) M * c.conj (c.tw (l * k) M) = c.conj (c.tw (l * m) M) := by
  have e : c.tw (l * k) M = c.tw (j * l + l * m) M := by
    rw [← hc.tw_add_mul_period M (l * k) (l * q) hM]
    congr 1
    calc l * k + l * q * M = l * (k + q * M) := by ring
      _ = l * (j + m) := by rw [h]
      _ = j * l + l * m := by ring
  rw [e, hc.tw_add M _ _ hM, hc.conj_mul, ← mul_assoc, hc.tw_conj M _ hM, one_mul]

/-- cyclic convolution theorem: `IDFT (DFT a · DFT h) = M • (a ⊛ h)` (unnormalised inverse) -/
theorem conv_thm (c : Ctx K) (ok : Nat → Prop) (hc : c.Lawful ok) (M : Nat) (hM : ok M) (a h : Nat → K)
    (k : Nat) (hk : k < M) :
    dftF (cinv c) M (fun l => dftF c M a l * dftF c M h l) k
      = (M : K) * ∑ j ∈ range M, a j * h (cyc M k j) := by
  have key : ∀ j, j < M →
      ∑ l ∈ range M, dftF c M h l * (c.tw (j * l) M * c.conj (c.tw (l * k) M)) = (M : K) * h (cyc M k j) := by
    intro j hj
    have hs : ∀ l, c.tw (j * l) M * c.conj (c.tw (l * k) M) = c.conj (c.tw (l * cyc M k j) M) := by
      intro l
      by_cases hjk : j ≤ k
      · exact tw_shift hc M hM j k _ 0 l (by unfold cyc; rw [if_pos hjk]; omega)
      · exact tw_shift hc M hM j k _ 1 l (by unfold cyc; rw [if_neg hjk]; omega)
    rw [← dftF_inverse c ok hc M hM h (cyc M k j) (cyc_lt M k j hk hj)]
    unfold dftF
    exact sum_congr rfl (fun l _ => by rw [hs l, cinv_tw])
  calc dftF (cinv c) M (fun l => dftF c M a l * dftF c M h l) k
      = ∑ l ∈ range M, ∑ j ∈ range M, a j * (dftF c M h l * (c.tw (j * l) M * c.conj (c.tw (l * k) M))) := by
        rw [dftF]
        refine sum_congr rfl (fun l _ => ?_)
        rw [cinv_tw]
        conv_lhs => rw [dftF, sum_mul, sum_mul]
        exact sum_congr rfl (fun j _ => by ring)
    _ = ∑ j ∈ range M, a j * ∑ l ∈ range M, dftF c M h l * (c.tw (j * l) M * c.conj (c.tw (l * k) M)) := by
        rw [sum_comm]
        exact sum_congr rfl (fun j _ => by rw [mul_sum])
    _ = ∑ j ∈ range M, a j * ((M : K) * h (cyc M k j)) := by
        exact sum_congr rfl (fun j hj => by rw [key j (mem_range.mp hj)])
    _ = (M : K) * ∑ j ∈ range M, a j * h (cyc M k j) := by
        rw [mul_sum]
        exact sum_congr rfl (fun j _ => by ring)

theorem IsDft.apply_tab {c : Ctx K} {M : Nat} {fI : Array K → Array K} (hI : IsDft c M fI) (f : Nat → K) :
    fI (tab M f) = tab M (dftF c M f) := by
  rw [hI (tab M f) (tab_size M f), semDft_tab]

/-- the shared pipeline: two forward inner transforms, a pointwise product (plus a correction `e`), conjugation,
a third forward inner transform and a final conjugation compute `M • (a ⊛ h) + IDFT e` -/
theorem conj_pipeline (c : Ctx K) (ok : Nat → Prop) (hc : c.Lawful ok) (M : Nat) (hM : ok M)
    (fI : Array K → Array K) (hI : IsDft c M fI) (a h e : Nat → K) (k : Nat) (hk : k < M) :
    c.conj (at' (fI (tab M (fun i => c.conj (at' (fI (tab M a)) i * at' (fI (tab M h)) i + e i)))) k)
      = (M : K) * ∑ j ∈ range M, a j * h (cyc M k j) + dftF (cinv c) M e k := by
  rw [hI.apply_tab, hI.apply_tab, hI.apply_tab, at'_tab_lt _ _ _ hk]
  rw [conj_dftF_conj c ok hc, dftF_add, ← conv_thm c ok hc M hM a h k hk]
  congr 1
  exact dftF_ext _ _ _ _ (fun l hl => by rw [at'_tab_lt _ _ _ hl, at'_tab_lt _ _ _ hl]) k

theorem conj_pipeline0 (c : Ctx K) (ok : Nat → Prop) (hc : c.Lawful ok) (M : Nat) (hM : ok M)
    (fI : Array K → Array K) (hI : IsDft c M fI) (a h : Nat → K) (k : Nat) (hk : k < M) :
    c.conj (at' (fI (tab M (fun i => c.conj (at' (fI (tab M a)) i * at' (fI (tab M h)) i)))) k)
      = (M : K) * ∑ j ∈ range M, a j * h (cyc M k j) := by
  have := conj_pipeline c ok hc M hM fI hI a h (fun _ => 0) k hk
  simp only [add_zero] at this
  rw [this]
  unfold dftF; simp

end RFV
