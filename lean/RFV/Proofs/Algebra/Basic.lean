/-
Shared basis of the algebra proofs (C01, C06, C12, C14): laws of a twiddle system over a commutative ring,
and bridges from the executable array definitions (`tab`, `at'`, `sumTo`, `mapChunks`) to `Finset.sum`.
-/
import Mathlib.Algebra.BigOperators.Ring.Finset
import Mathlib.Algebra.BigOperators.Intervals
import Mathlib.Algebra.Ring.Hom.Defs
import Mathlib.Tactic.Ring
import Mathlib.Tactic.Linarith
import RFV.Model.Sem

open Finset BigOperators

namespace RFV

variable {K : Type} [CommRing K]

/-- The laws the theorems assume of `(tw, conj, inv)`; they are *hypotheses*, never axioms.
`ok n` says "n is a length at which twiddles are meaningful" (`0 < n` over ℂ; `n ∣ N` over GF(p)). -/
structure Ctx.Lawful (c : Ctx K) (ok : Nat → Prop) : Prop where
  ok_pos : ∀ n, ok n → 0 < n
  ok_dvd : ∀ n d, ok n → d ∣ n → ok d
  tw_zero : ∀ n, ok n → c.tw 0 n = 1
  tw_add : ∀ n a b, ok n → c.tw (a + b) n = c.tw a n * c.tw b n
  tw_period : ∀ n, ok n → c.tw n n = 1
  /-- `e^{-2πi (m k)/(m n)} = e^{-2πi k/n}` -/
  tw_scale : ∀ m n k, ok (m * n) → c.tw (m * k) (m * n) = c.tw k n
  /-- orthogonality: the sum of the powers of a non-trivial n-th root vanishes -/
  tw_orth : ∀ n j, ok n → 0 < j → j < n → ∑ k ∈ range n, c.tw (j * k) n = 0
  conj_add : ∀ a b, c.conj (a + b) = c.conj a + c.conj b
  conj_mul : ∀ a b, c.conj (a * b) = c.conj a * c.conj b
  conj_conj : ∀ a, c.conj (c.conj a) = a
  conj_zero : c.conj 0 = 0
  /-- conjugation inverts twiddles -/
  conj_tw : ∀ n k, ok n → c.conj (c.tw k n) * c.tw k n = 1
  /-- `inv m` is the inverse of `m` in `K` -/
  inv_mul : ∀ m, ok m → c.inv m * (m : K) = 1
  conj_inv : ∀ m, ok m → c.conj (c.inv m) = c.inv m

/-- the specification: unnormalised DFT, ascending frequency, as a function on index functions -/
def dftF (c : Ctx K) (n : Nat) (x : Nat → K) (k : Nat) : K := ∑ j ∈ range n, x j * c.tw (j * k) n

theorem sumTo_eq_sum (f : Nat → K) (n : Nat) : sumTo f n = ∑ j ∈ range n, f j := by
  induction n with
  | zero => simp [sumTo]
  | succ n ih => rw [sumTo, ih, Finset.sum_range_succ]

@[simp] theorem tab_size (n : Nat) (f : Nat → K) : (tab n f).size = n := by simp [tab]

theorem at'_tab (n : Nat) (f : Nat → K) (i : Nat) : at' (tab n f) i = if i < n then f i else 0 := by
  unfold at' tab
  by_cases h : i < n
  · simp [Array.getD, h]
  · simp [Array.getD, h]

theorem at'_tab_lt (n : Nat) (f : Nat → K) (i : Nat) (h : i < n) : at' (tab n f) i = f i := by
  rw [at'_tab, if_pos h]

theorem at'_of_size_le (a : Array K) (i : Nat) (h : a.size ≤ i) : at' a i = 0 := by
  unfold at'
  simp [Array.getD, Nat.not_lt.mpr h]

/-- an array is the table of its own `at'` -/
theorem tab_at' (a : Array K) : tab a.size (at' a) = a := by
  apply Array.ext
  · simp
  · intro i h1 h2
    simp [tab, at', Array.getD, h2]

theorem tab_congr (n : Nat) (f g : Nat → K) (h : ∀ i, i < n → f i = g i) : tab n f = tab n g := by
  apply Array.ext
  · simp
  · intro i h1 h2
    have hi : i < n := by simpa using h1
    simp [tab, h i hi]

theorem semDft_size (c : Ctx K) (n : Nat) (x : Array K) : (semDft c n x).size = n := by simp [semDft]

theorem at'_semDft (c : Ctx K) (n : Nat) (x : Array K) (k : Nat) (hk : k < n) :
    at' (semDft c n x) k = dftF c n (at' x) k := by
  unfold semDft dftF
  rw [at'_tab_lt _ _ _ hk, sumTo_eq_sum]

theorem semDft_eq_tab (c : Ctx K) (n : Nat) (x : Array K) : semDft c n x = tab n (dftF c n (at' x)) := by
  unfold semDft
  apply tab_congr
  intro i _
  rw [sumTo_eq_sum]; rfl

/-- `f` computes the length-`n` DFT (in the direction of `c`) on every array of that length -/
def IsDft (c : Ctx K) (n : Nat) (f : Array K → Array K) : Prop := ∀ x : Array K, x.size = n → f x = semDft c n x

theorem isDft_semDft (c : Ctx K) (n : Nat) : IsDft c n (semDft c n) := fun _ _ => rfl

end RFV
