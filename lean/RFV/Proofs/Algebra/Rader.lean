/-
Rader's algorithm (`RadersAlgorithm`, `RadersAvx2`) computes the DFT of prime length `p`,
given an inner transform that computes the DFT of length `p - 1`, a primitive root `g` and its inverse `gi`.
-/
import Mathlib.Data.ZMod.Basic
import Mathlib.GroupTheory.OrderOfElement
import Mathlib.FieldTheory.Finite.Basic
import Mathlib.Tactic.LinearCombination
import RFV.Proofs.Algebra.Inverse

open Finset BigOperators

namespace RFV

variable {K : Type} [CommRing K]

/-! ### the scatter loop: folding writes at pairwise distinct in-range positions -/

theorem at'_setIfInBounds (o : Array K) (i j : Nat) (v : K) :
    at' (o.setIfInBounds i v) j = if i = j ∧ i < o.size then v else at' o j := by
  unfold at'
  rw [Array.getD_eq_getD_getElem?, Array.getD_eq_getD_getElem?, Array.getElem?_setIfInBounds]
  by_cases h : i = j
  · subst h
    by_cases h2 : i < o.size
    · simp [h2]
    · simp [h2]
  · simp [h]

section scatter
variable (pos : Nat → Nat) (val : Nat → K)

omit [CommRing K] in
theorem foldl_set_size (l : List Nat) (o : Array K) :
    (l.foldl (fun (o : Array K) i => o.setIfInBounds (pos i) (val i)) o).size = o.size := by
  induction l generalizing o with
  | nil => rfl
  | cons a l ih => rw [List.foldl_cons, ih, Array.size_setIfInBounds]

/-- a position that is never written keeps its initial value -/
theorem foldl_set_other (l : List Nat) (o : Array K) (k : Nat) (h : ∀ i ∈ l, pos i ≠ k) :
    at' (l.foldl (fun (o : Array K) i => o.setIfInBounds (pos i) (val i)) o) k = at' o k := by
  induction l generalizing o with
  | nil => rfl
  | cons a l ih =>
    rw [List.foldl_cons, ih _ (fun i hi => h i (List.mem_cons_of_mem _ hi)), at'_setIfInBounds,
      if_neg (fun hh => h a List.mem_cons_self hh.1)]

/-- the scatter lemma: if the written positions are pairwise distinct and in range, the entry at the `i`-th
written position is the `i`-th written value -/
theorem foldl_set_hit (l : List Nat) (hnd : l.Nodup) (hinj : ∀ i ∈ l, ∀ j ∈ l, pos i = pos j → i = j)
    (o : Array K) (i : Nat) (hi : i ∈ l) (hlt : pos i < o.size) :
    at' (l.foldl (fun (o : Array K) i => o.setIfInBounds (pos i) (val i)) o) (pos i) = val i := by
  induction l generalizing o with
  | nil => cases hi
  | cons a l ih =>
    rw [List.foldl_cons]
    have hnd' := List.nodup_cons.mp hnd
    rcases List.mem_cons.mp hi with rfl | hil
    · rw [foldl_set_other, at'_setIfInBounds, if_pos ⟨rfl, hlt⟩]
      intro j hj hpj
      have := hinj j (List.mem_cons_of_mem _ hj) i List.mem_cons_self hpj
      subst this
      exact hnd'.1 hj
    · exact ih hnd'.2 (fun i hi j hj => hinj i (List.mem_cons_of_mem _ hi) j (List.mem_cons_of_mem _ hj))
        _ hil (by rw [Array.size_setIfInBounds]; exact hlt)

end scatter

/-! ### the index orbit `i ↦ g^(i+1) mod p` -/

section orbit
variable (p g : ℕ) [hp : Fact p.Prime]

theorem zmod_ne_zero_of_orderOf (hg : orderOf (g : ZMod p) = p - 1) : (g : ZMod p) ≠ 0 := by
  intro h0
  have : orderOf (g : ZMod p) = 0 := by
    rw [h0]; exact orderOf_eq_zero_iff'.mpr (fun n hn => by simp [zero_pow (by omega : n ≠ 0)])
  have hp2 := hp.out.two_le
  omega

theorem orbit_injOn (hg : orderOf (g : ZMod p) = p - 1) :
    Set.InjOn (fun i => g ^ (i + 1) % p) ((range (p - 1) : Finset ℕ) : Set ℕ) := by
  intro i hi j hj h
  simp only [coe_range, Set.mem_Iio] at hi hj
  have h' : ((g ^ (i + 1) : ℕ) : ZMod p) = ((g ^ (j + 1) : ℕ) : ZMod p) :=
    (ZMod.natCast_eq_natCast_iff' _ _ _).mpr h
  push_cast at h'
  have hg0 := zmod_ne_zero_of_orderOf p g hg
  have h'' : (g : ZMod p) ^ i = (g : ZMod p) ^ j := by
    rw [pow_succ, pow_succ] at h'
    exact mul_right_cancel₀ hg0 h'
  exact pow_injOn_Iio_orderOf (x := (g : ZMod p)) (by simpa [hg] using hi) (by simpa [hg] using hj) h''

theorem orbit_ne_zero (hg : orderOf (g : ZMod p) = p - 1) (i : ℕ) : g ^ (i + 1) % p ≠ 0 := by
  intro h0
  have : ((g ^ (i + 1) : ℕ) : ZMod p) = 0 := by
    rw [ZMod.natCast_eq_zero_iff]; exact Nat.dvd_of_mod_eq_zero h0
  push_cast at this
  exact zmod_ne_zero_of_orderOf p g hg (pow_eq_zero_iff (by omega) |>.mp this)

theorem orbit_image (hg : orderOf (g : ZMod p) = p - 1) :
    (range (p - 1)).image (fun i => g ^ (i + 1) % p) = (range p).erase 0 := by
  have hp2 := hp.out.two_le
  apply Finset.eq_of_subset_of_card_le
  · intro j hj
    obtain ⟨i, _, rfl⟩ := mem_image.mp hj
    exact mem_erase.mpr ⟨orbit_ne_zero p g hg i, mem_range.mpr (Nat.mod_lt _ (by omega))⟩
  · rw [card_image_of_injOn (orbit_injOn p g hg), card_erase_of_mem (mem_range.mpr (by omega))]
    simp

theorem sum_orbit (hg : orderOf (g : ZMod p) = p - 1) (f : ℕ → K) :
    ∑ j ∈ (range p).erase 0, f j = ∑ i ∈ range (p - 1), f (g ^ (i + 1) % p) := by
  rw [← orbit_image p g hg, sum_image (orbit_injOn p g hg)]

/-- the inverse of a primitive root is a primitive root -/
theorem orderOf_inverse (gi : ℕ) (h1 : (g : ZMod p) * (gi : ZMod p) = 1) :
    orderOf (gi : ZMod p) = orderOf (g : ZMod p) := by
  rw [orderOf_eq_orderOf_iff]
  intro n
  have hn : (g : ZMod p) ^ n * (gi : ZMod p) ^ n = 1 := by rw [← mul_pow, h1, one_pow]
  constructor
  · intro h; rw [h, mul_one] at hn; exact hn
  · intro h; rw [h, one_mul] at hn; exact hn

/-- the exponent identity behind the convolution: `gi^((i - q) mod (p-1)) = g^(q+1) · gi^(i+1)` in `ZMod p` -/
theorem pow_cyc (gi : ℕ) (h1 : (g : ZMod p) * (gi : ZMod p) = 1) (i q : ℕ) (hq : q < p - 1) :
    (gi : ZMod p) ^ cyc (p - 1) i q = (g : ZMod p) ^ (q + 1) * (gi : ZMod p) ^ (i + 1) := by
  have hgi0 : (gi : ZMod p) ≠ 0 := by
    intro h0; rw [h0, mul_zero] at h1; exact zero_ne_one h1
  unfold cyc
  by_cases hqi : q ≤ i
  · rw [if_pos hqi]
    obtain ⟨d, rfl⟩ := Nat.exists_eq_add_of_le hqi
    rw [Nat.add_sub_cancel_left]
    have A : ((g : ZMod p) * (gi : ZMod p)) ^ (q + 1) = 1 := by rw [h1, one_pow]
    linear_combination (-((gi : ZMod p) ^ d)) * A
  · rw [if_neg hqi]
    obtain ⟨d, rfl⟩ := Nat.exists_eq_add_of_lt (Nat.lt_of_not_le hqi)
    obtain ⟨e, he⟩ : ∃ e, p - 1 = e + (d + 1) := ⟨p - 1 - (d + 1), by omega⟩
    have hexp : p - 1 + i - (i + d + 1) = e := by omega
    rw [hexp]
    have A : ((g : ZMod p) * (gi : ZMod p)) ^ (i + 1) = 1 := by rw [h1, one_pow]
    have B : ((g : ZMod p) * (gi : ZMod p)) ^ (d + 1) = 1 := by rw [h1, one_pow]
    have C : (gi : ZMod p) ^ (e + (d + 1)) = 1 := by rw [← he]; exact ZMod.pow_card_sub_one_eq_one hgi0
    linear_combination (-((gi : ZMod p) ^ e)) * B + (g : ZMod p) ^ (d + 1) * C - (g : ZMod p) ^ (d + 1) * A

theorem pow_cyc_nat (gi : ℕ) (h1 : (g : ZMod p) * (gi : ZMod p) = 1) (i q : ℕ) (hq : q < p - 1) :
    gi ^ cyc (p - 1) i q % p = (g ^ (q + 1) % p) * (gi ^ (i + 1) % p) % p := by
  apply (ZMod.natCast_eq_natCast_iff' _ _ _).mp
  push_cast
  rw [ZMod.natCast_mod, ZMod.natCast_mod]
  push_cast
  exact pow_cyc p g gi h1 i q hq

end orbit

/-! ### the theorem -/

/-- Rader's algorithm computes the DFT of prime length.  True for every prime, `p = 2` included
(then `p - 1 = 1`, the inner transform is the identity, `g` and `gi` are odd). -/
theorem semRaders_isDft (c : Ctx K) (ok : Nat → Prop) (hc : c.Lawful ok) (p g gi : Nat) (hp : Nat.Prime p)
    (hg : orderOf (g : ZMod p) = p - 1) (hgi : g * gi % p = 1 % p) (hokp : ok p) (hokm : ok (p - 1))
    (fI : Array K → Array K) (hI : IsDft c (p - 1) fI) : IsDft c p (semRaders c p g gi fI) := by
  have : Fact p.Prime := ⟨hp⟩
  have hp2 := hp.two_le
  have hm : 0 < p - 1 := by omega
  have h1 : (g : ZMod p) * (gi : ZMod p) = 1 := by
    have := (ZMod.natCast_eq_natCast_iff' (g * gi) 1 p).mpr hgi
    push_cast at this
    exact this
  have hgio : orderOf (gi : ZMod p) = p - 1 := by rw [orderOf_inverse p g gi h1, hg]
  have hmp : ∀ b e, 0 < e → modPow b e p = b ^ e % p := fun b e he => modPow_eq b e p (Or.inr he)
  have hmp' : ∀ b e, modPow b e p = b ^ e % p := fun b e => modPow_eq b e p (Or.inl (by omega))
  intro x _
  rw [semDft_eq_tab]
  unfold semRaders
  simp only []
  -- the three inner transforms, in function form
  have hfun : (fun i => if i = 0 then
        c.conj (at' (fI (tab (p - 1) fun i => at' x (modPow g (i + 1) p))) i *
          at' (fI (tab (p - 1) fun i => c.tw (modPow gi i p) p * c.inv (p - 1))) i) + c.conj (at' x 0)
      else c.conj (at' (fI (tab (p - 1) fun i => at' x (modPow g (i + 1) p))) i *
          at' (fI (tab (p - 1) fun i => c.tw (modPow gi i p) p * c.inv (p - 1))) i))
      = fun i => c.conj (at' (fI (tab (p - 1) fun i => at' x (modPow g (i + 1) p))) i *
          at' (fI (tab (p - 1) fun i => c.tw (modPow gi i p) p * c.inv (p - 1))) i
          + (fun i => if i = 0 then at' x 0 else 0) i) := by
    funext i
    by_cases h : i = 0
    · simp only [if_pos h]; rw [hc.conj_add]
    · simp only [if_neg h]; rw [add_zero]
  rw [hfun]
  -- value written at position `gi^(i+1) % p`
  have hval : ∀ i, i < p - 1 →
      c.conj (at' (fI (tab (p - 1) fun i =>
        c.conj (at' (fI (tab (p - 1) fun i => at' x (modPow g (i + 1) p))) i *
          at' (fI (tab (p - 1) fun i => c.tw (modPow gi i p) p * c.inv (p - 1))) i
          + (fun i => if i = 0 then at' x 0 else 0) i))) i)
      = dftF c p (at' x) (modPow gi (i + 1) p) := by
    intro i hi
    rw [conj_pipeline c ok hc (p - 1) hokm fI hI _ _ _ i hi]
    have he : dftF (cinv c) (p - 1) (fun i => if i = 0 then at' x 0 else 0) i = at' x 0 := by
      unfold dftF
      rw [sum_eq_single 0]
      · beta_reduce; rw [if_pos rfl, Nat.zero_mul, (cinv_lawful hc).tw_zero _ hokm, mul_one]
      · intro l _ hl; beta_reduce; rw [if_neg hl, zero_mul]
      · intro h; exact absurd (mem_range.mpr hm) h
    rw [he, dftF, ← add_sum_erase (range p) _ (mem_range.mpr (by omega : 0 < p)),
      sum_orbit p g hg, Nat.zero_mul, hc.tw_zero p hokp, mul_one, add_comm, mul_sum]
    congr 1
    refine sum_congr rfl (fun q hq => ?_)
    have hq' := mem_range.mp hq
    have htw : c.tw (modPow gi (cyc (p - 1) i q) p) p = c.tw (g ^ (q + 1) % p * modPow gi (i + 1) p) p := by
      apply hc.tw_congr p _ _ hokp
      rw [hmp', hmp _ _ (Nat.succ_pos i), Nat.mod_mod]
      exact pow_cyc_nat p g gi h1 i q hq'
    have hinv := hc.inv_mul (p - 1) hokm
    rw [htw, hmp _ _ (Nat.succ_pos q)]
    linear_combination (at' x (g ^ (q + 1) % p) * c.tw (g ^ (q + 1) % p * modPow gi (i + 1) p) p) * hinv
  -- entry 0
  have h0 : at' x 0 + at' (fI (tab (p - 1) fun i => at' x (modPow g (i + 1) p))) 0 = dftF c p (at' x) 0 := by
    rw [hI.apply_tab, at'_tab_lt _ _ _ hm, dftF, dftF,
      ← add_sum_erase (range p) _ (mem_range.mpr (by omega : 0 < p)), sum_orbit p g hg,
      Nat.zero_mul, hc.tw_zero p hokp, mul_one]
    congr 1
    refine sum_congr rfl (fun q _ => ?_)
    rw [Nat.mul_zero, Nat.mul_zero, hc.tw_zero p hokp, hc.tw_zero _ hokm, hmp _ _ (Nat.succ_pos q)]
  -- assemble
  generalize hT : (fI (tab (p - 1) fun i =>
        c.conj (at' (fI (tab (p - 1) fun i => at' x (modPow g (i + 1) p))) i *
          at' (fI (tab (p - 1) fun i => c.tw (modPow gi i p) p * c.inv (p - 1))) i
          + (fun i => if i = 0 then at' x 0 else 0) i))) = T at hval ⊢
  generalize hS : at' (fI (tab (p - 1) fun i => at' x (modPow g (i + 1) p))) 0 = S0 at h0 ⊢
  have hsize0 : ((Array.replicate p (0 : K)).setIfInBounds 0 (at' x 0 + S0)).size = p := by
    rw [Array.size_setIfInBounds, Array.size_replicate]
  have hsize := foldl_set_size (fun i => modPow gi (i + 1) p) (fun i => c.conj (at' T i)) (List.range (p - 1))
    ((Array.replicate p (0 : K)).setIfInBounds 0 (at' x 0 + S0))
  rw [hsize0] at hsize
  rw [← tab_at' (List.foldl _ _ _), hsize]
  refine tab_congr p _ _ (fun k hk => ?_)
  rcases Nat.eq_zero_or_pos k with rfl | hkpos
  · rw [foldl_set_other (fun i => modPow gi (i + 1) p) (fun i => c.conj (at' T i))]
    · rw [at'_setIfInBounds, if_pos ⟨rfl, by rw [Array.size_replicate]; omega⟩, h0]
    · intro i _
      show modPow gi (i + 1) p ≠ 0
      rw [hmp _ _ (Nat.succ_pos i)]
      exact orbit_ne_zero p gi hgio i
  · have hmem : k ∈ (range (p - 1)).image (fun i => gi ^ (i + 1) % p) := by
      rw [orbit_image p gi hgio]; exact mem_erase.mpr ⟨by omega, mem_range.mpr hk⟩
    obtain ⟨i, hi, hik⟩ := mem_image.mp hmem
    have hi' := mem_range.mp hi
    have hpos : modPow gi (i + 1) p = k := by rw [hmp _ _ (Nat.succ_pos i)]; exact hik
    have := foldl_set_hit (fun i => modPow gi (i + 1) p) (fun i => c.conj (at' T i)) (List.range (p - 1))
      List.nodup_range
      (by
        intro a ha b hb hab
        simp only [hmp _ _ (Nat.succ_pos _)] at hab
        exact orbit_injOn p gi hgio (by simpa using ha) (by simpa using hb) hab)
      ((Array.replicate p (0 : K)).setIfInBounds 0 (at' x 0 + S0)) i (List.mem_range.mpr hi')
      (by rw [hsize0]; show modPow gi (i + 1) p < p; rw [hpos]; exact hk)
    simp only [hpos] at this
    rw [this, hval i hi', hpos]

/-- the inverse root the planner uses, `gi = g^(p-2) mod p` (`Recipe.sem`, `RadersAlgorithm::new`), satisfies `hgi` -/
theorem modPow_inverse_root (p g : Nat) (hp : Nat.Prime p) (hg : orderOf (g : ZMod p) = p - 1) :
    g * modPow g (p - 2) p % p = 1 % p := by
  have : Fact p.Prime := ⟨hp⟩
  have hp2 := hp.two_le
  rw [modPow_eq g (p - 2) p (Or.inl (by omega))]
  apply (ZMod.natCast_eq_natCast_iff' _ _ _).mp
  push_cast
  rw [ZMod.natCast_mod]
  push_cast
  rw [← pow_succ', show p - 2 + 1 = p - 1 by omega]
  exact ZMod.pow_card_sub_one_eq_one (zmod_ne_zero_of_orderOf p g hg)

/-- Rader with the planner's choice of the inverse root -/
theorem semRaders_isDft_modPow (c : Ctx K) (ok : Nat → Prop) (hc : c.Lawful ok) (p g : Nat) (hp : Nat.Prime p)
    (hg : orderOf (g : ZMod p) = p - 1) (hokp : ok p) (hokm : ok (p - 1))
    (fI : Array K → Array K) (hI : IsDft c (p - 1) fI) :
    IsDft c p (semRaders c p g (modPow g (p - 2) p) fI) :=
  semRaders_isDft c ok hc p g _ hp hg (modPow_inverse_root p g hp hg) hokp hokm fI hI

end RFV
