/-
Lemmas shared by the decomposition proofs (mixed radix, Good–Thomas, RadixN):
`Array.extract` / `mapChunks` through `at'`, array extensionality through `at'`,
consequences of the twiddle laws `Ctx.Lawful`, and the row/column splitting of a sum over `range (w * h)`.
-/
import Mathlib.Algebra.BigOperators.Ring.Finset
import Mathlib.Algebra.BigOperators.Intervals
import Mathlib.Data.Nat.ModEq
import Mathlib.Tactic.Ring
import Mathlib.Tactic.Linarith
import RFV.Proofs.Algebra.Basic

open Finset BigOperators

namespace RFV

variable {K : Type} [CommRing K]

/-! ### arrays through `at'` -/

theorem at'_of_lt (a : Array K) (i : Nat) (h : i < a.size) : at' a i = a[i] := by
  unfold at'
  simp [Array.getD, h]

/-- two arrays of the same size that agree under `at'` below the size are equal -/
theorem ext_at' (a b : Array K) (hs : a.size = b.size) (h : ∀ i, i < a.size → at' a i = at' b i) : a = b := by
  apply Array.ext hs
  intro i h1 h2
  have := h i h1
  rwa [at'_of_lt a i h1, at'_of_lt b i h2] at this

/-- an array of size `n` is the table of a function as soon as `at'` agrees with it below `n` -/
theorem eq_tab_of_at' (a : Array K) (n : Nat) (f : Nat → K) (hs : a.size = n) (h : ∀ i, i < n → at' a i = f i) :
    a = tab n f := by
  apply ext_at'
  · rw [hs, tab_size]
  · intro i hi
    rw [hs] at hi
    rw [h i hi, at'_tab_lt _ _ _ hi]

theorem getD_ofFn {α : Type} (n : Nat) (g : Fin n → α) (i : Nat) (d : α) (h : i < n) :
    (Array.ofFn g).getD i d = g ⟨i, h⟩ := by
  simp [Array.getD, h]

omit [CommRing K] in
theorem size_extract (x : Array K) (a b : Nat) : (x.extract a b).size = min b x.size - a := by
  simp

/-- `Array.extract` through `at'`: the slice `[a, b)`, zero outside (also when it runs past the end of `x`) -/
theorem at'_extract (x : Array K) (a b i : Nat) :
    at' (x.extract a b) i = if i < b - a then at' x (a + i) else 0 := by
  by_cases h : i < b - a
  · rw [if_pos h]
    by_cases h2 : a + i < x.size
    · have h3 : i < (x.extract a b).size := by rw [size_extract]; omega
      rw [at'_of_lt _ _ h3, at'_of_lt _ _ h2]
      simp
    · rw [at'_of_size_le x _ (by omega), at'_of_size_le]
      rw [size_extract]; omega
  · rw [if_neg h, at'_of_size_le]
    rw [size_extract]; omega

theorem at'_extract_lt (x : Array K) (a n i : Nat) (h : i < n) :
    at' (x.extract a (a + n)) i = at' x (a + i) := by
  rw [at'_extract, if_pos (by omega)]

omit [CommRing K] in
/-- a chunk of length `n` inside `x` has size `n` -/
theorem size_extract_chunk (x : Array K) (a n : Nat) (h : a + n ≤ x.size) : (x.extract a (a + n)).size = n := by
  rw [size_extract]; omega

/-! ### `mapChunks` -/

@[simp] theorem mapChunks_size (n : Nat) (f : Array K → Array K) (x : Array K) : (mapChunks n f x).size = x.size := by
  unfold mapChunks
  split
  · rfl
  · simp

theorem at'_mapChunks (n : Nat) (f : Array K → Array K) (x : Array K) (k i : Nat)
    (hn : 0 < n) (hx : x.size = k * n) (hi : i < k * n) :
    at' (mapChunks n f x) i = at' (f (x.extract (i / n * n) (i / n * n + n))) (i % n) := by
  unfold mapChunks
  rw [if_neg (by omega)]
  simp only
  rw [at'_tab_lt _ _ _ (by omega)]
  have hq : i / n < x.size / n := by
    rw [hx, Nat.mul_div_cancel _ hn]
    exact Nat.div_lt_of_lt_mul (by rwa [Nat.mul_comm] at hi)
  rw [getD_ofFn _ _ _ _ hq]

/-- `mapChunks` addressed by (chunk, offset) -/
theorem at'_mapChunks_block (n : Nat) (f : Array K → Array K) (x : Array K) (k b i : Nat)
    (hx : x.size = k * n) (hb : b < k) (hi : i < n) :
    at' (mapChunks n f x) (b * n + i) = at' (f (x.extract (b * n) (b * n + n))) i := by
  have hn : 0 < n := by omega
  have hlt : b * n + i < k * n := by
    have : (b + 1) * n ≤ k * n := Nat.mul_le_mul_right n hb
    rw [Nat.add_mul, Nat.one_mul] at this
    omega
  have hd : (b * n + i) / n = b := by
    rw [Nat.add_comm, Nat.add_mul_div_right _ _ hn, Nat.div_eq_of_lt hi, Nat.zero_add]
  have hm : (b * n + i) % n = i := by
    rw [Nat.add_comm, Nat.add_mul_mod_self_right, Nat.mod_eq_of_lt hi]
  rw [at'_mapChunks n f x k _ hn hx hlt, hd, hm]

theorem dftF_congr (c : Ctx K) (n : Nat) (x y : Nat → K) (k : Nat) (h : ∀ j, j < n → x j = y j) :
    dftF c n x k = dftF c n y k := by
  unfold dftF
  apply sum_congr rfl
  intro j hj
  rw [h j (mem_range.mp hj)]

/-- `IsDft` pointwise -/
theorem IsDft.at' {c : Ctx K} {n : Nat} {f : Array K → Array K} (hf : IsDft c n f) (x : Array K) (hx : x.size = n)
    (k : Nat) (hk : k < n) : at' (f x) k = dftF c n (at' x) k := by
  rw [hf x hx, at'_semDft _ _ _ _ hk]

/-- `IsDft` on a table -/
theorem IsDft.at'_tab {c : Ctx K} {n : Nat} {f : Array K → Array K} (hf : IsDft c n f) (g : Nat → K)
    (k : Nat) (hk : k < n) : RFV.at' (f (tab n g)) k = dftF c n g k := by
  rw [hf.at' _ (tab_size n g) k hk]
  apply dftF_congr
  intro j hj
  rw [at'_tab_lt _ _ _ hj]

/-- chunk `b` of `mapChunks n f x` is the DFT of chunk `b` of `x` -/
theorem at'_mapChunks_isDft (c : Ctx K) (n : Nat) (f : Array K → Array K) (hf : IsDft c n f) (x : Array K)
    (k b i : Nat) (hx : x.size = k * n) (hb : b < k) (hi : i < n) :
    at' (mapChunks n f x) (b * n + i) = dftF c n (fun j => at' x (b * n + j)) i := by
  have hle : b * n + n ≤ x.size := by
    have : (b + 1) * n ≤ k * n := Nat.mul_le_mul_right n hb
    rw [Nat.add_mul, Nat.one_mul] at this
    omega
  rw [at'_mapChunks_block n f x k b i hx hb hi, hf.at' _ (size_extract_chunk x _ n hle) i hi]
  apply dftF_congr
  intro j hj
  rw [at'_extract_lt _ _ _ _ hj]

/-! ### consequences of the twiddle laws -/

section tw
variable {c : Ctx K} {ok : Nat → Prop}

theorem tw_mul_self_left (hc : c.Lawful ok) (n : Nat) (hn : ok n) (b : Nat) : c.tw (n * b) n = 1 := by
  induction b with
  | zero => rw [Nat.mul_zero, hc.tw_zero n hn]
  | succ b ih => rw [Nat.mul_succ, hc.tw_add n _ _ hn, ih, hc.tw_period n hn, mul_one]

theorem tw_mul_self_right (hc : c.Lawful ok) (n : Nat) (hn : ok n) (b : Nat) : c.tw (b * n) n = 1 := by
  rw [Nat.mul_comm, tw_mul_self_left hc n hn]

/-- `tw (a + n*b) n = tw a n` -/
theorem tw_add_mul (hc : c.Lawful ok) (n : Nat) (hn : ok n) (a b : Nat) : c.tw (a + n * b) n = c.tw a n := by
  rw [hc.tw_add n _ _ hn, tw_mul_self_left hc n hn, mul_one]

theorem tw_add_mul' (hc : c.Lawful ok) (n : Nat) (hn : ok n) (a b : Nat) : c.tw (a + b * n) n = c.tw a n := by
  rw [Nat.mul_comm b n, tw_add_mul hc n hn]

/-- `tw (a % n) n = tw a n` -/
theorem tw_mod (hc : c.Lawful ok) (n : Nat) (hn : ok n) (a : Nat) : c.tw (a % n) n = c.tw a n := by
  conv_rhs => rw [← Nat.mod_add_div a n]
  rw [tw_add_mul hc n hn]

/-- twiddles only depend on the index modulo the length -/
theorem tw_congr (hc : c.Lawful ok) (n : Nat) (hn : ok n) (a b : Nat) (h : a ≡ b [MOD n]) : c.tw a n = c.tw b n := by
  rw [← tw_mod hc n hn a, ← tw_mod hc n hn b, h]

theorem tw_mod_mul (hc : c.Lawful ok) (n : Nat) (hn : ok n) (a b : Nat) : c.tw ((a % n) * b) n = c.tw (a * b) n :=
  tw_congr hc n hn _ _ (Nat.ModEq.mul_right b (Nat.mod_modEq a n))

theorem tw_mul_mod (hc : c.Lawful ok) (n : Nat) (hn : ok n) (a b : Nat) : c.tw (a * (b % n)) n = c.tw (a * b) n :=
  tw_congr hc n hn _ _ (Nat.ModEq.mul_left a (Nat.mod_modEq b n))

/-- `tw_scale` with the common factor on the right of the length -/
theorem tw_scale_right (hc : c.Lawful ok) (m n k : Nat) (h : ok (n * m)) : c.tw (m * k) (n * m) = c.tw k n := by
  have h' : ok (m * n) := by rwa [Nat.mul_comm]
  rw [Nat.mul_comm n m, hc.tw_scale m n k h']

/-- `tw_scale` read from right to left: lift a twiddle of length `n` to length `m * n` -/
theorem tw_lift_left (hc : c.Lawful ok) (m n k : Nat) (h : ok (m * n)) : c.tw k n = c.tw (m * k) (m * n) :=
  (hc.tw_scale m n k h).symm

theorem tw_lift_right (hc : c.Lawful ok) (m n k : Nat) (h : ok (n * m)) : c.tw k n = c.tw (m * k) (n * m) :=
  (tw_scale_right hc m n k h).symm

/-- the twiddle bookkeeping common to all Cooley–Tukey steps:
`tw a (w*h) · tw b w · tw d h = tw e (w*h)` whenever `e = a + h*b + w*d + (w*h)*t` -/
theorem tw_combine (hc : c.Lawful ok) (w h : Nat) (hok : ok (w * h)) (a b d e t : Nat)
    (he : e = a + h * b + w * d + (w * h) * t) :
    c.tw a (w * h) * c.tw b w * c.tw d h = c.tw e (w * h) := by
  rw [he, tw_add_mul hc _ hok, hc.tw_add _ _ _ hok, hc.tw_add _ _ _ hok, tw_scale_right hc h w b hok,
    hc.tw_scale w h d hok]

theorem ok_left (hc : c.Lawful ok) (w h : Nat) (hok : ok (w * h)) : ok w := hc.ok_dvd _ _ hok (Dvd.intro _ rfl)

theorem ok_right (hc : c.Lawful ok) (w h : Nat) (hok : ok (w * h)) : ok h := hc.ok_dvd _ _ hok (Dvd.intro_left _ rfl)

theorem pos_left (hc : c.Lawful ok) (w h : Nat) (hok : ok (w * h)) : 0 < w := hc.ok_pos _ (ok_left hc w h hok)

theorem pos_right (hc : c.Lawful ok) (w h : Nat) (hok : ok (w * h)) : 0 < h := hc.ok_pos _ (ok_right hc w h hok)

end tw

/-! ### splitting a sum over `range (w * h)` as `j = x + y * w` -/

theorem sum_range_mul (w h : ℕ) (f : ℕ → K) :
    ∑ j ∈ range (w * h), f j = ∑ x ∈ range w, ∑ y ∈ range h, f (x + y * w) := by
  rw [mul_comm w h]
  induction h with
  | zero => simp
  | succ h ih =>
    rw [Nat.succ_mul, sum_range_add, ih]
    rw [← sum_add_distrib]
    apply sum_congr rfl
    intro x _
    rw [sum_range_succ]
    congr 2
    ring

/-- division and remainder of `a + b * n` for `a < n` -/
theorem add_mul_div_of_lt (a b n : Nat) (h : a < n) : (a + b * n) / n = b := by
  rw [Nat.add_mul_div_right _ _ (by omega), Nat.div_eq_of_lt h, Nat.zero_add]

theorem add_mul_mod_of_lt (a b n : Nat) (h : a < n) : (a + b * n) % n = a := by
  rw [Nat.add_mul_mod_self_right, Nat.mod_eq_of_lt h]

end RFV
