/-
C06 (algebra): the Good–Thomas (prime-factor) decomposition with the CRT input map of
`GoodThomasAlgorithmSmall::new` computes the DFT of length `w * h` for coprime `w`, `h`.
-/
import Mathlib.Data.Nat.GCD.Basic
import RFV.Proofs.Algebra.Chunks

open Finset BigOperators

namespace RFV

variable {K : Type} [CommRing K]

/-- the CRT input map of `GoodThomasAlgorithmSmall::new` -/
def gtIn (w h : ℕ) (p : ℕ × ℕ) : ℕ := (p.1 * h + p.2 * w) % (w * h)

theorem gtIn_injOn (w h : ℕ) (co : Nat.Coprime w h) :
    Set.InjOn (gtIn w h) ((range w ×ˢ range h : Finset (ℕ × ℕ)) : Set (ℕ × ℕ)) := by
  intro p hp q hq heq
  simp only [coe_product, coe_range, Set.mem_prod, Set.mem_Iio] at hp hq
  unfold gtIn at heq
  have hmodw : (p.1 * h) % w = (q.1 * h) % w := by
    have := congrArg (· % w) heq
    simp only [Nat.mod_mul_right_mod] at this
    simpa [Nat.add_mod, Nat.mul_mod_left] using this
  have hmodh : (p.2 * w) % h = (q.2 * w) % h := by
    have := congrArg (· % h) heq
    simp only [Nat.mod_mul_left_mod] at this
    simpa [Nat.add_mod, Nat.mul_mod_left] using this
  have e1 : p.1 = q.1 :=
    Nat.ModEq.eq_of_lt_of_lt (Nat.ModEq.cancel_right_of_coprime (Nat.Coprime.gcd_eq_one co) hmodw) hp.1 hq.1
  have e2 : p.2 = q.2 :=
    Nat.ModEq.eq_of_lt_of_lt (Nat.ModEq.cancel_right_of_coprime (Nat.Coprime.gcd_eq_one co.symm) hmodh) hp.2 hq.2
  exact Prod.ext e1 e2

/-- the CRT map enumerates `range (w * h)` exactly once -/
theorem sum_crt (w h : ℕ) (hw : 0 < w) (hh : 0 < h) (co : Nat.Coprime w h) (f : ℕ → K) :
    ∑ j ∈ range (w * h), f j = ∑ x ∈ range w, ∑ y ∈ range h, f (gtIn w h (x, y)) := by
  have himg : (range w ×ˢ range h).image (gtIn w h) = range (w * h) := by
    apply Finset.eq_of_subset_of_card_le
    · intro j hj
      obtain ⟨p, _, rfl⟩ := mem_image.mp hj
      exact mem_range.mpr (Nat.mod_lt _ (Nat.mul_pos hw hh))
    · rw [card_image_of_injOn (gtIn_injOn w h co)]
      simp
  rw [← himg, sum_image (gtIn_injOn w h co), sum_product]

/-- Good–Thomas on index functions: width DFTs over `xx`, height DFTs over `y`, no twiddles,
output index `k` read through `k % w`, `k % h`. -/
theorem goodThomas_sum {c : Ctx K} {ok : Nat → Prop} (hc : c.Lawful ok) (w h : Nat) (hok : ok (w * h))
    (co : Nat.Coprime w h) (x : Nat → K) (k : Nat) :
    ∑ y ∈ range h, (∑ xx ∈ range w, x (gtIn w h (xx, y)) * c.tw (xx * (k % w)) w) * c.tw (y * (k % h)) h
      = ∑ j ∈ range (w * h), x j * c.tw (j * k) (w * h) := by
  have hokw : ok w := ok_left hc w h hok
  have hokh : ok h := ok_right hc w h hok
  rw [sum_crt w h (hc.ok_pos _ hokw) (hc.ok_pos _ hokh) co, sum_comm]
  apply sum_congr rfl
  intro y _
  rw [sum_mul]
  apply sum_congr rfl
  intro xx _
  rw [mul_assoc]
  congr 1
  unfold gtIn
  dsimp only
  rw [tw_mul_mod hc w hokw, tw_mul_mod hc h hokh, tw_mod_mul hc (w * h) hok]
  have e : (xx * h + y * w) * k = 0 + h * (xx * k) + w * (y * k) + (w * h) * 0 := by ring
  rw [← tw_combine hc w h hok 0 (xx * k) (y * k) _ 0 e, hc.tw_zero _ hok, one_mul]

theorem semGoodThomas_isDft (c : Ctx K) (ok : Nat → Prop) (hc : c.Lawful ok) (w h : Nat) (hok : ok (w * h))
    (hco : Nat.Coprime w h) (fw fh : Array K → Array K) (hw : IsDft c w fw) (hh : IsDft c h fh) :
    IsDft c (w * h) (semGoodThomas w h fw fh) := by
  intro x _
  have hwpos : 0 < w := pos_left hc w h hok
  have hhpos : 0 < h := pos_right hc w h hok
  rw [semDft_eq_tab]
  unfold semGoodThomas
  apply tab_congr
  intro k hk
  have hkh : k % h < h := Nat.mod_lt _ hhpos
  have hkw : k % w < w := Nat.mod_lt _ hwpos
  -- height FFTs: chunk `k % w` of `t`
  rw [Nat.add_comm (k % h), at'_mapChunks_isDft c h fh hh _ w (k % w) (k % h) (tab_size _ _) hkw hkh]
  unfold dftF
  rw [← goodThomas_sum hc w h hok hco]
  apply sum_congr rfl
  intro y hy
  have hy' : y < h := mem_range.mp hy
  have hlt : k % w * h + y < w * h := by
    have : (k % w + 1) * h ≤ w * h := Nat.mul_le_mul_right h hkw
    rw [Nat.add_mul, Nat.one_mul] at this
    omega
  congr 1
  beta_reduce
  -- the transpose `t`
  rw [at'_tab_lt _ _ _ hlt, Nat.add_comm (k % w * h) y, add_mul_div_of_lt _ _ _ hy', add_mul_mod_of_lt _ _ _ hy']
  -- width FFTs: chunk `y` of `a`
  have hsz : (tab (w * h) fun i => at' x ((i % w * h + i / w * w) % (w * h))).size = h * w := by
    rw [tab_size, Nat.mul_comm]
  rw [Nat.add_comm (k % w), at'_mapChunks_isDft c w fw hw _ h y (k % w) hsz hy' hkw]
  unfold dftF
  apply sum_congr rfl
  intro xx hxx
  have hxx' : xx < w := mem_range.mp hxx
  have hlt2 : y * w + xx < w * h := by
    have : (y + 1) * w ≤ h * w := Nat.mul_le_mul_right w hy'
    rw [Nat.add_mul, Nat.one_mul, Nat.mul_comm h w] at this
    omega
  congr 1
  beta_reduce
  rw [at'_tab_lt _ _ _ hlt2, Nat.add_comm (y * w) xx, add_mul_div_of_lt _ _ _ hxx', add_mul_mod_of_lt _ _ _ hxx']
  rfl

end RFV
