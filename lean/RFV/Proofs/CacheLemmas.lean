/-
Helper lemmas for C10 (planner cache): `Recipe.spec` ok ⇒ `Recipe.Good`; the instance-cache invariants; what
`build_fft`, `plan_and_construct_fft` and one `plan_fft` step guarantee; request histories.

`CacheInv` (length-only, membership form) is the invariant of `Proofs/AvxTotal.lean`; the stronger invariant of the
scalar / SSE caches ("every instance the cache hands out has its key as length and was constructible") is
`CacheInvSpec` here.
-/
import RFV.Model.Cache
import RFV.Props.C01
import RFV.Props.C04Scalar
import RFV.Proofs.AvxTotal
namespace RFV

/-! ### constructor asserts ⇒ well-formedness (C01's `Recipe.Good`) -/

theorem radersAsserts_prime {n : Nat} (h : radersAsserts n = .ok ()) : Nat.Prime n := by
  unfold radersAsserts at h
  by_cases hp : isPrimeNat n = true
  · exact (isPrimeNat_iff n).1 hp
  · simp [hp] at h

theorem pos_of_mul_pos' {a b : Nat} (h : 0 < a * b) : 0 < a ∧ 0 < b := by
  constructor
  · exact Nat.pos_of_ne_zero (fun h0 => by simp [h0] at h)
  · exact Nat.pos_of_ne_zero (fun h0 => by simp [h0] at h)

/-- two-child nodes: the children's specs -/
theorem spec_two_children {ty : ElemTy} {l r : Recipe} {α : Type} {f : Spec → Spec → Except String α} {s : α}
    (h : (match l.spec ty, r.spec ty with
      | .ok w, .ok h => f w h
      | .error e, _ => .error e
      | _, .error e => .error e) = .ok s) :
    ∃ w hh, l.spec ty = .ok w ∧ r.spec ty = .ok hh ∧ f w hh = .ok s := by
  cases hl : l.spec ty with
  | error e => simp [hl] at h
  | ok w =>
    cases hr : r.spec ty with
    | error e => simp [hl, hr] at h
    | ok hh => exact ⟨w, hh, rfl, rfl, by simpa [hl, hr] using h⟩

theorem spec_one_child {ty : ElemTy} {i : Recipe} {α : Type} {f : Spec → Except String α} {s : α}
    (h : (match i.spec ty with
      | .error e => (Except.error e : Except String α)
      | .ok inner => f inner) = .ok s) :
    ∃ inner, i.spec ty = .ok inner ∧ f inner = .ok s := by
  cases hi : i.spec ty with
  | error e => simp [hi] at h
  | ok w => exact ⟨w, rfl, by simpa [hi] using h⟩

/-- the length a constructible tree advertises is the tree's length (no positivity needed) -/
theorem spec_len_eq (ty : ElemTy) (t : Recipe) : ∀ (s : Spec), t.spec ty = .ok s → s.len = t.len := by
  induction t with
  | dft n => intro s h; simp only [Recipe.spec, Except.ok.injEq] at h; subst h; rfl
  | bfly n => intro s h; simp only [Recipe.spec, Except.ok.injEq] at h; subst h; rfl
  | primeBfly n => intro s h; simp only [Recipe.spec, Except.ok.injEq] at h; subst h; rfl
  | avxBfly n => intro s h; simp only [Recipe.spec, Except.ok.injEq] at h; subst h; rfl
  | mixedRadix l r ihl ihr =>
    intro s h
    simp only [Recipe.spec] at h
    obtain ⟨w, hh, hl, hr, h⟩ := spec_two_children h
    simp only [Except.ok.injEq] at h
    subst h
    simp only [Recipe.len, ← ihl w hl, ← ihr hh hr]
  | mixedRadixSmall l r ihl ihr =>
    intro s h
    simp only [Recipe.spec] at h
    obtain ⟨w, hh, hl, hr, h⟩ := spec_two_children h
    split at h
    · simp at h
    · simp only [Except.ok.injEq] at h
      subst h
      simp only [Recipe.len, ← ihl w hl, ← ihr hh hr]
  | goodThomas l r ihl ihr =>
    intro s h
    simp only [Recipe.spec] at h
    obtain ⟨a, b, hl, hr, h⟩ := spec_two_children h
    by_cases hg : Nat.gcd a.len b.len = 1
    · have hlen : s.len = a.len * b.len := by
        by_cases hsw : a.len > b.len
        · simp [hg, hsw] at h; rw [← h]; exact Nat.mul_comm _ _
        · simp [hg, hsw] at h; rw [← h]
      simp only [Recipe.len, hlen, ← ihl a hl, ← ihr b hr]
    · simp [hg] at h
  | goodThomasSmall l r ihl ihr =>
    intro s h
    simp only [Recipe.spec] at h
    obtain ⟨w, hh, hl, hr, h⟩ := spec_two_children h
    split at h
    · simp at h
    · split at h
      · simp at h
      · simp only [Except.ok.injEq] at h
        subst h
        simp only [Recipe.len, ← ihl w hl, ← ihr hh hr]
  | raders i ih =>
    intro s h
    simp only [Recipe.spec] at h
    obtain ⟨inner, hi, h⟩ := spec_one_child h
    split at h
    · simp at h
    · simp only [Except.ok.injEq] at h
      subst h
      simp only [Recipe.len, ← ih inner hi]
  | avxRaders i ih =>
    intro s h
    simp only [Recipe.spec] at h
    obtain ⟨inner, hi, h⟩ := spec_one_child h
    split at h
    · simp at h
    · simp only [Except.ok.injEq] at h
      subst h
      simp only [Recipe.len, ← ih inner hi]
  | bluesteins n i ih =>
    intro s h
    simp only [Recipe.spec] at h
    obtain ⟨inner, hi, h⟩ := spec_one_child h
    split at h
    · simp at h
    · split at h
      · simp at h
      · simp only [Except.ok.injEq] at h
        subst h
        rfl
  | avxBluesteins n i ih =>
    intro s h
    simp only [Recipe.spec] at h
    obtain ⟨inner, hi, h⟩ := spec_one_child h
    split at h
    · simp at h
    · split at h
      · simp at h
      · split at h
        · simp at h
        · simp only [Except.ok.injEq] at h
          subst h
          rfl
  | radixN fs b ih =>
    intro s h
    simp only [Recipe.spec] at h
    obtain ⟨base, hb, h⟩ := spec_one_child h
    simp only [Except.ok.injEq] at h
    subst h
    simp only [Recipe.len, ← ih base hb]
  | radix4 k b ih =>
    intro s h
    simp only [Recipe.spec] at h
    obtain ⟨base, hb, h⟩ := spec_one_child h
    simp only [Except.ok.injEq] at h
    subst h
    simp only [Recipe.len, ← ih base hb]
  | radix3 k b ih =>
    intro s h
    simp only [Recipe.spec] at h
    obtain ⟨base, hb, h⟩ := spec_one_child h
    simp only [Except.ok.injEq] at h
    subst h
    simp only [Recipe.len, ← ih base hb]
  | sseRadix4 k b ih =>
    intro s h
    simp only [Recipe.spec] at h
    obtain ⟨base, hb, h⟩ := spec_one_child h
    split at h
    · simp at h
    · simp only [Except.ok.injEq] at h
      subst h
      simp only [Recipe.len, ← ih base hb]
  | avxMixedRadix radix i ih =>
    intro s h
    simp only [Recipe.spec] at h
    obtain ⟨inner, hi, h⟩ := spec_one_child h
    simp only [Except.ok.injEq] at h
    subst h
    simp only [Recipe.len, ← ih inner hi, Nat.mul_comm]

theorem good_of_spec_aux (ty : ElemTy) (t : Recipe) : ∀ (s : Spec), t.spec ty = .ok s → 0 < s.len →
    t.Good (fun n => 0 < n) ∧ s.len = t.len := by
  induction t with
  | dft n => intro s h hpos; simp only [Recipe.spec, Except.ok.injEq] at h; subst h; exact ⟨.dft n hpos, rfl⟩
  | bfly n => intro s h hpos; simp only [Recipe.spec, Except.ok.injEq] at h; subst h; exact ⟨.bfly n hpos, rfl⟩
  | primeBfly n =>
    intro s h hpos; simp only [Recipe.spec, Except.ok.injEq] at h; subst h; exact ⟨.primeBfly n hpos, rfl⟩
  | avxBfly n =>
    intro s h hpos; simp only [Recipe.spec, Except.ok.injEq] at h; subst h; exact ⟨.avxBfly n hpos, rfl⟩
  | mixedRadix l r ihl ihr =>
    intro s h hpos
    simp only [Recipe.spec] at h
    obtain ⟨w, hh, hl, hr, h⟩ := spec_two_children h
    simp only [Except.ok.injEq] at h
    subst h
    simp only at hpos
    obtain ⟨hw, hh'⟩ := pos_of_mul_pos' hpos
    obtain ⟨gl, el⟩ := ihl w hl hw
    obtain ⟨gr, er⟩ := ihr hh hr hh'
    refine ⟨.mixedRadix l r gl gr (by rw [← el, ← er]; exact hpos), by simp only [Recipe.len, el, er]⟩
  | mixedRadixSmall l r ihl ihr =>
    intro s h hpos
    simp only [Recipe.spec] at h
    obtain ⟨w, hh, hl, hr, h⟩ := spec_two_children h
    split at h
    · simp at h
    · simp only [Except.ok.injEq] at h
      subst h
      simp only at hpos
      obtain ⟨hw, hh'⟩ := pos_of_mul_pos' hpos
      obtain ⟨gl, el⟩ := ihl w hl hw
      obtain ⟨gr, er⟩ := ihr hh hr hh'
      refine ⟨.mixedRadixSmall l r gl gr (by rw [← el, ← er]; exact hpos), by simp only [Recipe.len, el, er]⟩
  | goodThomas l r ihl ihr =>
    intro s h hpos
    simp only [Recipe.spec] at h
    obtain ⟨a, b, hl, hr, h⟩ := spec_two_children h
    by_cases hg : Nat.gcd a.len b.len = 1
    · have hlen : s.len = a.len * b.len := by
        by_cases hsw : a.len > b.len
        · simp [hg, hsw] at h; rw [← h]; exact Nat.mul_comm _ _
        · simp [hg, hsw] at h; rw [← h]
      rw [hlen] at hpos
      obtain ⟨hw, hh'⟩ := pos_of_mul_pos' hpos
      obtain ⟨gl, el⟩ := ihl a hl hw
      obtain ⟨gr, er⟩ := ihr b hr hh'
      refine ⟨.goodThomas l r gl gr (by rw [← el, ← er]; exact hpos) (by rw [← el, ← er]; exact hg),
        by simp only [Recipe.len, hlen, el, er]⟩
    · simp [hg] at h
  | goodThomasSmall l r ihl ihr =>
    intro s h hpos
    simp only [Recipe.spec] at h
    obtain ⟨w, hh, hl, hr, h⟩ := spec_two_children h
    split at h
    · simp at h
    · by_cases hg : Nat.gcd w.len hh.len = 1
      · simp only [hg, ne_eq, not_true_eq_false, if_false, Except.ok.injEq] at h
        subst h
        simp only at hpos
        obtain ⟨hw, hh'⟩ := pos_of_mul_pos' hpos
        obtain ⟨gl, el⟩ := ihl w hl hw
        obtain ⟨gr, er⟩ := ihr hh hr hh'
        refine ⟨.goodThomasSmall l r gl gr (by rw [← el, ← er]; exact hpos) (by rw [← el, ← er]; exact hg),
          by simp only [Recipe.len, el, er]⟩
      · simp [hg] at h
  | raders i ih =>
    intro s h hpos
    simp only [Recipe.spec] at h
    obtain ⟨inner, hi, h⟩ := spec_one_child h
    split at h
    · simp at h
    · rename_i hra
      simp only [Except.ok.injEq] at h
      subst h
      have hp := radersAsserts_prime hra
      have h2 := hp.two_le
      obtain ⟨gi, ei⟩ := ih inner hi (by omega)
      refine ⟨.raders i gi (by rw [← ei]; exact hp) (by omega) (by omega), by simp only [Recipe.len, ei]⟩
  | avxRaders i ih =>
    intro s h hpos
    simp only [Recipe.spec] at h
    obtain ⟨inner, hi, h⟩ := spec_one_child h
    split at h
    · simp at h
    · rename_i hra
      simp only [Except.ok.injEq] at h
      subst h
      have hp := radersAsserts_prime hra
      have h2 := hp.two_le
      obtain ⟨gi, ei⟩ := ih inner hi (by omega)
      refine ⟨.avxRaders i gi (by rw [← ei]; exact hp) (by omega) (by omega), by simp only [Recipe.len, ei]⟩
  | bluesteins n i ih =>
    intro s h hpos
    simp only [Recipe.spec] at h
    obtain ⟨inner, hi, h⟩ := spec_one_child h
    by_cases hn : n = 0
    · simp [hn] at h
    · by_cases hm : n * 2 - 1 ≤ inner.len
      · simp only [hn, hm, if_false, not_true_eq_false, Except.ok.injEq] at h
        subst h
        obtain ⟨gi, ei⟩ := ih inner hi (by omega)
        refine ⟨.bluesteins n i gi (by omega) (by omega) (by omega) (by omega), rfl⟩
      · simp [hn, hm] at h
  | avxBluesteins n i ih =>
    intro s h hpos
    simp only [Recipe.spec] at h
    obtain ⟨inner, hi, h⟩ := spec_one_child h
    by_cases hn : n = 0
    · simp [hn] at h
    · by_cases hm : n * 2 - 1 ≤ inner.len
      · by_cases hv : inner.len % complexPerVectorAvx ty = 0
        · simp only [hn, hm, hv, if_false, not_true_eq_false, ne_eq, Except.ok.injEq] at h
          subst h
          obtain ⟨gi, ei⟩ := ih inner hi (by omega)
          refine ⟨.avxBluesteins n i gi (by omega) (by omega) (by omega) (by omega), rfl⟩
        · simp [hn, hm, hv] at h
      · simp [hn, hm] at h
  | radixN fs b ih =>
    intro s h hpos
    simp only [Recipe.spec] at h
    obtain ⟨base, hb, h⟩ := spec_one_child h
    simp only [Except.ok.injEq] at h
    subst h
    simp only at hpos
    obtain ⟨gb, eb⟩ := ih base hb (pos_of_mul_pos' hpos).1
    refine ⟨.radixN fs b gb (by rw [← eb]; exact hpos), by simp only [Recipe.len, eb]⟩
  | radix4 k b ih =>
    intro s h hpos
    simp only [Recipe.spec] at h
    obtain ⟨base, hb, h⟩ := spec_one_child h
    simp only [Except.ok.injEq] at h
    subst h
    simp only at hpos
    obtain ⟨gb, eb⟩ := ih base hb (pos_of_mul_pos' hpos).1
    refine ⟨.radix4 k b gb (by rw [← eb]; exact hpos), by simp only [Recipe.len, eb]⟩
  | radix3 k b ih =>
    intro s h hpos
    simp only [Recipe.spec] at h
    obtain ⟨base, hb, h⟩ := spec_one_child h
    simp only [Except.ok.injEq] at h
    subst h
    simp only at hpos
    obtain ⟨gb, eb⟩ := ih base hb (pos_of_mul_pos' hpos).1
    refine ⟨.radix3 k b gb (by rw [← eb]; exact hpos), by simp only [Recipe.len, eb]⟩
  | sseRadix4 k b ih =>
    intro s h hpos
    simp only [Recipe.spec] at h
    obtain ⟨base, hb, h⟩ := spec_one_child h
    split at h
    · simp at h
    · simp only [Except.ok.injEq] at h
      subst h
      simp only at hpos
      obtain ⟨gb, eb⟩ := ih base hb (pos_of_mul_pos' hpos).1
      refine ⟨.sseRadix4 k b gb (by rw [← eb]; exact hpos), by simp only [Recipe.len, eb]⟩
  | avxMixedRadix radix i ih =>
    intro s h hpos
    simp only [Recipe.spec] at h
    obtain ⟨inner, hi, h⟩ := spec_one_child h
    simp only [Except.ok.injEq] at h
    subst h
    simp only at hpos
    obtain ⟨gi, ei⟩ := ih inner hi (pos_of_mul_pos' hpos).1
    refine ⟨.avxMixedRadix radix i gi (by rw [← ei, Nat.mul_comm]; exact hpos),
      by simp only [Recipe.len, ei, Nat.mul_comm]⟩

/-! ### the instance cache -/

theorem InstCache.find?_filter_ne (c : InstCache) (m k : Nat) (hk : k ≠ m) :
    (c.filter (fun e => e.1 ≠ m)).find? (fun e => e.1 = k) = c.find? (fun e => e.1 = k) := by
  rw [List.find?_filter]
  congr 1
  funext e
  by_cases h1 : e.1 = k
  · simp [h1]; exact hk
  · simp [h1]

theorem InstCache.get?_insert (c : InstCache) (r : Recipe) (k : Nat) :
    (c.insert r).get? k = if k = r.len then some r else c.get? k := by
  unfold InstCache.get? InstCache.insert
  by_cases hk : k = r.len
  · simp [hk]
  · have hk' : ¬ r.len = k := fun h => hk h.symm
    simp only [List.find?_cons, hk', decide_false, hk, if_false]
    rw [InstCache.find?_filter_ne c r.len k hk]

theorem InstCache.get?_insert_self (c : InstCache) (r : Recipe) : (c.insert r).get? r.len = some r := by
  rw [InstCache.get?_insert]; simp

theorem InstCache.contains_insert (c : InstCache) (r : Recipe) (k : Nat) (h : c.contains k = true) :
    (c.insert r).contains k = true := by
  unfold InstCache.contains at h ⊢
  rw [InstCache.get?_insert]
  split
  · rfl
  · exact h

/-- a tree none of whose constructor asserts fires -/
def Recipe.Constructible (ty : ElemTy) (t : Recipe) : Prop := ∃ s, t.spec ty = .ok s

/-- every instance the cache can hand out is filed under its own length and was constructible -/
def CacheInvSpec (ty : ElemTy) (c : InstCache) : Prop :=
  ∀ k t, c.get? k = some t → t.len = k ∧ t.Constructible ty

theorem cacheInvSpec_nil (ty : ElemTy) : CacheInvSpec ty [] := by
  intro k t h; simp [InstCache.get?] at h

theorem cacheInvSpec_insert {ty : ElemTy} {c : InstCache} (hc : CacheInvSpec ty c) (t : Recipe)
    (ht : t.Constructible ty) : CacheInvSpec ty (c.insert t) := by
  intro k t' h
  rw [InstCache.get?_insert] at h
  split at h
  · rename_i hk
    cases h
    exact ⟨hk.symm, ht⟩
  · exact hc k t' h

/-- what a successful `build_fft` call for a recipe of length `len` guarantees -/
structure BuildPost (ty : ElemTy) (c : InstCache) (len : Nat) (t : Recipe) (c' : InstCache) : Prop where
  len_eq : t.len = len
  ok : t.Constructible ty
  inv : CacheInvSpec ty c'
  mono : ∀ k, c.contains k = true → c'.contains k = true
  cached : c'.get? len = some t
  stable : ∀ k t0, c.get? k = some t0 → c'.get? k = some t0

theorem construct_ok {ty : ElemTy} {node t : Recipe} (h : construct ty node = .ok t) :
    t = node ∧ t.Constructible ty := by
  unfold construct at h
  split at h
  · rename_i s hs
    cases h
    exact ⟨rfl, s, hs⟩
  · cases h

theorem finish1_ok {ty : ElemTy} {res : Except String (Recipe × InstCache)} {mk : Recipe → Recipe}
    {t : Recipe} {c' : InstCache} (h : finish1 ty res mk = .ok (t, c')) :
    ∃ ii c1, res = .ok (ii, c1) ∧ t = mk ii ∧ t.Constructible ty ∧ c' = c1.insert t := by
  unfold finish1 at h
  split at h
  · cases h
  · rename_i ii c1
    split at h
    · rename_i t' ht'
      cases h
      obtain ⟨e, ok⟩ := construct_ok ht'
      exact ⟨ii, c1, rfl, e, ok, rfl⟩
    · cases h

theorem finish2_ok {ty : ElemTy} {bl : Except String (Recipe × InstCache)}
    {br : InstCache → Except String (Recipe × InstCache)} {mk : Recipe → Recipe → Recipe}
    {t : Recipe} {c' : InstCache} (h : finish2 ty bl br mk = .ok (t, c')) :
    ∃ li c1 ri c2, bl = .ok (li, c1) ∧ br c1 = .ok (ri, c2) ∧ t = mk li ri ∧ t.Constructible ty ∧
      c' = c2.insert t := by
  unfold finish2 at h
  split at h
  · cases h
  · rename_i li c1
    obtain ⟨ri, c2, h1, h2, h3, h4⟩ := finish1_ok h
    exact ⟨li, c1, ri, c2, rfl, h1, h2, h3, h4⟩

theorem buildPost_insert {ty : ElemTy} {c c1 : InstCache} {t : Recipe} {len : Nat} (hmiss : c.get? len = none)
    (hl : t.len = len) (hc1 : CacheInvSpec ty c1) (ht : t.Constructible ty)
    (hm : ∀ k, c.contains k = true → c1.contains k = true)
    (hst : ∀ k t0, c.get? k = some t0 → c1.get? k = some t0) : BuildPost ty c len t (c1.insert t) :=
  ⟨hl, ht, cacheInvSpec_insert hc1 t ht, fun k hk => InstCache.contains_insert c1 t k (hm k hk),
    by rw [← hl]; exact InstCache.get?_insert_self c1 t,
    fun k t0 hk => by
      have hne : k ≠ t.len := by
        intro e; rw [e, hl, hmiss] at hk; cases hk
      rw [InstCache.get?_insert, if_neg hne]; exact hst k t0 hk⟩

theorem orBuild_post {ty : ElemTy} {c : InstCache} {len : Nat}
    {build : Unit → Except String (Recipe × InstCache)} {t : Recipe} {c' : InstCache}
    (hc : CacheInvSpec ty c)
    (hb : c.get? len = none → ∀ t c', build () = .ok (t, c') → BuildPost ty c len t c')
    (h : orBuild c len build = .ok (t, c')) : BuildPost ty c len t c' := by
  unfold orBuild at h
  split at h
  · rename_i inst hg
    cases h
    exact ⟨(hc len t hg).1, (hc len t hg).2, hc, fun _ hk => hk, hg, fun _ _ hk => hk⟩
  · rename_i hg
    exact hb hg t c' h

theorem buildFft_post (ty : ElemTy) (r : Recipe) : ∀ (c : InstCache), CacheInvSpec ty c →
    ∀ t c', buildFft ty c r = .ok (t, c') → BuildPost ty c r.len t c' := by
  induction r with
  | dft n =>
    intro c hc t c' h
    refine orBuild_post hc (fun hmiss t c' hb => ?_) h
    obtain ⟨ii, c1, h1, h2, h3, h4⟩ := finish1_ok hb
    cases h1; subst h4
    exact buildPost_insert hmiss (by rw [h2]; rfl) hc h3 (fun _ hk => hk) (fun _ _ hk => hk)
  | bfly n =>
    intro c hc t c' h
    refine orBuild_post hc (fun hmiss t c' hb => ?_) h
    obtain ⟨ii, c1, h1, h2, h3, h4⟩ := finish1_ok hb
    cases h1; subst h4
    exact buildPost_insert hmiss (by rw [h2]; rfl) hc h3 (fun _ hk => hk) (fun _ _ hk => hk)
  | primeBfly n =>
    intro c hc t c' h
    refine orBuild_post hc (fun hmiss t c' hb => ?_) h
    obtain ⟨ii, c1, h1, h2, h3, h4⟩ := finish1_ok hb
    cases h1; subst h4
    exact buildPost_insert hmiss (by rw [h2]; rfl) hc h3 (fun _ hk => hk) (fun _ _ hk => hk)
  | avxBfly n =>
    intro c hc t c' h
    refine orBuild_post hc (fun hmiss t c' hb => ?_) h
    obtain ⟨ii, c1, h1, h2, h3, h4⟩ := finish1_ok hb
    cases h1; subst h4
    exact buildPost_insert hmiss (by rw [h2]; rfl) hc h3 (fun _ hk => hk) (fun _ _ hk => hk)
  | mixedRadix l r ihl ihr =>
    intro c hc t c' h
    refine orBuild_post hc (fun hmiss t c' hb => ?_) h
    obtain ⟨li, c1, ri, c2, h1, h2, h3, h4, h5⟩ := finish2_ok hb
    have p1 := ihl c hc li c1 h1
    have p2 := ihr c1 p1.inv ri c2 h2
    subst h5
    exact buildPost_insert hmiss (by rw [h3]; simp only [Recipe.len, p1.len_eq, p2.len_eq]) p2.inv h4
      (fun k hk => p2.mono k (p1.mono k hk)) (fun k t0 hk => p2.stable k t0 (p1.stable k t0 hk))
  | mixedRadixSmall l r ihl ihr =>
    intro c hc t c' h
    refine orBuild_post hc (fun hmiss t c' hb => ?_) h
    obtain ⟨li, c1, ri, c2, h1, h2, h3, h4, h5⟩ := finish2_ok hb
    have p1 := ihl c hc li c1 h1
    have p2 := ihr c1 p1.inv ri c2 h2
    subst h5
    exact buildPost_insert hmiss (by rw [h3]; simp only [Recipe.len, p1.len_eq, p2.len_eq]) p2.inv h4
      (fun k hk => p2.mono k (p1.mono k hk)) (fun k t0 hk => p2.stable k t0 (p1.stable k t0 hk))
  | goodThomas l r ihl ihr =>
    intro c hc t c' h
    refine orBuild_post hc (fun hmiss t c' hb => ?_) h
    obtain ⟨li, c1, ri, c2, h1, h2, h3, h4, h5⟩ := finish2_ok hb
    have p1 := ihl c hc li c1 h1
    have p2 := ihr c1 p1.inv ri c2 h2
    subst h5
    exact buildPost_insert hmiss (by rw [h3]; simp only [Recipe.len, p1.len_eq, p2.len_eq]) p2.inv h4
      (fun k hk => p2.mono k (p1.mono k hk)) (fun k t0 hk => p2.stable k t0 (p1.stable k t0 hk))
  | goodThomasSmall l r ihl ihr =>
    intro c hc t c' h
    refine orBuild_post hc (fun hmiss t c' hb => ?_) h
    obtain ⟨li, c1, ri, c2, h1, h2, h3, h4, h5⟩ := finish2_ok hb
    have p1 := ihl c hc li c1 h1
    have p2 := ihr c1 p1.inv ri c2 h2
    subst h5
    exact buildPost_insert hmiss (by rw [h3]; simp only [Recipe.len, p1.len_eq, p2.len_eq]) p2.inv h4
      (fun k hk => p2.mono k (p1.mono k hk)) (fun k t0 hk => p2.stable k t0 (p1.stable k t0 hk))
  | raders i ih =>
    intro c hc t c' h
    refine orBuild_post hc (fun hmiss t c' hb => ?_) h
    obtain ⟨ii, c1, h1, h2, h3, h4⟩ := finish1_ok hb
    have p1 := ih c hc ii c1 h1
    subst h4
    exact buildPost_insert hmiss (by rw [h2]; simp only [Recipe.len, p1.len_eq]) p1.inv h3 p1.mono p1.stable
  | bluesteins n i ih =>
    intro c hc t c' h
    refine orBuild_post hc (fun hmiss t c' hb => ?_) h
    obtain ⟨ii, c1, h1, h2, h3, h4⟩ := finish1_ok hb
    have p1 := ih c hc ii c1 h1
    subst h4
    exact buildPost_insert hmiss (by rw [h2]; simp only [Recipe.len]) p1.inv h3 p1.mono p1.stable
  | radixN fs b ih =>
    intro c hc t c' h
    refine orBuild_post hc (fun hmiss t c' hb => ?_) h
    obtain ⟨ii, c1, h1, h2, h3, h4⟩ := finish1_ok hb
    have p1 := ih c hc ii c1 h1
    subst h4
    exact buildPost_insert hmiss (by rw [h2]; simp only [Recipe.len, p1.len_eq]) p1.inv h3 p1.mono p1.stable
  | radix4 k b ih =>
    intro c hc t c' h
    refine orBuild_post hc (fun hmiss t c' hb => ?_) h
    obtain ⟨ii, c1, h1, h2, h3, h4⟩ := finish1_ok hb
    have p1 := ih c hc ii c1 h1
    subst h4
    exact buildPost_insert hmiss (by rw [h2]; simp only [Recipe.len, p1.len_eq]) p1.inv h3 p1.mono p1.stable
  | radix3 k b ih =>
    intro c hc t c' h
    refine orBuild_post hc (fun hmiss t c' hb => ?_) h
    obtain ⟨ii, c1, h1, h2, h3, h4⟩ := finish1_ok hb
    have p1 := ih c hc ii c1 h1
    subst h4
    exact buildPost_insert hmiss (by rw [h2]; simp only [Recipe.len, p1.len_eq]) p1.inv h3 p1.mono p1.stable
  | sseRadix4 k b ih =>
    intro c hc t c' h
    refine orBuild_post hc (fun hmiss t c' hb => ?_) h
    obtain ⟨ii, c1, h1, h2, h3, h4⟩ := finish1_ok hb
    have p1 := ih c hc ii c1 h1
    subst h4
    exact buildPost_insert hmiss (by rw [h2]; simp only [Recipe.len, p1.len_eq]) p1.inv h3 p1.mono p1.stable
  | avxMixedRadix rad i ih =>
    intro c hc t c' h
    refine orBuild_post hc (fun hmiss t c' hb => ?_) h
    obtain ⟨ii, c1, h1, h2, h3, h4⟩ := finish1_ok hb
    have p1 := ih c hc ii c1 h1
    subst h4
    exact buildPost_insert hmiss (by rw [h2]; simp only [Recipe.len, p1.len_eq]) p1.inv h3 p1.mono p1.stable
  | avxRaders i ih =>
    intro c hc t c' h
    refine orBuild_post hc (fun hmiss t c' hb => ?_) h
    obtain ⟨ii, c1, h1, h2, h3, h4⟩ := finish1_ok hb
    have p1 := ih c hc ii c1 h1
    subst h4
    exact buildPost_insert hmiss (by rw [h2]; simp only [Recipe.len, p1.len_eq]) p1.inv h3 p1.mono p1.stable
  | avxBluesteins n i ih =>
    intro c hc t c' h
    refine orBuild_post hc (fun hmiss t c' hb => ?_) h
    obtain ⟨ii, c1, h1, h2, h3, h4⟩ := finish1_ok hb
    have p1 := ih c hc ii c1 h1
    subst h4
    exact buildPost_insert hmiss (by rw [h2]; simp only [Recipe.len]) p1.inv h3 p1.mono p1.stable

/-- hitting the cache: `build_fft` of a recipe whose length is cached returns the cached instance, cache untouched -/
theorem buildFft_hit (ty : ElemTy) (c : InstCache) (r t : Recipe) (h : c.get? r.len = some t) :
    buildFft ty c r = .ok (t, c) := by
  cases r <;> simp only [Recipe.len] at h <;> simp only [buildFft, orBuild, h]

/-! ### planner state -/

theorem PlannerState.cache_setCache (s : PlannerState) (b : Bool) (c : InstCache) :
    (s.setCache b c).cache b = c := by
  cases b <;> rfl

theorem PlannerState.cache_setCache_not (s : PlannerState) (b : Bool) (c : InstCache) :
    (s.setCache b c).cache (!b) = s.cache (!b) := by
  cases b <;> rfl

theorem PlannerState.setCache_cache (s : PlannerState) (b : Bool) : s.setCache b (s.cache b) = s := by
  cases b <;> rfl

theorem PlannerState.setCache_setCache (s : PlannerState) (b : Bool) (c c' : InstCache) :
    (s.setCache b c).setCache b c' = s.setCache b c' := by
  cases b <;> rfl

theorem PlannerState.fwd_eq (s : PlannerState) : s.fwd = s.cache false := rfl
theorem PlannerState.inv_eq (s : PlannerState) : s.inv = s.cache true := rfl

/-- a property of both maps is a property of `cache b` and `cache !b` -/
theorem PlannerState.both_iff (s : PlannerState) (P : InstCache → Prop) (b : Bool) :
    (P s.fwd ∧ P s.inv) ↔ (P (s.cache b) ∧ P (s.cache (!b))) := by
  cases b
  · exact Iff.rfl
  · exact And.comm

/-! ### one planner step, unfolded -/

theorem planStep_scalar_ok {ty : ElemTy} {s s' : PlannerState} {len : Nat} {inverse : Bool} {t : Recipe}
    (h : planStep .scalar ty s len inverse = .ok (t, s')) :
    ∃ r c', planScalar len = .ok r ∧ buildFft ty (s.cache inverse) r = .ok (t, c') ∧
      s' = s.setCache inverse c' := by
  simp only [planStep] at h
  split at h
  · cases h
  · rename_i r hr
    split at h
    · cases h
    · rename_i inst c' hb
      cases h
      exact ⟨r, c', hr, hb, rfl⟩

theorem planStep_sse_ok {ty : ElemTy} {s s' : PlannerState} {len : Nat} {inverse : Bool} {t : Recipe}
    (h : planStep .sse ty s len inverse = .ok (t, s')) :
    ∃ r c', planSse len = .ok r ∧ buildFft ty (s.cache inverse) r = .ok (t, c') ∧
      s' = s.setCache inverse c' := by
  simp only [planStep] at h
  split at h
  · cases h
  · rename_i r hr
    split at h
    · cases h
    · rename_i inst c' hb
      cases h
      exact ⟨r, c', hr, hb, rfl⟩

theorem planStep_avx_ok {ty : ElemTy} {avx2 : Bool} {s s' : PlannerState} {len : Nat} {inverse : Bool}
    {t : Recipe} (h : planStep (.avx avx2) ty s len inverse = .ok (t, s')) :
    ∃ c', avxPlanAndConstruct ty avx2 (planFuel len) (s.cache inverse) len = .ok (t, c') ∧
      t.Constructible ty ∧ s' = s.setCache inverse c' := by
  simp only [planStep] at h
  split at h
  · cases h
  · rename_i inst c' hb
    split at h
    · cases h
    · rename_i sp hsp
      cases h
      exact ⟨c', hb, ⟨sp, hsp⟩, rfl⟩

/-! ### AVX: the returned instance is the one now cached under its length -/

theorem avxWrapChain_cached : ∀ (rs : List Nat) (fft : Recipe) (c : InstCache) (t : Recipe) (c' : InstCache),
    c.get? fft.len = some fft → avxWrapChain rs fft c = .ok (t, c') → c'.get? t.len = some t := by
  intro rs
  induction rs with
  | nil => intro fft c t c' hg h; simp only [avxWrapChain] at h; cases h; exact hg
  | cons x rs ih =>
    intro fft c t c' hg h
    rw [avxWrapChain] at h
    split at h
    · exact ih _ _ t c' (InstCache.get?_insert_self _ _) h
    · cases h

theorem avxWrapChain_mono : ∀ (rs : List Nat) (fft : Recipe) (c : InstCache) (t : Recipe) (c' : InstCache),
    avxWrapChain rs fft c = .ok (t, c') → ∀ k, c.contains k = true → c'.contains k = true := by
  intro rs
  induction rs with
  | nil => intro fft c t c' h; simp only [avxWrapChain] at h; cases h; exact fun _ hk => hk
  | cons x rs ih =>
    intro fft c t c' h k hk
    rw [avxWrapChain] at h
    split at h
    · exact ih _ _ t c' h k (InstCache.contains_insert _ _ _ hk)
    · cases h

theorem avxPlanAndConstruct_cached (ty : ElemTy) (avx2 : Bool) (fuel : Nat) (c : InstCache) (len : Nat)
    (hc : CacheInv c) (t : Recipe) (c' : InstCache)
    (h : avxPlanAndConstruct ty avx2 fuel c len = .ok (t, c')) : c'.get? t.len = some t := by
  cases fuel with
  | zero => simp [avxPlanAndConstruct] at h
  | succ fuel =>
    rw [avxPlanAndConstruct] at h
    split at h
    · cases h
    · rename_i plan hplan
      simp only at h
      split at h
      · cases h
      · rename_i fft c1 hbase
        refine avxWrapChain_cached _ _ _ _ _ ?_ h
        split at hbase
        · rename_i n hb
          split at hbase
          · rename_i r hr
            cases hbase
            rw [hc.get hr]; exact hr
          · cases hbase
        · split at hbase
          · cases hbase; exact InstCache.get?_insert_self _ _
          · cases hbase
        · split at hbase
          · cases hbase
          · cases hbase; exact InstCache.get?_insert_self _ _
        · split at hbase
          · cases hbase
          · cases hbase; exact InstCache.get?_insert_self _ _

/-- what a successful `plan_and_construct_fft` guarantees (`CacheInv` is the length-only invariant of
`Proofs/AvxTotal.lean`) -/
theorem avxPlanAndConstruct_post (ty : ElemTy) (avx2 : Bool) (fuel : Nat) (hf : 2 ≤ fuel) (c : InstCache)
    (len : Nat) (hc : CacheInv c) (t : Recipe) (c' : InstCache)
    (h : avxPlanAndConstruct ty avx2 fuel c len = .ok (t, c')) :
    t.len = len ∧ CacheInv c' ∧ c'.get? len = some t := by
  obtain ⟨f, rfl⟩ : ∃ f, fuel = f + 2 := ⟨fuel - 2, by omega⟩
  obtain ⟨r, c'', h1, h2, h3⟩ := avxConstruct_any ty avx2 f c len hc
  rw [h] at h1
  cases h1
  refine ⟨h2, h3, ?_⟩
  have := avxPlanAndConstruct_cached ty avx2 _ c len hc t c' h
  rwa [h2] at this

/-- the second request for a cached length: the plan is `cached(len)`, the instance the cached one -/
theorem avxPlanAndConstruct_hit (ty : ElemTy) (avx2 : Bool) (fuel : Nat) (c : InstCache) (len : Nat) (t : Recipe)
    (h : c.get? len = some t) : avxPlanAndConstruct ty avx2 (fuel + 1) c len = .ok (t, c) := by
  have hc : c.contains len = true := by simp [InstCache.contains, h]
  rw [avxPlanAndConstruct]
  simp only [avxPlanFft, hc, if_true, AvxPlan.cached, h, avxWrapChain]

/-! ### AVX: a Rader base is only planned for a prime -/

theorem avxBaseOther_raders (ty : ElemTy) (avx2 : Bool) (len other : Nat) (p : AvxPlan) (n : Nat)
    (hp : avxBaseOther ty avx2 len other = .ok p) (hb : p.base = .raders n) : isPrimeNat n = true := by
  unfold avxBaseOther at hp
  split at hp
  · injection hp with hp; subst hp
    simp [AvxPlan.butterfly, AvxPlan.mk'] at hb
  · simp only at hp
    split at hp
    · rename_i h
      injection hp with hp; subst hp
      simp only [AvxPlan.mk', AvxBase.raders.injEq] at hb
      subst hb; exact h.1
    · split at hp
      · injection hp with hp; subst hp; simp [AvxPlan.mk'] at hb
      · simp at hp

theorem avxPlanBase_raders (ty : ElemTy) (avx2 : Bool) (len : Nat) (f : PartialFactors) (p : AvxPlan) (n : Nat)
    (hp : avxPlanBase ty avx2 len f = .ok p) (hb : p.base = .raders n) : isPrimeNat n = true := by
  unfold avxPlanBase at hp
  split at hp
  · exact avxBaseOther_raders _ _ _ _ _ _ hp hb
  · split at hp
    · injection hp with hp; subst hp
      simp [AvxPlan.butterfly, AvxPlan.mk'] at hb
    · simp only at hp
      split at hp
      · injection hp with hp; subst hp
        simp [AvxPlan.butterfly, AvxPlan.mk'] at hb
      · split at hp
        · rename_i q hq
          injection hp with hp; subst hp
          obtain ⟨b', hb', _⟩ := avxHardcoded_bfly _ _ _ hq
          rw [hb'] at hb; cases hb
        · split at hp
          · injection hp with hp; subst hp
            simp [AvxPlan.butterfly, AvxPlan.mk'] at hb
          · simp at hp

theorem avxPlanFft_raders_prime (ty : ElemTy) (avx2 : Bool) (cached : Nat → Bool) (len : Nat) (p : AvxPlan) (n : Nat)
    (hp : avxPlanFft ty avx2 cached len = .ok p) (hb : p.base = .raders n) : isPrimeNat n = true := by
  unfold avxPlanFft at hp
  split at hp
  · injection hp with hp; subst hp; simp [AvxPlan.cached] at hb
  · split at hp
    · injection hp with hp; subst hp
      simp [AvxPlan.butterfly, AvxPlan.mk'] at hb
    · simp only at hp
      cases hbase : avxPlanBase ty avx2 len (PartialFactors.compute len) with
      | error e => simp [hbase] at hp
      | ok base =>
        simp only [hbase] at hp
        split at hp
        · simp at hp
        · rename_i q hq
          injection hp with hp; subst hp
          have hqb : q.base = base.base := by
            split at hq
            · injection hq with hq; subst hq; rfl
            · split at hq
              · simp at hq
              · exact avxPlanMixedRadix_base _ _ _ hq
          rcases avxReplan_base cached q with h1 | ⟨n, h1⟩
          · rw [h1, hqb] at hb
            exact avxPlanBase_raders _ _ _ _ _ _ hbase hb
          · rw [h1] at hb; simp at hb

/-! ### AVX: the full invariant (every entry filed under its length *and* constructible) -/

def CacheInvFull (ty : ElemTy) (c : InstCache) : Prop := ∀ e ∈ c, e.2.len = e.1 ∧ e.2.Constructible ty

theorem CacheInvFull.nil (ty : ElemTy) : CacheInvFull ty [] := by intro e he; simp at he

theorem CacheInvFull.toLen {ty : ElemTy} {c : InstCache} (h : CacheInvFull ty c) : CacheInv c :=
  fun e he => (h e he).1

theorem InstCache.mem_of_get? {c : InstCache} {n : Nat} {r : Recipe} (hg : c.get? n = some r) :
    ∃ k, (k, r) ∈ c := by
  unfold InstCache.get? at hg
  cases hf : c.find? (fun e => e.1 = n) with
  | none => rw [hf] at hg; simp at hg
  | some e =>
    rw [hf] at hg
    simp only [Option.map_some, Option.some.injEq] at hg
    exact ⟨e.1, by rw [← hg]; exact List.mem_of_find?_eq_some hf⟩

theorem CacheInvFull.toSpec {ty : ElemTy} {c : InstCache} (h : CacheInvFull ty c) : CacheInvSpec ty c := by
  intro k t hg
  obtain ⟨k', hm⟩ := InstCache.mem_of_get? hg
  exact ⟨h.toLen.get hg, (h _ hm).2⟩

theorem CacheInvFull.insert {ty : ElemTy} {c : InstCache} (h : CacheInvFull ty c) (r : Recipe)
    (hr : r.Constructible ty) : CacheInvFull ty (c.insert r) := by
  intro e he
  simp only [InstCache.insert, List.mem_cons, List.mem_filter] at he
  rcases he with rfl | ⟨he, _⟩
  · exact ⟨rfl, hr⟩
  · exact h e he

theorem avxMixedRadix_constructible {ty : ElemTy} {fft : Recipe} (h : fft.Constructible ty) (r : Nat) :
    (Recipe.avxMixedRadix r fft).Constructible ty := by
  obtain ⟨s, hs⟩ := h
  exact ⟨_, by simp only [Recipe.spec, hs]; rfl⟩

theorem avxWrapChain_full {ty : ElemTy} : ∀ (rs : List Nat) (fft : Recipe) (c : InstCache) (t : Recipe)
    (c' : InstCache), CacheInvFull ty c → fft.Constructible ty → avxWrapChain rs fft c = .ok (t, c') →
    t.len = fft.len * rs.prod ∧ t.Constructible ty ∧ CacheInvFull ty c' := by
  intro rs
  induction rs with
  | nil =>
    intro fft c t c' hc hf h
    simp only [avxWrapChain] at h
    cases h
    exact ⟨by simp, hf, hc⟩
  | cons x rs ih =>
    intro fft c t c' hc hf h
    rw [avxWrapChain] at h
    split at h
    · have hf' := avxMixedRadix_constructible hf x
      obtain ⟨h1, h2, h3⟩ := ih _ _ t c' (hc.insert _ hf') hf' h
      refine ⟨?_, h2, h3⟩
      rw [h1]; simp only [Recipe.len, List.prod_cons]; ring
    · cases h

theorem avxConstructButterfly_constructible {ty : ElemTy} {n : Nat} {r : Recipe}
    (h : avxConstructButterfly ty n = .ok r) : r.Constructible ty := by
  unfold avxConstructButterfly at h
  split at h
  · cases h; exact ⟨_, by simp only [Recipe.spec]; rfl⟩
  · split at h
    · cases h; exact ⟨_, by simp only [Recipe.spec]; rfl⟩
    · split at h
      · cases h; exact ⟨_, by simp only [Recipe.spec]; rfl⟩
      · cases h

theorem radersAsserts_of_prime {n : Nat} (hp : isPrimeNat n = true) : radersAsserts n = .ok () := by
  have hP := (isPrimeNat_iff n).1 hp
  have hr := primitiveRoot_isSome n hP
  unfold radersAsserts
  rw [if_neg (by simp [hp])]
  cases hg : primitiveRoot n with
  | none => rw [hg] at hr; cases hr
  | some g => rfl

theorem raders_constructible {ty : ElemTy} {inner : Recipe} (hi : inner.Constructible ty)
    (hp : isPrimeNat (inner.len + 1) = true) (avx2 : Bool) :
    (if avx2 then Recipe.avxRaders inner else Recipe.raders inner).Constructible ty := by
  obtain ⟨s, hs⟩ := hi
  have hl := spec_len_eq ty inner s hs
  have ha := radersAsserts_of_prime hp
  rw [← hl] at ha
  cases avx2
  · exact ⟨_, by simp only [Bool.false_eq_true, if_false, Recipe.spec, hs, ha]; rfl⟩
  · exact ⟨_, by simp only [if_true, Recipe.spec, hs, ha]; rfl⟩

theorem avxBluesteins_constructible {ty : ElemTy} {inner : Recipe} {n : Nat} (hi : inner.Constructible ty)
    (hn : 1 < n) (hm : 2 * n - 1 ≤ inner.len) (h4 : inner.len % 4 = 0) :
    (Recipe.avxBluesteins n inner).Constructible ty := by
  obtain ⟨s, hs⟩ := hi
  have hl := spec_len_eq ty inner s hs
  have h0 : ¬ n = 0 := by omega
  have h1 : n * 2 - 1 ≤ s.len := by omega
  have h2 : s.len % complexPerVectorAvx ty = 0 := by
    cases ty <;> simp only [complexPerVectorAvx] <;> omega
  exact ⟨_, by simp only [Recipe.spec, hs, h0, h1, h2, if_false, not_true_eq_false, ne_eq]; rfl⟩

/-- `plan_and_construct_fft` from a cache satisfying the full invariant: whatever the fuel, a successful run returns a
constructible instance of the requested length and a cache satisfying the full invariant again — also for the
intermediate stages `construct_plan` inserts -/
theorem avxPlanAndConstruct_full (ty : ElemTy) (avx2 : Bool) : ∀ (fuel : Nat) (c : InstCache) (len : Nat)
    (t : Recipe) (c' : InstCache), CacheInvFull ty c → avxPlanAndConstruct ty avx2 fuel c len = .ok (t, c') →
    t.len = len ∧ t.Constructible ty ∧ CacheInvFull ty c' := by
  intro fuel
  induction fuel with
  | zero => intro c len t c' _ h; simp [avxPlanAndConstruct] at h
  | succ fuel ih =>
    intro c len t c' hc h
    obtain ⟨p, hp, hwf, hlen, hk, _⟩ := avxPlanFft_spec ty avx2 c.contains len
    rw [avxPlanAndConstruct, hp] at h
    simp only at h
    have wrap : ∀ (fft : Recipe) (c1 : InstCache), fft.len = p.base.baseLen → fft.Constructible ty →
        CacheInvFull ty c1 → avxWrapChain p.radixes fft c1 = .ok (t, c') →
        t.len = len ∧ t.Constructible ty ∧ CacheInvFull ty c' := by
      intro fft c1 hl hf hc1 hw
      obtain ⟨h1, h2, h3⟩ := avxWrapChain_full p.radixes fft c1 t c' hc1 hf hw
      exact ⟨by rw [h1, hl, ← hwf.1, hlen], h2, h3⟩
    rcases hk with ⟨n, hb, hcn⟩ | ⟨b, hb⟩ | ⟨n, hb, hn1, _⟩ | ⟨n, m, hb, hn1, hm⟩
    · obtain ⟨r, hr⟩ := InstCache.get_of_contains hcn
      rw [hb] at wrap h
      simp only [hr] at h
      obtain ⟨k, hmem⟩ := InstCache.mem_of_get? hr
      exact wrap r c (hc.toLen.get hr) (hc _ hmem).2 hc h
    · obtain ⟨r, hr, hrl⟩ := avxPlanFft_base_constructible ty avx2 c.contains len p b hp hb
      rw [hb] at wrap h
      simp only [hr] at h
      have hrc := avxConstructButterfly_constructible hr
      exact wrap r _ hrl hrc (hc.insert r hrc) h
    · have hprime := avxPlanFft_raders_prime ty avx2 c.contains len p n hp hb
      rw [hb] at wrap h
      simp only at h
      cases hrec : avxPlanAndConstruct ty avx2 fuel c (n - 1) with
      | error e => simp [hrec] at h
      | ok res =>
        obtain ⟨inner, c1⟩ := res
        simp only [hrec] at h
        obtain ⟨hil, hic, hc1⟩ := ih c (n - 1) inner c1 hc hrec
        have hn : inner.len + 1 = n := by omega
        have hrc := raders_constructible (ty := ty) hic (by rw [hn]; exact hprime) avx2
        refine wrap _ _ ?_ hrc (hc1.insert _ hrc) h
        cases avx2 <;> simp only [Recipe.len, AvxBase.baseLen, if_true, Bool.false_eq_true, if_false] <;> omega
    · obtain ⟨m', hm', hge, h4, _⟩ := avxPlanBluesteins_spec ty n hn1
      rw [hm] at hm'; cases hm'
      rw [hb] at wrap h
      simp only at h
      cases hrec : avxPlanAndConstruct ty avx2 fuel c m with
      | error e => simp [hrec] at h
      | ok res =>
        obtain ⟨inner, c1⟩ := res
        simp only [hrec] at h
        obtain ⟨hil, hic, hc1⟩ := ih c m inner c1 hc hrec
        have hrc := avxBluesteins_constructible (ty := ty) (n := n) hic hn1 (by omega) (by omega)
        exact wrap _ _ rfl hrc (hc1.insert _ hrc) h

/-! ### the state invariant of each planner kind, and one step -/

/-- the per-kind state invariant: both maps satisfy `CacheInvSpec` (scalar, SSE: every instance the cache hands out is
filed under its length and was constructible) or `CacheInvFull` (AVX: the same for every *entry*, shadowed or not —
the membership form is what the lemmas of `Proofs/AvxTotal.lean` are stated with) -/
def StateInv (kind : PlannerKind) (ty : ElemTy) (s : PlannerState) : Prop :=
  match kind with
  | .avx _ => CacheInvFull ty s.fwd ∧ CacheInvFull ty s.inv
  | _ => CacheInvSpec ty s.fwd ∧ CacheInvSpec ty s.inv

theorem stateInv_empty (kind : PlannerKind) (ty : ElemTy) : StateInv kind ty PlannerState.empty := by
  cases kind
  · exact ⟨cacheInvSpec_nil ty, cacheInvSpec_nil ty⟩
  · exact ⟨cacheInvSpec_nil ty, cacheInvSpec_nil ty⟩
  · exact ⟨CacheInvFull.nil ty, CacheInvFull.nil ty⟩

/-- one step of the scalar / SSE planner from the recipe it designs -/
theorem planStep_of_build {ty : ElemTy} {s : PlannerState} {len : Nat} {inverse : Bool} {t r : Recipe}
    {c' : InstCache} (hf : CacheInvSpec ty s.fwd) (hi : CacheInvSpec ty s.inv) (hr : r.len = len)
    (hb : buildFft ty (s.cache inverse) r = .ok (t, c')) :
    t.len = len ∧ t.Constructible ty ∧ CacheInvSpec ty (s.setCache inverse c').fwd ∧
      CacheInvSpec ty (s.setCache inverse c').inv ∧ (s.setCache inverse c').cache inverse = c' ∧
      c'.get? len = some t ∧ (∀ k, (s.cache inverse).contains k = true → c'.contains k = true) ∧
      (∀ k t0, (s.cache inverse).get? k = some t0 → c'.get? k = some t0) := by
  have hci : CacheInvSpec ty (s.cache inverse) := by cases inverse; exact hf; exact hi
  have p := buildFft_post ty r _ hci t c' hb
  rw [hr] at p
  refine ⟨p.len_eq, p.ok, ?_, ?_, PlannerState.cache_setCache _ _ _, p.cached, p.mono, p.stable⟩
  · cases inverse
    · exact p.inv
    · exact hf
  · cases inverse
    · exact hi
    · exact p.inv

theorem planScalar_len {len : Nat} {r : Recipe} (h : planScalar len = .ok r) : r.len = len := by
  obtain ⟨r', h1, h2⟩ := planScalar_ok len
  rw [h] at h1; cases h1; exact h2

theorem planSse_len {len : Nat} {r : Recipe} (h : planSse len = .ok r) : r.len = len := by
  obtain ⟨r', h1, h2⟩ := planSse_ok len
  rw [h] at h1; cases h1; exact h2

theorem planFuel_ge (len : Nat) : 2 ≤ planFuel len := by unfold planFuel; omega

theorem planStep_avx_post {ty : ElemTy} {avx2 : Bool} {s s' : PlannerState} {len : Nat} {inverse : Bool}
    {t : Recipe} (hf : CacheInv s.fwd) (hi : CacheInv s.inv)
    (h : planStep (.avx avx2) ty s len inverse = .ok (t, s')) :
    t.len = len ∧ t.Constructible ty ∧ CacheInv s'.fwd ∧ CacheInv s'.inv ∧
      s'.cache (!inverse) = s.cache (!inverse) ∧ (s'.cache inverse).get? len = some t := by
  obtain ⟨c', hb, hok, rfl⟩ := planStep_avx_ok h
  have hci : CacheInv (s.cache inverse) := by cases inverse; exact hf; exact hi
  obtain ⟨h1, h2, h3⟩ := avxPlanAndConstruct_post ty avx2 _ (planFuel_ge len) _ len hci t c' hb
  refine ⟨h1, hok, ?_, ?_, PlannerState.cache_setCache_not _ _ _, by rw [PlannerState.cache_setCache]; exact h3⟩
  · cases inverse
    · exact h2
    · exact hf
  · cases inverse
    · exact hi
    · exact h2

/-- AVX with the full invariant: also the intermediate stages `construct_plan` inserts are constructible -/
theorem planStep_avx_full {ty : ElemTy} {avx2 : Bool} {s s' : PlannerState} {len : Nat} {inverse : Bool}
    {t : Recipe} (hf : CacheInvFull ty s.fwd) (hi : CacheInvFull ty s.inv)
    (h : planStep (.avx avx2) ty s len inverse = .ok (t, s')) :
    t.len = len ∧ t.Constructible ty ∧ CacheInvFull ty s'.fwd ∧ CacheInvFull ty s'.inv := by
  obtain ⟨c', hb, hok, rfl⟩ := planStep_avx_ok h
  have hci : CacheInvFull ty (s.cache inverse) := by cases inverse; exact hf; exact hi
  obtain ⟨h1, _, h3⟩ := avxPlanAndConstruct_full ty avx2 _ _ len t c' hci hb
  refine ⟨h1, hok, ?_, ?_⟩
  · cases inverse
    · exact h3
    · exact hf
  · cases inverse
    · exact hi
    · exact h3

/-- AVX totality of a request: from a state satisfying the full invariant `plan_fft` never fails — neither planning,
nor construction, nor any constructor assert of the returned instance -/
theorem planStep_avx_total (ty : ElemTy) (avx2 : Bool) (s : PlannerState) (hf : CacheInvFull ty s.fwd)
    (hi : CacheInvFull ty s.inv) (len : Nat) (inverse : Bool) :
    ∃ t s', planStep (.avx avx2) ty s len inverse = .ok (t, s') := by
  have hci : CacheInvFull ty (s.cache inverse) := by cases inverse; exact hf; exact hi
  obtain ⟨f, hfuel⟩ : ∃ f, planFuel len = f + 2 := ⟨planFuel len - 2, by have := planFuel_ge len; omega⟩
  obtain ⟨r, c', h1, _, _⟩ := avxConstruct_any ty avx2 f (s.cache inverse) len hci.toLen
  rw [← hfuel] at h1
  obtain ⟨_, ⟨sp, hsp⟩, _⟩ := avxPlanAndConstruct_full ty avx2 _ _ len r c' hci h1
  exact ⟨r, s.setCache inverse c', by simp only [planStep, h1, hsp]⟩

/-- one step of any planner kind keeps the kind's invariant and returns a constructible tree of the requested
length -/
theorem planStep_stateInv (kind : PlannerKind) (ty : ElemTy) (s s' : PlannerState) (len : Nat) (inverse : Bool)
    (t : Recipe) (hs : StateInv kind ty s) (h : planStep kind ty s len inverse = .ok (t, s')) :
    t.len = len ∧ t.Constructible ty ∧ StateInv kind ty s' := by
  cases kind with
  | scalar =>
    obtain ⟨r, c', hr, hb, rfl⟩ := planStep_scalar_ok h
    obtain ⟨h1, h2, h3, h4, _⟩ := planStep_of_build hs.1 hs.2 (planScalar_len hr) hb
    exact ⟨h1, h2, h3, h4⟩
  | sse =>
    obtain ⟨r, c', hr, hb, rfl⟩ := planStep_sse_ok h
    obtain ⟨h1, h2, h3, h4, _⟩ := planStep_of_build hs.1 hs.2 (planSse_len hr) hb
    exact ⟨h1, h2, h3, h4⟩
  | avx avx2 =>
    obtain ⟨h1, h2, h3, h4⟩ := planStep_avx_full hs.1 hs.2 h
    exact ⟨h1, h2, h3, h4⟩

/-- a whole history, from any state satisfying the invariant -/
theorem planHistory_stateInv (kind : PlannerKind) (ty : ElemTy) :
    ∀ (reqs : List (Nat × Bool)) (s : PlannerState) (ts : List Recipe) (s' : PlannerState),
      StateInv kind ty s → planHistory kind ty reqs s = .ok (ts, s') →
      List.Forall₂ (fun (t : Recipe) (rq : Nat × Bool) => t.len = rq.1 ∧ t.Constructible ty) ts reqs ∧
        StateInv kind ty s' := by
  intro reqs
  induction reqs with
  | nil =>
    intro s ts s' hs h
    simp only [planHistory] at h
    cases h
    exact ⟨.nil, hs⟩
  | cons rq rest ih =>
    intro s ts s' hs h
    obtain ⟨len, inv⟩ := rq
    simp only [planHistory] at h
    split at h
    · cases h
    · rename_i inst s1 hstep
      split at h
      · cases h
      · rename_i insts s2 hrest
        cases h
        obtain ⟨h1, h2, h3⟩ := planStep_stateInv kind ty s s1 len inv inst hs hstep
        obtain ⟨h4, h5⟩ := ih s1 insts s' h3 hrest
        exact ⟨.cons ⟨h1, h2⟩ h4, h5⟩

/-! ### direction separation, cache hits, stability -/

/-- a kind is one of the two portable-recipe planners -/
def PlannerKind.usesRecipes : PlannerKind → Bool
  | .avx _ => false
  | _ => true

theorem planStep_other (kind : PlannerKind) (ty : ElemTy) (s s' : PlannerState) (len : Nat) (inverse : Bool)
    (t : Recipe) (h : planStep kind ty s len inverse = .ok (t, s')) :
    s'.cache (!inverse) = s.cache (!inverse) := by
  cases kind with
  | scalar => obtain ⟨r, c', _, _, rfl⟩ := planStep_scalar_ok h; exact PlannerState.cache_setCache_not _ _ _
  | sse => obtain ⟨r, c', _, _, rfl⟩ := planStep_sse_ok h; exact PlannerState.cache_setCache_not _ _ _
  | avx avx2 => obtain ⟨c', _, _, rfl⟩ := planStep_avx_ok h; exact PlannerState.cache_setCache_not _ _ _

/-- a request whose `(len, direction)` is cached returns the cached instance and leaves the state as it is
(AVX: provided the cached instance passes the constructor asserts `planStep` re-checks) -/
theorem planStep_hit (kind : PlannerKind) (ty : ElemTy) (s : PlannerState) (len : Nat) (inverse : Bool) (t : Recipe)
    (hg : (s.cache inverse).get? len = some t) (hok : t.Constructible ty) :
    planStep kind ty s len inverse = .ok (t, s) := by
  cases kind with
  | scalar =>
    obtain ⟨r, hr, hl⟩ := planScalar_ok len
    have hb := buildFft_hit ty (s.cache inverse) r t (by rw [hl]; exact hg)
    simp only [planStep, hr, hb, PlannerState.setCache_cache]
  | sse =>
    obtain ⟨r, hr, hl⟩ := planSse_ok len
    have hb := buildFft_hit ty (s.cache inverse) r t (by rw [hl]; exact hg)
    simp only [planStep, hr, hb, PlannerState.setCache_cache]
  | avx avx2 =>
    obtain ⟨sp, hsp⟩ := hok
    have hf : planFuel len = (4 * len + 63) + 1 := by unfold planFuel; omega
    have hb := avxPlanAndConstruct_hit ty avx2 (4 * len + 63) (s.cache inverse) len t hg
    simp only [planStep, hf, hb, hsp, PlannerState.setCache_cache]

/-- after a successful request the returned instance is the one cached for `(len, direction)` -/
theorem planStep_cached (kind : PlannerKind) (ty : ElemTy) (s s' : PlannerState) (len : Nat) (inverse : Bool)
    (t : Recipe) (hs : StateInv kind ty s) (h : planStep kind ty s len inverse = .ok (t, s')) :
    (s'.cache inverse).get? len = some t := by
  cases kind with
  | scalar =>
    obtain ⟨r, c', hr, hb, rfl⟩ := planStep_scalar_ok h
    obtain ⟨_, _, _, _, h5, h6, _⟩ := planStep_of_build hs.1 hs.2 (planScalar_len hr) hb
    rw [h5]; exact h6
  | sse =>
    obtain ⟨r, c', hr, hb, rfl⟩ := planStep_sse_ok h
    obtain ⟨_, _, _, _, h5, h6, _⟩ := planStep_of_build hs.1 hs.2 (planSse_len hr) hb
    rw [h5]; exact h6
  | avx avx2 => exact (planStep_avx_post hs.1.toLen hs.2.toLen h).2.2.2.2.2

/-- scalar / SSE: a request never replaces an instance that is already cached, in either direction -/
theorem planStep_stable (kind : PlannerKind) (hk : kind.usesRecipes = true) (ty : ElemTy) (s s' : PlannerState)
    (len : Nat) (inverse : Bool) (t : Recipe) (hs : StateInv kind ty s)
    (h : planStep kind ty s len inverse = .ok (t, s')) (b : Bool) (k : Nat) (t0 : Recipe)
    (hg : (s.cache b).get? k = some t0) : (s'.cache b).get? k = some t0 := by
  by_cases hb : b = inverse
  · subst hb
    cases kind with
    | scalar =>
      obtain ⟨r, c', hr, hb, rfl⟩ := planStep_scalar_ok h
      obtain ⟨_, _, _, _, h5, _, _, h8⟩ := planStep_of_build hs.1 hs.2 (planScalar_len hr) hb
      rw [h5]; exact h8 k t0 hg
    | sse =>
      obtain ⟨r, c', hr, hb, rfl⟩ := planStep_sse_ok h
      obtain ⟨_, _, _, _, h5, _, _, h8⟩ := planStep_of_build hs.1 hs.2 (planSse_len hr) hb
      rw [h5]; exact h8 k t0 hg
    | avx avx2 => cases hk
  · have hb' : b = !inverse := by cases b <;> cases inverse <;> simp_all
    rw [hb'] at hg ⊢
    rw [planStep_other kind ty s s' len inverse t h]; exact hg

theorem planHistory_stable (kind : PlannerKind) (hk : kind.usesRecipes = true) (ty : ElemTy) :
    ∀ (reqs : List (Nat × Bool)) (s : PlannerState) (ts : List Recipe) (s' : PlannerState),
      StateInv kind ty s → planHistory kind ty reqs s = .ok (ts, s') →
      ∀ (b : Bool) (k : Nat) (t0 : Recipe), (s.cache b).get? k = some t0 → (s'.cache b).get? k = some t0 := by
  intro reqs
  induction reqs with
  | nil =>
    intro s ts s' _ h b k t0 hg
    simp only [planHistory] at h
    cases h
    exact hg
  | cons rq rest ih =>
    intro s ts s' hs h b k t0 hg
    obtain ⟨len, inv⟩ := rq
    simp only [planHistory] at h
    split at h
    · cases h
    · rename_i inst s1 hstep
      split at h
      · cases h
      · rename_i insts s2 hrest
        cases h
        obtain ⟨_, _, h3⟩ := planStep_stateInv kind ty s s1 len inv inst hs hstep
        exact ih s1 insts s' h3 hrest b k t0 (planStep_stable kind hk ty s s1 len inv inst hs hstep b k t0 hg)

/-- every cache only hands out constructible instances filed under their length -/
theorem StateInv.constructible {kind : PlannerKind} {ty : ElemTy} {s : PlannerState}
    (hs : StateInv kind ty s) (b : Bool) (k : Nat) (t : Recipe) (hg : (s.cache b).get? k = some t) :
    t.len = k ∧ t.Constructible ty := by
  cases kind with
  | scalar => cases b; exact hs.1 k t hg; exact hs.2 k t hg
  | sse => cases b; exact hs.1 k t hg; exact hs.2 k t hg
  | avx avx2 => cases b; exact hs.1.toSpec k t hg; exact hs.2.toSpec k t hg

theorem forall₂_index {α β : Type} {R : α → β → Prop} {l₁ : List α} {l₂ : List β} (h : List.Forall₂ R l₁ l₂) :
    ∃ hlen : l₁.length = l₂.length, ∀ i (hi : i < l₂.length), R (l₁[i]'(hlen ▸ hi)) l₂[i] := by
  induction h with
  | nil => exact ⟨rfl, fun i hi => by simp at hi⟩
  | cons hab _ ih =>
    obtain ⟨hlen, hall⟩ := ih
    refine ⟨by simp [hlen], fun i hi => ?_⟩
    cases i with
    | zero => exact hab
    | succ i => exact hall i (by simpa using hi)

/-- AVX: a whole history never fails -/
theorem planHistory_avx_total_aux (ty : ElemTy) (avx2 : Bool) : ∀ (reqs : List (Nat × Bool)) (s : PlannerState),
    StateInv (.avx avx2) ty s → ∃ ts s', planHistory (.avx avx2) ty reqs s = .ok (ts, s') := by
  intro reqs
  induction reqs with
  | nil => intro s _; exact ⟨[], s, rfl⟩
  | cons rq rest ih =>
    intro s hs
    obtain ⟨len, inv⟩ := rq
    obtain ⟨t, s1, h1⟩ := planStep_avx_total ty avx2 s hs.1 hs.2 len inv
    obtain ⟨_, _, hs1⟩ := planStep_stateInv (.avx avx2) ty s s1 len inv t hs h1
    obtain ⟨ts, s2, h2⟩ := ih s1 hs1
    exact ⟨t :: ts, s2, by simp only [planHistory, h1, h2]⟩

end RFV
