/-
Helper lemmas for C10 (planner cache): `Recipe.spec` ok ⇒ `Recipe.Good`; the instance-cache invariants; what
`build_fft`, `plan_and_construct_fft` and one `plan_fft` step guarantee; request histories; uniqueness of well-formed
factorisations (`PrimeFactors.WF.unique`), "recipes are functions of the length" (`scalar_hered`, `sse_hered`) and
canonicity of the scalar / SSE instance trees (`buildFft_canon`, `planStep_canon`, `planHistory_canon`).

`CacheInv` (length-only, membership form) is the invariant of `Proofs/AvxTotal.lean`; the stronger invariant of the
scalar / SSE caches ("every instance the cache hands out has its key as length and was constructible") is
`CacheInvSpec` here.
-/
import RFV.Model.Cache
import RFV.Props.C01
import RFV.Props.C04Scalar
import RFV.Proofs.AvxTotal
namespace RFV

/-! ### constructor asserts ⇒ well-formedness (C01's `Recipe.Good`) -/

theorem radersAsserts_prime {n : Nat} (h : radersAsserts n = .ok ()) : Nat.Prime n := by
  unfold radersAsserts at h
  by_cases hp : isPrimeNat n = true
  · exact (isPrimeNat_iff n).1 hp
  · simp [hp] at h

theorem pos_of_mul_pos' {a b : Nat} (h : 0 < a * b) : 0 < a ∧ 0 < b := by
  constructor
  · exact Nat.pos_of_ne_zero (fun h0 => by simp [h0] at h)
  · exact Nat.pos_of_ne_zero (fun h0 => by simp [h0] at h)

/-- two-child nodes: the children's specs -/
theorem spec_two_children {ty : ElemTy} {l r : Recipe} {α : Type} {f : Spec → Spec → Except String α} {s : α}
    (h : (match l.spec ty, r.spec ty with
      | .ok w, .ok h => f w h
      | .error e, _ => .error e
      | _, .error e => .error e) = .ok s) :
    ∃ w hh, l.spec ty = .ok w ∧ r.spec ty = .ok hh ∧ f w hh = .ok s := by
  cases hl : l.spec ty with
  | error e => simp [hl] at h
  | ok w =>
    cases hr : r.spec ty with
    | error e => simp [hl, hr] at h
    | ok hh => exact ⟨w, hh, rfl, rfl, by simpa [hl, hr] using h⟩

theorem spec_one_child {ty : ElemTy} {i : Recipe} {α : Type} {f : Spec → Except String α} {s : α}
    (h : (match i.spec ty with
      | .error e => (Except.error e : Except String α)
      | .ok inner => f inner) = .ok s) :
    ∃ inner, i.spec ty = .ok inner ∧ f inner = .ok s := by
  cases hi : i.spec ty with
  | error e => simp [hi] at h
  | ok w => exact ⟨w, rfl, by simpa [hi] using h⟩

/-- the length a constructible tree advertises is the tree's length (no positivity needed) -/
theorem spec_len_eq (ty : ElemTy) (t : Recipe) : ∀ (s : Spec), t.spec ty = .ok s → s.len = t.len := by
  induction t with
  | dft n => intro s h; simp only [Recipe.spec, Except.ok.injEq] at h; subst h; rfl
  | bfly n => intro s h; simp only [Recipe.spec, Except.ok.injEq] at h; subst h; rfl
  | primeBfly n => intro s h; simp only [Recipe.spec, Except.ok.injEq] at h; subst h; rfl
  | avxBfly n => intro s h; simp only [Recipe.spec, Except.ok.injEq] at h; subst h; rfl
  | mixedRadix l r ihl ihr =>
    intro s h
    simp only [Recipe.spec] at h
    obtain ⟨w, hh, hl, hr, h⟩ := spec_two_children h
    simp only [Except.ok.injEq] at h
    subst h
    simp only [Recipe.len, ← ihl w hl, ← ihr hh hr]
  | mixedRadixSmall l r ihl ihr =>
    intro s h
    simp only [Recipe.spec] at h
    obtain ⟨w, hh, hl, hr, h⟩ := spec_two_children h
    split at h
    · simp at h
    · simp only [Except.ok.injEq] at h
      subst h
      simp only [Recipe.len, ← ihl w hl, ← ihr hh hr]
  | goodThomas l r ihl ihr =>
    intro s h
    simp only [Recipe.spec] at h
    obtain ⟨a, b, hl, hr, h⟩ := spec_two_children h
    by_cases hg : Nat.gcd a.len b.len = 1
    · have hlen : s.len = a.len * b.len := by
        by_cases hsw : a.len > b.len
        · simp [hg, hsw] at h; rw [← h]; exact Nat.mul_comm _ _
        · simp [hg, hsw] at h; rw [← h]
      simp only [Recipe.len, hlen, ← ihl a hl, ← ihr b hr]
    · simp [hg] at h
  | goodThomasSmall l r ihl ihr =>
    intro s h
    simp only [Recipe.spec] at h
    obtain ⟨w, hh, hl, hr, h⟩ := spec_two_children h
    split at h
    · simp at h
    · split at h
      · simp at h
      · simp only [Except.ok.injEq] at h
        subst h
        simp only [Recipe.len, ← ihl w hl, ← ihr hh hr]
  | raders i ih =>
    intro s h
    simp only [Recipe.spec] at h
    obtain ⟨inner, hi, h⟩ := spec_one_child h
    split at h
    · simp at h
    · simp only [Except.ok.injEq] at h
      subst h
      simp only [Recipe.len, ← ih inner hi]
  | avxRaders i ih =>
    intro s h
    simp only [Recipe.spec] at h
    obtain ⟨inner, hi, h⟩ := spec_one_child h
    split at h
    · simp at h
    · simp only [Except.ok.injEq] at h
      subst h
      simp only [Recipe.len, ← ih inner hi]
  | bluesteins n i ih =>
    intro s h
    simp only [Recipe.spec] at h
    obtain ⟨inner, hi, h⟩ := spec_one_child h
    split at h
    · simp at h
    · split at h
      · simp at h
      · simp only [Except.ok.injEq] at h
        subst h
        rfl
  | avxBluesteins n i ih =>
    intro s h
    simp only [Recipe.spec] at h
    obtain ⟨inner, hi, h⟩ := spec_one_child h
    split at h
    · simp at h
    · split at h
      · simp at h
      · split at h
        · simp at h
        · simp only [Except.ok.injEq] at h
          subst h
          rfl
  | radixN fs b ih =>
    intro s h
    simp only [Recipe.spec] at h
    obtain ⟨base, hb, h⟩ := spec_one_child h
    simp only [Except.ok.injEq] at h
    subst h
    simp only [Recipe.len, ← ih base hb]
  | radix4 k b ih =>
    intro s h
    simp only [Recipe.spec] at h
    obtain ⟨base, hb, h⟩ := spec_one_child h
    simp only [Except.ok.injEq] at h
    subst h
    simp only [Recipe.len, ← ih base hb]
  | radix3 k b ih =>
    intro s h
    simp only [Recipe.spec] at h
    obtain ⟨base, hb, h⟩ := spec_one_child h
    simp only [Except.ok.injEq] at h
    subst h
    simp only [Recipe.len, ← ih base hb]
  | sseRadix4 k b ih =>
    intro s h
    simp only [Recipe.spec] at h
    obtain ⟨base, hb, h⟩ := spec_one_child h
    split at h
    · simp at h
    · simp only [Except.ok.injEq] at h
      subst h
      simp only [Recipe.len, ← ih base hb]
  | avxMixedRadix radix i ih =>
    intro s h
    simp only [Recipe.spec] at h
    obtain ⟨inner, hi, h⟩ := spec_one_child h
    simp only [Except.ok.injEq] at h
    subst h
    simp only [Recipe.len, ← ih inner hi, Nat.mul_comm]

theorem good_of_spec_aux (ty : ElemTy) (t : Recipe) : ∀ (s : Spec), t.spec ty = .ok s → 0 < s.len →
    t.Good (fun n => 0 < n) ∧ s.len = t.len := by
  induction t with
  | dft n => intro s h hpos; simp only [Recipe.spec, Except.ok.injEq] at h; subst h; exact ⟨.dft n hpos, rfl⟩
  | bfly n => intro s h hpos; simp only [Recipe.spec, Except.ok.injEq] at h; subst h; exact ⟨.bfly n hpos, rfl⟩
  | primeBfly n =>
    intro s h hpos; simp only [Recipe.spec, Except.ok.injEq] at h; subst h; exact ⟨.primeBfly n hpos, rfl⟩
  | avxBfly n =>
    intro s h hpos; simp only [Recipe.spec, Except.ok.injEq] at h; subst h; exact ⟨.avxBfly n hpos, rfl⟩
  | mixedRadix l r ihl ihr =>
    intro s h hpos
    simp only [Recipe.spec] at h
    obtain ⟨w, hh, hl, hr, h⟩ := spec_two_children h
    simp only [Except.ok.injEq] at h
    subst h
    simp only at hpos
    obtain ⟨hw, hh'⟩ := pos_of_mul_pos' hpos
    obtain ⟨gl, el⟩ := ihl w hl hw
    obtain ⟨gr, er⟩ := ihr hh hr hh'
    refine ⟨.mixedRadix l r gl gr (by rw [← el, ← er]; exact hpos), by simp only [Recipe.len, el, er]⟩
  | mixedRadixSmall l r ihl ihr =>
    intro s h hpos
    simp only [Recipe.spec] at h
    obtain ⟨w, hh, hl, hr, h⟩ := spec_two_children h
    split at h
    · simp at h
    · simp only [Except.ok.injEq] at h
      subst h
      simp only at hpos
      obtain ⟨hw, hh'⟩ := pos_of_mul_pos' hpos
      obtain ⟨gl, el⟩ := ihl w hl hw
      obtain ⟨gr, er⟩ := ihr hh hr hh'
      refine ⟨.mixedRadixSmall l r gl gr (by rw [← el, ← er]; exact hpos), by simp only [Recipe.len, el, er]⟩
  | goodThomas l r ihl ihr =>
    intro s h hpos
    simp only [Recipe.spec] at h
    obtain ⟨a, b, hl, hr, h⟩ := spec_two_children h
    by_cases hg : Nat.gcd a.len b.len = 1
    · have hlen : s.len = a.len * b.len := by
        by_cases hsw : a.len > b.len
        · simp [hg, hsw] at h; rw [← h]; exact Nat.mul_comm _ _
        · simp [hg, hsw] at h; rw [← h]
      rw [hlen] at hpos
      obtain ⟨hw, hh'⟩ := pos_of_mul_pos' hpos
      obtain ⟨gl, el⟩ := ihl a hl hw
      obtain ⟨gr, er⟩ := ihr b hr hh'
      refine ⟨.goodThomas l r gl gr (by rw [← el, ← er]; exact hpos) (by rw [← el, ← er]; exact hg),
        by simp only [Recipe.len, hlen, el, er]⟩
    · simp [hg] at h
  | goodThomasSmall l r ihl ihr =>
    intro s h hpos
    simp only [Recipe.spec] at h
    obtain ⟨w, hh, hl, hr, h⟩ := spec_two_children h
    split at h
    · simp at h
    · by_cases hg : Nat.gcd w.len hh.len = 1
      · simp only [hg, ne_eq, not_true_eq_false, if_false, Except.ok.injEq] at h
        subst h
        simp only at hpos
        obtain ⟨hw, hh'⟩ := pos_of_mul_pos' hpos
        obtain ⟨gl, el⟩ := ihl w hl hw
        obtain ⟨gr, er⟩ := ihr hh hr hh'
        refine ⟨.goodThomasSmall l r gl gr (by rw [← el, ← er]; exact hpos) (by rw [← el, ← er]; exact hg),
          by simp only [Recipe.len, el, er]⟩
      · simp [hg] at h
  | raders i ih =>
    intro s h hpos
    simp only [Recipe.spec] at h
    obtain ⟨inner, hi, h⟩ := spec_one_child h
    split at h
    · simp at h
    · rename_i hra
      simp only [Except.ok.injEq] at h
      subst h
      have hp := radersAsserts_prime hra
      have h2 := hp.two_le
      obtain ⟨gi, ei⟩ := ih inner hi (by omega)
      refine ⟨.raders i gi (by rw [← ei]; exact hp) (by omega) (by omega), by simp only [Recipe.len, ei]⟩
  | avxRaders i ih =>
    intro s h hpos
    simp only [Recipe.spec] at h
    obtain ⟨inner, hi, h⟩ := spec_one_child h
    split at h
    · simp at h
    · rename_i hra
      simp only [Except.ok.injEq] at h
      subst h
      have hp := radersAsserts_prime hra
      have h2 := hp.two_le
      obtain ⟨gi, ei⟩ := ih inner hi (by omega)
      refine ⟨.avxRaders i gi (by rw [← ei]; exact hp) (by omega) (by omega), by simp only [Recipe.len, ei]⟩
  | bluesteins n i ih =>
    intro s h hpos
    simp only [Recipe.spec] at h
    obtain ⟨inner, hi, h⟩ := spec_one_child h
    by_cases hn : n = 0
    · simp [hn] at h
    · by_cases hm : n * 2 - 1 ≤ inner.len
      · simp only [hn, hm, if_false, not_true_eq_false, Except.ok.injEq] at h
        subst h
        obtain ⟨gi, ei⟩ := ih inner hi (by omega)
        refine ⟨.bluesteins n i gi (by omega) (by omega) (by omega) (by omega), rfl⟩
      · simp [hn, hm] at h
  | avxBluesteins n i ih =>
    intro s h hpos
    simp only [Recipe.spec] at h
    obtain ⟨inner, hi, h⟩ := spec_one_child h
    by_cases hn : n = 0
    · simp [hn] at h
    · by_cases hm : n * 2 - 1 ≤ inner.len
      · by_cases hv : inner.len % complexPerVectorAvx ty = 0
        · simp only [hn, hm, hv, if_false, not_true_eq_false, ne_eq, Except.ok.injEq] at h
          subst h
          obtain ⟨gi, ei⟩ := ih inner hi (by omega)
          refine ⟨.avxBluesteins n i gi (by omega) (by omega) (by omega) (by omega), rfl⟩
        · simp [hn, hm, hv] at h
      · simp [hn, hm] at h
  | radixN fs b ih =>
    intro s h hpos
    simp only [Recipe.spec] at h
    obtain ⟨base, hb, h⟩ := spec_one_child h
    simp only [Except.ok.injEq] at h
    subst h
    simp only at hpos
    obtain ⟨gb, eb⟩ := ih base hb (pos_of_mul_pos' hpos).1
    refine ⟨.radixN fs b gb (by rw [← eb]; exact hpos), by simp only [Recipe.len, eb]⟩
  | radix4 k b ih =>
    intro s h hpos
    simp only [Recipe.spec] at h
    obtain ⟨base, hb, h⟩ := spec_one_child h
    simp only [Except.ok.injEq] at h
    subst h
    simp only at hpos
    obtain ⟨gb, eb⟩ := ih base hb (pos_of_mul_pos' hpos).1
    refine ⟨.radix4 k b gb (by rw [← eb]; exact hpos), by simp only [Recipe.len, eb]⟩
  | radix3 k b ih =>
    intro s h hpos
    simp only [Recipe.spec] at h
    obtain ⟨base, hb, h⟩ := spec_one_child h
    simp only [Except.ok.injEq] at h
    subst h
    simp only at hpos
    obtain ⟨gb, eb⟩ := ih base hb (pos_of_mul_pos' hpos).1
    refine ⟨.radix3 k b gb (by rw [← eb]; exact hpos), by simp only [Recipe.len, eb]⟩
  | sseRadix4 k b ih =>
    intro s h hpos
    simp only [Recipe.spec] at h
    obtain ⟨base, hb, h⟩ := spec_one_child h
    split at h
    · simp at h
    · simp only [Except.ok.injEq] at h
      subst h
      simp only at hpos
      obtain ⟨gb, eb⟩ := ih base hb (pos_of_mul_pos' hpos).1
      refine ⟨.sseRadix4 k b gb (by rw [← eb]; exact hpos), by simp only [Recipe.len, eb]⟩
  | avxMixedRadix radix i ih =>
    intro s h hpos
    simp only [Recipe.spec] at h
    obtain ⟨inner, hi, h⟩ := spec_one_child h
    simp only [Except.ok.injEq] at h
    subst h
    simp only at hpos
    obtain ⟨gi, ei⟩ := ih inner hi (pos_of_mul_pos' hpos).1
    refine ⟨.avxMixedRadix radix i gi (by rw [← ei, Nat.mul_comm]; exact hpos),
      by simp only [Recipe.len, ei, Nat.mul_comm]⟩

/-! ### the instance cache -/

theorem InstCache.find?_filter_ne (c : InstCache) (m k : Nat) (hk : k ≠ m) :
    (c.filter (fun e => e.1 ≠ m)).find? (fun e => e.1 = k) = c.find? (fun e => e.1 = k) := by
  rw [List.find?_filter]
  congr 1
  funext e
  by_cases h1 : e.1 = k
  · simp [h1]; exact hk
  · simp [h1]

theorem InstCache.get?_insert (c : InstCache) (r : Recipe) (k : Nat) :
    (c.insert r).get? k = if k = r.len then some r else c.get? k := by
  unfold InstCache.get? InstCache.insert
  by_cases hk : k = r.len
  · simp [hk]
  · have hk' : ¬ r.len = k := fun h => hk h.symm
    simp only [List.find?_cons, hk', decide_false, hk, if_false]
    rw [InstCache.find?_filter_ne c r.len k hk]

theorem InstCache.get?_insert_self (c : InstCache) (r : Recipe) : (c.insert r).get? r.len = some r := by
  rw [InstCache.get?_insert]; simp

theorem InstCache.contains_insert (c : InstCache) (r : Recipe) (k : Nat) (h : c.contains k = true) :
    (c.insert r).contains k = true := by
  unfold InstCache.contains at h ⊢
  rw [InstCache.get?_insert]
  split
  · rfl
  · exact h

/-- a tree none of whose constructor asserts fires -/
def Recipe.Constructible (ty : ElemTy) (t : Recipe) : Prop := ∃ s, t.spec ty = .ok s

/-- every instance the cache can hand out is filed under its own length and was constructible -/
def CacheInvSpec (ty : ElemTy) (c : InstCache) : Prop :=
  ∀ k t, c.get? k = some t → t.len = k ∧ t.Constructible ty

theorem cacheInvSpec_nil (ty : ElemTy) : CacheInvSpec ty [] := by
  intro k t h; simp [InstCache.get?] at h

theorem cacheInvSpec_insert {ty : ElemTy} {c : InstCache} (hc : CacheInvSpec ty c) (t : Recipe)
    (ht : t.Constructible ty) : CacheInvSpec ty (c.insert t) := by
  intro k t' h
  rw [InstCache.get?_insert] at h
  split at h
  · rename_i hk
    cases h
    exact ⟨hk.symm, ht⟩
  · exact hc k t' h

/-- what a successful `build_fft` call for a recipe of length `len` guarantees -/
structure BuildPost (ty : ElemTy) (c : InstCache) (len : Nat) (t : Recipe) (c' : InstCache) : Prop where
  len_eq : t.len = len
  ok : t.Constructible ty
  inv : CacheInvSpec ty c'
  mono : ∀ k, c.contains k = true → c'.contains k = true
  cached : c'.get? len = some t
  stable : ∀ k t0, c.get? k = some t0 → c'.get? k = some t0

theorem construct_ok {ty : ElemTy} {node t : Recipe} (h : construct ty node = .ok t) :
    t = node ∧ t.Constructible ty := by
  unfold construct at h
  split at h
  · rename_i s hs
    cases h
    exact ⟨rfl, s, hs⟩
  · cases h

theorem finish1_ok {ty : ElemTy} {res : Except String (Recipe × InstCache)} {mk : Recipe → Recipe}
    {t : Recipe} {c' : InstCache} (h : finish1 ty res mk = .ok (t, c')) :
    ∃ ii c1, res = .ok (ii, c1) ∧ t = mk ii ∧ t.Constructible ty ∧ c' = c1.insert t := by
  unfold finish1 at h
  split at h
  · cases h
  · rename_i ii c1
    split at h
    · rename_i t' ht'
      cases h
      obtain ⟨e, ok⟩ := construct_ok ht'
      exact ⟨ii, c1, rfl, e, ok, rfl⟩
    · cases h

theorem finish2_ok {ty : ElemTy} {bl : Except String (Recipe × InstCache)}
    {br : InstCache → Except String (Recipe × InstCache)} {mk : Recipe → Recipe → Recipe}
    {t : Recipe} {c' : InstCache} (h : finish2 ty bl br mk = .ok (t, c')) :
    ∃ li c1 ri c2, bl = .ok (li, c1) ∧ br c1 = .ok (ri, c2) ∧ t = mk li ri ∧ t.Constructible ty ∧
      c' = c2.insert t := by
  unfold finish2 at h
  split at h
  · cases h
  · rename_i li c1
    obtain ⟨ri, c2, h1, h2, h3, h4⟩ := finish1_ok h
    exact ⟨li, c1, ri, c2, rfl, h1, h2, h3, h4⟩

theorem buildPost_insert {ty : ElemTy} {c c1 : InstCache} {t : Recipe} {len : Nat} (hmiss : c.get? len = none)
    (hl : t.len = len) (hc1 : CacheInvSpec ty c1) (ht : t.Constructible ty)
    (hm : ∀ k, c.contains k = true → c1.contains k = true)
    (hst : ∀ k t0, c.get? k = some t0 → c1.get? k = some t0) : BuildPost ty c len t (c1.insert t) :=
  ⟨hl, ht, cacheInvSpec_insert hc1 t ht, fun k hk => InstCache.contains_insert c1 t k (hm k hk),
    by rw [← hl]; exact InstCache.get?_insert_self c1 t,
    fun k t0 hk => by
      have hne : k ≠ t.len := by
        intro e; rw [e, hl, hmiss] at hk; cases hk
      rw [InstCache.get?_insert, if_neg hne]; exact hst k t0 hk⟩

theorem orBuild_post {ty : ElemTy} {c : InstCache} {len : Nat}
    {build : Unit → Except String (Recipe × InstCache)} {t : Recipe} {c' : InstCache}
    (hc : CacheInvSpec ty c)
    (hb : c.get? len = none → ∀ t c', build () = .ok (t, c') → BuildPost ty c len t c')
    (h : orBuild c len build = .ok (t, c')) : BuildPost ty c len t c' := by
  unfold orBuild at h
  split at h
  · rename_i inst hg
    cases h
    exact ⟨(hc len t hg).1, (hc len t hg).2, hc, fun _ hk => hk, hg, fun _ _ hk => hk⟩
  · rename_i hg
    exact hb hg t c' h

theorem buildFft_post (ty : ElemTy) (r : Recipe) : ∀ (c : InstCache), CacheInvSpec ty c →
    ∀ t c', buildFft ty c r = .ok (t, c') → BuildPost ty c r.len t c' := by
  induction r with
  | dft n =>
    intro c hc t c' h
    refine orBuild_post hc (fun hmiss t c' hb => ?_) h
    obtain ⟨ii, c1, h1, h2, h3, h4⟩ := finish1_ok hb
    cases h1; subst h4
    exact buildPost_insert hmiss (by rw [h2]; rfl) hc h3 (fun _ hk => hk) (fun _ _ hk => hk)
  | bfly n =>
    intro c hc t c' h
    refine orBuild_post hc (fun hmiss t c' hb => ?_) h
    obtain ⟨ii, c1, h1, h2, h3, h4⟩ := finish1_ok hb
    cases h1; subst h4
    exact buildPost_insert hmiss (by rw [h2]; rfl) hc h3 (fun _ hk => hk) (fun _ _ hk => hk)
  | primeBfly n =>
    intro c hc t c' h
    refine orBuild_post hc (fun hmiss t c' hb => ?_) h
    obtain ⟨ii, c1, h1, h2, h3, h4⟩ := finish1_ok hb
    cases h1; subst h4
    exact buildPost_insert hmiss (by rw [h2]; rfl) hc h3 (fun _ hk => hk) (fun _ _ hk => hk)
  | avxBfly n =>
    intro c hc t c' h
    refine orBuild_post hc (fun hmiss t c' hb => ?_) h
    obtain ⟨ii, c1, h1, h2, h3, h4⟩ := finish1_ok hb
    cases h1; subst h4
    exact buildPost_insert hmiss (by rw [h2]; rfl) hc h3 (fun _ hk => hk) (fun _ _ hk => hk)
  | mixedRadix l r ihl ihr =>
    intro c hc t c' h
    refine orBuild_post hc (fun hmiss t c' hb => ?_) h
    obtain ⟨li, c1, ri, c2, h1, h2, h3, h4, h5⟩ := finish2_ok hb
    have p1 := ihl c hc li c1 h1
    have p2 := ihr c1 p1.inv ri c2 h2
    subst h5
    exact buildPost_insert hmiss (by rw [h3]; simp only [Recipe.len, p1.len_eq, p2.len_eq]) p2.inv h4
      (fun k hk => p2.mono k (p1.mono k hk)) (fun k t0 hk => p2.stable k t0 (p1.stable k t0 hk))
  | mixedRadixSmall l r ihl ihr =>
    intro c hc t c' h
    refine orBuild_post hc (fun hmiss t c' hb => ?_) h
    obtain ⟨li, c1, ri, c2, h1, h2, h3, h4, h5⟩ := finish2_ok hb
    have p1 := ihl c hc li c1 h1
    have p2 := ihr c1 p1.inv ri c2 h2
    subst h5
    exact buildPost_insert hmiss (by rw [h3]; simp only [Recipe.len, p1.len_eq, p2.len_eq]) p2.inv h4
      (fun k hk => p2.mono k (p1.mono k hk)) (fun k t0 hk => p2.stable k t0 (p1.stable k t0 hk))
  | goodThomas l r ihl ihr =>
    intro c hc t c' h
    refine orBuild_post hc (fun hmiss t c' hb => ?_) h
    obtain ⟨li, c1, ri, c2, h1, h2, h3, h4, h5⟩ := finish2_ok hb
    have p1 := ihl c hc li c1 h1
    have p2 := ihr c1 p1.inv ri c2 h2
    subst h5
    exact buildPost_insert hmiss (by rw [h3]; simp only [Recipe.len, p1.len_eq, p2.len_eq]) p2.inv h4
      (fun k hk => p2.mono k (p1.mono k hk)) (fun k t0 hk => p2.stable k t0 (p1.stable k t0 hk))
  | goodThomasSmall l r ihl ihr =>
    intro c hc t c' h
    refine orBuild_post hc (fun hmiss t c' hb => ?_) h
    obtain ⟨li, c1, ri, c2, h1, h2, h3, h4, h5⟩ := finish2_ok hb
    have p1 := ihl c hc li c1 h1
    have p2 := ihr c1 p1.inv ri c2 h2
    subst h5
    exact buildPost_insert hmiss (by rw [h3]; simp only [Recipe.len, p1.len_eq, p2.len_eq]) p2.inv h4
      (fun k hk => p2.mono k (p1.mono k hk)) (fun k t0 hk => p2.stable k t0 (p1.stable k t0 hk))
  | raders i ih =>
    intro c hc t c' h
    refine orBuild_post hc (fun hmiss t c' hb => ?_) h
    obtain ⟨ii, c1, h1, h2, h3, h4⟩ := finish1_ok hb
    have p1 := ih c hc ii c1 h1
    subst h4
    exact buildPost_insert hmiss (by rw [h2]; simp only [Recipe.len, p1.len_eq]) p1.inv h3 p1.mono p1.stable
  | bluesteins n i ih =>
    intro c hc t c' h
    refine orBuild_post hc (fun hmiss t c' hb => ?_) h
    obtain ⟨ii, c1, h1, h2, h3, h4⟩ := finish1_ok hb
    have p1 := ih c hc ii c1 h1
    subst h4
    exact buildPost_insert hmiss (by rw [h2]; simp only [Recipe.len]) p1.inv h3 p1.mono p1.stable
  | radixN fs b ih =>
    intro c hc t c' h
    refine orBuild_post hc (fun hmiss t c' hb => ?_) h
    obtain ⟨ii, c1, h1, h2, h3, h4⟩ := finish1_ok hb
    have p1 := ih c hc ii c1 h1
    subst h4
    exact buildPost_insert hmiss (by rw [h2]; simp only [Recipe.len, p1.len_eq]) p1.inv h3 p1.mono p1.stable
  | radix4 k b ih =>
    intro c hc t c' h
    refine orBuild_post hc (fun hmiss t c' hb => ?_) h
    obtain ⟨ii, c1, h1, h2, h3, h4⟩ := finish1_ok hb
    have p1 := ih c hc ii c1 h1
    subst h4
    exact buildPost_insert hmiss (by rw [h2]; simp only [Recipe.len, p1.len_eq]) p1.inv h3 p1.mono p1.stable
  | radix3 k b ih =>
    intro c hc t c' h
    refine orBuild_post hc (fun hmiss t c' hb => ?_) h
    obtain ⟨ii, c1, h1, h2, h3, h4⟩ := finish1_ok hb
    have p1 := ih c hc ii c1 h1
    subst h4
    exact buildPost_insert hmiss (by rw [h2]; simp only [Recipe.len, p1.len_eq]) p1.inv h3 p1.mono p1.stable
  | sseRadix4 k b ih =>
    intro c hc t c' h
    refine orBuild_post hc (fun hmiss t c' hb => ?_) h
    obtain ⟨ii, c1, h1, h2, h3, h4⟩ := finish1_ok hb
    have p1 := ih c hc ii c1 h1
    subst h4
    exact buildPost_insert hmiss (by rw [h2]; simp only [Recipe.len, p1.len_eq]) p1.inv h3 p1.mono p1.stable
  | avxMixedRadix rad i ih =>
    intro c hc t c' h
    refine orBuild_post hc (fun hmiss t c' hb => ?_) h
    obtain ⟨ii, c1, h1, h2, h3, h4⟩ := finish1_ok hb
    have p1 := ih c hc ii c1 h1
    subst h4
    exact buildPost_insert hmiss (by rw [h2]; simp only [Recipe.len, p1.len_eq]) p1.inv h3 p1.mono p1.stable
  | avxRaders i ih =>
    intro c hc t c' h
    refine orBuild_post hc (fun hmiss t c' hb => ?_) h
    obtain ⟨ii, c1, h1, h2, h3, h4⟩ := finish1_ok hb
    have p1 := ih c hc ii c1 h1
    subst h4
    exact buildPost_insert hmiss (by rw [h2]; simp only [Recipe.len, p1.len_eq]) p1.inv h3 p1.mono p1.stable
  | avxBluesteins n i ih =>
    intro c hc t c' h
    refine orBuild_post hc (fun hmiss t c' hb => ?_) h
    obtain ⟨ii, c1, h1, h2, h3, h4⟩ := finish1_ok hb
    have p1 := ih c hc ii c1 h1
    subst h4
    exact buildPost_insert hmiss (by rw [h2]; simp only [Recipe.len]) p1.inv h3 p1.mono p1.stable

/-- hitting the cache: `build_fft` of a recipe whose length is cached returns the cached instance, cache untouched -/
theorem buildFft_hit (ty : ElemTy) (c : InstCache) (r t : Recipe) (h : c.get? r.len = some t) :
    buildFft ty c r = .ok (t, c) := by
  cases r <;> simp only [Recipe.len] at h <;> simp only [buildFft, orBuild, h]

/-! ### planner state -/

theorem PlannerState.cache_setCache (s : PlannerState) (b : Bool) (c : InstCache) :
    (s.setCache b c).cache b = c := by
  cases b <;> rfl

theorem PlannerState.cache_setCache_not (s : PlannerState) (b : Bool) (c : InstCache) :
    (s.setCache b c).cache (!b) = s.cache (!b) := by
  cases b <;> rfl

theorem PlannerState.setCache_cache (s : PlannerState) (b : Bool) : s.setCache b (s.cache b) = s := by
  cases b <;> rfl

theorem PlannerState.setCache_setCache (s : PlannerState) (b : Bool) (c c' : InstCache) :
    (s.setCache b c).setCache b c' = s.setCache b c' := by
  cases b <;> rfl

theorem PlannerState.fwd_eq (s : PlannerState) : s.fwd = s.cache false := rfl
theorem PlannerState.inv_eq (s : PlannerState) : s.inv = s.cache true := rfl

/-- a property of both maps is a property of `cache b` and `cache !b` -/
theorem PlannerState.both_iff (s : PlannerState) (P : InstCache → Prop) (b : Bool) :
    (P s.fwd ∧ P s.inv) ↔ (P (s.cache b) ∧ P (s.cache (!b))) := by
  cases b
  · exact Iff.rfl
  · exact And.comm

/-! ### one planner step, unfolded -/

theorem planStep_scalar_ok {ty : ElemTy} {s s' : PlannerState} {len : Nat} {inverse : Bool} {t : Recipe}
    (h : planStep .scalar ty s len inverse = .ok (t, s')) :
    ∃ r c', planScalar len = .ok r ∧ buildFft ty (s.cache inverse) r = .ok (t, c') ∧
      s' = s.setCache inverse c' := by
  simp only [planStep] at h
  split at h
  · cases h
  · rename_i r hr
    split at h
    · cases h
    · rename_i inst c' hb
      cases h
      exact ⟨r, c', hr, hb, rfl⟩

theorem planStep_sse_ok {ty : ElemTy} {s s' : PlannerState} {len : Nat} {inverse : Bool} {t : Recipe}
    (h : planStep .sse ty s len inverse = .ok (t, s')) :
    ∃ r c', planSse len = .ok r ∧ buildFft ty (s.cache inverse) r = .ok (t, c') ∧
      s' = s.setCache inverse c' := by
  simp only [planStep] at h
  split at h
  · cases h
  · rename_i r hr
    split at h
    · cases h
    · rename_i inst c' hb
      cases h
      exact ⟨r, c', hr, hb, rfl⟩

theorem planStep_avx_ok {ty : ElemTy} {avx2 : Bool} {s s' : PlannerState} {len : Nat} {inverse : Bool}
    {t : Recipe} (h : planStep (.avx avx2) ty s len inverse = .ok (t, s')) :
    ∃ c', avxPlanAndConstruct ty avx2 (planFuel len) (s.cache inverse) len = .ok (t, c') ∧
      t.Constructible ty ∧ s' = s.setCache inverse c' := by
  simp only [planStep] at h
  split at h
  · cases h
  · rename_i inst c' hb
    split at h
    · cases h
    · rename_i sp hsp
      cases h
      exact ⟨c', hb, ⟨sp, hsp⟩, rfl⟩

/-! ### AVX: the returned instance is the one now cached under its length -/

theorem avxWrapChain_cached : ∀ (rs : List Nat) (fft : Recipe) (c : InstCache) (t : Recipe) (c' : InstCache),
    c.get? fft.len = some fft → avxWrapChain rs fft c = .ok (t, c') → c'.get? t.len = some t := by
  intro rs
  induction rs with
  | nil => intro fft c t c' hg h; simp only [avxWrapChain] at h; cases h; exact hg
  | cons x rs ih =>
    intro fft c t c' hg h
    rw [avxWrapChain] at h
    split at h
    · exact ih _ _ t c' (InstCache.get?_insert_self _ _) h
    · cases h

theorem avxWrapChain_mono : ∀ (rs : List Nat) (fft : Recipe) (c : InstCache) (t : Recipe) (c' : InstCache),
    avxWrapChain rs fft c = .ok (t, c') → ∀ k, c.contains k = true → c'.contains k = true := by
  intro rs
  induction rs with
  | nil => intro fft c t c' h; simp only [avxWrapChain] at h; cases h; exact fun _ hk => hk
  | cons x rs ih =>
    intro fft c t c' h k hk
    rw [avxWrapChain] at h
    split at h
    · exact ih _ _ t c' h k (InstCache.contains_insert _ _ _ hk)
    · cases h

theorem avxPlanAndConstruct_cached (ty : ElemTy) (avx2 : Bool) (fuel : Nat) (c : InstCache) (len : Nat)
    (hc : CacheInv c) (t : Recipe) (c' : InstCache)
    (h : avxPlanAndConstruct ty avx2 fuel c len = .ok (t, c')) : c'.get? t.len = some t := by
  cases fuel with
  | zero => simp [avxPlanAndConstruct] at h
  | succ fuel =>
    rw [avxPlanAndConstruct] at h
    split at h
    · cases h
    · rename_i plan hplan
      simp only at h
      split at h
      · cases h
      · rename_i fft c1 hbase
        refine avxWrapChain_cached _ _ _ _ _ ?_ h
        split at hbase
        · rename_i n hb
          split at hbase
          · rename_i r hr
            cases hbase
            rw [hc.get hr]; exact hr
          · cases hbase
        · split at hbase
          · cases hbase; exact InstCache.get?_insert_self _ _
          · cases hbase
        · split at hbase
          · cases hbase
          · cases hbase; exact InstCache.get?_insert_self _ _
        · split at hbase
          · cases hbase
          · cases hbase; exact InstCache.get?_insert_self _ _

/-- what a successful `plan_and_construct_fft` guarantees (`CacheInv` is the length-only invariant of
`Proofs/AvxTotal.lean`) -/
theorem avxPlanAndConstruct_post (ty : ElemTy) (avx2 : Bool) (fuel : Nat) (hf : 2 ≤ fuel) (c : InstCache)
    (len : Nat) (hc : CacheInv c) (t : Recipe) (c' : InstCache)
    (h : avxPlanAndConstruct ty avx2 fuel c len = .ok (t, c')) :
    t.len = len ∧ CacheInv c' ∧ c'.get? len = some t := by
  obtain ⟨f, rfl⟩ : ∃ f, fuel = f + 2 := ⟨fuel - 2, by omega⟩
  obtain ⟨r, c'', h1, h2, h3⟩ := avxConstruct_any ty avx2 f c len hc
  rw [h] at h1
  cases h1
  refine ⟨h2, h3, ?_⟩
  have := avxPlanAndConstruct_cached ty avx2 _ c len hc t c' h
  rwa [h2] at this

/-- the second request for a cached length: the plan is `cached(len)`, the instance the cached one -/
theorem avxPlanAndConstruct_hit (ty : ElemTy) (avx2 : Bool) (fuel : Nat) (c : InstCache) (len : Nat) (t : Recipe)
    (h : c.get? len = some t) : avxPlanAndConstruct ty avx2 (fuel + 1) c len = .ok (t, c) := by
  have hc : c.contains len = true := by simp [InstCache.contains, h]
  rw [avxPlanAndConstruct]
  simp only [avxPlanFft, hc, if_true, AvxPlan.cached, h, avxWrapChain]

/-! ### AVX: a Rader base is only planned for a prime -/

theorem avxBaseOther_raders (ty : ElemTy) (avx2 : Bool) (len other : Nat) (p : AvxPlan) (n : Nat)
    (hp : avxBaseOther ty avx2 len other = .ok p) (hb : p.base = .raders n) : isPrimeNat n = true := by
  unfold avxBaseOther at hp
  split at hp
  · injection hp with hp; subst hp
    simp [AvxPlan.butterfly, AvxPlan.mk'] at hb
  · simp only at hp
    split at hp
    · rename_i h
      injection hp with hp; subst hp
      simp only [AvxPlan.mk', AvxBase.raders.injEq] at hb
      subst hb; exact h.1
    · split at hp
      · injection hp with hp; subst hp; simp [AvxPlan.mk'] at hb
      · simp at hp

theorem avxPlanBase_raders (ty : ElemTy) (avx2 : Bool) (len : Nat) (f : PartialFactors) (p : AvxPlan) (n : Nat)
    (hp : avxPlanBase ty avx2 len f = .ok p) (hb : p.base = .raders n) : isPrimeNat n = true := by
  unfold avxPlanBase at hp
  split at hp
  · exact avxBaseOther_raders _ _ _ _ _ _ hp hb
  · split at hp
    · injection hp with hp; subst hp
      simp [AvxPlan.butterfly, AvxPlan.mk'] at hb
    · simp only at hp
      split at hp
      · injection hp with hp; subst hp
        simp [AvxPlan.butterfly, AvxPlan.mk'] at hb
      · split at hp
        · rename_i q hq
          injection hp with hp; subst hp
          obtain ⟨b', hb', _⟩ := avxHardcoded_bfly _ _ _ hq
          rw [hb'] at hb; cases hb
        · split at hp
          · injection hp with hp; subst hp
            simp [AvxPlan.butterfly, AvxPlan.mk'] at hb
          · simp at hp

theorem avxPlanFft_raders_prime (ty : ElemTy) (avx2 : Bool) (cached : Nat → Bool) (len : Nat) (p : AvxPlan) (n : Nat)
    (hp : avxPlanFft ty avx2 cached len = .ok p) (hb : p.base = .raders n) : isPrimeNat n = true := by
  unfold avxPlanFft at hp
  split at hp
  · injection hp with hp; subst hp; simp [AvxPlan.cached] at hb
  · split at hp
    · injection hp with hp; subst hp
      simp [AvxPlan.butterfly, AvxPlan.mk'] at hb
    · simp only at hp
      cases hbase : avxPlanBase ty avx2 len (PartialFactors.compute len) with
      | error e => simp [hbase] at hp
      | ok base =>
        simp only [hbase] at hp
        split at hp
        · simp at hp
        · rename_i q hq
          injection hp with hp; subst hp
          have hqb : q.base = base.base := by
            split at hq
            · injection hq with hq; subst hq; rfl
            · split at hq
              · simp at hq
              · exact avxPlanMixedRadix_base _ _ _ hq
          rcases avxReplan_base cached q with h1 | ⟨n, h1⟩
          · rw [h1, hqb] at hb
            exact avxPlanBase_raders _ _ _ _ _ _ hbase hb
          · rw [h1] at hb; simp at hb

/-! ### AVX: the full invariant (every entry filed under its length *and* constructible) -/

def CacheInvFull (ty : ElemTy) (c : InstCache) : Prop := ∀ e ∈ c, e.2.len = e.1 ∧ e.2.Constructible ty

theorem CacheInvFull.nil (ty : ElemTy) : CacheInvFull ty [] := by intro e he; simp at he

theorem CacheInvFull.toLen {ty : ElemTy} {c : InstCache} (h : CacheInvFull ty c) : CacheInv c :=
  fun e he => (h e he).1

theorem InstCache.mem_of_get? {c : InstCache} {n : Nat} {r : Recipe} (hg : c.get? n = some r) :
    ∃ k, (k, r) ∈ c := by
  unfold InstCache.get? at hg
  cases hf : c.find? (fun e => e.1 = n) with
  | none => rw [hf] at hg; simp at hg
  | some e =>
    rw [hf] at hg
    simp only [Option.map_some, Option.some.injEq] at hg
    exact ⟨e.1, by rw [← hg]; exact List.mem_of_find?_eq_some hf⟩

theorem CacheInvFull.toSpec {ty : ElemTy} {c : InstCache} (h : CacheInvFull ty c) : CacheInvSpec ty c := by
  intro k t hg
  obtain ⟨k', hm⟩ := InstCache.mem_of_get? hg
  exact ⟨h.toLen.get hg, (h _ hm).2⟩

theorem CacheInvFull.insert {ty : ElemTy} {c : InstCache} (h : CacheInvFull ty c) (r : Recipe)
    (hr : r.Constructible ty) : CacheInvFull ty (c.insert r) := by
  intro e he
  simp only [InstCache.insert, List.mem_cons, List.mem_filter] at he
  rcases he with rfl | ⟨he, _⟩
  · exact ⟨rfl, hr⟩
  · exact h e he

theorem avxMixedRadix_constructible {ty : ElemTy} {fft : Recipe} (h : fft.Constructible ty) (r : Nat) :
    (Recipe.avxMixedRadix r fft).Constructible ty := by
  obtain ⟨s, hs⟩ := h
  exact ⟨_, by simp only [Recipe.spec, hs]; rfl⟩

theorem avxWrapChain_full {ty : ElemTy} : ∀ (rs : List Nat) (fft : Recipe) (c : InstCache) (t : Recipe)
    (c' : InstCache), CacheInvFull ty c → fft.Constructible ty → avxWrapChain rs fft c = .ok (t, c') →
    t.len = fft.len * rs.prod ∧ t.Constructible ty ∧ CacheInvFull ty c' := by
  intro rs
  induction rs with
  | nil =>
    intro fft c t c' hc hf h
    simp only [avxWrapChain] at h
    cases h
    exact ⟨by simp, hf, hc⟩
  | cons x rs ih =>
    intro fft c t c' hc hf h
    rw [avxWrapChain] at h
    split at h
    · have hf' := avxMixedRadix_constructible hf x
      obtain ⟨h1, h2, h3⟩ := ih _ _ t c' (hc.insert _ hf') hf' h
      refine ⟨?_, h2, h3⟩
      rw [h1]; simp only [Recipe.len, List.prod_cons]; ring
    · cases h

theorem avxConstructButterfly_constructible {ty : ElemTy} {n : Nat} {r : Recipe}
    (h : avxConstructButterfly ty n = .ok r) : r.Constructible ty := by
  unfold avxConstructButterfly at h
  split at h
  · cases h; exact ⟨_, by simp only [Recipe.spec]; rfl⟩
  · split at h
    · cases h; exact ⟨_, by simp only [Recipe.spec]; rfl⟩
    · split at h
      · cases h; exact ⟨_, by simp only [Recipe.spec]; rfl⟩
      · cases h

theorem radersAsserts_of_prime {n : Nat} (hp : isPrimeNat n = true) : radersAsserts n = .ok () := by
  have hP := (isPrimeNat_iff n).1 hp
  have hr := primitiveRoot_isSome n hP
  unfold radersAsserts
  rw [if_neg (by simp [hp])]
  cases hg : primitiveRoot n with
  | none => rw [hg] at hr; cases hr
  | some g => rfl

theorem raders_constructible {ty : ElemTy} {inner : Recipe} (hi : inner.Constructible ty)
    (hp : isPrimeNat (inner.len + 1) = true) (avx2 : Bool) :
    (if avx2 then Recipe.avxRaders inner else Recipe.raders inner).Constructible ty := by
  obtain ⟨s, hs⟩ := hi
  have hl := spec_len_eq ty inner s hs
  have ha := radersAsserts_of_prime hp
  rw [← hl] at ha
  cases avx2
  · exact ⟨_, by simp only [Bool.false_eq_true, if_false, Recipe.spec, hs, ha]; rfl⟩
  · exact ⟨_, by simp only [if_true, Recipe.spec, hs, ha]; rfl⟩

theorem avxBluesteins_constructible {ty : ElemTy} {inner : Recipe} {n : Nat} (hi : inner.Constructible ty)
    (hn : 1 < n) (hm : 2 * n - 1 ≤ inner.len) (h4 : inner.len % 4 = 0) :
    (Recipe.avxBluesteins n inner).Constructible ty := by
  obtain ⟨s, hs⟩ := hi
  have hl := spec_len_eq ty inner s hs
  have h0 : ¬ n = 0 := by omega
  have h1 : n * 2 - 1 ≤ s.len := by omega
  have h2 : s.len % complexPerVectorAvx ty = 0 := by
    cases ty <;> simp only [complexPerVectorAvx] <;> omega
  exact ⟨_, by simp only [Recipe.spec, hs, h0, h1, h2, if_false, not_true_eq_false, ne_eq]; rfl⟩

/-- `plan_and_construct_fft` from a cache satisfying the full invariant: whatever the fuel, a successful run returns a
constructible instance of the requested length and a cache satisfying the full invariant again — also for the
intermediate stages `construct_plan` inserts -/
theorem avxPlanAndConstruct_full (ty : ElemTy) (avx2 : Bool) : ∀ (fuel : Nat) (c : InstCache) (len : Nat)
    (t : Recipe) (c' : InstCache), CacheInvFull ty c → avxPlanAndConstruct ty avx2 fuel c len = .ok (t, c') →
    t.len = len ∧ t.Constructible ty ∧ CacheInvFull ty c' := by
  intro fuel
  induction fuel with
  | zero => intro c len t c' _ h; simp [avxPlanAndConstruct] at h
  | succ fuel ih =>
    intro c len t c' hc h
    obtain ⟨p, hp, hwf, hlen, hk, _⟩ := avxPlanFft_spec ty avx2 c.contains len
    rw [avxPlanAndConstruct, hp] at h
    simp only at h
    have wrap : ∀ (fft : Recipe) (c1 : InstCache), fft.len = p.base.baseLen → fft.Constructible ty →
        CacheInvFull ty c1 → avxWrapChain p.radixes fft c1 = .ok (t, c') →
        t.len = len ∧ t.Constructible ty ∧ CacheInvFull ty c' := by
      intro fft c1 hl hf hc1 hw
      obtain ⟨h1, h2, h3⟩ := avxWrapChain_full p.radixes fft c1 t c' hc1 hf hw
      exact ⟨by rw [h1, hl, ← hwf.1, hlen], h2, h3⟩
    rcases hk with ⟨n, hb, hcn⟩ | ⟨b, hb⟩ | ⟨n, hb, hn1, _⟩ | ⟨n, m, hb, hn1, hm⟩
    · obtain ⟨r, hr⟩ := InstCache.get_of_contains hcn
      rw [hb] at wrap h
      simp only [hr] at h
      obtain ⟨k, hmem⟩ := InstCache.mem_of_get? hr
      exact wrap r c (hc.toLen.get hr) (hc _ hmem).2 hc h
    · obtain ⟨r, hr, hrl⟩ := avxPlanFft_base_constructible ty avx2 c.contains len p b hp hb
      rw [hb] at wrap h
      simp only [hr] at h
      have hrc := avxConstructButterfly_constructible hr
      exact wrap r _ hrl hrc (hc.insert r hrc) h
    · have hprime := avxPlanFft_raders_prime ty avx2 c.contains len p n hp hb
      rw [hb] at wrap h
      simp only at h
      cases hrec : avxPlanAndConstruct ty avx2 fuel c (n - 1) with
      | error e => simp [hrec] at h
      | ok res =>
        obtain ⟨inner, c1⟩ := res
        simp only [hrec] at h
        obtain ⟨hil, hic, hc1⟩ := ih c (n - 1) inner c1 hc hrec
        have hn : inner.len + 1 = n := by omega
        have hrc := raders_constructible (ty := ty) hic (by rw [hn]; exact hprime) avx2
        refine wrap _ _ ?_ hrc (hc1.insert _ hrc) h
        cases avx2 <;> simp only [Recipe.len, AvxBase.baseLen, if_true, Bool.false_eq_true, if_false] <;> omega
    · obtain ⟨m', hm', hge, h4, _⟩ := avxPlanBluesteins_spec ty n hn1
      rw [hm] at hm'; cases hm'
      rw [hb] at wrap h
      simp only at h
      cases hrec : avxPlanAndConstruct ty avx2 fuel c m with
      | error e => simp [hrec] at h
      | ok res =>
        obtain ⟨inner, c1⟩ := res
        simp only [hrec] at h
        obtain ⟨hil, hic, hc1⟩ := ih c m inner c1 hc hrec
        have hrc := avxBluesteins_constructible (ty := ty) (n := n) hic hn1 (by omega) (by omega)
        exact wrap _ _ rfl hrc (hc1.insert _ hrc) h

/-! ### the state invariant of each planner kind, and one step -/

/-- the per-kind state invariant: both maps satisfy `CacheInvSpec` (scalar, SSE: every instance the cache hands out is
filed under its length and was constructible) or `CacheInvFull` (AVX: the same for every *entry*, shadowed or not —
the membership form is what the lemmas of `Proofs/AvxTotal.lean` are stated with) -/
def StateInv (kind : PlannerKind) (ty : ElemTy) (s : PlannerState) : Prop :=
  match kind with
  | .avx _ => CacheInvFull ty s.fwd ∧ CacheInvFull ty s.inv
  | _ => CacheInvSpec ty s.fwd ∧ CacheInvSpec ty s.inv

theorem stateInv_empty (kind : PlannerKind) (ty : ElemTy) : StateInv kind ty PlannerState.empty := by
  cases kind
  · exact ⟨cacheInvSpec_nil ty, cacheInvSpec_nil ty⟩
  · exact ⟨cacheInvSpec_nil ty, cacheInvSpec_nil ty⟩
  · exact ⟨CacheInvFull.nil ty, CacheInvFull.nil ty⟩

/-- one step of the scalar / SSE planner from the recipe it designs -/
theorem planStep_of_build {ty : ElemTy} {s : PlannerState} {len : Nat} {inverse : Bool} {t r : Recipe}
    {c' : InstCache} (hf : CacheInvSpec ty s.fwd) (hi : CacheInvSpec ty s.inv) (hr : r.len = len)
    (hb : buildFft ty (s.cache inverse) r = .ok (t, c')) :
    t.len = len ∧ t.Constructible ty ∧ CacheInvSpec ty (s.setCache inverse c').fwd ∧
      CacheInvSpec ty (s.setCache inverse c').inv ∧ (s.setCache inverse c').cache inverse = c' ∧
      c'.get? len = some t ∧ (∀ k, (s.cache inverse).contains k = true → c'.contains k = true) ∧
      (∀ k t0, (s.cache inverse).get? k = some t0 → c'.get? k = some t0) := by
  have hci : CacheInvSpec ty (s.cache inverse) := by cases inverse; exact hf; exact hi
  have p := buildFft_post ty r _ hci t c' hb
  rw [hr] at p
  refine ⟨p.len_eq, p.ok, ?_, ?_, PlannerState.cache_setCache _ _ _, p.cached, p.mono, p.stable⟩
  · cases inverse
    · exact p.inv
    · exact hf
  · cases inverse
    · exact hi
    · exact p.inv

theorem planScalar_len {len : Nat} {r : Recipe} (h : planScalar len = .ok r) : r.len = len := by
  obtain ⟨r', h1, h2⟩ := planScalar_ok len
  rw [h] at h1; cases h1; exact h2

theorem planSse_len {len : Nat} {r : Recipe} (h : planSse len = .ok r) : r.len = len := by
  obtain ⟨r', h1, h2⟩ := planSse_ok len
  rw [h] at h1; cases h1; exact h2

theorem planFuel_ge (len : Nat) : 2 ≤ planFuel len := by unfold planFuel; omega

theorem planStep_avx_post {ty : ElemTy} {avx2 : Bool} {s s' : PlannerState} {len : Nat} {inverse : Bool}
    {t : Recipe} (hf : CacheInv s.fwd) (hi : CacheInv s.inv)
    (h : planStep (.avx avx2) ty s len inverse = .ok (t, s')) :
    t.len = len ∧ t.Constructible ty ∧ CacheInv s'.fwd ∧ CacheInv s'.inv ∧
      s'.cache (!inverse) = s.cache (!inverse) ∧ (s'.cache inverse).get? len = some t := by
  obtain ⟨c', hb, hok, rfl⟩ := planStep_avx_ok h
  have hci : CacheInv (s.cache inverse) := by cases inverse; exact hf; exact hi
  obtain ⟨h1, h2, h3⟩ := avxPlanAndConstruct_post ty avx2 _ (planFuel_ge len) _ len hci t c' hb
  refine ⟨h1, hok, ?_, ?_, PlannerState.cache_setCache_not _ _ _, by rw [PlannerState.cache_setCache]; exact h3⟩
  · cases inverse
    · exact h2
    · exact hf
  · cases inverse
    · exact hi
    · exact h2

/-- AVX with the full invariant: also the intermediate stages `construct_plan` inserts are constructible -/
theorem planStep_avx_full {ty : ElemTy} {avx2 : Bool} {s s' : PlannerState} {len : Nat} {inverse : Bool}
    {t : Recipe} (hf : CacheInvFull ty s.fwd) (hi : CacheInvFull ty s.inv)
    (h : planStep (.avx avx2) ty s len inverse = .ok (t, s')) :
    t.len = len ∧ t.Constructible ty ∧ CacheInvFull ty s'.fwd ∧ CacheInvFull ty s'.inv := by
  obtain ⟨c', hb, hok, rfl⟩ := planStep_avx_ok h
  have hci : CacheInvFull ty (s.cache inverse) := by cases inverse; exact hf; exact hi
  obtain ⟨h1, _, h3⟩ := avxPlanAndConstruct_full ty avx2 _ _ len t c' hci hb
  refine ⟨h1, hok, ?_, ?_⟩
  · cases inverse
    · exact h3
    · exact hf
  · cases inverse
    · exact hi
    · exact h3

/-- AVX totality of a request: from a state satisfying the full invariant `plan_fft` never fails — neither planning,
nor construction, nor any constructor assert of the returned instance -/
theorem planStep_avx_total (ty : ElemTy) (avx2 : Bool) (s : PlannerState) (hf : CacheInvFull ty s.fwd)
    (hi : CacheInvFull ty s.inv) (len : Nat) (inverse : Bool) :
    ∃ t s', planStep (.avx avx2) ty s len inverse = .ok (t, s') := by
  have hci : CacheInvFull ty (s.cache inverse) := by cases inverse; exact hf; exact hi
  obtain ⟨f, hfuel⟩ : ∃ f, planFuel len = f + 2 := ⟨planFuel len - 2, by have := planFuel_ge len; omega⟩
  obtain ⟨r, c', h1, _, _⟩ := avxConstruct_any ty avx2 f (s.cache inverse) len hci.toLen
  rw [← hfuel] at h1
  obtain ⟨_, ⟨sp, hsp⟩, _⟩ := avxPlanAndConstruct_full ty avx2 _ _ len r c' hci h1
  exact ⟨r, s.setCache inverse c', by simp only [planStep, h1, hsp]⟩

/-- one step of any planner kind keeps the kind's invariant and returns a constructible tree of the requested
length -/
theorem planStep_stateInv (kind : PlannerKind) (ty : ElemTy) (s s' : PlannerState) (len : Nat) (inverse : Bool)
    (t : Recipe) (hs : StateInv kind ty s) (h : planStep kind ty s len inverse = .ok (t, s')) :
    t.len = len ∧ t.Constructible ty ∧ StateInv kind ty s' := by
  cases kind with
  | scalar =>
    obtain ⟨r, c', hr, hb, rfl⟩ := planStep_scalar_ok h
    obtain ⟨h1, h2, h3, h4, _⟩ := planStep_of_build hs.1 hs.2 (planScalar_len hr) hb
    exact ⟨h1, h2, h3, h4⟩
  | sse =>
    obtain ⟨r, c', hr, hb, rfl⟩ := planStep_sse_ok h
    obtain ⟨h1, h2, h3, h4, _⟩ := planStep_of_build hs.1 hs.2 (planSse_len hr) hb
    exact ⟨h1, h2, h3, h4⟩
  | avx avx2 =>
    obtain ⟨h1, h2, h3, h4⟩ := planStep_avx_full hs.1 hs.2 h
    exact ⟨h1, h2, h3, h4⟩

/-- a whole history, from any state satisfying the invariant -/
theorem planHistory_stateInv (kind : PlannerKind) (ty : ElemTy) :
    ∀ (reqs : List (Nat × Bool)) (s : PlannerState) (ts : List Recipe) (s' : PlannerState),
      StateInv kind ty s → planHistory kind ty reqs s = .ok (ts, s') →
      List.Forall₂ (fun (t : Recipe) (rq : Nat × Bool) => t.len = rq.1 ∧ t.Constructible ty) ts reqs ∧
        StateInv kind ty s' := by
  intro reqs
  induction reqs with
  | nil =>
    intro s ts s' hs h
    simp only [planHistory] at h
    cases h
    exact ⟨.nil, hs⟩
  | cons rq rest ih =>
    intro s ts s' hs h
    obtain ⟨len, inv⟩ := rq
    simp only [planHistory] at h
    split at h
    · cases h
    · rename_i inst s1 hstep
      split at h
      · cases h
      · rename_i insts s2 hrest
        cases h
        obtain ⟨h1, h2, h3⟩ := planStep_stateInv kind ty s s1 len inv inst hs hstep
        obtain ⟨h4, h5⟩ := ih s1 insts s' h3 hrest
        exact ⟨.cons ⟨h1, h2⟩ h4, h5⟩

/-! ### direction separation, cache hits, stability -/

/-- a kind is one of the two portable-recipe planners -/
def PlannerKind.usesRecipes : PlannerKind → Bool
  | .avx _ => false
  | _ => true

theorem planStep_other (kind : PlannerKind) (ty : ElemTy) (s s' : PlannerState) (len : Nat) (inverse : Bool)
    (t : Recipe) (h : planStep kind ty s len inverse = .ok (t, s')) :
    s'.cache (!inverse) = s.cache (!inverse) := by
  cases kind with
  | scalar => obtain ⟨r, c', _, _, rfl⟩ := planStep_scalar_ok h; exact PlannerState.cache_setCache_not _ _ _
  | sse => obtain ⟨r, c', _, _, rfl⟩ := planStep_sse_ok h; exact PlannerState.cache_setCache_not _ _ _
  | avx avx2 => obtain ⟨c', _, _, rfl⟩ := planStep_avx_ok h; exact PlannerState.cache_setCache_not _ _ _

/-- a request whose `(len, direction)` is cached returns the cached instance and leaves the state as it is
(AVX: provided the cached instance passes the constructor asserts `planStep` re-checks) -/
theorem planStep_hit (kind : PlannerKind) (ty : ElemTy) (s : PlannerState) (len : Nat) (inverse : Bool) (t : Recipe)
    (hg : (s.cache inverse).get? len = some t) (hok : t.Constructible ty) :
    planStep kind ty s len inverse = .ok (t, s) := by
  cases kind with
  | scalar =>
    obtain ⟨r, hr, hl⟩ := planScalar_ok len
    have hb := buildFft_hit ty (s.cache inverse) r t (by rw [hl]; exact hg)
    simp only [planStep, hr, hb, PlannerState.setCache_cache]
  | sse =>
    obtain ⟨r, hr, hl⟩ := planSse_ok len
    have hb := buildFft_hit ty (s.cache inverse) r t (by rw [hl]; exact hg)
    simp only [planStep, hr, hb, PlannerState.setCache_cache]
  | avx avx2 =>
    obtain ⟨sp, hsp⟩ := hok
    have hf : planFuel len = (4 * len + 63) + 1 := by unfold planFuel; omega
    have hb := avxPlanAndConstruct_hit ty avx2 (4 * len + 63) (s.cache inverse) len t hg
    simp only [planStep, hf, hb, hsp, PlannerState.setCache_cache]

/-- after a successful request the returned instance is the one cached for `(len, direction)` -/
theorem planStep_cached (kind : PlannerKind) (ty : ElemTy) (s s' : PlannerState) (len : Nat) (inverse : Bool)
    (t : Recipe) (hs : StateInv kind ty s) (h : planStep kind ty s len inverse = .ok (t, s')) :
    (s'.cache inverse).get? len = some t := by
  cases kind with
  | scalar =>
    obtain ⟨r, c', hr, hb, rfl⟩ := planStep_scalar_ok h
    obtain ⟨_, _, _, _, h5, h6, _⟩ := planStep_of_build hs.1 hs.2 (planScalar_len hr) hb
    rw [h5]; exact h6
  | sse =>
    obtain ⟨r, c', hr, hb, rfl⟩ := planStep_sse_ok h
    obtain ⟨_, _, _, _, h5, h6, _⟩ := planStep_of_build hs.1 hs.2 (planSse_len hr) hb
    rw [h5]; exact h6
  | avx avx2 => exact (planStep_avx_post hs.1.toLen hs.2.toLen h).2.2.2.2.2

/-- scalar / SSE: a request never replaces an instance that is already cached, in either direction -/
theorem planStep_stable (kind : PlannerKind) (hk : kind.usesRecipes = true) (ty : ElemTy) (s s' : PlannerState)
    (len : Nat) (inverse : Bool) (t : Recipe) (hs : StateInv kind ty s)
    (h : planStep kind ty s len inverse = .ok (t, s')) (b : Bool) (k : Nat) (t0 : Recipe)
    (hg : (s.cache b).get? k = some t0) : (s'.cache b).get? k = some t0 := by
  by_cases hb : b = inverse
  · subst hb
    cases kind with
    | scalar =>
      obtain ⟨r, c', hr, hb, rfl⟩ := planStep_scalar_ok h
      obtain ⟨_, _, _, _, h5, _, _, h8⟩ := planStep_of_build hs.1 hs.2 (planScalar_len hr) hb
      rw [h5]; exact h8 k t0 hg
    | sse =>
      obtain ⟨r, c', hr, hb, rfl⟩ := planStep_sse_ok h
      obtain ⟨_, _, _, _, h5, _, _, h8⟩ := planStep_of_build hs.1 hs.2 (planSse_len hr) hb
      rw [h5]; exact h8 k t0 hg
    | avx avx2 => cases hk
  · have hb' : b = !inverse := by cases b <;> cases inverse <;> simp_all
    rw [hb'] at hg ⊢
    rw [planStep_other kind ty s s' len inverse t h]; exact hg

theorem planHistory_stable (kind : PlannerKind) (hk : kind.usesRecipes = true) (ty : ElemTy) :
    ∀ (reqs : List (Nat × Bool)) (s : PlannerState) (ts : List Recipe) (s' : PlannerState),
      StateInv kind ty s → planHistory kind ty reqs s = .ok (ts, s') →
      ∀ (b : Bool) (k : Nat) (t0 : Recipe), (s.cache b).get? k = some t0 → (s'.cache b).get? k = some t0 := by
  intro reqs
  induction reqs with
  | nil =>
    intro s ts s' _ h b k t0 hg
    simp only [planHistory] at h
    cases h
    exact hg
  | cons rq rest ih =>
    intro s ts s' hs h b k t0 hg
    obtain ⟨len, inv⟩ := rq
    simp only [planHistory] at h
    split at h
    · cases h
    · rename_i inst s1 hstep
      split at h
      · cases h
      · rename_i insts s2 hrest
        cases h
        obtain ⟨_, _, h3⟩ := planStep_stateInv kind ty s s1 len inv inst hs hstep
        exact ih s1 insts s' h3 hrest b k t0 (planStep_stable kind hk ty s s1 len inv inst hs hstep b k t0 hg)

/-- every cache only hands out constructible instances filed under their length -/
theorem StateInv.constructible {kind : PlannerKind} {ty : ElemTy} {s : PlannerState}
    (hs : StateInv kind ty s) (b : Bool) (k : Nat) (t : Recipe) (hg : (s.cache b).get? k = some t) :
    t.len = k ∧ t.Constructible ty := by
  cases kind with
  | scalar => cases b; exact hs.1 k t hg; exact hs.2 k t hg
  | sse => cases b; exact hs.1 k t hg; exact hs.2 k t hg
  | avx avx2 => cases b; exact hs.1.toSpec k t hg; exact hs.2.toSpec k t hg

theorem forall₂_index {α β : Type} {R : α → β → Prop} {l₁ : List α} {l₂ : List β} (h : List.Forall₂ R l₁ l₂) :
    ∃ hlen : l₁.length = l₂.length, ∀ i (hi : i < l₂.length), R (l₁[i]'(hlen ▸ hi)) l₂[i] := by
  induction h with
  | nil => exact ⟨rfl, fun i hi => by simp at hi⟩
  | cons hab _ ih =>
    obtain ⟨hlen, hall⟩ := ih
    refine ⟨by simp [hlen], fun i hi => ?_⟩
    cases i with
    | zero => exact hab
    | succ i => exact hall i (by simpa using hi)

/-- AVX: a whole history never fails -/
theorem planHistory_avx_total_aux (ty : ElemTy) (avx2 : Bool) : ∀ (reqs : List (Nat × Bool)) (s : PlannerState),
    StateInv (.avx avx2) ty s → ∃ ts s', planHistory (.avx avx2) ty reqs s = .ok (ts, s') := by
  intro reqs
  induction reqs with
  | nil => intro s _; exact ⟨[], s, rfl⟩
  | cons rq rest ih =>
    intro s hs
    obtain ⟨len, inv⟩ := rq
    obtain ⟨t, s1, h1⟩ := planStep_avx_total ty avx2 s hs.1 hs.2 len inv
    obtain ⟨_, _, hs1⟩ := planStep_stateInv (.avx avx2) ty s s1 len inv t hs h1
    obtain ⟨ts, s2, h2⟩ := ih s1 hs1
    exact ⟨t :: ts, s2, by simp only [planHistory, h1, h2]⟩

/-! ### uniqueness of well-formed factorisations -/

theorem prime_dvd_prodOf_entries {p : Nat} (hp : Nat.Prime p) : ∀ (l : List PrimeFactor), GoodEntries l → p ∣ prodOf l →
    ∃ x ∈ l, x.value = p := by
  intro l
  induction l with
  | nil => intro _ hd; simp at hd; exact absurd hd hp.one_lt.ne'
  | cons x l ih =>
    intro hg hd
    rw [prodOf_cons] at hd
    rcases (Nat.Prime.dvd_mul hp).1 hd with h | h
    · have h1 := hp.dvd_of_dvd_pow h
      have h2 := (Nat.prime_dvd_prime_iff_eq hp (hg x (List.mem_cons_self ..)).2.2).1 h1
      exact ⟨x, List.mem_cons_self .., h2.symm⟩
    · obtain ⟨y, hy, hv⟩ := ih hg.tail h
      exact ⟨y, List.mem_cons_of_mem _ hy, hv⟩

theorem head_not_dvd_tail {x : PrimeFactor} {l : List PrimeFactor} (hg : GoodEntries (x :: l))
    (hs : (x :: l).Pairwise (fun a b => a.value < b.value)) : ¬ x.value ∣ prodOf l := by
  intro hd
  obtain ⟨y, hy, hv⟩ := prime_dvd_prodOf_entries (hg x (List.mem_cons_self ..)).2.2 l hg.tail hd
  have := (List.pairwise_cons.1 hs).1 y hy
  omega

theorem prodOf_inj : ∀ (l₁ l₂ : List PrimeFactor), GoodEntries l₁ → GoodEntries l₂ →
    l₁.Pairwise (fun a b => a.value < b.value) → l₂.Pairwise (fun a b => a.value < b.value) →
    prodOf l₁ = prodOf l₂ → l₁ = l₂ := by
  intro l₁
  induction l₁ with
  | nil =>
    intro l₂ _ hg2 _ _ he
    by_contra hne
    have := five_le_prodOf l₂ hg2 (fun h => hne h.symm)
    rw [prodOf_nil] at he; omega
  | cons x t₁ ih =>
    intro l₂ hg1 hg2 hs1 hs2 he
    cases l₂ with
    | nil =>
      have := five_le_prodOf (x :: t₁) hg1 (by simp)
      rw [prodOf_nil] at he; omega
    | cons y t₂ =>
      have hx := hg1 x (List.mem_cons_self ..)
      have hy := hg2 y (List.mem_cons_self ..)
      have hle1 : y.value ≤ x.value := by
        obtain ⟨z, hz, hv⟩ := prime_dvd_prodOf_entries hx.2.2 (y :: t₂) hg2
          (he ▸ (by rw [prodOf_cons]; exact Dvd.dvd.mul_right (dvd_pow_self _ (by omega)) _))
        rcases List.mem_cons.1 hz with rfl | hz
        · omega
        · have := (List.pairwise_cons.1 hs2).1 z hz; omega
      have hle2 : x.value ≤ y.value := by
        obtain ⟨z, hz, hv⟩ := prime_dvd_prodOf_entries hy.2.2 (x :: t₁) hg1
          (he ▸ (by rw [prodOf_cons]; exact Dvd.dvd.mul_right (dvd_pow_self _ (by omega)) _))
        rcases List.mem_cons.1 hz with rfl | hz
        · omega
        · have := (List.pairwise_cons.1 hs1).1 z hz; omega
      have hv : x.value = y.value := by omega
      have hn1 := head_not_dvd_tail hg1 hs1
      have hn2 := head_not_dvd_tail hg2 hs2
      rw [prodOf_cons, prodOf_cons, ← hv] at he
      have hc1 : x.count ≤ y.count :=
        exp_le_of_dvd hx.2.2 (by rwa [hv]) (by rw [Nat.mul_comm, ← he]; exact Dvd.intro _ rfl)
      have hc2 : y.count ≤ x.count :=
        exp_le_of_dvd hx.2.2 hn1 (by rw [Nat.mul_comm, he]; exact Dvd.intro _ rfl)
      have hc : x.count = y.count := by omega
      rw [← hc] at he
      have ht : prodOf t₁ = prodOf t₂ := Nat.eq_of_mul_eq_mul_left (Nat.pow_pos (by omega)) he
      have hxy : x = y := by
        cases x; cases y; simp only at hv hc; subst hv; subst hc; rfl
      rw [hxy, ih t₂ hg1.tail hg2.tail (List.pairwise_cons.1 hs1).2 (List.pairwise_cons.1 hs2).2 ht]

theorem not_three_dvd_prodOf (l : List PrimeFactor) (hg : GoodEntries l) : ¬ 3 ∣ prodOf l := by
  intro hd
  obtain ⟨x, hx, hv⟩ := prime_dvd_prodOf_entries Nat.prime_three l hg hd
  have := (hg x hx).2.1
  omega

/-- a number has at most one well-formed `PrimeFactors` -/
theorem PrimeFactors.WF.unique {f g : PrimeFactors} (hf : f.WF) (hg : g.WF) (hn : f.n = g.n) : f = g := by
  have h2 := hf.strip_two
  rw [hn, hg.strip_two] at h2
  simp only [Prod.mk.injEq] at h2
  obtain ⟨hrest, hp2⟩ := h2
  have hnf := not_three_dvd_prodOf _ hf.entries
  have hng := not_three_dvd_prodOf _ hg.entries
  have hc1 : f.p3 ≤ g.p3 :=
    exp_le_of_dvd Nat.prime_three hng (by rw [Nat.mul_comm, hrest]; exact Dvd.intro _ rfl)
  have hc2 : g.p3 ≤ f.p3 :=
    exp_le_of_dvd Nat.prime_three hnf (by rw [Nat.mul_comm, ← hrest]; exact Dvd.intro _ rfl)
  have hp3 : f.p3 = g.p3 := by omega
  rw [hp3] at hrest
  have hprod : prodOf f.others = prodOf g.others :=
    (Nat.eq_of_mul_eq_mul_left (Nat.pow_pos (by omega)) hrest).symm
  have hoth := prodOf_inj _ _ hf.entries hg.entries hf.sorted hg.sorted hprod
  have ht := hf.total_eq
  have hd := hf.distinct_eq
  rw [← hp2, hp3, hoth, ← hg.total_eq] at ht
  rw [← hp2, hp3, hoth, ← hg.distinct_eq] at hd
  cases f; cases g
  simp only at hn hp2 hp3 hoth ht hd
  subst hn; subst hp2; subst hp3; subst hoth; subst ht; subst hd
  rfl

/-! ### recipes are functions of the length -/

/-- the immediate sub-instances of a tree -/
def Recipe.children : Recipe → List Recipe
  | .mixedRadix l r => [l, r]
  | .mixedRadixSmall l r => [l, r]
  | .goodThomas l r => [l, r]
  | .goodThomasSmall l r => [l, r]
  | .raders i => [i]
  | .bluesteins _ i => [i]
  | .radixN _ b => [b]
  | .radix4 _ b => [b]
  | .radix3 _ b => [b]
  | .sseRadix4 _ b => [b]
  | .avxMixedRadix _ i => [i]
  | .avxRaders i => [i]
  | .avxBluesteins _ i => [i]
  | .dft _ => []
  | .bfly _ => []
  | .primeBfly _ => []
  | .avxBfly _ => []

/-- `r` is what the planner `P` designs for its own length, and so is, hereditarily, every sub-recipe -/
inductive Hered (P : Nat → Except String Recipe) : Recipe → Prop
  | mk (r : Recipe) : P r.len = .ok r → (∀ c ∈ r.children, Hered P c) → Hered P r

theorem Hered.top {P : Nat → Except String Recipe} {r : Recipe} (h : Hered P r) : P r.len = .ok r := by
  cases h; assumption

theorem Hered.child {P : Nat → Except String Recipe} {r : Recipe} (h : Hered P r) :
    ∀ c ∈ r.children, Hered P c := by
  cases h; assumption

theorem scalarForLen_top {F n : Nat} {r : Recipe} (h : scalarForLen F n = .ok r) : planScalar r.len = .ok r := by
  have h1 := planScalar_fuel_irrelevant F n r h
  rw [planScalar_len h1]; exact h1

theorem radixNFinish_children {base r : Recipe} {cross : Nat} (h : radixNFinish base cross = .ok r) :
    r.children = [base] := by
  unfold radixNFinish at h
  simp only at h
  split at h
  · cases h; rfl
  · split at h
    · cases h
    · cases h; rfl

theorem scalar_hered (F : Nat) :
    (∀ n r, scalarForLen F n = .ok r → Hered planScalar r) ∧
    (∀ n f r, f.WF → f.n = n → 2 ≤ n → scalarWithFactors F n f = .ok r → Hered planScalar r) ∧
    (∀ lf rf r, lf.WF → rf.WF → 2 ≤ lf.n → 2 ≤ rf.n → scalarMixedRadix F lf rf = .ok r →
      ∀ c ∈ r.children, Hered planScalar c) ∧
    (∀ f r, scalarRadixN F f = .ok r → ∀ c ∈ r.children, Hered planScalar c) ∧
    (∀ n r, 3 ≤ n → scalarPrime F n = .ok r → ∀ c ∈ r.children, Hered planScalar c) := by
  induction F with
  | zero =>
    refine ⟨?_, ?_, ?_, ?_, ?_⟩
    · intro n r h; rw [scalarForLen] at h; cases h
    · intro n f r _ _ _ h; rw [scalarWithFactors] at h; cases h
    · intro l rf r _ _ _ _ h; rw [scalarMixedRadix] at h; cases h
    · intro f r h; rw [scalarRadixN] at h; cases h
    · intro n r _ h; rw [scalarPrime] at h; cases h
  | succ F ih =>
    obtain ⟨ih1, ih2, ih3, ih4, ih5⟩ := ih
    refine ⟨?_, ?_, ?_, ?_, ?_⟩
    · -- scalarForLen
      intro n r h
      have htop := scalarForLen_top h
      rw [scalarForLen] at h
      split at h
      · cases h; exact Hered.mk _ htop (by intro c hc; simp [Recipe.children] at hc)
      · rename_i hn
        obtain ⟨f, hf, hwf, hfn, _⟩ := compute_spec n (by omega)
        rw [hf] at h
        exact ih2 n f r hwf hfn (by omega) h
    · -- scalarWithFactors
      intro n f r hwf hfn hn2 h
      have htop : planScalar r.len = .ok r := by
        obtain ⟨f', hf', hwf', hfn', _⟩ := compute_spec n (by omega)
        have : f' = f := hwf'.unique hwf (by rw [hfn', hfn])
        subst this
        have : scalarForLen (F + 1 + 1) n = .ok r := by
          rw [scalarForLen, if_neg (by omega), hf']; exact h
        exact scalarForLen_top this
      refine Hered.mk r htop ?_
      rw [scalarWithFactors] at h
      split at h
      · cases h; intro c hc; simp [Recipe.children] at hc
      · rename_i hnb
        split at h
        · rename_i hp
          have h3 : 3 ≤ n := by
            rcases Nat.lt_or_ge n 3 with hlt | hge
            · have : n = 2 := by omega
              subst this; exact absurd (by decide) hnb
            · exact hge
          exact ih5 n r h3 h
        · rename_i hp
          revert h
          generalize (if n > 992 ∨ isPowerOfTwo n = true then (none : Option (Nat × Nat))
            else butterflyProductSearch n (ceilSqrt n + 1) scalarProductButterflies (2 ^ 64) none) = prod
          intro h
          cases prod with
          | some lr =>
            obtain ⟨l, r'⟩ := lr
            simp only at h
            cases h1 : scalarForLen F l with
            | error e => rw [h1] at h; cases h
            | ok a =>
              cases h2 : scalarForLen F r' with
              | error e => rw [h1, h2] at h; cases h
              | ok b =>
                rw [h1, h2] at h
                simp only at h
                have ha := ih1 _ _ h1
                have hb := ih1 _ _ h2
                split at h <;> cases h <;>
                · intro c hc
                  simp only [Recipe.children, List.mem_cons, List.not_mem_nil, or_false] at hc
                  rcases hc with rfl | rfl
                  · exact ha
                  · exact hb
          | none =>
            simp only at h
            split at h
            · exact ih4 _ _ h
            · have hnp : f.isPrime = false := by
                cases hq : f.isPrime with
                | false => rfl
                | true => exact absurd hq hp
              obtain ⟨l, r', hpart, hlwf, hrwf, _, hl1, hr1⟩ := partition_spec f hwf hnp (by omega)
              rw [hpart] at h
              exact ih3 l r' r hlwf hrwf (by omega) (by omega) h
    · -- scalarMixedRadix
      intro lf rf r hlwf hrwf hl2 hr2 h
      rw [scalarMixedRadix] at h
      cases h1 : scalarWithFactors F lf.product lf with
      | error e => rw [h1] at h; cases h
      | ok a =>
        cases h2 : scalarWithFactors F rf.product rf with
        | error e => rw [h1, h2] at h; cases h
        | ok b =>
          rw [h1, h2] at h
          simp only at h
          have ha := ih2 _ _ _ hlwf rfl hl2 h1
          have hb := ih2 _ _ _ hrwf rfl hr2 h2
          have fin : ∀ c, c = a ∨ c = b → Hered planScalar c := by
            rintro c (rfl | rfl)
            · exact ha
            · exact hb
          split at h
          · split at h <;> cases h <;>
            · intro c hc
              simp only [Recipe.children, List.mem_cons, List.not_mem_nil, or_false] at hc
              exact fin c hc
          · cases h
            intro c hc
            simp only [Recipe.children, List.mem_cons, List.not_mem_nil, or_false] at hc
            exact fin c hc
    · -- scalarRadixN
      intro f r h
      rw [scalarRadixN_eq] at h
      cases hb : radixNBase f with
      | error e => rw [hb] at h; cases h
      | ok b =>
        rw [hb] at h
        simp only at h
        unfold radixNTail at h
        split at h
        · cases h
        · cases h1 : scalarForLen F b with
          | error e => rw [h1] at h; cases h
          | ok base =>
            rw [h1] at h
            simp only at h
            rw [radixNFinish_children h]
            intro c hc
            simp only [List.mem_cons, List.not_mem_nil, or_false] at hc
            subst hc
            exact ih1 _ _ h1
    · -- scalarPrime
      intro n r hn3 h
      rw [scalarPrime] at h
      obtain ⟨rf, hrf, hrwf, hrn, _⟩ := compute_spec (n - 1) (by omega)
      rw [hrf] at h
      simp only at h
      split at h
      · cases h1 : scalarForLen F (bluesteinInnerLen n) with
        | error e => rw [h1] at h; cases h
        | ok inner =>
          rw [h1] at h
          cases h
          intro c hc
          simp only [Recipe.children, List.mem_cons, List.not_mem_nil, or_false] at hc
          subst hc
          exact ih1 _ _ h1
      · cases h1 : scalarWithFactors F (n - 1) rf with
        | error e => rw [h1] at h; cases h
        | ok inner =>
          rw [h1] at h
          cases h
          intro c hc
          simp only [Recipe.children, List.mem_cons, List.not_mem_nil, or_false] at hc
          subst hc
          exact ih2 _ _ _ hrwf hrn (by omega) h1

theorem planScalar_hered {n : Nat} {r : Recipe} (h : planScalar n = .ok r) : Hered planScalar r :=
  (scalar_hered _).1 n r h

/-! ### canonical caches: `build_fft` of a hereditary recipe returns the recipe itself -/

/-- every instance the cache hands out is the tree `P` designs for its key -/
def CanonCache (P : Nat → Except String Recipe) (c : InstCache) : Prop :=
  ∀ k t, c.get? k = some t → P k = .ok t

theorem canonCache_nil (P : Nat → Except String Recipe) : CanonCache P [] := by
  intro k t h; simp [InstCache.get?] at h

theorem canonCache_insert {P : Nat → Except String Recipe} {c : InstCache} (hc : CanonCache P c) {t : Recipe}
    (ht : P t.len = .ok t) : CanonCache P (c.insert t) := by
  intro k t' h
  rw [InstCache.get?_insert] at h
  split at h
  · rename_i hk
    cases h
    rw [hk]; exact ht
  · exact hc k t' h

theorem orBuild_canon {P : Nat → Except String Recipe} {c : InstCache} {r : Recipe}
    {build : Unit → Except String (Recipe × InstCache)} {t : Recipe} {c' : InstCache}
    (hc : CanonCache P c) (hr : P r.len = .ok r)
    (hb : ∀ t c', build () = .ok (t, c') → t = r ∧ CanonCache P c')
    (h : orBuild c r.len build = .ok (t, c')) : t = r ∧ CanonCache P c' := by
  unfold orBuild at h
  split at h
  · rename_i inst hg
    cases h
    have := hc _ _ hg
    rw [hr] at this
    cases this
    exact ⟨rfl, hc⟩
  · exact hb t c' h

theorem buildFft_canon (P : Nat → Except String Recipe) (ty : ElemTy) (r : Recipe) :
    ∀ (c : InstCache), Hered P r → CanonCache P c → ∀ t c', buildFft ty c r = .ok (t, c') →
      t = r ∧ CanonCache P c' := by
  induction r with
  | dft n =>
    intro c hr hc t c' h
    refine orBuild_canon (r := .dft n) hc hr.top (fun t c' hb => ?_) h
    obtain ⟨ii, c1, h1, h2, _, h4⟩ := finish1_ok hb
    cases h1; subst h4
    exact ⟨h2, canonCache_insert hc (by rw [h2]; exact hr.top)⟩
  | bfly n =>
    intro c hr hc t c' h
    refine orBuild_canon (r := .bfly n) hc hr.top (fun t c' hb => ?_) h
    obtain ⟨ii, c1, h1, h2, _, h4⟩ := finish1_ok hb
    cases h1; subst h4
    exact ⟨h2, canonCache_insert hc (by rw [h2]; exact hr.top)⟩
  | primeBfly n =>
    intro c hr hc t c' h
    refine orBuild_canon (r := .primeBfly n) hc hr.top (fun t c' hb => ?_) h
    obtain ⟨ii, c1, h1, h2, _, h4⟩ := finish1_ok hb
    cases h1; subst h4
    exact ⟨h2, canonCache_insert hc (by rw [h2]; exact hr.top)⟩
  | avxBfly n =>
    intro c hr hc t c' h
    refine orBuild_canon (r := .avxBfly n) hc hr.top (fun t c' hb => ?_) h
    obtain ⟨ii, c1, h1, h2, _, h4⟩ := finish1_ok hb
    cases h1; subst h4
    exact ⟨h2, canonCache_insert hc (by rw [h2]; exact hr.top)⟩
  | mixedRadix l r ihl ihr =>
    intro c hr hc t c' h
    refine orBuild_canon (r := .mixedRadix l r) hc hr.top (fun t c' hb => ?_) h
    obtain ⟨li, c1, ri, c2, h1, h2, h3, _, h5⟩ := finish2_ok hb
    obtain ⟨e1, hc1⟩ := ihl c (hr.child l (by simp [Recipe.children])) hc li c1 h1
    obtain ⟨e2, hc2⟩ := ihr c1 (hr.child r (by simp [Recipe.children])) hc1 ri c2 h2
    subst e1; subst e2; subst h5
    exact ⟨h3, canonCache_insert hc2 (by rw [h3]; exact hr.top)⟩
  | mixedRadixSmall l r ihl ihr =>
    intro c hr hc t c' h
    refine orBuild_canon (r := .mixedRadixSmall l r) hc hr.top (fun t c' hb => ?_) h
    obtain ⟨li, c1, ri, c2, h1, h2, h3, _, h5⟩ := finish2_ok hb
    obtain ⟨e1, hc1⟩ := ihl c (hr.child l (by simp [Recipe.children])) hc li c1 h1
    obtain ⟨e2, hc2⟩ := ihr c1 (hr.child r (by simp [Recipe.children])) hc1 ri c2 h2
    subst e1; subst e2; subst h5
    exact ⟨h3, canonCache_insert hc2 (by rw [h3]; exact hr.top)⟩
  | goodThomas l r ihl ihr =>
    intro c hr hc t c' h
    refine orBuild_canon (r := .goodThomas l r) hc hr.top (fun t c' hb => ?_) h
    obtain ⟨li, c1, ri, c2, h1, h2, h3, _, h5⟩ := finish2_ok hb
    obtain ⟨e1, hc1⟩ := ihl c (hr.child l (by simp [Recipe.children])) hc li c1 h1
    obtain ⟨e2, hc2⟩ := ihr c1 (hr.child r (by simp [Recipe.children])) hc1 ri c2 h2
    subst e1; subst e2; subst h5
    exact ⟨h3, canonCache_insert hc2 (by rw [h3]; exact hr.top)⟩
  | goodThomasSmall l r ihl ihr =>
    intro c hr hc t c' h
    refine orBuild_canon (r := .goodThomasSmall l r) hc hr.top (fun t c' hb => ?_) h
    obtain ⟨li, c1, ri, c2, h1, h2, h3, _, h5⟩ := finish2_ok hb
    obtain ⟨e1, hc1⟩ := ihl c (hr.child l (by simp [Recipe.children])) hc li c1 h1
    obtain ⟨e2, hc2⟩ := ihr c1 (hr.child r (by simp [Recipe.children])) hc1 ri c2 h2
    subst e1; subst e2; subst h5
    exact ⟨h3, canonCache_insert hc2 (by rw [h3]; exact hr.top)⟩
  | raders i ih =>
    intro c hr hc t c' h
    refine orBuild_canon (r := .raders i) hc hr.top (fun t c' hb => ?_) h
    obtain ⟨ii, c1, h1, h2, _, h4⟩ := finish1_ok hb
    obtain ⟨e1, hc1⟩ := ih c (hr.child i (by simp [Recipe.children])) hc ii c1 h1
    subst e1; subst h4
    exact ⟨h2, canonCache_insert hc1 (by rw [h2]; exact hr.top)⟩
  | bluesteins n i ih =>
    intro c hr hc t c' h
    refine orBuild_canon (r := .bluesteins n i) hc hr.top (fun t c' hb => ?_) h
    obtain ⟨ii, c1, h1, h2, _, h4⟩ := finish1_ok hb
    obtain ⟨e1, hc1⟩ := ih c (hr.child i (by simp [Recipe.children])) hc ii c1 h1
    subst e1; subst h4
    exact ⟨h2, canonCache_insert hc1 (by rw [h2]; exact hr.top)⟩
  | radixN fs b ih =>
    intro c hr hc t c' h
    refine orBuild_canon (r := .radixN fs b) hc hr.top (fun t c' hb => ?_) h
    obtain ⟨ii, c1, h1, h2, _, h4⟩ := finish1_ok hb
    obtain ⟨e1, hc1⟩ := ih c (hr.child b (by simp [Recipe.children])) hc ii c1 h1
    subst e1; subst h4
    exact ⟨h2, canonCache_insert hc1 (by rw [h2]; exact hr.top)⟩
  | radix4 k b ih =>
    intro c hr hc t c' h
    refine orBuild_canon (r := .radix4 k b) hc hr.top (fun t c' hb => ?_) h
    obtain ⟨ii, c1, h1, h2, _, h4⟩ := finish1_ok hb
    obtain ⟨e1, hc1⟩ := ih c (hr.child b (by simp [Recipe.children])) hc ii c1 h1
    subst e1; subst h4
    exact ⟨h2, canonCache_insert hc1 (by rw [h2]; exact hr.top)⟩
  | radix3 k b ih =>
    intro c hr hc t c' h
    refine orBuild_canon (r := .radix3 k b) hc hr.top (fun t c' hb => ?_) h
    obtain ⟨ii, c1, h1, h2, _, h4⟩ := finish1_ok hb
    obtain ⟨e1, hc1⟩ := ih c (hr.child b (by simp [Recipe.children])) hc ii c1 h1
    subst e1; subst h4
    exact ⟨h2, canonCache_insert hc1 (by rw [h2]; exact hr.top)⟩
  | sseRadix4 k b ih =>
    intro c hr hc t c' h
    refine orBuild_canon (r := .sseRadix4 k b) hc hr.top (fun t c' hb => ?_) h
    obtain ⟨ii, c1, h1, h2, _, h4⟩ := finish1_ok hb
    obtain ⟨e1, hc1⟩ := ih c (hr.child b (by simp [Recipe.children])) hc ii c1 h1
    subst e1; subst h4
    exact ⟨h2, canonCache_insert hc1 (by rw [h2]; exact hr.top)⟩
  | avxMixedRadix rad i ih =>
    intro c hr hc t c' h
    refine orBuild_canon (r := .avxMixedRadix rad i) hc hr.top (fun t c' hb => ?_) h
    obtain ⟨ii, c1, h1, h2, _, h4⟩ := finish1_ok hb
    obtain ⟨e1, hc1⟩ := ih c (hr.child i (by simp [Recipe.children])) hc ii c1 h1
    subst e1; subst h4
    exact ⟨h2, canonCache_insert hc1 (by rw [h2]; exact hr.top)⟩
  | avxRaders i ih =>
    intro c hr hc t c' h
    refine orBuild_canon (r := .avxRaders i) hc hr.top (fun t c' hb => ?_) h
    obtain ⟨ii, c1, h1, h2, _, h4⟩ := finish1_ok hb
    obtain ⟨e1, hc1⟩ := ih c (hr.child i (by simp [Recipe.children])) hc ii c1 h1
    subst e1; subst h4
    exact ⟨h2, canonCache_insert hc1 (by rw [h2]; exact hr.top)⟩
  | avxBluesteins n i ih =>
    intro c hr hc t c' h
    refine orBuild_canon (r := .avxBluesteins n i) hc hr.top (fun t c' hb => ?_) h
    obtain ⟨ii, c1, h1, h2, _, h4⟩ := finish1_ok hb
    obtain ⟨e1, hc1⟩ := ih c (hr.child i (by simp [Recipe.children])) hc ii c1 h1
    subst e1; subst h4
    exact ⟨h2, canonCache_insert hc1 (by rw [h2]; exact hr.top)⟩

/-! ### the SSE twin -/

theorem sseForLen_top {F n : Nat} {r : Recipe} (h : sseForLen F n = .ok r) : planSse r.len = .ok r := by
  have h1 := planSse_fuel_irrelevant F n r h
  rw [planSse_len h1]; exact h1

theorem sseButterfly_children {n : Nat} {r : Recipe} (h : sseButterfly n = some r) : r.children = [] := by
  unfold sseButterfly at h
  split at h
  · cases h; rfl
  · split at h
    · cases h; rfl
    · cases h

theorem sseButterfly_one : sseButterfly 1 = some (.bfly 1) := by decide

theorem compute_ok_wf {n : Nat} {f : PrimeFactors} (h : PrimeFactors.compute n = .ok f) : f.WF ∧ f.n = n := by
  have hn : 0 < n := by
    rcases Nat.eq_zero_or_pos n with h0 | h0
    · subst h0; simp [PrimeFactors.compute] at h
    · exact h0
  obtain ⟨f', hf', hwf, hfn, _⟩ := compute_spec n hn
  rw [h] at hf'; cases hf'
  exact ⟨hwf, hfn⟩

theorem sse_hered (F : Nat) :
    (∀ n r, sseForLen F n = .ok r → Hered planSse r) ∧
    (∀ n f r, f.WF → f.n = n → 1 ≤ n → sseWithFactors F n f = .ok r → Hered planSse r) ∧
    (∀ lf rf r, lf.WF → rf.WF → sseMixedRadix F lf rf = .ok r → ∀ c ∈ r.children, Hered planSse c) ∧
    (∀ f r, sseRadix4 F f = .ok r → ∀ c ∈ r.children, Hered planSse c) ∧
    (∀ n r, 2 ≤ n → ssePrime F n = .ok r → ∀ c ∈ r.children, Hered planSse c) := by
  induction F with
  | zero =>
    refine ⟨?_, ?_, ?_, ?_, ?_⟩
    · intro n r h; rw [sseForLen] at h; cases h
    · intro n f r _ _ _ h; rw [sseWithFactors] at h; cases h
    · intro l rf r _ _ h; rw [sseMixedRadix] at h; cases h
    · intro f r h; rw [sseRadix4] at h; cases h
    · intro n r _ h; rw [ssePrime] at h; cases h
  | succ F ih =>
    obtain ⟨ih1, ih2, ih3, ih4, ih5⟩ := ih
    refine ⟨?_, ?_, ?_, ?_, ?_⟩
    · -- sseForLen
      intro n r h
      have htop := sseForLen_top h
      rw [sseForLen] at h
      split at h
      · cases h; exact Hered.mk _ htop (by intro c hc; simp [Recipe.children] at hc)
      · rename_i hn
        obtain ⟨f, hf, hwf, hfn, _⟩ := compute_spec n (by omega)
        rw [hf] at h
        exact ih2 n f r hwf hfn (by omega) h
    · -- sseWithFactors
      intro n f r hwf hfn hn1 h
      have htop : planSse r.len = .ok r := by
        obtain ⟨f', hf', hwf', hfn', _⟩ := compute_spec n (by omega)
        have : f' = f := hwf'.unique hwf (by rw [hfn', hfn])
        subst this
        have : sseForLen (F + 1 + 1) n = .ok r := by
          rw [sseForLen, if_neg (by omega), hf']; exact h
        exact sseForLen_top this
      refine Hered.mk r htop ?_
      rw [sseWithFactors] at h
      cases hbf : sseButterfly n with
      | some b =>
        rw [hbf] at h
        cases h
        rw [sseButterfly_children hbf]
        intro c hc; cases hc
      | none =>
        rw [hbf] at h
        simp only at h
        have hn2 : 2 ≤ n := by
          rcases Nat.lt_or_ge n 2 with hlt | hge
          · have : n = 1 := by omega
            subst this; rw [sseButterfly_one] at hbf; cases hbf
          · exact hge
        split at h
        · exact ih5 n r hn2 h
        · rename_i hp
          split at h
          · rename_i htz
            split at h
            · exact ih4 _ _ h
            · rename_i hr
              have htz' : trailingZeros n = f.p2 := by rw [← hfn]; exact hwf.trailingZeros_eq
              have hp2 : 0 < f.p2 := by rw [← htz']; unfold MIN_RADIX4_BITS at htz; omega
              obtain ⟨g, hg, hgwf, _, _⟩ := hwf.removeFactors_two hp2 hr
              rw [htz', hg] at h
              simp only at h
              cases hcmp : PrimeFactors.compute (2 ^ f.p2) with
              | error e => rw [hcmp] at h; cases h
              | ok pt =>
                rw [hcmp] at h
                exact ih3 pt g r (compute_ok_wf hcmp).1 hgwf h
          · revert h
            generalize (if n > 13 ∧ n ≤ 1024 then ssePairSearch n sseAllButterflies (0, 0) else (0, 0)) = P
            intro h
            split at h
            · cases h1 : PrimeFactors.compute P.1 with
              | error e => rw [h1] at h; cases h
              | ok fl =>
                cases h2 : PrimeFactors.compute P.2 with
                | error e => rw [h1, h2] at h; cases h
                | ok fr =>
                  rw [h1, h2] at h
                  exact ih3 fl fr r (compute_ok_wf h1).1 (compute_ok_wf h2).1 h
            · have hnp : f.isPrime = false := by
                cases hq : f.isPrime with
                | false => rfl
                | true => exact absurd hq hp
              obtain ⟨l, r', hpart, hlwf, hrwf, _, _, _⟩ := partition_spec f hwf hnp (by omega)
              rw [hpart] at h
              exact ih3 l r' r hlwf hrwf h
    · -- sseMixedRadix
      intro lf rf r hlwf hrwf h
      rw [sseMixedRadix] at h
      cases h1 : sseWithFactors F lf.product lf with
      | error e => rw [h1] at h; cases h
      | ok a =>
        cases h2 : sseWithFactors F rf.product rf with
        | error e => rw [h1, h2] at h; cases h
        | ok b =>
          rw [h1, h2] at h
          simp only at h
          have ha := ih2 _ _ _ hlwf rfl hlwf.pos h1
          have hb := ih2 _ _ _ hrwf rfl hrwf.pos h2
          have fin : ∀ c, c = a ∨ c = b → Hered planSse c := by
            rintro c (rfl | rfl)
            · exact ha
            · exact hb
          split at h
          · split at h <;> cases h <;>
            · intro c hc
              simp only [Recipe.children, List.mem_cons, List.not_mem_nil, or_false] at hc
              exact fin c hc
          · cases h
            intro c hc
            simp only [Recipe.children, List.mem_cons, List.not_mem_nil, or_false] at hc
            exact fin c hc
    · -- sseRadix4
      intro f r h
      rw [sseRadix4_eq] at h
      split at h
      · cases h
      · unfold sseRadix4Tail at h
        simp only at h
        split at h
        · cases h
        · split at h
          · cases h
          · cases h1 : sseForLen F (sseRadix4Base f.p2 f.p3) with
            | error e => rw [h1] at h; cases h
            | ok base =>
              rw [h1] at h
              cases h
              intro c hc
              simp only [Recipe.children, List.mem_cons, List.not_mem_nil, or_false] at hc
              subst hc
              exact ih1 _ _ h1
    · -- ssePrime
      intro n r hn2 h
      rw [ssePrime] at h
      obtain ⟨rf, hrf, hrwf, hrn, _⟩ := compute_spec (n - 1) (by omega)
      rw [hrf] at h
      simp only at h
      split at h
      · cases h1 : sseForLen F (bluesteinInnerLen n) with
        | error e => rw [h1] at h; cases h
        | ok inner =>
          rw [h1] at h
          cases h
          intro c hc
          simp only [Recipe.children, List.mem_cons, List.not_mem_nil, or_false] at hc
          subst hc
          exact ih1 _ _ h1
      · cases h1 : sseWithFactors F (n - 1) rf with
        | error e => rw [h1] at h; cases h
        | ok inner =>
          rw [h1] at h
          cases h
          intro c hc
          simp only [Recipe.children, List.mem_cons, List.not_mem_nil, or_false] at hc
          subst hc
          exact ih2 _ _ _ hrwf hrn (by omega) h1

theorem planSse_hered {n : Nat} {r : Recipe} (h : planSse n = .ok r) : Hered planSse r :=
  (sse_hered _).1 n r h

/-! ### canonicity of the scalar / SSE planners' trees -/

/-- the recipe designer behind a planner kind (the AVX planner has none: it plans against its instance cache) -/
def PlannerKind.design : PlannerKind → Nat → Except String Recipe
  | .scalar => planScalar
  | .sse => planSse
  | .avx _ => fun _ => .error "the AVX planner plans against its instance cache"

theorem planStep_canon (kind : PlannerKind) (hk : kind.usesRecipes = true) (ty : ElemTy) (s s' : PlannerState)
    (len : Nat) (inverse : Bool) (t : Recipe) (hc : CanonCache kind.design (s.cache inverse))
    (h : planStep kind ty s len inverse = .ok (t, s')) :
    kind.design len = .ok t ∧ CanonCache kind.design (s'.cache inverse) := by
  cases kind with
  | scalar =>
    obtain ⟨r, c', hr, hb, rfl⟩ := planStep_scalar_ok h
    obtain ⟨e, hc'⟩ := buildFft_canon planScalar ty r _ (planScalar_hered hr) hc t c' hb
    subst e
    exact ⟨hr, by rw [PlannerState.cache_setCache]; exact hc'⟩
  | sse =>
    obtain ⟨r, c', hr, hb, rfl⟩ := planStep_sse_ok h
    obtain ⟨e, hc'⟩ := buildFft_canon planSse ty r _ (planSse_hered hr) hc t c' hb
    subst e
    exact ⟨hr, by rw [PlannerState.cache_setCache]; exact hc'⟩
  | avx avx2 => cases hk

theorem planHistory_canon (kind : PlannerKind) (hk : kind.usesRecipes = true) (ty : ElemTy) :
    ∀ (reqs : List (Nat × Bool)) (s : PlannerState) (ts : List Recipe) (s' : PlannerState),
      (∀ b, CanonCache kind.design (s.cache b)) → planHistory kind ty reqs s = .ok (ts, s') →
      List.Forall₂ (fun (t : Recipe) (rq : Nat × Bool) => kind.design rq.1 = .ok t) ts reqs ∧
        (∀ b, CanonCache kind.design (s'.cache b)) := by
  intro reqs
  induction reqs with
  | nil =>
    intro s ts s' hs h
    simp only [planHistory] at h
    cases h
    exact ⟨.nil, hs⟩
  | cons rq rest ih =>
    intro s ts s' hs h
    obtain ⟨len, inv⟩ := rq
    simp only [planHistory] at h
    split at h
    · cases h
    · rename_i inst s1 hstep
      split at h
      · cases h
      · rename_i insts s2 hrest
        cases h
        obtain ⟨h1, h2⟩ := planStep_canon kind hk ty s s1 len inv inst (hs inv) hstep
        have hs1 : ∀ b, CanonCache kind.design (s1.cache b) := by
          intro b
          by_cases hb : b = inv
          · subst hb; exact h2
          · have hb' : b = !inv := by cases b <;> cases inv <;> simp_all
            rw [hb', planStep_other kind ty s s1 len inv inst hstep]; exact hs _
        obtain ⟨h4, h5⟩ := ih s1 insts s' hs1 hrest
        exact ⟨.cons h1 h4, h5⟩

theorem canonState_empty (P : Nat → Except String Recipe) : ∀ b, CanonCache P (PlannerState.empty.cache b) := by
  intro b; cases b <;> exact canonCache_nil P

end RFV
