/-
Whole-tree version of the Exec theorems: at EVERY node of a tree, the node's algorithm and its children's advertised
specs satisfy the `Shape` that `exec_scratch_suffices`, `exec_calls_in_bounds`, … need.

* `Recipe.NodesFit ty t`   : at every node of `t`, `Shape (algorithm of the node) len (children's specs)`.
* `Recipe.SimdFits ty t`   : the two facts the constructors of the crate-private SIMD algorithms do NOT assert and the
                             planners have to guarantee: the inner transform of every `RadersAvx2` node needs at most
                             `inner.len` in-place scratch; the base of every `SseRadix4` node needs none.
* `nodesFit_of_spec`       : a tree that constructs (no constructor assert fires) and satisfies `SimdFits` has
                             `NodesFit`.  Trees over the public constructors have no SIMD node, so for them
                             constructing is enough (`nodesFit_of_spec_portable`).
-/
import RFV.Proofs.CacheLemmas
import RFV.Proofs.ExecLemmas

namespace RFV

def fit1 (ty : ElemTy) (a : Algo) (len : Nat) (i : Recipe) : Prop :=
  ∃ s, i.spec ty = .ok s ∧ Shape a len s s

def fit2 (ty : ElemTy) (a : Algo) (len : Nat) (l r : Recipe) : Prop :=
  ∃ w h, l.spec ty = .ok w ∧ r.spec ty = .ok h ∧ Shape a len w h

/-- at every node: the node's algorithm, its length and its children's specs satisfy `Shape`
(Good–Thomas: children in the constructor's post-swap order, as in `calls`) -/
def Recipe.NodesFit (ty : ElemTy) : Recipe → Prop
  | .dft _ => True
  | .bfly _ => True
  | .primeBfly _ => True
  | .avxBfly _ => True
  | .mixedRadix l r => fit2 ty .mixedRadix (l.len * r.len) l r ∧ l.NodesFit ty ∧ r.NodesFit ty
  | .mixedRadixSmall l r => fit2 ty .mixedRadixSmall (l.len * r.len) l r ∧ l.NodesFit ty ∧ r.NodesFit ty
  | .goodThomas l r =>
    (if l.len > r.len then fit2 ty .goodThomas (l.len * r.len) r l else fit2 ty .goodThomas (l.len * r.len) l r) ∧
      l.NodesFit ty ∧ r.NodesFit ty
  | .goodThomasSmall l r => fit2 ty .goodThomasSmall (l.len * r.len) l r ∧ l.NodesFit ty ∧ r.NodesFit ty
  | .raders i => fit1 ty .raders (i.len + 1) i ∧ i.NodesFit ty
  | .bluesteins n i => fit1 ty (.bluesteins n) n i ∧ i.NodesFit ty
  | .radixN fs b => fit1 ty .radixN (b.len * fs.foldl (· * ·) 1) b ∧ b.NodesFit ty
  | .radix4 k b => fit1 ty .radix4 (b.len * 2 ^ (2 * k)) b ∧ b.NodesFit ty
  | .radix3 k b => fit1 ty .radix3 (b.len * 3 ^ k) b ∧ b.NodesFit ty
  | .sseRadix4 k b => fit1 ty .sseRadix4 (b.len * 2 ^ (2 * k)) b ∧ b.NodesFit ty
  | .avxMixedRadix r i => fit1 ty .avxMixedRadix (r * i.len) i ∧ i.NodesFit ty
  | .avxRaders i => fit1 ty .avxRaders (i.len + 1) i ∧ i.NodesFit ty
  | .avxBluesteins n i => fit1 ty (.avxBluesteins n) n i ∧ i.NodesFit ty

/-- what the SIMD constructors leave to the planner -/
def Recipe.SimdFits (ty : ElemTy) : Recipe → Prop
  | .dft _ => True
  | .bfly _ => True
  | .primeBfly _ => True
  | .avxBfly _ => True
  | .mixedRadix l r => l.SimdFits ty ∧ r.SimdFits ty
  | .mixedRadixSmall l r => l.SimdFits ty ∧ r.SimdFits ty
  | .goodThomas l r => l.SimdFits ty ∧ r.SimdFits ty
  | .goodThomasSmall l r => l.SimdFits ty ∧ r.SimdFits ty
  | .raders i => i.SimdFits ty
  | .bluesteins _ i => i.SimdFits ty
  | .radixN _ b => b.SimdFits ty
  | .radix4 _ b => b.SimdFits ty
  | .radix3 _ b => b.SimdFits ty
  | .sseRadix4 _ b => (∀ s, b.spec ty = .ok s → s.inplace = 0) ∧ b.SimdFits ty
  | .avxMixedRadix _ i => i.SimdFits ty
  | .avxRaders i => (∀ s, i.spec ty = .ok s → s.inplace ≤ s.len) ∧ i.SimdFits ty
  | .avxBluesteins _ i => i.SimdFits ty

/-- no crate-private SIMD node: what the public constructors can build -/
def Recipe.Portable : Recipe → Prop
  | .dft _ => True
  | .bfly _ => True
  | .primeBfly _ => True
  | .avxBfly _ => True
  | .mixedRadix l r => l.Portable ∧ r.Portable
  | .mixedRadixSmall l r => l.Portable ∧ r.Portable
  | .goodThomas l r => l.Portable ∧ r.Portable
  | .goodThomasSmall l r => l.Portable ∧ r.Portable
  | .raders i => i.Portable
  | .bluesteins _ i => i.Portable
  | .radixN _ b => b.Portable
  | .radix4 _ b => b.Portable
  | .radix3 _ b => b.Portable
  | .sseRadix4 _ _ => False
  | .avxMixedRadix _ i => i.Portable
  | .avxRaders _ => False
  | .avxBluesteins _ i => i.Portable

theorem simdFits_of_portable (ty : ElemTy) (t : Recipe) (h : t.Portable) : t.SimdFits ty := by
  induction t with
  | dft | bfly | primeBfly | avxBfly => trivial
  | mixedRadix l r ihl ihr | mixedRadixSmall l r ihl ihr | goodThomas l r ihl ihr | goodThomasSmall l r ihl ihr =>
    exact ⟨ihl h.1, ihr h.2⟩
  | raders i ih | bluesteins n i ih | radixN fs i ih | radix4 k i ih | radix3 k i ih | avxMixedRadix k i ih
    | avxBluesteins n i ih => exact ih h
  | sseRadix4 k b ih => exact absurd h (by simp [Recipe.Portable])
  | avxRaders i ih => exact absurd h (by simp [Recipe.Portable])

theorem nodesFit_of_spec (ty : ElemTy) (t : Recipe) : ∀ (s : Spec), t.spec ty = .ok s → 0 < s.len →
    t.SimdFits ty → t.NodesFit ty := by
  induction t with
  | dft n => intros; trivial
  | bfly n => intros; trivial
  | primeBfly n => intros; trivial
  | avxBfly n => intros; trivial
  | mixedRadix l r ihl ihr =>
    intro s h hpos hs
    simp only [Recipe.spec] at h
    obtain ⟨w, hh, hl, hr, h⟩ := spec_two_children h
    simp only [Except.ok.injEq] at h
    subst h
    simp only at hpos
    obtain ⟨hw, hh'⟩ := pos_of_mul_pos' hpos
    have el := spec_len_eq ty l w hl
    have er := spec_len_eq ty r hh hr
    exact ⟨⟨w, hh, hl, hr, by simp only [Shape, el, er]⟩, ihl w hl hw hs.1, ihr hh hr hh' hs.2⟩
  | mixedRadixSmall l r ihl ihr =>
    intro s h hpos hs
    simp only [Recipe.spec] at h
    obtain ⟨w, hh, hl, hr, h⟩ := spec_two_children h
    split at h
    · simp at h
    · rename_i hsa
      simp only [Except.ok.injEq] at h
      subst h
      simp only at hpos
      obtain ⟨hw, hh'⟩ := pos_of_mul_pos' hpos
      have el := spec_len_eq ty l w hl
      have er := spec_len_eq ty r hh hr
      have hsa' := (smallAsserts_ok_iff _ w hh).mp (by cases hx : smallAsserts "MixedRadixSmall" w hh <;> simp_all)
      exact ⟨⟨w, hh, hl, hr, by simp only [Shape, ← el, ← er]; exact ⟨trivial, hpos, hsa'⟩⟩,
        ihl w hl hw hs.1, ihr hh hr hh' hs.2⟩
  | goodThomas l r ihl ihr =>
    intro s h hpos hs
    simp only [Recipe.spec] at h
    obtain ⟨a, b, hl, hr, h⟩ := spec_two_children h
    have el := spec_len_eq ty l a hl
    have er := spec_len_eq ty r b hr
    by_cases hg : Nat.gcd a.len b.len = 1
    · have hlen : s.len = a.len * b.len := by
        by_cases hsw : a.len > b.len
        · simp [hg, hsw] at h; rw [← h]; exact Nat.mul_comm _ _
        · simp [hg, hsw] at h; rw [← h]
      rw [hlen] at hpos
      obtain ⟨hw, hh'⟩ := pos_of_mul_pos' hpos
      refine ⟨?_, ihl a hl hw hs.1, ihr b hr hh' hs.2⟩
      split
      · exact ⟨b, a, hr, hl, by simp only [Shape, el, er, Nat.mul_comm]⟩
      · exact ⟨a, b, hl, hr, by simp only [Shape, el, er]⟩
    · simp [hg] at h
  | goodThomasSmall l r ihl ihr =>
    intro s h hpos hs
    simp only [Recipe.spec] at h
    obtain ⟨w, hh, hl, hr, h⟩ := spec_two_children h
    split at h
    · simp at h
    · rename_i hsa
      by_cases hg : Nat.gcd w.len hh.len = 1
      · simp only [hg, ne_eq, not_true_eq_false, if_false, Except.ok.injEq] at h
        subst h
        simp only at hpos
        obtain ⟨hw, hh'⟩ := pos_of_mul_pos' hpos
        have el := spec_len_eq ty l w hl
        have er := spec_len_eq ty r hh hr
        have hsa' := (smallAsserts_ok_iff _ w hh).mp
          (by cases hx : smallAsserts "GoodThomasAlgorithmSmall" w hh <;> simp_all)
        exact ⟨⟨w, hh, hl, hr, by simp only [Shape, ← el, ← er]; exact ⟨trivial, hpos, hsa'⟩⟩,
          ihl w hl hw hs.1, ihr hh hr hh' hs.2⟩
      · simp [hg] at h
  | raders i ih =>
    intro s h hpos hs
    simp only [Recipe.spec] at h
    obtain ⟨inner, hi, h⟩ := spec_one_child h
    split at h
    · simp at h
    · rename_i hra
      have hp := radersAsserts_prime hra
      have h2 := hp.two_le
      have ei := spec_len_eq ty i inner hi
      exact ⟨⟨inner, hi, by simp only [Shape, ei]⟩, ih inner hi (by omega) hs⟩
  | avxRaders i ih =>
    intro s h hpos hs
    simp only [Recipe.spec] at h
    obtain ⟨inner, hi, h⟩ := spec_one_child h
    split at h
    · simp at h
    · rename_i hra
      have hp := radersAsserts_prime hra
      have h2 := hp.two_le
      have ei := spec_len_eq ty i inner hi
      exact ⟨⟨inner, hi, ⟨by rw [ei], hs.1 inner hi⟩⟩, ih inner hi (by omega) hs.2⟩
  | bluesteins n i ih =>
    intro s h hpos hs
    simp only [Recipe.spec] at h
    obtain ⟨inner, hi, h⟩ := spec_one_child h
    by_cases hn : n = 0
    · simp [hn] at h
    · by_cases hm : n * 2 - 1 ≤ inner.len
      · exact ⟨⟨inner, hi, ⟨rfl, by omega, by omega⟩⟩, ih inner hi (by omega) hs⟩
      · simp [hn, hm] at h
  | avxBluesteins n i ih =>
    intro s h hpos hs
    simp only [Recipe.spec] at h
    obtain ⟨inner, hi, h⟩ := spec_one_child h
    by_cases hn : n = 0
    · simp [hn] at h
    · by_cases hm : n * 2 - 1 ≤ inner.len
      · exact ⟨⟨inner, hi, ⟨rfl, by omega, by omega⟩⟩, ih inner hi (by omega) hs⟩
      · simp [hn, hm] at h
  | radixN fs b ih =>
    intro s h hpos hs
    simp only [Recipe.spec] at h
    obtain ⟨base, hb, h⟩ := spec_one_child h
    simp only [Except.ok.injEq] at h
    subst h
    simp only at hpos
    have eb := spec_len_eq ty b base hb
    have hbp := (pos_of_mul_pos' hpos).1
    exact ⟨⟨base, hb, by simp only [Shape, ← eb]; exact ⟨Dvd.intro _ rfl, hbp⟩⟩, ih base hb hbp hs⟩
  | radix4 k b ih =>
    intro s h hpos hs
    simp only [Recipe.spec] at h
    obtain ⟨base, hb, h⟩ := spec_one_child h
    simp only [Except.ok.injEq] at h
    subst h
    simp only at hpos
    have eb := spec_len_eq ty b base hb
    have hbp := (pos_of_mul_pos' hpos).1
    exact ⟨⟨base, hb, by simp only [Shape, ← eb]; exact ⟨Dvd.intro _ rfl, hbp⟩⟩, ih base hb hbp hs⟩
  | radix3 k b ih =>
    intro s h hpos hs
    simp only [Recipe.spec] at h
    obtain ⟨base, hb, h⟩ := spec_one_child h
    simp only [Except.ok.injEq] at h
    subst h
    simp only at hpos
    have eb := spec_len_eq ty b base hb
    have hbp := (pos_of_mul_pos' hpos).1
    exact ⟨⟨base, hb, by simp only [Shape, ← eb]; exact ⟨Dvd.intro _ rfl, hbp⟩⟩, ih base hb hbp hs⟩
  | sseRadix4 k b ih =>
    intro s h hpos hs
    simp only [Recipe.spec] at h
    obtain ⟨base, hb, h⟩ := spec_one_child h
    split at h
    · simp at h
    · simp only [Except.ok.injEq] at h
      subst h
      simp only at hpos
      have eb := spec_len_eq ty b base hb
      have hbp := (pos_of_mul_pos' hpos).1
      exact ⟨⟨base, hb, by simp only [Shape, ← eb]; exact ⟨Dvd.intro _ rfl, hbp, hs.1 base hb⟩⟩,
        ih base hb hbp hs.2⟩
  | avxMixedRadix radix i ih =>
    intro s h hpos hs
    simp only [Recipe.spec] at h
    obtain ⟨inner, hi, h⟩ := spec_one_child h
    simp only [Except.ok.injEq] at h
    subst h
    simp only at hpos
    have ei := spec_len_eq ty i inner hi
    have hip := (pos_of_mul_pos' hpos).1
    exact ⟨⟨inner, hi, by simp only [Shape, ← ei]; exact ⟨Dvd.intro_left _ rfl, hip⟩⟩, ih inner hi hip hs⟩

/-- trees over the public constructors (no crate-private SIMD node): constructing is enough -/
theorem nodesFit_of_spec_portable (ty : ElemTy) (t : Recipe) (s : Spec) (h : t.spec ty = .ok s) (hpos : 0 < s.len)
    (hp : t.Portable) : t.NodesFit ty :=
  nodesFit_of_spec ty t s h hpos (simdFits_of_portable ty t hp)

end RFV
