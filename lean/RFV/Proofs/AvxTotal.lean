/-
Helper lemmas for the totality of the AVX planner model (`RFV/Model/Avx.lean`, `FftPlannerAvx`):
`PartialFactors`, `plan_power12_power6`, `plan_mixed_radix`, `replan_with_cache`, `plan_bluesteins`,
the base tables, `plan_fft`, and `construct_plan` over the instance cache.
-/
import RFV.Proofs.PlanScalar
import RFV.Proofs.AvxPlan
import RFV.Props.C04

namespace RFV

/-! ### `PartialFactors::compute`, `divide_by` -/

theorem ndvd_mul {p a b : Nat} (hp : p.Prime) (ha : ¬ p ∣ a) (hb : ¬ p ∣ b) : ¬ p ∣ a * b := by
  intro h; rcases (Nat.Prime.dvd_mul hp).1 h with h | h
  · exact ha h
  · exact hb h

theorem ndvd_pow {p q : Nat} (hp : p.Prime) (hq : ¬ p ∣ q) (k : Nat) : ¬ p ∣ q ^ k :=
  fun h => hq (hp.dvd_of_dvd_pow h)

theorem prime_seven : Nat.Prime 7 := by decide
theorem prime_eleven : Nat.Prime 11 := by decide

/-- `compute` on a number given with its 2,3,5,7,11-exponents and a cofactor coprime to those -/
theorem pf_compute_exps (o a2 a3 a5 a7 a11 : Nat) (ho : 0 < o)
    (h2 : ¬ 2 ∣ o) (h3 : ¬ 3 ∣ o) (h5 : ¬ 5 ∣ o) (h7 : ¬ 7 ∣ o) (h11 : ¬ 11 ∣ o) :
    PartialFactors.compute (o * 3 ^ a3 * 5 ^ a5 * 7 ^ a7 * 11 ^ a11 * 2 ^ a2) = ⟨a2, a3, a5, a7, a11, o⟩ := by
  have p2 := Nat.prime_two; have p3 := Nat.prime_three; have p5 := Nat.prime_five
  have p7 := prime_seven; have p11 := prime_eleven
  have pos : ∀ (b k : Nat), 0 < b → 0 < b ^ k := fun b k hb => Nat.pow_pos hb
  have s2 : strip 2 (o * 3 ^ a3 * 5 ^ a5 * 7 ^ a7 * 11 ^ a11 * 2 ^ a2) = (o * 3 ^ a3 * 5 ^ a5 * 7 ^ a7 * 11 ^ a11, a2) :=
    strip_eq 2 (by omega) _ _ (by positivity)
      (ndvd_mul p2 (ndvd_mul p2 (ndvd_mul p2 (ndvd_mul p2 h2 (ndvd_pow p2 (by omega) _)) (ndvd_pow p2 (by omega) _))
        (ndvd_pow p2 (by omega) _)) (ndvd_pow p2 (by omega) _))
  have e3 : o * 3 ^ a3 * 5 ^ a5 * 7 ^ a7 * 11 ^ a11 = (o * 5 ^ a5 * 7 ^ a7 * 11 ^ a11) * 3 ^ a3 := by ring
  have s3 : strip 3 (o * 3 ^ a3 * 5 ^ a5 * 7 ^ a7 * 11 ^ a11) = (o * 5 ^ a5 * 7 ^ a7 * 11 ^ a11, a3) := by
    rw [e3]
    exact strip_eq 3 (by omega) _ _ (by positivity)
      (ndvd_mul p3 (ndvd_mul p3 (ndvd_mul p3 h3 (ndvd_pow p3 (by omega) _)) (ndvd_pow p3 (by omega) _))
        (ndvd_pow p3 (by omega) _))
  have e5 : o * 5 ^ a5 * 7 ^ a7 * 11 ^ a11 = (o * 7 ^ a7 * 11 ^ a11) * 5 ^ a5 := by ring
  have s5 : strip 5 (o * 5 ^ a5 * 7 ^ a7 * 11 ^ a11) = (o * 7 ^ a7 * 11 ^ a11, a5) := by
    rw [e5]
    exact strip_eq 5 (by omega) _ _ (by positivity)
      (ndvd_mul p5 (ndvd_mul p5 h5 (ndvd_pow p5 (by omega) _)) (ndvd_pow p5 (by omega) _))
  have e7 : o * 7 ^ a7 * 11 ^ a11 = (o * 11 ^ a11) * 7 ^ a7 := by ring
  have s7 : strip 7 (o * 7 ^ a7 * 11 ^ a11) = (o * 11 ^ a11, a7) := by
    rw [e7]
    exact strip_eq 7 (by omega) _ _ (by positivity) (ndvd_mul p7 h7 (ndvd_pow p7 (by omega) _))
  have s11 : strip 11 (o * 11 ^ a11) = (o, a11) := strip_eq 11 (by omega) _ _ ho h11
  unfold PartialFactors.compute
  rw [s2]; simp only
  rw [s3]; simp only
  rw [s5]; simp only
  rw [s7]; simp only
  rw [s11]

/-- every positive number has such a presentation -/
theorem exists_pf_decomp (n : Nat) (hn : 0 < n) :
    ∃ o a2 a3 a5 a7 a11, 0 < o ∧ ¬ 2 ∣ o ∧ ¬ 3 ∣ o ∧ ¬ 5 ∣ o ∧ ¬ 7 ∣ o ∧ ¬ 11 ∣ o ∧
      n = o * 3 ^ a3 * 5 ^ a5 * 7 ^ a7 * 11 ^ a11 * 2 ^ a2 := by
  obtain ⟨n1, a2, q1, d2, e2⟩ := exists_strip_decomp 2 n (by omega) hn
  obtain ⟨n2, a3, q2, d3, e3⟩ := exists_strip_decomp 3 n1 (by omega) q1
  obtain ⟨n3, a5, q3, d5, e5⟩ := exists_strip_decomp 5 n2 (by omega) q2
  obtain ⟨n4, a7, q4, d7, e7⟩ := exists_strip_decomp 7 n3 (by omega) q3
  obtain ⟨n5, a11, q5, d11, e11⟩ := exists_strip_decomp 11 n4 (by omega) q4
  have d54 : n5 ∣ n4 := ⟨_, e11⟩
  have d43 : n4 ∣ n3 := ⟨_, e7⟩
  have d32 : n3 ∣ n2 := ⟨_, e5⟩
  have d21 : n2 ∣ n1 := ⟨_, e3⟩
  refine ⟨n5, a2, a3, a5, a7, a11, q5,
    fun h => d2 (dvd_trans h (dvd_trans d54 (dvd_trans d43 (dvd_trans d32 d21)))),
    fun h => d3 (dvd_trans h (dvd_trans d54 (dvd_trans d43 d32))),
    fun h => d5 (dvd_trans h (dvd_trans d54 d43)),
    fun h => d7 (dvd_trans h d54), d11, ?_⟩
  rw [e2, e3, e5, e7, e11]; ring

theorem pf_compute_product (n : Nat) (hn : 0 < n) : (PartialFactors.compute n).product = n := by
  obtain ⟨o, a2, a3, a5, a7, a11, ho, h2, h3, h5, h7, h11, rfl⟩ := exists_pf_decomp n hn
  rw [pf_compute_exps o a2 a3 a5 a7 a11 ho h2 h3 h5 h7 h11]
  rfl

theorem divideBy_some (f d : PartialFactors) (hd : d.other ≠ 0)
    (h2 : d.p2 ≤ f.p2) (h3 : d.p3 ≤ f.p3) (h5 : d.p5 ≤ f.p5) (h7 : d.p7 ≤ f.p7) (h11 : d.p11 ≤ f.p11)
    (ho : f.other % d.other = 0) :
    f.divideBy d = some ⟨f.p2 - d.p2, f.p3 - d.p3, f.p5 - d.p5, f.p7 - d.p7, f.p11 - d.p11,
      if f.other = d.other then 1 else f.other / d.other⟩ := by
  unfold PartialFactors.divideBy
  rw [if_neg hd, if_pos ⟨h2, h3, h5, h7, h11, ho⟩]


/-- `p^b ∣ x * p^a` with `p ∤ x` forces `b ≤ a` -/
theorem exp_le_of_dvd {p : Nat} (hp : p.Prime) {b a x : Nat} (hx : ¬ p ∣ x) (h : p ^ b ∣ x * p ^ a) : b ≤ a := by
  have hc : Nat.Coprime (p ^ b) x := Nat.Coprime.pow_left b ((Nat.Prime.coprime_iff_not_dvd hp).2 hx)
  have : p ^ b ∣ p ^ a := Nat.Coprime.dvd_of_dvd_mul_left hc h
  exact (Nat.pow_dvd_pow_iff_le_right hp.one_lt).1 this

/-- cancel a prime power coprime to `k` -/
theorem dvd_cancel_pow {p : Nat} (hp : p.Prime) {k x a : Nat} (hk : ¬ p ∣ k) (h : k ∣ x * p ^ a) : k ∣ x :=
  Nat.Coprime.dvd_of_dvd_mul_right
    (Nat.Coprime.pow_right a (Nat.Coprime.symm ((Nat.Prime.coprime_iff_not_dvd hp).2 hk))) h

/-- exponent-wise comparison of `compute m` and `compute n` when `m ∣ n` -/
theorem pf_compute_le_of_dvd (m n : Nat) (hm : 0 < m) (hn : 0 < n) (hd : m ∣ n) :
    (PartialFactors.compute m).p2 ≤ (PartialFactors.compute n).p2 ∧
    (PartialFactors.compute m).p3 ≤ (PartialFactors.compute n).p3 ∧
    (PartialFactors.compute m).p5 ≤ (PartialFactors.compute n).p5 ∧
    (PartialFactors.compute m).p7 ≤ (PartialFactors.compute n).p7 ∧
    (PartialFactors.compute m).p11 ≤ (PartialFactors.compute n).p11 ∧
    (PartialFactors.compute m).other ∣ (PartialFactors.compute n).other ∧
    0 < (PartialFactors.compute m).other := by
  have p2 := Nat.prime_two; have p3 := Nat.prime_three; have p5 := Nat.prime_five
  have p7 := prime_seven; have p11 := prime_eleven
  obtain ⟨o', b2, b3, b5, b7, b11, ho', g2, g3, g5, g7, g11, rfl⟩ := exists_pf_decomp m hm
  obtain ⟨o, a2, a3, a5, a7, a11, ho, h2, h3, h5, h7, h11, rfl⟩ := exists_pf_decomp n hn
  rw [pf_compute_exps o' b2 b3 b5 b7 b11 ho' g2 g3 g5 g7 g11,
    pf_compute_exps o a2 a3 a5 a7 a11 ho h2 h3 h5 h7 h11]
  simp only
  have n2 : ¬ 2 ∣ 3 := by omega
  have n2' : ¬ 2 ∣ 5 := by omega
  have n2'' : ¬ 2 ∣ 7 := by omega
  have n2''' : ¬ 2 ∣ 11 := by omega
  refine ⟨?_, ?_, ?_, ?_, ?_, ?_, ho'⟩
  · apply exp_le_of_dvd p2 (x := o * 3 ^ a3 * 5 ^ a5 * 7 ^ a7 * 11 ^ a11)
    · exact ndvd_mul p2 (ndvd_mul p2 (ndvd_mul p2 (ndvd_mul p2 h2 (ndvd_pow p2 (by omega) _))
        (ndvd_pow p2 (by omega) _)) (ndvd_pow p2 (by omega) _)) (ndvd_pow p2 (by omega) _)
    · exact dvd_trans (Dvd.intro_left _ rfl) hd
  · apply exp_le_of_dvd p3 (x := o * 5 ^ a5 * 7 ^ a7 * 11 ^ a11 * 2 ^ a2)
    · exact ndvd_mul p3 (ndvd_mul p3 (ndvd_mul p3 (ndvd_mul p3 h3 (ndvd_pow p3 (by omega) _))
        (ndvd_pow p3 (by omega) _)) (ndvd_pow p3 (by omega) _)) (ndvd_pow p3 (by omega) _)
    · refine dvd_trans ⟨o' * 5 ^ b5 * 7 ^ b7 * 11 ^ b11 * 2 ^ b2, by ring⟩ (dvd_trans hd ⟨1, by ring⟩)
  · apply exp_le_of_dvd p5 (x := o * 3 ^ a3 * 7 ^ a7 * 11 ^ a11 * 2 ^ a2)
    · exact ndvd_mul p5 (ndvd_mul p5 (ndvd_mul p5 (ndvd_mul p5 h5 (ndvd_pow p5 (by omega) _))
        (ndvd_pow p5 (by omega) _)) (ndvd_pow p5 (by omega) _)) (ndvd_pow p5 (by omega) _)
    · refine dvd_trans ⟨o' * 3 ^ b3 * 7 ^ b7 * 11 ^ b11 * 2 ^ b2, by ring⟩ (dvd_trans hd ⟨1, by ring⟩)
  · apply exp_le_of_dvd p7 (x := o * 3 ^ a3 * 5 ^ a5 * 11 ^ a11 * 2 ^ a2)
    · exact ndvd_mul p7 (ndvd_mul p7 (ndvd_mul p7 (ndvd_mul p7 h7 (ndvd_pow p7 (by omega) _))
        (ndvd_pow p7 (by omega) _)) (ndvd_pow p7 (by omega) _)) (ndvd_pow p7 (by omega) _)
    · refine dvd_trans ⟨o' * 3 ^ b3 * 5 ^ b5 * 11 ^ b11 * 2 ^ b2, by ring⟩ (dvd_trans hd ⟨1, by ring⟩)
  · apply exp_le_of_dvd p11 (x := o * 3 ^ a3 * 5 ^ a5 * 7 ^ a7 * 2 ^ a2)
    · exact ndvd_mul p11 (ndvd_mul p11 (ndvd_mul p11 (ndvd_mul p11 h11 (ndvd_pow p11 (by omega) _))
        (ndvd_pow p11 (by omega) _)) (ndvd_pow p11 (by omega) _)) (ndvd_pow p11 (by omega) _)
    · refine dvd_trans ⟨o' * 3 ^ b3 * 5 ^ b5 * 7 ^ b7 * 2 ^ b2, by ring⟩ (dvd_trans hd ⟨1, by ring⟩)
  · have h0 : o' ∣ o * 3 ^ a3 * 5 ^ a5 * 7 ^ a7 * 11 ^ a11 * 2 ^ a2 :=
      dvd_trans ⟨3 ^ b3 * 5 ^ b5 * 7 ^ b7 * 11 ^ b11 * 2 ^ b2, by ring⟩ hd
    exact dvd_cancel_pow p3 g3 (dvd_cancel_pow p5 g5 (dvd_cancel_pow p7 g7
      (dvd_cancel_pow p11 g11 (dvd_cancel_pow p2 g2 h0))))

/-- `divide_by` of the factors of a divisor with the same "other" part: always `Some`, with the right product -/
theorem pf_divideBy_of_dvd (m n : Nat) (hm : 0 < m) (hn : 0 < n) (hd : m ∣ n)
    (ho : (PartialFactors.compute m).other = (PartialFactors.compute n).other) :
    ∃ rf, (PartialFactors.compute n).divideBy (PartialFactors.compute m) = some rf ∧ rf.other = 1 ∧
      m * rf.product = n := by
  obtain ⟨l2, l3, l5, l7, l11, _, hpos⟩ := pf_compute_le_of_dvd m n hm hn hd
  refine ⟨_, divideBy_some _ _ (by omega) l2 l3 l5 l7 l11 (by rw [ho]; exact Nat.mod_self _), by simp [ho], ?_⟩
  obtain ⟨o', b2, b3, b5, b7, b11, ho', g2, g3, g5, g7, g11, rfl⟩ := exists_pf_decomp m hm
  obtain ⟨o, a2, a3, a5, a7, a11, ho2, h2, h3, h5, h7, h11, rfl⟩ := exists_pf_decomp n hn
  rw [pf_compute_exps o' b2 b3 b5 b7 b11 ho' g2 g3 g5 g7 g11,
    pf_compute_exps o a2 a3 a5 a7 a11 ho2 h2 h3 h5 h7 h11] at l2 l3 l5 l7 l11 ho ⊢
  simp only at l2 l3 l5 l7 l11 ho ⊢
  subst ho
  simp only [PartialFactors.product, if_true, Nat.one_mul]
  have e : ∀ (p a b : Nat), b ≤ a → p ^ a = p ^ (a - b) * p ^ b := by
    intro p a b hb; rw [← pow_add, Nat.sub_add_cancel hb]
  rw [e 2 a2 b2 l2, e 3 a3 b3 l3, e 5 a5 b5 l5, e 7 a7 b7 l7, e 11 a11 b11 l11]
  ring


/-! ### `plan_power12_power6` -/

def ReqOK (p2 p3 : Nat) (req : List (Option Nat)) : Prop :=
  req.length = 4 ∧ ∀ i t, req[i]? = some (some t) → i + 2 * t ≤ p2 ∧ i + t ≤ p3

/-- the `sixes` table of the loop body (verbatim) -/
def sixesOf (twos threes : Nat) : Option Nat :=
  match twos % 3, threes % 2 with
      | 0, 0 => some 0
      | 1, 1 => some 1
      | 2, 0 => some 2
      | 0, 1 => some 3
      | _, _ => none

theorem power12Loop_cons (p2 p3 k : Nat) (ks : List Nat) (req : List (Option Nat)) :
    power12Loop p2 p3 (k :: ks) req =
      match sixesOf (p2 - k * 2) (p3 - k) with
      | some s => if s ≤ p2 - k * 2 ∧ s ≤ p3 - k then power12Loop p2 p3 ks (req.set s (some k))
                  else power12Loop p2 p3 ks req
      | none => power12Loop p2 p3 ks req := by
  rw [power12Loop]; rfl

theorem power12Loop_ok (p2 p3 : Nat) : ∀ (ks : List Nat) (req : List (Option Nat)),
    (∀ k ∈ ks, 2 * k ≤ p2 ∧ k ≤ p3) → ReqOK p2 p3 req → ReqOK p2 p3 (power12Loop p2 p3 ks req) := by
  intro ks
  induction ks with
  | nil => intro req _ h; exact h
  | cons k ks ih =>
    intro req hk h
    have hk0 := hk k (List.mem_cons_self ..)
    have hks : ∀ k ∈ ks, 2 * k ≤ p2 ∧ k ≤ p3 := fun j hj => hk j (List.mem_cons_of_mem _ hj)
    rw [power12Loop_cons]
    generalize sixesOf (p2 - k * 2) (p3 - k) = sixes
    cases sixes with
    | none => exact ih req hks h
    | some s =>
      simp only
      split
      · rename_i hc
        apply ih _ hks
        refine ⟨by rw [List.length_set]; exact h.1, ?_⟩
        intro i t hi
        rw [List.getElem?_set] at hi
        split at hi
        · rename_i hsi
          split at hi
          · simp only [Option.some.injEq] at hi
            subst hi; subst hsi; omega
          · exact absurd hi (by simp)
        · exact h.2 i t hi
      · exact ih req hks h

theorem avxPower12Power6_spec (rf : PartialFactors) :
    (avxPower12Power6 rf).2 + 2 * (avxPower12Power6 rf).1 ≤ rf.p2 ∧
    (avxPower12Power6 rf).2 + (avxPower12Power6 rf).1 ≤ rf.p3 := by
  unfold avxPower12Power6
  simp only []
  have hreq := power12Loop_ok rf.p2 rf.p3 (List.range (min (rf.p2 / 2) rf.p3 + 1)) [none, none, none, none]
    (by intro k hk; rw [List.mem_range] at hk; omega)
    ⟨rfl, by intro i t hi; rcases i with _ | _ | _ | _ | i <;> simp at hi⟩
  generalize power12Loop rf.p2 rf.p3 (List.range (min (rf.p2 / 2) rf.p3 + 1)) [none, none, none, none] = req at hreq
  obtain ⟨hlen, hget⟩ := hreq
  match req, hlen with
  | [a, b, c, d], _ =>
    have h0 := hget 0; have h1 := hget 1; have h2 := hget 2; have h3 := hget 3
    simp only [List.getElem?_cons_zero, List.getElem?_cons_succ, Option.some.injEq] at h0 h1 h2 h3
    cases a <;> cases b <;> cases c <;> cases d <;>
      simp only [List.zipIdx_cons, List.zipIdx_nil, List.filterMap_cons, List.filterMap_nil, Option.map_none,
        Option.map_some, List.foldl_cons, List.foldl_nil, Nat.zero_add]
    all_goals (try simp only [ge_iff_le, Nat.zero_le, if_true])
    all_goals (try (have q0 := h0 _ rfl))
    all_goals (try (have q1 := h1 _ rfl))
    all_goals (try (have q2 := h2 _ rfl))
    all_goals (try (have q3 := h3 _ rfl))
    all_goals (repeat' split)
    all_goals ((try dsimp only at *); omega)


/-! ### well-formed plans -/

/-- the recorded length is base length × radixes, and every radix is one `construct_plan` can wrap -/
def AvxPlan.WF (p : AvxPlan) : Prop :=
  p.len = p.base.baseLen * p.radixes.prod ∧ ∀ r ∈ p.radixes, r ∈ avxRadixes

theorem AvxPlan.mk'_wf (base : AvxBase) (rs : List Nat) (h : ∀ r ∈ rs, r ∈ avxRadixes) :
    (AvxPlan.mk' base rs).WF := by
  refine ⟨?_, h⟩
  simp only [AvxPlan.mk', foldl_mul_eq_prod, Nat.one_mul]

theorem AvxPlan.pushRadix_wf (p : AvxPlan) (r : Nat) (h : p.WF) (hr : r ∈ avxRadixes) :
    (p.pushRadix r).WF := by
  refine ⟨?_, ?_⟩
  · simp only [AvxPlan.pushRadix, List.prod_append, List.prod_cons, List.prod_nil, Nat.mul_one]
    rw [h.1, Nat.mul_assoc]
  · intro x hx
    simp only [AvxPlan.pushRadix, List.mem_append, List.mem_singleton] at hx
    rcases hx with hx | rfl
    · exact h.2 x hx
    · exact hr

theorem AvxPlan.pushRadixPower_wf (p : AvxPlan) (r k : Nat) (h : p.WF) (hr : r ∈ avxRadixes) :
    (p.pushRadixPower r k).WF := by
  refine ⟨?_, ?_⟩
  · simp only [AvxPlan.pushRadixPower, List.prod_append, prod_replicate']
    rw [h.1, Nat.mul_assoc]
  · intro x hx
    simp only [AvxPlan.pushRadixPower, List.mem_append, List.mem_replicate] at hx
    rcases hx with hx | ⟨_, rfl⟩
    · exact h.2 x hx
    · exact hr

theorem pow_div_mod (b m e : Nat) : b ^ e = (b ^ m) ^ (e / m) * b ^ (e % m) := by
  rw [← pow_mul, ← pow_add, Nat.div_add_mod]

theorem avxPushChain_spec (rf : PartialFactors) (p12 p6 : Nat) (plan : AvxPlan) (h : plan.WF) :
    (avxPushChain rf p12 p6 plan).WF ∧
    (avxPushChain rf p12 p6 plan).len =
      plan.len * (12 ^ p12 * 6 ^ p6 * (3 ^ rf.p3 * 5 ^ rf.p5 * 7 ^ rf.p7 * 11 ^ rf.p11 * 2 ^ rf.p2)) := by
  have w1 := AvxPlan.pushRadixPower_wf plan 12 p12 h (by decide)
  have w2 := AvxPlan.pushRadixPower_wf _ 11 rf.p11 w1 (by decide)
  have w3 := AvxPlan.pushRadixPower_wf _ 9 (rf.p3 / 2) w2 (by decide)
  have w4 := AvxPlan.pushRadixPower_wf _ 8 (rf.p2 / 3) w3 (by decide)
  have w5 := AvxPlan.pushRadixPower_wf _ 7 rf.p7 w4 (by decide)
  have w6 := AvxPlan.pushRadixPower_wf _ 6 p6 w5 (by decide)
  have w7 := AvxPlan.pushRadixPower_wf _ 5 rf.p5 w6 (by decide)
  have e2 := pow_div_mod 2 3 rf.p2
  have e3 := pow_div_mod 3 2 rf.p3
  have e8 : (2 : Nat) ^ 3 = 8 := by norm_num
  have e9 : (3 : Nat) ^ 2 = 9 := by norm_num
  rw [e8] at e2; rw [e9] at e3
  unfold avxPushChain
  simp only []
  refine ⟨?_, ?_⟩
  · split <;> split <;> split <;>
      first
        | exact w7
        | exact AvxPlan.pushRadix_wf _ _ w7 (by decide)
        | exact AvxPlan.pushRadix_wf _ _ (AvxPlan.pushRadix_wf _ _ w7 (by decide)) (by decide)
        | exact AvxPlan.pushRadix_wf _ _ (AvxPlan.pushRadix_wf _ _ (AvxPlan.pushRadix_wf _ _ w7 (by decide)) (by decide)) (by decide)
  · have m3 : rf.p3 % 2 = 0 ∨ rf.p3 % 2 = 1 := by omega
    have m2 : rf.p2 % 3 = 0 ∨ rf.p2 % 3 = 1 ∨ rf.p2 % 3 = 2 := by omega
    rcases m3 with m3 | m3 <;> rcases m2 with m2 | m2 | m2 <;>
      simp only [m2, m3, AvxPlan.pushRadix, AvxPlan.pushRadixPower, if_true, if_false,
        Nat.reduceEqDiff, Nat.zero_ne_one, OfNat.ofNat_ne_one] <;>
      rw [e2, e3, m2, m3] <;> ring

theorem pf_compute_six_twelve (p6 p12 : Nat) :
    PartialFactors.compute (6 ^ p6 * 12 ^ p12) = ⟨p6 + 2 * p12, p6 + p12, 0, 0, 0, 1⟩ := by
  have := pf_compute_exps 1 (p6 + 2 * p12) (p6 + p12) 0 0 0 (by omega) (by omega) (by omega) (by omega)
    (by omega) (by omega)
  rw [← this]; congr 1
  have e6 : (6 : Nat) = 2 * 3 := by norm_num
  have e12 : (12 : Nat) = 2 ^ 2 * 3 := by norm_num
  rw [e6, e12, Nat.mul_pow, Nat.mul_pow, ← pow_mul]
  simp only [pow_zero, Nat.mul_one, Nat.one_mul, pow_add]
  ring

theorem pf_compute_sixteen : PartialFactors.compute 16 = ⟨4, 0, 0, 0, 0, 1⟩ := by
  have := pf_compute_exps 1 4 0 0 0 0 (by omega) (by omega) (by omega) (by omega) (by omega) (by omega)
  simpa using this

theorem small_radix_mem : ∀ x ∈ [2, 3, 4, 5, 6, 7, 8, 9, 12, 16], x ∈ avxRadixes := by decide

/-- `plan_mixed_radix` never hits an `unwrap()`, and multiplies the plan's length by the remaining factors -/
theorem avxPlanMixedRadix_spec (rf : PartialFactors) (plan : AvxPlan) (h : plan.WF) (ho : rf.other = 1) :
    ∃ q, avxPlanMixedRadix rf plan = .ok q ∧ q.WF ∧ q.len = plan.len * rf.product := by
  unfold avxPlanMixedRadix
  split
  · rename_i hc
    exact ⟨_, rfl, AvxPlan.pushRadix_wf _ _ h (small_radix_mem _ (by simpa using hc)), rfl⟩
  · simp only []
    obtain ⟨s2, s3⟩ := avxPower12Power6_spec rf
    generalize avxPower12Power6 rf = p at s2 s3
    obtain ⟨p12, p6⟩ := p
    simp only at s2 s3 ⊢
    rw [pf_compute_six_twelve,
      divideBy_some rf ⟨p6 + 2 * p12, p6 + p12, 0, 0, 0, 1⟩ (by simp) (by simpa using s2) (by simpa using s3)
        (Nat.zero_le _) (Nat.zero_le _) (Nat.zero_le _) (Nat.mod_one _)]
    simp only [ho, if_true, Nat.sub_zero]
    have e2 : 2 ^ rf.p2 = 2 ^ (rf.p2 - (p6 + 2 * p12)) * 2 ^ (p6 + 2 * p12) := by
      rw [← pow_add, Nat.sub_add_cancel s2]
    have e3 : 3 ^ rf.p3 = 3 ^ (rf.p3 - (p6 + p12)) * 3 ^ (p6 + p12) := by
      rw [← pow_add, Nat.sub_add_cancel s3]
    have e6 : (6 : Nat) ^ p6 = 2 ^ p6 * 3 ^ p6 := by rw [← Nat.mul_pow]
    have e12 : (12 : Nat) ^ p12 = 2 ^ (2 * p12) * 3 ^ p12 := by
      rw [pow_mul, ← Nat.mul_pow]; norm_num
    unfold avxStep16
    dsimp only
    by_cases c16 : (rf.p2 - (p6 + 2 * p12)) % 3 = 1 ∧ rf.p2 - (p6 + 2 * p12) > 1
    · rw [if_pos c16, pf_compute_sixteen,
        divideBy_some _ ⟨4, 0, 0, 0, 0, 1⟩ (by simp) (by dsimp only; omega) (Nat.zero_le _)
          (Nat.zero_le _) (Nat.zero_le _) (Nat.zero_le _) (Nat.mod_one _)]
      dsimp only
      obtain ⟨w, hl⟩ := avxPushChain_spec ⟨rf.p2 - (p6 + 2 * p12) - 4, rf.p3 - (p6 + p12) - 0, rf.p5 - 0,
        rf.p7 - 0, rf.p11 - 0, if (1 : Nat) = 1 then 1 else 1 / 1⟩ p12 p6 (plan.pushRadix 16)
        (AvxPlan.pushRadix_wf _ _ h (by decide))
      refine ⟨_, rfl, w, ?_⟩
      rw [hl]
      simp only [AvxPlan.pushRadix, PartialFactors.product, ho, Nat.sub_zero, Nat.one_mul]
      have e4 : 2 ^ (rf.p2 - (p6 + 2 * p12)) = 2 ^ (rf.p2 - (p6 + 2 * p12) - 4) * 16 := by
        have : (16 : Nat) = 2 ^ 4 := by norm_num
        rw [this, ← pow_add, Nat.sub_add_cancel (by omega)]
      rw [e2, e3, e4, e6, e12, pow_add, pow_add]; ring
    · rw [if_neg c16]
      dsimp only
      obtain ⟨w, hl⟩ := avxPushChain_spec ⟨rf.p2 - (p6 + 2 * p12), rf.p3 - (p6 + p12), rf.p5, rf.p7, rf.p11, 1⟩
        p12 p6 plan h
      refine ⟨_, rfl, w, ?_⟩
      rw [hl]
      simp only [PartialFactors.product, ho, Nat.one_mul]
      rw [e2, e3, e6, e12, pow_add, pow_add]; ring


/-! ### `replan_with_cache` -/

theorem avxReplan_walk_spec (cached : Nat → Bool) (clen idx : Nat) :
    ∀ (rs : List Nat) (cur i : Nat) (best : Option (Nat × Nat)),
      avxReplan.walk cached rs cur i best = some (clen, idx) →
      best = some (clen, idx) ∨
        ∃ j, j < rs.length ∧ idx = i + j ∧ clen = cur * (rs.take (j + 1)).prod ∧ cached clen = true := by
  intro rs
  induction rs with
  | nil => intro cur i best h; left; simpa [avxReplan.walk] using h
  | cons r rs ih =>
    intro cur i best h
    rw [avxReplan.walk] at h
    rcases ih _ _ _ h with h' | ⟨j, hj, hidx, hclen, hc⟩
    · split at h'
      · rename_i hc
        simp only [Option.some.injEq, Prod.mk.injEq] at h'
        right
        refine ⟨0, by simp, by omega, ?_, by rw [← h'.1]; exact hc⟩
        simp [h'.1]
      · left; exact h'
    · right
      refine ⟨j + 1, by simp; omega, by omega, ?_, hc⟩
      rw [hclen, List.take_succ_cons, List.prod_cons, Nat.mul_assoc]

theorem avxReplan_spec (cached : Nat → Bool) (plan : AvxPlan) (h : plan.WF) :
    (avxReplan cached plan).WF ∧ (avxReplan cached plan).len = plan.len ∧
      ((avxReplan cached plan).base = plan.base ∨
        ∃ n, (avxReplan cached plan).base = .cache n ∧ cached n = true) := by
  unfold avxReplan
  simp only []
  split
  · rename_i clen idx hw
    rcases avxReplan_walk_spec cached clen idx _ _ _ _ hw with h0 | ⟨j, hj, hidx, hclen, hc⟩
    · exact absurd h0 (by simp)
    · refine ⟨AvxPlan.mk'_wf _ _ (fun r hr => h.2 r (List.mem_of_mem_drop hr)), ?_, Or.inr ⟨clen, rfl, hc⟩⟩
      simp only [AvxPlan.mk', foldl_mul_eq_prod, Nat.one_mul, AvxBase.baseLen]
      rw [h.1, hclen, hidx, Nat.zero_add, Nat.mul_assoc, ← List.prod_append, List.take_append_drop]
  · split
    · rename_i hc
      refine ⟨AvxPlan.mk'_wf _ _ h.2, ?_, Or.inr ⟨_, rfl, hc⟩⟩
      simp only [AvxPlan.mk', foldl_mul_eq_prod, Nat.one_mul, AvxBase.baseLen]
      exact h.1.symm
    · exact ⟨h, rfl, Or.inl rfl⟩


/-! ### `plan_bluesteins` -/

theorem bc_mono (minLen baseline : Nat) : ∀ fuel c f2 f3 acc, ∀ x ∈ acc,
    x ∈ bluesteinCandidates minLen baseline fuel c f2 f3 acc := by
  intro fuel
  induction fuel with
  | zero => intro c f2 f3 acc x hx; simpa [bluesteinCandidates] using hx
  | succ fuel ih =>
    intro c f2 f3 acc x hx
    rw [bluesteinCandidates]
    split
    · simp only
      have hx' : x ∈ (if c ≥ minLen then acc ++ [(c, f2, f3)] else acc) := by
        split
        · exact List.mem_append_left _ hx
        · exact hx
      split
      · exact ih _ _ _ _ x hx'
      · exact ih _ _ _ _ x hx'
    · exact hx

/-- every generated candidate is `2^a·3^b` with `a ≥ 2`, at least `minLen`, below `3·baseline` -/
theorem bc_mem (minLen baseline : Nat) : ∀ fuel c f2 f3 acc, c = 2 ^ f2 * 3 ^ f3 → c < 3 * baseline →
    ∀ x ∈ bluesteinCandidates minLen baseline fuel c f2 f3 acc,
      x ∈ acc ∨ (x.1 = 2 ^ x.2.1 * 3 ^ x.2.2 ∧ 2 ≤ x.2.1 ∧ minLen ≤ x.1 ∧ x.1 < 3 * baseline) := by
  intro fuel
  induction fuel with
  | zero => intro c f2 f3 acc _ _ x hx; left; simpa [bluesteinCandidates] using hx
  | succ fuel ih =>
    intro c f2 f3 acc hc hlt x hx
    rw [bluesteinCandidates] at hx
    split at hx
    · rename_i hf2
      simp only at hx
      have hacc : ∀ y ∈ (if c ≥ minLen then acc ++ [(c, f2, f3)] else acc),
          y ∈ acc ∨ (y.1 = 2 ^ y.2.1 * 3 ^ y.2.2 ∧ 2 ≤ y.2.1 ∧ minLen ≤ y.1 ∧ y.1 < 3 * baseline) := by
        intro y hy
        split at hy
        · rename_i hge
          rcases List.mem_append.1 hy with hy | hy
          · left; exact hy
          · simp only [List.mem_singleton] at hy; subst hy
            right; exact ⟨hc, hf2, hge, hlt⟩
        · left; exact hy
      split at hx
      · have hc2 : c / 2 = 2 ^ (f2 - 1) * 3 ^ f3 := by
          obtain ⟨g, rfl⟩ : ∃ g, f2 = g + 1 := ⟨f2 - 1, by omega⟩
          rw [hc, pow_succ, Nat.add_sub_cancel, Nat.mul_right_comm, Nat.mul_div_cancel _ (by omega)]
        rcases ih _ _ _ _ hc2 (by omega) x hx with h | h
        · exact hacc x h
        · right; exact h
      · rename_i hnb
        have hc3 : c * 3 = 2 ^ f2 * 3 ^ (f3 + 1) := by rw [hc, pow_succ]; ring
        rcases ih _ _ _ _ hc3 (by omega) x hx with h | h
        · exact hacc x h
        · right; exact h
    · left; exact hx

/-- the loop always reaches a candidate `4·3^j ≥ baseline` -/
theorem bc_exists (minLen baseline : Nat) (hmb : minLen ≤ baseline) : ∀ fuel c f2 f3 acc,
    c = 2 ^ f2 * 3 ^ f3 → baseline ≤ 2 * c → 2 ≤ f2 →
    2 * (f2 - 2) + (if c < baseline then 1 else 0) + 1 ≤ fuel →
    ∃ j, (4 * 3 ^ j, 2, j) ∈ bluesteinCandidates minLen baseline fuel c f2 f3 acc := by
  intro fuel
  induction fuel with
  | zero => intro c f2 f3 acc _ _ _ hf; omega
  | succ fuel ih =>
    intro c f2 f3 acc hc hb hf2 hfuel
    rw [bluesteinCandidates, if_pos hf2]
    simp only
    by_cases hge : c ≥ baseline
    · rw [if_pos hge]
      have hnlt : ¬ c < baseline := by omega
      rw [if_neg hnlt] at hfuel
      rw [if_pos (by omega : c ≥ minLen)]
      by_cases h2 : f2 = 2
      · subst h2
        refine ⟨f3, bc_mono _ _ _ _ _ _ _ _ ?_⟩
        rw [hc]; simp
      · have hc2 : c / 2 = 2 ^ (f2 - 1) * 3 ^ f3 := by
          obtain ⟨g, rfl⟩ : ∃ g, f2 = g + 1 := ⟨f2 - 1, by omega⟩
          rw [hc, pow_succ, Nat.add_sub_cancel, Nat.mul_right_comm, Nat.mul_div_cancel _ (by omega)]
        have heven : 2 * (c / 2) = c := by
          obtain ⟨g, rfl⟩ : ∃ g, f2 = g + 1 := ⟨f2 - 1, by omega⟩
          rw [hc2, hc, Nat.add_sub_cancel, pow_succ]; ring
        apply ih _ _ _ _ hc2 (by omega) (by omega)
        split <;> omega
    · rw [if_neg hge]
      have hlt : c < baseline := by omega
      rw [if_pos hlt] at hfuel
      have hc3 : c * 3 = 2 ^ f2 * 3 ^ (f3 + 1) := by rw [hc, pow_succ]; ring
      apply ih _ _ _ _ hc3 (by omega) hf2
      rw [if_neg (by omega)]; omega

theorem mem_insertSorted (x y : Nat × Nat × Nat) (l : List (Nat × Nat × Nat)) :
    x ∈ insertSorted y l ↔ x = y ∨ x ∈ l := by
  induction l with
  | nil => simp [insertSorted]
  | cons z l ih =>
    rw [insertSorted]
    split
    · simp
    · simp only [List.mem_cons, ih]
      constructor
      · rintro (h | h | h)
        · right; left; exact h
        · left; exact h
        · right; right; exact h
      · rintro (h | h | h)
        · right; left; exact h
        · left; exact h
        · right; right; exact h

theorem mem_sortCandidates (x : Nat × Nat × Nat) (l : List (Nat × Nat × Nat)) :
    x ∈ sortCandidates l ↔ x ∈ l := by
  unfold sortCandidates
  induction l with
  | nil => simp
  | cons y l ih => simp only [List.foldr_cons, mem_insertSorted, ih, List.mem_cons]

theorem bluesteinFilter_two (ty : ElemTy) (v j : Nat) : bluesteinFilter ty (v, 2, j) = true := by
  cases ty <;> simp [bluesteinFilter]

theorem avxPlanBluesteins_spec (ty : ElemTy) (len : Nat) (h : 1 < len) :
    ∃ m, avxPlanBluesteins ty len = .ok m ∧ 2 * len - 1 ≤ m ∧ m % 4 = 0 ∧
      (∃ a b, m = 2 ^ a * 3 ^ b ∧ 2 ≤ a) ∧ m ≤ 12 * len := by
  unfold avxPlanBluesteins
  rw [if_neg (by omega)]
  simp only []
  obtain ⟨k, hk, hle, hlt⟩ := nextPowerOfTwo_spec (len * 2 - 1)
  rw [hk, trailingZeros_pow]
  have hk2 : 2 ≤ k := by
    by_contra hc
    have : k = 0 ∨ k = 1 := by omega
    rcases this with rfl | rfl <;> simp at hle <;> omega
  have hlt' : 2 ^ k < 2 * (len * 2 - 1) := by
    rcases hlt with h0 | h0
    · omega
    · exact h0
  have hpos : 0 < 2 ^ k := Nat.pow_pos (by omega)
  obtain ⟨j, hj⟩ := bc_exists (len * 2 - 1) (2 ^ k) hle (4 * k + 8) (2 ^ k) k 0 [] (by simp) (by omega) hk2
    (by rw [if_neg (by omega)]; omega)
  have hall := bc_mem (len * 2 - 1) (2 ^ k) (4 * k + 8) (2 ^ k) k 0 [] (by simp) (by omega)
  generalize bluesteinCandidates (len * 2 - 1) (2 ^ k) (4 * k + 8) (2 ^ k) k 0 [] = cands at hj hall
  cases hf : (sortCandidates cands).find? (bluesteinFilter ty) with
  | none =>
    rw [List.find?_eq_none] at hf
    have := hf _ ((mem_sortCandidates _ _).2 hj)
    rw [bluesteinFilter_two] at this
    exact absurd rfl this
  | some c =>
    simp only
    have hc := (mem_sortCandidates _ _).1 (List.mem_of_find?_eq_some hf)
    rcases hall c hc with h0 | ⟨h1, h2, h3, h4⟩
    · simp at h0
    · refine ⟨_, rfl, by omega, ?_, ⟨_, _, h1, h2⟩, by omega⟩
      rw [h1]
      obtain ⟨g, hg⟩ : ∃ g, c.2.1 = g + 2 := ⟨c.2.1 - 2, by omega⟩
      rw [hg, pow_add]
      have : (2 : Nat) ^ 2 = 4 := by norm_num
      rw [this, Nat.mul_assoc, Nat.mul_comm (2 ^ g), Nat.mul_assoc]
      exact Nat.mul_mod_right _ _


/-! ### the base tables -/

theorem avxHardcoded_spec (ty : ElemTy) (p23 : Nat) (p : AvxPlan) (h : avxHardcoded ty p23 = some p) :
    p.WF ∧ p.len = p23 := by
  cases ty <;>
  · simp only [avxHardcoded] at h
    repeat' split at h
    all_goals first
      | (simp only [Option.some.injEq] at h; subst h; subst_vars; exact ⟨by unfold AvxPlan.WF; decide, by decide⟩)
      | (simp at h)

theorem dvd23 (p2 p3 b2 b3 B : Nat) (hB : B = 2 ^ b2 * 3 ^ b3) (h2 : b2 ≤ p2) (h3 : b3 ≤ p3) :
    B ∣ 3 ^ p3 * 2 ^ p2 := by
  rw [hB, Nat.mul_comm (3 ^ p3)]
  exact Nat.mul_dvd_mul (pow_dvd_pow 2 h2) (pow_dvd_pow 3 h3)

theorem avxHeuristic32_none (len : Nat) (f : PartialFactors) (h : avxHeuristic32 len f = none) :
    f.p2 < 5 ∧ f.p3 < 3 ∧ f.p11 = 0 ∧ f.p7 = 0 ∧ f.p5 = 0 := by
  unfold avxHeuristic32 at h
  repeat' split at h
  all_goals first
    | omega
    | (simp at h)

theorem avxHeuristic64_none (f : PartialFactors) (h : avxHeuristic64 f = none) :
    f.p2 < 4 ∧ f.p3 < 3 ∧ f.p11 = 0 ∧ f.p7 = 0 ∧ f.p5 = 0 := by
  unfold avxHeuristic64 at h
  repeat' split at h
  all_goals first
    | omega
    | (simp at h)

local macro "c23 " a:num b:num : tactic =>
  `(tactic| exact ⟨by decide, Or.inl (dvd23 _ _ $a $b _ (by decide) (by omega) (by omega))⟩)

theorem avxHeuristic32_spec (len : Nat) (f : PartialFactors) (b : Nat) (rs : List Nat)
    (h : avxHeuristic32 len f = some (b, rs))
    (hx : ∀ q, q = 3 ^ f.p3 * 2 ^ f.p2 → ¬ (q > 4 ∧ avxIsButterfly .f32 q = true))
    (hh : avxHardcoded .f32 (3 ^ f.p3 * 2 ^ f.p2) = none) :
    (∀ r ∈ rs, r ∈ avxRadixes) ∧
      (b * rs.prod ∣ 3 ^ f.p3 * 2 ^ f.p2 ∨ (b * rs.prod = 11 ∧ f.p11 > 0) ∨
        (b * rs.prod = 7 ∧ f.p7 > 0) ∨ (b * rs.prod = 5 ∧ f.p5 > 0)) := by
  have ex : ∀ v3 v2, avxIsButterfly .f32 (3 ^ v3 * 2 ^ v2) = true → 3 ^ v3 * 2 ^ v2 > 4 →
      ¬ (f.p3 = v3 ∧ f.p2 = v2) := by
    intro v3 v2 hb hg ⟨h3, h2⟩
    exact hx _ (by rw [h3, h2]) ⟨hg, hb⟩
  have eh : ∀ v3 v2, avxHardcoded .f32 (3 ^ v3 * 2 ^ v2) ≠ none → ¬ (f.p3 = v3 ∧ f.p2 = v2) := by
    intro v3 v2 hb ⟨h3, h2⟩
    rw [h3, h2] at hh; exact hb hh
  have x1 := ex 0 5 (by decide) (by decide)
  have x2 := ex 0 6 (by decide) (by decide)
  have x3 := ex 0 7 (by decide) (by decide)
  have x4 := ex 0 8 (by decide) (by decide)
  have x5 := ex 0 9 (by decide) (by decide)
  have y1 := eh 1 5 (by decide)
  have y2 := eh 1 6 (by decide)
  have y3 := eh 1 9 (by decide)
  unfold avxHeuristic32 at h
  repeat' split at h
  all_goals (try simp only [Option.some.injEq, Prod.mk.injEq] at h)
  all_goals (try simp only [imp_false] at *)
  all_goals first
    | (obtain ⟨rfl, rfl⟩ := h
       first
        | c23 9 0 | c23 8 0 | c23 7 0 | c23 6 0 | c23 4 0 | c23 12 1 | c23 11 1 | c23 7 1 | c23 4 1
        | c23 3 1 | c23 2 1 | c23 6 2 | c23 3 2 | c23 2 2 | c23 1 2 | c23 0 2 | c23 0 3 | c23 1 3
        | exact ⟨by decide, Or.inr (Or.inl ⟨by decide, by assumption⟩)⟩
        | exact ⟨by decide, Or.inr (Or.inr (Or.inl ⟨by decide, by assumption⟩))⟩
        | exact ⟨by decide, Or.inr (Or.inr (Or.inr ⟨by decide, by assumption⟩))⟩)
    | (simp at h)

theorem avxHeuristic64_spec (f : PartialFactors) (b : Nat) (rs : List Nat)
    (h : avxHeuristic64 f = some (b, rs))
    (hx : ∀ q, q = 3 ^ f.p3 * 2 ^ f.p2 → ¬ (q > 4 ∧ avxIsButterfly .f64 q = true))
    (hh : avxHardcoded .f64 (3 ^ f.p3 * 2 ^ f.p2) = none) :
    (∀ r ∈ rs, r ∈ avxRadixes) ∧
      (b * rs.prod ∣ 3 ^ f.p3 * 2 ^ f.p2 ∨ (b * rs.prod = 11 ∧ f.p11 > 0) ∨
        (b * rs.prod = 7 ∧ f.p7 > 0) ∨ (b * rs.prod = 5 ∧ f.p5 > 0)) := by
  have ex : ∀ v3 v2, avxIsButterfly .f64 (3 ^ v3 * 2 ^ v2) = true → 3 ^ v3 * 2 ^ v2 > 4 →
      ¬ (f.p3 = v3 ∧ f.p2 = v2) := by
    intro v3 v2 hb hg ⟨h3, h2⟩
    exact hx _ (by rw [h3, h2]) ⟨hg, hb⟩
  have eh : ∀ v3 v2, avxHardcoded .f64 (3 ^ v3 * 2 ^ v2) ≠ none → ¬ (f.p3 = v3 ∧ f.p2 = v2) := by
    intro v3 v2 hb ⟨h3, h2⟩
    rw [h3, h2] at hh; exact hb hh
  have x1 := ex 0 4 (by decide) (by decide)
  have x2 := ex 0 5 (by decide) (by decide)
  have x3 := ex 0 6 (by decide) (by decide)
  have x4 := ex 0 7 (by decide) (by decide)
  have x5 := ex 0 8 (by decide) (by decide)
  have y1 := eh 1 4 (by decide)
  have y2 := eh 1 5 (by decide)
  have y3 := eh 1 8 (by decide)
  unfold avxHeuristic64 at h
  repeat' split at h
  all_goals (try simp only [Option.some.injEq, Prod.mk.injEq] at h)
  all_goals (try simp only [imp_false] at *)
  all_goals first
    | (obtain ⟨rfl, rfl⟩ := h
       first
        | c23 9 0 | c23 8 0 | c23 7 0 | c23 6 0 | c23 4 0 | c23 12 1 | c23 11 1 | c23 7 1 | c23 4 1
        | c23 3 1 | c23 2 1 | c23 6 2 | c23 3 2 | c23 2 2 | c23 1 2 | c23 0 2 | c23 0 3 | c23 1 3
        | exact ⟨by decide, Or.inr (Or.inl ⟨by decide, by assumption⟩)⟩
        | exact ⟨by decide, Or.inr (Or.inr (Or.inl ⟨by decide, by assumption⟩))⟩
        | exact ⟨by decide, Or.inr (Or.inr (Or.inr ⟨by decide, by assumption⟩))⟩)
    | (simp at h)



/-! ### `plan_mixed_radix_base` -/

/-- which kind of base a plan has, with what the constructor needs to know about it -/
def BaseKind (ty : ElemTy) (P : AvxPlan) : Prop :=
  (∃ b, P.base = .bfly b) ∨
  (∃ n, P.base = .raders n ∧ 1 < n ∧ avxIsButterfly ty (PartialFactors.compute (n - 1)).other = true) ∨
  (∃ n m, P.base = .bluesteins n m ∧ 1 < n ∧ avxPlanBluesteins ty n = .ok m)

theorem pf_compute_coprime (o : Nat) (ho : 0 < o)
    (h2 : ¬ 2 ∣ o) (h3 : ¬ 3 ∣ o) (h5 : ¬ 5 ∣ o) (h7 : ¬ 7 ∣ o) (h11 : ¬ 11 ∣ o) :
    PartialFactors.compute o = ⟨0, 0, 0, 0, 0, o⟩ := by
  have := pf_compute_exps o 0 0 0 0 0 ho h2 h3 h5 h7 h11
  simpa using this

theorem avxBaseOther_spec (ty : ElemTy) (avx2 : Bool) (len o : Nat) (ho : 1 < o) :
    ∃ P, avxBaseOther ty avx2 len o = .ok P ∧ P.WF ∧ P.len = o ∧ BaseKind ty P ∧
      (avxIsButterfly ty o = true → ∃ b, P.base = .bfly b) := by
  unfold avxBaseOther
  have hl : ∀ base : AvxBase, base.baseLen = o → (AvxPlan.mk' base []).len = o := by
    intro base hb; simp [AvxPlan.mk', hb]
  by_cases hb : avxIsButterfly ty o = true
  · rw [if_pos hb]
    exact ⟨_, rfl, AvxPlan.mk'_wf _ _ (by simp), hl _ rfl, Or.inl ⟨_, rfl⟩, fun _ => ⟨_, rfl⟩⟩
  · rw [if_neg hb]
    simp only []
    split
    · rename_i hc
      exact ⟨_, rfl, AvxPlan.mk'_wf _ _ (by simp), hl _ rfl, Or.inr (Or.inl ⟨o, rfl, ho, hc.2.1⟩),
        fun h => absurd h hb⟩
    · obtain ⟨m, hm, _⟩ := avxPlanBluesteins_spec ty o ho
      rw [hm]
      exact ⟨_, rfl, AvxPlan.mk'_wf _ _ (by simp), hl _ rfl, Or.inr (Or.inr ⟨o, m, rfl, ho, hm⟩),
        fun h => absurd h hb⟩

theorem base_none_absurd (ty : ElemTy) (a2 a3 : Nat)
    (hb : match ty with | .f32 => a2 < 5 | _ => a2 < 4) (h3 : a3 < 3)
    (hlen : 10 ≤ 3 ^ a3 * 2 ^ a2) (hnb : avxIsButterfly ty (3 ^ a3 * 2 ^ a2) = false)
    (hh : avxHardcoded ty (3 ^ a3 * 2 ^ a2) = none) : False := by
  have c3 : a3 = 0 ∨ a3 = 1 ∨ a3 = 2 := by omega
  cases ty <;> simp only at hb
  · have c2 : a2 = 0 ∨ a2 = 1 ∨ a2 = 2 ∨ a2 = 3 ∨ a2 = 4 := by omega
    rcases c3 with rfl | rfl | rfl <;> rcases c2 with rfl | rfl | rfl | rfl | rfl <;>
      revert hlen hnb hh <;> decide
  · have c2 : a2 = 0 ∨ a2 = 1 ∨ a2 = 2 ∨ a2 = 3 := by omega
    rcases c3 with rfl | rfl | rfl <;> rcases c2 with rfl | rfl | rfl | rfl <;>
      revert hlen hnb hh <;> decide
  · have c2 : a2 = 0 ∨ a2 = 1 ∨ a2 = 2 ∨ a2 = 3 := by omega
    rcases c3 with rfl | rfl | rfl <;> rcases c2 with rfl | rfl | rfl | rfl <;>
      revert hlen hnb hh <;> decide

theorem avxPlanBase_spec (ty : ElemTy) (avx2 : Bool) (len : Nat) (hlen : 10 ≤ len) :
    ∃ P, avxPlanBase ty avx2 len (PartialFactors.compute len) = .ok P ∧ P.WF ∧ 0 < P.len ∧ P.len ∣ len ∧
      (PartialFactors.compute P.len).other = (PartialFactors.compute len).other ∧ BaseKind ty P ∧
      (((PartialFactors.compute len).other ≤ 1 ∨ avxIsButterfly ty (PartialFactors.compute len).other = true) →
        ∃ b, P.base = .bfly b) := by
  obtain ⟨o, a2, a3, a5, a7, a11, ho, h2, h3, h5, h7, h11, hdec⟩ := exists_pf_decomp len (by omega)
  have hcomp := pf_compute_exps o a2 a3 a5 a7 a11 ho h2 h3 h5 h7 h11
  rw [← hdec] at hcomp
  obtain ⟨f, hf⟩ : ∃ f : PartialFactors, f = ⟨a2, a3, a5, a7, a11, o⟩ := ⟨_, rfl⟩
  rw [hcomp, ← hf]
  have fo : f.other = o := by rw [hf]
  have f2 : f.p2 = a2 := by rw [hf]
  have f3 : f.p3 = a3 := by rw [hf]
  have f5 : f.p5 = a5 := by rw [hf]
  have f7 : f.p7 = a7 := by rw [hf]
  have f11 : f.p11 = a11 := by rw [hf]
  have fp23 : f.productP2P3 = 3 ^ a3 * 2 ^ a2 := by rw [hf]; rfl
  unfold avxPlanBase
  by_cases hgt : f.other > 1
  · rw [if_pos hgt]
    rw [fo] at hgt ⊢
    obtain ⟨P, hP, hwf, hPl, hk, hbf⟩ := avxBaseOther_spec ty avx2 len o hgt
    refine ⟨P, hP, hwf, by omega, ?_, ?_, hk, ?_⟩
    · rw [hPl, hdec]; exact ⟨3 ^ a3 * 5 ^ a5 * 7 ^ a7 * 11 ^ a11 * 2 ^ a2, by ring⟩
    · rw [hPl, pf_compute_coprime o ho h2 h3 h5 h7 h11]
    · rintro (h | h)
      · omega
      · exact hbf h
  · rw [if_neg hgt]
    have ho1 : o = 1 := by omega
    subst ho1
    rw [fo]
    -- every smooth-case base is a butterfly with radixes; one closing argument for all of them
    have fin : ∀ P : AvxPlan, P.WF → 0 < P.len → P.len ∣ len → (∃ b, P.base = .bfly b) →
        ∃ P', (Except.ok P : Except String AvxPlan) = .ok P' ∧ P'.WF ∧ 0 < P'.len ∧ P'.len ∣ len ∧
          (PartialFactors.compute P'.len).other = 1 ∧ BaseKind ty P' ∧
          ((1 ≤ 1 ∨ avxIsButterfly ty 1 = true) → ∃ b, P'.base = .bfly b) := by
      intro P hwf hpos hdvd hb
      obtain ⟨_, _, _, _, _, hod, _⟩ := pf_compute_le_of_dvd P.len len hpos (by omega) hdvd
      rw [hcomp] at hod
      exact ⟨P, rfl, hwf, hpos, hdvd, Nat.dvd_one.1 hod, Or.inl hb, fun _ => hb⟩
    have finB : ∀ b rs, (∀ r ∈ rs, r ∈ avxRadixes) → 0 < b * rs.prod → b * rs.prod ∣ len →
        ∃ P', (Except.ok (AvxPlan.butterfly b rs) : Except String AvxPlan) = .ok P' ∧ P'.WF ∧ 0 < P'.len ∧
          P'.len ∣ len ∧ (PartialFactors.compute P'.len).other = 1 ∧ BaseKind ty P' ∧
          ((1 ≤ 1 ∨ avxIsButterfly ty 1 = true) → ∃ b, P'.base = .bfly b) := by
      intro b rs hrs hpos hdvd
      have hl : (AvxPlan.butterfly b rs).len = b * rs.prod := by
        simp [AvxPlan.butterfly, AvxPlan.mk', foldl_mul_eq_prod, AvxBase.baseLen]
      exact fin _ (AvxPlan.mk'_wf _ _ hrs) (by rw [hl]; exact hpos) (by rw [hl]; exact hdvd) ⟨b, rfl⟩
    have hp23 : 3 ^ a3 * 2 ^ a2 ∣ len := by
      rw [hdec]; exact ⟨5 ^ a5 * 7 ^ a7 * 11 ^ a11, by ring⟩
    have hpos23 : 0 < 3 ^ a3 * 2 ^ a2 := by positivity
    by_cases hbl : avxIsButterfly ty len = true
    · rw [if_pos hbl]
      exact finB len [] (by simp) (by simp; omega) (by simp)
    · rw [if_neg hbl]
      simp only []
      rw [fp23]
      by_cases hb23 : 3 ^ a3 * 2 ^ a2 > 4 ∧ avxIsButterfly ty (3 ^ a3 * 2 ^ a2) = true
      · rw [if_pos hb23]
        exact finB _ [] (by simp) (by simp) (by simpa using hp23)
      · rw [if_neg hb23]
        cases hhc : avxHardcoded ty (3 ^ a3 * 2 ^ a2) with
        | some p =>
          simp only
          obtain ⟨hwf, hpl⟩ := avxHardcoded_spec ty _ p hhc
          obtain ⟨b, hb, _⟩ := avxHardcoded_bfly ty _ p hhc
          exact fin p hwf (by omega) (by rw [hpl]; exact hp23) ⟨b, hb⟩
        | none =>
          simp only
          have hx : ∀ q, q = 3 ^ f.p3 * 2 ^ f.p2 → ¬ (q > 4 ∧ avxIsButterfly ty q = true) := by
            intro q hq; rw [hq, f2, f3]; exact hb23
          have hh : avxHardcoded ty (3 ^ f.p3 * 2 ^ f.p2) = none := by rw [f2, f3]; exact hhc
          have d5 : f.p5 > 0 → 5 ∣ len := fun h => by
            rw [hdec]; exact Dvd.dvd.mul_right (Dvd.dvd.mul_right (Dvd.dvd.mul_right
              (Dvd.dvd.mul_left (dvd_pow_self 5 (by omega)) _) _) _) _
          have d7 : f.p7 > 0 → 7 ∣ len := fun h => by
            rw [hdec]; exact Dvd.dvd.mul_right (Dvd.dvd.mul_right
              (Dvd.dvd.mul_left (dvd_pow_self 7 (by omega)) _) _) _
          have d11 : f.p11 > 0 → 11 ∣ len := fun h => by
            rw [hdec]; exact Dvd.dvd.mul_right
              (Dvd.dvd.mul_left (dvd_pow_self 11 (by omega)) _) _
          have hsome : ∀ (b : Nat) (rs : List Nat), (∀ r ∈ rs, r ∈ avxRadixes) ∧
              (b * rs.prod ∣ 3 ^ f.p3 * 2 ^ f.p2 ∨ (b * rs.prod = 11 ∧ f.p11 > 0) ∨
                (b * rs.prod = 7 ∧ f.p7 > 0) ∨ (b * rs.prod = 5 ∧ f.p5 > 0)) →
              (∀ r ∈ rs, r ∈ avxRadixes) ∧ 0 < b * rs.prod ∧ b * rs.prod ∣ len := by
            intro b rs ⟨hr, hd⟩
            rw [f2, f3] at hd
            rcases hd with hd | ⟨e, hp⟩ | ⟨e, hp⟩ | ⟨e, hp⟩
            · exact ⟨hr, Nat.pos_of_dvd_of_pos hd hpos23, dvd_trans hd hp23⟩
            · exact ⟨hr, by omega, e ▸ d11 hp⟩
            · exact ⟨hr, by omega, e ▸ d7 hp⟩
            · exact ⟨hr, by omega, e ▸ d5 hp⟩
          have hnone : ∀ (hb : match ty with | .f32 => f.p2 < 5 | _ => f.p2 < 4), f.p3 < 3 →
              f.p11 = 0 → f.p7 = 0 → f.p5 = 0 → False := by
            intro hb q3 q11 q7 q5
            rw [f2] at hb; rw [f3] at q3; rw [f11] at q11; rw [f7] at q7; rw [f5] at q5
            subst q11; subst q7; subst q5
            have hl : len = 3 ^ a3 * 2 ^ a2 := by rw [hdec]; ring
            exact base_none_absurd ty a2 a3 hb q3 (hl ▸ hlen) (by rw [← hl]; simpa using hbl) hhc
          cases ty with
          | f32 =>
            simp only
            cases hq : avxHeuristic32 len f with
            | some br =>
              obtain ⟨b, rs⟩ := br
              simp only
              obtain ⟨w1, w2, w3⟩ := hsome b rs (avxHeuristic32_spec len f b rs hq hx hh)
              exact finB b rs w1 w2 w3
            | none =>
              obtain ⟨q2, q3, q11, q7, q5⟩ := avxHeuristic32_none len f hq
              exact absurd (hnone q2 q3 q11 q7 q5) id
          | f64 =>
            simp only
            cases hq : avxHeuristic64 f with
            | some br =>
              obtain ⟨b, rs⟩ := br
              simp only
              obtain ⟨w1, w2, w3⟩ := hsome b rs (avxHeuristic64_spec f b rs hq hx hh)
              exact finB b rs w1 w2 w3
            | none =>
              obtain ⟨q2, q3, q11, q7, q5⟩ := avxHeuristic64_none f hq
              exact absurd (hnone q2 q3 q11 q7 q5) id
          | other =>
            simp only
            cases hq : avxHeuristic64 f with
            | some br =>
              obtain ⟨b, rs⟩ := br
              simp only
              obtain ⟨w1, w2, w3⟩ := hsome b rs (avxHeuristic64_spec f b rs hq hx hh)
              exact finB b rs w1 w2 w3
            | none =>
              obtain ⟨q2, q3, q11, q7, q5⟩ := avxHeuristic64_none f hq
              exact absurd (hnone q2 q3 q11 q7 q5) id

/-! ### a sharper upper bound for `plan_bluesteins`: the candidates are sorted and `find` takes the first -/

theorem insertSorted_sorted (x : Nat × Nat × Nat) (l : List (Nat × Nat × Nat))
    (h : l.Pairwise (fun a b => a.1 ≤ b.1)) : (insertSorted x l).Pairwise (fun a b => a.1 ≤ b.1) := by
  induction l with
  | nil => simp [insertSorted]
  | cons y ys ih =>
    rw [insertSorted]
    rw [List.pairwise_cons] at h
    split
    · rename_i hc
      have hxy : x.1 ≤ y.1 := by omega
      refine List.pairwise_cons.2 ⟨?_, List.pairwise_cons.2 h⟩
      intro z hz
      rcases List.mem_cons.1 hz with rfl | hz
      · exact hxy
      · exact le_trans hxy (h.1 z hz)
    · rename_i hc
      have hyx : y.1 ≤ x.1 := by omega
      refine List.pairwise_cons.2 ⟨?_, ih h.2⟩
      intro z hz
      rcases (mem_insertSorted z x ys).1 hz with rfl | hz
      · exact hyx
      · exact h.1 z hz

theorem sortCandidates_sorted (l : List (Nat × Nat × Nat)) :
    (sortCandidates l).Pairwise (fun a b => a.1 ≤ b.1) := by
  unfold sortCandidates
  induction l with
  | nil => simp
  | cons y l ih => rw [List.foldr_cons]; exact insertSorted_sorted y _ ih

theorem find_sorted_le (p : Nat × Nat × Nat → Bool) (l : List (Nat × Nat × Nat))
    (hs : l.Pairwise (fun a b => a.1 ≤ b.1)) (c w : Nat × Nat × Nat)
    (hf : l.find? p = some c) (hw : w ∈ l) (hpw : p w = true) : c.1 ≤ w.1 := by
  induction l with
  | nil => simp at hw
  | cons y ys ih =>
    rw [List.pairwise_cons] at hs
    rw [List.find?_cons] at hf
    cases hpy : p y with
    | true =>
      rw [hpy] at hf
      simp only [Option.some.injEq] at hf; subst hf
      rcases List.mem_cons.1 hw with rfl | hw
      · exact le_refl _
      · exact hs.1 w hw
    | false =>
      rw [hpy] at hf
      rcases List.mem_cons.1 hw with rfl | hw
      · rw [hpy] at hpw; cases hpw
      · exact ih hs.2 hf hw

theorem bc_step_half (minLen baseline fuel c f2 f3 : Nat) (acc : List (Nat × Nat × Nat))
    (hf : f2 ≥ 2) (hc : c ≥ baseline) :
    bluesteinCandidates minLen baseline (fuel + 1) c f2 f3 acc =
      bluesteinCandidates minLen baseline fuel (c / 2) (f2 - 1) f3
        (if c ≥ minLen then acc ++ [(c, f2, f3)] else acc) := by
  rw [bluesteinCandidates, if_pos hf]; simp only; rw [if_pos hc]

theorem bc_step_triple (minLen baseline fuel c f2 f3 : Nat) (acc : List (Nat × Nat × Nat))
    (hf : f2 ≥ 2) (hc : ¬ c ≥ baseline) :
    bluesteinCandidates minLen baseline (fuel + 1) c f2 f3 acc =
      bluesteinCandidates minLen baseline fuel (c * 3) f2 (f3 + 1)
        (if c ≥ minLen then acc ++ [(c, f2, f3)] else acc) := by
  rw [bluesteinCandidates, if_pos hf]; simp only; rw [if_neg hc]

/-- the first candidate is the baseline itself -/
theorem bc_first (minLen baseline fuel f2 : Nat) (hf : f2 ≥ 2) (hmb : minLen ≤ baseline) :
    (baseline, f2, 0) ∈ bluesteinCandidates minLen baseline (fuel + 1) baseline f2 0 [] := by
  rw [bc_step_half _ _ _ _ _ _ _ hf (le_refl _), if_pos hmb]
  exact bc_mono _ _ _ _ _ _ _ _ (by simp)

/-- after ten steps the loop reaches `81/64 · baseline` with four factors of three -/
theorem bc_81 (minLen t fuel K : Nat) (ht : 0 < t) (hK : 8 ≤ K) (hmb : minLen ≤ 64 * t) :
    (81 * t, K - 6, 4) ∈ bluesteinCandidates minLen (64 * t) (fuel + 11) (64 * t) K 0 [] := by
  rw [bc_step_half _ _ _ _ _ _ _ (by omega) (by omega)]
  rw [show 64 * t / 2 = 32 * t by omega]
  rw [bc_step_triple _ _ _ _ _ _ _ (by omega) (by omega)]
  rw [show 32 * t * 3 = 96 * t by omega]
  rw [bc_step_half _ _ _ _ _ _ _ (by omega) (by omega)]
  rw [show 96 * t / 2 = 48 * t by omega]
  rw [bc_step_triple _ _ _ _ _ _ _ (by omega) (by omega)]
  rw [show 48 * t * 3 = 144 * t by omega]
  rw [bc_step_half _ _ _ _ _ _ _ (by omega) (by omega)]
  rw [show 144 * t / 2 = 72 * t by omega]
  rw [bc_step_half _ _ _ _ _ _ _ (by omega) (by omega)]
  rw [show 72 * t / 2 = 36 * t by omega]
  rw [bc_step_triple _ _ _ _ _ _ _ (by omega) (by omega)]
  rw [show 36 * t * 3 = 108 * t by omega]
  rw [bc_step_half _ _ _ _ _ _ _ (by omega) (by omega)]
  rw [show 108 * t / 2 = 54 * t by omega]
  rw [bc_step_triple _ _ _ _ _ _ _ (by omega) (by omega)]
  rw [show 54 * t * 3 = 162 * t by omega]
  rw [bc_step_half _ _ _ _ _ _ _ (by omega) (by omega)]
  rw [show 162 * t / 2 = 81 * t by omega]
  rw [bc_step_half _ _ _ _ _ _ _ (by omega) (by omega)]
  apply bc_mono
  rw [if_pos (by omega : 81 * t ≥ minLen)]
  apply List.mem_append_right
  have e : K - 1 - 1 - 1 - 1 - 1 - 1 = K - 6 := by omega
  simp [e]

theorem bluesteinFilter_four (ty : ElemTy) (v a : Nat) : bluesteinFilter ty (v, a, 4) = true := by
  cases ty <;> simp [bluesteinFilter]

theorem bluesteinFilter_small (ty : ElemTy) (v a : Nat) (ha : a ≤ 13) : bluesteinFilter ty (v, a, 0) = true := by
  cases ty <;> simp [bluesteinFilter] <;> omega

/-- the chosen inner length is below `81/16 · len` (`≈ 5.07·len`) -/
theorem avxPlanBluesteins_upper (ty : ElemTy) (len m : Nat) (h : 1 < len)
    (hm : avxPlanBluesteins ty len = .ok m) : m * 16 ≤ 81 * len := by
  unfold avxPlanBluesteins at hm
  rw [if_neg (by omega)] at hm
  simp only [] at hm
  obtain ⟨k, hk, hle, hlt⟩ := nextPowerOfTwo_spec (len * 2 - 1)
  rw [hk, trailingZeros_pow] at hm
  have hk2 : 2 ≤ k := by
    by_contra hc
    have : k = 0 ∨ k = 1 := by omega
    rcases this with rfl | rfl <;> simp at hle <;> omega
  have hlt' : 2 ^ k < 2 * (len * 2 - 1) := by
    rcases hlt with h0 | h0
    · omega
    · exact h0
  obtain ⟨F, hF⟩ : ∃ F, 4 * k + 8 = F + 11 := ⟨4 * k + 8 - 11, by omega⟩
  -- a candidate that passes the filter and is at most 81/64 of the baseline
  have hw : ∃ w, w ∈ bluesteinCandidates (len * 2 - 1) (2 ^ k) (4 * k + 8) (2 ^ k) k 0 [] ∧
      bluesteinFilter ty w = true ∧ w.1 * 64 ≤ 81 * 2 ^ k := by
    by_cases h8 : 8 ≤ k
    · obtain ⟨g, rfl⟩ : ∃ g, k = g + 6 := ⟨k - 6, by omega⟩
      have e : 2 ^ (g + 6) = 64 * 2 ^ g := by rw [pow_add]; norm_num; ring
      refine ⟨(81 * 2 ^ g, g + 6 - 6, 4), ?_, bluesteinFilter_four _ _ _, by rw [e]; simp only; omega⟩
      rw [hF, e]
      exact bc_81 _ _ _ _ (Nat.pow_pos (by omega)) h8 (by rw [← e]; exact hle)
    · refine ⟨(2 ^ k, k, 0), ?_, bluesteinFilter_small _ _ _ (by omega), by simp only; omega⟩
      rw [hF]
      exact bc_first _ _ _ _ hk2 hle
  obtain ⟨w, hwm, hwf, hwb⟩ := hw
  generalize bluesteinCandidates (len * 2 - 1) (2 ^ k) (4 * k + 8) (2 ^ k) k 0 [] = cands at hm hwm
  cases hf : (sortCandidates cands).find? (bluesteinFilter ty) with
  | none => rw [hf] at hm; cases hm
  | some c =>
    rw [hf] at hm
    simp only [Except.ok.injEq] at hm
    subst hm
    have := find_sorted_le _ _ (sortCandidates_sorted cands) c w hf ((mem_sortCandidates _ _).2 hwm) hwf
    omega


/-! ### `plan_fft` -/

/-- the base of a finished plan: a cached instance, or one of the three kinds `plan_mixed_radix_base` makes -/
def PlanKind (ty : ElemTy) (cached : Nat → Bool) (p : AvxPlan) : Prop :=
  (∃ n, p.base = .cache n ∧ cached n = true) ∨ BaseKind ty p

theorem BaseKind.of_base_eq {ty : ElemTy} {P Q : AvxPlan} (h : Q.base = P.base) (hk : BaseKind ty P) :
    BaseKind ty Q := by
  unfold BaseKind at hk ⊢; rw [h]; exact hk

theorem avxPlanFft_spec (ty : ElemTy) (avx2 : Bool) (cached : Nat → Bool) (len : Nat) :
    ∃ p, avxPlanFft ty avx2 cached len = .ok p ∧ p.WF ∧ p.len = len ∧ PlanKind ty cached p ∧
      (((PartialFactors.compute len).other ≤ 1 ∨ avxIsButterfly ty (PartialFactors.compute len).other = true) →
        (∃ b, p.base = .bfly b) ∨ ∃ n, p.base = .cache n ∧ cached n = true) := by
  unfold avxPlanFft
  by_cases hc : cached len = true
  · rw [if_pos hc]
    refine ⟨_, rfl, ⟨by simp [AvxPlan.cached, AvxBase.baseLen], by simp [AvxPlan.cached]⟩, rfl,
      Or.inl ⟨len, rfl, hc⟩, fun _ => Or.inr ⟨len, rfl, hc⟩⟩
  rw [if_neg hc]
  by_cases h10 : len < 10
  · rw [if_pos h10]
    refine ⟨_, rfl, AvxPlan.mk'_wf _ _ (by simp), by simp [AvxPlan.butterfly, AvxPlan.mk', AvxBase.baseLen],
      Or.inr (Or.inl ⟨len, rfl⟩), fun _ => Or.inl ⟨len, rfl⟩⟩
  rw [if_neg h10]
  obtain ⟨P, hP, hwf, hpos, hdvd, hoth, hk, hsh⟩ := avxPlanBase_spec ty avx2 len (by omega)
  simp only []
  rw [hP]
  simp only
  have fin : ∀ q : AvxPlan, q.WF → q.len = len → q.base = P.base →
      ∃ p, (Except.ok (avxReplan cached q) : Except String AvxPlan) = .ok p ∧ p.WF ∧ p.len = len ∧
        PlanKind ty cached p ∧
        (((PartialFactors.compute len).other ≤ 1 ∨
            avxIsButterfly ty (PartialFactors.compute len).other = true) →
          (∃ b, p.base = .bfly b) ∨ ∃ n, p.base = .cache n ∧ cached n = true) := by
    intro q hqwf hql hqb
    obtain ⟨rwf, rlen, rbase⟩ := avxReplan_spec cached q hqwf
    refine ⟨_, rfl, rwf, by rw [rlen, hql], ?_, ?_⟩
    · rcases rbase with hb | hb
      · exact Or.inr (BaseKind.of_base_eq (hb.trans hqb) hk)
      · exact Or.inl hb
    · intro hs
      rcases rbase with hb | hb
      · obtain ⟨b, hb'⟩ := hsh hs
        exact Or.inl ⟨b, by rw [hb, hqb, hb']⟩
      · exact Or.inr hb
  by_cases he : P.len = len
  · rw [if_pos he]
    exact fin P hwf he rfl
  · rw [if_neg he]
    obtain ⟨rf, hrf, hro, hprod⟩ := pf_divideBy_of_dvd P.len len hpos (by omega) hdvd hoth
    rw [hrf]
    simp only
    obtain ⟨q, hq, hqwf, hql⟩ := avxPlanMixedRadix_spec rf P hwf hro
    rw [hq]
    exact fin q hqwf (by rw [hql, hprod]) (avxPlanMixedRadix_base _ _ _ hq)

/-! ### `construct_plan` over the instance cache -/

/-- every cache entry is filed under its own length -/
def CacheInv (c : InstCache) : Prop := ∀ e ∈ c, e.2.len = e.1

theorem CacheInv.nil : CacheInv [] := by intro e he; simp at he

theorem CacheInv.insert {c : InstCache} (h : CacheInv c) (r : Recipe) : CacheInv (c.insert r) := by
  intro e he
  simp only [InstCache.insert, List.mem_cons, List.mem_filter] at he
  rcases he with rfl | ⟨he, _⟩
  · rfl
  · exact h e he

theorem CacheInv.get {c : InstCache} (h : CacheInv c) {n : Nat} {r : Recipe} (hg : c.get? n = some r) :
    r.len = n := by
  unfold InstCache.get? at hg
  cases hf : c.find? (fun e => e.1 = n) with
  | none => rw [hf] at hg; simp at hg
  | some e =>
    rw [hf] at hg
    simp only [Option.map_some, Option.some.injEq] at hg
    have hm := List.mem_of_find?_eq_some hf
    have hp := List.find?_some hf
    rw [← hg, h e hm]; simpa using hp

theorem InstCache.get_of_contains {c : InstCache} {n : Nat} (h : c.contains n = true) :
    ∃ r, c.get? n = some r := by
  unfold InstCache.contains at h
  exact Option.isSome_iff_exists.1 h

theorem avxWrapChain_spec : ∀ (rs : List Nat) (fft : Recipe) (c : InstCache),
    (∀ r ∈ rs, r ∈ avxRadixes) → CacheInv c →
    ∃ r' c', avxWrapChain rs fft c = .ok (r', c') ∧ r'.len = fft.len * rs.prod ∧ CacheInv c' := by
  intro rs
  induction rs with
  | nil => intro fft c _ hc; exact ⟨fft, c, rfl, by simp, hc⟩
  | cons x rs ih =>
    intro fft c hrs hc
    rw [avxWrapChain, if_pos (by simpa using hrs x (List.mem_cons_self ..))]
    simp only
    obtain ⟨r', c', h1, h2, h3⟩ := ih (Recipe.avxMixedRadix x fft) (c.insert (Recipe.avxMixedRadix x fft))
      (fun r hr => hrs r (List.mem_cons_of_mem _ hr)) (hc.insert _)
    refine ⟨r', c', h1, ?_, h3⟩
    rw [h2]; simp only [Recipe.len, List.prod_cons]; ring

/-- one level of `plan_and_construct_fft`, given that the recursive calls it makes (if any) succeed -/
theorem avxConstruct_step (ty : ElemTy) (avx2 : Bool) (fuel : Nat) (c : InstCache) (len : Nat)
    (hc : CacheInv c) (p : AvxPlan) (hp : avxPlanFft ty avx2 c.contains len = .ok p) (hwf : p.WF)
    (hlen : p.len = len) (hk : PlanKind ty c.contains p)
    (hR : ∀ n, p.base = .raders n → ∃ r c', avxPlanAndConstruct ty avx2 fuel c (n - 1) = .ok (r, c') ∧
      r.len = n - 1 ∧ CacheInv c')
    (hB : ∀ n m, p.base = .bluesteins n m → ∃ r c', avxPlanAndConstruct ty avx2 fuel c m = .ok (r, c') ∧
      r.len = m ∧ CacheInv c') :
    ∃ r c', avxPlanAndConstruct ty avx2 (fuel + 1) c len = .ok (r, c') ∧ r.len = len ∧ CacheInv c' := by
  rw [avxPlanAndConstruct, hp]
  simp only
  -- whatever the base recipe, wrap it in the radix chain
  have wrap : ∀ (fft : Recipe) (c1 : InstCache), fft.len = p.base.baseLen → CacheInv c1 →
      ∃ r c', avxWrapChain p.radixes fft c1 = .ok (r, c') ∧ r.len = len ∧ CacheInv c' := by
    intro fft c1 hl hc1
    obtain ⟨r', c', h1, h2, h3⟩ := avxWrapChain_spec p.radixes fft c1 hwf.2 hc1
    exact ⟨r', c', h1, by rw [h2, hl, ← hwf.1, hlen], h3⟩
  rcases hk with ⟨n, hb, hcn⟩ | ⟨b, hb⟩ | ⟨n, hb, hn1, _⟩ | ⟨n, m, hb, hn1, _⟩
  · obtain ⟨r, hr⟩ := InstCache.get_of_contains hcn
    rw [hb] at wrap ⊢
    simp only [hr]
    exact wrap r c (hc.get hr) hc
  · obtain ⟨r, hr, hrl⟩ := avxPlanFft_base_constructible ty avx2 c.contains len p b hp hb
    rw [hb] at wrap ⊢
    simp only [hr]
    exact wrap r _ hrl (hc.insert r)
  · obtain ⟨inner, c1, hi, hil, hc1⟩ := hR n hb
    rw [hb] at wrap ⊢
    simp only [hi]
    refine wrap _ _ ?_ (hc1.insert _)
    cases avx2 <;> simp only [Recipe.len, AvxBase.baseLen, hil, if_true, Bool.false_eq_true, if_false] <;> omega
  · obtain ⟨inner, c1, hi, hil, hc1⟩ := hB n m hb
    rw [hb] at wrap ⊢
    simp only [hi]
    exact wrap _ _ rfl (hc1.insert _)

/-- lengths whose plan needs no recursive construction: fuel 1 is enough -/
theorem avxConstruct_shallow (ty : ElemTy) (avx2 : Bool) (fuel : Nat) (c : InstCache) (len : Nat)
    (hc : CacheInv c)
    (hs : (PartialFactors.compute len).other ≤ 1 ∨
      avxIsButterfly ty (PartialFactors.compute len).other = true) :
    ∃ r c', avxPlanAndConstruct ty avx2 (fuel + 1) c len = .ok (r, c') ∧ r.len = len ∧ CacheInv c' := by
  obtain ⟨p, hp, hwf, hlen, hk, hsh⟩ := avxPlanFft_spec ty avx2 c.contains len
  apply avxConstruct_step ty avx2 fuel c len hc p hp hwf hlen hk
  · intro n hb
    rcases hsh hs with ⟨b, hb'⟩ | ⟨k, hb', _⟩ <;> rw [hb'] at hb <;> cases hb
  · intro n m hb
    rcases hsh hs with ⟨b, hb'⟩ | ⟨k, hb', _⟩ <;> rw [hb'] at hb <;> cases hb

theorem pf_compute_other_smooth23 (a b : Nat) : (PartialFactors.compute (2 ^ a * 3 ^ b)).other = 1 := by
  have := pf_compute_exps 1 a b 0 0 0 (by omega) (by omega) (by omega) (by omega) (by omega) (by omega)
  have e : 1 * 3 ^ b * 5 ^ 0 * 7 ^ 0 * 11 ^ 0 * 2 ^ a = 2 ^ a * 3 ^ b := by ring
  rw [e] at this; rw [this]

/-- every length, from every well-formed cache: fuel 2 is enough -/
theorem avxConstruct_any (ty : ElemTy) (avx2 : Bool) (fuel : Nat) (c : InstCache) (len : Nat)
    (hc : CacheInv c) :
    ∃ r c', avxPlanAndConstruct ty avx2 (fuel + 2) c len = .ok (r, c') ∧ r.len = len ∧ CacheInv c' := by
  obtain ⟨p, hp, hwf, hlen, hk, _⟩ := avxPlanFft_spec ty avx2 c.contains len
  apply avxConstruct_step ty avx2 (fuel + 1) c len hc p hp hwf hlen hk
  · intro n hb
    rcases hk with ⟨k, hb', _⟩ | ⟨b, hb'⟩ | ⟨n', hb', _, hbf⟩ | ⟨n', m, hb', _, _⟩ <;> rw [hb'] at hb <;>
      cases hb
    exact avxConstruct_shallow ty avx2 fuel c (n - 1) hc (Or.inr hbf)
  · intro n m hb
    rcases hk with ⟨k, hb', _⟩ | ⟨b, hb'⟩ | ⟨n', hb', _, _⟩ | ⟨n', m', hb', hn1, hm⟩ <;> rw [hb'] at hb <;>
      cases hb
    obtain ⟨m', hm', _, _, ⟨a, b, hab, _⟩, _⟩ := avxPlanBluesteins_spec ty n hn1
    rw [hm] at hm'; cases hm'
    exact avxConstruct_shallow ty avx2 fuel c m hc (Or.inl (by rw [hab, pf_compute_other_smooth23]))


end RFV
