/-
Helper lemmas about the call-shape validation model `RFV.Model.Validate` (core Lean only, no Mathlib).

* `chunkLoop_fst` / `chunkLoop_snd`: closed form of the `while rem >= step` loop.
* closed forms of the four `validateAnd*` functions and of the four `helper*` functions' call lists.
* `expand2x`, `runCalls` and the list lemmas behind C07.
-/
import RFV.Model.Validate

namespace RFV

/-! ### the chunk loop -/

/-- Key lemma, calls: with `step ≥ 1` and enough fuel the loop makes exactly `rem / step` calls of length `step`
at offsets `off, off + step, …`. -/
theorem chunkLoop_fst (step : Nat) (hs : 1 ≤ step) :
    ∀ (fuel rem off : Nat), rem ≤ fuel →
      (chunkLoop step fuel rem off).1 = (List.range (rem / step)).map (fun i => (off + i * step, step)) := by
  intro fuel
  induction fuel with
  | zero =>
    intro rem off h
    have : rem = 0 := by omega
    subst this
    simp [chunkLoop]
  | succ fuel ih =>
    intro rem off h
    unfold chunkLoop
    by_cases hge : rem ≥ step
    · have hdiv : rem / step = (rem - step) / step + 1 := by
        rw [Nat.div_eq_sub_div (by omega) hge]
      simp only [hge, if_true]
      rw [ih (rem - step) (off + step) (by omega), hdiv, List.range_succ_eq_map]
      simp only [List.map_cons, List.map_map, Nat.zero_mul, Nat.add_zero]
      congr 1
      apply List.map_congr_left
      intro i _
      simp only [Function.comp, Nat.succ_eq_add_one, Nat.add_mul, Nat.one_mul]
      congr 1
      omega
    · have hlt : rem < step := by omega
      simp [hge, Nat.div_eq_of_lt hlt]

/-- Key lemma, remainder. -/
theorem chunkLoop_snd (step : Nat) (hs : 1 ≤ step) :
    ∀ (fuel rem off : Nat), rem ≤ fuel → (chunkLoop step fuel rem off).2 = rem % step := by
  intro fuel
  induction fuel with
  | zero =>
    intro rem off h
    have : rem = 0 := by omega
    subst this
    simp [chunkLoop]
  | succ fuel ih =>
    intro rem off h
    unfold chunkLoop
    by_cases hge : rem ≥ step
    · simp only [hge, if_true]
      rw [ih (rem - step) (off + step) (by omega)]
      exact (Nat.mod_eq_sub_mod hge).symm
    · have hlt : rem < step := by omega
      simp [hge, Nat.mod_eq_of_lt hlt]

/-- both halves of the key lemma in one statement -/
theorem chunkLoop_eq (step fuel rem off : Nat) (hs : 1 ≤ step) (hf : rem ≤ fuel) :
    chunkLoop step fuel rem off
      = ((List.range (rem / step)).map (fun i => (off + i * step, step)), rem % step) := by
  apply Prod.ext
  · exact chunkLoop_fst step hs fuel rem off hf
  · exact chunkLoop_snd step hs fuel rem off hf

/-- the full-chunk call list `(0,c) (c,c) … ((m-1)c, c)` -/
def fullCalls (m chunk : Nat) : List (Nat × Nat) := (List.range m).map (fun i => (i * chunk, chunk))

theorem chunkLoop_zero_off (step buf : Nat) (hs : 1 ≤ step) :
    chunkLoop step buf buf 0 = (fullCalls (buf / step) step, buf % step) := by
  rw [chunkLoop_eq step buf buf 0 hs (Nat.le_refl _)]
  simp [fullCalls]

theorem mem_fullCalls {m chunk : Nat} {c : Nat × Nat} :
    c ∈ fullCalls m chunk ↔ ∃ i, i < m ∧ c = (i * chunk, chunk) := by
  simp only [fullCalls, List.mem_map, List.mem_range]
  constructor
  · rintro ⟨i, hi, rfl⟩; exact ⟨i, hi, rfl⟩
  · rintro ⟨i, hi, rfl⟩; exact ⟨i, hi, rfl⟩

/-- every call of `fullCalls (buf / chunk) chunk` lies inside `[0, buf)` -/
theorem fullCalls_inside {buf chunk : Nat} {c : Nat × Nat} (h : c ∈ fullCalls (buf / chunk) chunk) :
    c.2 = chunk ∧ c.1 + c.2 ≤ buf := by
  obtain ⟨i, hi, rfl⟩ := mem_fullCalls.1 h
  refine ⟨rfl, ?_⟩
  have h1 : (i + 1) * chunk ≤ (buf / chunk) * chunk := Nat.mul_le_mul_right _ hi
  have h2 : (buf / chunk) * chunk ≤ buf := Nat.div_mul_le_self _ _
  have h3 : (i + 1) * chunk = i * chunk + chunk := by rw [Nat.add_mul, Nat.one_mul]
  simp only
  omega

/-! ### closed forms of the validators -/

theorem validateAndIter_eq (buf scratch chunk required : Nat) (hc : 1 ≤ chunk) :
    validateAndIter buf scratch chunk required
      = if scratch < required then ([], false)
        else (fullCalls (buf / chunk) chunk, decide (buf % chunk = 0)) := by
  simp only [validateAndIter, chunkLoop_zero_off chunk buf hc]

theorem validateAndZip_eq (b1 b2 scratch chunk required : Nat) (hc : 1 ≤ chunk) :
    validateAndZip b1 b2 scratch chunk required
      = if scratch < required then ([], false)
        else if b1 ≠ b2 then ([], false)
        else (fullCalls (b1 / chunk) chunk, decide (b1 % chunk = 0)) := by
  simp only [validateAndZip, chunkLoop_zero_off chunk b1 hc]

/-- the call list of the 2×-unrolled iteration: `buf / (2·chunk)` double calls, then one single call iff the remainder
is exactly one chunk -/
def unrollCalls (buf chunk : Nat) : List (Nat × Nat) :=
  fullCalls (buf / (chunk * 2)) (chunk * 2)
    ++ (if buf % (chunk * 2) = chunk then [(buf - chunk, chunk)] else [])

theorem validateAndIterUnroll2x_eq (buf chunk : Nat) (hc : 1 ≤ chunk) :
    validateAndIterUnroll2x buf chunk
      = (unrollCalls buf chunk, decide (buf % (chunk * 2) = chunk ∨ buf % (chunk * 2) = 0)) := by
  simp only [validateAndIterUnroll2x, chunkLoop_zero_off (chunk * 2) buf (by omega), unrollCalls]
  by_cases h1 : buf % (chunk * 2) = chunk
  · simp [h1]
  · have h0 : ¬ (0 = chunk) := by omega
    by_cases h2 : buf % (chunk * 2) = 0
    · simp [h2, h0]
    · simp [h1, h2]

/-- remainder modulo `2·chunk` is `0` or `chunk` exactly when `chunk` divides the length -/
theorem mod_two_mul_iff (buf chunk : Nat) (hc : 1 ≤ chunk) :
    (buf % (chunk * 2) = chunk ∨ buf % (chunk * 2) = 0) ↔ buf % chunk = 0 := by
  have hlt : buf % (chunk * 2) < chunk * 2 := Nat.mod_lt _ (by omega)
  have hmm : buf % (chunk * 2) % chunk = buf % chunk := Nat.mod_mul_right_mod buf chunk 2
  constructor
  · rintro (h | h)
    · rw [← hmm, h, Nat.mod_self]
    · rw [← hmm, h, Nat.zero_mod]
  · intro h
    rw [← hmm] at h
    by_cases hr : buf % (chunk * 2) < chunk
    · rw [Nat.mod_eq_of_lt hr] at h
      exact Or.inr h
    · left
      have hge : chunk ≤ buf % (chunk * 2) := by omega
      rw [Nat.mod_eq_sub_mod hge, Nat.mod_eq_of_lt (by omega)] at h
      omega

/-! ### closed forms of the helpers -/

theorem helperInplace_eq (buf scratch chunk required : Nat) (hc : 1 ≤ chunk) :
    helperInplace buf scratch chunk required
      = if scratch < required then ([], fftErrorInplace chunk buf required scratch)
        else if buf % chunk = 0 then (fullCalls (buf / chunk) chunk, .returned)
        else (fullCalls (buf / chunk) chunk, fftErrorInplace chunk buf required scratch) := by
  have hc0 : chunk ≠ 0 := by omega
  simp only [helperInplace, hc0, if_false, validateAndIter_eq buf scratch chunk required hc]
  by_cases h1 : scratch < required
  · simp [h1]
  · by_cases h2 : buf % chunk = 0
    · simp [h1, h2]
    · simp [h1, h2]

theorem helperOop_eq (inp out scratch chunk required : Nat) (hc : 1 ≤ chunk) :
    helperOop inp out scratch chunk required
      = if scratch < required then ([], fftErrorOop chunk inp out required scratch)
        else if inp ≠ out then ([], fftErrorOop chunk inp out required scratch)
        else if inp % chunk = 0 then (fullCalls (inp / chunk) chunk, .returned)
        else (fullCalls (inp / chunk) chunk, fftErrorOop chunk inp out required scratch) := by
  have hc0 : chunk ≠ 0 := by omega
  simp only [helperOop, hc0, if_false, validateAndZip_eq inp out scratch chunk required hc]
  by_cases h1 : scratch < required
  · simp [h1]
  · by_cases h3 : inp = out
    · subst h3
      by_cases h2 : inp % chunk = 0
      · simp [h1, h2]
      · simp [h1, h2]
    · simp [h1, h3]

theorem helperInplaceUnroll2x_eq (buf chunk : Nat) (hc : 1 ≤ chunk) :
    helperInplaceUnroll2x buf chunk
      = if buf % chunk = 0 then (unrollCalls buf chunk, .returned)
        else (unrollCalls buf chunk, fftErrorInplace chunk buf 0 0) := by
  have hc0 : chunk ≠ 0 := by omega
  simp only [helperInplaceUnroll2x, hc0, if_false, validateAndIterUnroll2x_eq buf chunk hc,
    mod_two_mul_iff buf chunk hc]
  by_cases h2 : buf % chunk = 0
  · simp [h2]
  · simp [h2]

theorem helperOopUnroll2x_eq (inp out chunk : Nat) (hc : 1 ≤ chunk) :
    helperOopUnroll2x inp out chunk
      = if inp ≠ out then ([], fftErrorOop chunk inp out 0 0)
        else if inp % chunk = 0 then (unrollCalls inp chunk, .returned)
        else (unrollCalls inp chunk, fftErrorOop chunk inp out 0 0) := by
  have hc0 : chunk ≠ 0 := by omega
  simp only [helperOopUnroll2x, hc0, if_false, validateAndZipUnroll2x,
    validateAndIterUnroll2x_eq inp chunk hc, mod_two_mul_iff inp chunk hc]
  by_cases h3 : inp = out
  · subst h3
    by_cases h2 : inp % chunk = 0
    · simp [h2]
    · simp [h2]
  · simp [h3]

/-! ### the error functions really panic on ill-shaped arguments -/

theorem fftErrorInplace_panics (chunk buf required scratch : Nat)
    (h : buf % chunk ≠ 0 ∨ scratch < required) :
    ∃ k, fftErrorInplace chunk buf required scratch = .panicked k := by
  unfold fftErrorInplace
  by_cases h1 : buf ≥ chunk
  · by_cases h2 : buf % chunk ≠ 0
    · exact ⟨.notMultiple, by simp [h1, h2]⟩
    · have h3 : ¬ (scratch ≥ required) := by
        rcases h with h | h
        · exact absurd h h2
        · omega
      exact ⟨.scratch, by simp [h1, h2, h3]⟩
  · exact ⟨.tooSmall, by simp [h1]⟩

theorem fftErrorOop_panics (chunk inp out required scratch : Nat)
    (h : inp ≠ out ∨ inp % chunk ≠ 0 ∨ scratch < required) :
    ∃ k, fftErrorOop chunk inp out required scratch = .panicked k := by
  unfold fftErrorOop
  by_cases h0 : inp ≠ out
  · exact ⟨.inOutMismatch, by simp [h0]⟩
  · by_cases h1 : inp ≥ chunk
    · by_cases h2 : inp % chunk ≠ 0
      · exact ⟨.notMultiple, by simp [h0, h1, h2]⟩
      · have h3 : ¬ (scratch ≥ required) := by
          rcases h with h | h | h
          · exact absurd h h0
          · exact absurd h h2
          · omega
        exact ⟨.scratch, by simp [h0, h1, h2, h3]⟩
    · exact ⟨.tooSmall, by simp [h0, h1]⟩

/-! ### calls of the unrolled iteration lie inside the buffer -/

theorem unrollCalls_inside {buf chunk : Nat} {c : Nat × Nat} (h : c ∈ unrollCalls buf chunk) :
    (c.2 = 2 * chunk ∨ c.2 = chunk) ∧ c.1 + c.2 ≤ buf := by
  simp only [unrollCalls, List.mem_append] at h
  rcases h with h | h
  · have := fullCalls_inside h
    exact ⟨Or.inl (by omega), this.2⟩
  · by_cases hm : buf % (chunk * 2) = chunk
    · simp only [hm, if_true, List.mem_singleton] at h
      subst h
      have : buf % (chunk * 2) ≤ buf := Nat.mod_le _ _
      refine ⟨Or.inr rfl, ?_⟩
      simp only
      omega
    · simp [hm] at h

/-! ### expanding double calls into two single calls -/

/-- replace every double-length call by the two single-chunk calls it covers -/
def expand2x (chunk : Nat) (calls : List (Nat × Nat)) : List (Nat × Nat) :=
  calls.flatMap (fun c => if c.2 = 2 * chunk then [(c.1, chunk), (c.1 + chunk, chunk)] else [c])

theorem expand2x_append (chunk : Nat) (a b : List (Nat × Nat)) :
    expand2x chunk (a ++ b) = expand2x chunk a ++ expand2x chunk b := by
  simp [expand2x, List.flatMap_append]

theorem expand2x_fullCalls_double (m chunk : Nat) :
    expand2x chunk (fullCalls m (chunk * 2)) = fullCalls (2 * m) chunk := by
  induction m with
  | zero => simp [expand2x, fullCalls]
  | succ m ih =>
    have h2 : 2 * (m + 1) = (2 * m + 1) + 1 := by omega
    have hfc : ∀ j c, fullCalls (j + 1) c = fullCalls j c ++ [(j * c, c)] := by
      intro j c
      simp [fullCalls, List.range_succ]
    rw [hfc m (chunk * 2), expand2x_append, ih, h2, hfc (2 * m + 1) chunk, hfc (2 * m) chunk]
    have : expand2x chunk [(m * (chunk * 2), chunk * 2)]
        = [(2 * m * chunk, chunk), ((2 * m + 1) * chunk, chunk)] := by
      have e1 : chunk * 2 = 2 * chunk := Nat.mul_comm _ _
      have e2 : m * (2 * chunk) = 2 * m * chunk := by
        rw [← Nat.mul_assoc, Nat.mul_comm m 2]
      have e3 : (2 * m + 1) * chunk = 2 * m * chunk + chunk := by rw [Nat.add_mul, Nat.one_mul]
      simp [expand2x, e1, e2, e3]
    rw [this]
    simp

theorem expand2x_single (chunk off : Nat) (hc : 1 ≤ chunk) :
    expand2x chunk [(off, chunk)] = [(off, chunk)] := by
  have : chunk ≠ 2 * chunk := by omega
  simp [expand2x, this]

/-- for a whole number of chunks, expanding the unrolled call list gives the plain call list -/
theorem expand2x_unrollCalls (k chunk : Nat) (hc : 1 ≤ chunk) :
    expand2x chunk (unrollCalls (k * chunk) chunk) = fullCalls k chunk := by
  have hpos : 0 < chunk * 2 := by omega
  have hk : ∃ m, k = 2 * m ∨ k = 2 * m + 1 := ⟨k / 2, by omega⟩
  obtain ⟨m, hm | hm⟩ := hk
  · -- k = 2m
    have hb : k * chunk = m * (chunk * 2) := by
      rw [hm, Nat.mul_comm chunk 2, ← Nat.mul_assoc, Nat.mul_comm m 2]
    have hdiv : k * chunk / (chunk * 2) = m := by rw [hb, Nat.mul_div_cancel _ hpos]
    have hmod : k * chunk % (chunk * 2) = 0 := by rw [hb, Nat.mul_mod_left]
    have hne : ¬ (0 = chunk) := by omega
    simp only [unrollCalls, hdiv, hmod, hne, if_false, List.append_nil]
    rw [expand2x_fullCalls_double, hm]
  · -- k = 2m + 1
    have hb : k * chunk = chunk + m * (chunk * 2) := by
      rw [hm, Nat.add_mul, Nat.one_mul, Nat.mul_comm chunk 2, ← Nat.mul_assoc, Nat.mul_comm m 2]
      omega
    have hdiv : k * chunk / (chunk * 2) = m := by
      rw [hb, Nat.add_mul_div_right _ _ hpos, Nat.div_eq_of_lt (by omega), Nat.zero_add]
    have hmod : k * chunk % (chunk * 2) = chunk := by
      rw [hb, Nat.add_mul_mod_self_right, Nat.mod_eq_of_lt (by omega)]
    simp only [unrollCalls, hdiv, hmod, if_true]
    rw [expand2x_append, expand2x_fullCalls_double, expand2x_single _ _ hc, hm]
    have hfc : fullCalls (2 * m + 1) chunk = fullCalls (2 * m) chunk ++ [(2 * m * chunk, chunk)] := by
      simp [fullCalls, List.range_succ]
    rw [hfc]
    congr 3
    rw [← hm, hm, Nat.add_mul, Nat.one_mul]
    omega

/-! ### data-level semantics of a call list -/

/-- run a list of chunk calls on a data buffer: each call `(o, l)` replaces the slice `[o, o+l)` by `f` of that
slice -/
def runCalls {α : Type _} (f : List α → List α) : List (Nat × Nat) → List α → List α
  | [], d => d
  | (o, l) :: cs, d => runCalls f cs (d.take o ++ f ((d.drop o).take l) ++ d.drop (o + l))

/-- generalisation of `runCalls_chunks` to a buffer with an already-processed prefix `pre` of length `off` -/
theorem runCalls_fullCalls_aux {α : Type _} (f : List α → List α) (hf : ∀ x, (f x).length = x.length)
    (n : Nat) :
    ∀ (chunks : List (List α)), (∀ c ∈ chunks, c.length = n) → ∀ (pre : List α) (off : Nat), pre.length = off →
      runCalls f ((List.range chunks.length).map (fun i => (off + i * n, n))) (pre ++ chunks.flatten)
        = pre ++ (chunks.map f).flatten := by
  intro chunks
  induction chunks with
  | nil => intro _ pre off _; simp [runCalls]
  | cons c cs ih =>
    intro hlen pre off hoff
    have hc : c.length = n := hlen c (by simp)
    have hcs : ∀ x ∈ cs, x.length = n := fun x hx => hlen x (by simp [hx])
    rw [List.length_cons, List.range_succ_eq_map]
    simp only [List.map_cons, List.map_map, Nat.zero_mul, Nat.add_zero, runCalls, List.flatten_cons]
    have e1 : (pre ++ (c ++ cs.flatten)).take off = pre := by
      rw [← hoff]; simp
    have e2 : ((pre ++ (c ++ cs.flatten)).drop off).take n = c := by
      rw [← hoff, ← hc]; simp
    have e3 : (pre ++ (c ++ cs.flatten)).drop (off + n) = cs.flatten := by
      rw [← List.drop_drop, ← hoff, List.drop_left, ← hc, List.drop_left]
    rw [e1, e2, e3]
    have hpre : (pre ++ f c).length = off + n := by
      rw [List.length_append, hf, hoff, hc]
    have := ih hcs (pre ++ f c) (off + n) hpre
    have hcalls : (List.range cs.length).map ((fun i => (off + i * n, n)) ∘ Nat.succ)
        = (List.range cs.length).map (fun i => (off + n + i * n, n)) := by
      apply List.map_congr_left
      intro i _
      simp only [Function.comp, Nat.succ_eq_add_one, Nat.add_mul, Nat.one_mul]
      congr 1
      omega
    rw [hcalls, this]
    simp

/-- the `i`-th length-`n` slice of a flattened list of length-`n` chunks is the `i`-th chunk -/
theorem flatten_slice {α : Type _} (n : Nat) :
    ∀ (L : List (List α)), (∀ c ∈ L, c.length = n) → ∀ (i : Nat) (hi : i < L.length),
      (L.flatten.drop (i * n)).take n = L[i] := by
  intro L
  induction L with
  | nil => intro _ i hi; simp at hi
  | cons c cs ih =>
    intro hlen i hi
    have hc : c.length = n := hlen c (by simp)
    have hcs : ∀ x ∈ cs, x.length = n := fun x hx => hlen x (by simp [hx])
    cases i with
    | zero =>
      simp only [Nat.zero_mul, List.drop_zero, List.flatten_cons, List.getElem_cons_zero]
      rw [← hc]; simp
    | succ i =>
      have hi' : i < cs.length := by simpa using hi
      have e : (i + 1) * n = c.length + i * n := by rw [Nat.add_mul, Nat.one_mul, hc]; omega
      simp only [List.flatten_cons, List.getElem_cons_succ]
      rw [e, ← List.drop_drop, List.drop_left]
      exact ih hcs i hi'

end RFV
