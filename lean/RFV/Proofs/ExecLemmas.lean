/-
Helper definitions and lemmas about the slice-level execution model (`RFV/Model/Exec.lean`): which inner transform
is called on which region with which scratch.  The generated scratch formulas (`RFV/Gen/Scratch.lean`) are only
ever used through the tactic `exec_close` = `simp only [Gen.…]`, `split`, `omega`.
-/
import RFV.Model.Exec
import RFV.Model.Sem
import Mathlib.Tactic.Ring
import Mathlib.Tactic.Linarith

namespace RFV

/-! ### side conditions under which an algorithm instance exists -/

/-- what the constructor of each algorithm guarantees about its length and its inner instances
(`s0` = width / inner / base, `s1` = height).  For the `*Small` variants these are the constructor asserts
(`smallAsserts`), plus `0 < len` (a length-0 instance never runs a chunk). -/
def Shape (a : Algo) (len : Nat) (s0 s1 : Spec) : Prop :=
  match a with
  | .mixedRadix => len = s0.len * s1.len
  | .mixedRadixSmall => len = s0.len * s1.len ∧ 0 < len ∧
      s0.oop = 0 ∧ s1.oop = 0 ∧ s0.inplace ≤ s0.len ∧ s1.inplace ≤ s1.len
  | .goodThomas => len = s0.len * s1.len
  | .goodThomasSmall => len = s0.len * s1.len ∧ 0 < len ∧
      s0.oop = 0 ∧ s1.oop = 0 ∧ s0.inplace ≤ s0.len ∧ s1.inplace ≤ s1.len
  | .raders => len = s0.len + 1
  | .bluesteins n => len = n ∧ 1 ≤ n ∧ 2 * n - 1 ≤ s0.len
  | .radixN | .radix4 | .radix3 => s0.len ∣ len ∧ 0 < s0.len
  | .avxMixedRadix => s0.len ∣ len ∧ 0 < s0.len
  -- `RadersAvx2::perform_fft_immut` hands its first inner call `scratch[1..len]`, i.e. only `len - 1` elements: the
  -- constructor does NOT assert `inner.inplace ≤ inner.len`; the AVX planner guarantees it (`Props/C08Simd`)
  | .avxRaders => len = s0.len + 1 ∧ s0.inplace ≤ s0.len
  | .avxBluesteins n => len = n ∧ 1 ≤ n ∧ 2 * n - 1 ≤ s0.len
  -- `SseRadix4` hands its base an EMPTY scratch; the SSE planner only ever uses butterflies as bases
  | .sseRadix4 => s0.len ∣ len ∧ 0 < s0.len ∧ s0.inplace = 0

/-- the `*Small` part of `Shape` is exactly "the constructor asserts pass" -/
theorem smallAsserts_ok_iff (name : String) (w h : Spec) :
    smallAsserts name w h = .ok () ↔ (w.oop = 0 ∧ h.oop = 0 ∧ w.inplace ≤ w.len ∧ h.inplace ≤ h.len) := by
  unfold smallAsserts
  constructor
  · intro hs
    repeat' split at hs
    all_goals first
      | omega
      | cases hs
  · rintro ⟨h1, h2, h3, h4⟩
    rw [if_neg (by omega), if_neg (by omega), if_neg (by omega), if_neg (by omega)]

theorem small_le {len a b : Nat} (h : len = a * b) (hp : 0 < len) : a ≤ len ∧ b ≤ len := by
  subst h
  have ha : 0 < a := Nat.pos_of_mul_pos_right hp
  have hb : 0 < b := Nat.pos_of_mul_pos_left hp
  exact ⟨Nat.le_mul_of_pos_right a hb, Nat.le_mul_of_pos_left b ha⟩

/-- two regions do not overlap: different buffers, or non-overlapping ranges of the same buffer -/
def Region.Disjoint (r1 r2 : Region) : Prop :=
  r1.buf ≠ r2.buf ∨ r1.off + r1.len ≤ r2.off ∨ r2.off + r2.len ≤ r1.off

/-- unfold the generated scratch formulas, split every `if`, finish with linear arithmetic -/
macro "exec_close" : tactic => `(tactic| (
  (try simp only [Gen.mixedRadix_inplace, Gen.mixedRadix_oop, Gen.mixedRadix_immut, Gen.goodThomas_inplace,
    Gen.goodThomas_oop, Gen.goodThomas_immut, Gen.raders_inplace, Gen.raders_oop, Gen.raders_immut,
    Gen.bluesteins_scratch, Gen.radixN_inplace, Gen.radixN_oop, Gen.radixN_immut, Gen.radix4_inplace,
    Gen.radix4_oop, Gen.radix4_immut, Gen.radix3_inplace, Gen.radix3_oop, Gen.radix3_immut,
    Gen.avxMixedRadix_inplace, Gen.avxMixedRadix_oop, Gen.avxMixedRadix_immut, Gen.avxRaders_inplace,
    Gen.avxRaders_oop, Gen.avxRaders_immut, Gen.avxBluesteins_scratch, Gen.sseRadix4_inplace, Gen.sseRadix4_oop,
    Gen.sseRadix4_immut] at *)
  repeat' split
  all_goals (try dsimp only at *)
  all_goals (try simp only [bufLen] at *)
  all_goals omega))

set_option hygiene false in
/-- enumerate the calls of every (algorithm, entry) pair -/
macro "exec_cases " a:ident e:ident hc:ident : tactic => `(tactic| (
  cases $a:ident <;> cases $e:ident <;>
    simp only [calls, List.mem_cons, List.not_mem_nil, or_false] at $hc:ident
  all_goals (rcases $hc:ident with rfl | rfl)))

/-! ### C08 -/

theorem exec_scratch_suffices (a : Algo) (e : EntryKind) (len : Nat) (s0 s1 : Spec) (h : Shape a len s0 s1) :
    ∀ c ∈ calls a e len s0 s1 (advertised a e len s0 s1), c.need s0 s1 ≤ c.scratch.len := by
  intro c hc
  exec_cases a e hc
  all_goals simp only [Shape] at h
  all_goals simp only [Call.need, advertised, pick, pickNonEmpty, reg, Nat.one_ne_zero, ↓reduceIte]
  all_goals (try (have hsl := small_le h.1 h.2.1))
  all_goals exec_close

theorem exec_calls_data_multiple (a : Algo) (e : EntryKind) (len : Nat) (s0 s1 : Spec) (h : Shape a len s0 s1) :
    ∀ c ∈ calls a e len s0 s1 (advertised a e len s0 s1),
      (if c.which = 0 then s0 else s1).len ∣ c.data.len ∧ (∀ r, c.out = some r → r.len = c.data.len) := by
  intro c hc
  exec_cases a e hc
  all_goals simp only [Shape] at h
  all_goals simp only [advertised, reg, Nat.one_ne_zero, ↓reduceIte]
  all_goals refine ⟨?_, ?_⟩
  all_goals first
    | (intro r hr; first | (cases hr; rfl) | cases hr)
    | exact dvd_refl _
    | exact h.1
    | (rw [h]; first | exact Dvd.intro _ rfl | exact Dvd.intro_left _ rfl)
    | (rw [h.1]; first | exact Dvd.intro _ rfl | exact Dvd.intro_left _ rfl)
    | (have hm : len - 1 = s0.len := by omega
       rw [hm])

theorem exec_calls_data_pos (a : Algo) (e : EntryKind) (len : Nat) (s0 s1 : Spec) (h : Shape a len s0 s1)
    (hl : 0 < len) (h0 : 0 < s0.len) :
    ∀ c ∈ calls a e len s0 s1 (advertised a e len s0 s1), 0 < c.data.len := by
  intro c hc
  exec_cases a e hc
  all_goals simp only [Shape] at h
  all_goals simp only [advertised, reg]
  all_goals omega

/-! ### C03 -/

/-- the `split_at_mut(self.len())` (resp. `inner_fft_len`) calls never panic: the advertised scratch is at least
as long as the split point -/
theorem exec_split_points_valid (len : Nat) (s0 s1 : Spec) :
    len ≤ advertised .mixedRadix .inplace len s0 s1 ∧ len ≤ advertised .mixedRadix .immut len s0 s1 ∧
    len ≤ advertised .goodThomas .inplace len s0 s1 ∧ len ≤ advertised .goodThomas .immut len s0 s1 ∧
    len ≤ advertised .radixN .inplace len s0 s1 ∧ len ≤ advertised .radix4 .inplace len s0 s1 ∧
    len ≤ advertised .radix3 .inplace len s0 s1 ∧
    s0.len ≤ advertised .raders .inplace len s0 s1 ∧ s0.len ≤ advertised .raders .immut len s0 s1 ∧
    (∀ n e, s0.len ≤ advertised (.bluesteins n) e len s0 s1) := by
  refine ⟨?_, ?_, ?_, ?_, ?_, ?_, ?_, ?_, ?_, ?_⟩
  any_goals intro n e
  all_goals simp only [advertised]
  all_goals exec_close

/-- the same for the SIMD algorithms: `split_at_mut(self.len())` of `MixedRadix*xnAvx` (in-place and immutable entries)
and of `RadersAvx2`, `split_at_mut(inner length)` of `BluesteinsAvx` -/
theorem exec_split_points_valid_simd (len : Nat) (s0 s1 : Spec) :
    len ≤ advertised .avxMixedRadix .inplace len s0 s1 ∧ len ≤ advertised .avxMixedRadix .immut len s0 s1 ∧
    (len = s0.len + 1 → len ≤ advertised .avxRaders .inplace len s0 s1 ∧ len ≤ advertised .avxRaders .immut len s0 s1) ∧
    (∀ n e, s0.len ≤ advertised (.avxBluesteins n) e len s0 s1) := by
  refine ⟨?_, ?_, ?_, ?_⟩
  any_goals intro n e
  all_goals simp only [advertised]
  all_goals exec_close

theorem exec_calls_in_bounds (a : Algo) (e : EntryKind) (len : Nat) (s0 s1 : Spec) (h : Shape a len s0 s1) :
    ∀ c ∈ calls a e len s0 s1 (advertised a e len s0 s1),
      c.data.off + c.data.len ≤ bufLen len (advertised a e len s0 s1) c.data.buf ∧
      c.scratch.off + c.scratch.len ≤ bufLen len (advertised a e len s0 s1) c.scratch.buf ∧
      (∀ r, c.out = some r → r.off + r.len ≤ bufLen len (advertised a e len s0 s1) r.buf) := by
  intro c hc
  exec_cases a e hc
  all_goals simp only [Shape] at h
  all_goals simp only [advertised, pick, pickNonEmpty, reg]
  all_goals refine ⟨?_, ?_, ?_⟩
  all_goals first
    | (intro r hr; cases hr <;> exec_close)
    | exec_close

theorem Region.disjoint_pick {d a b : Region} (ha : d.Disjoint a) (hb : d.Disjoint b) :
    d.Disjoint (pick a b) := by
  unfold pick; split <;> assumption

theorem Region.disjoint_pickNonEmpty {d a b : Region} (ha : d.Disjoint a) (hb : d.Disjoint b) :
    d.Disjoint (pickNonEmpty a b) := by
  unfold pickNonEmpty; split <;> assumption

theorem exec_data_scratch_disjoint (a : Algo) (e : EntryKind) (len : Nat) (s0 s1 : Spec) (adv : Nat) (hl : 0 < len) :
    ∀ c ∈ calls a e len s0 s1 adv, c.data.Disjoint c.scratch := by
  intro c hc
  exec_cases a e hc
  all_goals dsimp only
  all_goals first
    | apply Region.disjoint_pick
    | apply Region.disjoint_pickNonEmpty
    | skip
  all_goals simp only [reg, Region.Disjoint]
  all_goals first | (left; decide) | (right; omega)

theorem exec_out_disjoint (a : Algo) (e : EntryKind) (len : Nat) (s0 s1 : Spec) (adv : Nat) (_hl : 0 < len) :
    ∀ c ∈ calls a e len s0 s1 adv, ∀ r, c.out = some r → c.data.Disjoint r ∧ r.Disjoint c.scratch := by
  intro c hc r hr
  exec_cases a e hc
  all_goals simp only [pick, pickNonEmpty, reg, Region.Disjoint] at hr ⊢
  all_goals cases hr
  all_goals refine ⟨?_, ?_⟩
  all_goals (try dsimp only)
  all_goals first | (left; decide) | (right; omega)

theorem exec_calls_disjoint (a : Algo) (e : EntryKind) (len : Nat) (s0 s1 : Spec) (adv : Nat) (hl : 0 < len) :
    ∀ c ∈ calls a e len s0 s1 adv,
      c.data.Disjoint c.scratch ∧ (∀ r, c.out = some r → c.data.Disjoint r ∧ r.Disjoint c.scratch) :=
  fun c hc => ⟨exec_data_scratch_disjoint a e len s0 s1 adv hl c hc, exec_out_disjoint a e len s0 s1 adv hl c hc⟩

/-! ### C15 -/

theorem exec_immut_never_touches_input (a : Algo) (len : Nat) (s0 s1 : Spec) (adv : Nat) :
    ∀ c ∈ calls a .immut len s0 s1 adv,
      c.data.buf ≠ .input ∧ c.scratch.buf ≠ .input ∧ (∀ r, c.out = some r → r.buf ≠ .input) ∧
      c.data.buf ≠ .data := by
  intro c hc
  cases a <;> simp only [calls, List.mem_cons, List.not_mem_nil, or_false] at hc
  all_goals (rcases hc with rfl | rfl)
  all_goals simp only [reg]
  all_goals refine ⟨by decide, by decide, ?_, by decide⟩
  all_goals (intro r hr; cases hr)

/-! ### index arithmetic of the unchecked loops -/

theorem transpose_small_index (w h x y : Nat) (hx : x < w) (hy : y < h) :
    x + y * w < w * h ∧ y + x * h < w * h := by
  constructor
  · calc x + y * w < w + y * w := by omega
      _ = (y + 1) * w := by ring
      _ ≤ h * w := Nat.mul_le_mul_right w hy
      _ = w * h := Nat.mul_comm _ _
  · calc y + x * h < h + x * h := by omega
      _ = (x + 1) * h := by ring
      _ ≤ w * h := Nat.mul_le_mul_right h hx

/-- `reverse_bits::<D>(value, rev_digits)` of `array_utils.rs`, with the accumulator explicit -/
def reverseDigitsAux (d : Nat) : Nat → Nat → Nat → Nat
  | 0, _, result => result
  | k + 1, value, result => reverseDigitsAux d k (value / d) (result * d + value % d)

def reverseDigits (d k v : Nat) : Nat := reverseDigitsAux d k v 0

theorem reverseDigitsAux_lt (d : Nat) (hd : 0 < d) : ∀ k v result j, result < d ^ j →
    reverseDigitsAux d k v result < d ^ (j + k) := by
  intro k
  induction k with
  | zero => intro v result j h; simpa [reverseDigitsAux] using h
  | succ k ih =>
    intro v result j h
    rw [reverseDigitsAux]
    have hm : v % d < d := Nat.mod_lt _ hd
    have : result * d + v % d < d ^ (j + 1) := by
      have h1 : (result + 1) * d ≤ d ^ j * d := Nat.mul_le_mul_right d h
      rw [pow_succ]
      calc result * d + v % d < result * d + d := by omega
        _ = (result + 1) * d := by ring
        _ ≤ d ^ j * d := h1
    have := ih (v / d) _ (j + 1) this
    rwa [Nat.add_assoc, Nat.add_comm 1 k] at this

theorem reverseDigits_lt' (d k v : Nat) (hd : 0 < d) : reverseDigits d k v < d ^ k := by
  have := reverseDigitsAux_lt d hd k v 0 0 (by simp)
  simpa [reverseDigits] using this

theorem reverseDigitsAux_eq_reverseRemainders (d : Nat) : ∀ k v result,
    reverseDigitsAux d k v result = reverseRemainders (List.replicate k d) v result := by
  intro k
  induction k with
  | zero => intro v result; rfl
  | succ k ih => intro v result; rw [reverseDigitsAux, List.replicate_succ, reverseRemainders, ih]

theorem butterfly_index (cols f idx r : Nat) (hi : idx < cols) (hr : r < f) : idx + r * cols < cols * f := by
  calc idx + r * cols < cols + r * cols := by omega
    _ = (r + 1) * cols := by ring
    _ ≤ f * cols := Nat.mul_le_mul_right cols hr
    _ = cols * f := Nat.mul_comm _ _

theorem butterfly_twiddle_index (cols f idx r : Nat) (hi : idx < cols) (hr1 : 1 ≤ r) (hr : r < f) :
    idx * (f - 1) + (r - 1) < cols * (f - 1) := by
  have h1 : r - 1 < f - 1 := by omega
  calc idx * (f - 1) + (r - 1) < idx * (f - 1) + (f - 1) := by omega
    _ = (idx + 1) * (f - 1) := by ring
    _ ≤ cols * (f - 1) := Nat.mul_le_mul_right _ hi

end RFV
