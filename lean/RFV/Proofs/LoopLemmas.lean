/-
Helpers for `RFV.Props.C01Loops`: the literal loops of `RFV.Model.Loops` against the closed forms of `RFV.Model.Sem`.

Part A : generic facts (`csub`, `optMap`, `applyWrites`/`copyPairs`: "a scatter whose writes all agree with a gather
         function and cover the buffer is that gather" — `applyWrites_eq_tab`, `copyPairs_eq_tab`).
Part B : Rader's index recurrences (`mulIdxLoop_eq`, `twiddleInputLoop_eq`); B': `Array.extract` through `at'`.
Part C : `reverse_bits` / `reverse_remainders` / run-length encoding / `compute_logarithm` / `trailing_zeros`;
         digit reversal over the reversed factor list is the inverse permutation (`reverseRemainders_reverse_cancel`);
         C': the three nested copy loops of the transposes (`transposeLoops_eq`).
Part D : CRT uniqueness, the Ruritanian map `rur`, `extended_gcd` (Bézout identity, coefficient bounds, termination).
Part E : the incremental index arithmetic of `GoodThomasAlgorithm::reindex_input` (`reindexInputIdx_eq`);
         E2: the rotated rows of `reindex_output` (`mem_reindexOutputPairs`); E3: the inverse maps of both.
-/
import Mathlib.Data.Nat.ModEq
import Mathlib.Data.Nat.GCD.Basic
import Mathlib.Data.Int.GCD
import Mathlib.Data.Nat.ChineseRemainder
import Mathlib.Tactic.Ring
import Mathlib.Tactic.Linarith
import Mathlib.Tactic.NormNum
import Mathlib.Tactic.LinearCombination
import RFV.Model.Loops
import RFV.Proofs.Algebra.Inverse
import RFV.Proofs.Algebra.RadixN
import RFV.Proofs.Algebra.GoodThomas

namespace RFV
namespace Loops

/-! ## Part A: generic -/

theorem csub_of_le {a b : Nat} (h : b ≤ a) : csub a b = some (a - b) := by
  unfold csub; rw [if_pos h]

theorem optMap_eq_some {β γ : Type} (f : β → Option γ) (g : β → γ) (l : List β) (h : ∀ b ∈ l, f b = some (g b)) :
    optMap f l = some (l.map g) := by
  induction l with
  | nil => rfl
  | cons b bs ih =>
    rw [optMap, h b List.mem_cons_self, ih (fun c hc => h c (List.mem_cons_of_mem _ hc))]
    rfl

section zero
variable {α : Type} [Zero α]

theorem at'_lt (a : Array α) (i : Nat) (h : i < a.size) : at' a i = a[i] := by
  unfold at'; simp [Array.getD, h]

theorem at'_ge (a : Array α) (i : Nat) (h : a.size ≤ i) : at' a i = 0 := by
  unfold at'; simp [Array.getD, Nat.not_lt.mpr h]

theorem getElem?_eq_at' (a : Array α) (i : Nat) (h : i < a.size) : a[i]? = some (at' a i) := by
  rw [at'_lt a i h]; simp [h]

omit [Zero α] in
theorem tab_size' (n : Nat) (f : Nat → α) : (tab n f).size = n := by simp [tab]

theorem at'_tab' (n : Nat) (f : Nat → α) (i : Nat) (h : i < n) : at' (tab n f) i = f i := by
  unfold at' tab; simp [Array.getD, h]

theorem ext_at'' (a b : Array α) (hs : a.size = b.size) (h : ∀ i, i < a.size → at' a i = at' b i) : a = b := by
  apply Array.ext hs
  intro i h1 h2
  have := h i h1
  rwa [at'_lt a i h1, at'_lt b i h2] at this

theorem eq_tab_of_at'' (a : Array α) (n : Nat) (f : Nat → α) (hs : a.size = n) (h : ∀ i, i < n → at' a i = f i) :
    a = tab n f := by
  apply ext_at''
  · rw [hs, tab_size']
  · intro i hi
    rw [hs] at hi
    rw [h i hi, at'_tab' _ _ _ hi]

omit [Zero α] in
theorem tab_congr' (n : Nat) (f g : Nat → α) (h : ∀ i, i < n → f i = g i) : tab n f = tab n g := by
  apply Array.ext
  · simp [tab]
  · intro i h1 h2
    have hi : i < n := by simpa [tab] using h1
    simp [tab, h i hi]

omit [Zero α] in
theorem toArray_map_range (n : Nat) (f : Nat → α) : ((List.range n).map f).toArray = tab n f := by
  apply Array.ext
  · simp [tab]
  · intro i h1 h2
    simp [tab]

theorem at'_set (o : Array α) (i j : Nat) (v : α) :
    at' (o.setIfInBounds i v) j = if i = j ∧ i < o.size then v else at' o j := by
  unfold at'
  rw [Array.getD_eq_getD_getElem?, Array.getD_eq_getD_getElem?, Array.getElem?_setIfInBounds]
  by_cases h : i = j
  · subst h
    by_cases h2 : i < o.size
    · simp [h2]
    · simp [h2]
  · simp [h]

omit [Zero α] in
/-- without an out-of-bounds write, `applyWrites` is the plain fold of the writes -/
theorem applyWrites_eq_foldl (ws : List (Nat × α)) : ∀ (out : Array α), (∀ p ∈ ws, p.1 < out.size) →
    applyWrites ws out = some (ws.foldl (fun o p => o.setIfInBounds p.1 p.2) out) := by
  induction ws with
  | nil => intro out _; rfl
  | cons p ws ih =>
    intro out h
    obtain ⟨o, v⟩ := p
    have ho : o < out.size := h (o, v) List.mem_cons_self
    rw [applyWrites, if_pos ho, ih _ (fun q hq => by
      rw [Array.size_setIfInBounds]; exact h q (List.mem_cons_of_mem _ hq))]
    rfl

/-- the state after a list of in-range writes that all agree with the gather function `g` -/
theorem applyWrites_spec (n : Nat) (g : Nat → α) (ws : List (Nat × α)) : ∀ (out : Array α), out.size = n →
    (∀ p ∈ ws, p.1 < n ∧ p.2 = g p.1) →
    ∃ res, applyWrites ws out = some res ∧ res.size = n ∧
      ∀ k, k < n → ((∃ p ∈ ws, p.1 = k) → at' res k = g k) ∧ ((¬ ∃ p ∈ ws, p.1 = k) → at' res k = at' out k) := by
  induction ws with
  | nil =>
    intro out hs _
    refine ⟨out, rfl, hs, fun k _ => ⟨?_, fun _ => rfl⟩⟩
    rintro ⟨p, hp, _⟩
    cases hp
  | cons p ws ih =>
    intro out hs hw
    obtain ⟨o, v⟩ := p
    have ho : o < n := (hw (o, v) List.mem_cons_self).1
    have hv : v = g o := (hw (o, v) List.mem_cons_self).2
    have ho' : o < out.size := by rw [hs]; exact ho
    obtain ⟨res, hres, hsz, hk⟩ := ih (out.setIfInBounds o v) (by rw [Array.size_setIfInBounds, hs])
      (fun q hq => hw q (List.mem_cons_of_mem _ hq))
    refine ⟨res, by rw [applyWrites, if_pos ho', hres], hsz, ?_⟩
    intro k hkn
    obtain ⟨h1, h2⟩ := hk k hkn
    by_cases hex : ∃ q ∈ ws, q.1 = k
    · refine ⟨fun _ => h1 hex, fun hne => ?_⟩
      obtain ⟨q, hq, hqk⟩ := hex
      exact absurd ⟨q, List.mem_cons_of_mem _ hq, hqk⟩ hne
    · rw [h2 hex, at'_set]
      by_cases hok : o = k
      · refine ⟨fun _ => ?_, fun hne => absurd ⟨(o, v), List.mem_cons_self, hok⟩ hne⟩
        rw [if_pos ⟨hok, ho'⟩, hv, hok]
      · refine ⟨fun ⟨q, hq, hqk⟩ => ?_, fun _ => by rw [if_neg (fun hh => hok hh.1)]⟩
        rcases List.mem_cons.mp hq with rfl | hq'
        · exact absurd hqk hok
        · exact absurd ⟨q, hq', hqk⟩ hex

/-- **scatter = gather**: in-range writes that agree with `g` and cover `[0, n)` produce the table of `g`
(no injectivity needed: a position written twice receives the same value twice) -/
theorem applyWrites_eq_tab (n : Nat) (g : Nat → α) (ws : List (Nat × α)) (out : Array α) (hs : out.size = n)
    (hw : ∀ p ∈ ws, p.1 < n ∧ p.2 = g p.1) (hc : ∀ k, k < n → ∃ p ∈ ws, p.1 = k) :
    applyWrites ws out = some (tab n g) := by
  obtain ⟨res, hres, hsz, hk⟩ := applyWrites_spec n g ws out hs hw
  rw [hres, eq_tab_of_at'' res n g hsz (fun k hkn => (hk k hkn).1 (hc k hkn))]

/-- `copyPairs` with in-range reads is `applyWrites` of the values read -/
theorem copyPairs_eq_applyWrites (inp : Array α) (ps : List (Nat × Nat)) : ∀ (out : Array α),
    (∀ p ∈ ps, p.1 < inp.size) →
    copyPairs ps inp out = applyWrites (ps.map (fun p => (p.2, at' inp p.1))) out := by
  induction ps with
  | nil => intro out _; rfl
  | cons p ps ih =>
    intro out h
    obtain ⟨i, o⟩ := p
    have hi : i < inp.size := h (i, o) List.mem_cons_self
    rw [copyPairs, getElem?_eq_at' inp i hi]
    simp only [List.map_cons, applyWrites]
    by_cases ho : o < out.size
    · rw [if_pos ho, if_pos ho, ih _ (fun q hq => h q (List.mem_cons_of_mem _ hq))]
    · rw [if_neg ho, if_neg ho]

/-- **scatter = gather** for copy loops: every copy `out[o] = inp[i]` reads and writes in range and agrees with the
gather function `g` (`inp[i] = g o`), and every position below `n` is written -/
theorem copyPairs_eq_tab (n : Nat) (g : Nat → α) (ps : List (Nat × Nat)) (inp out : Array α) (hs : out.size = n)
    (hw : ∀ p ∈ ps, p.1 < inp.size ∧ p.2 < n ∧ at' inp p.1 = g p.2) (hc : ∀ k, k < n → ∃ p ∈ ps, p.2 = k) :
    copyPairs ps inp out = some (tab n g) := by
  rw [copyPairs_eq_applyWrites inp ps out (fun p hp => (hw p hp).1)]
  apply applyWrites_eq_tab n g _ out hs
  · intro q hq
    obtain ⟨p, hp, rfl⟩ := List.mem_map.mp hq
    exact ⟨(hw p hp).2.1, (hw p hp).2.2⟩
  · intro k hk
    obtain ⟨p, hp, hpk⟩ := hc k hk
    exact ⟨(p.2, at' inp p.1), List.mem_map.mpr ⟨p, hp, rfl⟩, hpk⟩

end zero

/-! ## Part B: Rader -/

theorem mulIdxLoop_eq (p g : Nat) : ∀ n idx, mulIdxLoop p g n idx = (List.range n).map (fun i => idx * g ^ (i + 1) % p) := by
  intro n
  induction n with
  | zero => intro idx; rfl
  | succ n ih =>
    intro idx
    rw [mulIdxLoop, List.range_succ_eq_map, List.map_cons, List.map_map]
    simp only [ih]
    congr 1
    · rw [Nat.zero_add, pow_one]
    · apply List.map_congr_left
      intro i _
      simp only [Function.comp]
      rw [Nat.mod_mul_mod, pow_succ' g (i + 1), Nat.mul_assoc]

theorem twiddleInputLoop_eq (p gi : Nat) : ∀ n t, t < p →
    twiddleInputLoop p gi n t = (List.range n).map (fun i => t * gi ^ i % p) := by
  intro n
  induction n with
  | zero => intro t _; rfl
  | succ n ih =>
    intro t ht
    have hp : 0 < p := by omega
    rw [twiddleInputLoop, List.range_succ_eq_map, List.map_cons, List.map_map, ih _ (Nat.mod_lt _ hp)]
    congr 1
    · rw [pow_zero, Nat.mul_one, Nat.mod_eq_of_lt ht]
    · apply List.map_congr_left
      intro i _
      simp only [Function.comp]
      rw [Nat.mod_mul_mod, pow_succ' gi i, Nat.mul_assoc]

/-! ## Part C: digit reversal -/

theorem reverseBitsLoop_eq (D : Nat) : ∀ n v acc,
    reverseBitsLoop D n v acc = reverseRemainders (List.replicate n D) v acc := by
  intro n
  induction n with
  | zero => intro v acc; rfl
  | succ n ih => intro v acc; rw [reverseBitsLoop, ih, List.replicate_succ, reverseRemainders]

theorem reverseBits_eq (D v k : Nat) : reverseBits D v k = reverseRemainders (List.replicate k D) v 0 :=
  reverseBitsLoop_eq D k v 0

/-- processing `as ++ bs`: first `as`, then `bs` on the quotient -/
theorem reverseRemainders_append (as bs : List Nat) : ∀ v acc,
    reverseRemainders (as ++ bs) v acc = reverseRemainders bs (v / as.prod) (reverseRemainders as v acc) := by
  induction as with
  | nil => intro v acc; simp [reverseRemainders]
  | cons a as ih =>
    intro v acc
    rw [List.cons_append, reverseRemainders, ih, List.prod_cons, reverseRemainders, Nat.div_div_eq_div_mul]

/-- only the digits below `∏ fs` are read -/
theorem reverseRemainders_mod (fs : List Nat) : ∀ v acc,
    reverseRemainders fs (v % fs.prod) acc = reverseRemainders fs v acc := by
  induction fs with
  | nil => intro v acc; rfl
  | cons g gs ih =>
    intro v acc
    rw [reverseRemainders, reverseRemainders, List.prod_cons, Nat.mod_mul_right_mod, Nat.mod_mul_right_div_self, ih]

/-- **digit reversal over the reversed factor list is the inverse permutation** -/
theorem reverseRemainders_reverse_cancel (fs : List Nat) : ∀ v, v < fs.prod →
    reverseRemainders fs.reverse (reverseRemainders fs v 0) 0 = v := by
  induction fs with
  | nil => intro v hv; simp at hv; subst hv; rfl
  | cons g gs ih =>
    intro v hv
    rw [List.prod_cons] at hv
    have hg : 0 < g := Nat.pos_of_ne_zero (fun h0 => by rw [h0, Nat.zero_mul] at hv; omega)
    have hq : v / g < gs.prod := Nat.div_lt_of_lt_mul hv
    have hu : reverseRemainders gs (v / g) 0 < gs.prod := reverseRemainders_lt gs _ hq
    have hP : 0 < gs.prod := by omega
    rw [reverseRemainders_cons, List.reverse_cons, reverseRemainders_append, List.prod_reverse]
    rw [← reverseRemainders_mod gs.reverse, List.prod_reverse, Nat.mul_comm (v % g), Nat.mul_add_mod_self_left,
      Nat.mod_eq_of_lt hu, ih _ hq]
    rw [Nat.mul_comm gs.prod, Nat.add_comm, Nat.add_mul_div_right _ _ hP, Nat.div_eq_of_lt hu, Nat.zero_add]
    simp only [reverseRemainders]
    rw [Nat.mod_mod, Nat.div_add_mod']

theorem reverseRemainders_reverse_cancel' (fs : List Nat) (v : Nat) (hv : v < fs.prod) :
    reverseRemainders fs (reverseRemainders fs.reverse v 0) 0 = v := by
  have := reverseRemainders_reverse_cancel fs.reverse v (by rwa [List.prod_reverse])
  rwa [List.reverse_reverse] at this

theorem reverseRemainders_reverse_lt (fs : List Nat) (v : Nat) (hv : v < fs.prod) :
    reverseRemainders fs.reverse v 0 < fs.prod := by
  have := reverseRemainders_lt fs.reverse v (by rwa [List.prod_reverse])
  rwa [List.prod_reverse] at this

/-! ### the run-length encoded factor list -/

/-- the plain factor list a run-length encoded list stands for -/
def expand (tf : List (Nat × Nat)) : List Nat := tf.flatMap (fun p => List.replicate p.2 p.1)

theorem expand_append (a b : List (Nat × Nat)) : expand (a ++ b) = expand a ++ expand b := by
  simp [expand]

theorem digitLoop_eq (f : Nat) : ∀ n v acc,
    digitLoop f n (v, acc) = (v / (List.replicate n f).prod, reverseRemainders (List.replicate n f) v acc) := by
  intro n
  induction n with
  | zero => intro v acc; simp [digitLoop, reverseRemainders]
  | succ n ih =>
    intro v acc
    rw [digitLoop, ih, List.replicate_succ, List.prod_cons, reverseRemainders, Nat.div_div_eq_div_mul]

theorem reverseRemaindersLoop_eq (tf : List (Nat × Nat)) : ∀ v acc,
    reverseRemaindersLoop tf (v, acc) = (v / (expand tf).prod, reverseRemainders (expand tf) v acc) := by
  induction tf with
  | nil => intro v acc; simp [reverseRemaindersLoop, expand, reverseRemainders]
  | cons p rest ih =>
    intro v acc
    obtain ⟨f, cnt⟩ := p
    have he : expand ((f, cnt) :: rest) = List.replicate cnt f ++ expand rest := by simp [expand]
    rw [reverseRemaindersLoop, digitLoop_eq, ih, he, List.prod_append, reverseRemainders_append,
      Nat.div_div_eq_div_mul]

theorem reverseRemaindersTf_eq (v : Nat) (tf : List (Nat × Nat)) :
    reverseRemaindersTf v tf = reverseRemainders (expand tf) v 0 := by
  unfold reverseRemaindersTf; rw [reverseRemaindersLoop_eq]

theorem expand_rlePush (acc : List (Nat × Nat)) (f : Nat) : expand (rlePush acc f) = expand acc ++ [f] := by
  unfold rlePush
  cases hl : acc.getLast? with
  | none =>
    have : acc = [] := List.getLast?_eq_none_iff.mp hl
    subst this
    simp [expand]
  | some p =>
    obtain ⟨g, cnt⟩ := p
    have hacc : acc = acc.dropLast ++ [(g, cnt)] := by
      have := List.dropLast_append_getLast? (g, cnt) hl
      exact this.symm
    simp only
    split
    · rename_i hgf
      conv_rhs => rw [hacc]
      rw [expand_append, expand_append, List.append_assoc]
      congr 1
      simp [expand, hgf, List.replicate_succ']
    · rw [expand_append]; simp [expand]

theorem expand_foldl_rlePush (l : List Nat) : ∀ acc, expand (l.foldl rlePush acc) = expand acc ++ l := by
  induction l with
  | nil => intro acc; simp
  | cons f l ih => intro acc; rw [List.foldl_cons, ih, expand_rlePush, List.append_assoc]; rfl

/-- the run-length encoded list of `RadixN::new` stands for the reversed factor list -/
theorem expand_transposeFactors (fs : List Nat) : expand (transposeFactors fs) = fs.reverse := by
  unfold transposeFactors; rw [expand_foldl_rlePush]; rfl

theorem rlePush_count_pos (acc : List (Nat × Nat)) (f : Nat) (h : ∀ p ∈ acc, 1 ≤ p.2) :
    ∀ p ∈ rlePush acc f, 1 ≤ p.2 := by
  unfold rlePush
  cases hl : acc.getLast? with
  | none => intro p hp; simp at hp; rcases hp with h1 | h1 <;> simp_all
  | some q =>
    obtain ⟨g, cnt⟩ := q
    simp only
    split
    · intro p hp
      rcases List.mem_append.mp hp with h1 | h1
      · exact h p (List.mem_of_mem_dropLast h1)
      · simp at h1; subst h1; simp
    · intro p hp
      rcases List.mem_append.mp hp with h1 | h1
      · exact h p h1
      · simp at h1; subst h1; simp

theorem transposeFactors_count_pos (fs : List Nat) : ∀ p ∈ transposeFactors fs, 1 ≤ p.2 := by
  unfold transposeFactors
  have : ∀ (l : List Nat) (acc : List (Nat × Nat)), (∀ p ∈ acc, 1 ≤ p.2) → ∀ p ∈ l.foldl rlePush acc, 1 ≤ p.2 := by
    intro l
    induction l with
    | nil => intro acc h; simpa using h
    | cons f l ih => intro acc h; rw [List.foldl_cons]; exact ih _ (rlePush_count_pos acc f h)
  exact this _ [] (by simp)

/-- `reverse_remainders(value, self.factors)` of `RadixN` is the digit reversal over the reversed factor list -/
theorem reverseRemaindersTf_transposeFactors (fs : List Nat) (v : Nat) :
    reverseRemaindersTf v (transposeFactors fs) = reverseRemainders fs.reverse v 0 := by
  rw [reverseRemaindersTf_eq, expand_transposeFactors]

/-! ### `compute_logarithm`, `trailing_zeros`, `rev_digits` -/

theorem logLoop_pow (D : Nat) (hD : 2 ≤ D) : ∀ k fuel e, k < fuel → logLoop D fuel e (D ^ k) = some (e + k, 1) := by
  intro k
  induction k with
  | zero =>
    intro fuel e hf
    obtain ⟨f, rfl⟩ : ∃ f, fuel = f + 1 := ⟨fuel - 1, by omega⟩
    rw [logLoop, pow_zero, if_neg (by rw [Nat.mod_eq_of_lt (by omega)]; omega)]
    rfl
  | succ k ih =>
    intro fuel e hf
    obtain ⟨f, rfl⟩ : ∃ f, fuel = f + 1 := ⟨fuel - 1, by omega⟩
    have h1 : D ^ (k + 1) % D = 0 := by rw [pow_succ]; exact Nat.mul_mod_left _ _
    have h2 : D ^ (k + 1) / D = D ^ k := by rw [pow_succ]; exact Nat.mul_div_cancel _ (by omega)
    rw [logLoop, if_pos h1, h2, ih f (e + 1) (by omega)]
    congr 2; omega

theorem computeLogarithm_pow (D k : Nat) (hD : 2 ≤ D) : computeLogarithm D (D ^ k) = some k := by
  unfold computeLogarithm
  have hpos : 0 < D ^ k := Nat.pow_pos (by omega)
  rw [if_neg (by omega), logLoop_pow D hD k _ 0 (by have := Nat.lt_pow_self (n := k) (a := D) (by omega); omega)]
  simp

theorem trailingZerosLoop_pow : ∀ k fuel, k < fuel → trailingZerosLoop fuel (2 ^ k) = k := by
  intro k
  induction k with
  | zero =>
    intro fuel hf
    obtain ⟨f, rfl⟩ : ∃ f, fuel = f + 1 := ⟨fuel - 1, by omega⟩
    simp [trailingZerosLoop]
  | succ k ih =>
    intro fuel hf
    obtain ⟨f, rfl⟩ : ∃ f, fuel = f + 1 := ⟨fuel - 1, by omega⟩
    have hpos : 0 < 2 ^ (k + 1) := Nat.pow_pos (by omega)
    have h1 : 2 ^ (k + 1) % 2 = 0 := by rw [pow_succ]; exact Nat.mul_mod_left _ _
    have h2 : 2 ^ (k + 1) / 2 = 2 ^ k := by rw [pow_succ]; exact Nat.mul_div_cancel _ (by omega)
    rw [trailingZerosLoop, if_neg (by omega), if_pos h1, h2, ih f (by omega)]

theorem trailingZeros_pow (k : Nat) : trailingZeros (2 ^ k) = k :=
  trailingZerosLoop_pow k _ (Nat.lt_pow_self (by omega))

/-- the `rev_digits` computed by `bitreversed_transpose` for `width = D^k` is `k` (both branches; no assert fires) -/
theorem revDigits_pow (D k : Nat) (hD : 2 ≤ D) : revDigits D (D ^ k) = some k := by
  unfold revDigits
  split
  · rename_i hp
    unfold isPowerOfTwo at hp
    simp only [Bool.and_eq_true, bne_iff_ne, ne_eq, beq_iff_eq] at hp
    obtain ⟨_, hpow⟩ := hp
    have hd : trailingZeros D ≠ 0 := by
      intro h0; rw [h0] at hpow; omega
    have hw : trailingZeros (D ^ k) = trailingZeros D * k := by
      conv_lhs => rw [← hpow, ← pow_mul]
      exact trailingZeros_pow _
    simp only
    rw [if_neg hd, hw, if_pos (Nat.mul_mod_right _ _), Nat.mul_div_cancel_left _ (Nat.pos_of_ne_zero hd)]
  · exact computeLogarithm_pow D k hD

/-! ## Part B': Rader, arrays -/
section
variable {α : Type} [Zero α]

theorem at'_extract' (x : Array α) (a b i : Nat) :
    at' (x.extract a b) i = if i < b - a then at' x (a + i) else 0 := by
  have hsz : (x.extract a b).size = min b x.size - a := by simp
  by_cases h : i < b - a
  · rw [if_pos h]
    by_cases h2 : a + i < x.size
    · have h3 : i < (x.extract a b).size := by rw [hsz]; omega
      rw [at'_lt _ _ h3, at'_lt _ _ h2]
      simp
    · rw [at'_ge x _ (by omega), at'_ge]
      rw [hsz]; omega
  · rw [if_neg h, at'_ge]
    rw [hsz]; omega

end

theorem modPow_succ_eq (g i p : Nat) : modPow g (i + 1) p = 1 * g ^ (i + 1) % p := by
  rw [Nat.one_mul, modPow_eq g (i + 1) p (Or.inr (by omega))]

/-! ## Part C': the transpose loops -/

theorem mem_transposePairs (D height width : Nat) (rev : Nat → Nat) (p : Nat × Nat) :
    p ∈ transposePairs D height width rev ↔
      ∃ x, x < width / D ∧ ∃ y, y < height ∧ ∃ i, i < D ∧
        p = (D * x + i + y * width, y + rev (D * x + i) * height) := by
  unfold transposePairs
  simp only [List.mem_flatMap, List.mem_map, List.mem_range]
  constructor
  · rintro ⟨x, hx, y, hy, i, hi, rfl⟩; exact ⟨x, hx, y, hy, i, hi, rfl⟩
  · rintro ⟨x, hx, y, hy, i, hi, rfl⟩; exact ⟨x, hx, y, hy, i, hi, rfl⟩

theorem fwd_lt_width (D width x i : Nat) (hx : x < width / D) (hi : i < D) : D * x + i < width := by
  have h1 : D * (x + 1) ≤ D * (width / D) := Nat.mul_le_mul_left D hx
  have h2 : D * (width / D) ≤ width := Nat.mul_div_le width D
  rw [Nat.mul_add, Nat.mul_one] at h1
  omega

theorem add_mul_lt (a b n m : Nat) (ha : a < n) (hb : b < m) : a + b * n < n * m := by
  have : (b + 1) * n ≤ m * n := Nat.mul_le_mul_right n hb
  rw [Nat.add_mul, Nat.one_mul, Nat.mul_comm m n] at this
  omega

theorem transposeAsserts_true (D width : Nat) (rev : Nat → Nat) (hrev : ∀ v, v < width → rev v < width) :
    transposeAsserts D width rev = true := by
  unfold transposeAsserts
  simp only [List.all_eq_true, List.mem_range, decide_eq_true_eq]
  intro x hx i hi
  exact hrev _ (fwd_lt_width D width x i hx hi)

/-- the three nested copy loops shared by `bitreversed_transpose` and `factor_transpose`, for a digit-reversal `rev`
that is a permutation of `[0, width)` with inverse `inv`: the gather `out[y + r*height] = in[inv r + y*width]` -/
theorem transposeLoops_eq {α : Type} [Zero α] (D height width : Nat) (rev inv : Nat → Nat) (input output : Array α)
    (hD : 0 < D) (hdvd : D ∣ width) (hh : 0 < height)
    (hin : input.size = height * width) (hout : output.size = height * width)
    (hrev : ∀ v, v < width → rev v < width ∧ inv (rev v) = v)
    (hinv : ∀ r, r < width → inv r < width ∧ rev (inv r) = r) :
    copyPairs (transposePairs D height width rev) input output =
      some (tab (height * width) (fun o => at' input (inv (o / height) + (o % height) * width))) := by
  apply copyPairs_eq_tab _ _ _ _ _ hout
  · intro p hp
    obtain ⟨x, hx, y, hy, i, hi, rfl⟩ := (mem_transposePairs _ _ _ _ _).mp hp
    have hf : D * x + i < width := fwd_lt_width D width x i hx hi
    obtain ⟨hr, hir⟩ := hrev _ hf
    refine ⟨?_, ?_, ?_⟩
    · rw [hin, Nat.mul_comm height width]; exact add_mul_lt _ _ _ _ hf hy
    · exact add_mul_lt _ _ _ _ hy hr
    · simp only
      rw [Nat.add_mul_div_right _ _ hh, Nat.div_eq_of_lt hy, Nat.zero_add, Nat.add_mul_mod_self_right,
        Nat.mod_eq_of_lt hy, hir]
  · intro k hk
    have hr : k / height < width := Nat.div_lt_of_lt_mul hk
    obtain ⟨hf, hrf⟩ := hinv _ hr
    refine ⟨(inv (k / height) + (k % height) * width, k % height + rev (inv (k / height)) * height), ?_, ?_⟩
    · apply (mem_transposePairs _ _ _ _ _).mpr
      refine ⟨inv (k / height) / D, Nat.div_lt_div_of_lt_of_dvd hdvd hf, k % height, Nat.mod_lt _ hh,
        inv (k / height) % D, Nat.mod_lt _ hD, ?_⟩
      rw [Nat.div_add_mod]
    · simp only
      rw [hrf, Nat.mod_add_div']

/-! ## Part D: CRT / Ruritanian maps, `extended_gcd` -/

/-- uniqueness in the Chinese remainder theorem -/
theorem crt_unique (w h : Nat) (co : Nat.Coprime w h) (a b : Nat) (ha : a < w * h) (hb : b < w * h)
    (hw : a % w = b % w) (hh : a % h = b % h) : a = b :=
  Nat.ModEq.eq_of_lt_of_lt ((Nat.modEq_and_modEq_iff_modEq_mul co).mp ⟨hw, hh⟩) ha hb

/-- the Ruritanian output map of `GoodThomasAlgorithmSmall::new` -/
def rur (w h wInv hInv x y : Nat) : Nat := (x * h * hInv + y * w * wInv) % (w * h)

theorem rur_mod_w (w h wInv hInv x y : Nat) (hhi : h * hInv % w = 1 % w) : rur w h wInv hInv x y % w = x % w := by
  unfold rur
  rw [Nat.mod_mul_right_mod]
  have h1 : x * h * hInv ≡ x * 1 [MOD w] := by
    rw [Nat.mul_assoc]; exact Nat.ModEq.mul_left x hhi
  have h2 : y * w * wInv ≡ 0 [MOD w] := by
    have : y * w * wInv = w * (y * wInv) := by ring
    rw [this]; exact (Nat.modEq_zero_iff_dvd.mpr (Dvd.intro _ rfl))
  have := h1.add h2
  rw [Nat.mul_one, Nat.add_zero] at this
  exact this

theorem rur_mod_h (w h wInv hInv x y : Nat) (hwi : w * wInv % h = 1 % h) : rur w h wInv hInv x y % h = y % h := by
  unfold rur
  rw [Nat.mod_mul_left_mod]
  have h1 : y * w * wInv ≡ y * 1 [MOD h] := by
    rw [Nat.mul_assoc]; exact Nat.ModEq.mul_left y hwi
  have h2 : x * h * hInv ≡ 0 [MOD h] := by
    have : x * h * hInv = h * (x * hInv) := by ring
    rw [this]; exact (Nat.modEq_zero_iff_dvd.mpr (Dvd.intro _ rfl))
  have := h2.add h1
  rw [Nat.mul_one, Nat.zero_add] at this
  exact this

theorem zip_range_map {β : Type} (n : Nat) (f : Nat → β) :
    (List.range n).zip ((List.range n).map f) = (List.range n).map (fun i => (i, f i)) := by
  have h : ((List.range n).map id).zip ((List.range n).map f) = (List.range n).map (fun i => (id i, f i)) :=
    List.zip_map'
  simpa using h

theorem zip_map_range {β : Type} (n : Nat) (f : Nat → β) :
    ((List.range n).map f).zip (List.range n) = (List.range n).map (fun i => (f i, i)) := by
  have h : ((List.range n).map f).zip ((List.range n).map id) = (List.range n).map (fun i => (f i, id i)) :=
    List.zip_map'
  simpa using h

/-! ### `extended_gcd` -/

theorem extGcdLoop_spec (a b : Int) : ∀ (fuel : Nat) (r s t : Int × Int) (es et : Int),
    (es = 1 ∨ es = -1) → (et = 1 ∨ et = -1) → r.1.toNat < fuel → 0 ≤ r.1 → 0 < r.2 →
    s.2 * a + t.2 * b = r.2 → s.1 * a + t.1 * b = r.1 →
    (∀ d : Int, d ∣ r.1 → d ∣ r.2 → d ∣ a ∧ d ∣ b) →
    0 ≤ es * s.1 → es * s.2 ≤ 0 → es * (s.1 * r.2 - s.2 * r.1) = b → (-b ≤ s.2 ∧ s.2 ≤ b) →
    0 ≤ et * t.1 → et * t.2 ≤ 0 → et * (t.1 * r.2 - t.2 * r.1) = a → (-a ≤ t.2 ∧ t.2 ≤ a) →
    ∃ g x y s1 t1, extGcdLoop fuel r s t = some ((0, g), (s1, x), (t1, y)) ∧ 0 < g ∧ x * a + y * b = g ∧
      g ∣ a ∧ g ∣ b ∧ -b ≤ x ∧ x ≤ b ∧ -a ≤ y ∧ y ≤ a := by
  intro fuel
  induction fuel with
  | zero => intro r s t es et _ _ hf; omega
  | succ fuel ih =>
    intro r s t es et hes het hf hr1 hr2 hbz2 hbz1 hdvd hs1 hs2 hsd hsb ht1 ht2 htd htb
    obtain ⟨r1, r2⟩ := r
    obtain ⟨s1, s2⟩ := s
    obtain ⟨t1, t2⟩ := t
    simp only at hf hr1 hr2 hbz2 hbz1 hdvd hs1 hs2 hsd hsb ht1 ht2 htd htb
    rw [extGcdLoop]
    by_cases h0 : r1 = 0
    · subst h0
      simp only [if_true]
      obtain ⟨hga, hgb⟩ := hdvd r2 (dvd_zero _) (dvd_refl _)
      exact ⟨r2, s2, t2, s1, t1, rfl, hr2, hbz2, hga, hgb, hsb.1, hsb.2, htb.1, htb.2⟩
    · simp only [if_neg h0]
      have hr1pos : 0 < r1 := lt_of_le_of_ne hr1 (Ne.symm h0)
      have hq : Int.tdiv r2 r1 = r2 / r1 := Int.tdiv_eq_ediv_of_nonneg (le_of_lt hr2)
      rw [hq]
      have hq0 : 0 ≤ r2 / r1 := Int.ediv_nonneg (le_of_lt hr2) hr1
      have hmod : r2 - r2 / r1 * r1 = r2 % r1 := by
        have := Int.emod_add_mul_ediv r2 r1
        linarith [mul_comm (r2 / r1) r1]
      have hm0 : 0 ≤ r2 % r1 := Int.emod_nonneg _ h0
      have hmlt : r2 % r1 < r1 := Int.emod_lt_of_pos _ hr1pos
      set q := r2 / r1 with hqdef
      apply ih (r2 - q * r1, r1) (s2 - q * s1, s1) (t2 - q * t1, t1) (-es) (-et)
      · rcases hes with h | h <;> simp [h]
      · rcases het with h | h <;> simp [h]
      · simp only; rw [hmod]; omega
      · simp only; rw [hmod]; exact hm0
      · exact hr1pos
      · simp only; exact hbz1
      · simp only; linear_combination hbz2 - q * hbz1
      · intro d hd1 hd2
        simp only at hd1 hd2
        apply hdvd d hd2
        have : r2 = (r2 - q * r1) + q * r1 := by ring
        rw [this]
        exact dvd_add hd1 (Dvd.dvd.mul_left hd2 q)
      · simp only
        have : -es * (s2 - q * s1) = -(es * s2) + q * (es * s1) := by ring
        rw [this]
        have := mul_nonneg hq0 hs1
        linarith
      · simp only; linarith
      · simp only; linear_combination hsd
      · simp only
        -- |s1| = es * s1 ≤ es * s1 * r2 ≤ b
        have h1 : es * s1 ≤ es * s1 * r2 := by nlinarith
        have h2 : es * s1 * r2 ≤ b := by nlinarith
        rcases hes with h | h <;> subst h <;> constructor <;> linarith
      · simp only
        have : -et * (t2 - q * t1) = -(et * t2) + q * (et * t1) := by ring
        rw [this]
        have := mul_nonneg hq0 ht1
        linarith
      · simp only; linarith
      · simp only; linear_combination htd
      · simp only
        have h1 : et * t1 ≤ et * t1 * r2 := by nlinarith
        have h2 : et * t1 * r2 ≤ a := by nlinarith
        rcases het with h | h <;> subst h <;> constructor <;> linarith

/-- `i64::extended_gcd(a, b)` for positive arguments: Bézout coefficients of a positive common divisor,
bounded by the other argument -/
theorem extendedGcd_spec (a b : Int) (ha : 0 < a) (hb : 0 < b) :
    ∃ g x y, extendedGcd a b = some (g, x, y) ∧ 0 < g ∧ x * a + y * b = g ∧ g ∣ a ∧ g ∣ b ∧
      -b ≤ x ∧ x ≤ b ∧ -a ≤ y ∧ y ≤ a := by
  obtain ⟨g, x, y, s1, t1, hloop, hg, hbz, hga, hgb, hx1, hx2, hy1, hy2⟩ :=
    extGcdLoop_spec a b (b.toNat + 2) (b, a) (0, 1) (1, 0) (-1) 1 (Or.inr rfl) (Or.inl rfl)
      (by simp only; omega) (le_of_lt hb) ha (by simp) (by simp)
      (fun d h1 h2 => ⟨h2, h1⟩) (by simp) (by simp) (by simp) (by constructor <;> linarith)
      (by simp) (by simp) (by simp) (by constructor <;> linarith)
  refine ⟨g, x, y, ?_, hg, hbz, hga, hgb, hx1, hx2, hy1, hy2⟩
  unfold extendedGcd
  rw [hloop]
  simp only
  rw [if_pos (le_of_lt hg)]

/-- `GoodThomasAlgorithmSmall::new`: for coprime positive lengths the `assert!` passes, neither `as usize` cast wraps,
and the two numbers are inverses modulo the other length -/
theorem gtSmallInverses_spec (w h : Nat) (hw : 0 < w) (hh : 0 < h) (co : Nat.Coprime w h) :
    ∃ wi hi, gtSmallInverses w h = some (wi, hi) ∧ w * wi % h = 1 % h ∧ h * hi % w = 1 % w := by
  obtain ⟨g, x, y, heg, hg, hbz, hga, hgb, hx1, hx2, hy1, hy2⟩ :=
    extendedGcd_spec (w : Int) (h : Int) (by exact_mod_cast hw) (by exact_mod_cast hh)
  have hg1 : g = 1 := by
    have h1 : (g.toNat : Int) = g := Int.toNat_of_nonneg (le_of_lt hg)
    rw [← h1] at hga hgb
    have hd : g.toNat ∣ Nat.gcd w h := Nat.dvd_gcd (Int.natCast_dvd_natCast.mp hga) (Int.natCast_dvd_natCast.mp hgb)
    rw [co] at hd
    have : g.toNat = 1 := Nat.eq_one_of_dvd_one hd
    omega
  subst hg1
  set xn : Int := if x ≥ 0 then x else x + (h : Int) with hxn
  set yn : Int := if y ≥ 0 then y else y + (w : Int) with hyn
  have hxn0 : 0 ≤ xn := by rw [hxn]; split <;> omega
  have hyn0 : 0 ≤ yn := by rw [hyn]; split <;> omega
  refine ⟨xn.toNat, yn.toNat, ?_, ?_, ?_⟩
  · unfold gtSmallInverses
    rw [heg]
    simp only
    rw [if_neg (by simp)]
    unfold asUsize
    rw [← hxn, ← hyn, if_pos hxn0, if_pos hyn0]
  · have hx' : ∃ k : Int, xn = x + k * h := by
      rw [hxn]; split
      · exact ⟨0, by ring⟩
      · exact ⟨1, by ring⟩
    obtain ⟨k, hk⟩ := hx'
    have hcast : ((w * xn.toNat : Nat) : Int) % (h : Int) = ((1 : Nat) : Int) % (h : Int) := by
      push_cast
      rw [Int.toNat_of_nonneg hxn0, hk]
      have : (w : Int) * (x + k * h) = 1 + (w * k - y) * h := by linear_combination hbz
      rw [this, Int.add_mul_emod_self_right]
    exact_mod_cast hcast
  · have hy' : ∃ k : Int, yn = y + k * w := by
      rw [hyn]; split
      · exact ⟨0, by ring⟩
      · exact ⟨1, by ring⟩
    obtain ⟨k, hk⟩ := hy'
    have hcast : ((h * yn.toNat : Nat) : Int) % (w : Int) = ((1 : Nat) : Int) % (w : Int) := by
      push_cast
      rw [Int.toNat_of_nonneg hyn0, hk]
      have : (h : Int) * (y + k * w) = 1 + (h * k - x) * w := by linear_combination hbz
      rw [this, Int.add_mul_emod_self_right]
    exact_mod_cast hcast

/-! ## Part E: `GoodThomasAlgorithm::reindex_input` / `reindex_output` -/

theorem incRun_eq (step : Nat) : ∀ n di,
    incRun step n di = ((List.range n).map (fun j => di + j * step), di + n * step) := by
  intro n
  induction n with
  | zero => intro di; simp [incRun]
  | succ n ih =>
    intro di
    rw [incRun, ih, List.range_succ_eq_map, List.map_cons, List.map_map]
    simp only [Nat.zero_mul, Nat.add_zero]
    refine Prod.ext ?_ ?_
    · simp only
      congr 1
      apply List.map_congr_left
      intro j _
      simp only [Function.comp]
      rw [Nat.succ_mul]; omega
    · simp only
      rw [Nat.succ_mul]; omega

/-- the closed form of the destination index of source element `s`: `(s mod w) + (s mod h)·w` -/
def inPos (w h s : Nat) : Nat := s % w + (s % h) * w

/-- one row of `reindex_input`, started at `destination_index = y0·w` with `y0 = (first source index) mod h` -/
theorem reindexInputRow_eq (w h y0 : Nat) (hw : 0 < w) (hwh : w ≤ h) (hy0 : y0 < h) :
    reindexInputRow w (w * h) (y0 * w) =
      some ((List.range w).map (fun x => x + ((y0 + x) % h) * w),
        (if y0 + w ≤ h then y0 + w else y0 + w - h) * w) := by
  unfold reindexInputRow
  have hle : y0 * w ≤ w * h := by rw [Nat.mul_comm w h]; exact Nat.mul_le_mul_right w (le_of_lt hy0)
  rw [csub_of_le hle]
  simp only
  obtain ⟨m, hm⟩ : ∃ m, h = y0 + m := ⟨h - y0, by omega⟩
  have hm1 : 1 ≤ m := by omega
  have hrem : w * h - y0 * w = m * w := by
    rw [hm, Nat.mul_add, Nat.mul_comm w y0, Nat.add_sub_cancel_left, Nat.mul_comm]
  rw [hrem]
  by_cases hsplit : m < w
  · -- the row wraps after `m` elements
    have hdiv : m * w / (w + 1) = m - 1 := by
      apply Nat.div_eq_of_lt_le
      · obtain ⟨m', rfl⟩ : ∃ m', m = m' + 1 := ⟨m - 1, by omega⟩
        rw [Nat.add_sub_cancel]
        nlinarith
      · rw [Nat.sub_add_cancel hm1]; nlinarith
    have hinc : 1 + m * w / (w + 1) = m := by rw [hdiv]; omega
    rw [hinc, if_pos hsplit, incRun_eq]
    simp only
    have hpre : y0 * w + m * (w + 1) = w * h + m := by rw [hm]; ring
    rw [hpre, csub_of_le (Nat.le_add_right _ _), Nat.add_sub_cancel_left]
    simp only
    rw [incRun_eq]
    simp only
    obtain ⟨e, he⟩ : ∃ e, w = m + e := ⟨w - m, by omega⟩
    have he1 : 1 ≤ e := by omega
    have hwm : w - m = e := by omega
    rw [hwm]
    have hpost : w ≤ m + e * (w + 1) := by nlinarith
    rw [csub_of_le hpost]
    have hdi2 : m + e * (w + 1) - w = e * w := by
      have : m + e * (w + 1) = e * w + w := by rw [Nat.mul_add, Nat.mul_one]; omega
      rw [this, Nat.add_sub_cancel]
    rw [hdi2, if_neg (by omega)]
    have hyw : y0 + w - h = e := by omega
    rw [hyw]
    simp only
    congr 2
    have hr : List.range w = List.range m ++ (List.range e).map (m + ·) := by
      rw [he]; exact List.range_add
    rw [hr, List.map_append, List.map_map]
    congr 1
    · apply List.map_congr_left
      intro j hj
      have hj' : j < m := List.mem_range.mp hj
      rw [Nat.mod_eq_of_lt (by omega)]
      ring
    · apply List.map_congr_left
      intro j hj
      have hj' : j < e := List.mem_range.mp hj
      simp only [Function.comp]
      have : y0 + (m + j) = j + h := by omega
      rw [this, Nat.add_mod_right, Nat.mod_eq_of_lt (by omega)]
      ring
  · -- no wrap inside the row
    have hmw : w ≤ m := by omega
    have hge : w - 1 ≤ m * w / (w + 1) := by
      rw [Nat.le_div_iff_mul_le (by omega)]
      obtain ⟨w', rfl⟩ : ∃ w', w = w' + 1 := ⟨w - 1, by omega⟩
      rw [Nat.add_sub_cancel]
      nlinarith
    rw [if_neg (by omega), incRun_eq]
    simp only
    rw [csub_of_le (by nlinarith), if_pos (by omega)]
    have hdi2 : y0 * w + w * (w + 1) - w = (y0 + w) * w := by
      have : y0 * w + w * (w + 1) = (y0 + w) * w + w := by ring
      rw [this, Nat.add_sub_cancel]
    rw [hdi2]
    simp only
    congr 2
    apply List.map_congr_left
    intro x hx
    have hx' : x < w := List.mem_range.mp hx
    rw [Nat.mod_eq_of_lt (by omega)]
    ring

theorem reindexInputRows_eq (w h : Nat) (hw : 0 < w) (hwh : w ≤ h) (co : Nat.Coprime w h) :
    ∀ rows y di, y + rows = h → (0 < rows → di = (y * w % h) * w) →
      reindexInputRows w (w * h) rows di = some ((List.range (rows * w)).map (fun j => inPos w h (y * w + j))) := by
  intro rows
  induction rows with
  | zero => intro y di _ _; simp [reindexInputRows]
  | succ rows ih =>
    intro y di hy hdi
    have hh : 0 < h := by omega
    rw [hdi (by omega)]
    set y0 := y * w % h with hy0def
    have hy0 : y0 < h := Nat.mod_lt _ hh
    rw [reindexInputRows, reindexInputRow_eq w h y0 hw hwh hy0]
    simp only
    rw [ih (y + 1) _ (by omega)]
    · simp only
      congr 1
      rw [Nat.add_mul rows 1 w, Nat.one_mul, Nat.add_comm (rows * w) w, List.range_add, List.map_append, List.map_map]
      congr 1
      · apply List.map_congr_left
        intro x hx
        have hx' : x < w := List.mem_range.mp hx
        unfold inPos
        rw [Nat.add_comm (y * w) x, Nat.add_mul_mod_self_right, Nat.mod_eq_of_lt hx', Nat.add_comm x (y * w),
          Nat.add_mod (y * w) x h, ← hy0def, Nat.mod_eq_of_lt (lt_of_lt_of_le hx' hwh)]
      · apply List.map_congr_left
        intro j _
        simp only [Function.comp]
        congr 1
        ring
    · intro hrows
      congr 1
      have hmod : (y + 1) * w % h = (y0 + w) % h := by
        rw [Nat.add_mul, Nat.one_mul, Nat.add_mod, ← hy0def]
        by_cases hwh' : w = h
        · subst hwh'; simp
        · rw [Nat.mod_eq_of_lt (by omega : w < h)]
      rw [hmod]
      by_cases hle : y0 + w ≤ h
      · rw [if_pos hle]
        by_cases heq : y0 + w = h
        · -- only possible on the last row
          exfalso
          have h0 : (y + 1) * w % h = 0 := by rw [hmod, heq, Nat.mod_self]
          have hd : h ∣ y + 1 := Nat.Coprime.dvd_of_dvd_mul_right co.symm (Nat.dvd_of_mod_eq_zero h0)
          have := Nat.le_of_dvd (by omega) hd
          omega
        · rw [Nat.mod_eq_of_lt (by omega)]
      · rw [if_neg hle]
        have : y0 + w = (y0 + w - h) + h := by omega
        conv_rhs => rw [this, Nat.add_mod_right, Nat.mod_eq_of_lt (by omega)]

/-- **`reindex_input`**: source element `s` is written to `(s mod w) + (s mod h)·w`
(no underflow in `len - di`, `di -= len`, `di -= w`) -/
theorem reindexInputIdx_eq (w h : Nat) (hw : 0 < w) (hwh : w ≤ h) (co : Nat.Coprime w h) :
    reindexInputIdx w h = some ((List.range (w * h)).map (inPos w h)) := by
  unfold reindexInputIdx
  rw [if_neg (by omega), Nat.mul_div_cancel_left _ hw,
    reindexInputRows_eq w h hw hwh co h 0 0 (by omega) (fun _ => by simp)]
  rw [Nat.mul_comm h w]
  congr 1
  apply List.map_congr_left
  intro j _
  simp

/-! ## Part E2: `reindex_output` -/

/-- the pairs `(x, destination index)` of chunk `y`, in execution order -/
def outRowList (w h y : Nat) : List (Nat × Nat) :=
  (List.range (y * h / w)).map (fun j => (h - y * h / w + j, y * h % w + j * w)) ++
    (List.range (h - y * h / w)).map (fun j => (j, y * h % w + y * h / w * w + j * w))

theorem reindexOutputRow_eq (w h y : Nat) (hw : 0 < w) (hy : y < w) :
    reindexOutputRow w h y = some (outRowList w h y) := by
  unfold reindexOutputRow outRowList
  rw [if_neg (by omega)]
  simp only
  have hq : y * h / w ≤ h := by
    apply Nat.div_le_of_le_mul
    exact Nat.mul_le_mul_right h (le_of_lt hy)
  rw [csub_of_le hq]
  simp only
  rw [Nat.sub_sub_self hq, incRun_eq, incRun_eq]
  simp only
  rw [zip_range_map]
  congr 2
  have := List.zip_map' (f := fun j => h - y * h / w + j) (g := fun j => y * h % w + j * w) (l := List.range (y * h / w))
  exact this

theorem mem_outRowList (w h y : Nat) (hw : 0 < w) (hh : 0 < h) (hy : y < w) (p : Nat × Nat) :
    p ∈ outRowList w h y ↔ p.1 < h ∧ p.2 = (y * h + p.1 * w) % (w * h) := by
  obtain ⟨q, hqdef⟩ : ∃ q, q = y * h / w := ⟨_, rfl⟩
  obtain ⟨r, hrdef⟩ : ∃ r, r = y * h % w := ⟨_, rfl⟩
  have hdm : y * h = r + q * w := by rw [hqdef, hrdef]; exact (Nat.mod_add_div' _ _).symm
  have hr : r < w := by rw [hrdef]; exact Nat.mod_lt _ hw
  have hyh : y * h < w * h := Nat.mul_lt_mul_of_pos_right hy hh
  have hqh : q < h := by rw [hqdef]; exact Nat.div_lt_of_lt_mul hyh
  unfold outRowList
  rw [← hqdef, ← hrdef]
  simp only [List.mem_append, List.mem_map, List.mem_range]
  constructor
  · rintro (⟨j, hj, rfl⟩ | ⟨j, hj, rfl⟩)
    · refine ⟨by simp only; omega, ?_⟩
      simp only
      have e1 : y * h + (h - q + j) * w = r + j * w + w * h := by
        obtain ⟨e, he⟩ : ∃ e, h = q + e := ⟨h - q, by omega⟩
        have : h - q + j = e + j := by omega
        rw [this, hdm, he]; ring
      have hlt : r + j * w < w * h := by
        have : r + j * w < r + q * w := by
          have := Nat.mul_lt_mul_of_pos_right hj hw
          omega
        omega
      rw [e1, Nat.add_mod_right, Nat.mod_eq_of_lt hlt]
    · refine ⟨by simp only; omega, ?_⟩
      simp only
      have e1 : y * h + j * w = r + q * w + j * w := by rw [hdm]
      have hlt : r + q * w + j * w < w * h := by
        have h1 : q + j + 1 ≤ h := by omega
        have h2 : (q + j + 1) * w ≤ h * w := Nat.mul_le_mul_right w h1
        have h3 : (q + j + 1) * w = q * w + j * w + w := by ring
        rw [Nat.mul_comm w h]
        omega
      rw [e1, Nat.mod_eq_of_lt hlt]
  · rintro ⟨hx, hp2⟩
    obtain ⟨x, d⟩ := p
    simp only at hx hp2
    by_cases hxs : h - q ≤ x
    · left
      refine ⟨x - (h - q), by omega, ?_⟩
      have hx' : h - q + (x - (h - q)) = x := by omega
      rw [hx', hp2]
      congr 1
      have e1 : y * h + x * w = r + (x - (h - q)) * w + w * h := by
        obtain ⟨e, he⟩ : ∃ e, h = q + e := ⟨h - q, by omega⟩
        obtain ⟨j, hj⟩ : ∃ j, x = e + j := ⟨x - e, by omega⟩
        have : x - (h - q) = j := by omega
        rw [this, hdm, hj, he]; ring
      have hlt : r + (x - (h - q)) * w < w * h := by
        have hj : x - (h - q) < q := by omega
        have := Nat.mul_lt_mul_of_pos_right hj hw
        omega
      rw [e1, Nat.add_mod_right, Nat.mod_eq_of_lt hlt]
    · right
      refine ⟨x, by omega, ?_⟩
      rw [hp2]
      congr 1
      have e1 : y * h + x * w = r + q * w + x * w := by rw [hdm]
      have hlt : r + q * w + x * w < w * h := by
        have h1 : q + x + 1 ≤ h := by omega
        have h2 : (q + x + 1) * w ≤ h * w := Nat.mul_le_mul_right w h1
        have h3 : (q + x + 1) * w = q * w + x * w + w := by ring
        rw [Nat.mul_comm w h]
        omega
      rw [e1, Nat.mod_eq_of_lt hlt]

theorem reindexOutputRows_eq (w h : Nat) (hw : 0 < w) : ∀ ys : List Nat, (∀ y ∈ ys, y < w) →
    reindexOutputRows w h ys =
      some (ys.flatMap (fun y => (outRowList w h y).map (fun p => (y * h + p.1, p.2)))) := by
  intro ys
  induction ys with
  | nil => intro _; rfl
  | cons y ys ih =>
    intro hys
    rw [reindexOutputRows, reindexOutputRow_eq w h y hw (hys y List.mem_cons_self),
      ih (fun z hz => hys z (List.mem_cons_of_mem _ hz))]
    rfl

/-- **`reindex_output`**: element `x` of chunk `y` (source index `y·h + x`) is written to `(y·h + x·w) mod len`;
`self.height - quotient` does not underflow -/
theorem mem_reindexOutputPairs (w h : Nat) (hw : 0 < w) (hh : 0 < h) :
    ∃ ps, reindexOutputPairs w h = some ps ∧
      ∀ p : Nat × Nat, p ∈ ps ↔ ∃ y, y < w ∧ ∃ x, x < h ∧ p = (y * h + x, (y * h + x * w) % (w * h)) := by
  refine ⟨(List.range w).flatMap (fun y => (outRowList w h y).map (fun p => (y * h + p.1, p.2))), ?_, ?_⟩
  · unfold reindexOutputPairs
    rw [if_neg (by omega), Nat.mul_div_cancel _ hh,
      reindexOutputRows_eq w h hw _ (fun y hy => List.mem_range.mp hy)]
  · intro p
    simp only [List.mem_flatMap, List.mem_map, List.mem_range]
    constructor
    · rintro ⟨y, hy, q, hq, rfl⟩
      obtain ⟨h1, h2⟩ := (mem_outRowList w h y hw hh hy q).mp hq
      exact ⟨y, hy, q.1, h1, by rw [h2]⟩
    · rintro ⟨y, hy, x, hx, rfl⟩
      exact ⟨y, hy, (x, (y * h + x * w) % (w * h)), (mem_outRowList w h y hw hh hy _).mpr ⟨hx, rfl⟩, rfl⟩

/-! ## Part E3: the inverse maps of the two re-indexings -/

theorem inPos_lt (w h s : Nat) (hw : 0 < w) (hh : 0 < h) : inPos w h s < w * h :=
  add_mul_lt _ _ _ _ (Nat.mod_lt _ hw) (Nat.mod_lt _ hh)

theorem inPos_mod (w h s : Nat) : inPos w h s % w = s % w := by
  unfold inPos; rw [Nat.add_mul_mod_self_right, Nat.mod_mod]

theorem inPos_div (w h s : Nat) (hw : 0 < w) : inPos w h s / w = s % h := by
  unfold inPos; rw [Nat.add_mul_div_right _ _ hw, Nat.div_eq_of_lt (Nat.mod_lt _ hw), Nat.zero_add]

/-- the CRT map `rur` inverts `inPos` -/
theorem rur_inPos (w h wInv hInv s : Nat) (hw : 0 < w) (hh : 0 < h) (co : Nat.Coprime w h)
    (hwi : w * wInv % h = 1 % h) (hhi : h * hInv % w = 1 % w) (hs : s < w * h) :
    rur w h wInv hInv (inPos w h s % w) (inPos w h s / w) = s := by
  rw [inPos_mod, inPos_div _ _ _ hw]
  apply crt_unique w h co _ _ (Nat.mod_lt _ (Nat.mul_pos hw hh)) hs
  · exact (rur_mod_w w h wInv hInv _ _ hhi).trans (Nat.mod_mod _ _)
  · exact (rur_mod_h w h wInv hInv _ _ hwi).trans (Nat.mod_mod _ _)

theorem inPos_rur (w h wInv hInv d : Nat)
    (hwi : w * wInv % h = 1 % h) (hhi : h * hInv % w = 1 % w) (hd : d < w * h) :
    inPos w h (rur w h wInv hInv (d % w) (d / w)) = d := by
  have hy : d / w < h := Nat.div_lt_of_lt_mul hd
  unfold inPos
  rw [rur_mod_w _ _ _ _ _ _ hhi, rur_mod_h _ _ _ _ _ _ hwi, Nat.mod_mod, Nat.mod_eq_of_lt hy, Nat.mod_add_div']

/-- the Ruritanian output position of element `x` of chunk `y` -/
def outPos (w h y x : Nat) : Nat := (y * h + x * w) % (w * h)

theorem outPos_mul_wInv (w h wInv y x : Nat) (hwi : w * wInv % h = 1 % h) :
    outPos w h y x * wInv % h = x % h := by
  unfold outPos
  have h1 : (y * h + x * w) % (w * h) ≡ y * h + x * w [MOD h] := by
    unfold Nat.ModEq; rw [Nat.mod_mul_left_mod]
  have h2 : y * h + x * w ≡ 0 + x * w [MOD h] :=
    Nat.ModEq.add_right _ (Nat.modEq_zero_iff_dvd.mpr (Dvd.intro_left _ rfl))
  have h3 : (y * h + x * w) % (w * h) * wInv ≡ x * w * wInv [MOD h] := by
    have := (h1.trans h2).mul_right wInv
    rwa [Nat.zero_add] at this
  have h4 : x * w * wInv ≡ x * 1 [MOD h] := by
    rw [Nat.mul_assoc]; exact Nat.ModEq.mul_left x hwi
  have := h3.trans h4
  rwa [Nat.mul_one] at this

theorem outPos_mul_hInv (w h hInv y x : Nat) (hhi : h * hInv % w = 1 % w) :
    outPos w h y x * hInv % w = y % w := by
  unfold outPos
  have h1 : (y * h + x * w) % (w * h) ≡ y * h + x * w [MOD w] := by
    unfold Nat.ModEq; rw [Nat.mod_mul_right_mod]
  have h2 : y * h + x * w ≡ y * h + 0 [MOD w] :=
    Nat.ModEq.add_left _ (Nat.modEq_zero_iff_dvd.mpr (Dvd.intro_left _ rfl))
  have h3 : (y * h + x * w) % (w * h) * hInv ≡ y * h * hInv [MOD w] := by
    have := (h1.trans h2).mul_right hInv
    rwa [Nat.add_zero] at this
  have h4 : y * h * hInv ≡ y * 1 [MOD w] := by
    rw [Nat.mul_assoc]; exact Nat.ModEq.mul_left y hhi
  have := h3.trans h4
  rwa [Nat.mul_one] at this

theorem outPos_inv (w h wInv hInv k : Nat) (hw : 0 < w) (hh : 0 < h) (co : Nat.Coprime w h)
    (hwi : w * wInv % h = 1 % h) (hhi : h * hInv % w = 1 % w) (hk : k < w * h) :
    outPos w h (k * hInv % w) (k * wInv % h) = k := by
  unfold outPos
  apply crt_unique w h co _ _ (Nat.mod_lt _ (Nat.mul_pos hw hh)) hk
  · rw [Nat.mod_mul_right_mod]
    have h1 : k * hInv % w * h + k * wInv % h * w ≡ k * hInv % w * h + 0 [MOD w] :=
      Nat.ModEq.add_left _ (Nat.modEq_zero_iff_dvd.mpr (Dvd.intro_left _ rfl))
    have h2 : k * hInv % w * h ≡ k * hInv * h [MOD w] := Nat.ModEq.mul_right h (Nat.mod_modEq _ _)
    have h3 : k * hInv * h ≡ k * 1 [MOD w] := by
      rw [Nat.mul_assoc, Nat.mul_comm hInv h]; exact Nat.ModEq.mul_left k hhi
    have := h1.trans ((h2.trans h3).add_right 0)
    rw [Nat.add_zero, Nat.mul_one] at this
    exact this
  · rw [Nat.mod_mul_left_mod]
    have h1 : k * hInv % w * h + k * wInv % h * w ≡ 0 + k * wInv % h * w [MOD h] :=
      Nat.ModEq.add_right _ (Nat.modEq_zero_iff_dvd.mpr (Dvd.intro_left _ rfl))
    have h2 : k * wInv % h * w ≡ k * wInv * w [MOD h] := Nat.ModEq.mul_right w (Nat.mod_modEq _ _)
    have h3 : k * wInv * w ≡ k * 1 [MOD h] := by
      rw [Nat.mul_assoc, Nat.mul_comm wInv w]; exact Nat.ModEq.mul_left k hwi
    have := h1.trans ((h2.trans h3).add_left 0)
    rw [Nat.zero_add, Nat.mul_one] at this
    exact this

end Loops
end RFV
