/-
Soundness of the symbolic checker of `Model/Prog.lean`: if `P.check = true` then, over EVERY commutative ring with a
lawful system of grid cosines (`CosSys`), for every input, each output scalar of the program `P` — the literal operation
sequence of a real butterfly — equals the scalar the DFT prescribes (`pval (expected …)`, spelled out in `pval_expected`).
-/
import Mathlib.Algebra.BigOperators.Ring.Finset
import Mathlib.Algebra.BigOperators.Intervals
import Mathlib.Tactic.Ring
import Mathlib.Tactic.Linarith
import RFV.Model.Prog

open Finset BigOperators

namespace RFV

/-- the laws assumed of the grid cosines `cs a = cos(2π a / N)` (and of `half = 1/2`); hypotheses, never axioms.
`Props/C01Bfly` shows that the real cosines satisfy them. -/
structure CosSys (R : Type) [CommRing R] (N : Nat) where
  half : R
  cs : Nat → R
  two_half : 2 * half = 1
  cs_zero : cs 0 = 1
  cs_mod : ∀ a, cs (a % N) = cs a
  cs_even : ∀ a, a ≤ N → cs (N - a) = cs a
  cs_quarter : cs (N / 4) = 0
  cs_half : ∀ a, cs (a + N / 2) = - cs a
  prod : ∀ a b, 2 * (cs a * cs b) = cs (a + b) + cs (a + (N - b % N))

variable {R : Type} [CommRing R] {N : Nat}

/-- the value of input slot `i` (`0` = the constant 1, `j + 1` = input `j`) -/
def xin (x : Nat → R) : Nat → R
  | 0 => 1
  | j + 1 => x j

def tval (S : CosSys R N) (x : Nat → R) (t : Term) : R :=
  (t.k : R) * S.half ^ t.e * S.cs t.idx * xin x t.inp

def pval (S : CosSys R N) (x : Nat → R) (p : Poly) : R := (p.map (tval S x)).sum

@[simp] theorem pval_nil (S : CosSys R N) (x : Nat → R) : pval S x [] = 0 := rfl

theorem pval_cons (S : CosSys R N) (x : Nat → R) (t : Term) (p : Poly) :
    pval S x (t :: p) = tval S x t + pval S x p := by simp [pval]

theorem pval_append (S : CosSys R N) (x : Nat → R) (p q : Poly) : pval S x (p ++ q) = pval S x p + pval S x q := by
  simp [pval, List.sum_append]

theorem pval_neg (S : CosSys R N) (x : Nat → R) (p : Poly) : pval S x p.neg = - pval S x p := by
  induction p with
  | nil => simp [Poly.neg]
  | cons t p ih =>
    have : Poly.neg (t :: p) = { t with k := -t.k } :: Poly.neg p := rfl
    rw [this, pval_cons, pval_cons, ih]
    simp only [tval, Int.cast_neg]
    ring

theorem half_two (S : CosSys R N) : S.half * 2 = 1 := by rw [mul_comm]; exact S.two_half

/-- product-to-sum on terms -/
theorem pval_termMul (S : CosSys R N) (x : Nat → R) (t u : Term) (h : t.inp = 0 ∨ u.inp = 0) :
    pval S x (Term.mul N t u) = tval S x t * tval S x u := by
  have hx : xin x (t.inp + u.inp) = xin x t.inp * xin x u.inp := by
    rcases h with h | h
    · rw [h]; simp [xin]
    · rw [h]; simp [xin]
  have hp := S.prod t.idx u.idx
  have h2 := half_two S
  simp only [Term.mul, pval_cons, pval_nil, tval, add_zero, Int.cast_mul, hx, pow_succ, pow_add]
  have e1 : S.cs (t.idx + u.idx) + S.cs (t.idx + (N - u.idx % N)) = 2 * (S.cs t.idx * S.cs u.idx) := hp.symm
  calc (t.k : R) * (u.k : R) * (S.half ^ t.e * S.half ^ u.e * S.half) * S.cs (t.idx + u.idx) * (xin x t.inp * xin x u.inp) +
        (t.k : R) * (u.k : R) * (S.half ^ t.e * S.half ^ u.e * S.half) * S.cs (t.idx + (N - u.idx % N)) *
          (xin x t.inp * xin x u.inp)
      = (t.k : R) * (u.k : R) * (S.half ^ t.e * S.half ^ u.e * S.half) *
          (S.cs (t.idx + u.idx) + S.cs (t.idx + (N - u.idx % N))) * (xin x t.inp * xin x u.inp) := by ring
    _ = (t.k : R) * (u.k : R) * (S.half ^ t.e * S.half ^ u.e) * (S.half * 2) * (S.cs t.idx * S.cs u.idx) *
          (xin x t.inp * xin x u.inp) := by rw [e1]; ring
    _ = (t.k : R) * S.half ^ t.e * S.cs t.idx * xin x t.inp * ((u.k : R) * S.half ^ u.e * S.cs u.idx * xin x u.inp) := by
        rw [h2]; ring

theorem hasInput_false {p : Poly} (h : p.hasInput = false) : ∀ t ∈ p, t.inp = 0 := by
  intro t ht
  unfold Poly.hasInput at h
  rw [List.any_eq_false] at h
  have := h t ht
  simpa using this

theorem pval_mul_aux (S : CosSys R N) (x : Nat → R) (q : Poly) : ∀ (p : Poly),
    ((∀ t ∈ p, t.inp = 0) ∨ (∀ u ∈ q, u.inp = 0)) →
    pval S x (p.flatMap (fun t => q.flatMap (fun u => Term.mul N t u))) = pval S x p * pval S x q := by
  intro p
  induction p with
  | nil => intro _; simp
  | cons t p ih =>
    intro hpq
    have hpq' : (∀ t ∈ p, t.inp = 0) ∨ (∀ u ∈ q, u.inp = 0) := by
      rcases hpq with h1 | h1
      · exact Or.inl (fun t' ht' => h1 t' (List.mem_cons_of_mem _ ht'))
      · exact Or.inr h1
    rw [List.flatMap_cons, pval_append, pval_cons, ih hpq', add_mul]
    congr 1
    -- the row of `t`
    have row : ∀ q' : Poly, (∀ u ∈ q', t.inp = 0 ∨ u.inp = 0) →
        pval S x (q'.flatMap (fun u => Term.mul N t u)) = tval S x t * pval S x q' := by
      intro q'
      induction q' with
      | nil => intro _; simp
      | cons u q' ihq =>
        intro hq
        rw [List.flatMap_cons, pval_append, pval_cons, mul_add,
          pval_termMul S x t u (hq u (List.mem_cons_self ..)),
          ihq (fun u' hu' => hq u' (List.mem_cons_of_mem _ hu'))]
    apply row
    intro u hu
    rcases hpq with h1 | h1
    · exact Or.inl (h1 t (List.mem_cons_self ..))
    · exact Or.inr (h1 u hu)

theorem pval_mul (S : CosSys R N) (x : Nat → R) (p q : Poly) (h : (p.hasInput && q.hasInput) = false) :
    pval S x (Poly.mul N p q) = pval S x p * pval S x q := by
  have hpq : (∀ t ∈ p, t.inp = 0) ∨ (∀ u ∈ q, u.inp = 0) := by
    cases hp : p.hasInput with
    | false => exact Or.inl (hasInput_false hp)
    | true =>
      rw [hp] at h
      simp only [Bool.true_and] at h
      exact Or.inr (hasInput_false h)
  exact pval_mul_aux S x q p hpq

/-! ### the symbolic run follows the real run -/

/-- pointwise agreement of the two register files -/
def Agree (S : CosSys R N) (x : Nat → R) : List Poly → List R → Prop
  | [], [] => True
  | p :: ps, v :: vs => pval S x p = v ∧ Agree S x ps vs
  | _, _ => False

theorem Agree.getD {S : CosSys R N} {x : Nat → R} : ∀ {ps : List Poly} {vs : List R}, Agree S x ps vs →
    ∀ i, pval S x (ps.getD i []) = vs.getD i 0
  | [], [], _, i => by simp
  | p :: ps, v :: vs, h, 0 => by simpa using h.1
  | p :: ps, v :: vs, h, i + 1 => by
    simpa using Agree.getD h.2 i
  | [], _ :: _, h, _ => by cases h
  | _ :: _, [], h, _ => by cases h

theorem symStep_sound (S : CosSys R N) (x : Nat → R) (size : Nat) (ps : List Poly) (vs : List R)
    (h : Agree S x ps vs) (ins : Nat × Nat × Nat) (p : Poly) (hs : symStep N size ps ins = some p) :
    pval S x p = stepInstr S.cs x size vs ins := by
  obtain ⟨op, a, b⟩ := ins
  have hg := Agree.getD h
  unfold symStep at hs
  unfold stepInstr
  match op, hs with
  | 0, hs =>
    simp only [Option.some.injEq] at hs; subst hs
    simp [pval_cons, tval, xin, S.cs_zero]
  | 1, hs =>
    simp only [Option.some.injEq] at hs; subst hs
    simp [pval_cons, tval, xin]
  | 2, hs =>
    simp only at hs
    split at hs
    · simp only [Option.some.injEq] at hs; subst hs
      simp only [pval_append, hg]
    · cases hs
  | 3, hs =>
    simp only at hs
    split at hs
    · simp only [Option.some.injEq] at hs; subst hs
      simp only [pval_append, pval_neg, hg]; ring
    · cases hs
  | 4, hs =>
    simp only at hs
    split at hs
    · split at hs
      · cases hs
      · rename_i hh
        simp only [Option.some.injEq] at hs; subst hs
        rw [pval_mul S x _ _ (by simpa using hh)]
        simp only [hg]
    · cases hs
  | 5, hs =>
    simp only at hs
    split at hs
    · simp only [Option.some.injEq] at hs; subst hs
      simp only [pval_neg, hg]
    · cases hs
  | n + 6, hs => simp at hs

theorem symRun_sound (S : CosSys R N) (x : Nat → R) : ∀ (code : List (Nat × Nat × Nat)) (size : Nat) (ps : List Poly)
    (vs : List R), Agree S x ps vs → ∀ size' ps', symRun N code size ps = some (size', ps') →
    (runL S.cs x code size vs).1 = size' ∧ Agree S x ps' (runL S.cs x code size vs).2 := by
  intro code
  induction code with
  | nil =>
    intro size ps vs h size' ps' hr
    simp only [symRun, Option.some.injEq, Prod.mk.injEq] at hr
    obtain ⟨rfl, rfl⟩ := hr
    exact ⟨rfl, h⟩
  | cons ins rest ih =>
    intro size ps vs h size' ps' hr
    simp only [symRun] at hr
    split at hr
    · cases hr
    · rename_i p hp
      simp only [runL]
      have hag : Agree S x (p :: ps) (stepInstr S.cs x size vs ins :: vs) :=
        show pval S x p = _ ∧ Agree S x ps vs from ⟨symStep_sound S x size ps vs h ins p hp, h⟩
      exact ih (size + 1) (p :: ps) _ hag size' ps' hr

/-! ### cancellation -/

/-- value of a list of (key, integer coefficient) pairs under a valuation of the keys -/
def nval (b : Nat × Nat → R) (l : List ((Nat × Nat) × Int)) : R := (l.map (fun u => (u.2 : R) * b u.1)).sum

theorem nval_filter_add (b : Nat × Nat → R) (l : List ((Nat × Nat) × Int)) (p : (Nat × Nat) × Int → Bool) :
    nval b l = nval b (l.filter p) + nval b (l.filter (fun u => !p u)) := by
  induction l with
  | nil => simp [nval]
  | cons u l ih =>
    unfold nval at ih ⊢
    cases hp : p u with
    | true =>
      simp only [List.filter_cons, hp, List.map_cons, List.sum_cons, if_true, Bool.not_true, Bool.false_eq_true,
        if_false]
      rw [ih]; ring
    | false =>
      simp only [List.filter_cons, hp, List.map_cons, List.sum_cons, Bool.false_eq_true, if_false, Bool.not_false,
        if_true]
      rw [ih]; ring

theorem foldl_add_eq_sum (l : List Int) : l.foldl (· + ·) 0 = l.sum := by
  have gen : ∀ (l : List Int) (a : Int), l.foldl (· + ·) a = a + l.sum := by
    intro l
    induction l with
    | nil => intro a; simp
    | cons x l ih => intro a; simp only [List.foldl_cons, List.sum_cons, ih]; ring
  simpa using gen l 0

theorem nval_same (b : Nat × Nat → R) (k : Nat × Nat) (l : List ((Nat × Nat) × Int)) (h : ∀ u ∈ l, u.1 = k) :
    nval b l = (((l.map (·.2)).sum : Int) : R) * b k := by
  induction l with
  | nil => simp [nval]
  | cons u l ih =>
    have hu := h u (List.mem_cons_self ..)
    have ih' := ih (fun v hv => h v (List.mem_cons_of_mem _ hv))
    unfold nval at ih' ⊢
    simp only [List.map_cons, List.sum_cons, Int.cast_add, ih', hu]
    ring

theorem vanishN_sound (b : Nat × Nat → R) : ∀ (fuel : Nat) (l : List ((Nat × Nat) × Int)),
    l.length ≤ fuel → vanishN fuel l = true → nval b l = 0 := by
  intro fuel
  induction fuel with
  | zero =>
    intro l hl _
    have : l = [] := List.eq_nil_of_length_eq_zero (by omega)
    subst this; simp [nval]
  | succ fuel ih =>
    intro l hl hv
    match l, hl, hv with
    | [], _, _ => simp [nval]
    | t :: rest, hl, hv =>
      simp only [vanishN, Bool.and_eq_true, beq_iff_eq] at hv
      obtain ⟨hsum, hrest⟩ := hv
      have hlen : (rest.filter (fun u => ¬ (u.1 = t.1))).length ≤ fuel := by
        have := List.length_filter_le (fun u => decide (¬ (u.1 = t.1))) rest
        simp only [List.length_cons] at hl
        omega
      have h0 := ih _ hlen hrest
      have hsplit := nval_filter_add b rest (fun u => decide (u.1 = t.1))
      have hsame := nval_same b t.1 (rest.filter (fun u => decide (u.1 = t.1)))
        (by intro u hu; simpa using (List.mem_filter.mp hu).2)
      have hcons : nval b (t :: rest) = (t.2 : R) * b t.1 + nval b rest := by simp [nval]
      rw [hcons, hsplit, hsame]
      have hf : (rest.filter (fun u => !decide (u.1 = t.1))) = rest.filter (fun u => decide (¬ (u.1 = t.1))) := by
        congr 1; funext u; simp
      rw [hf, h0, add_zero, ← add_mul]
      rw [foldl_add_eq_sum] at hsum
      have : ((t.2 + ((rest.filter (fun u => decide (u.1 = t.1))).map (·.2)).sum : Int) : R) = 0 := by
        rw [hsum]; simp
      rw [Int.cast_add] at this
      rw [this, zero_mul]

/-- `cos(2π·idx/N) = sign · cos(2π·a'/N)` -/
theorem canon_sound (S : CosSys R N) (h4 : 4 ∣ N) (hN : 0 < N) (idx : Nat) :
    S.cs idx = ((canon N idx).1 : R) * S.cs (canon N idx).2 := by
  obtain ⟨q, rfl⟩ := h4
  have hq : 0 < q := by omega
  have h2 : 4 * q / 2 = 2 * q := by omega
  have h4' : 4 * q / 4 = q := by omega
  set r := idx % (4 * q) with hr
  have hrl : r < 4 * q := Nat.mod_lt _ (by omega)
  have e0 : S.cs idx = S.cs r := (S.cs_mod idx).symm
  unfold canon
  simp only [← hr, h2, h4']
  -- r1
  by_cases c1 : r > 2 * q
  · simp only [c1, if_true]
    have e1 : S.cs r = S.cs (4 * q - r) := (S.cs_even (4 * q - r) (by omega) ▸ by
      have : 4 * q - (4 * q - r) = r := by omega
      rw [this])
    by_cases c2 : 4 * q - r = q
    · simp only [c2, if_true, Int.cast_zero, zero_mul]
      rw [e0, e1, c2]; have := S.cs_quarter; rwa [h4'] at this
    · simp only [c2, if_false]
      by_cases c3 : 4 * q - r > q
      · simp only [c3, if_true, Int.cast_neg, Int.cast_one, neg_mul, one_mul]
        -- cs (r1) = - cs (2q - r1),  r1 = 4q - r
        have hh := S.cs_half (2 * q - (4 * q - r))
        rw [h2] at hh
        have e2 : 2 * q - (4 * q - r) + 2 * q = r := by omega
        rw [e2] at hh
        rw [e0, hh]
      · simp only [c3, if_false, Int.cast_one, one_mul]
        rw [e0, e1]
  · simp only [c1, if_false]
    by_cases c2 : r = q
    · simp only [c2, if_true, Int.cast_zero, zero_mul]
      rw [e0, c2]; have := S.cs_quarter; rwa [h4'] at this
    · simp only [c2, if_false]
      by_cases c3 : r > q
      · simp only [c3, if_true, Int.cast_neg, Int.cast_one, neg_mul, one_mul]
        -- cs r = - cs (2q - r):  cs (2q - r + 2q) = - cs (2q - r), and cs (4q - r) = cs r
        have hh := S.cs_half (2 * q - r)
        rw [h2] at hh
        have e2 : 2 * q - r + 2 * q = 4 * q - r := by omega
        rw [e2, S.cs_even r (by omega)] at hh
        rw [e0, hh]
      · simp only [c3, if_false, Int.cast_one, one_mul]
        exact e0

theorem half_pow_scale (S : CosSys R N) (e E : Nat) (h : e ≤ E) :
    S.half ^ e = ((2 : Int) ^ (E - e) : Int) * S.half ^ E := by
  have h2 := half_two S
  obtain ⟨d, rfl⟩ := Nat.exists_eq_add_of_le h
  simp only [Nat.add_sub_cancel_left, Int.cast_pow, Int.cast_ofNat, pow_add]
  have : (2 : R) ^ d * S.half ^ d = 1 := by rw [← mul_pow, mul_comm, h2, one_pow]
  calc S.half ^ e = S.half ^ e * ((2 : R) ^ d * S.half ^ d) := by rw [this, mul_one]
    _ = (2 : R) ^ d * (S.half ^ e * S.half ^ d) := by ring

/-- a term's value through its normal form -/
theorem tval_norm (S : CosSys R N) (h4 : 4 ∣ N) (hN : 0 < N) (x : Nat → R) (E : Nat) (t : Term) (he : t.e ≤ E) :
    tval S x t = ((t.norm N E).2 : R) * (S.half ^ E * S.cs (t.norm N E).1.2 * xin x (t.norm N E).1.1) := by
  unfold tval Term.norm
  simp only [Int.cast_mul]
  rw [canon_sound S h4 hN t.idx, half_pow_scale S t.e E he]
  ring

theorem pval_eq_nval (S : CosSys R N) (h4 : 4 ∣ N) (hN : 0 < N) (x : Nat → R) (E : Nat) (l : List Term)
    (he : ∀ t ∈ l, t.e ≤ E) :
    pval S x l = nval (fun k => S.half ^ E * S.cs k.2 * xin x k.1) (l.map (Term.norm N E)) := by
  induction l with
  | nil => simp [nval]
  | cons t l ih =>
    rw [pval_cons, ih (fun u hu => he u (List.mem_cons_of_mem _ hu)),
      tval_norm S h4 hN x E t (he t (List.mem_cons_self ..))]
    simp [nval]

/-- split a polynomial by input -/
theorem pval_split (S : CosSys R N) (x : Nat → R) (m : Nat) (l : List Term) (h : ∀ t ∈ l, t.inp ≤ m) :
    pval S x l = ∑ j ∈ range (m + 1), pval S x (l.filter (fun t => t.inp = j)) := by
  induction l with
  | nil => simp
  | cons t l ih =>
    rw [pval_cons, ih (fun u hu => h u (List.mem_cons_of_mem _ hu))]
    have ht := h t (List.mem_cons_self ..)
    have key : ∀ j, pval S x ((t :: l).filter (fun u => u.inp = j)) =
        (if t.inp = j then tval S x t else 0) + pval S x (l.filter (fun u => u.inp = j)) := by
      intro j
      by_cases c : t.inp = j
      · simp [List.filter_cons, c, pval_cons]
      · simp [List.filter_cons, c]
    simp only [key, Finset.sum_add_distrib]
    congr 1
    rw [Finset.sum_ite_eq (range (m + 1)) t.inp (fun _ => tval S x t)]
    simp [Finset.mem_range]; omega

theorem vanish_sound (S : CosSys R N) (h4 : 4 ∣ N) (hN : 0 < N) (x : Nat → R) (E m : Nat) (l : List Term)
    (he : ∀ t ∈ l, t.e ≤ E) (hv : vanish N E m l = true) : pval S x l = 0 := by
  unfold vanish at hv
  simp only [Bool.and_eq_true, List.all_eq_true, decide_eq_true_eq, List.mem_range] at hv
  obtain ⟨hin, hall⟩ := hv
  rw [pval_split S x m l hin]
  apply Finset.sum_eq_zero
  intro j hj
  have hj' : j < m + 1 := Finset.mem_range.mp hj
  have hjv := hall j hj'
  have hmem : ∀ t ∈ l.filter (fun t => decide (t.inp = j)), t.e ≤ E := fun t ht => he t (List.mem_filter.mp ht).1
  rw [pval_eq_nval S h4 hN x E _ hmem]
  exact vanishN_sound _ (l.filter (fun t => decide (t.inp = j))).length _ (by simp) hjv

theorem maxE_ge (l : List Term) : ∀ t ∈ l, t.e ≤ maxE l := by
  unfold maxE
  have gen : ∀ (l : List Term) (m : Nat), m ≤ l.foldl (fun m t => max m t.e) m ∧
      ∀ t ∈ l, t.e ≤ l.foldl (fun m t => max m t.e) m := by
    intro l
    induction l with
    | nil => intro m; simp
    | cons u l ih =>
      intro m
      simp only [List.foldl_cons]
      obtain ⟨h1, h2⟩ := ih (max m u.e)
      refine ⟨le_trans (le_max_left _ _) h1, ?_⟩
      intro t ht
      rcases List.mem_cons.mp ht with rfl | ht
      · exact le_trans (le_max_right _ _) h1
      · exact h2 t ht
  exact (gen l 0).2

/-! ### the checker -/

/-- **soundness of `RawProg.check`**: every output scalar of the program equals the polynomial the DFT prescribes,
over every commutative ring with a lawful cosine system, for every input -/
theorem check_sound (P : RawProg) (h : P.check = true) (S : CosSys R P.grid) (x : Nat → R) :
    ∀ o, o < 2 * P.n →
      regOf (P.run S.cs x) (P.outs.getD o 0) = pval S x (expected P.n P.grid P.inverse o) := by
  unfold RawProg.check at h
  simp only [Bool.and_eq_true, beq_iff_eq, decide_eq_true_eq] at h
  obtain ⟨⟨⟨⟨⟨hg4, hN⟩, hn⟩, hgn⟩, hlen⟩, hrun⟩ := h
  have h4 : 4 ∣ P.grid := Nat.dvd_of_mod_eq_zero hg4
  intro o ho
  split at hrun
  · cases hrun
  · rename_i size regs hsym
    obtain ⟨hsz, hag⟩ := symRun_sound S x P.code 0 [] [] trivial size regs hsym
    rw [List.all_eq_true] at hrun
    have hro := hrun o (List.mem_range.mpr ho)
    simp only [Bool.and_eq_true, decide_eq_true_eq, List.all_eq_true] at hro
    obtain ⟨hr, hE, hv⟩ := hro
    have hd := vanish_sound S h4 hN x _ (2 * P.n) _ (fun t ht => hE t ht) hv
    rw [pval_append, pval_neg] at hd
    have hreg := Agree.getD hag (size - 1 - P.outs.getD o 0)
    unfold regOf RawProg.run
    rw [hsz, ← hreg]
    exact sub_eq_zero.mp (by rw [sub_eq_add_neg]; exact hd)

end RFV
