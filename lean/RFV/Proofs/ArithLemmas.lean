/-
Helper lemmas about the L0 arithmetic model (`RFV/Model/Arith.lean`): `strip`, the trial-division loop,
`PrimeFactors.compute`, `PrimeFactors.partition`, `productAbove`.
-/
import Mathlib.Data.Nat.Prime.Basic
import Mathlib.Data.Nat.Sqrt
import Mathlib.Tactic.Ring
import Mathlib.Tactic.Linarith
import RFV.Model.Arith

namespace RFV

/-! ### `strip` -/

theorem stripAux_eq (d : Nat) (hd : 1 < d) (m : Nat) (hm : 0 < m) (hnd : ¬ d ∣ m) :
    ∀ k fuel c, m * d ^ k ≤ fuel → stripAux d fuel (m * d ^ k) c = (m, c + k) := by
  intro k
  induction k with
  | zero =>
    intro fuel c _
    cases fuel with
    | zero => simp [stripAux]
    | succ f =>
      have : ¬ (m % d = 0) := fun h => hnd (Nat.dvd_of_mod_eq_zero h)
      simp [stripAux, this]
  | succ k ih =>
    intro fuel c hle
    have hdk : 0 < d ^ k := Nat.pow_pos (by omega)
    have hpos : 0 < m * d ^ k := Nat.mul_pos hm hdk
    have hEq : m * d ^ (k + 1) = (m * d ^ k) * d := by rw [pow_succ, Nat.mul_assoc]
    have hlt : m * d ^ k < m * d ^ (k + 1) := by
      rw [hEq]; nlinarith
    cases fuel with
    | zero => omega
    | succ f =>
      have h1 : (m * d ^ (k + 1)) % d = 0 := by rw [hEq]; exact Nat.mul_mod_left _ _
      have h2 : 0 < m * d ^ (k + 1) := by omega
      have h3 : m * d ^ (k + 1) / d = m * d ^ k := by
        rw [hEq]; exact Nat.mul_div_cancel _ (by omega)
      rw [stripAux, if_pos ⟨h1, h2⟩, h3, ih f (c + 1) (by omega)]
      congr 1; omega

theorem strip_eq (d : Nat) (hd : 1 < d) (m k : Nat) (hm : 0 < m) (hnd : ¬ d ∣ m) :
    strip d (m * d ^ k) = (m, k) := by
  unfold strip
  rw [stripAux_eq d hd m hm hnd k _ 0 (Nat.le_refl _)]; simp

theorem exists_strip_decomp (d n : Nat) (hd : 1 < d) (hn : 0 < n) :
    ∃ m k, 0 < m ∧ ¬ d ∣ m ∧ n = m * d ^ k := by
  induction n using Nat.strong_induction_on with
  | _ n ih =>
    by_cases h : d ∣ n
    · obtain ⟨q, rfl⟩ := h
      have hq : 0 < q := Nat.pos_of_ne_zero (by rintro rfl; simp at hn)
      have hlt : q < d * q := by nlinarith
      obtain ⟨m, k, hm, hnd, hqe⟩ := ih q hlt hq
      refine ⟨m, k + 1, hm, hnd, ?_⟩
      rw [hqe, pow_succ]; ring
    · exact ⟨n, 0, hn, h, by simp⟩

theorem strip_prop (d n : Nat) (hd : 1 < d) (hn : 0 < n) :
    n = (strip d n).1 * d ^ (strip d n).2 ∧ ¬ d ∣ (strip d n).1 ∧ 0 < (strip d n).1 := by
  obtain ⟨m, k, hm, hnd, rfl⟩ := exists_strip_decomp d n hd hn
  rw [strip_eq d hd m k hm hnd]
  exact ⟨rfl, hnd, hm⟩

/-! ### trial division -/

/-- product of the prime powers of a factor list -/
def prodOf (l : List PrimeFactor) : Nat := (l.map (fun x => x.value ^ x.count)).prod
/-- sum of the exponents of a factor list -/
def sumCounts (l : List PrimeFactor) : Nat := (l.map (fun x => x.count)).sum

@[simp] theorem prodOf_nil : prodOf [] = 1 := rfl
@[simp] theorem prodOf_cons (x : PrimeFactor) (l) : prodOf (x :: l) = x.value ^ x.count * prodOf l := by
  simp [prodOf]
@[simp] theorem prodOf_append (l₁ l₂) : prodOf (l₁ ++ l₂) = prodOf l₁ * prodOf l₂ := by
  simp [prodOf, List.prod_append]
@[simp] theorem sumCounts_nil : sumCounts [] = 0 := rfl
@[simp] theorem sumCounts_cons (x : PrimeFactor) (l) : sumCounts (x :: l) = x.count + sumCounts l := by
  simp [sumCounts]
@[simp] theorem sumCounts_append (l₁ l₂) : sumCounts (l₁ ++ l₂) = sumCounts l₁ + sumCounts l₂ := by
  simp [sumCounts, List.sum_append]

theorem sqrtLimit_le_iff (n d : Nat) : sqrtLimit n ≤ d ↔ n < d ^ 2 := by
  unfold sqrtLimit
  rw [← Nat.sqrt_lt']; omega

theorem sqrtLimit_mono {a b : Nat} (h : a ≤ b) : sqrtLimit a ≤ sqrtLimit b := by
  unfold sqrtLimit; have := Nat.sqrt_le_sqrt h; omega

theorem prime_of_no_small_factor (n dv : Nat) (h1 : 1 < n)
    (hp : ∀ p, Nat.Prime p → p ∣ n → dv ≤ p) (hlt : n < dv ^ 2) : Nat.Prime n ∧ dv ≤ n := by
  have hmf : Nat.Prime n.minFac := Nat.minFac_prime (by omega)
  have hdv : dv ≤ n.minFac := hp _ hmf (Nat.minFac_dvd n)
  refine ⟨?_, le_trans hdv (Nat.minFac_le (by omega))⟩
  by_contra hnp
  have := Nat.minFac_sq_le_self (by omega : 0 < n) hnp
  have : dv ^ 2 ≤ n.minFac ^ 2 := Nat.pow_le_pow_left hdv 2
  omega

theorem trialLoop_spec : ∀ fuel n dv acc tot dis,
    0 < n → 5 ≤ dv → dv % 2 = 1 →
    (∀ p, Nat.Prime p → p ∣ n → dv ≤ p) →
    sqrtLimit n ≤ dv + fuel →
    ∃ n' fs, trialLoop fuel n dv (sqrtLimit n) acc tot dis
        = (n', acc ++ fs, tot + sumCounts fs, dis + fs.length) ∧
      0 < n' ∧ n = n' * prodOf fs ∧
      (∀ x ∈ fs, 1 ≤ x.count ∧ dv ≤ x.value ∧ Nat.Prime x.value) ∧
      fs.Pairwise (fun a b => a.value < b.value) ∧
      (1 < n' → Nat.Prime n' ∧ dv ≤ n' ∧ ∀ x ∈ fs, x.value < n') := by
  intro fuel
  induction fuel with
  | zero =>
    intro n dv acc tot dis hn h5 hodd hp hfuel
    refine ⟨n, [], by simp [trialLoop], hn, by simp, by simp, by simp, ?_⟩
    intro h1
    have := prime_of_no_small_factor n dv h1 hp ((sqrtLimit_le_iff n dv).1 (by omega))
    exact ⟨this.1, this.2, by simp⟩
  | succ fuel ih =>
    intro n dv acc tot dis hn h5 hodd hp hfuel
    rw [trialLoop]
    by_cases hlt : dv < sqrtLimit n
    · rw [if_pos hlt]
      obtain ⟨m, k, hm, hnd, hnm⟩ := exists_strip_decomp dv n (by omega) hn
      have hs : strip dv n = (m, k) := by rw [hnm]; exact strip_eq dv (by omega) m k hm hnd
      rw [hs]
      simp only
      by_cases hk : k > 0
      · rw [if_pos hk]
        -- dv is prime
        have hdvn : dv ∣ n := by
          rw [hnm]; exact Dvd.dvd.mul_left (dvd_pow_self dv (by omega)) m
        have hdvp : Nat.Prime dv := by
          have hmf : Nat.Prime dv.minFac := Nat.minFac_prime (by omega)
          have h1 : dv ≤ dv.minFac := hp _ hmf (dvd_trans (Nat.minFac_dvd dv) hdvn)
          have h2 : dv.minFac ≤ dv := Nat.minFac_le (by omega)
          have : dv.minFac = dv := by omega
          rw [← this]; exact hmf
        have hmn : m ∣ n := by rw [hnm]; exact Dvd.intro _ rfl
        have hp' : ∀ p, Nat.Prime p → p ∣ m → dv + 2 ≤ p := by
          intro p pp pm
          have h1 := hp p pp (dvd_trans pm hmn)
          have h2 : p ≠ dv := by rintro rfl; exact hnd pm
          have h3 : p ≠ dv + 1 := by
            rintro rfl
            rcases Nat.Prime.eq_two_or_odd pp with h | h <;> omega
          omega
        have hmle : m ≤ n := Nat.le_of_dvd hn hmn
        have hfuel' : sqrtLimit m ≤ dv + 2 + fuel := by
          have := sqrtLimit_mono hmle; omega
        obtain ⟨n', fs, he, hn', hprod, hent, hsorted, hfin⟩ :=
          ih m (dv + 2) (acc ++ [⟨dv, k⟩]) (tot + k) (dis + 1) hm (by omega) (by omega) hp' hfuel'
        refine ⟨n', ⟨dv, k⟩ :: fs, ?_, hn', ?_, ?_, ?_, ?_⟩
        · rw [he]; simp [List.append_assoc]; omega
        · rw [hnm, hprod]; simp; ring
        · intro x hx
          rcases List.mem_cons.1 hx with rfl | hx
          · exact ⟨hk, le_refl _, hdvp⟩
          · have := hent x hx; exact ⟨this.1, by omega, this.2.2⟩
        · refine List.pairwise_cons.2 ⟨?_, hsorted⟩
          intro x hx; have := (hent x hx).2.1; simp only; omega
        · intro h1
          obtain ⟨q1, q2, q3⟩ := hfin h1
          refine ⟨q1, by omega, ?_⟩
          intro x hx
          rcases List.mem_cons.1 hx with rfl | hx
          · simp only; omega
          · exact q3 x hx
      · rw [if_neg hk]
        have hk0 : k = 0 := by omega
        subst hk0
        have hmn : m = n := by rw [hnm]; simp
        subst hmn
        have hp' : ∀ p, Nat.Prime p → p ∣ m → dv + 2 ≤ p := by
          intro p pp pm
          have h1 := hp p pp pm
          have h2 : p ≠ dv := by rintro rfl; exact hnd pm
          have h3 : p ≠ dv + 1 := by
            rintro rfl
            rcases Nat.Prime.eq_two_or_odd pp with h | h <;> omega
          omega
        obtain ⟨n', fs, he, hn', hprod, hent, hsorted, hfin⟩ :=
          ih m (dv + 2) acc tot dis hm (by omega) (by omega) hp' (by omega)
        refine ⟨n', fs, he, hn', hprod, ?_, hsorted, ?_⟩
        · intro x hx; have := hent x hx; exact ⟨this.1, by omega, this.2.2⟩
        · intro h1
          obtain ⟨q1, q2, q3⟩ := hfin h1
          exact ⟨q1, by omega, q3⟩
    · rw [if_neg hlt]
      refine ⟨n, [], by simp, hn, by simp, by simp, by simp, ?_⟩
      intro h1
      have := prime_of_no_small_factor n dv h1 hp ((sqrtLimit_le_iff n dv).1 (by omega))
      exact ⟨this.1, this.2, by simp⟩

/-! ### `PrimeFactors.compute` -/

/-- Well-formedness of a `PrimeFactors` value: it really is the prime factorisation of `f.n`. -/
structure PrimeFactors.WF (f : PrimeFactors) : Prop where
  pos : 0 < f.n
  prod_eq : f.n = 2 ^ f.p2 * 3 ^ f.p3 * prodOf f.others
  entries : ∀ x ∈ f.others, 1 ≤ x.count ∧ 5 ≤ x.value ∧ Nat.Prime x.value
  sorted : f.others.Pairwise (fun a b => a.value < b.value)
  total_eq : f.total = f.p2 + f.p3 + sumCounts f.others
  distinct_eq : f.distinct = (if f.p2 > 0 then 1 else 0) + (if f.p3 > 0 then 1 else 0) + f.others.length

theorem compute_spec (n : Nat) (hn : 0 < n) :
    ∃ f, PrimeFactors.compute n = .ok f ∧ f.WF ∧ f.n = n ∧ f.p2 = (strip 2 n).2 := by
  obtain ⟨n1, p2, hn1, h2, e1⟩ := exists_strip_decomp 2 n (by omega) hn
  obtain ⟨n2, p3, hn2, h3, e2⟩ := exists_strip_decomp 3 n1 (by omega) hn1
  have hs2 : strip 2 n = (n1, p2) := by rw [e1]; exact strip_eq 2 (by omega) n1 p2 hn1 h2
  have hs3 : strip 3 n1 = (n2, p3) := by rw [e2]; exact strip_eq 3 (by omega) n2 p3 hn2 h3
  have hn21 : n2 ∣ n1 := by rw [e2]; exact Dvd.intro _ rfl
  have h22 : ¬ 2 ∣ n2 := fun h => h2 (dvd_trans h hn21)
  unfold PrimeFactors.compute
  rw [if_neg (by omega), hs2]
  simp only [hs3]
  by_cases hgt : n2 > 1
  · rw [if_pos hgt]
    have hp : ∀ p, Nat.Prime p → p ∣ n2 → 5 ≤ p := by
      intro p pp pd
      have := pp.two_le
      have h2' : p ≠ 2 := by rintro rfl; exact h22 pd
      have h3' : p ≠ 3 := by rintro rfl; exact h3 pd
      have h4' : p ≠ 4 := by rintro rfl; revert pp; decide
      omega
    have hfuel : sqrtLimit n2 ≤ 5 + n2 := by
      unfold sqrtLimit; have := Nat.sqrt_le_self n2; omega
    obtain ⟨n3, fs, he, hn3, hprod, hent, hsorted, hfin⟩ :=
      trialLoop_spec n2 n2 5 [] (p2 + p3) (if p3 > 0 then (if p2 > 0 then 1 else 0) + 1 else (if p2 > 0 then 1 else 0))
        hn2 (by omega) (by omega) hp hfuel
    rw [he]
    simp only [List.nil_append]
    by_cases hgt3 : n3 > 1
    · rw [if_pos hgt3]
      obtain ⟨q1, q2, q3⟩ := hfin hgt3
      refine ⟨_, rfl, ⟨hn, ?_, ?_, ?_, ?_, ?_⟩, rfl, rfl⟩
      · simp only [prodOf_append, prodOf_cons, prodOf_nil]
        rw [e1, e2, hprod]; ring
      · intro x hx
        rcases List.mem_append.1 hx with hx | hx
        · exact hent x hx
        · simp at hx; subst hx; exact ⟨le_refl _, q2, q1⟩
      · rw [List.pairwise_append]
        refine ⟨hsorted, by simp, ?_⟩
        intro a ha b hb
        simp at hb; subst hb; exact q3 a ha
      · simp; omega
      · simp only [List.length_append, List.length_cons, List.length_nil]
        split <;> split <;> omega
    · rw [if_neg hgt3]
      have : n3 = 1 := by omega
      subst this
      refine ⟨_, rfl, ⟨hn, ?_, hent, hsorted, ?_, ?_⟩, rfl, rfl⟩
      · show n = 2 ^ p2 * 3 ^ p3 * prodOf fs
        rw [e1, e2, hprod]; ring
      · simp
      · dsimp only
        split <;> split <;> omega
  · rw [if_neg hgt]
    have : n2 = 1 := by omega
    subst this
    refine ⟨_, rfl, ⟨hn, ?_, by simp, by simp, by simp, ?_⟩, rfl, rfl⟩
    · show n = 2 ^ p2 * 3 ^ p3 * prodOf []
      rw [e1, e2]; simp; ring
    · show _ = (if p2 > 0 then 1 else 0) + (if p3 > 0 then 1 else 0) + ([] : List PrimeFactor).length
      split <;> split <;> simp

/-! ### factor lists -/

/-- the entry invariant of `PrimeFactors.others` -/
abbrev GoodEntries (l : List PrimeFactor) : Prop :=
  ∀ x ∈ l, 1 ≤ x.count ∧ 5 ≤ x.value ∧ Nat.Prime x.value

theorem GoodEntries.tail {x : PrimeFactor} {l} (h : GoodEntries (x :: l)) : GoodEntries l :=
  fun y hy => h y (List.mem_cons_of_mem _ hy)

theorem five_le_pow {v c : Nat} (hv : 5 ≤ v) (hc : 1 ≤ c) : 5 ≤ v ^ c :=
  le_trans hv (Nat.le_self_pow (by omega) v)

theorem prodOf_pos (l : List PrimeFactor) (h : GoodEntries l) : 0 < prodOf l := by
  induction l with
  | nil => simp
  | cons x l ih =>
    have hx := h x (List.mem_cons_self ..)
    rw [prodOf_cons]
    exact Nat.mul_pos (Nat.pow_pos (by omega)) (ih h.tail)

theorem five_le_prodOf (l : List PrimeFactor) (h : GoodEntries l) (hne : l ≠ []) : 5 ≤ prodOf l := by
  cases l with
  | nil => exact absurd rfl hne
  | cons x l =>
    have hx := h x (List.mem_cons_self ..)
    rw [prodOf_cons]
    have h1 := five_le_pow hx.2.1 hx.1
    have h2 := prodOf_pos l h.tail
    nlinarith

theorem length_le_sumCounts (l : List PrimeFactor) (h : GoodEntries l) : l.length ≤ sumCounts l := by
  induction l with
  | nil => simp
  | cons x l ih =>
    have hx := h x (List.mem_cons_self ..)
    have := ih h.tail
    simp; omega

theorem prodOf_prime_sumCounts (l : List PrimeFactor) (h : GoodEntries l) (hp : Nat.Prime (prodOf l)) :
    sumCounts l = 1 := by
  cases l with
  | nil => simp at hp; exact absurd hp Nat.not_prime_one
  | cons x l =>
    have hx := h x (List.mem_cons_self ..)
    rw [prodOf_cons, Nat.prime_mul_iff] at hp
    rcases hp with ⟨h1, h2⟩ | ⟨_, h2⟩
    · have hc := h1.eq_one_of_pow
      have : l = [] := by
        by_contra hne
        have := five_le_prodOf l h.tail hne; omega
      subst this; simp [hc]
    · have := five_le_pow hx.2.1 hx.1; omega

namespace PrimeFactors.WF
variable {f : PrimeFactors}

theorem total_eq_one_of_prime (h : f.WF) (hp : Nat.Prime f.n) : f.total = 1 := by
  rw [h.total_eq]
  have hp' := hp
  rw [h.prod_eq, Nat.prime_mul_iff] at hp'
  rcases hp' with ⟨h1, h2⟩ | ⟨h1, h2⟩
  · have hl : f.others = [] := by
      by_contra hne
      have := five_le_prodOf _ h.entries hne; omega
    rw [hl]
    rw [Nat.prime_mul_iff] at h1
    rcases h1 with ⟨h3, h4⟩ | ⟨h3, h4⟩
    · have := h3.eq_one_of_pow
      have : f.p3 = 0 := by
        by_contra hne
        have : 3 ≤ 3 ^ f.p3 := Nat.le_self_pow hne 3
        omega
      simp; omega
    · have := h3.eq_one_of_pow
      have : f.p2 = 0 := by
        by_contra hne
        have : 2 ≤ 2 ^ f.p2 := Nat.le_self_pow hne 2
        omega
      simp; omega
  · have := prodOf_prime_sumCounts _ h.entries h1
    have h5 : f.p2 = 0 := by
      by_contra hne
      have : 2 ≤ 2 ^ f.p2 := Nat.le_self_pow hne 2
      have : 0 < 3 ^ f.p3 := Nat.pow_pos (by omega)
      nlinarith
    have h6 : f.p3 = 0 := by
      by_contra hne
      have : 3 ≤ 3 ^ f.p3 := Nat.le_self_pow hne 3
      have : 0 < 2 ^ f.p2 := Nat.pow_pos (by omega)
      nlinarith
    omega

theorem prime_of_total_eq_one (h : f.WF) (ht : f.total = 1) : Nat.Prime f.n := by
  have hte := h.total_eq
  have hlen := length_le_sumCounts _ h.entries
  have hpe := h.prod_eq
  have hent := h.entries
  cases hl : f.others with
  | nil =>
    rw [hl] at hte hpe
    simp at hte hpe
    have : (f.p2 = 1 ∧ f.p3 = 0) ∨ (f.p2 = 0 ∧ f.p3 = 1) := by omega
    rcases this with ⟨a, b⟩ | ⟨a, b⟩
    · rw [hpe, a, b]; decide
    · rw [hpe, a, b]; decide
  | cons x l =>
    rw [hl] at hte hpe hlen hent
    have hx := hent x (List.mem_cons_self ..)
    simp at hte hlen
    have hlen' := length_le_sumCounts l (GoodEntries.tail hent)
    have hl' : l = [] := List.eq_nil_of_length_eq_zero (by omega)
    subst hl'
    simp at hte hpe
    have h2 : f.p2 = 0 := by omega
    have h3 : f.p3 = 0 := by omega
    have hc : x.count = 1 := by omega
    rw [hpe, h2, h3, hc]; simpa using hx.2.2

/-- (B') `is_prime()` is exactly primality -/
theorem isPrime_iff (h : f.WF) : f.isPrime = true ↔ Nat.Prime f.n := by
  unfold PrimeFactors.isPrime
  simp only [beq_iff_eq]
  exact ⟨h.prime_of_total_eq_one, h.total_eq_one_of_prime⟩

theorem one_le_total (h : f.WF) (h2 : 2 ≤ f.n) : 1 ≤ f.total := by
  by_contra hc
  have hte := h.total_eq
  have hlen := length_le_sumCounts _ h.entries
  have hpe := h.prod_eq
  have : f.others = [] := List.eq_nil_of_length_eq_zero (by omega)
  rw [this] at hpe
  have h2 : f.p2 = 0 := by omega
  have h3 : f.p3 = 0 := by omega
  rw [h2, h3] at hpe; simp at hpe; omega

end PrimeFactors.WF


/-! ### `partition_factors` -/

theorem foldl_mul_pow (l : List PrimeFactor) (a : Nat) :
    l.foldl (fun acc x => acc * x.value ^ x.count) a = a * prodOf l := by
  induction l generalizing a with
  | nil => simp
  | cons x l ih => simp [ih, Nat.mul_assoc]

/-- halve every exponent -/
def halve (l : List PrimeFactor) : List PrimeFactor := l.map (fun x => (⟨x.value, x.count / 2⟩ : PrimeFactor))

theorem halve_prod (l : List PrimeFactor) (he : ∀ x ∈ l, x.count % 2 = 0) :
    prodOf (halve l) * prodOf (halve l) = prodOf l := by
  induction l with
  | nil => simp [halve]
  | cons x l ih =>
    have hx := he x (List.mem_cons_self ..)
    have ih' := ih (fun y hy => he y (List.mem_cons_of_mem _ hy))
    simp only [halve, List.map_cons, prodOf_cons] at ih' ⊢
    have : x.value ^ x.count = x.value ^ (x.count / 2) * x.value ^ (x.count / 2) := by
      rw [← pow_add]; congr 1; omega
    rw [this, ← ih']; ring

theorem halve_sum (l : List PrimeFactor) (he : ∀ x ∈ l, x.count % 2 = 0) :
    sumCounts (halve l) * 2 = sumCounts l := by
  induction l with
  | nil => simp [halve]
  | cons x l ih =>
    have hx := he x (List.mem_cons_self ..)
    have ih' := ih (fun y hy => he y (List.mem_cons_of_mem _ hy))
    simp only [halve, List.map_cons, sumCounts_cons] at ih' ⊢
    omega

theorem halve_good (l : List PrimeFactor) (he : ∀ x ∈ l, x.count % 2 = 0) (hg : GoodEntries l) :
    GoodEntries (halve l) := by
  intro y hy
  simp only [halve, List.mem_map] at hy
  obtain ⟨x, hx, rfl⟩ := hy
  have h1 := he x hx
  have h2 := hg x hx
  exact ⟨by simp only; omega, h2.2.1, h2.2.2⟩

theorem halve_sorted (l : List PrimeFactor) (hs : l.Pairwise (fun a b => a.value < b.value)) :
    (halve l).Pairwise (fun a b => a.value < b.value) := by
  unfold halve
  rw [List.pairwise_map]
  exact hs

theorem greedySplit_spec (l : List PrimeFactor) (hg : GoodEntries l) :
    ∀ a b, (PrimeFactors.greedySplit l a b).1 * (PrimeFactors.greedySplit l a b).2 = a * b * prodOf l ∧
      a ≤ (PrimeFactors.greedySplit l a b).1 ∧ b ≤ (PrimeFactors.greedySplit l a b).2 := by
  induction l with
  | nil => intro a b; simp [PrimeFactors.greedySplit]
  | cons x l ih =>
    intro a b
    have hx := hg x (List.mem_cons_self ..)
    have hpos : 0 < x.value ^ x.count := Nat.pow_pos (by omega)
    simp only [PrimeFactors.greedySplit, prodOf_cons]
    split
    · obtain ⟨h1, h2, h3⟩ := ih hg.tail (a * x.value ^ x.count) b
      refine ⟨by rw [h1]; ring, le_trans (Nat.le_mul_of_pos_right a hpos) h2, h3⟩
    · obtain ⟨h1, h2, h3⟩ := ih hg.tail a (b * x.value ^ x.count)
      refine ⟨by rw [h1]; ring, h2, le_trans (Nat.le_mul_of_pos_right b hpos) h3⟩

/-- the two products of the third branch of `partition_factors` -/
def splitLR (f : PrimeFactors) : Nat × Nat :=
  let (l, r) := PrimeFactors.greedySplit f.others 1 1
  let (l, r) := if l ≤ r then (l * 2 ^ f.p2, r) else (l, r * 2 ^ f.p2)
  if f.p3 > 0 ∧ l ≤ r then (l * 3 ^ f.p3, r) else (l, r * 3 ^ f.p3)

theorem lt_mul_pos' {a b : Nat} (ha : 1 < a) (hb : 0 < b) : 1 < a * b :=
  lt_of_lt_of_le ha (Nat.le_mul_of_pos_right a hb)

theorem splitLR_spec (f : PrimeFactors) (h : f.WF) (hd : f.distinct ≠ 1)
    (hne : ¬ (f.p2 % 2 = 0 ∧ f.p3 % 2 = 0 ∧ f.others.all (fun x => x.count % 2 = 0) = true)) :
    (splitLR f).1 * (splitLR f).2 = f.n ∧ 1 < (splitLR f).1 ∧ 1 < (splitLR f).2 := by
  have hde := h.distinct_eq
  have hpe := h.prod_eq
  have hent := h.entries
  have h2pos : 0 < 2 ^ f.p2 := Nat.pow_pos (by omega)
  have h3pos : 0 < 3 ^ f.p3 := Nat.pow_pos (by omega)
  have h2gt : f.p2 > 0 → 2 ≤ 2 ^ f.p2 := fun hp => Nat.le_self_pow (by omega) 2
  have h3gt : f.p3 > 0 → 3 ≤ 3 ^ f.p3 := fun hp => Nat.le_self_pow (by omega) 3
  obtain ⟨g1, g2, g3⟩ := greedySplit_spec f.others hent 1 1
  -- lower bounds on the greedy halves
  have hL : f.others ≠ [] → 5 ≤ (PrimeFactors.greedySplit f.others 1 1).1 := by
    intro hne'
    cases hl : f.others with
    | nil => exact absurd hl hne'
    | cons x l =>
      rw [hl] at hent
      have hx := hent x (List.mem_cons_self ..)
      simp only [PrimeFactors.greedySplit, le_refl, if_true]
      have := (greedySplit_spec l (GoodEntries.tail hent) (1 * x.value ^ x.count) 1).2.1
      have := five_le_pow hx.2.1 hx.1
      omega
  have hR : 2 ≤ f.others.length → 5 ≤ (PrimeFactors.greedySplit f.others 1 1).2 := by
    intro hlen
    cases hl : f.others with
    | nil => rw [hl] at hlen; simp at hlen
    | cons x l =>
      cases l with
      | nil => rw [hl] at hlen; simp at hlen
      | cons y l =>
        rw [hl] at hent
        have hx := hent x (List.mem_cons_self ..)
        have hy := hent y (List.mem_cons_of_mem _ (List.mem_cons_self ..))
        have h5x := five_le_pow hx.2.1 hx.1
        have h5y := five_le_pow hy.2.1 hy.1
        simp only [PrimeFactors.greedySplit, le_refl, if_true]
        rw [if_neg (by omega)]
        have := (greedySplit_spec l (GoodEntries.tail (GoodEntries.tail hent)) (1 * x.value ^ x.count) (1 * y.value ^ y.count)).2.2
        omega
  have hR1 : f.others.length = 1 → (PrimeFactors.greedySplit f.others 1 1).2 = 1 := by
    intro hlen
    cases hl : f.others with
    | nil => rw [hl] at hlen; simp at hlen
    | cons x l =>
      cases l with
      | nil => simp [PrimeFactors.greedySplit]
      | cons y l => rw [hl] at hlen; simp at hlen
  have hlen0 : f.others.length = 0 → f.p2 > 0 ∧ f.p3 > 0 := by
    intro h0
    have hnil : f.others = [] := List.eq_nil_of_length_eq_zero h0
    by_contra hc
    have : f.p2 = 0 ∨ f.p3 = 0 := by omega
    rcases this with h | h
    · rw [h] at hde
      by_cases h3 : f.p3 > 0
      · simp [h3, h0] at hde; exact hd hde
      · apply hne; rw [hnil]; simp; omega
    · rw [h] at hde
      by_cases h2 : f.p2 > 0
      · simp [h2, h0] at hde; exact hd hde
      · apply hne; rw [hnil]; simp; omega
  have hlen1 : f.others.length = 1 → f.p2 > 0 ∨ f.p3 > 0 := by
    intro h1
    by_contra hc
    have h2 : ¬ f.p2 > 0 := by omega
    have h3 : ¬ f.p3 > 0 := by omega
    rw [h1] at hde; simp [h2, h3] at hde; exact hd hde
  have hnil_iff : f.others = [] ↔ f.others.length = 0 := by
    constructor
    · intro h; rw [h]; rfl
    · exact List.eq_nil_of_length_eq_zero
  unfold splitLR
  generalize PrimeFactors.greedySplit f.others 1 1 = p at *
  obtain ⟨L, R⟩ := p
  simp only at g1 g2 g3 hL hR hR1 ⊢
  rw [hpe]
  simp only [Nat.one_mul] at g1
  rw [← g1]
  rcases Nat.lt_or_ge f.others.length 2 with hlt | hge
  · rcases Nat.eq_zero_or_pos f.others.length with h0 | h1
    · obtain ⟨p2pos, p3pos⟩ := hlen0 h0
      have := h2gt p2pos; have := h3gt p3pos
      have hnil := hnil_iff.2 h0
      rw [hnil] at g1; simp at g1
      have : L = 1 := by nlinarith
      have : R = 1 := by nlinarith
      subst L; subst R
      simp only [le_refl, if_true, Nat.one_mul]
      rw [if_neg (by omega)]
      refine ⟨by simp only; ring, by simp only; omega, by simp only; omega⟩
    · have h1' : f.others.length = 1 := by omega
      have hLL := hL (by rw [Ne, hnil_iff]; omega)
      have hor := hlen1 h1'
      have hR1' := hR1 h1'
      subst hR1'
      have hnle : ¬ L ≤ 1 := by omega
      simp only [hnle, if_false, Nat.one_mul]
      split
      · rename_i hc
        refine ⟨by simp only; ring, lt_mul_pos' (by omega) h3pos, by simp only; omega⟩
      · refine ⟨by simp only; ring, by simp only; omega, ?_⟩
        simp only
        rcases hor with hp | hp
        · exact lt_mul_pos' (by have := h2gt hp; omega) h3pos
        · rw [Nat.mul_comm]; exact lt_mul_pos' (by have := h3gt hp; omega) h2pos
  · have hLL := hL (by rw [Ne, hnil_iff]; omega)
    have hRR := hR hge
    have hL1 : 1 < L := by omega
    have hR1 : 1 < R := by omega
    split <;> split <;> refine ⟨by simp only; ring, ?_, ?_⟩ <;> simp only <;>
      first
        | omega
        | exact lt_mul_pos' (lt_mul_pos' hL1 h2pos) h3pos
        | exact lt_mul_pos' (lt_mul_pos' hR1 h2pos) h3pos
        | exact lt_mul_pos' hL1 h2pos
        | exact lt_mul_pos' hR1 h2pos
        | exact lt_mul_pos' hL1 h3pos
        | exact lt_mul_pos' hR1 h3pos


theorem partition_even (others : List PrimeFactor) (n p2 p3 total distinct : Nat)
    (h : PrimeFactors.WF ⟨others, n, p2, p3, total, distinct⟩) (h2 : 2 ≤ n)
    (he2 : p2 % 2 = 0) (he3 : p3 % 2 = 0) (heo : ∀ x ∈ others, x.count % 2 = 0) :
    let H : PrimeFactors := ⟨halve others, (halve others).foldl (fun acc x => acc * x.value ^ x.count)
      (2 ^ (p2 / 2) * 3 ^ (p3 / 2)), p2 / 2, p3 / 2, total / 2, distinct⟩
    H.WF ∧ H.n * H.n = n ∧ 1 < H.n := by
  intro H
  obtain ⟨hpos, hpe, hent, hsorted, hte, hde⟩ := h
  simp only at hpos hpe hent hsorted hte hde
  have hn : H.n = 2 ^ (p2 / 2) * 3 ^ (p3 / 2) * prodOf (halve others) := foldl_mul_pow _ _
  have hsq : H.n * H.n = n := by
    rw [hn, hpe, ← halve_prod others heo]
    have e2 : 2 ^ p2 = 2 ^ (p2 / 2) * 2 ^ (p2 / 2) := by rw [← pow_add]; congr 1; omega
    have e3 : 3 ^ p3 = 3 ^ (p3 / 2) * 3 ^ (p3 / 2) := by rw [← pow_add]; congr 1; omega
    rw [e2, e3]; ring
  have hHpos : 0 < H.n := by
    rcases Nat.eq_zero_or_pos H.n with h0 | h0
    · rw [h0] at hsq; omega
    · exact h0
  have hsum := halve_sum others heo
  refine ⟨⟨hHpos, hn, halve_good others heo hent, halve_sorted others hsorted, ?_, ?_⟩, hsq, ?_⟩
  · show total / 2 = p2 / 2 + p3 / 2 + sumCounts (halve others)
    omega
  · show distinct = (if p2 / 2 > 0 then 1 else 0) + (if p3 / 2 > 0 then 1 else 0) + (halve others).length
    rw [hde]; simp only [halve, List.length_map]
    have a2 : p2 / 2 > 0 ↔ p2 > 0 := by omega
    have a3 : p3 / 2 > 0 ↔ p3 > 0 := by omega
    simp only [a2, a3]
  · by_contra hc
    have h1 : H.n = 1 := by omega
    rw [h1] at hsq
    omega


theorem all_even_iff (l : List PrimeFactor) :
    l.all (fun x => x.count % 2 = 0) = true ↔ ∀ x ∈ l, x.count % 2 = 0 := by
  simp [List.all_eq_true]

theorem partition_single (f : PrimeFactors) (h : f.WF) (htot : 2 ≤ f.total) (hd1 : f.distinct = 1) :
    ∃ l r, (match f.others with
    | first :: rest =>
      if first.count ≤ 1 then .error "partition_factors: assert!(first_factor.count > 1)" else
      let hc := first.count / 2
      let sc := first.count - hc
      let half : PrimeFactors := { others := [⟨first.value, hc⟩], n := first.value ^ hc, p2 := f.p2 / 2, p3 := f.p3 / 2,
                                   total := f.total / 2, distinct := 1 }
      let self' : PrimeFactors := { others := ⟨first.value, sc⟩ :: rest, n := first.value ^ sc, p2 := f.p2 - f.p2 / 2, p3 := f.p3 - f.p3 / 2,
                                    total := f.total - f.total / 2, distinct := f.distinct }
      .ok (self', half)
    | [] =>
      if f.p2 / 2 > 0 then
        .ok ({ others := [], n := 2 ^ (f.p2 - f.p2 / 2), p2 := f.p2 - f.p2 / 2, p3 := f.p3 - f.p3 / 2, total := f.total - f.total / 2, distinct := f.distinct },
             { others := [], n := 2 ^ (f.p2 / 2), p2 := f.p2 / 2, p3 := f.p3 / 2, total := f.total / 2, distinct := 1 })
      else if f.p3 / 2 > 0 then
        .ok ({ others := [], n := 3 ^ (f.p3 - f.p3 / 2), p2 := f.p2 - f.p2 / 2, p3 := f.p3 - f.p3 / 2, total := f.total - f.total / 2, distinct := f.distinct },
             { others := [], n := 3 ^ (f.p3 / 2), p2 := f.p2 / 2, p3 := f.p3 / 2, total := f.total / 2, distinct := 1 })
      else
        .ok ({ others := [], n := f.n, p2 := f.p2 - f.p2 / 2, p3 := f.p3 - f.p3 / 2, total := f.total - f.total / 2, distinct := f.distinct },
             { others := [], n := f.n, p2 := f.p2 / 2, p3 := f.p3 / 2, total := f.total / 2, distinct := 1 }) : Except String (PrimeFactors × PrimeFactors))
      = .ok (l, r) ∧ l.WF ∧ r.WF ∧ l.n * r.n = f.n ∧ 1 < l.n ∧ 1 < r.n := by
  rcases f with ⟨others, n, p2, p3, total, distinct⟩
  obtain ⟨hpos, hpe, hent, hsorted, hte, hde⟩ := h
  simp only at hpos hpe hent hsorted hte hde htot hd1 ⊢
  subst hd1
  cases others with
  | cons first rest =>
    simp only
    have hx := hent first (List.mem_cons_self ..)
    have hp2 : p2 = 0 := by
      by_contra hc; rw [if_pos (by omega)] at hde; simp at hde; omega
    have hp3 : p3 = 0 := by
      by_contra hc; rw [if_pos (by omega : p3 > 0)] at hde; simp at hde; omega
    subst hp2; subst hp3
    have hrest : rest = [] := by
      simp at hde; exact hde
    subst hrest
    simp at hte hpe
    rw [if_neg (by omega)]
    have hv1 : ∀ k, 1 ≤ k → 1 < first.value ^ k := fun k hk => by
      have := five_le_pow hx.2.1 hk; omega
    refine ⟨_, _, rfl, ⟨?_, ?_, ?_, ?_, ?_, ?_⟩, ⟨?_, ?_, ?_, ?_, ?_, ?_⟩, ?_, ?_, ?_⟩
    · exact Nat.pow_pos (by omega)
    · simp
    · intro x hx'; simp at hx'; subst hx'; exact ⟨by simp only; omega, hx.2.1, hx.2.2⟩
    · simp
    · simp; omega
    · simp
    · exact Nat.pow_pos (by omega)
    · simp
    · intro x hx'; simp at hx'; subst hx'; exact ⟨by simp only; omega, hx.2.1, hx.2.2⟩
    · simp
    · simp; omega
    · simp
    · simp only; rw [hpe, ← pow_add]; congr 1; omega
    · exact hv1 _ (by omega)
    · exact hv1 _ (by omega)
  | nil =>
    simp at hte hpe hde
    simp only
    by_cases c2 : p2 / 2 > 0
    · rw [if_pos c2]
      have hp3 : p3 = 0 := by
        by_contra hc; rw [if_pos (by omega : 0 < p2), if_pos (by omega : 0 < p3)] at hde; omega
      subst hp3
      simp at hpe hte
      refine ⟨_, _, rfl, ⟨?_, ?_, ?_, ?_, ?_, ?_⟩, ⟨?_, ?_, ?_, ?_, ?_, ?_⟩, ?_, ?_, ?_⟩
      · exact Nat.pow_pos (by omega)
      · simp
      · simp
      · simp
      · simp; omega
      · simp; omega
      · exact Nat.pow_pos (by omega)
      · simp
      · simp
      · simp
      · simp; omega
      · simp; omega
      · simp only; rw [hpe, ← pow_add]; congr 1; omega
      · exact Nat.one_lt_two_pow (by omega)
      · exact Nat.one_lt_two_pow (by omega)
    · rw [if_neg c2]
      by_cases c3 : p3 / 2 > 0
      · rw [if_pos c3]
        have hp2 : p2 = 0 := by
          by_contra hc; rw [if_pos (by omega : 0 < p2), if_pos (by omega : 0 < p3)] at hde; omega
        subst hp2
        simp at hpe hte
        refine ⟨_, _, rfl, ⟨?_, ?_, ?_, ?_, ?_, ?_⟩, ⟨?_, ?_, ?_, ?_, ?_, ?_⟩, ?_, ?_, ?_⟩
        · exact Nat.pow_pos (by omega)
        · simp
        · simp
        · simp
        · simp; omega
        · simp; omega
        · exact Nat.pow_pos (by omega)
        · simp
        · simp
        · simp
        · simp; omega
        · simp; omega
        · simp only; rw [hpe, ← pow_add]; congr 1; omega
        · exact Nat.one_lt_pow (by omega) (by omega)
        · exact Nat.one_lt_pow (by omega) (by omega)
      · exfalso
        have : p2 ≤ 1 := by omega
        have : p3 ≤ 1 := by omega
        by_cases q2 : 0 < p2 <;> by_cases q3 : 0 < p3 <;> simp [q2, q3] at hde <;> omega

theorem partition_spec (f : PrimeFactors) (h : f.WF) (hnp : f.isPrime = false) (h2 : 2 ≤ f.n) :
    ∃ l r, f.partition = .ok (l, r) ∧ l.WF ∧ r.WF ∧ l.n * r.n = f.n ∧ 1 < l.n ∧ 1 < r.n := by
  have htot1 := h.one_le_total h2
  have htot : 2 ≤ f.total := by
    have : f.total ≠ 1 := by
      intro h1; simp [PrimeFactors.isPrime, h1] at hnp
    omega
  unfold PrimeFactors.partition
  simp only [hnp, Bool.false_eq_true, if_false]
  by_cases heven : f.p2 % 2 = 0 ∧ f.p3 % 2 = 0 ∧ f.others.all (fun x => x.count % 2 = 0) = true
  · rw [if_pos heven]
    obtain ⟨he2, he3, heo⟩ := heven
    rw [all_even_iff] at heo
    rcases f with ⟨others, n, p2, p3, total, distinct⟩
    obtain ⟨w1, w2, w3⟩ := partition_even others n p2 p3 total distinct h h2 he2 he3 heo
    exact ⟨_, _, rfl, w1, w1, w2, w3, w3⟩
  · rw [if_neg heven]
    by_cases hd1 : f.distinct = 1
    · rw [if_pos hd1]
      exact partition_single f h htot hd1
    · rw [if_neg hd1]
      obtain ⟨s1, s2, s3⟩ := splitLR_spec f h hd1 heven
      obtain ⟨a, ha, hawf, han, _⟩ := compute_spec (splitLR f).1 (by omega)
      obtain ⟨b, hb, hbwf, hbn, _⟩ := compute_spec (splitLR f).2 (by omega)
      refine ⟨a, b, ?_, hawf, hbwf, by rw [han, hbn, s1], by omega, by omega⟩
      change (match PrimeFactors.compute (splitLR f).1, PrimeFactors.compute (splitLR f).2 with
        | .ok a, .ok b => Except.ok (a, b)
        | .error e, _ => .error e
        | _, .error e => .error e) = _
      rw [ha, hb]


/-! ### `productAbove`, `hasFactorsGt`, smoothness -/

theorem foldl_mul_eq_prod (l : List Nat) (a : Nat) : l.foldl (· * ·) a = a * l.prod := by
  induction l generalizing a with
  | nil => simp
  | cons x l ih => simp [ih, Nat.mul_assoc]

theorem mem_takeWhile_true {α} (p : α → Bool) (l : List α) : ∀ x ∈ l.takeWhile p, p x = true := by
  have := List.all_takeWhile (p := p) (l := l)
  rwa [List.all_eq_true] at this

theorem entry_dvd_prodOf (l : List PrimeFactor) (x : PrimeFactor) (hx : x ∈ l) :
    x.value ^ x.count ∣ prodOf l := by
  induction l with
  | nil => simp at hx
  | cons y l ih =>
    rw [prodOf_cons]
    rcases List.mem_cons.1 hx with rfl | hx
    · exact Dvd.intro _ rfl
    · exact Dvd.dvd.mul_left (ih hx) _

theorem two_le_mul3 {a b c : Nat} (ha : 0 < a) (hb : 0 < b) (hc : 0 < c)
    (h : 2 ≤ a ∨ 2 ≤ b ∨ 2 ≤ c) : 2 ≤ a * b * c := by
  have hab : 0 < a * b := Nat.mul_pos ha hb
  rcases h with h | h | h
  · exact le_trans h (le_trans (Nat.le_mul_of_pos_right a hb) (Nat.le_mul_of_pos_right _ hc))
  · exact le_trans h (le_trans (Nat.le_mul_of_pos_left b ha) (Nat.le_mul_of_pos_right _ hc))
  · exact le_trans h (Nat.le_mul_of_pos_left c hab)

theorem productAbove_eq (f : PrimeFactors) (k : Nat) :
    f.productAbove k = prodOf (f.others.dropWhile (fun x => x.value ≤ k)) := by
  unfold PrimeFactors.productAbove prodOf
  rw [foldl_mul_eq_prod, Nat.one_mul]

theorem prodOf_takeWhile_dropWhile (p : PrimeFactor → Bool) (l : List PrimeFactor) :
    prodOf (l.takeWhile p) * prodOf (l.dropWhile p) = prodOf l := by
  rw [← prodOf_append, List.takeWhile_append_dropWhile]

/-- `m` has no prime factor other than 2, 3, 5, 7 -/
def Smooth7 (m : Nat) : Prop := ∃ k, m ∣ 210 ^ k

theorem Smooth7.of_dvd {a b : Nat} (h : Smooth7 b) (hd : a ∣ b) : Smooth7 a := by
  obtain ⟨k, hk⟩ := h; exact ⟨k, dvd_trans hd hk⟩

theorem Smooth7.mul {a b : Nat} (ha : Smooth7 a) (hb : Smooth7 b) : Smooth7 (a * b) := by
  obtain ⟨k, hk⟩ := ha; obtain ⟨j, hj⟩ := hb
  exact ⟨k + j, by rw [pow_add]; exact Nat.mul_dvd_mul hk hj⟩

theorem Smooth7.one : Smooth7 1 := ⟨0, by simp⟩

theorem Smooth7.pow_of_dvd {v : Nat} (hv : v ∣ 210) (c : Nat) : Smooth7 (v ^ c) :=
  ⟨c, pow_dvd_pow_of_dvd hv c⟩

theorem five_or_seven {v : Nat} (h5 : 5 ≤ v) (h7 : v ≤ 7) (hp : Nat.Prime v) : v = 5 ∨ v = 7 := by
  have : v ≠ 6 := by rintro rfl; revert hp; decide
  omega

theorem prodOf_smooth (l : List PrimeFactor) (hg : GoodEntries l) (hle : ∀ x ∈ l, x.value ≤ 7) :
    Smooth7 (prodOf l) := by
  induction l with
  | nil => exact Smooth7.one
  | cons x l ih =>
    have hx := hg x (List.mem_cons_self ..)
    have h7 := hle x (List.mem_cons_self ..)
    rw [prodOf_cons]
    refine Smooth7.mul ?_ (ih hg.tail (fun y hy => hle y (List.mem_cons_of_mem _ hy)))
    rcases five_or_seven hx.2.1 h7 hx.2.2 with h | h <;> rw [h] <;>
      exact Smooth7.pow_of_dvd (by decide) _

theorem pow2_of_smooth {c : Nat} (hs : Smooth7 c) (h3 : ¬ 3 ∣ c) (h5 : ¬ 5 ∣ c) (h7 : ¬ 7 ∣ c) :
    ∃ j, c = 2 ^ j := by
  obtain ⟨k, hk⟩ := hs
  have e : 210 ^ k = 2 ^ k * 105 ^ k := by rw [← Nat.mul_pow]
  rw [e] at hk
  have c3 : Nat.Coprime c 3 := (Nat.Coprime.symm ((Nat.Prime.coprime_iff_not_dvd Nat.prime_three).2 h3))
  have c5 : Nat.Coprime c 5 := (Nat.Coprime.symm ((Nat.Prime.coprime_iff_not_dvd Nat.prime_five).2 h5))
  have c7 : Nat.Coprime c 7 := (Nat.Coprime.symm ((Nat.Prime.coprime_iff_not_dvd (by decide : Nat.Prime 7)).2 h7))
  have c105 : Nat.Coprime c 105 := by
    have : (105 : Nat) = 3 * 5 * 7 := by norm_num
    rw [this]; exact Nat.Coprime.mul_right (Nat.Coprime.mul_right c3 c5) c7
  have hd : c ∣ 2 ^ k := Nat.Coprime.dvd_of_dvd_mul_right (Nat.Coprime.pow_right k c105) hk
  obtain ⟨j, _, hj⟩ := (Nat.dvd_prime_pow Nat.prime_two).1 hd
  exact ⟨j, hj⟩

theorem sorted_le_last (l : List PrimeFactor) (hs : l.Pairwise (fun a b => a.value < b.value))
    (z : PrimeFactor) (hz : l.getLast? = some z) : ∀ x ∈ l, x.value ≤ z.value := by
  obtain ⟨ys, rfl⟩ := List.getLast?_eq_some_iff.1 hz
  rw [List.pairwise_append] at hs
  intro x hx
  rcases List.mem_append.1 hx with hx | hx
  · exact Nat.le_of_lt (hs.2.2 x hx z (by simp))
  · simp at hx; subst hx; exact le_refl _

namespace PrimeFactors.WF
variable {f : PrimeFactors}

theorem all_le_of_not_gt (h : f.WF) (k : Nat) (hk : 3 ≤ k) (hgt : f.hasFactorsGt k = false) :
    ∀ x ∈ f.others, x.value ≤ k := by
  unfold PrimeFactors.hasFactorsGt at hgt
  have a1 : ¬ k < 2 := by omega
  have a2 : ¬ k < 3 := by omega
  simp only [a1, a2, decide_false, Bool.false_and, Bool.false_or] at hgt
  cases hl : f.others.getLast? with
  | none =>
    rw [List.getLast?_eq_none_iff] at hl
    rw [hl]; simp
  | some z =>
    rw [hl] at hgt
    simp only [decide_eq_false_iff_not] at hgt
    intro x hx
    have := sorted_le_last f.others h.sorted z hl x hx
    omega

theorem pow23_dvd (h : f.WF) {a c : Nat} (ha : a ≤ f.p2) (hc : c ≤ f.p3) : 2 ^ a * 3 ^ c ∣ f.n := by
  rw [h.prod_eq]
  exact Dvd.dvd.mul_right (Nat.mul_dvd_mul (pow_dvd_pow 2 ha) (pow_dvd_pow 3 hc)) _

theorem entry_dvd (h : f.WF) {x : PrimeFactor} (hx : x ∈ f.others) : x.value ^ x.count ∣ f.n := by
  rw [h.prod_eq]
  exact Dvd.dvd.mul_left (entry_dvd_prodOf _ x hx) _

theorem smooth_of_all_le (h : f.WF) (hle : ∀ x ∈ f.others, x.value ≤ 7) : Smooth7 f.n := by
  rw [h.prod_eq]
  exact Smooth7.mul (Smooth7.mul (Smooth7.pow_of_dvd (by decide) _) (Smooth7.pow_of_dvd (by decide) _))
    (prodOf_smooth _ h.entries hle)

/-- the cofactor of `productAbove 7` -/
theorem productAbove_split (h : f.WF) :
    f.n = (2 ^ f.p2 * 3 ^ f.p3 * prodOf (f.others.takeWhile (fun x => x.value ≤ 7))) * f.productAbove 7 := by
  rw [productAbove_eq, Nat.mul_assoc, prodOf_takeWhile_dropWhile, ← h.prod_eq]

theorem cofactor_smooth (h : f.WF) :
    Smooth7 (2 ^ f.p2 * 3 ^ f.p3 * prodOf (f.others.takeWhile (fun x => x.value ≤ 7))) := by
  refine Smooth7.mul (Smooth7.mul (Smooth7.pow_of_dvd (by decide) _) (Smooth7.pow_of_dvd (by decide) _))
    (prodOf_smooth _ ?_ ?_)
  · intro x hx; exact h.entries x ((List.takeWhile_sublist _).subset hx)
  · intro x hx; simpa using mem_takeWhile_true _ _ x hx

theorem cofactor_ge_two (h : f.WF) (hleq : f.hasFactorsLeq 7 = true) :
    2 ≤ 2 ^ f.p2 * 3 ^ f.p3 * prodOf (f.others.takeWhile (fun x => x.value ≤ 7)) := by
  have h2pos : 0 < 2 ^ f.p2 := Nat.pow_pos (by omega)
  have h3pos : 0 < 3 ^ f.p3 := Nat.pow_pos (by omega)
  have hg : GoodEntries (f.others.takeWhile (fun x => x.value ≤ 7)) :=
    fun x hx => h.entries x ((List.takeWhile_sublist _).subset hx)
  have hPpos := prodOf_pos _ hg
  unfold PrimeFactors.hasFactorsLeq at hleq
  simp only [Bool.or_eq_true, decide_eq_true_eq] at hleq
  apply two_le_mul3 h2pos h3pos hPpos
  rcases hleq with (hp | hp) | hp
  · exact Or.inl (Nat.le_self_pow (by omega) 2)
  · exact Or.inr (Or.inl (le_trans (by omega) (Nat.le_self_pow (by omega : f.p3 ≠ 0) 3)))
  · refine Or.inr (Or.inr ?_)
    cases hl : f.others with
    | nil => rw [hl] at hp; simp at hp
    | cons x l =>
      rw [hl] at hp hg; simp at hp
      have : 5 ≤ prodOf (List.takeWhile (fun x => decide (x.value ≤ 7)) (x :: l)) := by
        apply five_le_prodOf _ hg
        rw [List.takeWhile_cons_of_pos (by simpa using hp)]
        simp
      omega

end PrimeFactors.WF

/-! ### `remove_factors(2, ·)` and trailing zeros -/

theorem not_two_dvd_prodOf (l : List PrimeFactor) (hg : GoodEntries l) : ¬ 2 ∣ prodOf l := by
  induction l with
  | nil => simp
  | cons x l ih =>
    have hx := hg x (List.mem_cons_self ..)
    rw [prodOf_cons]
    intro hd
    rcases (Nat.Prime.dvd_mul Nat.prime_two).1 hd with h | h
    · have := Nat.prime_two.dvd_of_dvd_pow h
      have := (Nat.prime_dvd_prime_iff_eq Nat.prime_two hx.2.2).1 this
      omega
    · exact ih hg.tail h

namespace PrimeFactors.WF
variable {f : PrimeFactors}

theorem odd_part (h : f.WF) : ¬ 2 ∣ 3 ^ f.p3 * prodOf f.others := by
  intro hd
  rcases (Nat.Prime.dvd_mul Nat.prime_two).1 hd with h' | h'
  · have := Nat.prime_two.dvd_of_dvd_pow h'
    omega
  · exact not_two_dvd_prodOf _ h.entries h'

theorem strip_two (h : f.WF) : strip 2 f.n = (3 ^ f.p3 * prodOf f.others, f.p2) := by
  have hpos : 0 < 3 ^ f.p3 * prodOf f.others :=
    Nat.mul_pos (Nat.pow_pos (by omega)) (prodOf_pos _ h.entries)
  have := strip_eq 2 (by omega) (3 ^ f.p3 * prodOf f.others) f.p2 hpos h.odd_part
  rw [← this, h.prod_eq]; congr 1; ring

theorem trailingZeros_eq (h : f.WF) : trailingZeros f.n = f.p2 := by
  unfold trailingZeros; rw [h.strip_two]

theorem removeFactors_two (h : f.WF) (hp2 : 0 < f.p2)
    (hne : ¬ (f.others.isEmpty = true ∧ f.p3 < 2)) :
    ∃ g, f.removeFactors ⟨2, f.p2⟩ = .ok (some g) ∧ g.WF ∧ 2 ^ f.p2 * g.n = f.n ∧ 1 < g.n := by
  have hodd := h.odd_part
  have hn : f.n / 2 ^ f.p2 = 3 ^ f.p3 * prodOf f.others := by
    rw [h.prod_eq, Nat.mul_assoc, Nat.mul_div_cancel_left _ (Nat.pow_pos (by omega))]
  have hgt : 1 < 3 ^ f.p3 * prodOf f.others := by
    have h3pos : 0 < 3 ^ f.p3 := Nat.pow_pos (by omega)
    have hPpos := prodOf_pos _ h.entries
    by_cases hnil : f.others = []
    · have hp3 : 2 ≤ f.p3 := by
        by_contra hc; apply hne; rw [hnil]; simp; omega
      have : 3 ^ 2 ≤ 3 ^ f.p3 := Nat.pow_le_pow_right (by omega) hp3
      rw [hnil]; simp; omega
    · have := five_le_prodOf _ h.entries hnil
      nlinarith
  unfold PrimeFactors.removeFactors
  dsimp only
  rw [if_neg (by omega), if_pos rfl, if_neg (by omega)]
  have hgt' : f.n / 2 ^ f.p2 > 1 := by rw [hn]; exact hgt
  rw [if_pos hgt']
  refine ⟨_, rfl, ⟨?_, ?_, h.entries, h.sorted, ?_, ?_⟩, ?_, hgt'⟩
  · dsimp only; omega
  · dsimp only; rw [hn]; simp
  · dsimp only; have := h.total_eq; omega
  · dsimp only
    have := h.distinct_eq
    rw [if_pos hp2] at this
    simp only [Nat.sub_self, if_true, gt_iff_lt, Nat.lt_irrefl, if_false]
    rw [this]; simp only [gt_iff_lt]; omega
  · dsimp only; rw [hn, h.prod_eq]; ring

end PrimeFactors.WF

end RFV
