/-
Helper lemmas about the L0 arithmetic model (`RFV/Model/Arith.lean`): `strip`, the trial-division loop,
`PrimeFactors.compute`, `PrimeFactors.partition`, `productAbove`.
-/
import Mathlib.Data.Nat.Prime.Basic
import Mathlib.Data.Nat.Sqrt
import Mathlib.Tactic.Ring
import Mathlib.Tactic.Linarith
import RFV.Model.Arith

namespace RFV

/-! ### `strip` -/

theorem stripAux_eq (d : Nat) (hd : 1 < d) (m : Nat) (hm : 0 < m) (hnd : ¬ d ∣ m) :
    ∀ k fuel c, m * d ^ k ≤ fuel → stripAux d fuel (m * d ^ k) c = (m, c + k) := by
  intro k
  induction k with
  | zero =>
    intro fuel c _
    cases fuel with
    | zero => simp [stripAux]
    | succ f =>
      have : ¬ (m % d = 0) := fun h => hnd (Nat.dvd_of_mod_eq_zero h)
      simp [stripAux, this]
  | succ k ih =>
    intro fuel c hle
    have hdk : 0 < d ^ k := Nat.pow_pos (by omega)
    have hpos : 0 < m * d ^ k := Nat.mul_pos hm hdk
    have hEq : m * d ^ (k + 1) = (m * d ^ k) * d := by rw [pow_succ, Nat.mul_assoc]
    have hlt : m * d ^ k < m * d ^ (k + 1) := by
      rw [hEq]; nlinarith
    cases fuel with
    | zero => omega
    | succ f =>
      have h1 : (m * d ^ (k + 1)) % d = 0 := by rw [hEq]; exact Nat.mul_mod_left _ _
      have h2 : 0 < m * d ^ (k + 1) := by omega
      have h3 : m * d ^ (k + 1) / d = m * d ^ k := by
        rw [hEq]; exact Nat.mul_div_cancel _ (by omega)
      rw [stripAux, if_pos ⟨h1, h2⟩, h3, ih f (c + 1) (by omega)]
      congr 1; omega

theorem strip_eq (d : Nat) (hd : 1 < d) (m k : Nat) (hm : 0 < m) (hnd : ¬ d ∣ m) :
    strip d (m * d ^ k) = (m, k) := by
  unfold strip
  rw [stripAux_eq d hd m hm hnd k _ 0 (Nat.le_refl _)]; simp

theorem exists_strip_decomp (d n : Nat) (hd : 1 < d) (hn : 0 < n) :
    ∃ m k, 0 < m ∧ ¬ d ∣ m ∧ n = m * d ^ k := by
  induction n using Nat.strong_induction_on with
  | _ n ih =>
    by_cases h : d ∣ n
    · obtain ⟨q, rfl⟩ := h
      have hq : 0 < q := Nat.pos_of_ne_zero (by rintro rfl; simp at hn)
      have hlt : q < d * q := by nlinarith
      obtain ⟨m, k, hm, hnd, hqe⟩ := ih q hlt hq
      refine ⟨m, k + 1, hm, hnd, ?_⟩
      rw [hqe, pow_succ]; ring
    · exact ⟨n, 0, hn, h, by simp⟩

theorem strip_spec (d n : Nat) (hd : 1 < d) (hn : 0 < n) :
    n = (strip d n).1 * d ^ (strip d n).2 ∧ ¬ d ∣ (strip d n).1 ∧ 0 < (strip d n).1 := by
  obtain ⟨m, k, hm, hnd, rfl⟩ := exists_strip_decomp d n hd hn
  rw [strip_eq d hd m k hm hnd]
  exact ⟨rfl, hnd, hm⟩

/-! ### trial division -/

/-- product of the prime powers of a factor list -/
def prodOf (l : List PrimeFactor) : Nat := (l.map (fun x => x.value ^ x.count)).prod
/-- sum of the exponents of a factor list -/
def sumCounts (l : List PrimeFactor) : Nat := (l.map (fun x => x.count)).sum

@[simp] theorem prodOf_nil : prodOf [] = 1 := rfl
@[simp] theorem prodOf_cons (x : PrimeFactor) (l) : prodOf (x :: l) = x.value ^ x.count * prodOf l := by
  simp [prodOf]
@[simp] theorem prodOf_append (l₁ l₂) : prodOf (l₁ ++ l₂) = prodOf l₁ * prodOf l₂ := by
  simp [prodOf, List.prod_append]
@[simp] theorem sumCounts_nil : sumCounts [] = 0 := rfl
@[simp] theorem sumCounts_cons (x : PrimeFactor) (l) : sumCounts (x :: l) = x.count + sumCounts l := by
  simp [sumCounts]
@[simp] theorem sumCounts_append (l₁ l₂) : sumCounts (l₁ ++ l₂) = sumCounts l₁ + sumCounts l₂ := by
  simp [sumCounts, List.sum_append]

theorem sqrtLimit_le_iff (n d : Nat) : sqrtLimit n ≤ d ↔ n < d ^ 2 := by
  unfold sqrtLimit
  rw [← Nat.sqrt_lt']; omega

theorem sqrtLimit_mono {a b : Nat} (h : a ≤ b) : sqrtLimit a ≤ sqrtLimit b := by
  unfold sqrtLimit; have := Nat.sqrt_le_sqrt h; omega

theorem prime_of_no_small_factor (n dv : Nat) (h1 : 1 < n)
    (hp : ∀ p, Nat.Prime p → p ∣ n → dv ≤ p) (hlt : n < dv ^ 2) : Nat.Prime n ∧ dv ≤ n := by
  have hmf : Nat.Prime n.minFac := Nat.minFac_prime (by omega)
  have hdv : dv ≤ n.minFac := hp _ hmf (Nat.minFac_dvd n)
  refine ⟨?_, le_trans hdv (Nat.minFac_le (by omega))⟩
  by_contra hnp
  have := Nat.minFac_sq_le_self (by omega : 0 < n) hnp
  have : dv ^ 2 ≤ n.minFac ^ 2 := Nat.pow_le_pow_left hdv 2
  omega

theorem trialLoop_spec : ∀ fuel n dv acc tot dis,
    0 < n → 5 ≤ dv → dv % 2 = 1 →
    (∀ p, Nat.Prime p → p ∣ n → dv ≤ p) →
    sqrtLimit n ≤ dv + fuel →
    ∃ n' fs, trialLoop fuel n dv (sqrtLimit n) acc tot dis
        = (n', acc ++ fs, tot + sumCounts fs, dis + fs.length) ∧
      0 < n' ∧ n = n' * prodOf fs ∧
      (∀ x ∈ fs, 1 ≤ x.count ∧ dv ≤ x.value ∧ Nat.Prime x.value) ∧
      fs.Pairwise (fun a b => a.value < b.value) ∧
      (1 < n' → Nat.Prime n' ∧ dv ≤ n' ∧ ∀ x ∈ fs, x.value < n') := by
  intro fuel
  induction fuel with
  | zero =>
    intro n dv acc tot dis hn h5 hodd hp hfuel
    refine ⟨n, [], by simp [trialLoop], hn, by simp, by simp, by simp, ?_⟩
    intro h1
    have := prime_of_no_small_factor n dv h1 hp ((sqrtLimit_le_iff n dv).1 (by omega))
    exact ⟨this.1, this.2, by simp⟩
  | succ fuel ih =>
    intro n dv acc tot dis hn h5 hodd hp hfuel
    rw [trialLoop]
    by_cases hlt : dv < sqrtLimit n
    · rw [if_pos hlt]
      obtain ⟨m, k, hm, hnd, hnm⟩ := exists_strip_decomp dv n (by omega) hn
      have hs : strip dv n = (m, k) := by rw [hnm]; exact strip_eq dv (by omega) m k hm hnd
      rw [hs]
      simp only
      by_cases hk : k > 0
      · rw [if_pos hk]
        -- dv is prime
        have hdvn : dv ∣ n := by
          rw [hnm]; exact Dvd.dvd.mul_left (dvd_pow_self dv (by omega)) m
        have hdvp : Nat.Prime dv := by
          have hmf : Nat.Prime dv.minFac := Nat.minFac_prime (by omega)
          have h1 : dv ≤ dv.minFac := hp _ hmf (dvd_trans (Nat.minFac_dvd dv) hdvn)
          have h2 : dv.minFac ≤ dv := Nat.minFac_le (by omega)
          have : dv.minFac = dv := by omega
          rw [← this]; exact hmf
        have hmn : m ∣ n := by rw [hnm]; exact Dvd.intro _ rfl
        have hp' : ∀ p, Nat.Prime p → p ∣ m → dv + 2 ≤ p := by
          intro p pp pm
          have h1 := hp p pp (dvd_trans pm hmn)
          have h2 : p ≠ dv := by rintro rfl; exact hnd pm
          have h3 : p ≠ dv + 1 := by
            rintro rfl
            rcases Nat.Prime.eq_two_or_odd pp with h | h <;> omega
          omega
        have hmle : m ≤ n := Nat.le_of_dvd hn hmn
        have hfuel' : sqrtLimit m ≤ dv + 2 + fuel := by
          have := sqrtLimit_mono hmle; omega
        obtain ⟨n', fs, he, hn', hprod, hent, hsorted, hfin⟩ :=
          ih m (dv + 2) (acc ++ [⟨dv, k⟩]) (tot + k) (dis + 1) hm (by omega) (by omega) hp' hfuel'
        refine ⟨n', ⟨dv, k⟩ :: fs, ?_, hn', ?_, ?_, ?_, ?_⟩
        · rw [he]; simp [List.append_assoc]; omega
        · rw [hnm, hprod]; simp; ring
        · intro x hx
          rcases List.mem_cons.1 hx with rfl | hx
          · exact ⟨hk, le_refl _, hdvp⟩
          · have := hent x hx; exact ⟨this.1, by omega, this.2.2⟩
        · refine List.pairwise_cons.2 ⟨?_, hsorted⟩
          intro x hx; have := (hent x hx).2.1; simp only; omega
        · intro h1
          obtain ⟨q1, q2, q3⟩ := hfin h1
          refine ⟨q1, by omega, ?_⟩
          intro x hx
          rcases List.mem_cons.1 hx with rfl | hx
          · simp only; omega
          · exact q3 x hx
      · rw [if_neg hk]
        have hk0 : k = 0 := by omega
        subst hk0
        have hmn : m = n := by rw [hnm]; simp
        subst hmn
        have hp' : ∀ p, Nat.Prime p → p ∣ m → dv + 2 ≤ p := by
          intro p pp pm
          have h1 := hp p pp pm
          have h2 : p ≠ dv := by rintro rfl; exact hnd pm
          have h3 : p ≠ dv + 1 := by
            rintro rfl
            rcases Nat.Prime.eq_two_or_odd pp with h | h <;> omega
          omega
        obtain ⟨n', fs, he, hn', hprod, hent, hsorted, hfin⟩ :=
          ih m (dv + 2) acc tot dis hm (by omega) (by omega) hp' (by omega)
        refine ⟨n', fs, he, hn', hprod, ?_, hsorted, ?_⟩
        · intro x hx; have := hent x hx; exact ⟨this.1, by omega, this.2.2⟩
        · intro h1
          obtain ⟨q1, q2, q3⟩ := hfin h1
          exact ⟨q1, by omega, q3⟩
    · rw [if_neg hlt]
      refine ⟨n, [], by simp, hn, by simp, by simp, by simp, ?_⟩
      intro h1
      have := prime_of_no_small_factor n dv h1 hp ((sqrtLimit_le_iff n dv).1 (by omega))
      exact ⟨this.1, this.2, by simp⟩

/-! ### `PrimeFactors.compute` -/

/-- Well-formedness of a `PrimeFactors` value: it really is the prime factorisation of `f.n`. -/
structure PrimeFactors.WF (f : PrimeFactors) : Prop where
  pos : 0 < f.n
  prod_eq : f.n = 2 ^ f.p2 * 3 ^ f.p3 * prodOf f.others
  entries : ∀ x ∈ f.others, 1 ≤ x.count ∧ 5 ≤ x.value ∧ Nat.Prime x.value
  sorted : f.others.Pairwise (fun a b => a.value < b.value)
  total_eq : f.total = f.p2 + f.p3 + sumCounts f.others
  distinct_eq : f.distinct = (if f.p2 > 0 then 1 else 0) + (if f.p3 > 0 then 1 else 0) + f.others.length

theorem compute_spec (n : Nat) (hn : 0 < n) :
    ∃ f, PrimeFactors.compute n = .ok f ∧ f.WF ∧ f.n = n ∧ f.p2 = (strip 2 n).2 := by
  obtain ⟨n1, p2, hn1, h2, e1⟩ := exists_strip_decomp 2 n (by omega) hn
  obtain ⟨n2, p3, hn2, h3, e2⟩ := exists_strip_decomp 3 n1 (by omega) hn1
  have hs2 : strip 2 n = (n1, p2) := by rw [e1]; exact strip_eq 2 (by omega) n1 p2 hn1 h2
  have hs3 : strip 3 n1 = (n2, p3) := by rw [e2]; exact strip_eq 3 (by omega) n2 p3 hn2 h3
  have hn21 : n2 ∣ n1 := by rw [e2]; exact Dvd.intro _ rfl
  have h22 : ¬ 2 ∣ n2 := fun h => h2 (dvd_trans h hn21)
  unfold PrimeFactors.compute
  rw [if_neg (by omega), hs2]
  simp only [hs3]
  by_cases hgt : n2 > 1
  · rw [if_pos hgt]
    have hp : ∀ p, Nat.Prime p → p ∣ n2 → 5 ≤ p := by
      intro p pp pd
      have := pp.two_le
      have h2' : p ≠ 2 := by rintro rfl; exact h22 pd
      have h3' : p ≠ 3 := by rintro rfl; exact h3 pd
      have h4' : p ≠ 4 := by rintro rfl; revert pp; decide
      omega
    have hfuel : sqrtLimit n2 ≤ 5 + n2 := by
      unfold sqrtLimit; have := Nat.sqrt_le_self n2; omega
    obtain ⟨n3, fs, he, hn3, hprod, hent, hsorted, hfin⟩ :=
      trialLoop_spec n2 n2 5 [] (p2 + p3) (if p3 > 0 then (if p2 > 0 then 1 else 0) + 1 else (if p2 > 0 then 1 else 0))
        hn2 (by omega) (by omega) hp hfuel
    rw [he]
    simp only [List.nil_append]
    by_cases hgt3 : n3 > 1
    · rw [if_pos hgt3]
      obtain ⟨q1, q2, q3⟩ := hfin hgt3
      refine ⟨_, rfl, ⟨hn, ?_, ?_, ?_, ?_, ?_⟩, rfl, rfl⟩
      · simp only [prodOf_append, prodOf_cons, prodOf_nil]
        rw [e1, e2, hprod]; ring
      · intro x hx
        rcases List.mem_append.1 hx with hx | hx
        · exact hent x hx
        · simp at hx; subst hx; exact ⟨le_refl _, q2, q1⟩
      · rw [List.pairwise_append]
        refine ⟨hsorted, by simp, ?_⟩
        intro a ha b hb
        simp at hb; subst hb; exact q3 a ha
      · simp; omega
      · simp only [List.length_append, List.length_cons, List.length_nil]
        split <;> split <;> omega
    · rw [if_neg hgt3]
      have : n3 = 1 := by omega
      subst this
      refine ⟨_, rfl, ⟨hn, ?_, hent, hsorted, ?_, ?_⟩, rfl, rfl⟩
      · show n = 2 ^ p2 * 3 ^ p3 * prodOf fs
        rw [e1, e2, hprod]; ring
      · simp
      · dsimp only
        split <;> split <;> omega
  · rw [if_neg hgt]
    have : n2 = 1 := by omega
    subst this
    refine ⟨_, rfl, ⟨hn, ?_, by simp, by simp, by simp, ?_⟩, rfl, rfl⟩
    · show n = 2 ^ p2 * 3 ^ p3 * prodOf []
      rw [e1, e2]; simp; ring
    · show _ = (if p2 > 0 then 1 else 0) + (if p3 > 0 then 1 else 0) + ([] : List PrimeFactor).length
      split <;> split <;> simp

/-! ### factor lists -/

/-- the entry invariant of `PrimeFactors.others` -/
abbrev GoodEntries (l : List PrimeFactor) : Prop :=
  ∀ x ∈ l, 1 ≤ x.count ∧ 5 ≤ x.value ∧ Nat.Prime x.value

theorem GoodEntries.tail {x : PrimeFactor} {l} (h : GoodEntries (x :: l)) : GoodEntries l :=
  fun y hy => h y (List.mem_cons_of_mem _ hy)

theorem five_le_pow {v c : Nat} (hv : 5 ≤ v) (hc : 1 ≤ c) : 5 ≤ v ^ c :=
  le_trans hv (Nat.le_self_pow (by omega) v)

theorem prodOf_pos (l : List PrimeFactor) (h : GoodEntries l) : 0 < prodOf l := by
  induction l with
  | nil => simp
  | cons x l ih =>
    have hx := h x (List.mem_cons_self ..)
    rw [prodOf_cons]
    exact Nat.mul_pos (Nat.pow_pos (by omega)) (ih h.tail)

theorem five_le_prodOf (l : List PrimeFactor) (h : GoodEntries l) (hne : l ≠ []) : 5 ≤ prodOf l := by
  cases l with
  | nil => exact absurd rfl hne
  | cons x l =>
    have hx := h x (List.mem_cons_self ..)
    rw [prodOf_cons]
    have h1 := five_le_pow hx.2.1 hx.1
    have h2 := prodOf_pos l h.tail
    nlinarith

theorem length_le_sumCounts (l : List PrimeFactor) (h : GoodEntries l) : l.length ≤ sumCounts l := by
  induction l with
  | nil => simp
  | cons x l ih =>
    have hx := h x (List.mem_cons_self ..)
    have := ih h.tail
    simp; omega

theorem prodOf_prime_sumCounts (l : List PrimeFactor) (h : GoodEntries l) (hp : Nat.Prime (prodOf l)) :
    sumCounts l = 1 := by
  cases l with
  | nil => simp at hp; exact absurd hp Nat.not_prime_one
  | cons x l =>
    have hx := h x (List.mem_cons_self ..)
    rw [prodOf_cons, Nat.prime_mul_iff] at hp
    rcases hp with ⟨h1, h2⟩ | ⟨_, h2⟩
    · have hc := h1.eq_one_of_pow
      have : l = [] := by
        by_contra hne
        have := five_le_prodOf l h.tail hne; omega
      subst this; simp [hc]
    · have := five_le_pow hx.2.1 hx.1; omega

namespace PrimeFactors.WF
variable {f : PrimeFactors}

theorem total_eq_one_of_prime (h : f.WF) (hp : Nat.Prime f.n) : f.total = 1 := by
  rw [h.total_eq]
  have hp' := hp
  rw [h.prod_eq, Nat.prime_mul_iff] at hp'
  rcases hp' with ⟨h1, h2⟩ | ⟨h1, h2⟩
  · have hl : f.others = [] := by
      by_contra hne
      have := five_le_prodOf _ h.entries hne; omega
    rw [hl]
    rw [Nat.prime_mul_iff] at h1
    rcases h1 with ⟨h3, h4⟩ | ⟨h3, h4⟩
    · have := h3.eq_one_of_pow
      have : f.p3 = 0 := by
        by_contra hne
        have : 3 ≤ 3 ^ f.p3 := Nat.le_self_pow hne 3
        omega
      simp; omega
    · have := h3.eq_one_of_pow
      have : f.p2 = 0 := by
        by_contra hne
        have : 2 ≤ 2 ^ f.p2 := Nat.le_self_pow hne 2
        omega
      simp; omega
  · have := prodOf_prime_sumCounts _ h.entries h1
    have h5 : f.p2 = 0 := by
      by_contra hne
      have : 2 ≤ 2 ^ f.p2 := Nat.le_self_pow hne 2
      have : 0 < 3 ^ f.p3 := Nat.pow_pos (by omega)
      nlinarith
    have h6 : f.p3 = 0 := by
      by_contra hne
      have : 3 ≤ 3 ^ f.p3 := Nat.le_self_pow hne 3
      have : 0 < 2 ^ f.p2 := Nat.pow_pos (by omega)
      nlinarith
    omega

theorem prime_of_total_eq_one (h : f.WF) (ht : f.total = 1) : Nat.Prime f.n := by
  have hte := h.total_eq
  have hlen := length_le_sumCounts _ h.entries
  have hpe := h.prod_eq
  have hent := h.entries
  cases hl : f.others with
  | nil =>
    rw [hl] at hte hpe
    simp at hte hpe
    have : (f.p2 = 1 ∧ f.p3 = 0) ∨ (f.p2 = 0 ∧ f.p3 = 1) := by omega
    rcases this with ⟨a, b⟩ | ⟨a, b⟩
    · rw [hpe, a, b]; decide
    · rw [hpe, a, b]; decide
  | cons x l =>
    rw [hl] at hte hpe hlen hent
    have hx := hent x (List.mem_cons_self ..)
    simp at hte hlen
    have hlen' := length_le_sumCounts l (GoodEntries.tail hent)
    have hl' : l = [] := List.eq_nil_of_length_eq_zero (by omega)
    subst hl'
    simp at hte hpe
    have h2 : f.p2 = 0 := by omega
    have h3 : f.p3 = 0 := by omega
    have hc : x.count = 1 := by omega
    rw [hpe, h2, h3, hc]; simpa using hx.2.2

/-- (B') `is_prime()` is exactly primality -/
theorem isPrime_iff (h : f.WF) : f.isPrime = true ↔ Nat.Prime f.n := by
  unfold PrimeFactors.isPrime
  simp only [beq_iff_eq]
  exact ⟨h.prime_of_total_eq_one, h.total_eq_one_of_prime⟩

theorem one_le_total (h : f.WF) (h2 : 2 ≤ f.n) : 1 ≤ f.total := by
  by_contra hc
  have hte := h.total_eq
  have hlen := length_le_sumCounts _ h.entries
  have hpe := h.prod_eq
  have : f.others = [] := List.eq_nil_of_length_eq_zero (by omega)
  rw [this] at hpe
  have h2 : f.p2 = 0 := by omega
  have h3 : f.p3 = 0 := by omega
  rw [h2, h3] at hpe; simp at hpe; omega

end PrimeFactors.WF


end RFV
