/-
Planner-wide bounds (C05): no naive node, at most one Rader/Bluestein node per path, linear workspace and
quasi-linear work of every tree the scalar (and SSE) planner emits.  Each bound is an invariant closed under the
planner's constructions (`ScalarClosed` / `SseClosed` in `Proofs/PlanScalar.lean`).  The butterfly operation table
(`Gen.bflyOpsTable`) and the scratch formulas (`Gen.*`) are regenerated on every run and are used only through the
`decide`-checked facts `bflyOps_bound`, `layer_bound`, `radix4_base_bound`, `small_pair_bound` and through
`simp only [Gen.…]` + `split`/`omega`.
-/
import RFV.Proofs.SpecLemmas
import RFV.Model.Ops
import RFV.Model.Avx
import Mathlib.Data.Nat.Log

namespace RFV

/-! ### definitions -/

/-- no naive `O(n²)` node: `Dft` only for `n ≤ 1`, butterflies only up to the hard-coded sizes -/
def Recipe.NoNaive : Recipe → Prop
  | .dft n => n ≤ 1
  | .bfly n => n ≤ 32
  | .primeBfly n => n ≤ 32
  | .avxBfly n => n ≤ 512
  | .mixedRadix l r => l.NoNaive ∧ r.NoNaive
  | .mixedRadixSmall l r => l.NoNaive ∧ r.NoNaive
  | .goodThomas l r => l.NoNaive ∧ r.NoNaive
  | .goodThomasSmall l r => l.NoNaive ∧ r.NoNaive
  | .raders i => i.NoNaive
  | .bluesteins _ i => i.NoNaive
  | .radixN _ b => b.NoNaive
  | .radix4 _ b => b.NoNaive
  | .radix3 _ b => b.NoNaive
  | .sseRadix4 _ b => b.NoNaive
  | .avxMixedRadix _ i => i.NoNaive
  | .avxRaders i => i.NoNaive
  | .avxBluesteins _ i => i.NoNaive

/-- the largest number of Rader / Bluestein nodes on a root-to-leaf path -/
def Recipe.primeDepth : Recipe → Nat
  | .dft _ => 0
  | .bfly _ => 0
  | .primeBfly _ => 0
  | .avxBfly _ => 0
  | .mixedRadix l r => max l.primeDepth r.primeDepth
  | .mixedRadixSmall l r => max l.primeDepth r.primeDepth
  | .goodThomas l r => max l.primeDepth r.primeDepth
  | .goodThomasSmall l r => max l.primeDepth r.primeDepth
  | .raders i => i.primeDepth + 1
  | .bluesteins _ i => i.primeDepth + 1
  | .radixN _ b => b.primeDepth
  | .radix4 _ b => b.primeDepth
  | .radix3 _ b => b.primeDepth
  | .sseRadix4 _ b => b.primeDepth
  | .avxMixedRadix _ i => i.primeDepth
  | .avxRaders i => i.primeDepth + 1
  | .avxBluesteins _ i => i.primeDepth + 1

/-- every prime factor is at most 31 (such lengths are planned without Rader / Bluestein) -/
def Smooth31 (m : Nat) : Prop := ∀ p, Nat.Prime p → p ∣ m → p ≤ 31

theorem Smooth31.of_dvd {a b : Nat} (h : Smooth31 b) (hd : a ∣ b) : Smooth31 a :=
  fun p hp hpa => h p hp (dvd_trans hpa hd)

theorem Smooth31.of_23 {m : Nat} (h : ∀ p, Nat.Prime p → p ∣ m → p ≤ 23) : Smooth31 m :=
  fun p hp hd => le_trans (h p hp hd) (by decide)

theorem not_smooth31_prime {n : Nat} (hp : Nat.Prime n) (h33 : 33 ≤ n) : ¬ Smooth31 n :=
  fun h => by have := h n hp (dvd_refl n); omega

theorem Pow23.smooth31 {m : Nat} (h : Pow23 m) : Smooth31 m := by
  obtain ⟨k, hk⟩ := h
  intro p hp hd
  have h6 : p ∣ 6 := hp.dvd_of_dvd_pow (dvd_trans hd (pow2_dvd_six_pow m k hk))
  have := Nat.le_of_dvd (by omega) h6
  omega

/-! ### (1) no naive node -/

theorem noNaive_scalarClosed : ScalarClosed Recipe.NoNaive where
  dft := fun n h => by simp only [Recipe.NoNaive]; omega
  bfly := fun b hb => butterflies_le_32 b (by simpa using hb)
  gtSmallBfly := fun l r hl hr _ => ⟨by have := productButterflies_lt l hl; simp only [Recipe.NoNaive]; omega,
    by have := productButterflies_lt r hr; simp only [Recipe.NoNaive]; omega⟩
  mrSmallBfly := fun l r hl hr => ⟨by have := productButterflies_lt l hl; simp only [Recipe.NoNaive]; omega,
    by have := productButterflies_lt r hr; simp only [Recipe.NoNaive]; omega⟩
  gtSmall := fun a b ha hb _ _ _ _ _ _ => ⟨ha, hb⟩
  mrSmall := fun a b ha hb _ _ _ _ _ => ⟨ha, hb⟩
  mixedRadix := fun a b ha hb _ _ _ _ => ⟨ha, hb⟩
  raders := fun i hi _ _ _ => hi
  bluesteins := fun n i hi _ _ _ _ _ _ => hi
  radixN := fun fs b hb _ _ _ _ => hb
  radix4 := fun k b hb _ _ => hb

theorem sseButterfly_cases (b : Nat) (r : Recipe) (h : sseButterfly b = some r) :
    (r = .bfly b ∨ r = .primeBfly b) ∧ 1 ≤ b ∧ b ≤ 32 := by
  have hh : ∀ x ∈ sseHandButterflies, x ≤ 32 := by decide
  have hp : ∀ x ∈ ssePrimeButterflies, x ≤ 32 := by decide
  have h1 := (sseButterfly_spec b r h).2
  unfold sseButterfly at h
  split at h
  · rename_i hc
    simp only [Option.some.injEq] at h
    refine ⟨Or.inl h.symm, h1, ?_⟩
    rcases hc with rfl | hc
    · omega
    · exact hh b (by simpa using hc)
  · split at h
    · rename_i hc
      simp only [Option.some.injEq] at h
      exact ⟨Or.inr h.symm, h1, hp b (by simpa using hc)⟩
    · cases h

theorem noNaive_sseClosed : SseClosed Recipe.NoNaive where
  dft := by simp only [Recipe.NoNaive]; omega
  bfly := fun b r h => by
    obtain ⟨hc, _, h32⟩ := sseButterfly_cases b r h
    rcases hc with rfl | rfl <;> exact h32
  gtSmall := fun a b ha hb _ _ _ => ⟨ha, hb⟩
  mrSmall := fun a b ha hb _ _ => ⟨ha, hb⟩
  mixedRadix := fun a b ha hb _ _ _ => ⟨ha, hb⟩
  raders := fun i hi _ _ _ => hi
  bluesteins := fun n i hi _ _ _ _ _ => hi
  sseRadix4 := fun k b hb => by
    simp only [List.mem_cons, List.mem_nil_iff, or_false] at hb
    simp only [Recipe.NoNaive]; omega

/-! ### (2) at most one Rader / Bluestein node on any path -/

/-- the invariant: depth `≤ 1`, and depth `0` when the length is 31-smooth -/
def DepthOK (r : Recipe) : Prop := r.primeDepth ≤ 1 ∧ (Smooth31 r.len → r.primeDepth = 0)

theorem depthOK_pair {a b : Recipe} (ha : DepthOK a) (hb : DepthOK b) :
    max a.primeDepth b.primeDepth ≤ 1 ∧ (Smooth31 (a.len * b.len) → max a.primeDepth b.primeDepth = 0) := by
  refine ⟨Nat.max_le.2 ⟨ha.1, hb.1⟩, fun hs => ?_⟩
  have h1 := ha.2 (hs.of_dvd (Dvd.intro _ rfl))
  have h2 := hb.2 (hs.of_dvd (Dvd.intro_left _ rfl))
  rw [h1, h2]; rfl

theorem depthOK_scalarClosed : ScalarClosed DepthOK where
  dft := fun n _ => ⟨Nat.zero_le _, fun _ => rfl⟩
  bfly := fun b _ => ⟨Nat.zero_le _, fun _ => rfl⟩
  gtSmallBfly := fun l r _ _ _ => ⟨Nat.zero_le _, fun _ => rfl⟩
  mrSmallBfly := fun l r _ _ => ⟨Nat.zero_le _, fun _ => rfl⟩
  gtSmall := fun a b ha hb _ _ _ _ _ _ => depthOK_pair ha hb
  mrSmall := fun a b ha hb _ _ _ _ _ => depthOK_pair ha hb
  mixedRadix := fun a b ha hb _ _ _ _ => depthOK_pair ha hb
  raders := fun i hi hp h33 hsm => by
    have h0 := hi.2 (Smooth31.of_23 hsm)
    exact ⟨by simp only [Recipe.primeDepth, h0]; omega, fun hs => absurd hs (not_smooth31_prime hp h33)⟩
  bluesteins := fun n i hi hp h33 _ _ hpow _ => by
    have h0 := hi.2 hpow.smooth31
    exact ⟨by simp only [Recipe.primeDepth, h0]; omega, fun hs => absurd hs (not_smooth31_prime hp h33)⟩
  radixN := fun fs b hb _ _ _ _ => ⟨hb.1, fun hs => hb.2 (hs.of_dvd (Dvd.intro _ rfl))⟩
  radix4 := fun k b hb _ _ => ⟨hb.1, fun hs => hb.2 (hs.of_dvd (Dvd.intro _ rfl))⟩

theorem depthOK_sseClosed : SseClosed DepthOK where
  dft := ⟨Nat.zero_le _, fun _ => rfl⟩
  bfly := fun b r h => by
    obtain ⟨hc, _, _⟩ := sseButterfly_cases b r h
    rcases hc with rfl | rfl <;> exact ⟨Nat.zero_le _, fun _ => rfl⟩
  gtSmall := fun a b ha hb _ _ _ => depthOK_pair ha hb
  mrSmall := fun a b ha hb _ _ => depthOK_pair ha hb
  mixedRadix := fun a b ha hb _ _ _ => depthOK_pair ha hb
  raders := fun i hi hp h33 hsm => by
    have h0 := hi.2 (Smooth31.of_23 hsm)
    exact ⟨by simp only [Recipe.primeDepth, h0]; omega, fun hs => absurd hs (not_smooth31_prime hp h33)⟩
  bluesteins := fun n i hi hp h33 _ _ hpow => by
    have h0 := hi.2 hpow.smooth31
    exact ⟨by simp only [Recipe.primeDepth, h0]; omega, fun hs => absurd hs (not_smooth31_prime hp h33)⟩
  sseRadix4 := fun k b _ => ⟨Nat.zero_le _, fun _ => rfl⟩

/-! ### (3) linear workspace -/

/-- scratch bounds carried through the planner: all three scratch lengths are at most `8·len`; a 31-smooth length
needs `inplace ≤ len`, no out-of-place scratch and `immut ≤ 2·len` -/
def ScratchOK (ty : ElemTy) (r : Recipe) : Prop :=
  SpecOK ty r ∧ ∀ s, r.spec ty = .ok s →
    (s.inplace ≤ 8 * r.len ∧ s.oop ≤ 8 * r.len ∧ s.immut ≤ 8 * r.len) ∧
    (Smooth31 r.len → s.inplace ≤ r.len ∧ s.oop = 0 ∧ s.immut ≤ 2 * r.len)

variable {ty : ElemTy}

theorem scratchOK_bfly (b : Nat) : ScratchOK ty (.bfly b) := by
  refine ⟨specOK_bfly b, fun s hs => ?_⟩
  rw [Recipe.spec] at hs; cases hs
  refine ⟨⟨?_, ?_, ?_⟩, fun _ => ⟨?_, ?_, ?_⟩⟩ <;> (try simp only [specBfly, Recipe.len]) <;> omega

theorem scratchOK_primeBfly (b : Nat) : ScratchOK ty (.primeBfly b) := by
  refine ⟨specOK_primeBfly b, fun s hs => ?_⟩
  rw [Recipe.spec] at hs; cases hs
  refine ⟨⟨?_, ?_, ?_⟩, fun _ => ⟨?_, ?_, ?_⟩⟩ <;> (try simp only [specBfly, Recipe.len]) <;> omega

theorem scratchOK_dft (n : Nat) : ScratchOK ty (.dft n) := by
  refine ⟨specOK_dft n, fun s hs => ?_⟩
  rw [Recipe.spec] at hs; cases hs
  refine ⟨⟨?_, ?_, ?_⟩, fun _ => ⟨?_, ?_, ?_⟩⟩ <;> (try simp only [Recipe.len]) <;> omega

/-- the spec of a `*Small` node, whenever it builds -/
theorem spec_small_shape (a b : Recipe) (s : Spec)
    (hs : (Recipe.goodThomasSmall a b).spec ty = .ok s ∨ (Recipe.mixedRadixSmall a b).spec ty = .ok s)
    (hl : s.len = a.len * b.len) : s.inplace = a.len * b.len ∧ s.oop = 0 ∧ s.immut = a.len * b.len := by
  rcases hs with hs | hs <;>
  · rw [Recipe.spec] at hs
    repeat' split at hs
    all_goals first
      | (simp only [Except.ok.injEq] at hs; subst hs; simp only at hl; exact ⟨hl, rfl, hl⟩)
      | cases hs

theorem scratchOK_gtSmall (a b : Recipe) (h : SpecOK ty (.goodThomasSmall a b)) :
    ScratchOK ty (.goodThomasSmall a b) := by
  refine ⟨h, fun s hs => ?_⟩
  obtain ⟨s', hs', hl, _⟩ := h
  rw [hs] at hs'; cases hs'
  obtain ⟨h1, h2, h3⟩ := spec_small_shape a b s (Or.inl hs) hl
  simp only [Recipe.len]
  exact ⟨⟨by omega, by omega, by omega⟩, fun _ => ⟨by omega, h2, by omega⟩⟩

theorem scratchOK_mrSmall (a b : Recipe) (h : SpecOK ty (.mixedRadixSmall a b)) :
    ScratchOK ty (.mixedRadixSmall a b) := by
  refine ⟨h, fun s hs => ?_⟩
  obtain ⟨s', hs', hl, _⟩ := h
  rw [hs] at hs'; cases hs'
  obtain ⟨h1, h2, h3⟩ := spec_small_shape a b s (Or.inr hs) hl
  simp only [Recipe.len]
  exact ⟨⟨by omega, by omega, by omega⟩, fun _ => ⟨by omega, h2, by omega⟩⟩

theorem scratchOK_mixedRadix (a b : Recipe) (ha : ScratchOK ty a) (hb : ScratchOK ty b) (ha1 : 1 < a.len)
    (hb1 : 1 < b.len) (h33 : 33 ≤ a.len * b.len) : ScratchOK ty (.mixedRadix a b) := by
  refine ⟨specOK_mixedRadix a b ha.1 hb.1 h33, fun s hs => ?_⟩
  obtain ⟨sa, hsa, hal, _⟩ := ha.1
  obtain ⟨sb, hsb, hbl, _⟩ := hb.1
  obtain ⟨⟨a1, a2, a3⟩, asm⟩ := ha.2 sa hsa
  obtain ⟨⟨b1, b2, b3⟩, bsm⟩ := hb.2 sb hsb
  rw [Recipe.spec, hsa, hsb] at hs
  simp only [Except.ok.injEq] at hs; subst hs
  have h2a : 2 * a.len ≤ a.len * b.len := by rw [Nat.mul_comm 2]; exact Nat.mul_le_mul_left _ hb1
  have h2b : 2 * b.len ≤ a.len * b.len := by rw [Nat.mul_comm 2, Nat.mul_comm a.len]; exact Nat.mul_le_mul_left _ ha1
  have asm' : Smooth31 (a.len * b.len) → _ := fun hs => asm (hs.of_dvd (Dvd.intro _ rfl))
  have bsm' : Smooth31 (a.len * b.len) → _ := fun hs => bsm (hs.of_dvd (Dvd.intro_left _ rfl))
  simp only [Recipe.len, hal, hbl, Gen.mixedRadix_inplace, Gen.mixedRadix_oop, Gen.mixedRadix_immut]
  generalize a.len * b.len = L at *
  refine ⟨⟨?_, ?_, ?_⟩, fun hs => ?_⟩
  · split <;> omega
  · split <;> omega
  · omega
  · obtain ⟨c1, c2, c3⟩ := asm' hs
    obtain ⟨d1, d2, d3⟩ := bsm' hs
    refine ⟨?_, ?_, ?_⟩
    · split <;> omega
    · split <;> omega
    · omega

theorem scratchOK_raders (hroot : ∀ p, Nat.Prime p → (primitiveRoot p).isSome = true) (i : Recipe)
    (hi : ScratchOK ty i) (hp : Nat.Prime (i.len + 1)) (h33 : 33 ≤ i.len + 1)
    (hsm : ∀ p, Nat.Prime p → p ∣ i.len → p ≤ 23) : ScratchOK ty (.raders i) := by
  refine ⟨specOK_raders hroot i hi.1 hp h33, fun s hs => ?_⟩
  obtain ⟨si, hsi, hil, _⟩ := hi.1
  obtain ⟨_, ism⟩ := hi.2 si hsi
  obtain ⟨c1, c2, c3⟩ := ism (Smooth31.of_23 hsm)
  rw [Recipe.spec, hsi] at hs
  simp only [hil, radersAsserts_ok _ hp (hroot _ hp), Except.ok.injEq] at hs
  subst hs
  simp only [Recipe.len, Gen.raders_inplace, Gen.raders_oop, Gen.raders_immut, hil]
  refine ⟨⟨?_, ?_, ?_⟩, fun hs => absurd hs (not_smooth31_prime hp h33)⟩
  · split <;> omega
  · split <;> omega
  · omega

theorem scratchOK_bluesteins (n : Nat) (i : Recipe) (hi : ScratchOK ty i) (hp : Nat.Prime n) (h33 : 33 ≤ n)
    (hb : 2 * n - 1 ≤ i.len) (hlt : i.len < 4 * n) (hpow : Pow23 i.len) : ScratchOK ty (.bluesteins n i) := by
  refine ⟨specOK_bluesteins n i hi.1 h33 hb, fun s hs => ?_⟩
  obtain ⟨si, hsi, hil, _⟩ := hi.1
  obtain ⟨_, ism⟩ := hi.2 si hsi
  obtain ⟨c1, c2, c3⟩ := ism hpow.smooth31
  rw [Recipe.spec, hsi] at hs
  simp only at hs
  rw [if_neg (by omega), if_neg (by rw [hil]; omega)] at hs
  simp only [Except.ok.injEq] at hs
  subst hs
  simp only [Recipe.len, Gen.bluesteins_scratch, hil]
  exact ⟨⟨by omega, by omega, by omega⟩, fun hs => absurd hs (not_smooth31_prime hp h33)⟩

theorem scratchOK_radixN (fs : List Nat) (b : Recipe) (hb : ScratchOK ty b)
    (hcase : 2 ≤ fs.foldl (· * ·) 1 ∨ ∃ b', b = .bfly b') (hpos : 0 < fs.foldl (· * ·) 1) :
    ScratchOK ty (.radixN fs b) := by
  refine ⟨specOK_radixN fs b hb.1 hpos, fun s hs => ?_⟩
  obtain ⟨sb, hsb, hbl, _⟩ := hb.1
  obtain ⟨⟨b1, b2, b3⟩, bsm⟩ := hb.2 sb hsb
  rw [Recipe.spec, hsb] at hs
  simp only [Except.ok.injEq] at hs; subst hs
  have hle : b.len ≤ b.len * fs.foldl (· * ·) 1 := Nat.le_mul_of_pos_right _ hpos
  have bsm' : Smooth31 (b.len * fs.foldl (· * ·) 1) → _ := fun hs => bsm (hs.of_dvd (Dvd.intro _ rfl))
  have hin : sb.inplace = 0 ∨ 2 * b.len ≤ b.len * fs.foldl (· * ·) 1 := by
    rcases hcase with h2 | ⟨b', rfl⟩
    · right; rw [Nat.mul_comm 2]; exact Nat.mul_le_mul_left _ h2
    · left; rw [Recipe.spec] at hsb; cases hsb; rfl
  simp only [Recipe.len, hbl, Gen.radixN_inplace, Gen.radixN_oop, Gen.radixN_immut]
  generalize b.len * fs.foldl (· * ·) 1 = L at *
  refine ⟨⟨?_, ?_, ?_⟩, fun hs => ?_⟩
  · split <;> omega
  · split <;> omega
  · omega
  · obtain ⟨c1, c2, c3⟩ := bsm' hs
    refine ⟨?_, ?_, ?_⟩
    · split <;> omega
    · split <;> omega
    · omega

theorem scratchOK_radix4 (k : Nat) (b : Recipe) (hb : ScratchOK ty b)
    (hcase : 1 ≤ k ∨ ∃ b', b = .bfly b') : ScratchOK ty (.radix4 k b) := by
  refine ⟨specOK_radix4 k b hb.1, fun s hs => ?_⟩
  obtain ⟨sb, hsb, hbl, _⟩ := hb.1
  obtain ⟨⟨b1, b2, b3⟩, bsm⟩ := hb.2 sb hsb
  rw [Recipe.spec, hsb] at hs
  simp only [Except.ok.injEq] at hs; subst hs
  have hpos : 0 < 2 ^ (2 * k) := Nat.pow_pos (by omega)
  have hle : b.len ≤ b.len * 2 ^ (2 * k) := Nat.le_mul_of_pos_right _ hpos
  have bsm' : Smooth31 (b.len * 2 ^ (2 * k)) → _ := fun hs => bsm (hs.of_dvd (Dvd.intro _ rfl))
  have hin : sb.inplace = 0 ∨ 2 * b.len ≤ b.len * 2 ^ (2 * k) := by
    rcases hcase with h1 | ⟨b', rfl⟩
    · right
      have : 2 ≤ 2 ^ (2 * k) := Nat.le_self_pow (by omega) 2
      rw [Nat.mul_comm 2]; exact Nat.mul_le_mul_left _ this
    · left; rw [Recipe.spec] at hsb; cases hsb; rfl
  simp only [Recipe.len, hbl, Gen.radix4_inplace, Gen.radix4_oop, Gen.radix4_immut]
  generalize b.len * 2 ^ (2 * k) = L at *
  refine ⟨⟨?_, ?_, ?_⟩, fun hs => ?_⟩
  · split <;> omega
  · split <;> omega
  · omega
  · obtain ⟨c1, c2, c3⟩ := bsm' hs
    refine ⟨?_, ?_, ?_⟩
    · split <;> omega
    · split <;> omega
    · omega

theorem scratchOK_sseRadix4 (k b : Nat) (hb : b ∈ [12, 16, 24, 32]) : ScratchOK ty (.sseRadix4 k (.bfly b)) := by
  have h := specOK_sseRadix4 (ty := ty) k b hb
  refine ⟨h, fun s hs => ?_⟩
  rw [Recipe.spec, Recipe.spec] at hs
  simp only [] at hs
  split at hs
  · cases hs
  · simp only [Except.ok.injEq] at hs; subst hs
    refine ⟨⟨?_, ?_, ?_⟩, fun _ => ⟨?_, ?_, ?_⟩⟩ <;>
      (try simp only [Recipe.len, specBfly, Gen.sseRadix4_inplace, Gen.sseRadix4_oop, Gen.sseRadix4_immut]) <;> omega

theorem scratchOK_scalarClosed (ty : ElemTy) (hroot : ∀ p, Nat.Prime p → (primitiveRoot p).isSome = true) :
    ScalarClosed (ScratchOK ty) where
  dft := fun n _ => scratchOK_dft n
  bfly := fun b _ => scratchOK_bfly b
  gtSmallBfly := fun l r hl hr hg => scratchOK_gtSmall _ _
    ((specOK_scalarClosed ty hroot).gtSmallBfly l r hl hr hg)
  mrSmallBfly := fun l r hl hr => scratchOK_mrSmall _ _ ((specOK_scalarClosed ty hroot).mrSmallBfly l r hl hr)
  gtSmall := fun a b ha hb h1 h2 h3 h4 hg ho => scratchOK_gtSmall _ _
    ((specOK_scalarClosed ty hroot).gtSmall a b ha.1 hb.1 h1 h2 h3 h4 hg ho)
  mrSmall := fun a b ha hb h1 h2 h3 h4 ho => scratchOK_mrSmall _ _
    ((specOK_scalarClosed ty hroot).mrSmall a b ha.1 hb.1 h1 h2 h3 h4 ho)
  mixedRadix := fun a b ha hb h1 h2 h33 _ => scratchOK_mixedRadix a b ha hb h1 h2 h33
  raders := fun i hi hp h33 hsm => scratchOK_raders hroot i hi hp h33 hsm
  bluesteins := fun n i hi hp h33 hb hlt hpow _ => scratchOK_bluesteins n i hi hp h33 hb hlt hpow
  radixN := fun fs b hb _ _ hcase hpos => scratchOK_radixN fs b hb hcase hpos
  radix4 := fun k b hb _ hcase => scratchOK_radix4 k b hb hcase

theorem scratchOK_sseClosed (ty : ElemTy) (hroot : ∀ p, Nat.Prime p → (primitiveRoot p).isSome = true) :
    SseClosed (ScratchOK ty) where
  dft := scratchOK_dft 0
  bfly := fun b r h => by
    obtain ⟨hc, _, _⟩ := sseButterfly_cases b r h
    rcases hc with rfl | rfl
    · exact scratchOK_bfly b
    · exact scratchOK_primeBfly b
  gtSmall := fun a b ha hb h1 h2 hg => scratchOK_gtSmall _ _
    ((specOK_sseClosed ty hroot).gtSmall a b ha.1 hb.1 h1 h2 hg)
  mrSmall := fun a b ha hb h1 h2 => scratchOK_mrSmall _ _ ((specOK_sseClosed ty hroot).mrSmall a b ha.1 hb.1 h1 h2)
  mixedRadix := fun a b ha hb h1 h2 h33 => scratchOK_mixedRadix a b ha hb h1 h2 h33
  raders := fun i hi hp h33 hsm => scratchOK_raders hroot i hi hp h33 hsm
  bluesteins := fun n i hi hp h33 hb hlt hpow => scratchOK_bluesteins n i hi hp h33 hb hlt hpow
  sseRadix4 := fun k b hb => scratchOK_sseRadix4 k b hb

/-! ### (4) quasi-linear work -/

theorem log2_mul_ge {a b : Nat} (ha : 0 < a) (hb : 0 < b) : Nat.log2 a + Nat.log2 b ≤ Nat.log2 (a * b) := by
  rw [Nat.le_log2 (Nat.mul_pos ha hb).ne', pow_add]
  exact Nat.mul_le_mul (Nat.log2_self_le ha.ne') (Nat.log2_self_le hb.ne')

theorem log2_mono {a b : Nat} (ha : 0 < a) (h : a ≤ b) : Nat.log2 a ≤ Nat.log2 b := by
  rw [Nat.le_log2 (by omega)]
  exact le_trans (Nat.log2_self_le ha.ne') h

theorem log2_lt_four_mul {M n : Nat} (hM : 0 < M) (h : M < 4 * n) : Nat.log2 M ≤ Nat.log2 n + 2 := by
  have : Nat.log2 M < Nat.log2 n + 3 := by
    rw [Nat.log2_lt hM.ne']
    have h1 : n < 2 ^ (Nat.log2 n + 1) := Nat.lt_log2_self
    have h2 : 2 ^ (Nat.log2 n + 3) = 4 * 2 ^ (Nat.log2 n + 1) := by rw [pow_add, pow_add]; norm_num; ring
    omega
  omega

/-- the inductive invariant for the operation count: `ops + 6·len ≤ 64·len·⌊log₂ len⌋`, and with constant 17 when
the length is 31-smooth -/
def OpsOK (r : Recipe) : Prop :=
  (2 ≤ r.len → r.ops + 6 * r.len ≤ 64 * r.len * Nat.log2 r.len) ∧
  (Smooth31 r.len → 2 ≤ r.len → r.ops + 6 * r.len ≤ 17 * r.len * Nat.log2 r.len)

/-- facts about the generated butterfly table (re-checked by evaluation whenever the table changes) -/
theorem bflyOps_bound : ∀ b ∈ scalarButterflies, bflyOps b + 6 * b ≤ 17 * b * Nat.log2 b := by decide

theorem layer_bound : ∀ f ∈ [2, 3, 4, 5, 6, 7], 2 * (6 * (f - 1) + bflyOps f) ≤ 19 * f * Nat.log2 f := by decide

theorem radix4_base_bound : ∀ b ∈ [8, 12, 16, 24], 4 * bflyOps b ≤ 18 * b * Nat.log2 b := by decide

theorem small_pair_bound : ∀ l ∈ [2, 3, 4, 6, 8, 16, 24, 32], ∀ r ∈ [2, 3, 4, 6, 8, 16, 24, 32], 64 ≤ l * r →
    4 * (l * bflyOps r + r * bflyOps l + 6 * (l * r)) ≤ 18 * (l * r) * Nat.log2 (l * r) := by decide

theorem opsOK_of_smooth_bound {r : Recipe} (h : 2 ≤ r.len → r.ops + 6 * r.len ≤ 17 * r.len * Nat.log2 r.len) :
    OpsOK r := by
  refine ⟨fun h2 => le_trans (h h2) ?_, fun _ h2 => h h2⟩
  exact Nat.mul_le_mul_right _ (Nat.mul_le_mul_right _ (by decide))

theorem opsOK_bfly (b : Nat) (hb : scalarButterflies.contains b = true) : OpsOK (.bfly b) :=
  opsOK_of_smooth_bound (fun _ => bflyOps_bound b (by simpa using hb))

/-- two children under a mixed-radix / Good–Thomas node -/
theorem mix_le (A la lb oa ob La Lb L : Nat) (ha : oa + 6 * la ≤ A * la * La) (hb : ob + 6 * lb ≤ A * lb * Lb)
    (hL : La + Lb ≤ L) : la * ob + lb * oa + 6 * (la * lb) + 6 * (la * lb) ≤ A * (la * lb) * L := by
  have h1 := Nat.mul_le_mul_left la hb
  have h2 := Nat.mul_le_mul_left lb ha
  have h3 : A * (la * lb) * (La + Lb) ≤ A * (la * lb) * L := Nat.mul_le_mul_left _ hL
  nlinarith [h1, h2, h3]

theorem opsOK_pair (a b : Recipe) (ha : OpsOK a) (hb : OpsOK b) (ha1 : 1 < a.len) (hb1 : 1 < b.len)
    (o : Nat) (ho : o ≤ a.len * b.ops + b.len * a.ops + 6 * (a.len * b.len)) :
    (2 ≤ a.len * b.len → o + 6 * (a.len * b.len) ≤ 64 * (a.len * b.len) * Nat.log2 (a.len * b.len)) ∧
    (Smooth31 (a.len * b.len) → 2 ≤ a.len * b.len →
      o + 6 * (a.len * b.len) ≤ 17 * (a.len * b.len) * Nat.log2 (a.len * b.len)) := by
  have hL := log2_mul_ge (show 0 < a.len by omega) (show 0 < b.len by omega)
  constructor
  · intro _
    have := mix_le 64 a.len b.len a.ops b.ops _ _ _ (ha.1 (by omega)) (hb.1 (by omega)) hL
    omega
  · intro hs _
    have := mix_le 17 a.len b.len a.ops b.ops _ _ _ (ha.2 (hs.of_dvd (Dvd.intro _ rfl)) (by omega))
      (hb.2 (hs.of_dvd (Dvd.intro_left _ rfl)) (by omega)) hL
    omega

theorem opsOK_mixedRadix (a b : Recipe) (ha : OpsOK a) (hb : OpsOK b) (ha1 : 1 < a.len) (hb1 : 1 < b.len) :
    OpsOK (.mixedRadix a b) := opsOK_pair a b ha hb ha1 hb1 _ (le_refl _)
theorem opsOK_mrSmall (a b : Recipe) (ha : OpsOK a) (hb : OpsOK b) (ha1 : 1 < a.len) (hb1 : 1 < b.len) :
    OpsOK (.mixedRadixSmall a b) := opsOK_pair a b ha hb ha1 hb1 _ (le_refl _)
theorem opsOK_gtSmall (a b : Recipe) (ha : OpsOK a) (hb : OpsOK b) (ha1 : 1 < a.len) (hb1 : 1 < b.len) :
    OpsOK (.goodThomasSmall a b) := opsOK_pair a b ha hb ha1 hb1 _ (Nat.le_add_right _ _)

/-! radix layers -/

theorem layerOps_le (len f : Nat) (hf : f ∈ [2, 3, 4, 5, 6, 7]) :
    2 * layerOps len f ≤ 19 * len * Nat.log2 f := by
  have h := layer_bound f hf
  unfold layerOps
  have h1 : len / f * f ≤ len := Nat.div_mul_le_self len f
  calc 2 * (len / f * (6 * (f - 1) + bflyOps f)) = len / f * (2 * (6 * (f - 1) + bflyOps f)) := by ring
    _ ≤ len / f * (19 * f * Nat.log2 f) := Nat.mul_le_mul_left _ h
    _ = 19 * (len / f * f) * Nat.log2 f := by ring
    _ ≤ 19 * len * Nat.log2 f := Nat.mul_le_mul_right _ (Nat.mul_le_mul_left _ h1)

theorem layersOps_le (len : Nat) : ∀ (fs : List Nat) (acc : Nat), (∀ f ∈ fs, f ∈ [2, 3, 4, 5, 6, 7]) →
    2 * layersOps fs len acc ≤ 2 * acc + 19 * len * (fs.map Nat.log2).sum := by
  intro fs
  induction fs with
  | nil => intro acc _; simp [layersOps]
  | cons f fs ih =>
    intro acc h
    rw [layersOps]
    have h1 := ih (acc + layerOps len f) (fun x hx => h x (List.mem_cons_of_mem _ hx))
    have h2 := layerOps_le len f (h f (List.mem_cons_self ..))
    simp only [List.map_cons, List.sum_cons]
    nlinarith [h1, h2]

theorem sum_log2_le (fs : List Nat) (h : ∀ f ∈ fs, f ∈ [2, 3, 4, 5, 6, 7]) :
    (fs.map Nat.log2).sum ≤ Nat.log2 fs.prod := by
  induction fs with
  | nil => simp
  | cons f fs ih =>
    have hf := h f (List.mem_cons_self ..)
    have hfpos : 0 < f := by
      simp only [List.mem_cons, List.mem_nil_iff, or_false] at hf; omega
    have hpos : 0 < fs.prod := prod_pos_of_forall_pos fs (fun x hx => by
      have := h x (List.mem_cons_of_mem _ hx)
      simp only [List.mem_cons, List.mem_nil_iff, or_false] at this; omega)
    simp only [List.map_cons, List.sum_cons, List.prod_cons]
    have := ih (fun x hx => h x (List.mem_cons_of_mem _ hx))
    have := log2_mul_ge hfpos hpos
    omega

/-- a base of length `bl` with `ob` operations under `P`-fold radix layers costing `lay` -/
theorem radix_le (A bl ob P lay Lb LP L : Nat) (hA : 10 ≤ A) (hb : ob + 6 * bl ≤ A * bl * Lb)
    (hlay : 2 * lay ≤ 19 * (bl * P) * LP) (hL : Lb + LP ≤ L) :
    P * ob + lay + 6 * (bl * P) ≤ A * (bl * P) * L := by
  have h1 := Nat.mul_le_mul_left P hb
  have h3 : A * (bl * P) * (Lb + LP) ≤ A * (bl * P) * L := Nat.mul_le_mul_left _ hL
  have h4 : 19 * (bl * P) * LP ≤ 2 * A * (bl * P) * LP := by
    have : 19 * (bl * P) ≤ 2 * A * (bl * P) := Nat.mul_le_mul_right _ (by omega)
    exact Nat.mul_le_mul_right _ this
  nlinarith [h1, h3, h4, hlay]

theorem opsOK_radixN (fs : List Nat) (b : Recipe) (hb : OpsOK b) (hb2 : 2 ≤ b.len)
    (hfs : ∀ f ∈ fs, f ∈ [2, 3, 4, 5, 6, 7]) (hpos : 0 < fs.foldl (· * ·) 1) : OpsOK (.radixN fs b) := by
  have hP : fs.foldl (· * ·) 1 = fs.prod := by rw [foldl_mul_eq_prod, Nat.one_mul]
  have hlay := layersOps_le (b.len * fs.foldl (· * ·) 1) fs 0 hfs
  have hsum := sum_log2_le fs hfs
  rw [← hP] at hsum
  have hlay' : 2 * layersOps fs (b.len * fs.foldl (· * ·) 1) 0 ≤
      19 * (b.len * fs.foldl (· * ·) 1) * Nat.log2 (fs.foldl (· * ·) 1) := by
    have := Nat.mul_le_mul_left (19 * (b.len * fs.foldl (· * ·) 1)) hsum
    omega
  have hL := log2_mul_ge (show 0 < b.len by omega) hpos
  simp only [OpsOK, Recipe.len, Recipe.ops]
  constructor
  · intro _
    exact radix_le 64 _ _ _ _ _ _ _ (by omega) (hb.1 hb2) hlay' hL
  · intro hs _
    exact radix_le 17 _ _ _ _ _ _ _ (by omega) (hb.2 (hs.of_dvd (Dvd.intro _ rfl)) hb2) hlay' hL

theorem log2_four_pow (k : Nat) : 2 * k ≤ Nat.log2 (4 ^ k) := by
  rw [Nat.le_log2 (Nat.pow_pos (by omega)).ne', pow_mul]; norm_num

theorem opsOK_radix4 (k : Nat) (b : Recipe) (hb : OpsOK b) (hb2 : 2 ≤ b.len) : OpsOK (.radix4 k b) := by
  have e4 : (2 : Nat) ^ (2 * k) = 4 ^ k := by rw [pow_mul]; norm_num
  have hl4 := layerOps_le (b.len * 4 ^ k) 4 (by decide)
  have hlog4 : Nat.log2 4 = 2 := by decide
  rw [hlog4] at hl4
  have hlay' : 2 * (k * layerOps (b.len * 4 ^ k) 4) ≤ 19 * (b.len * 4 ^ k) * Nat.log2 (4 ^ k) := by
    have h1 := log2_four_pow k
    have h2 := Nat.mul_le_mul_left (19 * (b.len * 4 ^ k)) h1
    nlinarith [hl4, h2]
  have hL := log2_mul_ge (show 0 < b.len by omega) (show 0 < 4 ^ k from Nat.pow_pos (by omega))
  simp only [OpsOK, Recipe.len, Recipe.ops, e4]
  constructor
  · intro _
    exact radix_le 64 _ _ _ _ _ _ _ (by omega) (hb.1 hb2) hlay' hL
  · intro hs _
    exact radix_le 17 _ _ _ _ _ _ _ (by omega) (hb.2 (hs.of_dvd (Dvd.intro _ rfl)) hb2) hlay' hL

/-! Rader and Bluestein -/

theorem opsOK_raders (i : Recipe) (hi : OpsOK i) (hp : Nat.Prime (i.len + 1)) (h33 : 33 ≤ i.len + 1)
    (hsm : ∀ p, Nat.Prime p → p ∣ i.len → p ≤ 23) : OpsOK (.raders i) := by
  have hb := hi.2 (Smooth31.of_23 hsm) (by omega)
  have hL5 : 5 ≤ Nat.log2 i.len := by rw [Nat.le_log2 (by omega)]; omega
  have hLm := log2_mono (show 0 < i.len by omega) (show i.len ≤ i.len + 1 by omega)
  simp only [OpsOK, Recipe.len, Recipe.ops]
  refine ⟨fun _ => ?_, fun hs => absurd hs (not_smooth31_prime hp h33)⟩
  have hX : 32 * 5 ≤ i.len * Nat.log2 i.len := Nat.mul_le_mul (by omega) hL5
  have h1 : 64 * i.len * Nat.log2 i.len ≤ 64 * (i.len + 1) * Nat.log2 (i.len + 1) :=
    Nat.mul_le_mul (Nat.mul_le_mul_left _ (by omega)) hLm
  nlinarith [hb, hX, h1]

theorem layer4_le (len : Nat) : 4 * layerOps len 4 ≤ 34 * len := by
  unfold layerOps
  have h : 6 * (4 - 1) + bflyOps 4 = 34 := by decide
  rw [h]
  have := Nat.div_mul_le_self len 4
  omega

theorem not_nine_dvd_pow23 {M : Nat} (h : Pow23 M) : ¬ 9 ∣ M := by
  obtain ⟨k, hk | hk⟩ := h <;> intro h9
  · have : 3 ∣ 2 ^ k := dvd_trans (by decide : 3 ∣ 9) (hk ▸ h9)
    have := Nat.prime_three.dvd_of_dvd_pow this; omega
  · rw [hk, show (9 : Nat) = 3 * 3 by norm_num] at h9
    have : 3 ∣ 2 ^ k := Nat.dvd_of_mul_dvd_mul_left (by omega) h9
    have := Nat.prime_three.dvd_of_dvd_pow this; omega

theorem pb_dvd_pow23 (l M : Nat) (hl : l ∈ scalarProductButterflies) (hd : l ∣ M) (hM : Pow23 M) :
    l ∈ [2, 3, 4, 6, 8, 16, 24, 32] := by
  have hcases : ∀ l ∈ scalarProductButterflies, l ∈ [2, 3, 4, 6, 8, 16, 24, 32] ∨ 9 ∣ l ∨
      ∃ q ∈ [5, 7, 11, 13, 17, 19, 23, 29, 31], q ∣ l := by decide
  have hprimes : ∀ q ∈ [5, 7, 11, 13, 17, 19, 23, 29, 31], Nat.Prime q := by decide
  rcases hcases l hl with h | h9 | ⟨q, hq, hql⟩
  · exact h
  · exact absurd (dvd_trans h9 hd) (not_nine_dvd_pow23 hM)
  · exfalso
    have hsm := hM.smooth31 q (hprimes q hq) (dvd_trans hql hd)
    obtain ⟨k, hk⟩ := hM
    have h6 : q ∣ 6 := (hprimes q hq).dvd_of_dvd_pow (dvd_trans (dvd_trans hql hd) (pow2_dvd_six_pow M k hk))
    simp only [List.mem_cons, List.mem_nil_iff, or_false] at hq
    rcases hq with rfl | rfl | rfl | rfl | rfl | rfl | rfl | rfl | rfl <;> omega

/-- the Bluestein inner transform costs at most `4.5·M·⌊log₂ M⌋` -/
theorem bluestein_inner_ops (i : Recipe) (hshape : BluesteinInnerShape i) (hpow : Pow23 i.len)
    (h64 : 64 ≤ i.len) : 4 * i.ops ≤ 18 * i.len * Nat.log2 i.len := by
  rcases hshape with ⟨j, b, rfl, hb⟩ | ⟨l, r', hl, hr, hi⟩
  · have e4 : (2 : Nat) ^ (2 * j) = 4 ^ j := by rw [pow_mul]; norm_num
    have hB := radix4_base_bound b hb
    have hbpos : 0 < b := by
      simp only [List.mem_cons, List.mem_nil_iff, or_false] at hb; omega
    have hl4 := layer4_le (b * 4 ^ j)
    have hL := log2_mul_ge hbpos (show 0 < 4 ^ j from Nat.pow_pos (by omega))
    have hL4 := log2_four_pow j
    simp only [Recipe.len, Recipe.ops, e4]
    have h1 : 18 * (b * 4 ^ j) * (Nat.log2 b + 2 * j) ≤ 18 * (b * 4 ^ j) * Nat.log2 (b * 4 ^ j) :=
      Nat.mul_le_mul_left _ (by omega)
    have h2 := Nat.mul_le_mul_left (4 ^ j) hB
    nlinarith [h1, h2, hl4]
  · have hlen : i.len = l * r' := by rcases hi with rfl | rfl <;> rfl
    rw [hlen] at hpow h64 ⊢
    have hl8 := pb_dvd_pow23 l _ hl (Dvd.intro _ rfl) hpow
    have hr8 := pb_dvd_pow23 r' _ hr (Dvd.intro_left _ rfl) hpow
    have := small_pair_bound l hl8 r' hr8 h64
    rcases hi with rfl | rfl <;> simp only [Recipe.ops, Recipe.len] <;> omega

theorem opsOK_bluesteins (n : Nat) (i : Recipe) (hp : Nat.Prime n) (h33 : 33 ≤ n) (hb : 2 * n - 1 ≤ i.len)
    (hlt : i.len < 4 * n) (hpow : Pow23 i.len) (hshape : BluesteinInnerShape i) : OpsOK (.bluesteins n i) := by
  have hfine := bluestein_inner_ops i hshape hpow (by omega)
  have hLM := log2_lt_four_mul (show 0 < i.len by omega) hlt
  have hL5 : 5 ≤ Nat.log2 n := by rw [Nat.le_log2 (by omega)]; omega
  simp only [OpsOK, Recipe.len, Recipe.ops]
  refine ⟨fun _ => ?_, fun hs => absurd hs (not_smooth31_prime hp h33)⟩
  have h1 : i.len * Nat.log2 i.len ≤ 4 * n * (Nat.log2 n + 2) := Nat.mul_le_mul (by omega) hLM
  have hX : n * 5 ≤ n * Nat.log2 n := Nat.mul_le_mul_left _ hL5
  nlinarith [hfine, h1, hX]

theorem opsOK_scalarClosed : ScalarClosed OpsOK where
  dft := fun n h => ⟨fun h2 => by simp only [Recipe.len] at h2; omega,
    fun _ h2 => by simp only [Recipe.len] at h2; omega⟩
  bfly := opsOK_bfly
  gtSmallBfly := fun l r hl hr _ => opsOK_gtSmall _ _ (opsOK_bfly l (productButterflies_sub l hl))
    (opsOK_bfly r (productButterflies_sub r hr))
    (butterflies_ge_two l (by simpa using productButterflies_sub l hl))
    (butterflies_ge_two r (by simpa using productButterflies_sub r hr))
  mrSmallBfly := fun l r hl hr => opsOK_mrSmall _ _ (opsOK_bfly l (productButterflies_sub l hl))
    (opsOK_bfly r (productButterflies_sub r hr))
    (butterflies_ge_two l (by simpa using productButterflies_sub l hl))
    (butterflies_ge_two r (by simpa using productButterflies_sub r hr))
  gtSmall := fun a b ha hb h1 h2 _ _ _ _ => opsOK_gtSmall a b ha hb h1 h2
  mrSmall := fun a b ha hb h1 h2 _ _ _ => opsOK_mrSmall a b ha hb h1 h2
  mixedRadix := fun a b ha hb h1 h2 _ _ => opsOK_mixedRadix a b ha hb h1 h2
  raders := fun i hi hp h33 hsm => opsOK_raders i hi hp h33 hsm
  bluesteins := fun n i _ hp h33 hb hlt hpow hsh => opsOK_bluesteins n i hp h33 hb hlt hpow hsh
  radixN := fun fs b hb hb2 hfs _ hpos => opsOK_radixN fs b hb hb2 hfs hpos
  radix4 := fun k b hb hb2 _ => opsOK_radix4 k b hb hb2

/-! ### AVX: every tree built from a cache of good trees is good -/

/-- a predicate preserved by the constructions of the AVX `construct_plan` -/
structure AvxClosed (Q : Recipe → Prop) : Prop where
  bfly : ∀ ty n r, avxConstructButterfly ty n = .ok r → Q r
  mixedRadix : ∀ x r, x ∈ avxRadixes → Q r → Q (.avxMixedRadix x r)
  raders : ∀ i, Q i → Q (.raders i) ∧ Q (.avxRaders i)
  bluesteins : ∀ n i, Q i → Q (.avxBluesteins n i)

def CacheAll (Q : Recipe → Prop) (c : InstCache) : Prop := ∀ e ∈ c, Q e.2

theorem CacheAll.nil (Q : Recipe → Prop) : CacheAll Q [] := by intro e he; simp at he

theorem CacheAll.insert {Q : Recipe → Prop} {c : InstCache} (h : CacheAll Q c) (r : Recipe) (hr : Q r) :
    CacheAll Q (c.insert r) := by
  intro e he
  simp only [InstCache.insert, List.mem_cons, List.mem_filter] at he
  rcases he with rfl | ⟨he, _⟩
  · exact hr
  · exact h e he

theorem CacheAll.get {Q : Recipe → Prop} {c : InstCache} (h : CacheAll Q c) {n : Nat} {r : Recipe}
    (hg : c.get? n = some r) : Q r := by
  unfold InstCache.get? at hg
  cases hf : c.find? (fun e => e.1 = n) with
  | none => rw [hf] at hg; simp at hg
  | some e =>
    rw [hf] at hg
    simp only [Option.map_some, Option.some.injEq] at hg
    rw [← hg]; exact h e (List.mem_of_find?_eq_some hf)

theorem avxWrapChain_preserves (Q : Recipe → Prop) (hQ : AvxClosed Q) : ∀ (rs : List Nat) (fft : Recipe)
    (c : InstCache) (r : Recipe) (c' : InstCache), avxWrapChain rs fft c = .ok (r, c') → Q fft → CacheAll Q c →
    Q r ∧ CacheAll Q c' := by
  intro rs
  induction rs with
  | nil =>
    intro fft c r c' h hf hc
    rw [avxWrapChain] at h
    simp only [Except.ok.injEq, Prod.mk.injEq] at h
    obtain ⟨rfl, rfl⟩ := h; exact ⟨hf, hc⟩
  | cons x rs ih =>
    intro fft c r c' h hf hc
    rw [avxWrapChain] at h
    split at h
    · rename_i hx
      have hq := hQ.mixedRadix x fft (by simpa using hx) hf
      exact ih _ _ r c' h hq (hc.insert _ hq)
    · cases h

theorem avxPlanAndConstruct_preserves (Q : Recipe → Prop) (hQ : AvxClosed Q) (ty : ElemTy) (avx2 : Bool) :
    ∀ (fuel : Nat) (c : InstCache) (len : Nat) (r : Recipe) (c' : InstCache),
      avxPlanAndConstruct ty avx2 fuel c len = .ok (r, c') → CacheAll Q c → Q r ∧ CacheAll Q c' := by
  intro fuel
  induction fuel with
  | zero => intro c len r c' h; rw [avxPlanAndConstruct] at h; cases h
  | succ fuel ih =>
    intro c len r c' h hc
    rw [avxPlanAndConstruct] at h
    cases hp : avxPlanFft ty avx2 c.contains len with
    | error e => rw [hp] at h; cases h
    | ok plan =>
      rw [hp] at h
      simp only at h
      cases hb : plan.base with
      | cache n =>
        rw [hb] at h
        simp only at h
        cases hg : c.get? n with
        | none => rw [hg] at h; cases h
        | some fft =>
          rw [hg] at h
          exact avxWrapChain_preserves Q hQ _ _ _ _ _ h (hc.get hg) hc
      | bfly n =>
        rw [hb] at h
        simp only at h
        cases hcb : avxConstructButterfly ty n with
        | error e => rw [hcb] at h; cases h
        | ok fft =>
          rw [hcb] at h
          have hq := hQ.bfly ty n fft hcb
          exact avxWrapChain_preserves Q hQ _ _ _ _ _ h hq (hc.insert _ hq)
      | raders n =>
        rw [hb] at h
        simp only at h
        cases hi : avxPlanAndConstruct ty avx2 fuel c (n - 1) with
        | error e => rw [hi] at h; cases h
        | ok ic =>
          obtain ⟨inner, c1⟩ := ic
          rw [hi] at h
          obtain ⟨hqi, hc1⟩ := ih c (n - 1) inner c1 hi hc
          have hq : Q (if avx2 = true then Recipe.avxRaders inner else Recipe.raders inner) := by
            split
            · exact (hQ.raders inner hqi).2
            · exact (hQ.raders inner hqi).1
          exact avxWrapChain_preserves Q hQ _ _ _ _ _ h hq (hc1.insert _ hq)
      | bluesteins n m =>
        rw [hb] at h
        simp only at h
        cases hi : avxPlanAndConstruct ty avx2 fuel c m with
        | error e => rw [hi] at h; cases h
        | ok ic =>
          obtain ⟨inner, c1⟩ := ic
          rw [hi] at h
          obtain ⟨hqi, hc1⟩ := ih c m inner c1 hi hc
          have hq := hQ.bluesteins n inner hqi
          exact avxWrapChain_preserves Q hQ _ _ _ _ _ h hq (hc1.insert _ hq)

theorem noNaive_avxClosed : AvxClosed Recipe.NoNaive where
  bfly := fun ty n r h => by
    have hk : ∀ ty, ∀ x ∈ avxKernelLens ty, x ≤ 512 := by intro ty; cases ty <;> decide
    have hs : ∀ x ∈ [2, 3, 4, 6, 13, 17, 19, 23, 29, 31], x ≤ 32 := by decide
    unfold avxConstructButterfly at h
    split at h
    · simp only [Except.ok.injEq] at h; subst h; assumption
    · split at h
      · rename_i hc
        simp only [Except.ok.injEq] at h; subst h
        exact hk ty n (by simpa using hc)
      · split at h
        · rename_i hc
          simp only [Except.ok.injEq] at h; subst h
          exact hs n (by simpa using hc)
        · cases h
  mixedRadix := fun x r _ hr => hr
  raders := fun i hi => ⟨hi, hi⟩
  bluesteins := fun n i hi => hi

end RFV
