/-
Helper lemmas about the scalar planner model (`RFV/Model/Plan.lean`, `FftPlannerScalar`) and its SSE twin:
no `.error` branch is reachable and the planned recipe has the requested length.
-/
import RFV.Proofs.ArithLemmas
import RFV.Model.Plan

namespace RFV

/-! ### powers of two -/

theorem strip_two_pow (j : Nat) : strip 2 (2 ^ j) = (1, j) := by
  have := strip_eq 2 (by omega) 1 j (by omega) (by omega)
  rwa [Nat.one_mul] at this

theorem isPowerOfTwo_pow (j : Nat) : isPowerOfTwo (2 ^ j) = true := by
  unfold isPowerOfTwo
  rw [strip_two_pow]
  have : 0 < 2 ^ j := Nat.pow_pos (by omega)
  simp [this]

theorem trailingZeros_pow (j : Nat) : trailingZeros (2 ^ j) = j := by
  unfold trailingZeros; rw [strip_two_pow]

theorem isPowerOfTwo_eq {c : Nat} (h : isPowerOfTwo c = true) : c = 2 ^ trailingZeros c := by
  unfold isPowerOfTwo at h
  simp only [Bool.and_eq_true, decide_eq_true_eq, beq_iff_eq] at h
  have := (strip_prop 2 c (by omega) h.1).1
  rw [h.2, Nat.one_mul] at this
  exact this

/-! ### `checked_next_power_of_two`, Bluestein inner length -/

theorem nextPowerOfTwoAux_spec : ∀ fuel n j, n < 2 ^ j * 2 ^ fuel → (j = 0 ∨ 2 ^ j < 2 * n) →
    ∃ k, nextPowerOfTwoAux fuel n (2 ^ j) = 2 ^ k ∧ n ≤ 2 ^ k ∧ (k = 0 ∨ 2 ^ k < 2 * n) := by
  intro fuel
  induction fuel with
  | zero =>
    intro n j h1 h2
    exact ⟨j, rfl, by simp at h1; omega, h2⟩
  | succ fuel ih =>
    intro n j h1 h2
    rw [nextPowerOfTwoAux]
    by_cases hlt : 2 ^ j < n
    · rw [if_pos hlt]
      have e : 2 * 2 ^ j = 2 ^ (j + 1) := by rw [pow_succ]; ring
      rw [e]
      apply ih n (j + 1)
      · rw [pow_succ] at h1 ⊢; nlinarith
      · right; rw [← e]; omega
    · rw [if_neg hlt]
      exact ⟨j, rfl, by omega, h2⟩

theorem nextPowerOfTwo_spec (n : Nat) :
    ∃ k, nextPowerOfTwo n = 2 ^ k ∧ n ≤ 2 ^ k ∧ (k = 0 ∨ 2 ^ k < 2 * n) := by
  unfold nextPowerOfTwo
  have := nextPowerOfTwoAux_spec (n + 1) n 0 (by
    have : n + 1 < 2 ^ (n + 1) := Nat.lt_two_pow_self
    simp; omega) (Or.inl rfl)
  simpa using this

theorem bluesteinInnerLen_spec (len : Nat) (h : 1 ≤ len) :
    (∃ k, bluesteinInnerLen len = 2 ^ k ∨ bluesteinInnerLen len = 3 * 2 ^ k) ∧
    2 * len - 1 ≤ bluesteinInnerLen len ∧ bluesteinInnerLen len < 4 * len := by
  unfold bluesteinInnerLen
  obtain ⟨k, hk, hle, hlt⟩ := nextPowerOfTwo_spec (2 * len - 1)
  simp only
  rw [hk]
  have hbound : 2 ^ k < 4 * len := by
    rcases hlt with h0 | h0
    · subst h0; simp; omega
    · omega
  by_cases hc : 2 ^ k / 4 * 3 ≥ 2 * len - 1
  · rw [if_pos hc]
    have hk2 : 2 ≤ k := by
      by_contra hlt2
      have : k = 0 ∨ k = 1 := by omega
      rcases this with rfl | rfl <;> simp at hc <;> omega
    obtain ⟨j, rfl⟩ : ∃ j, k = j + 2 := ⟨k - 2, by omega⟩
    have e : 2 ^ (j + 2) / 4 * 3 = 3 * 2 ^ j := by
      rw [pow_add]; norm_num; ring
    refine ⟨⟨j, Or.inr e⟩, hc, ?_⟩
    have : 2 ^ (j + 2) / 4 * 3 ≤ 2 ^ (j + 2) := by omega
    omega
  · rw [if_neg hc]
    exact ⟨⟨k, Or.inl rfl⟩, hle, hbound⟩

/-! ### butterflies -/

theorem productButterflies_sub : ∀ x ∈ scalarProductButterflies, scalarButterflies.contains x = true := by
  decide

theorem butterflies_ge_two : ∀ x ∈ scalarButterflies, 2 ≤ x := by decide

theorem butterflyProductSearch_spec (len limit : Nat) :
    ∀ (l : List Nat) (minSum : Nat) (found : Option (Nat × Nat)) (a b : Nat),
      butterflyProductSearch len limit l minSum found = some (a, b) →
      found = some (a, b) ∨ (a ∈ l ∧ scalarProductButterflies.contains b = true ∧ a * b = len) := by
  intro l
  induction l with
  | nil => intro minSum found a b h; left; simpa [butterflyProductSearch] using h
  | cons x l ih =>
    intro minSum found a b h
    rw [butterflyProductSearch] at h
    split at h
    · simp only at h
      split at h
      · rename_i hc
        split at h
        · rcases ih _ _ a b h with h' | ⟨h1, h2, h3⟩
          · right
            simp only [Option.some.injEq, Prod.mk.injEq] at h'
            obtain ⟨rfl, rfl⟩ := h'
            exact ⟨List.mem_cons_self .., hc.2, hc.1⟩
          · right; exact ⟨List.mem_cons_of_mem _ h1, h2, h3⟩
        · rcases ih _ _ a b h with h' | ⟨h1, h2, h3⟩
          · left; exact h'
          · right; exact ⟨List.mem_cons_of_mem _ h1, h2, h3⟩
      · rcases ih _ _ a b h with h' | ⟨h1, h2, h3⟩
        · left; exact h'
        · right; exact ⟨List.mem_cons_of_mem _ h1, h2, h3⟩
    · left; exact h

/-- a butterfly length is planned directly -/
theorem scalarForLen_bfly (F b : Nat) (hb : scalarButterflies.contains b = true) :
    scalarForLen (F + 2) b = .ok (.bfly b) := by
  have hmem : b ∈ scalarButterflies := by simpa using hb
  have h2 := butterflies_ge_two b hmem
  obtain ⟨f, hf, _⟩ := compute_spec b (by omega)
  rw [scalarForLen, if_neg (by omega), hf]
  simp only
  rw [scalarWithFactors, if_pos hb]

/-! ### `countOf` -/

theorem countOf_pos_of_mem (l : List PrimeFactor) (hg : GoodEntries l) (x : PrimeFactor) (hx : x ∈ l) :
    0 < countOf l x.value := by
  unfold countOf
  cases hf : l.find? (fun f => f.value = x.value) with
  | none =>
    rw [List.find?_eq_none] at hf
    have := hf x hx
    simp at this
  | some y =>
    have hy := List.mem_of_find?_eq_some hf
    exact (hg y hy).1

theorem mem_of_countOf_pos (l : List PrimeFactor) (v : Nat) (h : 0 < countOf l v) :
    ∃ x ∈ l, x.value = v ∧ 0 < x.count := by
  unfold countOf at h
  cases hf : l.find? (fun f => f.value = v) with
  | none => rw [hf] at h; simp at h
  | some y =>
    rw [hf] at h
    have hy := List.mem_of_find?_eq_some hf
    have hv := List.find?_some hf
    exact ⟨y, hy, by simpa using hv, h⟩

theorem dvd_of_countOf_pos (f : PrimeFactors) (h : f.WF) (v : Nat) (hc : 0 < countOf f.others v) :
    v ∣ f.n := by
  obtain ⟨x, hx, rfl, hcx⟩ := mem_of_countOf_pos _ _ hc
  exact dvd_trans (dvd_pow_self _ (by omega)) (h.entry_dvd hx)

/-! ### `design_radixn` -/

/-- the base-length selection of `design_radixn` (verbatim from the model) -/
def radixNBase (factors : PrimeFactors) : Except String Nat :=
    let p2 := factors.p2
    let p3 := factors.p3
    let p5 := countOf factors.others 5
    let p7 := countOf factors.others 7
      if factors.hasFactorsGt MAX_RADIXN_FACTOR then .ok (factors.productAbove MAX_RADIXN_FACTOR)
      else if p7 = 0 ∧ p5 = 0 ∧ p3 < 2 then
        if p3 = 0 then
          if ¬ (p2 > 5) then .error "design_radixn: assert!(p2 > 5)"
          else .ok (if p2 % 2 = 1 then 8 else 16)
        else
          if ¬ (p2 > 3) then .error "design_radixn: assert!(p2 > 3)"
          else .ok (if p2 % 2 = 1 then 24 else 12)
      else if p2 > 0 ∧ p3 > 0 then
        .ok (match p2 - p3 with | 0 => 6 | 1 => 12 | _ => 24)
      else if p3 > 2 then .ok 27
      else if p3 > 1 then .ok 9
      else if p7 > 0 then .ok 7
      else if ¬ (p5 > 0) then .error "design_radixn: assert!(p5 > 0)"
      else .ok 5

/-- the tail of `design_radixn` once the base recipe is planned (verbatim from the model) -/
def radixNFinish (base : Recipe) (cross : Nat) : Except String Recipe :=
        let crossBits := trailingZeros cross
        if isPowerOfTwo cross ∧ crossBits % 2 = 0 then .ok (.radix4 (crossBits / 2) base)
        else
          let (c, f7) := peel 7 cross
          let (c, f6) := peel 6 c
          let (c, f5) := peel 5 c
          let (c, f3) := peel 3 c
          if ¬ isPowerOfTwo c then .error "design_radixn: assert!(cross_len.is_power_of_two())" else
          let bits := trailingZeros c
          let f2 := if bits % 2 = 1 then [2] else []
          .ok (.radixN (f7 ++ f6 ++ f5 ++ f3 ++ f2 ++ List.replicate (bits / 2) 4) base)

/-- the rest of `design_radixn` once the base length is chosen (verbatim from the model) -/
def radixNTail (fuel : Nat) (factors : PrimeFactors) (baseLen : Nat) : Except String Recipe :=
      if baseLen = 0 then .error "design_radixn: division by zero" else
      match scalarForLen fuel baseLen with
      | .error e => .error e
      | .ok base => radixNFinish base (factors.product / baseLen)

theorem scalarRadixN_eq (fuel : Nat) (f : PrimeFactors) :
    scalarRadixN (fuel + 1) f =
      match radixNBase f with
      | .error e => .error e
      | .ok b => radixNTail fuel f b := by
  rw [scalarRadixN]; rfl

theorem peel_eq (d c : Nat) : peel d c = ((strip d c).1, List.replicate (strip d c).2 d) := rfl

theorem prod_replicate' (k d : Nat) : (List.replicate k d).prod = d ^ k := by
  induction k with
  | zero => simp
  | succ k ih => rw [List.replicate_succ, List.prod_cons, ih, pow_succ]; ring

/-- the lengths `2^k` and `3·2^k` (Bluestein inner lengths) -/
def Pow23 (m : Nat) : Prop := ∃ k, m = 2 ^ k ∨ m = 3 * 2 ^ k

/-- what the scalar planner builds for a Bluestein inner length `≥ 64`: `Radix4` over one of four butterflies, or a
`*Small` node over two butterflies found by `design_butterfly_product` -/
def BluesteinInnerShape (r : Recipe) : Prop :=
  (∃ j b, r = .radix4 j (.bfly b) ∧ b ∈ [8, 12, 16, 24]) ∨
  (∃ l r', l ∈ scalarProductButterflies ∧ r' ∈ scalarProductButterflies ∧
    (r = .mixedRadixSmall (.bfly l) (.bfly r') ∨ r = .goodThomasSmall (.bfly l) (.bfly r')))

/-- A predicate on recipes that is preserved by every construction the scalar planner performs
(with the side conditions the planner guarantees at that point).  The totality proof below is carried out for an
arbitrary such `Q`, so that it yields "the planned tree satisfies `Q`" for free: `Q := fun _ => True` gives plain
totality (C04), `Q := SpecOK ty` gives "no constructor assert fires" (`Props/C04Spec.lean`). -/
structure ScalarClosed (Q : Recipe → Prop) : Prop where
  dft : ∀ n, n < 2 → Q (.dft n)
  bfly : ∀ b, scalarButterflies.contains b = true → Q (.bfly b)
  /-- `design_butterfly_product`: two butterflies, product `≤ 992` -/
  gtSmallBfly : ∀ l r, l ∈ scalarProductButterflies → r ∈ scalarProductButterflies → Nat.gcd l r = 1 →
    Q (.goodThomasSmall (.bfly l) (.bfly r))
  mrSmallBfly : ∀ l r, l ∈ scalarProductButterflies → r ∈ scalarProductButterflies →
    Q (.mixedRadixSmall (.bfly l) (.bfly r))
  /-- `design_mixed_radix` (only reached for lengths without factors `≤ 7`) -/
  gtSmall : ∀ a b, Q a → Q b → 1 < a.len → 1 < b.len → a.len < 31 → b.len < 31 → Nat.gcd a.len b.len = 1 →
    ¬ 2 ∣ a.len * b.len → Q (.goodThomasSmall a b)
  mrSmall : ∀ a b, Q a → Q b → 1 < a.len → 1 < b.len → a.len < 31 → b.len < 31 →
    ¬ 2 ∣ a.len * b.len → Q (.mixedRadixSmall a b)
  mixedRadix : ∀ a b, Q a → Q b → 1 < a.len → 1 < b.len → 33 ≤ a.len * b.len →
    ¬ 2 ∣ a.len * b.len → Q (.mixedRadix a b)
  /-- `design_prime`, Rader branch: the inner length `p - 1` is 23-smooth -/
  raders : ∀ i, Q i → Nat.Prime (i.len + 1) → 33 ≤ i.len + 1 →
    (∀ p, Nat.Prime p → p ∣ i.len → p ≤ 23) → Q (.raders i)
  /-- `design_prime`, Bluestein branch -/
  bluesteins : ∀ n i, Q i → Nat.Prime n → 33 ≤ n → 2 * n - 1 ≤ i.len → i.len < 4 * n → Pow23 i.len →
    BluesteinInnerShape i → Q (.bluesteins n i)
  /-- `design_radixn`: the base is a butterfly, or the cross length is at least 2 -/
  radixN : ∀ fs b, Q b → 2 ≤ b.len → (∀ f ∈ fs, f ∈ [2, 3, 4, 5, 6, 7]) →
    (2 ≤ fs.foldl (· * ·) 1 ∨ ∃ b', b = .bfly b') → 0 < fs.foldl (· * ·) 1 → Q (.radixN fs b)
  radix4 : ∀ k b, Q b → 2 ≤ b.len → (1 ≤ k ∨ ∃ b', b = .bfly b') → Q (.radix4 k b)

theorem ScalarClosed.trivial : ScalarClosed (fun _ => True) := by
  constructor <;> intros <;> trivial

theorem prod_pos_of_forall_pos (l : List Nat) (h : ∀ x ∈ l, 0 < x) : 0 < l.prod := by
  induction l with
  | nil => simp
  | cons x l ih =>
    rw [List.prod_cons]
    exact Nat.mul_pos (h x (List.mem_cons_self ..)) (ih (fun y hy => h y (List.mem_cons_of_mem _ hy)))

theorem productButterflies_lt : ∀ x ∈ scalarProductButterflies, x < 33 := by decide

theorem prime_lt_33_bfly : ∀ n, n < 33 → Nat.Prime n → scalarButterflies.contains n = true := by decide

theorem radixNFinish_ok (Q : Recipe → Prop) (hQ : ScalarClosed Q) (base : Recipe) (cross : Nat)
    (hcpos : 0 < cross) (hsm : Smooth7 cross) (hqb : Q base) (hb2 : 2 ≤ base.len)
    (hcase : 2 ≤ cross ∨ ∃ b', base = .bfly b') :
    ∃ r, radixNFinish base cross = .ok r ∧ r.len = base.len * cross ∧ Q r := by
  unfold radixNFinish
  simp only
  by_cases hc : isPowerOfTwo cross = true ∧ trailingZeros cross % 2 = 0
  · rw [if_pos hc]
    have hk : 1 ≤ trailingZeros cross / 2 ∨ ∃ b', base = .bfly b' := by
      rcases hcase with h2 | hbf
      · left
        have he := isPowerOfTwo_eq hc.1
        by_contra hlt
        have h0 : trailingZeros cross = 0 := by omega
        rw [h0] at he; simp at he; omega
      · exact Or.inr hbf
    refine ⟨_, rfl, ?_, hQ.radix4 _ _ hqb hb2 hk⟩
    have := isPowerOfTwo_eq hc.1
    simp only [Recipe.len]
    congr 1
    rw [Nat.mul_div_cancel' (Nat.dvd_of_mod_eq_zero hc.2)]
    exact this.symm
  · rw [if_neg hc]
    obtain ⟨c1, k7, p7, n7, e7⟩ := exists_strip_decomp 7 cross (by omega) hcpos
    obtain ⟨c2, k6, p6, n6, e6⟩ := exists_strip_decomp 6 c1 (by omega) p7
    obtain ⟨c3, k5, p5, n5, e5⟩ := exists_strip_decomp 5 c2 (by omega) p6
    obtain ⟨c4, k3, p3, n3, e3⟩ := exists_strip_decomp 3 c3 (by omega) p5
    have h7 : peel 7 cross = (c1, List.replicate k7 7) := by
      rw [peel_eq, e7, strip_eq 7 (by omega) c1 k7 p7 n7]
    have h6 : peel 6 c1 = (c2, List.replicate k6 6) := by
      rw [peel_eq, e6, strip_eq 6 (by omega) c2 k6 p6 n6]
    have h5 : peel 5 c2 = (c3, List.replicate k5 5) := by
      rw [peel_eq, e5, strip_eq 5 (by omega) c3 k5 p5 n5]
    have h3 : peel 3 c3 = (c4, List.replicate k3 3) := by
      rw [peel_eq, e3, strip_eq 3 (by omega) c4 k3 p3 n3]
    rw [h7]; simp only
    rw [h6]; simp only
    rw [h5]; simp only
    rw [h3]; simp only
    have d43 : c4 ∣ c3 := ⟨_, e3⟩
    have d32 : c3 ∣ c2 := ⟨_, e5⟩
    have d21 : c2 ∣ c1 := ⟨_, e6⟩
    have d10 : c1 ∣ cross := ⟨_, e7⟩
    have n5' : ¬ 5 ∣ c4 := fun h => n5 (dvd_trans h d43)
    have n7' : ¬ 7 ∣ c4 := fun h => n7 (dvd_trans h (dvd_trans d43 (dvd_trans d32 d21)))
    obtain ⟨j, hj⟩ := pow2_of_smooth (hsm.of_dvd (dvd_trans d43 (dvd_trans d32 (dvd_trans d21 d10)))) n3 n5' n7'
    subst hj
    rw [isPowerOfTwo_pow, trailingZeros_pow]
    simp only [not_true_eq_false, if_false]
    have hmem : ∀ x ∈ List.replicate k7 7 ++ List.replicate k6 6 ++ List.replicate k5 5 ++ List.replicate k3 3 ++
        (if j % 2 = 1 then [2] else []) ++ List.replicate (j / 2) 4, x ∈ [2, 3, 4, 5, 6, 7] := by
      intro x hx
      simp only [List.mem_append, List.mem_replicate] at hx
      rcases hx with ((((⟨_, rfl⟩ | ⟨_, rfl⟩) | ⟨_, rfl⟩) | ⟨_, rfl⟩) | hx) | ⟨_, rfl⟩
      any_goals decide
      split at hx
      · simp only [List.mem_singleton] at hx; subst hx; decide
      · simp at hx
    have e2 : 2 ^ j = (if j % 2 = 1 then [2] else []).prod * 4 ^ (j / 2) := by
      have : (4 : Nat) = 2 ^ 2 := by norm_num
      rw [this, ← pow_mul]
      split
      · rename_i h1
        simp only [List.prod_cons, List.prod_nil, Nat.mul_one]
        rw [← pow_succ']; congr 1; omega
      · simp only [List.prod_nil, Nat.one_mul]; congr 1; omega
    have hprod : (List.replicate k7 7 ++ List.replicate k6 6 ++ List.replicate k5 5 ++ List.replicate k3 3 ++
        (if j % 2 = 1 then [2] else []) ++ List.replicate (j / 2) 4).foldl (· * ·) 1 = cross := by
      simp only [foldl_mul_eq_prod, List.prod_append, prod_replicate', Nat.one_mul]
      rw [e7, e6, e5, e3, e2]; ring
    refine ⟨_, rfl, ?_, hQ.radixN _ _ hqb hb2 hmem ?_ (by rw [hprod]; exact hcpos)⟩
    swap
    · rw [hprod]; exact hcase
    simp only [Recipe.len, hprod]

theorem radixNTail_ok (Q : Recipe → Prop) (hQ : ScalarClosed Q) (fuel : Nat) (f : PrimeFactors) (b : Nat)
    (hpos : 0 < f.n) (hb : 0 < b)
    (hdiv : b ∣ f.n) (hsm : Smooth7 (f.n / b)) (hb2 : 2 ≤ b)
    (hbase : ∃ r, scalarForLen fuel b = .ok r ∧ r.len = b ∧ Q r ∧ (b * 2 ≤ f.n ∨ ∃ b', r = .bfly b')) :
    ∃ r, radixNTail fuel f b = .ok r ∧ r.len = f.n ∧ Q r := by
  obtain ⟨base, hbase, hlen, hqb, hcase⟩ := hbase
  unfold radixNTail
  rw [if_neg (by omega), hbase]
  have hcross : b * (f.n / b) = f.n := Nat.mul_div_cancel' hdiv
  have hcpos : 0 < f.n / b := Nat.div_pos (Nat.le_of_dvd hpos hdiv) hb
  have hcase' : 2 ≤ f.n / b ∨ ∃ b', base = .bfly b' := by
    rcases hcase with h2 | hbf
    · left; exact (Nat.le_div_iff_mul_le hb).2 (by rw [Nat.mul_comm]; exact h2)
    · exact Or.inr hbf
  obtain ⟨r, hr, hrl, hqr⟩ := radixNFinish_ok Q hQ base (f.n / b) hcpos hsm hqb (by rw [hlen]; exact hb2) hcase'
  exact ⟨r, hr, by rw [hrl, hlen, hcross], hqr⟩


theorem radixNBase_ok (f : PrimeFactors) (h : f.WF) (htot : 2 ≤ f.total)
    (hnb : scalarButterflies.contains f.n = false) (hleq : f.hasFactorsLeq 7 = true) :
    ∃ b, radixNBase f = .ok b ∧ 0 < b ∧ b ∣ f.n ∧ Smooth7 (f.n / b) ∧
      ((f.hasFactorsGt 7 = true ∧ b = f.productAbove 7 ∧ b * 2 ≤ f.n) ∨
        scalarButterflies.contains b = true) := by
  unfold radixNBase
  simp only []
  by_cases hgt : f.hasFactorsGt MAX_RADIXN_FACTOR = true
  · rw [if_pos hgt]
    change f.hasFactorsGt 7 = true at hgt
    change ∃ b, (Except.ok (f.productAbove 7) : Except String Nat) = .ok b ∧ _
    have hsplit := h.productAbove_split
    have hsm := h.cofactor_smooth
    have hge := h.cofactor_ge_two hleq
    have hpos := h.pos
    generalize 2 ^ f.p2 * 3 ^ f.p3 * prodOf (f.others.takeWhile (fun x => x.value ≤ 7)) = C at *
    generalize f.productAbove 7 = b at *
    have hb : 0 < b := by
      rcases Nat.eq_zero_or_pos b with h0 | h0
      · subst h0; omega
      · exact h0
    refine ⟨b, rfl, hb, ⟨C, by rw [hsplit]; ring⟩, ?_, Or.inl ⟨hgt, rfl, by rw [hsplit]; nlinarith⟩⟩
    rw [hsplit, Nat.mul_div_cancel _ hb]; exact hsm
  · rw [if_neg hgt]
    change ¬ f.hasFactorsGt 7 = true at hgt
    have hgt' : f.hasFactorsGt 7 = false := by simpa using hgt
    have hall := h.all_le_of_not_gt 7 (by omega) hgt'
    have hsmn := h.smooth_of_all_le hall
    have hpos := h.pos
    have fin : ∀ b, 0 < b → b ∣ f.n → scalarButterflies.contains b = true →
        ∃ b', (Except.ok b : Except String Nat) = .ok b' ∧ 0 < b' ∧ b' ∣ f.n ∧ Smooth7 (f.n / b') ∧
          ((f.hasFactorsGt 7 = true ∧ b' = f.productAbove 7 ∧ b' * 2 ≤ f.n) ∨
            scalarButterflies.contains b' = true) :=
      fun b hb hd hbf => ⟨b, rfl, hb, hd, hsmn.of_dvd (Nat.div_dvd_of_dvd hd), Or.inr hbf⟩
    have d23 : ∀ (a c b : Nat), a ≤ f.p2 → c ≤ f.p3 → b = 2 ^ a * 3 ^ c → b ∣ f.n :=
      fun a c b ha hc hb => hb ▸ h.pow23_dvd ha hc
    by_cases c1 : countOf f.others 7 = 0 ∧ countOf f.others 5 = 0 ∧ f.p3 < 2
    · rw [if_pos c1]
      have hnil : f.others = [] := by
        cases hl : f.others with
        | nil => rfl
        | cons x l =>
          exfalso
          have hx : x ∈ f.others := by rw [hl]; exact List.mem_cons_self ..
          have hxe := h.entries x hx
          have hcp := countOf_pos_of_mem f.others h.entries x hx
          rcases five_or_seven hxe.2.1 (hall x hx) hxe.2.2 with e | e <;> rw [e] at hcp <;> omega
      have hn := h.prod_eq
      have ht := h.total_eq
      rw [hnil] at hn ht
      simp at hn ht
      by_cases c2 : f.p3 = 0
      · rw [if_pos c2]
        rw [c2] at hn ht; simp at hn ht
        have hp2 : f.p2 > 5 := by
          by_contra hc
          have : f.p2 = 2 ∨ f.p2 = 3 ∨ f.p2 = 4 ∨ f.p2 = 5 := by omega
          rw [hn] at hnb
          rcases this with e | e | e | e <;> rw [e] at hnb <;> revert hnb <;> decide
        rw [if_neg (not_not.2 hp2)]
        split
        · exact fin 8 (by omega) (d23 3 0 8 (by omega) (by omega) (by norm_num)) (by decide)
        · exact fin 16 (by omega) (d23 4 0 16 (by omega) (by omega) (by norm_num)) (by decide)
      · rw [if_neg c2]
        have hp31 : f.p3 = 1 := by omega
        rw [hp31] at hn ht; simp at hn ht
        have hp2 : f.p2 > 3 := by
          by_contra hc
          have : f.p2 = 1 ∨ f.p2 = 2 ∨ f.p2 = 3 := by omega
          rw [hn] at hnb
          rcases this with e | e | e <;> rw [e] at hnb <;> revert hnb <;> decide
        rw [if_neg (not_not.2 hp2)]
        split
        · exact fin 24 (by omega) (d23 3 1 24 (by omega) (by omega) (by norm_num)) (by decide)
        · exact fin 12 (by omega) (d23 2 1 12 (by omega) (by omega) (by norm_num)) (by decide)
    · rw [if_neg c1]
      by_cases c2 : f.p2 > 0 ∧ f.p3 > 0
      · rw [if_pos c2]
        split
        · exact fin 6 (by omega) (d23 1 1 6 (by omega) (by omega) (by norm_num)) (by decide)
        · exact fin 12 (by omega) (d23 2 1 12 (by omega) (by omega) (by norm_num)) (by decide)
        · rename_i n0 n1
          have : f.p2 - f.p3 ≠ 0 := n0
          have : f.p2 - f.p3 ≠ 1 := n1
          exact fin 24 (by omega) (d23 3 1 24 (by omega) (by omega) (by norm_num)) (by decide)
      · rw [if_neg c2]
        by_cases c3 : f.p3 > 2
        · rw [if_pos c3]
          exact fin 27 (by omega) (d23 0 3 27 (by omega) (by omega) (by norm_num)) (by decide)
        · rw [if_neg c3]
          by_cases c4 : f.p3 > 1
          · rw [if_pos c4]
            exact fin 9 (by omega) (d23 0 2 9 (by omega) (by omega) (by norm_num)) (by decide)
          · rw [if_neg c4]
            by_cases c5 : countOf f.others 7 > 0
            · rw [if_pos c5]
              exact fin 7 (by omega) (dvd_of_countOf_pos f h 7 c5) (by decide)
            · rw [if_neg c5]
              have c6 : countOf f.others 5 > 0 := by omega
              rw [if_neg (not_not.2 c6)]
              exact fin 5 (by omega) (dvd_of_countOf_pos f h 5 c6) (by decide)

theorem forall_of_dropWhile_nil {α} (p : α → Bool) : ∀ l : List α, l.dropWhile p = [] → ∀ x ∈ l, p x = true := by
  intro l
  induction l with
  | nil => intro _ x hx; simp at hx
  | cons y l ih =>
    intro h x hx
    rw [List.dropWhile_cons] at h
    split at h
    · rename_i hy
      rcases List.mem_cons.1 hx with rfl | hx
      · exact hy
      · exact ih h x hx
    · cases h

theorem PrimeFactors.WF.productAbove_ge_five {f : PrimeFactors} (h : f.WF) (hgt : f.hasFactorsGt 7 = true) :
    5 ≤ f.productAbove 7 := by
  rw [productAbove_eq]
  apply five_le_prodOf
  · intro x hx; exact h.entries x ((List.dropWhile_sublist _).subset hx)
  · intro hnil
    have hnil := forall_of_dropWhile_nil _ _ hnil
    unfold PrimeFactors.hasFactorsGt at hgt
    simp only [show ¬ (7 < 2) by omega, show ¬ (7 < 3) by omega, decide_false, Bool.false_and,
      Bool.false_or] at hgt
    cases hl : f.others.getLast? with
    | none => rw [hl] at hgt; cases hgt
    | some z =>
      rw [hl] at hgt
      have hz : z ∈ f.others := List.mem_of_getLast? hl
      have := hnil z hz
      simp only [decide_eq_true_eq] at this hgt
      omega

/-- no factor `≤ 7` ⇒ odd -/
theorem PrimeFactors.WF.odd_of_not_leq {f : PrimeFactors} (h : f.WF) (hleq : f.hasFactorsLeq 7 = false) :
    ¬ 2 ∣ f.n := by
  unfold PrimeFactors.hasFactorsLeq at hleq
  simp only [Bool.or_eq_false_iff, decide_eq_false_iff_not] at hleq
  have hp2 : f.p2 = 0 := by omega
  have := h.odd_part
  rw [h.prod_eq, hp2, pow_zero, Nat.one_mul]
  exact this

theorem scalarRadixN_ok (Q : Recipe → Prop) (hQ : ScalarClosed Q) (F : Nat) (f : PrimeFactors) (h : f.WF)
    (htot : 2 ≤ f.total)
    (hnb : scalarButterflies.contains f.n = false) (hleq : f.hasFactorsLeq 7 = true)
    (hbase : f.hasFactorsGt 7 = true → f.productAbove 7 * 2 ≤ f.n →
       ∃ r, scalarForLen (F + 2) (f.productAbove 7) = .ok r ∧ r.len = f.productAbove 7 ∧ Q r) :
    ∃ r, scalarRadixN (F + 3) f = .ok r ∧ r.len = f.n ∧ Q r := by
  obtain ⟨b, hb, hbpos, hdiv, hsm, hcase⟩ := radixNBase_ok f h htot hnb hleq
  rw [scalarRadixN_eq, hb]
  simp only
  rcases hcase with ⟨hgt, rfl, hle⟩ | hbf
  · have h5 := h.productAbove_ge_five hgt
    apply radixNTail_ok Q hQ (F + 2) f _ h.pos hbpos hdiv hsm (by omega)
    obtain ⟨r, h1, h2, h3⟩ := hbase hgt hle
    exact ⟨r, h1, h2, h3, Or.inl hle⟩
  · apply radixNTail_ok Q hQ (F + 2) f b h.pos hbpos hdiv hsm
      (butterflies_ge_two b (by simpa using hbf))
    exact ⟨_, scalarForLen_bfly F b hbf, rfl, hQ.bfly b hbf, Or.inr ⟨b, rfl⟩⟩

/-! ### one unfolding of `design_fft_with_factors` -/

theorem scalarWithFactors_step (Q : Recipe → Prop) (hQ : ScalarClosed Q) (F n : Nat) (f : PrimeFactors)
    (h : f.WF) (hn : f.n = n) (h2 : 2 ≤ n)
    (hPrime : f.isPrime = true → scalarButterflies.contains n = false →
      ∃ r, scalarPrime (F + 3) n = .ok r ∧ r.len = n ∧ Q r)
    (hBase : f.hasFactorsGt 7 = true → f.productAbove 7 * 2 ≤ n →
      ∃ r, scalarForLen (F + 2) (f.productAbove 7) = .ok r ∧ r.len = f.productAbove 7 ∧ Q r)
    (hPart : f.hasFactorsLeq 7 = false → ∀ g : PrimeFactors, g.WF → 1 < g.n → g.n * 2 ≤ n →
      ∃ r, scalarWithFactors (F + 2) g.n g = .ok r ∧ r.len = g.n ∧ Q r) :
    ∃ r, scalarWithFactors (F + 4) n f = .ok r ∧ r.len = n ∧ Q r := by
  subst hn
  rw [scalarWithFactors]
  by_cases hb : scalarButterflies.contains f.n = true
  · rw [if_pos hb]; exact ⟨_, rfl, rfl, hQ.bfly _ hb⟩
  rw [if_neg hb]
  have hb' : scalarButterflies.contains f.n = false := by simpa using hb
  by_cases hp : f.isPrime = true
  · rw [if_pos hp]; exact hPrime hp hb'
  rw [if_neg hp]
  have hp' : f.isPrime = false := by simpa using hp
  have htot : 2 ≤ f.total := by
    have h1 := h.one_le_total h2
    have : f.total ≠ 1 := by
      intro h1; simp [PrimeFactors.isPrime, h1] at hp'
    omega
  simp only []
  generalize hprod : (if f.n > 992 ∨ isPowerOfTwo f.n = true then (none : Option (Nat × Nat))
        else butterflyProductSearch f.n (ceilSqrt f.n + 1) scalarProductButterflies (2 ^ 64) none) = prod
  cases prod with
  | some lr =>
    obtain ⟨l, r⟩ := lr
    simp only
    split at hprod
    · exact absurd hprod (by simp)
    · rcases butterflyProductSearch_spec _ _ _ _ _ l r hprod with h0 | ⟨h1, h2', h3⟩
      · exact absurd h0 (by simp)
      · have hl : scalarButterflies.contains l = true :=
          productButterflies_sub l h1
        have hr : scalarButterflies.contains r = true :=
          productButterflies_sub r (by simpa using h2')
        rw [scalarForLen_bfly (F + 1) l hl, scalarForLen_bfly (F + 1) r hr]
        simp only
        split
        · rename_i hg
          exact ⟨_, rfl, by simp [Recipe.len, h3], hQ.gtSmallBfly l r h1 (by simpa using h2') hg⟩
        · exact ⟨_, rfl, by simp [Recipe.len, h3], hQ.mrSmallBfly l r h1 (by simpa using h2')⟩
  | none =>
    simp only
    by_cases hleq : f.hasFactorsLeq MAX_RADIXN_FACTOR = true
    · rw [if_pos hleq]
      exact scalarRadixN_ok Q hQ F f h htot hb' hleq hBase
    · rw [if_neg hleq]
      have hleq' : f.hasFactorsLeq 7 = false := by
        change ¬ f.hasFactorsLeq 7 = true at hleq; simpa using hleq
      obtain ⟨lf, rf, hpart, hlwf, hrwf, hmul, hl1, hr1⟩ := partition_spec f h hp' h2
      rw [hpart]
      simp only
      rw [scalarMixedRadix]
      obtain ⟨a, ha, hal, hqa⟩ := hPart hleq' lf hlwf hl1 (by rw [← hmul]; nlinarith)
      obtain ⟨b, hb, hbl, hqb⟩ := hPart hleq' rf hrwf hr1 (by rw [← hmul]; nlinarith)
      change scalarWithFactors (F + 2) lf.product lf = .ok a at ha
      change scalarWithFactors (F + 2) rf.product rf = .ok b at hb
      rw [ha, hb]
      simp only
      have ha1 : 1 < a.len := by rw [hal]; exact hl1
      have hb1 : 1 < b.len := by rw [hbl]; exact hr1
      have hodd : ¬ 2 ∣ a.len * b.len := by rw [hal, hbl, hmul]; exact h.odd_of_not_leq hleq'
      by_cases c1 : lf.product < 31 ∧ rf.product < 31
      · rw [if_pos c1]
        have ha31 : a.len < 31 := by rw [hal]; exact c1.1
        have hb31 : b.len < 31 := by rw [hbl]; exact c1.2
        by_cases c2 : lf.product.gcd rf.product = 1
        · rw [if_pos c2]
          exact ⟨_, rfl, by simp [Recipe.len, hal, hbl, hmul],
            hQ.gtSmall a b hqa hqb ha1 hb1 ha31 hb31 (by rw [hal, hbl]; exact c2) hodd⟩
        · rw [if_neg c2]
          exact ⟨_, rfl, by simp [Recipe.len, hal, hbl, hmul], hQ.mrSmall a b hqa hqb ha1 hb1 ha31 hb31 hodd⟩
      · rw [if_neg c1]
        refine ⟨_, rfl, by simp [Recipe.len, hal, hbl, hmul], hQ.mixedRadix a b hqa hqb ha1 hb1 ?_ hodd⟩
        rw [hal, hbl]
        have c1' : ¬ (lf.n < 31 ∧ rf.n < 31) := c1
        rcases Nat.lt_or_ge lf.n 31 with hlt | hge
        · have : 31 ≤ rf.n := by omega
          calc 33 ≤ 2 * 31 := by decide
            _ ≤ lf.n * rf.n := Nat.mul_le_mul hl1 this
        · calc 33 ≤ 31 * 2 := by decide
            _ ≤ lf.n * rf.n := Nat.mul_le_mul hge hr1

/-! ### lengths `2^a·3^b` (the Bluestein inner lengths) need only constant fuel -/

theorem others_nil_of_dvd_six_pow (f : PrimeFactors) (h : f.WF) (k : Nat) (hd : f.n ∣ 6 ^ k) :
    f.others = [] := by
  cases hl : f.others with
  | nil => rfl
  | cons x l =>
    exfalso
    have hx : x ∈ f.others := by rw [hl]; exact List.mem_cons_self ..
    have hxe := h.entries x hx
    have h1 : x.value ∣ 6 ^ k :=
      dvd_trans (dvd_trans (dvd_pow_self _ (by omega)) (h.entry_dvd hx)) hd
    have h2 : x.value ∣ 6 := hxe.2.2.dvd_of_dvd_pow h1
    have h3 : x.value ≤ 6 := Nat.le_of_dvd (by omega) h2
    have : x.value = 5 ∨ x.value = 6 := by omega
    rcases this with e | e
    · rw [e] at h2; omega
    · have := hxe.2.2; rw [e] at this; revert this; decide

theorem scalarWithFactors_smooth6 (Q : Recipe → Prop) (hQ : ScalarClosed Q) (F n : Nat) (f : PrimeFactors)
    (h : f.WF) (hn : f.n = n) (h2 : 2 ≤ n)
    (k : Nat) (hs : n ∣ 6 ^ k) : ∃ r, scalarWithFactors (F + 4) n f = .ok r ∧ r.len = n ∧ Q r := by
  have hnil := others_nil_of_dvd_six_pow f h k (hn ▸ hs)
  apply scalarWithFactors_step Q hQ F n f h hn h2
  · intro hp hnb
    exfalso
    have hpr : Nat.Prime n := hn ▸ h.isPrime_iff.1 hp
    have h6 : n ∣ 6 := hpr.dvd_of_dvd_pow hs
    have : n ≤ 6 := Nat.le_of_dvd (by omega) h6
    have : n = 2 ∨ n = 3 ∨ n = 4 ∨ n = 5 ∨ n = 6 := by omega
    rcases this with e | e | e | e | e <;> subst e <;> revert hnb hpr <;> decide
  · intro hgt
    exfalso
    unfold PrimeFactors.hasFactorsGt at hgt
    rw [hnil] at hgt
    simp at hgt
  · intro hleq
    exfalso
    unfold PrimeFactors.hasFactorsLeq at hleq
    rw [hnil] at hleq
    simp at hleq
    have hpe := h.prod_eq
    rw [hnil, hleq.1, hleq.2, hn] at hpe
    simp at hpe; omega

theorem scalarForLen_smooth6 (Q : Recipe → Prop) (hQ : ScalarClosed Q) (F n k : Nat) (hs : n ∣ 6 ^ k) :
    ∃ r, scalarForLen (F + 5) n = .ok r ∧ r.len = n ∧ Q r := by
  rw [scalarForLen]
  by_cases h2 : n < 2
  · rw [if_pos h2]; exact ⟨_, rfl, rfl, hQ.dft n h2⟩
  · rw [if_neg h2]
    obtain ⟨f, hf, hwf, hfn, _⟩ := compute_spec n (by omega)
    rw [hf]
    exact scalarWithFactors_smooth6 Q hQ F n f hwf hfn (by omega) k hs

theorem pow2_dvd_six_pow (M k : Nat) (hk : M = 2 ^ k ∨ M = 3 * 2 ^ k) : M ∣ 6 ^ (k + 1) := by
  have e : (6 : Nat) ^ (k + 1) = 3 * 2 ^ k * (2 * 3 ^ k) := by
    have : (6 : Nat) = 2 * 3 := by norm_num
    rw [this, Nat.mul_pow, pow_succ, pow_succ]; ring
  rcases hk with hk | hk <;> rw [hk, e]
  · exact ⟨3 * (2 * 3 ^ k), by ring⟩
  · exact Dvd.intro _ rfl

theorem bluestein_inner_dvd (len : Nat) (h : 1 ≤ len) : ∃ k, bluesteinInnerLen len ∣ 6 ^ k := by
  obtain ⟨⟨k, hk⟩, _⟩ := bluesteinInnerLen_spec len h
  exact ⟨k + 1, pow2_dvd_six_pow _ k hk⟩

theorem prime_dvd_prodOf (l : List PrimeFactor) (hg : GoodEntries l) (p : Nat) (hp : Nat.Prime p)
    (hd : p ∣ prodOf l) : ∃ x ∈ l, x.value = p := by
  induction l with
  | nil => simp at hd; exact absurd hd hp.one_lt.ne'
  | cons y l ih =>
    rw [prodOf_cons] at hd
    rcases (Nat.Prime.dvd_mul hp).1 hd with h | h
    · have := hp.dvd_of_dvd_pow h
      have := (Nat.prime_dvd_prime_iff_eq hp (hg y (List.mem_cons_self ..)).2.2).1 this
      exact ⟨y, List.mem_cons_self .., this.symm⟩
    · obtain ⟨x, hx, hxv⟩ := ih hg.tail h
      exact ⟨x, List.mem_cons_of_mem _ hx, hxv⟩

/-- the prime divisors of a factored number are 2, 3 and the recorded `others` -/
theorem PrimeFactors.WF.prime_dvd {f : PrimeFactors} (h : f.WF) (p : Nat) (hp : Nat.Prime p) (hd : p ∣ f.n) :
    p = 2 ∨ p = 3 ∨ ∃ x ∈ f.others, x.value = p := by
  rw [h.prod_eq] at hd
  rcases (Nat.Prime.dvd_mul hp).1 hd with h1 | h1
  · rcases (Nat.Prime.dvd_mul hp).1 h1 with h2 | h2
    · left; exact (Nat.prime_dvd_prime_iff_eq hp Nat.prime_two).1 (hp.dvd_of_dvd_pow h2)
    · right; left; exact (Nat.prime_dvd_prime_iff_eq hp Nat.prime_three).1 (hp.dvd_of_dvd_pow h2)
  · right; right; exact prime_dvd_prodOf _ h.entries p hp h1

/-- exponents of the factorisation of `2^k` / `3·2^k` -/
theorem pow23_exps (f : PrimeFactors) (h : f.WF) (M k : Nat) (hn : f.n = M) (hk : M = 2 ^ k ∨ M = 3 * 2 ^ k) :
    f.others = [] ∧ f.p2 = k ∧ (M = 2 ^ k → f.p3 = 0) ∧ (M = 3 * 2 ^ k → f.p3 = 1) := by
  have hnil := others_nil_of_dvd_six_pow f h (k + 1) (hn ▸ pow2_dvd_six_pow M k hk)
  have hst := h.strip_two
  rw [hnil, hn] at hst
  simp only [prodOf_nil, Nat.mul_one] at hst
  have h3 : ∀ j, 3 ^ j = 1 → j = 0 := by
    intro j hj
    by_contra hc
    have : 3 ≤ 3 ^ j := Nat.le_self_pow hc 3
    omega
  have h3' : ∀ j, 3 ^ j = 3 → j = 1 := by
    intro j hj
    rcases j with _ | _ | j
    · simp at hj
    · rfl
    · have : 3 ^ 2 ≤ 3 ^ (j + 1 + 1) := Nat.pow_le_pow_right (by omega) (by omega)
      omega
  have h23 : ∀ j, (2 : Nat) ^ j ≠ 3 * 2 ^ k := by
    intro j hj
    have : (3 : Nat) ∣ 2 ^ j := ⟨2 ^ k, hj⟩
    have := Nat.prime_three.dvd_of_dvd_pow this
    omega
  rcases hk with e | e
  · have hst' := hst
    rw [e, strip_two_pow] at hst'
    simp only [Prod.mk.injEq] at hst'
    exact ⟨hnil, hst'.2.symm, fun _ => h3 _ hst'.1.symm, fun e' => absurd (e.symm.trans e') (h23 k)⟩
  · have hst' := hst
    rw [e, strip_eq 2 (by omega) 3 k (by omega) (by omega)] at hst'
    simp only [Prod.mk.injEq] at hst'
    exact ⟨hnil, hst'.2.symm, fun e' => absurd (e'.symm.trans e) (h23 k), fun _ => h3' _ hst'.1.symm⟩

theorem butterflies_le_32 : ∀ x ∈ scalarButterflies, x ≤ 32 := by decide

/-- the tree built for a Bluestein inner length -/
theorem scalarForLen_pow23_shape (F M : Nat) (hM : Pow23 M) (h64 : 64 ≤ M) (r : Recipe)
    (hr : scalarForLen (F + 5) M = .ok r) : BluesteinInnerShape r := by
  obtain ⟨k, hk⟩ := hM
  obtain ⟨f, hf, hwf, hfn, _⟩ := compute_spec M (by omega)
  rw [scalarForLen, if_neg (by omega), hf] at hr
  simp only at hr
  obtain ⟨hnil, hp2, hp30, hp31⟩ := pow23_exps f hwf M k hfn hk
  have hnb : ¬ scalarButterflies.contains M = true := by
    intro hc
    have := butterflies_le_32 M (by simpa using hc); omega
  have hnp : ¬ f.isPrime = true := by
    intro hp
    have hpr : Nat.Prime M := hfn ▸ hwf.isPrime_iff.1 hp
    have h6 : M ∣ 6 := hpr.dvd_of_dvd_pow (pow2_dvd_six_pow M k hk)
    have : M ≤ 6 := Nat.le_of_dvd (by omega) h6
    omega
  rw [scalarWithFactors, if_neg hnb, if_neg hnp] at hr
  simp only [] at hr
  revert hr
  generalize hprod : (if M > 992 ∨ isPowerOfTwo M = true then (none : Option (Nat × Nat))
        else butterflyProductSearch M (ceilSqrt M + 1) scalarProductButterflies (2 ^ 64) none) = prod
  intro hr
  cases prod with
  | some lr =>
    obtain ⟨l, r'⟩ := lr
    simp only at hr
    split at hprod
    · exact absurd hprod (by simp)
    · rcases butterflyProductSearch_spec _ _ _ _ _ l r' hprod with h0 | ⟨h1, h2', h3⟩
      · exact absurd h0 (by simp)
      · have hl : scalarButterflies.contains l = true := productButterflies_sub l h1
        have hr2 : r' ∈ scalarProductButterflies := by simpa using h2'
        have hr' : scalarButterflies.contains r' = true := productButterflies_sub r' hr2
        rw [scalarForLen_bfly (F + 1) l hl, scalarForLen_bfly (F + 1) r' hr'] at hr
        simp only at hr
        split at hr
        · simp only [Except.ok.injEq] at hr; subst hr
          exact Or.inr ⟨l, r', h1, hr2, Or.inr rfl⟩
        · simp only [Except.ok.injEq] at hr; subst hr
          exact Or.inr ⟨l, r', h1, hr2, Or.inl rfl⟩
  | none =>
    simp only at hr
    have hleq : f.hasFactorsLeq MAX_RADIXN_FACTOR = true := by
      cases hc : f.hasFactorsLeq MAX_RADIXN_FACTOR with
      | true => rfl
      | false =>
        exfalso
        have hodd := hwf.odd_of_not_leq hc
        apply hodd
        rw [hfn]
        have hk1 : 1 ≤ k := by
          by_contra hc'
          have : k = 0 := by omega
          subst this; rcases hk with e | e <;> simp at e <;> omega
        obtain ⟨j, rfl⟩ : ∃ j, k = j + 1 := ⟨k - 1, by omega⟩
        rcases hk with e | e <;> rw [e, pow_succ]
        · exact Dvd.intro_left _ rfl
        · exact ⟨3 * 2 ^ j, by ring⟩
    rw [if_pos hleq, scalarRadixN_eq] at hr
    -- the base
    have hkM : (M = 2 ^ k ∧ 6 ≤ k) ∨ (M = 3 * 2 ^ k ∧ 5 ≤ k) := by
      rcases hk with e | e
      · left; refine ⟨e, ?_⟩
        by_contra hc
        have : 2 ^ k ≤ 2 ^ 5 := Nat.pow_le_pow_right (by omega) (by omega)
        omega
      · right; refine ⟨e, ?_⟩
        by_contra hc
        have : 2 ^ k ≤ 2 ^ 4 := Nat.pow_le_pow_right (by omega) (by omega)
        omega
    have hbase : ∃ b m, radixNBase f = .ok b ∧ b ∈ [8, 12, 16, 24] ∧ M = b * 2 ^ (2 * m) := by
      unfold radixNBase
      have hgt : ¬ f.hasFactorsGt MAX_RADIXN_FACTOR = true := by
        unfold PrimeFactors.hasFactorsGt; rw [hnil]; simp [MAX_RADIXN_FACTOR]
      simp only []
      rw [if_neg hgt, hnil]
      have hc0 : countOf ([] : List PrimeFactor) 7 = 0 ∧ countOf ([] : List PrimeFactor) 5 = 0 := ⟨rfl, rfl⟩
      rcases hkM with ⟨e, hk6⟩ | ⟨e, hk5⟩
      · have hp3 := hp30 e
        rw [if_pos ⟨hc0.1, hc0.2, by omega⟩, if_pos hp3, if_neg (by omega)]
        by_cases hodd : f.p2 % 2 = 1
        · rw [if_pos hodd]
          refine ⟨8, (k - 3) / 2, rfl, by decide, ?_⟩
          rw [e]; have : (8 : Nat) = 2 ^ 3 := by norm_num
          rw [this, ← pow_add]; congr 1; omega
        · rw [if_neg hodd]
          refine ⟨16, (k - 4) / 2, rfl, by decide, ?_⟩
          rw [e]; have : (16 : Nat) = 2 ^ 4 := by norm_num
          rw [this, ← pow_add]; congr 1; omega
      · have hp3 := hp31 e
        rw [if_pos ⟨hc0.1, hc0.2, by omega⟩, if_neg (by omega), if_neg (by omega)]
        by_cases hodd : f.p2 % 2 = 1
        · rw [if_pos hodd]
          refine ⟨24, (k - 3) / 2, rfl, by decide, ?_⟩
          have : (24 : Nat) = 3 * 2 ^ 3 := by norm_num
          have e' : k = 3 + 2 * ((k - 3) / 2) := by omega
          rw [e, this, Nat.mul_assoc, ← pow_add, ← e']
        · rw [if_neg hodd]
          refine ⟨12, (k - 2) / 2, rfl, by decide, ?_⟩
          have : (12 : Nat) = 3 * 2 ^ 2 := by norm_num
          have e' : k = 2 + 2 * ((k - 2) / 2) := by omega
          rw [e, this, Nat.mul_assoc, ← pow_add, ← e']
    obtain ⟨b, m, hb, hbm, hMb⟩ := hbase
    rw [hb] at hr
    simp only at hr
    have hbb : scalarButterflies.contains b = true := by
      simp only [List.mem_cons, List.mem_nil_iff, or_false] at hbm
      rcases hbm with rfl | rfl | rfl | rfl <;> decide
    have hbpos : 0 < b := by
      simp only [List.mem_cons, List.mem_nil_iff, or_false] at hbm
      rcases hbm with rfl | rfl | rfl | rfl <;> omega
    unfold radixNTail at hr
    rw [if_neg (by omega), scalarForLen_bfly F b hbb] at hr
    simp only [PrimeFactors.product] at hr
    rw [hfn, hMb, Nat.mul_div_cancel_left _ hbpos] at hr
    unfold radixNFinish at hr
    simp only [] at hr
    rw [if_pos ⟨isPowerOfTwo_pow _, by rw [trailingZeros_pow]; omega⟩] at hr
    simp only [Except.ok.injEq] at hr
    subst hr
    exact Or.inl ⟨_, b, rfl, hbm⟩

/-! ### the scalar planner never fails -/

theorem scalarWithFactors_ok (Q : Recipe → Prop) (hQ : ScalarClosed Q) :
    ∀ n, 2 ≤ n → ∀ F, 2 * n + 8 ≤ F → ∀ f : PrimeFactors, f.WF → f.n = n →
    ∃ r, scalarWithFactors F n f = .ok r ∧ r.len = n ∧ Q r := by
  intro n
  induction n using Nat.strong_induction_on with
  | _ n ih =>
    intro h2 F hF f hwf hfn
    obtain ⟨F', rfl⟩ : ∃ F', F = F' + 4 := ⟨F - 4, by omega⟩
    apply scalarWithFactors_step Q hQ F' n f hwf hfn h2
    · -- design_prime
      intro hp hnb
      have hpr : Nat.Prime n := hfn ▸ hwf.isPrime_iff.1 hp
      have hn33 : 33 ≤ n := by
        by_contra hc
        have := prime_lt_33_bfly n (by omega) hpr
        rw [hnb] at this; cases this
      have hn3 : 3 ≤ n := by omega
      obtain ⟨rf, hrf, hrwf, hrn, _⟩ := compute_spec (n - 1) (by omega)
      rw [scalarPrime, hrf]
      simp only
      split
      · obtain ⟨k, hk⟩ := bluestein_inner_dvd n (by omega)
        obtain ⟨F'', hF''⟩ : ∃ F'', F' + 2 = F'' + 5 := ⟨F' - 3, by omega⟩
        obtain ⟨inner, hi, hil, hqi⟩ := scalarForLen_smooth6 Q hQ F'' (bluesteinInnerLen n) k hk
        rw [hF'', hi]
        obtain ⟨hshape, hlo, hhi⟩ := bluesteinInnerLen_spec n (by omega)
        have hsh := scalarForLen_pow23_shape F'' (bluesteinInnerLen n) hshape (by omega) inner hi
        exact ⟨_, rfl, rfl, hQ.bluesteins n inner hqi hpr hn33 (by rw [hil]; exact hlo) (by rw [hil]; exact hhi)
          (by rw [hil]; exact hshape) hsh⟩
      · rename_i hany
        obtain ⟨inner, hi, hil, hqi⟩ := ih (n - 1) (by omega) (by omega) (F' + 2) (by omega) rf hrwf hrn
        rw [hi]
        have hil1 : inner.len + 1 = n := by omega
        have hsm : ∀ p, Nat.Prime p → p ∣ inner.len → p ≤ 23 := by
          intro p hp hd
          rw [hil, ← hrn] at hd
          rcases hrwf.prime_dvd p hp hd with rfl | rfl | ⟨x, hx, rfl⟩
          · omega
          · omega
          · by_contra hc
            apply hany
            rw [List.any_eq_true]
            exact ⟨x, hx, by simp only [MAX_RADER_PRIME_FACTOR]; exact decide_eq_true (by omega)⟩
        exact ⟨_, rfl, by simp only [Recipe.len]; omega,
          hQ.raders inner hqi (by rw [hil1]; exact hpr) (by omega) hsm⟩
    · -- the base of design_radixn
      intro _ hle
      generalize f.productAbove 7 = b at *
      rw [scalarForLen]
      by_cases hb2 : b < 2
      · rw [if_pos hb2]; exact ⟨_, rfl, rfl, hQ.dft b hb2⟩
      · rw [if_neg hb2]
        obtain ⟨fb, hfb, hbwf, hbn, _⟩ := compute_spec b (by omega)
        rw [hfb]
        exact ih b (by omega) (by omega) (F' + 1) (by omega) fb hbwf hbn
    · -- the two halves of design_mixed_radix
      intro _ g hgwf hg1 hgle
      exact ih g.n (by omega) (by omega) (F' + 2) (by omega) g hgwf rfl

/-- the planned tree satisfies every predicate that the planner's constructions preserve -/
theorem scalarForLen_okQ (Q : Recipe → Prop) (hQ : ScalarClosed Q) (n F : Nat) (hF : 2 * n + 9 ≤ F) :
    ∃ r, scalarForLen F n = .ok r ∧ r.len = n ∧ Q r := by
  obtain ⟨F', rfl⟩ : ∃ F', F = F' + 1 := ⟨F - 1, by omega⟩
  rw [scalarForLen]
  by_cases h2 : n < 2
  · rw [if_pos h2]; exact ⟨_, rfl, rfl, hQ.dft n h2⟩
  · rw [if_neg h2]
    obtain ⟨f, hf, hwf, hfn, _⟩ := compute_spec n (by omega)
    rw [hf]
    exact scalarWithFactors_ok Q hQ n (by omega) F' (by omega) f hwf hfn

theorem scalarForLen_ok (n F : Nat) (hF : 2 * n + 9 ≤ F) :
    ∃ r, scalarForLen F n = .ok r ∧ r.len = n := by
  obtain ⟨r, h1, h2, _⟩ := scalarForLen_okQ _ ScalarClosed.trivial n F hF
  exact ⟨r, h1, h2⟩

/-! ## The SSE planner (`FftPlannerSse`) -/

/-! ### SSE planner -/

theorem sseAll_butterfly : ∀ x ∈ sseAllButterflies, (sseButterfly x).isSome = true := by decide
theorem sseAll_ge_two : ∀ x ∈ sseAllButterflies, 2 ≤ x := by decide
theorem sseHand_ge_one : ∀ x ∈ sseHandButterflies, 1 ≤ x := by decide
theorem ssePrime_ge_one : ∀ x ∈ ssePrimeButterflies, 1 ≤ x := by decide

theorem sseButterfly_spec (b : Nat) (r : Recipe) (h : sseButterfly b = some r) : r.len = b ∧ 1 ≤ b := by
  unfold sseButterfly at h
  split at h
  · rename_i hc
    simp only [Option.some.injEq] at h; subst h
    refine ⟨rfl, ?_⟩
    rcases hc with rfl | hc
    · omega
    · exact sseHand_ge_one b (by simpa using hc)
  · split at h
    · rename_i hc
      simp only [Option.some.injEq] at h; subst h
      exact ⟨rfl, ssePrime_ge_one b (by simpa using hc)⟩
    · exact absurd h (by simp)

theorem sseWithFactors_bfly (F b : Nat) (f : PrimeFactors) (r : Recipe) (h : sseButterfly b = some r) :
    sseWithFactors (F + 1) b f = .ok r := by
  rw [sseWithFactors, h]

theorem sseForLen_bfly (F b : Nat) (r : Recipe) (h : sseButterfly b = some r) :
    sseForLen (F + 2) b = .ok r := by
  have h1 := (sseButterfly_spec b r h).2
  obtain ⟨f, hf, _⟩ := compute_spec b (by omega)
  rw [sseForLen, if_neg (by omega), hf]
  exact sseWithFactors_bfly F b f r h

theorem ssePairSearch_spec (len : Nat) : ∀ (l : List Nat) (acc : Nat × Nat),
    ssePairSearch len l acc = acc ∨
      ((ssePairSearch len l acc).1 ∈ l ∧ (ssePairSearch len l acc).2 ∈ l ∧
        (ssePairSearch len l acc).1 * (ssePairSearch len l acc).2 = len) := by
  intro l
  induction l with
  | nil => intro acc; left; rfl
  | cons x l ih =>
    intro acc
    rw [ssePairSearch]
    split
    · rename_i hc
      right
      have hx2 : len / x ∈ x :: l := by simpa using hc.2
      have hmul : x * (len / x) = len := Nat.mul_div_cancel' (Nat.dvd_of_mod_eq_zero hc.1)
      rcases ih (x, len / x) with h | ⟨h1, h2, h3⟩
      · rw [h]; exact ⟨List.mem_cons_self .., hx2, hmul⟩
      · exact ⟨List.mem_cons_of_mem _ h1, List.mem_cons_of_mem _ h2, h3⟩
    · rcases ih acc with h | ⟨h1, h2, h3⟩
      · left; exact h
      · right; exact ⟨List.mem_cons_of_mem _ h1, List.mem_cons_of_mem _ h2, h3⟩

/-- the SSE analogue of `ScalarClosed` -/
structure SseClosed (Q : Recipe → Prop) : Prop where
  dft : Q (.dft 0)
  bfly : ∀ b r, sseButterfly b = some r → Q r
  gtSmall : ∀ a b, Q a → Q b → a.len < 33 → b.len < 33 → Nat.gcd a.len b.len = 1 → Q (.goodThomasSmall a b)
  mrSmall : ∀ a b, Q a → Q b → a.len < 33 → b.len < 33 → Q (.mixedRadixSmall a b)
  mixedRadix : ∀ a b, Q a → Q b → 1 < a.len → 1 < b.len → 33 ≤ a.len * b.len → Q (.mixedRadix a b)
  raders : ∀ i, Q i → Nat.Prime (i.len + 1) → 33 ≤ i.len + 1 →
    (∀ p, Nat.Prime p → p ∣ i.len → p ≤ 23) → Q (.raders i)
  bluesteins : ∀ n i, Q i → Nat.Prime n → 33 ≤ n → 2 * n - 1 ≤ i.len → i.len < 4 * n → Pow23 i.len →
    Q (.bluesteins n i)
  sseRadix4 : ∀ k b, b ∈ [12, 16, 24, 32] → Q (.sseRadix4 k (.bfly b))

theorem SseClosed.trivial : SseClosed (fun _ => True) := by
  constructor <;> intros <;> trivial

theorem sse_prime_lt_33_bfly : ∀ n, n < 33 → Nat.Prime n → (sseButterfly n).isSome = true := by decide

theorem sseMixedRadix_ok (Q : Recipe → Prop) (hQ : SseClosed Q) (F : Nat) (lf rf : PrimeFactors)
    (hlp : 1 < lf.n) (hrp : 1 < rf.n)
    (ha : ∃ a, sseWithFactors F lf.n lf = .ok a ∧ a.len = lf.n ∧ Q a)
    (hb : ∃ b, sseWithFactors F rf.n rf = .ok b ∧ b.len = rf.n ∧ Q b) :
    ∃ r, sseMixedRadix (F + 1) lf rf = .ok r ∧ r.len = lf.n * rf.n ∧ Q r := by
  obtain ⟨a, ha, hal, hqa⟩ := ha
  obtain ⟨b, hb, hbl, hqb⟩ := hb
  rw [sseMixedRadix]
  change sseWithFactors F lf.product lf = .ok a at ha
  change sseWithFactors F rf.product rf = .ok b at hb
  rw [ha, hb]
  simp only
  by_cases c1 : lf.product < 33 ∧ rf.product < 33
  · rw [if_pos c1]
    have ha33 : a.len < 33 := by rw [hal]; exact c1.1
    have hb33 : b.len < 33 := by rw [hbl]; exact c1.2
    by_cases c2 : lf.product.gcd rf.product = 1
    · rw [if_pos c2]
      exact ⟨_, rfl, by simp [Recipe.len, hal, hbl], hQ.gtSmall a b hqa hqb ha33 hb33 (by rw [hal, hbl]; exact c2)⟩
    · rw [if_neg c2]; exact ⟨_, rfl, by simp [Recipe.len, hal, hbl], hQ.mrSmall a b hqa hqb ha33 hb33⟩
  · rw [if_neg c1]
    refine ⟨_, rfl, by simp [Recipe.len, hal, hbl],
      hQ.mixedRadix a b hqa hqb (by rw [hal]; exact hlp) (by rw [hbl]; exact hrp) ?_⟩
    rw [hal, hbl]
    have c1' : ¬ (lf.n < 33 ∧ rf.n < 33) := c1
    rcases Nat.lt_or_ge lf.n 33 with hlt | hge
    · have : 33 ≤ rf.n := by omega
      calc 33 ≤ 1 * 33 := by decide
        _ ≤ lf.n * rf.n := Nat.mul_le_mul (by omega) this
    · calc 33 ≤ 33 * 1 := by decide
        _ ≤ lf.n * rf.n := Nat.mul_le_mul hge (by omega)

/-- base length of `design_radix4` (verbatim from the model) -/
def sseRadix4Base (p2 p3 : Nat) : Nat :=
      if p3 = 0 then
        match p2 with
        | 0 => 1 | 1 => 2 | 2 => 4 | 3 => 8
        | _ => if p2 % 2 = 1 then 32 else 16
      else
        match p2 with
        | 0 => 3 | 1 => 6
        | _ => if p2 % 2 = 1 then 24 else 12

/-- the rest of `design_radix4` (verbatim from the model) -/
def sseRadix4Tail (fuel n baseLen : Nat) : Except String Recipe :=
    let cross := n / baseLen
    if ¬ isPowerOfTwo cross then .error "design_radix4: assert!(cross_len.is_power_of_two())" else
    let bits := trailingZeros cross
    if bits % 2 ≠ 0 then .error "design_radix4: assert!(cross_bits % 2 == 0)" else
    match sseForLen fuel baseLen with
    | .ok base => .ok (.sseRadix4 (bits / 2) base)
    | .error e => .error e

theorem sseRadix4_eq (fuel : Nat) (f : PrimeFactors) :
    sseRadix4 (fuel + 1) f =
      if ¬ (f.others.isEmpty ∧ f.p3 < 2) then
        .error "design_radix4: assert!(other_factors.is_empty() && p3 < 2)"
      else sseRadix4Tail fuel f.product (sseRadix4Base f.p2 f.p3) := by
  rw [sseRadix4]; rfl

theorem sseRadix4Tail_ok (Q : Recipe → Prop) (hQ : SseClosed Q) (F n base m : Nat)
    (hn : n = base * 2 ^ (2 * m)) (hmem : base ∈ [12, 16, 24, 32])
    (hr : sseButterfly base = some (.bfly base)) :
    ∃ r, sseRadix4Tail (F + 2) n base = .ok r ∧ r.len = n ∧ Q r := by
  have hb := (sseButterfly_spec base _ hr).2
  have hdiv : n / base = 2 ^ (2 * m) := by rw [hn, Nat.mul_div_cancel_left _ hb]
  unfold sseRadix4Tail
  simp only
  rw [hdiv, isPowerOfTwo_pow, trailingZeros_pow, sseForLen_bfly F base _ hr]
  simp only [not_true_eq_false, if_false, Nat.mul_mod_right, ne_eq]
  refine ⟨_, rfl, ?_, hQ.sseRadix4 _ base hmem⟩
  simp only [Recipe.len]
  rw [hn, Nat.mul_div_cancel_left _ (by omega : 0 < 2)]

theorem sseRadix4_ok (Q : Recipe → Prop) (hQ : SseClosed Q) (F : Nat) (f : PrimeFactors) (h : f.WF)
    (hnil : f.others = []) (hp3 : f.p3 < 2)
    (hp2 : 6 ≤ f.p2) : ∃ r, sseRadix4 (F + 3) f = .ok r ∧ r.len = f.n ∧ Q r := by
  have hpe := h.prod_eq
  rcases f with ⟨others, n, p2, p3, total, distinct⟩
  simp only at hnil hp3 hp2 hpe
  subst hnil
  simp only [prodOf_nil, Nat.mul_one] at hpe
  obtain ⟨q, rfl⟩ : ∃ q, p2 = q + 6 := ⟨p2 - 6, by omega⟩
  rw [sseRadix4_eq, if_neg (by simp; omega)]
  simp only [PrimeFactors.product]
  by_cases c3 : p3 = 0
  · subst c3
    simp only [pow_zero, Nat.mul_one] at hpe
    by_cases codd : (q + 6) % 2 = 1
    · have hb : sseRadix4Base (q + 6) 0 = 32 :=
        (rfl : sseRadix4Base (q + 6) 0 = if (q + 6) % 2 = 1 then 32 else 16).trans (if_pos codd)
      rw [hb]
      refine sseRadix4Tail_ok Q hQ F n 32 ((q + 1) / 2) (by
        rw [hpe]; have : (32 : Nat) = 2 ^ 5 := by norm_num
        rw [this, ← pow_add]; congr 1; omega) (by decide) rfl
    · have hb : sseRadix4Base (q + 6) 0 = 16 :=
        (rfl : sseRadix4Base (q + 6) 0 = if (q + 6) % 2 = 1 then 32 else 16).trans (if_neg codd)
      rw [hb]
      refine sseRadix4Tail_ok Q hQ F n 16 ((q + 2) / 2) (by
        rw [hpe]; have : (16 : Nat) = 2 ^ 4 := by norm_num
        rw [this, ← pow_add]; congr 1; omega) (by decide) rfl
  · have c31 : p3 = 1 := by omega
    subst c31
    simp only [pow_one] at hpe
    by_cases codd : (q + 6) % 2 = 1
    · have hb : sseRadix4Base (q + 6) 1 = 24 :=
        (rfl : sseRadix4Base (q + 6) 1 = if (q + 6) % 2 = 1 then 24 else 12).trans (if_pos codd)
      rw [hb]
      refine sseRadix4Tail_ok Q hQ F n 24 ((q + 3) / 2) (by
        rw [hpe]; have : (24 : Nat) = 2 ^ 3 * 3 := by norm_num
        have e : q + 6 = 3 + 2 * ((q + 3) / 2) := by omega
        rw [this, e, pow_add]; ring) (by decide) rfl
    · have hb : sseRadix4Base (q + 6) 1 = 12 :=
        (rfl : sseRadix4Base (q + 6) 1 = if (q + 6) % 2 = 1 then 24 else 12).trans (if_neg codd)
      rw [hb]
      refine sseRadix4Tail_ok Q hQ F n 12 ((q + 4) / 2) (by
        rw [hpe]; have : (12 : Nat) = 2 ^ 2 * 3 := by norm_num
        have e : q + 6 = 2 + 2 * ((q + 4) / 2) := by omega
        rw [this, e, pow_add]; ring) (by decide) rfl

theorem sseWithFactors_step (Q : Recipe → Prop) (hQ : SseClosed Q) (F n : Nat) (f : PrimeFactors) (h : f.WF)
    (hn : f.n = n) (h1 : 1 ≤ n)
    (hPrime : f.isPrime = true → sseButterfly n = none → ∃ r, ssePrime (F + 3) n = .ok r ∧ r.len = n ∧ Q r)
    (hSub : sseButterfly n = none →
       (6 ≤ f.p2 → ¬ (f.others.isEmpty = true ∧ f.p3 < 2)) →
       (f.p2 < 6 → (if n > 13 ∧ n ≤ 1024 then ssePairSearch n sseAllButterflies (0, 0) else (0, 0)).1 = 0) →
       ∀ g : PrimeFactors, g.WF → 1 < g.n → g.n * 2 ≤ n →
         ∃ r, sseWithFactors (F + 2) g.n g = .ok r ∧ r.len = g.n ∧ Q r) :
    ∃ r, sseWithFactors (F + 4) n f = .ok r ∧ r.len = n ∧ Q r := by
  subst hn
  rw [sseWithFactors]
  cases hbf : sseButterfly f.n with
  | some r => exact ⟨r, rfl, (sseButterfly_spec _ _ hbf).1, hQ.bfly _ _ hbf⟩
  | none =>
  simp only
  by_cases hp : f.isPrime = true
  · rw [if_pos hp]; exact hPrime hp hbf
  rw [if_neg hp]
  have hp' : f.isPrime = false := by simpa using hp
  have hn2 : 2 ≤ f.n := by
    by_contra hc
    have : f.n = 1 := by omega
    rw [this] at hbf; revert hbf; decide
  rw [h.trailingZeros_eq]
  by_cases htz : f.p2 ≥ MIN_RADIX4_BITS
  · rw [if_pos htz]
    have htz6 : 6 ≤ f.p2 := htz
    by_cases hr4 : f.others.isEmpty = true ∧ f.p3 < 2
    · rw [if_pos hr4]
      exact sseRadix4_ok Q hQ F f h (by simpa using hr4.1) hr4.2 htz6
    · rw [if_neg hr4]
      obtain ⟨g, hrem, hgwf, hgn, hg1⟩ := h.removeFactors_two (by omega) hr4
      rw [hrem]
      simp only
      obtain ⟨pt, hpt, hptwf, hptn, _⟩ := compute_spec (2 ^ f.p2) (Nat.pow_pos (by omega))
      rw [hpt]
      simp only
      have h64 : 2 ^ 6 ≤ 2 ^ f.p2 := Nat.pow_le_pow_right (by omega) htz6
      have hsub := hSub hbf (fun _ => hr4) (fun hlt => by omega)
      have := sseMixedRadix_ok Q hQ (F + 2) pt g (by rw [hptn]; omega) hg1
        (hsub pt hptwf (by rw [hptn]; omega) (by rw [hptn, ← hgn]; nlinarith))
        (hsub g hgwf hg1 (by rw [← hgn]; nlinarith))
      rw [hptn, hgn] at this
      exact this
  · rw [if_neg htz]
    have htz6 : f.p2 < 6 := by
      have : ¬ (6 ≤ f.p2) := htz
      omega
    generalize hP : (if f.n > 13 ∧ f.n ≤ 1024 then ssePairSearch f.n sseAllButterflies (0, 0) else (0, 0)) = P at *
    by_cases hpair : P.1 > 0
    · rw [if_pos hpair]
      have hspec : P.1 ∈ sseAllButterflies ∧ P.2 ∈ sseAllButterflies ∧ P.1 * P.2 = f.n := by
        split at hP
        · rcases ssePairSearch_spec f.n sseAllButterflies (0, 0) with h0 | h0
          · rw [h0] at hP; rw [← hP] at hpair; simp at hpair
          · rw [hP] at h0; exact h0
        · rw [← hP] at hpair; simp at hpair
      obtain ⟨m1, m2, m3⟩ := hspec
      obtain ⟨fl, hfl, hflwf, hfln, _⟩ := compute_spec P.1 (by have := sseAll_ge_two _ m1; omega)
      obtain ⟨fr, hfr, hfrwf, hfrn, _⟩ := compute_spec P.2 (by have := sseAll_ge_two _ m2; omega)
      rw [hfl, hfr]
      simp only
      obtain ⟨r1, hr1⟩ := Option.isSome_iff_exists.1 (sseAll_butterfly _ m1)
      obtain ⟨r2, hr2⟩ := Option.isSome_iff_exists.1 (sseAll_butterfly _ m2)
      have := sseMixedRadix_ok Q hQ (F + 2) fl fr (by rw [hfln]; exact sseAll_ge_two _ m1)
        (by rw [hfrn]; exact sseAll_ge_two _ m2)
        ⟨r1, by rw [hfln]; exact sseWithFactors_bfly _ _ _ _ hr1, by rw [hfln]; exact (sseButterfly_spec _ _ hr1).1,
          hQ.bfly _ _ hr1⟩
        ⟨r2, by rw [hfrn]; exact sseWithFactors_bfly _ _ _ _ hr2, by rw [hfrn]; exact (sseButterfly_spec _ _ hr2).1,
          hQ.bfly _ _ hr2⟩
      rw [hfln, hfrn, m3] at this
      exact this
    · rw [if_neg hpair]
      obtain ⟨lf, rf, hpart, hlwf, hrwf, hmul, hl1, hr1⟩ := partition_spec f h hp' hn2
      rw [hpart]
      simp only
      have hsub := hSub hbf (fun h6 => by omega) (fun _ => by omega)
      have := sseMixedRadix_ok Q hQ (F + 2) lf rf hl1 hr1
        (hsub lf hlwf hl1 (by rw [← hmul]; nlinarith))
        (hsub rf hrwf hr1 (by rw [← hmul]; nlinarith))
      rw [hmul] at this
      exact this

/-! ### SSE: lengths `2^k` and `3·2^k` need only constant fuel -/

theorem sseWithFactors_pow2 (Q : Recipe → Prop) (hQ : SseClosed Q) (F M k : Nat)
    (hk : M = 2 ^ k ∨ M = 3 * 2 ^ k) (f : PrimeFactors)
    (h : f.WF) (hn : f.n = M) : ∃ r, sseWithFactors (F + 4) M f = .ok r ∧ r.len = M ∧ Q r := by
  have hMpos : 1 ≤ M := by
    have : 0 < 2 ^ k := Nat.pow_pos (by omega)
    rcases hk with e | e <;> omega
  have hnil := others_nil_of_dvd_six_pow f h (k + 1) (hn ▸ pow2_dvd_six_pow M k hk)
  -- exponents
  have hst := h.strip_two
  rw [hnil, hn] at hst
  simp only [prodOf_nil, Nat.mul_one] at hst
  have hexp : f.p2 = k ∧ f.p3 < 2 := by
    rcases hk with e | e
    · rw [e, strip_two_pow] at hst
      simp only [Prod.mk.injEq] at hst
      refine ⟨hst.2.symm, ?_⟩
      by_contra hc
      have : 3 ≤ 3 ^ f.p3 := Nat.le_self_pow (by omega) 3
      omega
    · rw [e, strip_eq 2 (by omega) 3 k (by omega) (by omega)] at hst
      simp only [Prod.mk.injEq] at hst
      refine ⟨hst.2.symm, ?_⟩
      by_contra hc
      have : 3 ^ 2 ≤ 3 ^ f.p3 := Nat.pow_le_pow_right (by omega) (by omega)
      omega
  apply sseWithFactors_step Q hQ F M f h hn hMpos
  · intro hp hbf
    exfalso
    have hpr : Nat.Prime M := hn ▸ h.isPrime_iff.1 hp
    rcases hk with e | e
    · rw [e] at hpr
      have := hpr.eq_one_of_pow
      subst this; rw [e] at hbf; revert hbf; decide
    · rw [e, Nat.prime_mul_iff] at hpr
      rcases hpr with ⟨_, h2⟩ | ⟨_, h2⟩
      · rw [e, h2] at hbf; revert hbf; decide
      · omega
  · intro hbf hA hB
    exfalso
    by_cases h6 : 6 ≤ f.p2
    · exact hA h6 ⟨by rw [hnil]; rfl, hexp.2⟩
    · have hB' := hB (by omega)
      have hk6 : k < 6 := by omega
      have : k = 0 ∨ k = 1 ∨ k = 2 ∨ k = 3 ∨ k = 4 ∨ k = 5 := by omega
      rcases hk with e | e <;> rcases this with rfl | rfl | rfl | rfl | rfl | rfl <;>
        subst e <;> revert hbf hB' <;> decide

theorem sseForLen_pow2 (Q : Recipe → Prop) (hQ : SseClosed Q) (F M k : Nat) (hk : M = 2 ^ k ∨ M = 3 * 2 ^ k) :
    ∃ r, sseForLen (F + 5) M = .ok r ∧ r.len = M ∧ Q r := by
  have hMpos : 1 ≤ M := by
    have : 0 < 2 ^ k := Nat.pow_pos (by omega)
    rcases hk with e | e <;> omega
  obtain ⟨f, hf, hwf, hfn, _⟩ := compute_spec M (by omega)
  rw [sseForLen, if_neg (by omega), hf]
  exact sseWithFactors_pow2 Q hQ F M k hk f hwf hfn

/-! ### the SSE planner never fails -/

theorem sseWithFactors_ok (Q : Recipe → Prop) (hQ : SseClosed Q) :
    ∀ n, 1 ≤ n → ∀ F, 2 * n + 8 ≤ F → ∀ f : PrimeFactors, f.WF → f.n = n →
    ∃ r, sseWithFactors F n f = .ok r ∧ r.len = n ∧ Q r := by
  intro n
  induction n using Nat.strong_induction_on with
  | _ n ih =>
    intro h1 F hF f hwf hfn
    obtain ⟨F', rfl⟩ : ∃ F', F = F' + 4 := ⟨F - 4, by omega⟩
    apply sseWithFactors_step Q hQ F' n f hwf hfn h1
    · intro hp hbf
      have hpr : Nat.Prime n := hfn ▸ hwf.isPrime_iff.1 hp
      have hn33 : 33 ≤ n := by
        by_contra hc
        have := sse_prime_lt_33_bfly n (by omega) hpr
        rw [hbf] at this; cases this
      have hn2 : 2 ≤ n := by omega
      obtain ⟨rf, hrf, hrwf, hrn, _⟩ := compute_spec (n - 1) (by omega)
      rw [ssePrime, hrf]
      simp only
      split
      · obtain ⟨⟨k, hk⟩, _⟩ := bluesteinInnerLen_spec n (by omega)
        obtain ⟨F'', hF''⟩ : ∃ F'', F' + 2 = F'' + 5 := ⟨F' - 3, by omega⟩
        obtain ⟨inner, hi, hil, hqi⟩ := sseForLen_pow2 Q hQ F'' (bluesteinInnerLen n) k hk
        rw [hF'', hi]
        obtain ⟨hshape, hlo, hhi⟩ := bluesteinInnerLen_spec n (by omega)
        exact ⟨_, rfl, rfl, hQ.bluesteins n inner hqi hpr hn33 (by rw [hil]; exact hlo) (by rw [hil]; exact hhi)
          (by rw [hil]; exact hshape)⟩
      · rename_i hany
        obtain ⟨inner, hi, hil, hqi⟩ := ih (n - 1) (by omega) (by omega) (F' + 2) (by omega) rf hrwf hrn
        rw [hi]
        have hil1 : inner.len + 1 = n := by omega
        have hsm : ∀ p, Nat.Prime p → p ∣ inner.len → p ≤ 23 := by
          intro p hp hd
          rw [hil, ← hrn] at hd
          rcases hrwf.prime_dvd p hp hd with rfl | rfl | ⟨x, hx, rfl⟩
          · omega
          · omega
          · by_contra hc
            apply hany
            rw [List.any_eq_true]
            exact ⟨x, hx, by simp only [MAX_RADER_PRIME_FACTOR]; exact decide_eq_true (by omega)⟩
        exact ⟨_, rfl, by simp only [Recipe.len]; omega,
          hQ.raders inner hqi (by rw [hil1]; exact hpr) (by omega) hsm⟩
    · intro _ _ _ g hgwf hg1 hgle
      exact ih g.n (by omega) (by omega) (F' + 2) (by omega) g hgwf rfl

theorem sseForLen_okQ (Q : Recipe → Prop) (hQ : SseClosed Q) (n F : Nat) (hF : 2 * n + 9 ≤ F) :
    ∃ r, sseForLen F n = .ok r ∧ r.len = n ∧ Q r := by
  obtain ⟨F', rfl⟩ : ∃ F', F = F' + 1 := ⟨F - 1, by omega⟩
  rw [sseForLen]
  by_cases h1 : n < 1
  · rw [if_pos h1]
    have : n = 0 := by omega
    subst this
    exact ⟨_, rfl, rfl, hQ.dft⟩
  · rw [if_neg h1]
    obtain ⟨f, hf, hwf, hfn, _⟩ := compute_spec n (by omega)
    rw [hf]
    exact sseWithFactors_ok Q hQ n (by omega) F' (by omega) f hwf hfn

theorem sseForLen_ok (n F : Nat) (hF : 2 * n + 9 ≤ F) :
    ∃ r, sseForLen F n = .ok r ∧ r.len = n := by
  obtain ⟨r, h1, h2, _⟩ := sseForLen_okQ _ SseClosed.trivial n F hF
  exact ⟨r, h1, h2⟩

/-! ## More fuel never changes a successful result -/

/-! ### fuel monotonicity (scalar) -/

theorem scalar_mono (F : Nat) :
    (∀ n r, scalarForLen F n = .ok r → scalarForLen (F + 1) n = .ok r) ∧
    (∀ n f r, scalarWithFactors F n f = .ok r → scalarWithFactors (F + 1) n f = .ok r) ∧
    (∀ l rf r, scalarMixedRadix F l rf = .ok r → scalarMixedRadix (F + 1) l rf = .ok r) ∧
    (∀ f r, scalarRadixN F f = .ok r → scalarRadixN (F + 1) f = .ok r) ∧
    (∀ n r, scalarPrime F n = .ok r → scalarPrime (F + 1) n = .ok r) := by
  induction F with
  | zero =>
    refine ⟨?_, ?_, ?_, ?_, ?_⟩
    · intro n r h; rw [scalarForLen] at h; cases h
    · intro n f r h; rw [scalarWithFactors] at h; cases h
    · intro l rf r h; rw [scalarMixedRadix] at h; cases h
    · intro f r h; rw [scalarRadixN] at h; cases h
    · intro n r h; rw [scalarPrime] at h; cases h
  | succ F ih =>
    obtain ⟨ih1, ih2, ih3, ih4, ih5⟩ := ih
    refine ⟨?_, ?_, ?_, ?_, ?_⟩
    · intro n r h
      rw [scalarForLen] at h ⊢
      split
      · rename_i hc; rw [if_pos hc] at h; exact h
      · rename_i hc; rw [if_neg hc] at h
        cases hcmp : PrimeFactors.compute n with
        | error e => rw [hcmp] at h; cases h
        | ok f => rw [hcmp] at h; exact ih2 _ _ _ h
    · intro n f r h
      rw [scalarWithFactors] at h ⊢
      split
      · rename_i hc; rw [if_pos hc] at h; exact h
      · rename_i hc; rw [if_neg hc] at h
        split
        · rename_i hp; rw [if_pos hp] at h; exact ih5 _ _ h
        · rename_i hp; rw [if_neg hp] at h
          revert h
          generalize (if n > 992 ∨ isPowerOfTwo n = true then (none : Option (Nat × Nat))
            else butterflyProductSearch n (ceilSqrt n + 1) scalarProductButterflies (2 ^ 64) none) = prod
          intro h
          cases prod with
          | some lr =>
            obtain ⟨l, r'⟩ := lr
            simp only at h ⊢
            cases h1 : scalarForLen F l with
            | error e => rw [h1] at h; cases h
            | ok a =>
              cases h2 : scalarForLen F r' with
              | error e => rw [h1, h2] at h; cases h
              | ok b => rw [h1, h2] at h; rw [ih1 _ _ h1, ih1 _ _ h2]; exact h
          | none =>
            simp only at h ⊢
            split
            · rename_i hl; rw [if_pos hl] at h; exact ih4 _ _ h
            · rename_i hl; rw [if_neg hl] at h
              cases hpart : f.partition with
              | error e => rw [hpart] at h; cases h
              | ok lr => rw [hpart] at h; exact ih3 _ _ _ h
    · intro l rf r h
      rw [scalarMixedRadix] at h ⊢
      cases h1 : scalarWithFactors F l.product l with
      | error e => rw [h1] at h; cases h
      | ok a =>
        cases h2 : scalarWithFactors F rf.product rf with
        | error e => rw [h1, h2] at h; cases h
        | ok b => rw [h1, h2] at h; rw [ih2 _ _ _ h1, ih2 _ _ _ h2]; exact h
    · intro f r h
      rw [scalarRadixN_eq] at h ⊢
      cases hb : radixNBase f with
      | error e => rw [hb] at h; cases h
      | ok b =>
        rw [hb] at h
        simp only at h ⊢
        unfold radixNTail at h ⊢
        split
        · rename_i hc; rw [if_pos hc] at h; exact h
        · rename_i hc; rw [if_neg hc] at h
          cases h1 : scalarForLen F b with
          | error e => rw [h1] at h; cases h
          | ok base => rw [h1] at h; rw [ih1 _ _ h1]; exact h
    · intro n r h
      rw [scalarPrime] at h ⊢
      cases hcmp : PrimeFactors.compute (n - 1) with
      | error e => rw [hcmp] at h; cases h
      | ok rf =>
        rw [hcmp] at h
        simp only at h ⊢
        split
        · rename_i hc; rw [if_pos hc] at h
          cases h1 : scalarForLen F (bluesteinInnerLen n) with
          | error e => rw [h1] at h; cases h
          | ok inner => rw [h1] at h; rw [ih1 _ _ h1]; exact h
        · rename_i hc; rw [if_neg hc] at h
          cases h1 : scalarWithFactors F (n - 1) rf with
          | error e => rw [h1] at h; cases h
          | ok inner => rw [h1] at h; rw [ih2 _ _ _ h1]; exact h

theorem scalarForLen_mono {F F' n : Nat} {r : Recipe} (hle : F ≤ F') (h : scalarForLen F n = .ok r) :
    scalarForLen F' n = .ok r := by
  induction hle with
  | refl => exact h
  | step _ ih => exact (scalar_mono _).1 _ _ ih

/-! ### fuel monotonicity (SSE) -/

theorem sse_mono (F : Nat) :
    (∀ n r, sseForLen F n = .ok r → sseForLen (F + 1) n = .ok r) ∧
    (∀ n f r, sseWithFactors F n f = .ok r → sseWithFactors (F + 1) n f = .ok r) ∧
    (∀ l rf r, sseMixedRadix F l rf = .ok r → sseMixedRadix (F + 1) l rf = .ok r) ∧
    (∀ f r, sseRadix4 F f = .ok r → sseRadix4 (F + 1) f = .ok r) ∧
    (∀ n r, ssePrime F n = .ok r → ssePrime (F + 1) n = .ok r) := by
  induction F with
  | zero =>
    refine ⟨?_, ?_, ?_, ?_, ?_⟩
    · intro n r h; rw [sseForLen] at h; cases h
    · intro n f r h; rw [sseWithFactors] at h; cases h
    · intro l rf r h; rw [sseMixedRadix] at h; cases h
    · intro f r h; rw [sseRadix4] at h; cases h
    · intro n r h; rw [ssePrime] at h; cases h
  | succ F ih =>
    obtain ⟨ih1, ih2, ih3, ih4, ih5⟩ := ih
    refine ⟨?_, ?_, ?_, ?_, ?_⟩
    · intro n r h
      rw [sseForLen] at h ⊢
      split
      · rename_i hc; rw [if_pos hc] at h; exact h
      · rename_i hc; rw [if_neg hc] at h
        cases hcmp : PrimeFactors.compute n with
        | error e => rw [hcmp] at h; cases h
        | ok f => rw [hcmp] at h; exact ih2 _ _ _ h
    · intro n f r h
      rw [sseWithFactors] at h ⊢
      cases hbf : sseButterfly n with
      | some b => rw [hbf] at h; exact h
      | none =>
        rw [hbf] at h
        simp only at h ⊢
        split
        · rename_i hp; rw [if_pos hp] at h; exact ih5 _ _ h
        · rename_i hp; rw [if_neg hp] at h
          split
          · rename_i htz; rw [if_pos htz] at h
            split
            · rename_i hr; rw [if_pos hr] at h; exact ih4 _ _ h
            · rename_i hr; rw [if_neg hr] at h
              cases hrem : f.removeFactors ⟨2, trailingZeros n⟩ with
              | error e => rw [hrem] at h; cases h
              | ok o =>
                rw [hrem] at h
                cases o with
                | none => cases h
                | some npt =>
                  simp only at h ⊢
                  cases hcmp : PrimeFactors.compute (2 ^ trailingZeros n) with
                  | error e => rw [hcmp] at h; cases h
                  | ok pt => rw [hcmp] at h; exact ih3 _ _ _ h
          · rename_i htz; rw [if_neg htz] at h
            revert h
            generalize (if n > 13 ∧ n ≤ 1024 then ssePairSearch n sseAllButterflies (0, 0) else (0, 0)) = P
            intro h
            split
            · rename_i hpair; rw [if_pos hpair] at h
              cases h1 : PrimeFactors.compute P.1 with
              | error e => rw [h1] at h; cases h
              | ok fl =>
                cases h2 : PrimeFactors.compute P.2 with
                | error e => rw [h1, h2] at h; cases h
                | ok fr => rw [h1, h2] at h; exact ih3 _ _ _ h
            · rename_i hpair; rw [if_neg hpair] at h
              cases hpart : f.partition with
              | error e => rw [hpart] at h; cases h
              | ok lr => rw [hpart] at h; exact ih3 _ _ _ h
    · intro l rf r h
      rw [sseMixedRadix] at h ⊢
      cases h1 : sseWithFactors F l.product l with
      | error e => rw [h1] at h; cases h
      | ok a =>
        cases h2 : sseWithFactors F rf.product rf with
        | error e => rw [h1, h2] at h; cases h
        | ok b => rw [h1, h2] at h; rw [ih2 _ _ _ h1, ih2 _ _ _ h2]; exact h
    · intro f r h
      rw [sseRadix4_eq] at h ⊢
      split
      · rename_i hc; rw [if_pos hc] at h; exact h
      · rename_i hc; rw [if_neg hc] at h
        unfold sseRadix4Tail at h ⊢
        simp only at h ⊢
        split
        · rename_i hc; rw [if_pos hc] at h; exact h
        · rename_i hc; rw [if_neg hc] at h
          split
          · rename_i hc; rw [if_pos hc] at h; exact h
          · rename_i hc; rw [if_neg hc] at h
            cases h1 : sseForLen F (sseRadix4Base f.p2 f.p3) with
            | error e => rw [h1] at h; cases h
            | ok base => rw [h1] at h; rw [ih1 _ _ h1]; exact h
    · intro n r h
      rw [ssePrime] at h ⊢
      cases hcmp : PrimeFactors.compute (n - 1) with
      | error e => rw [hcmp] at h; cases h
      | ok rf =>
        rw [hcmp] at h
        simp only at h ⊢
        split
        · rename_i hc; rw [if_pos hc] at h
          cases h1 : sseForLen F (bluesteinInnerLen n) with
          | error e => rw [h1] at h; cases h
          | ok inner => rw [h1] at h; rw [ih1 _ _ h1]; exact h
        · rename_i hc; rw [if_neg hc] at h
          cases h1 : sseWithFactors F (n - 1) rf with
          | error e => rw [h1] at h; cases h
          | ok inner => rw [h1] at h; rw [ih2 _ _ _ h1]; exact h

theorem sseForLen_mono {F F' n : Nat} {r : Recipe} (hle : F ≤ F') (h : sseForLen F n = .ok r) :
    sseForLen F' n = .ok r := by
  induction hle with
  | refl => exact h
  | step _ ih => exact (sse_mono _).1 _ _ ih


end RFV
