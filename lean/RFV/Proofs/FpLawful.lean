/-
The executable instance `gpCtx p N ω` over `Gp p = GF(p)[i]` (`RFV.Model.FpFin`) satisfies the hypotheses of the algebra
theorems: `Gp p` is a commutative ring whose `Add`/`Mul`/`Zero` are definitionally the executable ones, and
`gpCtx p N ω inverse` is a lawful twiddle system on the divisors of `N` (`p` prime, `4 ∣ N ∣ p - 1`, `ω` of order `N`).
Hence `Recipe.sem (gpCtx …)` — the function the driver runs — computes the DFT over `GF(p)[i]` for every good recipe.

Method: `GF(p)[i]` has zero divisors (`p ≡ 1 mod 4`), so the twiddle laws are checked in the field `ZMod p` through the two
evaluations `i ↦ ±j`, `j = ω^(N/4)` (`phi`, jointly injective because `2j` is a unit), under which the forward twiddle
`tw i n` becomes `(ζ⁻ⁱ, ζⁱ)`, `ζ = ω^(N/n)` (`phi_tw`); orthogonality is the vanishing geometric sum of a non-trivial root
of unity in a field.  The inverse direction is `cinv` of the forward one, definitionally.
-/
import Mathlib.Data.ZMod.Basic
import Mathlib.Tactic.Ring
import Mathlib.Algebra.Ring.GeomSum
import Mathlib.Tactic.LinearCombination
import Mathlib.FieldTheory.Finite.Basic
import RFV.Model.FpFin
import RFV.Proofs.Algebra.Inverse
import RFV.Props.C01

namespace RFV
open Fin.CommRing

namespace Gp
variable {p : Nat}

@[ext] theorem ext' {a b : Gp p} (h1 : a.re = b.re) (h2 : a.im = b.im) : a = b := by
  cases a; cases b; simp_all

@[simp] theorem add_re (a b : Gp p) : (a + b).re = a.re + b.re := rfl
@[simp] theorem add_im (a b : Gp p) : (a + b).im = a.im + b.im := rfl
@[simp] theorem mul_re (a b : Gp p) : (a * b).re = a.re * b.re - a.im * b.im := rfl
@[simp] theorem mul_im (a b : Gp p) : (a * b).im = a.re * b.im + a.im * b.re := rfl
@[simp] theorem neg_re (a : Gp p) : (-a).re = -a.re := rfl
@[simp] theorem neg_im (a : Gp p) : (-a).im = -a.im := rfl
@[simp] theorem sub_re (a b : Gp p) : (a - b).re = a.re - b.re := rfl
@[simp] theorem sub_im (a b : Gp p) : (a - b).im = a.im - b.im := rfl
@[simp] theorem zero_re [NeZero p] : (0 : Gp p).re = 0 := rfl
@[simp] theorem zero_im [NeZero p] : (0 : Gp p).im = 0 := rfl
@[simp] theorem one_re [NeZero p] : (1 : Gp p).re = 1 := rfl
@[simp] theorem one_im [NeZero p] : (1 : Gp p).im = 0 := rfl

instance [NeZero p] : NatCast (Gp p) := ⟨Gp.ofNat⟩
instance [NeZero p] : IntCast (Gp p) := ⟨fun z => ⟨(z : Fin p), 0⟩⟩
@[simp] theorem natCast_re [NeZero p] (n : Nat) : (n : Gp p).re = (n : Fin p) := rfl
@[simp] theorem natCast_im [NeZero p] (n : Nat) : (n : Gp p).im = 0 := rfl
@[simp] theorem intCast_re [NeZero p] (n : Int) : (n : Gp p).re = (n : Fin p) := rfl
@[simp] theorem intCast_im [NeZero p] (n : Int) : (n : Gp p).im = 0 := rfl

instance instCommRing [NeZero p] : CommRing (Gp p) where
  add := Add.add
  mul := Mul.mul
  zero := 0
  one := 1
  neg := Neg.neg
  sub := Sub.sub
  nsmul := nsmulRec
  zsmul := zsmulRec
  natCast n := (n : Gp p)
  intCast z := (z : Gp p)
  add_assoc a b c := by refine Gp.ext' ?_ ?_ <;> simp <;> ring
  zero_add a := by refine Gp.ext' ?_ ?_ <;> simp
  add_zero a := by refine Gp.ext' ?_ ?_ <;> simp
  add_comm a b := by refine Gp.ext' ?_ ?_ <;> simp <;> ring
  mul_assoc a b c := by refine Gp.ext' ?_ ?_ <;> simp <;> ring
  one_mul a := by refine Gp.ext' ?_ ?_ <;> simp
  mul_one a := by refine Gp.ext' ?_ ?_ <;> simp
  left_distrib a b c := by refine Gp.ext' ?_ ?_ <;> simp <;> ring
  right_distrib a b c := by refine Gp.ext' ?_ ?_ <;> simp <;> ring
  mul_comm a b := by refine Gp.ext' ?_ ?_ <;> simp <;> ring
  zero_mul a := by refine Gp.ext' ?_ ?_ <;> simp
  mul_zero a := by refine Gp.ext' ?_ ?_ <;> simp
  neg_add_cancel a := by refine Gp.ext' ?_ ?_ <;> simp
  sub_eq_add_neg a b := by refine Gp.ext' ?_ ?_ <;> simp <;> ring
  natCast_zero := by refine Gp.ext' ?_ ?_ <;> simp
  natCast_succ n := by refine Gp.ext' ?_ ?_ <;> simp
  intCast_ofNat n := by refine Gp.ext' ?_ ?_ <;> simp
  intCast_negSucc n := by refine Gp.ext' ?_ ?_ <;> simp

end Gp

section
variable {p : Nat} [NeZero p]

example : (Gp.instCommRing.toAdd : Add (Gp p)) = Gp.instAdd := rfl
example : (inferInstance : Mul (Gp p)) = Gp.instMul := rfl
example : ((Gp.instCommRing (p := p)).toZero : Zero (Gp p)) = Gp.instZero := rfl

/-- `Fin p → ZMod p` -/
def rho : Fin p →+* ZMod p := (ZMod.finEquiv p : Fin p ≃+* ZMod p)

theorem rho_injective : Function.Injective (rho (p := p)) := (ZMod.finEquiv p).injective

theorem rho_ofNat (k : Nat) : rho (Fin.ofNat p k) = (k : ZMod p) := by
  have : Fin.ofNat p k = ((k : ℕ) : Fin p) := rfl
  rw [this, map_natCast]

/-- evaluation `i ↦ j` for a square root `j` of `-1` -/
def phi (j : ZMod p) (hj : j * j = -1) : Gp p →+* ZMod p where
  toFun a := rho a.re + j * rho a.im
  map_one' := by simp
  map_zero' := by simp
  map_add' a b := by simp; ring
  map_mul' a b := by
    simp only [Gp.mul_re, Gp.mul_im, map_sub, map_add, map_mul]
    linear_combination (-(rho a.im * rho b.im)) * hj

theorem phi_apply (j : ZMod p) (hj : j * j = -1) (a : Gp p) : phi j hj a = rho a.re + j * rho a.im := rfl

theorem phi_pair_injective [Fact p.Prime] (j : ZMod p) (hj : j * j = -1) (h2 : (2 : ZMod p) ≠ 0) (a b : Gp p)
    (h1 : phi j hj a = phi j hj b) (h3 : phi (-j) (by rw [neg_mul_neg, hj]) a = phi (-j) (by rw [neg_mul_neg, hj]) b) :
    a = b := by
  rw [phi_apply] at h1 h3
  rw [phi_apply] at h1 h3
  have hj0 : j ≠ 0 := by rintro rfl; simp at hj
  refine Gp.ext' (rho_injective ?_) (rho_injective ?_)
  · have : (2 : ZMod p) * (rho a.re - rho b.re) = 0 := by linear_combination h1 + h3
    rcases mul_eq_zero.mp this with h | h
    · exact absurd h h2
    · exact sub_eq_zero.mp h
  · have : (2 * j) * (rho a.im - rho b.im) = 0 := by linear_combination h1 - h3
    rcases mul_eq_zero.mp this with h | h
    · exact absurd h (mul_ne_zero h2 hj0)
    · exact sub_eq_zero.mp h
end

/-! ### the field facts -/
section field
variable {p N ω : ℕ} [hp : Fact p.Prime]

theorem two_ne_zero_of_odd (h3 : 3 ≤ p) : (2 : ZMod p) ≠ 0 := by
  intro h
  have : ((2 : ℕ) : ZMod p) = 0 := by exact_mod_cast h
  rw [ZMod.natCast_eq_zero_iff] at this
  have := Nat.le_of_dvd (by norm_num) this
  omega

theorem two_mul_half (h3 : 3 ≤ p) : (2 : ZMod p) * 2 ^ (p - 2) = 1 := by
  rw [← pow_succ', show p - 2 + 1 = p - 1 by omega]
  exact ZMod.pow_card_sub_one_eq_one (two_ne_zero_of_odd h3)

theorem pow_half_order (h4 : 4 ∣ N) (hN : 0 < N) (hω : orderOf (ω : ZMod p) = N) :
    (ω : ZMod p) ^ (N / 4) * (ω : ZMod p) ^ (N / 4) = -1 := by
  obtain ⟨q, rfl⟩ := h4
  have hq : 0 < q := by omega
  rw [Nat.mul_div_cancel_left _ (by norm_num : 0 < 4), ← pow_add]
  have h1 : ((ω : ZMod p) ^ (q + q)) * ((ω : ZMod p) ^ (q + q)) = 1 := by
    rw [← pow_add, show q + q + (q + q) = 4 * q by ring, ← hω, pow_orderOf_eq_one]
  rcases mul_self_eq_one_iff.mp h1 with h | h
  · exact absurd h (pow_ne_one_of_lt_orderOf (by omega) (by rw [hω]; omega))
  · exact h

theorem cosE_cast (h3 : 3 ≤ p) (hN : 0 < N) (hω : orderOf (ω : ZMod p) = N) (a : ℕ) :
    ((cosE p N ω a : ℕ) : ZMod p) = ((ω : ZMod p) ^ a + ((ω : ZMod p)⁻¹) ^ a) * 2 ^ (p - 2) := by
  have hp1 : p ≠ 1 := by omega
  unfold cosE
  simp only []
  rw [modPow_eq _ _ _ (Or.inl hp1), modPow_eq _ _ _ (Or.inl hp1), modPow_eq _ _ _ (Or.inl hp1)]
  simp only [ZMod.natCast_mod, Nat.cast_mul, Nat.cast_add, Nat.cast_pow, Nat.cast_ofNat]
  have e1 : (ω : ZMod p) ^ (a % N) = (ω : ZMod p) ^ a := by rw [← hω, pow_mod_orderOf]
  have e2 : (ω : ZMod p) ^ (N - a % N) = ((ω : ZMod p)⁻¹) ^ a := by
    rw [inv_pow]
    apply eq_inv_of_mul_eq_one_left
    rw [← e1, ← pow_add, Nat.sub_add_cancel (Nat.mod_lt _ hN).le, ← hω, pow_orderOf_eq_one]
  rw [e1, e2]

theorem gp_tw_false (i n : ℕ) : (gpCtx p N ω false).tw i n
    = ⟨Fin.ofNat p (cosE p N ω (i * (N / n) % N)), Fin.ofNat p (cosE p N ω (i * (N / n) % N + N / 4))⟩ := rfl

theorem gp_true_eq_cinv : gpCtx p N ω true = cinv (gpCtx p N ω false) := rfl

/-- under `i ↦ ±j`, `j = ω^(N/4)`, the forward twiddle `tw i n` becomes `ζ^∓i`, `ζ = ω^(N/n)` -/
theorem phi_tw (h3 : 3 ≤ p) (hN : 0 < N) (hω : orderOf (ω : ZMod p) = N) (J : ZMod p) (hJ : J * J = -1)
    (hJdef : J = (ω : ZMod p) ^ (N / 4)) (i n : ℕ) :
    phi J hJ ((gpCtx p N ω false).tw i n) = ((ω : ZMod p)⁻¹) ^ (i * (N / n)) ∧
    phi (-J) (by rw [neg_mul_neg, hJ]) ((gpCtx p N ω false).tw i n) = (ω : ZMod p) ^ (i * (N / n)) := by
  rw [gp_tw_false, phi_apply, phi_apply]
  simp only [rho_ofNat, cosE_cast h3 hN hω]
  have e1 : (ω : ZMod p) ^ (i * (N / n) % N) = (ω : ZMod p) ^ (i * (N / n)) := by rw [← hω, pow_mod_orderOf]
  have hJi : ((ω : ZMod p)⁻¹) ^ (N / 4) = -J := by
    rw [inv_pow, ← hJdef]
    symm
    apply eq_inv_of_mul_eq_one_left
    rw [neg_mul, hJ, neg_neg]
  have h2 := two_mul_half h3
  rw [pow_add, pow_add, hJi, ← hJdef, inv_pow, e1, ← inv_pow]
  generalize (ω : ZMod p) ^ (i * (N / n)) = W
  generalize ((ω : ZMod p)⁻¹) ^ (i * (N / n)) = Wi
  generalize (2 : ZMod p) ^ (p - 2) = h at h2
  constructor
  · linear_combination ((W - Wi) * h) * hJ + Wi * h2
  · linear_combination (-(W - Wi) * h) * hJ + W * h2

theorem phi_conj {p : ℕ} [NeZero p] (J : ZMod p) (hJ : J * J = -1) (a : Gp p) :
    phi J hJ (Gp.conj a) = phi (-J) (by rw [neg_mul_neg, hJ]) a := by
  rw [phi_apply, phi_apply]
  simp only [Gp.conj, map_neg]
  ring

/-- geometric sums of a non-trivial root of unity vanish in the field `ZMod p` -/
theorem geom_zero (v : ZMod p) (n j : ℕ) (hnN : n ∣ N) (hvN : v ^ N = 1) (hne : v ^ (j * (N / n)) ≠ 1) :
    ∑ k ∈ Finset.range n, v ^ (j * k * (N / n)) = 0 := by
  have e : ∀ k ∈ Finset.range n, v ^ (j * k * (N / n)) = (v ^ (j * (N / n))) ^ k := by
    intro k _
    rw [← pow_mul]; congr 1; ring
  rw [Finset.sum_congr rfl e]
  have h := geom_sum_mul (v ^ (j * (N / n))) n
  have h1 : (v ^ (j * (N / n))) ^ n = 1 := by
    rw [← pow_mul, Nat.mul_assoc, Nat.div_mul_cancel hnN, Nat.mul_comm, pow_mul, hvN, one_pow]
  rw [h1, sub_self] at h
  rcases mul_eq_zero.mp h with h | h
  · exact h
  · exact absurd (sub_eq_zero.mp h) hne

theorem scale_exp (m n k : ℕ) (h : m * n ∣ N) (hpos : 0 < m * n) : m * k * (N / (m * n)) = k * (N / n) := by
  obtain ⟨q, rfl⟩ := h
  rw [Nat.mul_div_cancel_left _ hpos]
  have hn : 0 < n := by
    rcases Nat.eq_zero_or_pos n with h0 | h0
    · subst h0; simp at hpos
    · exact h0
  have : m * n * q = n * (m * q) := by ring
  rw [this, Nat.mul_div_cancel_left _ hn]
  ring

/-- the forward direction -/
theorem gpCtx_lawful_fwd (p N ω : ℕ) [Fact p.Prime] (h4 : 4 ∣ N) (hNp : N ∣ p - 1)
    (hω : orderOf (ω : ZMod p) = N) : (gpCtx p N ω false).Lawful (fun n => 0 < n ∧ n ∣ N) := by
  have hp2 := (Fact.out : p.Prime).two_le
  have hN : 0 < N := Nat.pos_of_dvd_of_pos hNp (by omega)
  have hNle : N ≤ p - 1 := Nat.le_of_dvd (by omega) hNp
  have hN4 : 4 ≤ N := Nat.le_of_dvd hN h4
  have h3 : 3 ≤ p := by omega
  have hJ := pow_half_order h4 hN hω
  have htw := phi_tw h3 hN hω _ hJ rfl
  have inj := phi_pair_injective _ hJ (two_ne_zero_of_odd h3)
  have hwN : (ω : ZMod p) ^ N = 1 := by rw [← hω, pow_orderOf_eq_one]
  have hw0 : (ω : ZMod p) ≠ 0 := by
    intro h0; rw [h0, zero_pow (by omega)] at hwN; exact zero_ne_one hwN
  have hwiN : ((ω : ZMod p)⁻¹) ^ N = 1 := by rw [inv_pow, hwN, inv_one]
  refine
    { ok_pos := fun n h => h.1
      ok_dvd := fun n d h hd => ⟨Nat.pos_of_dvd_of_pos hd h.1, hd.trans h.2⟩
      tw_zero := ?_, tw_add := ?_, tw_period := ?_, tw_scale := ?_, tw_orth := ?_
      conj_add := ?_, conj_mul := ?_, conj_conj := ?_, conj_zero := ?_, conj_tw := ?_
      inv_mul := ?_, conj_inv := ?_ }
  · intro n _
    apply inj <;> simp [htw]
  · intro n a b _
    apply inj <;> simp only [map_mul, htw, add_mul, pow_add]
  · rintro n ⟨hn, hnN⟩
    apply inj <;> simp only [map_one, htw, Nat.mul_div_cancel' hnN, hwN, hwiN]
  · rintro m n k ⟨hpos, hd⟩
    apply inj <;> simp only [htw, scale_exp m n k hd hpos]
  · rintro n j ⟨hn, hnN⟩ hj0 hjn
    have hlt : j * (N / n) < N := by
      calc j * (N / n) < n * (N / n) := Nat.mul_lt_mul_of_pos_right hjn (Nat.div_pos (Nat.le_of_dvd hN hnN) hn)
        _ = N := Nat.mul_div_cancel' hnN
    have hpos : 0 < j * (N / n) := Nat.mul_pos hj0 (Nat.div_pos (Nat.le_of_dvd hN hnN) hn)
    have hne : (ω : ZMod p) ^ (j * (N / n)) ≠ 1 := pow_ne_one_of_lt_orderOf (by omega) (by rw [hω]; exact hlt)
    have hne' : ((ω : ZMod p)⁻¹) ^ (j * (N / n)) ≠ 1 := by
      rw [inv_pow]; intro h; exact hne (inv_eq_one.mp h)
    apply inj
    · simp only [map_sum, map_zero, htw]
      exact geom_zero _ n j hnN hwiN hne'
    · simp only [map_sum, map_zero, htw]
      exact geom_zero _ n j hnN hwN hne
  · intro a b
    refine Gp.ext' ?_ ?_
    · simp [gpCtx, Gp.conj]
    · simp [gpCtx, Gp.conj]; ring
  · intro a b
    refine Gp.ext' ?_ ?_
    · simp [gpCtx, Gp.conj]
    · simp [gpCtx, Gp.conj]; ring
  · intro a
    refine Gp.ext' ?_ ?_ <;> simp [gpCtx, Gp.conj]
  · refine Gp.ext' ?_ ?_ <;> simp [gpCtx, Gp.conj]
  · rintro n k _
    have hc : (gpCtx p N ω false).conj = Gp.conj := rfl
    have hone : (ω : ZMod p) ^ (k * (N / n)) * ((ω : ZMod p)⁻¹) ^ (k * (N / n)) = 1 := by
      rw [← mul_pow, mul_inv_cancel₀ hw0, one_pow]
    apply inj
    · rw [map_mul, hc, phi_conj, (htw k n).1, (htw k n).2, map_one, hone]
    · rw [map_mul, hc, phi_conj]
      simp only [neg_neg]
      rw [(htw k n).1, (htw k n).2, map_one, mul_comm, hone]
  · rintro m ⟨hm, hmN⟩
    have hmle : m ≤ N := Nat.le_of_dvd hN hmN
    have hm0 : (m : ZMod p) ≠ 0 := by
      rw [Ne, ZMod.natCast_eq_zero_iff]
      intro hd
      have := Nat.le_of_dvd hm hd
      omega
    have hinv : ∀ (J : ZMod p) (hJ' : J * J = -1), phi J hJ' ((gpCtx p N ω false).inv m * (m : Gp p)) = 1 := by
      intro J hJ'
      rw [map_mul, map_natCast, phi_apply]
      show (rho (Fin.ofNat p (modPow (m % p) (p - 2) p)) + J * rho 0) * (m : ZMod p) = 1
      rw [rho_ofNat, map_zero, mul_zero, add_zero, modPow_eq _ _ _ (Or.inl (by omega))]
      simp only [ZMod.natCast_mod, Nat.cast_pow]
      rw [← pow_succ, show p - 2 + 1 = p - 1 by omega]
      exact ZMod.pow_card_sub_one_eq_one hm0
    apply inj <;> rw [hinv, map_one]
  · intro m _
    refine Gp.ext' ?_ ?_ <;> simp [gpCtx, Gp.conj]

/-- THE THEOREM: the executable instance is a lawful twiddle system on the divisors of `N`.
(`4 ∣ N` suffices; `N ∣ p - 1` and `4 ∣ N` force `p ≥ 5`, so `2` is invertible.) -/
theorem gpCtx_lawful' (p N ω : ℕ) [Fact p.Prime] (h4 : 4 ∣ N) (hNp : N ∣ p - 1)
    (hω : orderOf (ω : ZMod p) = N) (inverse : Bool) :
    (gpCtx p N ω inverse).Lawful (fun n => 0 < n ∧ n ∣ N) := by
  cases inverse
  · exact gpCtx_lawful_fwd p N ω h4 hNp hω
  · rw [gp_true_eq_cinv]
    exact cinv_lawful (gpCtx_lawful_fwd p N ω h4 hNp hω)

theorem gpCtx_lawful (p N ω : ℕ) [Fact p.Prime] (hN8 : 8 ∣ N) (hNp : N ∣ p - 1)
    (hω : orderOf (ω : ZMod p) = N) (inverse : Bool) :
    (gpCtx p N ω inverse).Lawful (fun n => 0 < n ∧ n ∣ N) :=
  gpCtx_lawful' p N ω (Dvd.dvd.trans (by norm_num) hN8) hNp hω inverse

/-- every recipe whose lengths divide `N`, run at the executable instance, computes the DFT of its length -/
theorem gp_sem_is_dft (p N ω : ℕ) [Fact p.Prime] (hN8 : 8 ∣ N) (hNp : N ∣ p - 1)
    (hω : orderOf (ω : ZMod p) = N) (inverse : Bool) (r : Recipe) (h : r.Good (fun n => 0 < n ∧ n ∣ N)) :
    IsDft (gpCtx p N ω inverse) r.len (r.sem (gpCtx p N ω inverse)) :=
  Recipe.sem_isDft _ _ (gpCtx_lawful p N ω hN8 hNp hω inverse) r h

/-- the `Add`/`Mul`/`Zero` of the ring structure are the executable ones, so the `Recipe.sem` of the theorems is the
function the driver runs -/
theorem sem_exec_eq (c : Ctx (Gp p)) (r : Recipe) :
    @Recipe.sem (Gp p) Gp.instAdd Gp.instMul Gp.instZero c r = r.sem c := rfl

theorem semDft_exec_eq (c : Ctx (Gp p)) (n : ℕ) :
    @semDft (Gp p) Gp.instAdd Gp.instMul Gp.instZero c n = semDft c n := rfl

/-- the same statement with the executable instances spelled out -/
theorem gp_sem_exec (p N ω : ℕ) [Fact p.Prime] (hN8 : 8 ∣ N) (hNp : N ∣ p - 1)
    (hω : orderOf (ω : ZMod p) = N) (inverse : Bool) (r : Recipe) (h : r.Good (fun n => 0 < n ∧ n ∣ N))
    (x : Array (Gp p)) (hx : x.size = r.len) :
    @Recipe.sem (Gp p) Gp.instAdd Gp.instMul Gp.instZero (gpCtx p N ω inverse) r x
      = @semDft (Gp p) Gp.instAdd Gp.instMul Gp.instZero (gpCtx p N ω inverse) r.len x :=
  gp_sem_is_dft p N ω hN8 hNp hω inverse r h x hx

theorem mapChunks_congr_size {K : Type} [Zero K] (n : ℕ) (f g : Array K → Array K)
    (h : ∀ y : Array K, y.size = n → f y = g y) (x : Array K) : mapChunks n f x = mapChunks n g x := by
  unfold mapChunks
  split
  · rfl
  · have : (Array.ofFn (n := x.size / n) fun c => f (x.extract (c.val * n) (c.val * n + n)))
        = Array.ofFn (n := x.size / n) fun c => g (x.extract (c.val * n) (c.val * n + n)) := by
      congr 1
      funext c
      apply h
      have h1 : (c.val + 1) * n ≤ x.size / n * n := Nat.mul_le_mul_right n c.isLt
      have h2 : x.size / n * n ≤ x.size := Nat.div_mul_le_self _ _
      rw [Array.size_extract]
      rw [Nat.add_mul, Nat.one_mul] at h1
      omega
    simp only [this]

/-- what the driver prints: on every chunk, the naive DFT over `GF(p)[i]` -/
theorem runGp_eq_dft (p N ω : ℕ) [Fact p.Prime] (hN8 : 8 ∣ N) (hNp : N ∣ p - 1)
    (hω : orderOf (ω : ZMod p) = N) (inverse : Bool) (r : Recipe) (h : r.Good (fun n => 0 < n ∧ n ∣ N))
    (vals : List ℕ) :
    runGp p N ω inverse r vals
      = (mapChunks r.len (semDft (gpCtx p N ω inverse) r.len) (runGp.pairs p vals).toArray).toList.flatMap
          (fun v => [v.re.val, v.im.val]) := by
  unfold runGp
  simp only []
  exact congrArg (fun y : Array (Gp p) => y.toList.flatMap (fun v => [v.re.val, v.im.val]))
    (mapChunks_congr_size r.len _ _ (gp_sem_is_dft p N ω hN8 hNp hω inverse r h) _)

end field
end RFV
