/-
Number-theoretic correctness of the `math_utils.rs` transcription used by Rader's algorithm:

* `modPow_eq'`               : `modular_exponent` is `b ^ e % m`               (from `Algebra/Inverse.lean`)
* `distinctPrimeFactors_spec`: `distinct_prime_factors n` is exactly the set of prime divisors of `n`
* `isPrimeNat_iff`           : the trial-division specification of `miller_rabin` is `Nat.Prime`
* `primitiveRoot_spec`       : for a prime `p ≥ 3`, `primitive_root p` returns the least generator of `(ZMod p)ˣ`
* `primitiveRoot_two`        : `primitive_root 2 = Some(1)` (repaired code; the search itself starts at 2 and
                               would miss the only generator 1 of `(ZMod 2)ˣ`, see `primitiveRootSearch_two`)
* `primitiveRoot_spec_prime` : the same for every prime (`2 ≤ g` only under `3 ≤ p`)
-/
import Mathlib.Data.Nat.Prime.Basic
import Mathlib.Data.Nat.Sqrt
import Mathlib.Data.ZMod.Basic
import Mathlib.GroupTheory.OrderOfElement
import Mathlib.GroupTheory.SpecificGroups.Cyclic
import Mathlib.FieldTheory.Finite.Basic
import Mathlib.RingTheory.IntegralDomain
import Mathlib.Tactic.Ring
import Mathlib.Tactic.Linarith
import RFV.Model.Arith
import RFV.Model.Avx
import RFV.Proofs.ArithLemmas
import RFV.Proofs.Algebra.Inverse

namespace RFV

/-! ### (1) `modPow` -/

/-- `modular_exponent(b, e, m) = b ^ e % m` for every modulus `m > 1`
(corollary of `modPow_eq` in `Algebra/Inverse.lean`, which also covers `m = 0` and `m = 1 ∧ e > 0`). -/
theorem modPow_eq' (b e m : Nat) (hm : 1 < m) : modPow b e m = b ^ e % m :=
  modPow_eq b e m (Or.inl (by omega))

/-! ### (2) `distinct_prime_factors` -/

/-- a prime dividing `m * d ^ k` with `d` prime is `d` or divides `m` -/
theorem prime_dvd_mul_pow {q m d k : Nat} (hq : Nat.Prime q) (hd : Nat.Prime d) (h : q ∣ m * d ^ k) :
    q = d ∨ q ∣ m := by
  rcases (Nat.Prime.dvd_mul hq).1 h with h | h
  · exact Or.inr h
  · exact Or.inl ((Nat.prime_dvd_prime_iff_eq hq hd).1 (hq.dvd_of_dvd_pow h))

/-- next odd candidate: a prime `≥ dv` (odd `dv`) different from `dv` is `≥ dv + 2` -/
theorem next_odd_le {dv p : Nat} (h3 : 3 ≤ dv) (hodd : dv % 2 = 1) (pp : Nat.Prime p) (h1 : dv ≤ p)
    (h2 : p ≠ dv) : dv + 2 ≤ p := by
  have h3' : p ≠ dv + 1 := by
    rintro rfl
    rcases Nat.Prime.eq_two_or_odd pp with h | h <;> omega
  omega

/-- The odd-divisor loop of `distinct_prime_factors`, started with the limit of the current remainder. -/
theorem distinctLoop_spec : ∀ fuel n dv acc,
    0 < n → 3 ≤ dv → dv % 2 = 1 →
    (∀ p, Nat.Prime p → p ∣ n → dv ≤ p) →
    sqrtLimit n ≤ dv + fuel →
    ∃ n' fs, distinctLoop fuel n dv (sqrtLimit n) acc = (n', acc ++ fs) ∧
      0 < n' ∧ n' ∣ n ∧
      (∀ x ∈ fs, Nat.Prime x ∧ x ∣ n ∧ dv ≤ x ∧ ¬ x ∣ n') ∧
      (∀ q, Nat.Prime q → q ∣ n → q ∈ fs ∨ q ∣ n') ∧
      fs.Pairwise (· < ·) ∧
      (1 < n' → Nat.Prime n' ∧ dv ≤ n' ∧ ∀ x ∈ fs, x < n') := by
  intro fuel
  induction fuel with
  | zero =>
    intro n dv acc hn h3 hodd hp hfuel
    refine ⟨n, [], by simp [distinctLoop], hn, dvd_rfl, by simp, fun q _ h => Or.inr h, by simp, ?_⟩
    intro h1
    have := prime_of_no_small_factor n dv h1 hp ((sqrtLimit_le_iff n dv).1 (by omega))
    exact ⟨this.1, this.2, by simp⟩
  | succ fuel ih =>
    intro n dv acc hn h3 hodd hp hfuel
    rw [distinctLoop]
    by_cases hlt : dv < sqrtLimit n
    · rw [if_pos hlt]
      by_cases hmod : n % dv = 0
      · rw [if_pos hmod]
        obtain ⟨m, k, hm, hnd, hnm⟩ := exists_strip_decomp dv n (by omega) hn
        have hs : strip dv n = (m, k) := by rw [hnm]; exact strip_eq dv (by omega) m k hm hnd
        rw [hs]
        simp only
        have hdvn : dv ∣ n := Nat.dvd_of_mod_eq_zero hmod
        have hdvp : Nat.Prime dv := by
          have hmf : Nat.Prime dv.minFac := Nat.minFac_prime (by omega)
          have h1 : dv ≤ dv.minFac := hp _ hmf (dvd_trans (Nat.minFac_dvd dv) hdvn)
          have h2 : dv.minFac ≤ dv := Nat.minFac_le (by omega)
          have : dv.minFac = dv := by omega
          rw [← this]; exact hmf
        have hmn : m ∣ n := by rw [hnm]; exact Dvd.intro _ rfl
        have hp' : ∀ p, Nat.Prime p → p ∣ m → dv + 2 ≤ p := by
          intro p pp pm
          exact next_odd_le h3 hodd pp (hp p pp (dvd_trans pm hmn)) (by rintro rfl; exact hnd pm)
        have hmle : m ≤ n := Nat.le_of_dvd hn hmn
        have hfuel' : sqrtLimit m ≤ dv + 2 + fuel := by
          have := sqrtLimit_mono hmle; omega
        obtain ⟨n', fs, he, hn', hdvd, hent, hall, hsorted, hfin⟩ :=
          ih m (dv + 2) (acc ++ [dv]) hm (by omega) (by omega) hp' hfuel'
        refine ⟨n', dv :: fs, ?_, hn', dvd_trans hdvd hmn, ?_, ?_, ?_, ?_⟩
        · rw [he]; simp [List.append_assoc]
        · intro x hx
          rcases List.mem_cons.1 hx with rfl | hx
          · exact ⟨hdvp, hdvn, le_refl _, fun h => hnd (dvd_trans h hdvd)⟩
          · have := hent x hx
            exact ⟨this.1, dvd_trans this.2.1 hmn, by omega, this.2.2.2⟩
        · intro q hq hqn
          rw [hnm] at hqn
          rcases prime_dvd_mul_pow hq hdvp hqn with rfl | hqm
          · exact Or.inl (List.mem_cons_self ..)
          · rcases hall q hq hqm with h | h
            · exact Or.inl (List.mem_cons_of_mem _ h)
            · exact Or.inr h
        · refine List.pairwise_cons.2 ⟨?_, hsorted⟩
          intro x hx; have := (hent x hx).2.2.1; omega
        · intro h1
          obtain ⟨q1, q2, q3⟩ := hfin h1
          refine ⟨q1, by omega, ?_⟩
          intro x hx
          rcases List.mem_cons.1 hx with rfl | hx
          · omega
          · exact q3 x hx
      · rw [if_neg hmod]
        have hnd : ¬ dv ∣ n := fun h => hmod (Nat.mod_eq_zero_of_dvd h)
        have hp' : ∀ p, Nat.Prime p → p ∣ n → dv + 2 ≤ p := by
          intro p pp pn
          exact next_odd_le h3 hodd pp (hp p pp pn) (by rintro rfl; exact hnd pn)
        obtain ⟨n', fs, he, hn', hdvd, hent, hall, hsorted, hfin⟩ :=
          ih n (dv + 2) acc hn (by omega) (by omega) hp' (by omega)
        refine ⟨n', fs, he, hn', hdvd, ?_, hall, hsorted, ?_⟩
        · intro x hx; have := hent x hx; exact ⟨this.1, this.2.1, by omega, this.2.2.2⟩
        · intro h1
          obtain ⟨q1, q2, q3⟩ := hfin h1
          exact ⟨q1, by omega, q3⟩
    · rw [if_neg hlt]
      refine ⟨n, [], by simp, hn, dvd_rfl, by simp, fun q _ h => Or.inr h, by simp, ?_⟩
      intro h1
      have := prime_of_no_small_factor n dv h1 hp ((sqrtLimit_le_iff n dv).1 (by omega))
      exact ⟨this.1, this.2, by simp⟩

/-- the part of `distinct_prime_factors` after the factor 2 has been dealt with:
`n` odd, `res` already collected -/
theorem distinctTail_spec (n : Nat) (hn : 0 < n) (hodd : n % 2 = 1) (res : List Nat) :
    ∃ fs, (if n > 1 then
        let (n', res') := distinctLoop n n 3 (sqrtLimit n) res
        if n' > 1 then res' ++ [n'] else res'
      else res) = res ++ fs ∧
      (∀ q, q ∈ fs ↔ (Nat.Prime q ∧ q ∣ n)) ∧ fs.Pairwise (· < ·) := by
  have hp3 : ∀ p, Nat.Prime p → p ∣ n → 3 ≤ p := by
    intro p pp pn
    have := pp.two_le
    have : p ≠ 2 := by
      rintro rfl
      have := Nat.mod_eq_zero_of_dvd pn; omega
    omega
  by_cases hgt : n > 1
  · rw [if_pos hgt]
    have hfuel : sqrtLimit n ≤ 3 + n := by
      unfold sqrtLimit; have := Nat.sqrt_le_self n; omega
    obtain ⟨n', fs, he, hn', hdvd, hent, hall, hsorted, hfin⟩ :=
      distinctLoop_spec n n 3 res hn (by omega) (by omega) hp3 hfuel
    rw [he]
    simp only
    by_cases hgt' : n' > 1
    · rw [if_pos hgt']
      obtain ⟨q1, _, q3⟩ := hfin hgt'
      refine ⟨fs ++ [n'], by simp [List.append_assoc], ?_, ?_⟩
      · intro q
        constructor
        · intro hq
          rcases List.mem_append.1 hq with hq | hq
          · exact ⟨(hent q hq).1, (hent q hq).2.1⟩
          · simp at hq; subst hq; exact ⟨q1, hdvd⟩
        · rintro ⟨hq, hqn⟩
          rcases hall q hq hqn with h | h
          · exact List.mem_append_left _ h
          · have := (Nat.prime_dvd_prime_iff_eq hq q1).1 h
            subst this; simp
      · rw [List.pairwise_append]
        refine ⟨hsorted, by simp, ?_⟩
        intro a ha b hb
        simp at hb; subst hb
        exact q3 a ha
    · rw [if_neg hgt']
      have h1 : n' = 1 := by omega
      subst h1
      refine ⟨fs, rfl, ?_, hsorted⟩
      intro q
      constructor
      · intro hq; exact ⟨(hent q hq).1, (hent q hq).2.1⟩
      · rintro ⟨hq, hqn⟩
        rcases hall q hq hqn with h | h
        · exact h
        · exact absurd (Nat.dvd_one.1 h) hq.one_lt.ne'
  · rw [if_neg hgt]
    have h1 : n = 1 := by omega
    subst h1
    refine ⟨[], by simp, ?_, by simp⟩
    intro q
    simp only [List.not_mem_nil, false_iff, not_and]
    intro hq h
    exact absurd (Nat.dvd_one.1 h) hq.one_lt.ne'

/-- `distinct_prime_factors n` as `res ++ fs`, everything explicit -/
theorem distinctPrimeFactors_spec_aux (n : Nat) (hn : 1 ≤ n) :
    (∀ q, q ∈ distinctPrimeFactors n ↔ (Nat.Prime q ∧ q ∣ n)) ∧
      (distinctPrimeFactors n).Pairwise (· < ·) := by
  unfold distinctPrimeFactors
  by_cases h2 : n % 2 = 0
  · rw [if_pos h2]
    obtain ⟨m, k, hm, hnd, hnm⟩ := exists_strip_decomp 2 n (by omega) (by omega)
    have hs : strip 2 n = (m, k) := by rw [hnm]; exact strip_eq 2 (by omega) m k hm hnd
    rw [hs]
    simp only
    have hmodd : m % 2 = 1 := by
      have : ¬ m % 2 = 0 := fun h => hnd (Nat.dvd_of_mod_eq_zero h)
      omega
    have hmn : m ∣ n := by rw [hnm]; exact Dvd.intro _ rfl
    have h2n : 2 ∣ n := Nat.dvd_of_mod_eq_zero h2
    obtain ⟨fs, he, hmem, hsorted⟩ := distinctTail_spec m hm hmodd [2]
    rw [he]
    refine ⟨?_, ?_⟩
    · intro q
      rw [List.mem_append, hmem]
      constructor
      · rintro (hq | ⟨hq, hqm⟩)
        · simp at hq; subst hq; exact ⟨Nat.prime_two, h2n⟩
        · exact ⟨hq, dvd_trans hqm hmn⟩
      · rintro ⟨hq, hqn⟩
        rw [hnm] at hqn
        rcases prime_dvd_mul_pow hq Nat.prime_two hqn with rfl | hqm
        · exact Or.inl (by simp)
        · exact Or.inr ⟨hq, hqm⟩
    · rw [List.pairwise_append]
      refine ⟨by simp, hsorted, ?_⟩
      intro a ha b hb
      simp at ha; subst ha
      have hb' := (hmem b).1 hb
      have := hb'.1.two_le
      have : b ≠ 2 := by rintro rfl; exact hnd hb'.2
      omega
  · rw [if_neg h2]
    simp only
    obtain ⟨fs, he, hmem, hsorted⟩ := distinctTail_spec n (by omega) (by omega) []
    rw [he]
    simpa using ⟨hmem, hsorted⟩

/-- **`distinct_prime_factors` is exactly the set of prime divisors.** -/
theorem distinctPrimeFactors_spec (n : Nat) (hn : 1 ≤ n) :
    ∀ q, q ∈ distinctPrimeFactors n ↔ (Nat.Prime q ∧ q ∣ n) :=
  (distinctPrimeFactors_spec_aux n hn).1

/-- the result is strictly ascending … -/
theorem distinctPrimeFactors_sorted (n : Nat) (hn : 1 ≤ n) :
    (distinctPrimeFactors n).Pairwise (· < ·) :=
  (distinctPrimeFactors_spec_aux n hn).2

/-- … hence has no duplicates -/
theorem distinctPrimeFactors_nodup (n : Nat) (hn : 1 ≤ n) : (distinctPrimeFactors n).Nodup :=
  (distinctPrimeFactors_sorted n hn).imp (fun h => Nat.ne_of_lt h)

/-! ### (3) `isPrimeNat` -/

theorem isPrimeAux_iff (n : Nat) : ∀ fuel d, n < (d + fuel) * (d + fuel) →
    (isPrimeAux n fuel d = true ↔ ∀ k, d ≤ k → k * k ≤ n → ¬ k ∣ n) := by
  intro fuel
  induction fuel with
  | zero =>
    intro d hlt
    simp only [isPrimeAux, true_iff]
    intro k hk hkk
    have : d * d ≤ k * k := Nat.mul_le_mul hk hk
    simp only [Nat.add_zero] at hlt
    omega
  | succ fuel ih =>
    intro d hlt
    rw [isPrimeAux]
    by_cases h1 : d * d > n
    · rw [if_pos h1]
      simp only [true_iff]
      intro k hk hkk
      have : d * d ≤ k * k := Nat.mul_le_mul hk hk
      omega
    · rw [if_neg h1]
      by_cases h2 : n % d = 0
      · rw [if_pos h2]
        simp only [Bool.false_eq_true, false_iff, not_forall]
        exact ⟨d, le_refl _, by omega, fun h => h (Nat.dvd_of_mod_eq_zero h2)⟩
      · rw [if_neg h2, ih (d + 1) (by rw [show d + 1 + fuel = d + (fuel + 1) by omega]; exact hlt)]
        constructor
        · intro h k hk hkk
          rcases Nat.eq_or_lt_of_le hk with rfl | hk'
          · exact fun h' => h2 (Nat.mod_eq_zero_of_dvd h')
          · exact h k hk' hkk
        · intro h k hk hkk
          exact h k (by omega) hkk

/-- **the trial-division specification of `miller_rabin` is primality.** -/
theorem isPrimeNat_iff (n : Nat) : isPrimeNat n = true ↔ Nat.Prime n := by
  unfold isPrimeNat
  rw [Bool.and_eq_true, decide_eq_true_eq, Nat.prime_def_le_sqrt]
  have hlt : n < (2 + n) * (2 + n) := by nlinarith
  rw [isPrimeAux_iff n n 2 hlt]
  constructor
  · rintro ⟨h2, h⟩
    exact ⟨h2, fun m hm hms => h m hm (Nat.le_sqrt.1 hms)⟩
  · rintro ⟨h2, h⟩
    exact ⟨h2, fun k hk hkk => h k hk (Nat.le_sqrt.2 hkk)⟩

/-! ### (4) `primitive_root` -/

/-- the acceptance test of `primitive_root` for the candidate `g` -/
def rootAccept (p : Nat) (exps : List Nat) (g : Nat) : Bool :=
  exps.all (fun e => modPow g e p ≠ 1)

/-- The linear search returns the least accepted candidate in `[g, p)`, provided there is one within fuel. -/
theorem primitiveRootSearch_spec (p : Nat) (exps : List Nat) : ∀ fuel g,
    (∃ g0, g ≤ g0 ∧ g0 < p ∧ g0 < g + fuel ∧ rootAccept p exps g0 = true) →
    ∃ g', primitiveRootSearch p exps fuel g = some g' ∧ g ≤ g' ∧ g' < p ∧
      rootAccept p exps g' = true ∧ ∀ h, g ≤ h → h < g' → rootAccept p exps h = false := by
  intro fuel
  induction fuel with
  | zero => rintro g ⟨g0, h1, _, h3, _⟩; omega
  | succ fuel ih =>
    rintro g ⟨g0, h1, h2, h3, h4⟩
    rw [primitiveRootSearch, if_pos (by omega)]
    by_cases hacc : rootAccept p exps g = true
    · have hacc' := hacc
      unfold rootAccept at hacc'
      rw [if_pos hacc']
      exact ⟨g, rfl, le_refl _, by omega, hacc, fun h a b => by omega⟩
    · have hacc' := hacc
      unfold rootAccept at hacc'
      rw [if_neg hacc']
      have hne : g0 ≠ g := by rintro rfl; exact hacc h4
      obtain ⟨g', e1, e2, e3, e4, e5⟩ := ih (g + 1) ⟨g0, by omega, h2, by omega, h4⟩
      refine ⟨g', e1, by omega, e3, e4, ?_⟩
      intro h hh1 hh2
      rcases Nat.eq_or_lt_of_le hh1 with rfl | hlt
      · simpa using hacc
      · exact e5 h hlt hh2

/-- the search never returns anything that is not an accepted candidate in `[g, p)` -/
theorem primitiveRootSearch_sound (p : Nat) (exps : List Nat) : ∀ fuel g g',
    primitiveRootSearch p exps fuel g = some g' → g ≤ g' ∧ g' < p ∧ rootAccept p exps g' = true := by
  intro fuel
  induction fuel with
  | zero => intro g g' h; simp [primitiveRootSearch] at h
  | succ fuel ih =>
    intro g g' h
    rw [primitiveRootSearch] at h
    by_cases hlt : g < p
    · rw [if_pos hlt] at h
      by_cases hacc : (exps.all (fun e => modPow g e p ≠ 1)) = true
      · rw [if_pos hacc] at h
        simp only [Option.some.injEq] at h
        subst h
        exact ⟨le_refl _, hlt, hacc⟩
      · rw [if_neg hacc] at h
        have := ih (g + 1) g' h
        exact ⟨by omega, this.2⟩
    · rw [if_neg hlt] at h; simp at h

/-- `g ^ e % p = 1` in `Nat` iff `(g : ZMod p) ^ e = 1` -/
theorem pow_mod_eq_one_iff (p g e : Nat) (hp : 1 < p) : g ^ e % p = 1 ↔ ((g : ZMod p) ^ e = 1) := by
  have h := ZMod.natCast_eq_natCast_iff' (g ^ e) 1 p
  rw [Nat.mod_eq_of_lt hp] at h
  rw [← h]; push_cast; rfl

/-- **the acceptance test characterises the generators**: for a prime `p` and `p ∤ g`, the candidate `g`
passes `g^((p-1)/q) ≠ 1 (mod p)` for all `q ∈ distinct_prime_factors(p-1)` iff `g` has order `p - 1`. -/
theorem rootAccept_iff (p : Nat) (hp : Nat.Prime p) (g : Nat) (hg : (g : ZMod p) ≠ 0) :
    rootAccept p ((distinctPrimeFactors (p - 1)).map (fun q => (p - 1) / q)) g = true ↔
      orderOf (g : ZMod p) = p - 1 := by
  have : Fact p.Prime := ⟨hp⟩
  have hp1 : 1 < p := hp.one_lt
  have hpos : 0 < p - 1 := by omega
  have hfermat : (g : ZMod p) ^ (p - 1) = 1 := ZMod.pow_card_sub_one_eq_one hg
  unfold rootAccept
  rw [List.all_eq_true]
  constructor
  · intro h
    apply orderOf_eq_of_pow_and_pow_div_prime hpos hfermat
    intro q hq hqd
    have hmem : (p - 1) / q ∈ (distinctPrimeFactors (p - 1)).map (fun q => (p - 1) / q) :=
      List.mem_map.2 ⟨q, (distinctPrimeFactors_spec (p - 1) hpos q).2 ⟨hq, hqd⟩, rfl⟩
    have := h _ hmem
    rw [decide_eq_true_eq, modPow_eq' _ _ _ hp1, Ne, pow_mod_eq_one_iff p g _ hp1] at this
    exact this
  · intro hord e he
    obtain ⟨q, hq, rfl⟩ := List.mem_map.1 he
    obtain ⟨hqp, hqd⟩ := (distinctPrimeFactors_spec (p - 1) hpos q).1 hq
    rw [decide_eq_true_eq, modPow_eq' _ _ _ hp1, Ne, pow_mod_eq_one_iff p g _ hp1]
    intro h1
    have hdvd := orderOf_dvd_of_pow_eq_one h1
    rw [hord] at hdvd
    have hle := Nat.le_of_dvd (Nat.div_pos (Nat.le_of_dvd hpos hqd) hqp.pos) hdvd
    have hlt : (p - 1) / q < p - 1 := Nat.div_lt_self hpos hqp.one_lt
    omega

/-- a generator of `(ZMod p)ˣ` exists in `[2, p)` for a prime `p ≥ 3` -/
theorem exists_generator (p : Nat) (hp : Nat.Prime p) (h3 : 3 ≤ p) :
    ∃ g0, 2 ≤ g0 ∧ g0 < p ∧ orderOf (g0 : ZMod p) = p - 1 := by
  have : Fact p.Prime := ⟨hp⟩
  obtain ⟨u, hu⟩ := IsCyclic.exists_generator (α := (ZMod p)ˣ)
  have hord : orderOf u = p - 1 := by
    rw [orderOf_eq_card_of_forall_mem_zpowers hu, Nat.card_eq_fintype_card, ZMod.card_units]
  have hord' : orderOf ((u : ZMod p)) = p - 1 := by rw [orderOf_units, hord]
  have hcast : (((u : ZMod p).val : Nat) : ZMod p) = (u : ZMod p) := ZMod.natCast_zmod_val _
  refine ⟨(u : ZMod p).val, ?_, ZMod.val_lt _, by rw [hcast]; exact hord'⟩
  have h0 : (u : ZMod p).val ≠ 0 := by
    intro h
    rw [h, Nat.cast_zero] at hcast
    exact u.ne_zero hcast.symm
  have h1 : (u : ZMod p).val ≠ 1 := by
    intro h
    rw [h, Nat.cast_one] at hcast
    rw [← hcast, orderOf_one] at hord'
    omega
  omega

/-- **Main result (with minimality).** For a prime `p ≥ 3`, `primitive_root(p)` returns the *least*
`g ∈ [2, p)` that generates `(ZMod p)ˣ`. -/
theorem primitiveRoot_spec_min (p : Nat) (hp : Nat.Prime p) (h3 : 3 ≤ p) :
    ∃ g, primitiveRoot p = some g ∧ 2 ≤ g ∧ g < p ∧ orderOf (g : ZMod p) = p - 1 ∧
      ∀ h, 2 ≤ h → h < g → orderOf (h : ZMod p) ≠ p - 1 := by
  have : Fact p.Prime := ⟨hp⟩
  have hne0 : ∀ h, 2 ≤ h → h < p → (h : ZMod p) ≠ 0 := by
    intro h h2 hlt h0
    rw [ZMod.natCast_eq_zero_iff] at h0
    have := Nat.le_of_dvd (by omega) h0
    omega
  obtain ⟨g0, hg2, hglt, hgord⟩ := exists_generator p hp h3
  unfold primitiveRoot
  rw [if_neg (by omega), if_neg (by omega)]
  simp only
  obtain ⟨g, e1, e2, e3, e4, e5⟩ := primitiveRootSearch_spec p
    ((distinctPrimeFactors (p - 1)).map (fun q => (p - 1) / q)) p 2
    ⟨g0, hg2, hglt, by omega, (rootAccept_iff p hp g0 (hne0 g0 hg2 hglt)).2 hgord⟩
  refine ⟨g, e1, e2, e3, (rootAccept_iff p hp g (hne0 g e2 e3)).1 e4, ?_⟩
  intro h h2 hlt hord
  have := e5 h h2 hlt
  rw [(rootAccept_iff p hp h (hne0 h h2 (by omega))).2 hord] at this
  exact absurd this (by simp)

/-- **Main result.** For a prime `p ≥ 3`, `primitive_root(p)` finds a generator of `(ZMod p)ˣ`. -/
theorem primitiveRoot_spec (p : Nat) (hp : Nat.Prime p) (h3 : 3 ≤ p) :
    ∃ g, primitiveRoot p = some g ∧ 2 ≤ g ∧ g < p ∧ orderOf (g : ZMod p) = p - 1 := by
  obtain ⟨g, a, b, c, d, _⟩ := primitiveRoot_spec_min p hp h3
  exact ⟨g, a, b, c, d⟩

/-- The repaired special case: `primitive_root(2) = Some(1)`. -/
theorem primitiveRoot_two : primitiveRoot 2 = some 1 := by decide

/-- For the record, the reason the special case is needed (the defect of the unrepaired code): the search
itself starts at 2 and finds nothing for `p = 2`, the only generator of `(ZMod 2)ˣ` being 1. -/
theorem primitiveRootSearch_two :
    primitiveRootSearch 2 ((distinctPrimeFactors (2 - 1)).map (fun q => (2 - 1) / q)) 2 2 = none := by
  decide

/-- below 2 the function returns `None` by its guard -/
theorem primitiveRoot_lt_two (p : Nat) (h : p < 2) : primitiveRoot p = none := by
  unfold primitiveRoot; rw [if_pos h]

/-- **Main result, every prime.** `primitive_root(p)` finds a generator of `(ZMod p)ˣ`; it is `1` for `p = 2`
and lies in `[2, p)` for `p ≥ 3`. -/
theorem primitiveRoot_spec_prime (p : Nat) (hp : Nat.Prime p) :
    ∃ g, primitiveRoot p = some g ∧ 1 ≤ g ∧ g < p ∧ (3 ≤ p → 2 ≤ g) ∧ orderOf (g : ZMod p) = p - 1 := by
  by_cases h3 : 3 ≤ p
  · obtain ⟨g, a, b, c, d⟩ := primitiveRoot_spec p hp h3
    exact ⟨g, a, by omega, c, fun _ => b, d⟩
  · have : p = 2 := by have := hp.two_le; omega
    subst this
    refine ⟨1, primitiveRoot_two, le_refl _, by omega, fun h => absurd h (by omega), ?_⟩
    rw [Nat.cast_one, orderOf_one]

/-- soundness on the result side: whatever `primitive_root` returns for a prime `p` is a generator
in `[1, p)`, and in `[2, p)` if `p ≥ 3` -/
theorem primitiveRoot_sound (p : Nat) (hp : Nat.Prime p) (g : Nat) (h : primitiveRoot p = some g) :
    1 ≤ g ∧ g < p ∧ (3 ≤ p → 2 ≤ g) ∧ orderOf (g : ZMod p) = p - 1 := by
  obtain ⟨g', a, b, c, d, e⟩ := primitiveRoot_spec_prime p hp
  rw [h] at a
  simp only [Option.some.injEq] at a
  subst a
  exact ⟨b, c, d, e⟩

/-! ### (5) corollaries -/

theorem primitiveRoot_isSome (p : Nat) (hp : Nat.Prime p) : (primitiveRoot p).isSome := by
  obtain ⟨g, hg, _⟩ := primitiveRoot_spec_prime p hp
  rw [hg]; rfl

/-- the modular inverse used by the model (`gi = g^(p-2) mod p`, Fermat): for any `g` not divisible by
the prime `p`, `g * modPow g (p-2) p ≡ 1 (mod p)` -/
theorem mul_modPow_inv (p : Nat) (hp : Nat.Prime p) (g : Nat) (hg : ¬ p ∣ g) :
    g * modPow g (p - 2) p % p = 1 % p := by
  have : Fact p.Prime := ⟨hp⟩
  have hp2 := hp.two_le
  rw [modPow_eq' _ _ _ hp.one_lt, Nat.mul_mod, Nat.mod_mod, ← Nat.mul_mod, ← pow_succ',
    show p - 2 + 1 = p - 1 by omega]
  rw [← ZMod.natCast_eq_natCast_iff']
  push_cast
  exact ZMod.pow_card_sub_one_eq_one (by rwa [Ne, ZMod.natCast_eq_zero_iff])

/-- the inverse of the primitive root as the model computes it (`gi = modPow g (p - 2) p`), every prime -/
theorem primitiveRoot_inverse (p : Nat) (hp : Nat.Prime p) :
    ∃ g, primitiveRoot p = some g ∧ 1 ≤ g ∧ g < p ∧ (3 ≤ p → 2 ≤ g) ∧ orderOf (g : ZMod p) = p - 1 ∧
      g * modPow g (p - 2) p % p = 1 % p ∧ modPow g (p - 2) p < p := by
  obtain ⟨g, a, b, c, d, e⟩ := primitiveRoot_spec_prime p hp
  refine ⟨g, a, b, c, d, e, mul_modPow_inv p hp g ?_, ?_⟩
  · intro hdvd
    have := Nat.le_of_dvd (by omega) hdvd
    omega
  · rw [modPow_eq' _ _ _ hp.one_lt]
    exact Nat.mod_lt _ hp.pos

end RFV
