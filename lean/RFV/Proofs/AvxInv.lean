/-
The invariant of the AVX planner's instance cache that carries (a) the whole-tree `NodesFit` (every inner call of every
node gets the scratch its callee advertises, in bounds — including `RadersAvx2`, whose constructor does not assert the
`inner.inplace ≤ inner.len` it relies on), and (b) the linear scratch bound of C05 for AVX-planned trees.

Key facts: a tree with a Rader/Bluestein node has a length whose `{2,3,5,7,11}`-free part is not a butterfly length
(`hasPrime → ¬ AvxSmoothLen`), while the inner lengths of Rader (`p - 1`, by the planner's own test) and Bluestein
(`2^a·3^b`) are; hence the inner transforms of prime nodes are prime-free mixed-radix chains over butterflies, for which
`inplace ≤ len`, `oop = 0`, `immut ≤ 2·len`.
-/
import RFV.Proofs.TreeFit
import RFV.Proofs.BoundLemmas

namespace RFV

/-- the cofactor `PartialFactors::compute(n).other` -/
def otherOf (n : Nat) : Nat := (PartialFactors.compute n).other

/-- "no Rader / Bluestein step is needed for this length" -/
def AvxSmoothLen (ty : ElemTy) (n : Nat) : Prop := avxIsButterfly ty (otherOf n) = true

theorem otherOf_decomp (o a2 a3 a5 a7 a11 : Nat) (ho : 0 < o)
    (h2 : ¬ 2 ∣ o) (h3 : ¬ 3 ∣ o) (h5 : ¬ 5 ∣ o) (h7 : ¬ 7 ∣ o) (h11 : ¬ 11 ∣ o) :
    otherOf (o * 3 ^ a3 * 5 ^ a5 * 7 ^ a7 * 11 ^ a11 * 2 ^ a2) = o := by
  unfold otherOf
  rw [pf_compute_exps o a2 a3 a5 a7 a11 ho h2 h3 h5 h7 h11]

theorem otherOf_otherOf (n : Nat) (hn : 0 < n) : otherOf (otherOf n) = otherOf n := by
  obtain ⟨o, a2, a3, a5, a7, a11, ho, h2, h3, h5, h7, h11, rfl⟩ := exists_pf_decomp n hn
  rw [otherOf_decomp o a2 a3 a5 a7 a11 ho h2 h3 h5 h7 h11]
  unfold otherOf
  rw [pf_compute_coprime o ho h2 h3 h5 h7 h11]

theorem otherOf_pos (n : Nat) (hn : 0 < n) : 0 < otherOf n := by
  obtain ⟨o, a2, a3, a5, a7, a11, ho, h2, h3, h5, h7, h11, rfl⟩ := exists_pf_decomp n hn
  rw [otherOf_decomp o a2 a3 a5 a7 a11 ho h2 h3 h5 h7 h11]; exact ho

/-- multiplying by one of the AVX radixes does not change the cofactor -/
theorem otherOf_mul_radix (r n : Nat) (hr : r ∈ avxRadixes) (hn : 0 < n) : otherOf (r * n) = otherOf n := by
  obtain ⟨o, a2, a3, a5, a7, a11, ho, h2, h3, h5, h7, h11, rfl⟩ := exists_pf_decomp n hn
  rw [otherOf_decomp o a2 a3 a5 a7 a11 ho h2 h3 h5 h7 h11]
  have key : ∀ b2 b3 b5 b7 b11 : Nat, r = 3 ^ b3 * 5 ^ b5 * 7 ^ b7 * 11 ^ b11 * 2 ^ b2 →
      otherOf (r * (o * 3 ^ a3 * 5 ^ a5 * 7 ^ a7 * 11 ^ a11 * 2 ^ a2)) = o := by
    intro b2 b3 b5 b7 b11 hrr
    have e : r * (o * 3 ^ a3 * 5 ^ a5 * 7 ^ a7 * 11 ^ a11 * 2 ^ a2) =
        o * 3 ^ (a3 + b3) * 5 ^ (a5 + b5) * 7 ^ (a7 + b7) * 11 ^ (a11 + b11) * 2 ^ (a2 + b2) := by
      rw [hrr]; ring
    rw [e]
    exact otherOf_decomp o _ _ _ _ _ ho h2 h3 h5 h7 h11
  simp only [avxRadixes, List.mem_cons, List.mem_nil_iff, or_false] at hr
  rcases hr with rfl | rfl | rfl | rfl | rfl | rfl | rfl | rfl | rfl | rfl | rfl
  · exact key 1 0 0 0 0 (by norm_num)
  · exact key 0 1 0 0 0 (by norm_num)
  · exact key 2 0 0 0 0 (by norm_num)
  · exact key 0 0 1 0 0 (by norm_num)
  · exact key 1 1 0 0 0 (by norm_num)
  · exact key 0 0 0 1 0 (by norm_num)
  · exact key 3 0 0 0 0 (by norm_num)
  · exact key 0 2 0 0 0 (by norm_num)
  · exact key 0 0 0 0 1 (by norm_num)
  · exact key 2 1 0 0 0 (by norm_num)
  · exact key 4 0 0 0 0 (by norm_num)

/-! ### what the planner knows about a Rader / Bluestein base -/

theorem avxBaseOther_prime_facts (ty : ElemTy) (avx2 : Bool) (len other : Nat) (p : AvxPlan) (n : Nat)
    (hp : avxBaseOther ty avx2 len other = .ok p)
    (hb : p.base = .raders n ∨ ∃ m, p.base = .bluesteins n m) :
    n = other ∧ avxIsButterfly ty other = false := by
  unfold avxBaseOther at hp
  split at hp
  · injection hp with hp; subst hp
    rcases hb with hb | ⟨m, hb⟩ <;> simp [AvxPlan.butterfly, AvxPlan.mk'] at hb
  · rename_i hnb
    have hnb' : avxIsButterfly ty other = false := by simpa using hnb
    simp only at hp
    split at hp
    · injection hp with hp; subst hp
      rcases hb with hb | ⟨m, hb⟩
      · simp only [AvxPlan.mk', AvxBase.raders.injEq] at hb
        exact ⟨hb.symm, hnb'⟩
      · simp [AvxPlan.mk'] at hb
    · split at hp
      · injection hp with hp; subst hp
        rcases hb with hb | ⟨m, hb⟩
        · simp [AvxPlan.mk'] at hb
        · simp only [AvxPlan.mk', AvxBase.bluesteins.injEq] at hb
          exact ⟨hb.1.symm, hnb'⟩
      · simp at hp

theorem avxPlanBase_prime_facts (ty : ElemTy) (avx2 : Bool) (len : Nat) (f : PartialFactors) (p : AvxPlan) (n : Nat)
    (hp : avxPlanBase ty avx2 len f = .ok p)
    (hb : p.base = .raders n ∨ ∃ m, p.base = .bluesteins n m) :
    n = f.other ∧ avxIsButterfly ty f.other = false ∧ 1 < f.other := by
  unfold avxPlanBase at hp
  split at hp
  · rename_i h1
    obtain ⟨a, b⟩ := avxBaseOther_prime_facts _ _ _ _ _ _ hp hb
    exact ⟨a, b, h1⟩
  · exfalso
    have nb : ∀ q : AvxPlan, (∃ b, q.base = .bfly b) → q = p → False := by
      intro q ⟨b, hq⟩ hqp
      subst hqp
      rcases hb with hb | ⟨m, hb⟩ <;> rw [hq] at hb <;> cases hb
    split at hp
    · injection hp with hp
      exact nb _ ⟨_, rfl⟩ hp
    · simp only at hp
      split at hp
      · injection hp with hp
        exact nb _ ⟨_, rfl⟩ hp
      · split at hp
        · rename_i q hq
          injection hp with hp
          obtain ⟨b', hb', _⟩ := avxHardcoded_bfly _ _ _ hq
          exact nb q ⟨b', hb'⟩ hp
        · split at hp
          · injection hp with hp
            exact nb _ ⟨_, rfl⟩ hp
          · simp at hp

theorem avxPlanFft_prime_facts (ty : ElemTy) (avx2 : Bool) (cached : Nat → Bool) (len : Nat) (p : AvxPlan) (n : Nat)
    (hp : avxPlanFft ty avx2 cached len = .ok p)
    (hb : p.base = .raders n ∨ ∃ m, p.base = .bluesteins n m) :
    n = otherOf len ∧ avxIsButterfly ty n = false ∧ 1 < n ∧ 10 ≤ len := by
  unfold avxPlanFft at hp
  split at hp
  · injection hp with hp; subst hp
    rcases hb with hb | ⟨m, hb⟩ <;> simp [AvxPlan.cached] at hb
  · split at hp
    · injection hp with hp; subst hp
      rcases hb with hb | ⟨m, hb⟩ <;> simp [AvxPlan.butterfly, AvxPlan.mk'] at hb
    · rename_i h10
      simp only at hp
      cases hbase : avxPlanBase ty avx2 len (PartialFactors.compute len) with
      | error e => simp [hbase] at hp
      | ok base =>
        simp only [hbase] at hp
        split at hp
        · simp at hp
        · rename_i q hq
          injection hp with hp; subst hp
          have hqb : q.base = base.base := by
            split at hq
            · injection hq with hq; subst hq; rfl
            · split at hq
              · simp at hq
              · exact avxPlanMixedRadix_base _ _ _ hq
          rcases avxReplan_base cached q with h1 | ⟨k, h1⟩
          · rw [h1, hqb] at hb
            obtain ⟨a, b, c⟩ := avxPlanBase_prime_facts _ _ _ _ _ _ hbase hb
            refine ⟨a, by rw [a]; exact b, by rw [a]; exact c, by omega⟩
          · rcases hb with hb | ⟨m, hb⟩ <;> rw [h1] at hb <;> cases hb

/-! ### the invariant -/

/-- some node is a Rader / Bluestein step -/
def Recipe.hasPrime : Recipe → Bool
  | .dft _ => false
  | .bfly _ => false
  | .primeBfly _ => false
  | .avxBfly _ => false
  | .mixedRadix l r => l.hasPrime || r.hasPrime
  | .mixedRadixSmall l r => l.hasPrime || r.hasPrime
  | .goodThomas l r => l.hasPrime || r.hasPrime
  | .goodThomasSmall l r => l.hasPrime || r.hasPrime
  | .raders _ => true
  | .bluesteins _ _ => true
  | .radixN _ b => b.hasPrime
  | .radix4 _ b => b.hasPrime
  | .radix3 _ b => b.hasPrime
  | .sseRadix4 _ b => b.hasPrime
  | .avxMixedRadix _ i => i.hasPrime
  | .avxRaders _ => true
  | .avxBluesteins _ _ => true

def Recipe.isPrimeRoot : Recipe → Bool
  | .raders _ => true
  | .bluesteins _ _ => true
  | .avxRaders _ => true
  | .avxBluesteins _ _ => true
  | _ => false

/-- the length of the Rader / Bluestein node at the bottom of an AVX mixed-radix chain (0 if there is none) -/
def Recipe.pb : Recipe → Nat
  | .avxMixedRadix _ i => i.pb
  | .raders i => i.len + 1
  | .avxRaders i => i.len + 1
  | .bluesteins n _ => n
  | .avxBluesteins n _ => n
  | _ => 0

theorem Recipe.pb_of_primeRoot (t : Recipe) (h : t.isPrimeRoot = true) : t.pb = t.len := by
  cases t <;> simp_all [Recipe.isPrimeRoot, Recipe.pb, Recipe.len]

structure SpecBounds (t : Recipe) (s : Spec) : Prop where
  smooth : t.hasPrime = false → s.inplace ≤ s.len ∧ s.oop = 0 ∧ s.immut ≤ 2 * s.len
  root : t.isPrimeRoot = true → s.inplace ≤ 11 * s.len ∧ s.oop ≤ 11 * s.len ∧ s.immut ≤ 11 * s.len
  chain : t.isPrimeRoot = false → s.inplace ≤ 2 * s.len + 11 * t.pb ∧ s.oop ≤ s.len + 11 * t.pb ∧
    s.immut ≤ 2 * s.len + 11 * t.pb ∧ 2 * t.pb ≤ s.len

/-- what holds of every tree the AVX planner ever builds or caches -/
structure AvxGood (ty : ElemTy) (t : Recipe) : Prop where
  spec : ∃ s, t.spec ty = .ok s ∧ SpecBounds t s
  prime : t.hasPrime = true → 0 < t.len ∧ ¬ AvxSmoothLen ty t.len
  simd : t.SimdFits ty

theorem avxGood_leaf (ty : ElemTy) (t : Recipe) (s : Spec) (hs : t.spec ty = .ok s)
    (hp : t.hasPrime = false) (hr : t.isPrimeRoot = false) (hpb : t.pb = 0) (hsimd : t.SimdFits ty)
    (hb : s.inplace ≤ s.len ∧ s.oop = 0 ∧ s.immut ≤ 2 * s.len) : AvxGood ty t := by
  refine ⟨⟨s, hs, ⟨fun _ => hb, ?_, ?_⟩⟩, ?_, hsimd⟩
  · intro h; rw [hr] at h; cases h
  · intro _; rw [hpb]; omega
  · intro h; rw [hp] at h; cases h

theorem avxGood_bfly (ty : ElemTy) (n : Nat) (r : Recipe) (h : avxConstructButterfly ty n = .ok r) :
    AvxGood ty r := by
  unfold avxConstructButterfly at h
  split at h
  · cases h
    exact avxGood_leaf ty (.dft n) ⟨n, n, 0, 0⟩ (by simp only [Recipe.spec]) rfl rfl rfl trivial
      ⟨Nat.le_refl _, rfl, Nat.zero_le _⟩
  · split at h
    · cases h
      refine avxGood_leaf ty (.avxBfly n)
        ⟨n, if (avxBflyWithScratch ty).contains n = true then n else 0, 0, 0⟩ (by simp only [Recipe.spec]) rfl rfl rfl
        trivial ⟨?_, rfl, Nat.zero_le _⟩
      simp only; split <;> omega
    · split at h
      · cases h
        exact avxGood_leaf ty (.bfly n) (specBfly n) (by simp only [Recipe.spec]) rfl rfl rfl trivial
          ⟨Nat.zero_le _, rfl, Nat.zero_le _⟩
      · cases h

theorem radix_ge_two {x : Nat} (hx : x ∈ avxRadixes) : 2 ≤ x := by
  simp only [avxRadixes, List.mem_cons, List.mem_nil_iff, or_false] at hx
  omega

theorem avxGood_mixedRadix (ty : ElemTy) (x : Nat) (i : Recipe) (hx : x ∈ avxRadixes) (hi : AvxGood ty i) :
    AvxGood ty (.avxMixedRadix x i) := by
  obtain ⟨⟨si, hsi, bi⟩, pri, simdi⟩ := hi
  have hx2 := radix_ge_two hx
  have eil := spec_len_eq ty i si hsi
  refine ⟨⟨_, by simp only [Recipe.spec, hsi]; rfl, ?_⟩, ?_, simdi⟩
  · have hL : si.len ≤ si.len * x := Nat.le_mul_of_pos_right _ (by omega)
    have hL2 : 2 * si.len ≤ si.len * x := by rw [Nat.mul_comm 2]; exact Nat.mul_le_mul_left _ hx2
    refine ⟨fun hp => ?_, fun h => by simp [Recipe.isPrimeRoot] at h, fun _ => ?_⟩
    · obtain ⟨b1, b2, b3⟩ := bi.smooth (by simpa [Recipe.hasPrime] using hp)
      simp only [Gen.avxMixedRadix_inplace, Gen.avxMixedRadix_oop, Gen.avxMixedRadix_immut]
      generalize si.len * x = L at *
      refine ⟨by omega, ?_, by omega⟩
      split <;> omega
    · simp only [Gen.avxMixedRadix_inplace, Gen.avxMixedRadix_oop, Gen.avxMixedRadix_immut, Recipe.pb]
      cases hr : i.isPrimeRoot with
      | true =>
        obtain ⟨r1, r2, r3⟩ := bi.root hr
        have hpb := i.pb_of_primeRoot hr
        rw [hpb, ← eil]
        generalize si.len * x = L at *
        refine ⟨by omega, ?_, by omega, by omega⟩
        split <;> omega
      | false =>
        obtain ⟨c1, c2, c3, c4⟩ := bi.chain hr
        generalize si.len * x = L at *
        generalize i.pb = P at *
        refine ⟨by omega, ?_, by omega, by omega⟩
        split <;> omega
  · intro hp
    obtain ⟨hpos, hns⟩ := pri (by simpa [Recipe.hasPrime] using hp)
    simp only [Recipe.len]
    refine ⟨Nat.mul_pos (by omega) hpos, ?_⟩
    unfold AvxSmoothLen at hns ⊢
    rw [otherOf_mul_radix x i.len hx hpos]; exact hns

/-- a prime-free inner transform: follows from the invariant when the length is "smooth" -/
theorem AvxGood.smooth_inner {ty : ElemTy} {i : Recipe} (hi : AvxGood ty i) (hs : AvxSmoothLen ty i.len) :
    i.hasPrime = false := by
  cases h : i.hasPrime with
  | false => rfl
  | true => exact absurd hs (hi.prime h).2

theorem not_smooth_of_facts {ty : ElemTy} {n : Nat} (h1 : otherOf n = n) (h2 : avxIsButterfly ty n = false) :
    ¬ AvxSmoothLen ty n := by
  unfold AvxSmoothLen; rw [h1, h2]; simp

theorem avxGood_raders (ty : ElemTy) (i : Recipe) (avx2 : Bool) (hi : AvxGood ty i)
    (hprime : isPrimeNat (i.len + 1) = true) (hsm : AvxSmoothLen ty i.len)
    (ho : otherOf (i.len + 1) = i.len + 1) (hnb : avxIsButterfly ty (i.len + 1) = false) :
    AvxGood ty (if avx2 then Recipe.avxRaders i else Recipe.raders i) := by
  have hnp := hi.smooth_inner hsm
  obtain ⟨⟨si, hsi, bi⟩, _, simdi⟩ := hi
  obtain ⟨b1, b2, b3⟩ := bi.smooth hnp
  have eil := spec_len_eq ty i si hsi
  have ha := radersAsserts_of_prime hprime
  rw [← eil] at ha
  cases avx2 with
  | true =>
    simp only [if_true]
    refine ⟨⟨_, by simp only [Recipe.spec, hsi, ha]; rfl, ?_⟩, ?_, ?_⟩
    · refine ⟨fun h => by simp [Recipe.hasPrime] at h, fun _ => ?_, fun h => by simp [Recipe.isPrimeRoot] at h⟩
      simp only [Gen.avxRaders_inplace, Gen.avxRaders_oop, Gen.avxRaders_immut]
      refine ⟨?_, ?_, by omega⟩ <;> split <;> omega
    · intro _
      exact ⟨by simp [Recipe.len], not_smooth_of_facts (by simpa [Recipe.len] using ho) (by simpa [Recipe.len] using hnb)⟩
    · exact ⟨fun s hs => by rw [hsi] at hs; cases hs; exact b1, simdi⟩
  | false =>
    simp only [Bool.false_eq_true, if_false]
    refine ⟨⟨_, by simp only [Recipe.spec, hsi, ha]; rfl, ?_⟩, ?_, simdi⟩
    · refine ⟨fun h => by simp [Recipe.hasPrime] at h, fun _ => ?_, fun h => by simp [Recipe.isPrimeRoot] at h⟩
      simp only [Gen.raders_inplace, Gen.raders_oop, Gen.raders_immut]
      refine ⟨?_, ?_, by omega⟩ <;> split <;> omega
    · intro _
      exact ⟨by simp [Recipe.len], not_smooth_of_facts (by simpa [Recipe.len] using ho) (by simpa [Recipe.len] using hnb)⟩

theorem avxGood_bluesteins (ty : ElemTy) (n : Nat) (i : Recipe) (hi : AvxGood ty i) (hn : 1 < n)
    (hm : avxPlanBluesteins ty n = .ok i.len) (ho : otherOf n = n) (hnb : avxIsButterfly ty n = false) :
    AvxGood ty (.avxBluesteins n i) := by
  obtain ⟨m', hm', hge, h4, ⟨a, b, hab, _⟩, _⟩ := avxPlanBluesteins_spec ty n hn
  rw [hm] at hm'; cases hm'
  have hup := avxPlanBluesteins_upper ty n i.len hn hm
  have hsm : AvxSmoothLen ty i.len := by
    unfold AvxSmoothLen otherOf
    rw [hab, pf_compute_other_smooth23]
    cases ty <;> decide
  have hnp := hi.smooth_inner hsm
  obtain ⟨⟨si, hsi, bi⟩, _, simdi⟩ := hi
  obtain ⟨b1, b2, b3⟩ := bi.smooth hnp
  have eil := spec_len_eq ty i si hsi
  have h0 : ¬ n = 0 := by omega
  have h1 : n * 2 - 1 ≤ si.len := by omega
  have h2 : si.len % complexPerVectorAvx ty = 0 := by
    cases ty <;> simp only [complexPerVectorAvx] <;> omega
  refine ⟨⟨_, by simp only [Recipe.spec, hsi, h0, h1, h2, if_false, not_true_eq_false, ne_eq]; rfl, ?_⟩, ?_, simdi⟩
  · refine ⟨fun h => by simp [Recipe.hasPrime] at h, fun _ => ?_, fun h => by simp [Recipe.isPrimeRoot] at h⟩
    simp only [Gen.avxBluesteins_scratch]
    omega
  · intro _
    exact ⟨by simp only [Recipe.len]; omega, not_smooth_of_facts (by simpa [Recipe.len] using ho) (by simpa [Recipe.len] using hnb)⟩

/-! ### the invariant is preserved by `plan_and_construct_fft` -/

theorem avxWrapChain_good {ty : ElemTy} : ∀ (rs : List Nat) (fft : Recipe) (c : InstCache) (t : Recipe)
    (c' : InstCache), avxWrapChain rs fft c = .ok (t, c') → AvxGood ty fft → CacheAll (AvxGood ty) c →
    AvxGood ty t ∧ CacheAll (AvxGood ty) c' := by
  intro rs
  induction rs with
  | nil =>
    intro fft c t c' h hf hc
    rw [avxWrapChain] at h
    simp only [Except.ok.injEq, Prod.mk.injEq] at h
    obtain ⟨rfl, rfl⟩ := h; exact ⟨hf, hc⟩
  | cons x rs ih =>
    intro fft c t c' h hf hc
    rw [avxWrapChain] at h
    split at h
    · rename_i hx
      have hq := avxGood_mixedRadix ty x fft (by simpa using hx) hf
      exact ih _ _ t c' h hq (hc.insert _ hq)
    · cases h

/-- **every tree the AVX planner builds — for any length, from any cache of good trees — is good, and so is every
tree it adds to the cache** (no fuel assumption: a run that returns `ok` has had enough) -/
theorem avxPlanAndConstruct_good (ty : ElemTy) (avx2 : Bool) : ∀ (fuel : Nat) (c : InstCache) (len : Nat)
    (t : Recipe) (c' : InstCache), CacheAll (AvxGood ty) c → CacheInv c →
    avxPlanAndConstruct ty avx2 fuel c len = .ok (t, c') →
    AvxGood ty t ∧ CacheAll (AvxGood ty) c' ∧ t.len = len ∧ CacheInv c' := by
  intro fuel
  induction fuel with
  | zero => intro c len t c' _ _ h; simp [avxPlanAndConstruct] at h
  | succ fuel ih =>
    intro c len t c' hc hci h
    obtain ⟨p, hp, hwf, hlen, hk, _⟩ := avxPlanFft_spec ty avx2 c.contains len
    rw [avxPlanAndConstruct, hp] at h
    simp only at h
    have wrap : ∀ (fft : Recipe) (c1 : InstCache), fft.len = p.base.baseLen → AvxGood ty fft →
        CacheAll (AvxGood ty) c1 → CacheInv c1 → avxWrapChain p.radixes fft c1 = .ok (t, c') →
        AvxGood ty t ∧ CacheAll (AvxGood ty) c' ∧ t.len = len ∧ CacheInv c' := by
      intro fft c1 hl hf hc1 hci1 hw
      obtain ⟨g1, g2⟩ := avxWrapChain_good p.radixes fft c1 t c' hw hf hc1
      obtain ⟨r', c'', h1, h2, h3⟩ := avxWrapChain_spec p.radixes fft c1 hwf.2 hci1
      rw [hw] at h1
      simp only [Except.ok.injEq, Prod.mk.injEq] at h1
      obtain ⟨rfl, rfl⟩ := h1
      exact ⟨g1, g2, by rw [h2, hl, ← hwf.1, hlen], h3⟩
    rcases hk with ⟨n, hb, hcn⟩ | ⟨b, hb⟩ | ⟨n, hb, hn1, hsm⟩ | ⟨n, m, hb, hn1, hm⟩
    · obtain ⟨r, hr⟩ := InstCache.get_of_contains hcn
      rw [hb] at wrap h
      simp only [hr] at h
      exact wrap r c (hci.get hr) (hc.get hr) hc hci h
    · obtain ⟨r, hr, hrl⟩ := avxPlanFft_base_constructible ty avx2 c.contains len p b hp hb
      rw [hb] at wrap h
      simp only [hr] at h
      have hg := avxGood_bfly ty b r hr
      exact wrap r _ hrl hg (hc.insert r hg) (hci.insert r) h
    · have hprime := avxPlanFft_raders_prime ty avx2 c.contains len p n hp hb
      obtain ⟨hno, hnb, _, h10⟩ := avxPlanFft_prime_facts ty avx2 c.contains len p n hp (Or.inl hb)
      have hoo : otherOf n = n := by rw [hno]; exact otherOf_otherOf len (by omega)
      rw [hb] at wrap h
      simp only at h
      cases hrec : avxPlanAndConstruct ty avx2 fuel c (n - 1) with
      | error e => simp [hrec] at h
      | ok res =>
        obtain ⟨inner, c1⟩ := res
        simp only [hrec] at h
        obtain ⟨hig, hc1, hil, hci1⟩ := ih c (n - 1) inner c1 hc hci hrec
        have hn : inner.len + 1 = n := by omega
        have hg := avxGood_raders ty inner avx2 hig (by rw [hn]; exact hprime)
          (by unfold AvxSmoothLen otherOf; rw [hil]; exact hsm) (by rw [hn]; exact hoo) (by rw [hn]; exact hnb)
        refine wrap _ _ ?_ hg (hc1.insert _ hg) (hci1.insert _) h
        cases avx2 <;> simp only [Recipe.len, AvxBase.baseLen, if_true, Bool.false_eq_true, if_false] <;> omega
    · obtain ⟨hno, hnb, _, h10⟩ := avxPlanFft_prime_facts ty avx2 c.contains len p n hp (Or.inr ⟨m, hb⟩)
      have hoo : otherOf n = n := by rw [hno]; exact otherOf_otherOf len (by omega)
      rw [hb] at wrap h
      simp only at h
      cases hrec : avxPlanAndConstruct ty avx2 fuel c m with
      | error e => simp [hrec] at h
      | ok res =>
        obtain ⟨inner, c1⟩ := res
        simp only [hrec] at h
        obtain ⟨hig, hc1, hil, hci1⟩ := ih c m inner c1 hc hci hrec
        have hg := avxGood_bluesteins ty n inner hig hn1 (by rw [hil]; exact hm) hoo hnb
        exact wrap _ _ rfl hg (hc1.insert _ hg) (hci1.insert _) h

/-! ### consequences for a good tree -/

/-- the C05 scratch clause -/
theorem AvxGood.scratch_le {ty : ElemTy} {t : Recipe} (h : AvxGood ty t) :
    ∃ s, t.spec ty = .ok s ∧ s.inplace ≤ 12 * t.len + 64 ∧ s.oop ≤ 12 * t.len + 64 ∧ s.immut ≤ 12 * t.len + 64 := by
  obtain ⟨⟨s, hs, b⟩, _, _⟩ := h
  have el := spec_len_eq ty t s hs
  refine ⟨s, hs, ?_⟩
  cases hr : t.isPrimeRoot with
  | true => obtain ⟨a1, a2, a3⟩ := b.root hr; omega
  | false => obtain ⟨a1, a2, a3, a4⟩ := b.chain hr; omega

/-- the sharper form: `7.5·n` for a chain over a Rader/Bluestein base, `11·n` for a bare prime node, `2·n` otherwise -/
theorem AvxGood.scratch_le' {ty : ElemTy} {t : Recipe} (h : AvxGood ty t) :
    ∃ s, t.spec ty = .ok s ∧
      (t.hasPrime = false → s.inplace ≤ t.len ∧ s.oop = 0 ∧ s.immut ≤ 2 * t.len) ∧
      2 * s.inplace ≤ 22 * t.len ∧ 2 * s.oop ≤ 22 * t.len ∧ 2 * s.immut ≤ 22 * t.len := by
  obtain ⟨⟨s, hs, b⟩, _, _⟩ := h
  have el := spec_len_eq ty t s hs
  refine ⟨s, hs, fun hp => by have := b.smooth hp; omega, ?_⟩
  cases hr : t.isPrimeRoot with
  | true => obtain ⟨a1, a2, a3⟩ := b.root hr; omega
  | false => obtain ⟨a1, a2, a3, a4⟩ := b.chain hr; omega

/-- whole-tree fit: at every node, the children's specs satisfy the `Shape` of the node's algorithm -/
theorem AvxGood.nodesFit {ty : ElemTy} {t : Recipe} (h : AvxGood ty t) (hpos : 0 < t.len) : t.NodesFit ty := by
  obtain ⟨⟨s, hs, _⟩, _, hsimd⟩ := h
  exact nodesFit_of_spec ty t s hs (by rw [spec_len_eq ty t s hs]; exact hpos) hsimd

/-! ### histories -/

def AvxStateGood (ty : ElemTy) (s : PlannerState) : Prop :=
  CacheAll (AvxGood ty) s.fwd ∧ CacheAll (AvxGood ty) s.inv ∧ CacheInv s.fwd ∧ CacheInv s.inv

theorem avxStateGood_empty (ty : ElemTy) : AvxStateGood ty PlannerState.empty :=
  ⟨CacheAll.nil _, CacheAll.nil _, CacheInv.nil, CacheInv.nil⟩

theorem planStep_avx_good {ty : ElemTy} {avx2 : Bool} {s s' : PlannerState} {len : Nat} {inverse : Bool}
    {t : Recipe} (hs : AvxStateGood ty s) (h : planStep (.avx avx2) ty s len inverse = .ok (t, s')) :
    AvxGood ty t ∧ t.len = len ∧ AvxStateGood ty s' := by
  obtain ⟨c', hb, _, rfl⟩ := planStep_avx_ok h
  obtain ⟨h1, h2, h3, h4⟩ := hs
  have hca : CacheAll (AvxGood ty) (s.cache inverse) := by cases inverse; exact h1; exact h2
  have hci : CacheInv (s.cache inverse) := by cases inverse; exact h3; exact h4
  obtain ⟨g1, g2, g3, g4⟩ := avxPlanAndConstruct_good ty avx2 _ _ len t c' hca hci hb
  refine ⟨g1, g3, ?_⟩
  cases inverse
  · exact ⟨g2, h2, g4, h4⟩
  · exact ⟨h1, g2, h3, g4⟩

theorem planHistory_avx_good (ty : ElemTy) (avx2 : Bool) :
    ∀ (reqs : List (Nat × Bool)) (s : PlannerState) (ts : List Recipe) (s' : PlannerState),
      AvxStateGood ty s → planHistory (.avx avx2) ty reqs s = .ok (ts, s') →
      (∀ t ∈ ts, AvxGood ty t) ∧ AvxStateGood ty s' := by
  intro reqs
  induction reqs with
  | nil =>
    intro s ts s' hs h
    simp only [planHistory] at h
    cases h
    exact ⟨fun t ht => absurd ht (List.not_mem_nil), hs⟩
  | cons rq rest ih =>
    intro s ts s' hs h
    obtain ⟨len, inv⟩ := rq
    simp only [planHistory] at h
    split at h
    · cases h
    · rename_i inst s1 hstep
      split at h
      · cases h
      · rename_i insts s2 hrest
        cases h
        obtain ⟨h1, _, h3⟩ := planStep_avx_good hs hstep
        obtain ⟨h4, h5⟩ := ih s1 insts s' h3 hrest
        refine ⟨?_, h5⟩
        intro t ht
        rcases List.mem_cons.mp ht with rfl | ht
        · exact h1
        · exact h4 t ht

/-! ### scalar and SSE planners: `SimdFits` -/

theorem simdFits_scalarClosed (ty : ElemTy) : ScalarClosed (Recipe.SimdFits ty) where
  dft := fun _ _ => trivial
  bfly := fun _ _ => trivial
  gtSmallBfly := fun _ _ _ _ _ => ⟨trivial, trivial⟩
  mrSmallBfly := fun _ _ _ _ => ⟨trivial, trivial⟩
  gtSmall := fun _ _ ha hb _ _ _ _ _ _ => ⟨ha, hb⟩
  mrSmall := fun _ _ ha hb _ _ _ _ _ => ⟨ha, hb⟩
  mixedRadix := fun _ _ ha hb _ _ _ _ => ⟨ha, hb⟩
  raders := fun _ hi _ _ _ => hi
  bluesteins := fun _ _ hi _ _ _ _ _ _ => hi
  radixN := fun _ _ hb _ _ _ _ => hb
  radix4 := fun _ _ hb _ _ => hb

theorem simdFits_sseClosed (ty : ElemTy) : SseClosed (Recipe.SimdFits ty) where
  dft := trivial
  bfly := fun b r h => by
    obtain ⟨hc, _, _⟩ := sseButterfly_cases b r h
    rcases hc with rfl | rfl <;> trivial
  gtSmall := fun _ _ ha hb _ _ _ => ⟨ha, hb⟩
  mrSmall := fun _ _ ha hb _ _ => ⟨ha, hb⟩
  mixedRadix := fun _ _ ha hb _ _ _ => ⟨ha, hb⟩
  raders := fun _ hi _ _ _ => hi
  bluesteins := fun _ _ hi _ _ _ _ _ => hi
  sseRadix4 := fun k b _ => ⟨fun s hs => by simp only [Recipe.spec, Except.ok.injEq] at hs; subst hs; rfl, trivial⟩

end RFV
