/-
L0 MulRem — transcription of `struct VectorizedMultiplyMod` in /repo/src/avx/avx_raders.rs (lines 21-84),
ONE 64-bit lane of the four (all four lanes run the same code on broadcast constants). No Mathlib; executable.

Word sizes are explicit: every value is a `Nat` that is reduced exactly where the machine reduces it
(`u32` arguments, `i64` shift/division in `new`, the low-32-bit reads of `_mm256_mul_epu32`, the 64-bit
logical shift, the wrapping `_mm256_sub_epi64`, the sign-bit test of `_mm256_blendv_pd`).

Use in the crate (`RadersAvx2::new_with_avx` / `prepare_raders`):
  * `VectorizedMultiplyMod::new(root_powers[4] as u32, len as u32)` (f32) or `…(root_powers[2] as u32, len as u32)` (f64),
    `len` = the prime FFT length `p`, `root_powers[k] = g^k mod p`; so `b < d = p`.
  * `indexes` starts as `[g, g², g³, g⁴]` (f32) / `[g, g, g², g²]` (f64), every lane `< p`, and is stepped by
    `indexes = index_multiplier.mul_rem(indexes)`; every value is used, unchecked, as a 64-bit gather index
    into `input` (`gather_complex_avx2_index64`), whose length is `p`.  Hence: result `≥ p`  ⇒  out-of-bounds read.
  * `new` asserts `divisor < 2^31`.  Lengths `≥ 2^31` cannot get this far anyway: the same constructor runs
    `output_mapping_inverse[..] = i.try_into().unwrap()` into `i32` for every `i < len`.

------------------------------------------------------------------------------------------------------------
CORRESPONDENCE LINE PROTOCOL (requested hook: `cfg(rustfft_verif)` exposing the real `VectorizedMultiplyMod`)

  request   `mulrem <a> <b> <d>`
              <a>  decimal u64   — the lane value (broadcast to all four lanes with `_mm256_set1_epi64x(a as i64)`)
              <b>  decimal u32   — first argument of `VectorizedMultiplyMod::new`
              <d>  decimal u32   — second argument (`divisor`)
  reply     `mulrem ok b=<B> divisor=<D> intermediate=<I> rem=<R>`
              <B> <D> <I>  lane 0 of the fields `b`, `divisor`, `intermediate`, each printed as decimal u64
              <R>          lane 0 of `mul_rem(a)` printed as decimal **u64** (NOT i64: an underflow must show up as
                           18446744073709551615, not as -1)
            the hook must also check that lanes 1..3 of the result equal lane 0 and reply
            `mulrem lanes-differ <r0> <r1> <r2> <r3>` otherwise
            `mulrem panic` if `new` panics (the `assert!`, or `b % 0`), caught with `catch_unwind`
  The model side of the reply is `mulRemLine a b d` below (byte-identical string, no trailing newline).
  Optional bulk form (cheap, lets the search run 10^8 cases without 10^8 lines):
  request   `mulremscan <b> <d> <a_lo> <a_hi>`   reply `mulremscan bad=<count> first=<a or ->`
            where `bad` counts `a ∈ [a_lo, a_hi)` with `rem ≠ (a·b) mod d` computed in u128; model: `mulRemScanLine`.
------------------------------------------------------------------------------------------------------------
-/

namespace RFV

/-- `x as u32` -/
def u32 (x : Nat) : Nat := x % 2 ^ 32
/-- a 64-bit lane -/
def u64 (x : Nat) : Nat := x % 2 ^ 64

/-- `_mm256_sub_epi64`, one lane: wrapping subtraction modulo `2^64` -/
def wsub64 (x y : Nat) : Nat := (u64 x + (2 ^ 64 - u64 y)) % 2 ^ 64

/-- `_mm256_mul_epu32`, one 64-bit lane: the product of the LOW 32 bits of both lanes, a full 64-bit result -/
def mulEpu32 (x y : Nat) : Nat := u32 x * u32 y

/-- `_mm256_srli_epi64(x, 32)`, one lane (logical shift) -/
def srli64_32 (x : Nat) : Nat := u64 x / 2 ^ 32

/-- `((b as i64) << 32) / divisor as i64`, result as the 64-bit two's-complement lane that
`_mm256_set1_epi64x` stores. `b, d` are `u32` values (so `as i64` is non-negative), the shift wraps into the
sign bit iff `b ≥ 2^31`, and Rust's `/` on `i64` truncates toward zero. (`d = 0` panics before this line.) -/
def reciprocalI64 (b d : Nat) : Nat :=
  let x := u64 (b * 2 ^ 32)                       -- `(b as i64) << 32`, bit pattern
  if x < 2 ^ 63 then x / d                        -- non-negative / positive
  else u64 (2 ^ 64 - (2 ^ 64 - x) / d)            -- negative / positive = -(|x| / d), two's complement

/-- the three broadcast fields of `VectorizedMultiplyMod`, one 64-bit lane each -/
structure MulRemState where
  b : Nat
  divisor : Nat
  intermediate : Nat
  deriving Repr, DecidableEq, Inhabited

/-- `VectorizedMultiplyMod::new` panics: `assert!(divisor.leading_zeros() > 0)` fails for `divisor ≥ 2^31`;
`b % divisor` panics for `divisor = 0` (which passes the assert, `0u32.leading_zeros() = 32`). -/
def mulRemNewPanics (d : Nat) : Bool := u32 d = 0 || u32 d ≥ 2 ^ 31

/-- `VectorizedMultiplyMod::new(b, divisor)` (arguments truncated as by the `as u32` casts at both call sites). -/
def mulRemNew (b d : Nat) : MulRemState :=
  let d := u32 d
  let b := u32 b % d                              -- `let b = b % divisor;`
  { b := b, divisor := d, intermediate := reciprocalI64 b d }

/-- `mul_rem(a)`, one lane. -/
def mulRem (s : MulRemState) (a : Nat) : Nat :=
  let maskedDivisor := u32 s.divisor                                  -- `_mm256_blend_epi32(divisor, 0, 0xAA)`
  let quotient := srli64_32 (mulEpu32 a s.intermediate)               -- `srli_epi64(mul_epu32(a, intermediate), 32)`
  let numerator := mulEpu32 a s.b                                     -- `mul_epu32(a, b)`
  let quotientProduct := mulEpu32 quotient maskedDivisor              -- `mul_epu32(quotient, masked_divisor)`
  let remainder := wsub64 numerator quotientProduct                   -- `sub_epi64(numerator, quotient_product)`
  let subtracted := wsub64 remainder maskedDivisor                    -- `sub_epi64(remainder, masked_divisor)`
  -- `blendv_pd(subtracted, remainder, mask = subtracted)`: sign bit of the mask set → second operand
  if subtracted ≥ 2 ^ 63 then remainder else subtracted

/-- THE SEEDED BUG, for the record: the reciprocal rounded up, `⌈(b·2^32)/d⌉` instead of `⌊·⌋`
(only the reachable non-negative branch; `b < d < 2^31`). -/
def mulRemNewCeil (b d : Nat) : MulRemState :=
  let d := u32 d
  let b := u32 b % d
  { b := b, divisor := d, intermediate := (u64 (b * 2 ^ 32) + d - 1) / d }

/-- model side of the `mulrem` line protocol -/
def mulRemLine (a b d : Nat) : String :=
  if mulRemNewPanics d then "mulrem panic" else
  let s := mulRemNew b d
  s!"mulrem ok b={s.b} divisor={s.divisor} intermediate={s.intermediate} rem={mulRem s (u64 a)}"

/-- model side of the `mulremscan` line protocol -/
def mulRemScanLine (b d lo hi : Nat) : String :=
  if mulRemNewPanics d then "mulremscan panic" else
  let s := mulRemNew b d
  let rec go (fuel a : Nat) (bad : Nat) (first : Option Nat) : Nat × Option Nat :=
    match fuel with
    | 0 => (bad, first)
    | fuel + 1 =>
      if mulRem s a = a * u32 b % u32 d then go fuel (a + 1) bad first
      else go fuel (a + 1) (bad + 1) (first.orElse fun _ => some a)
  let (bad, first) := go (hi - lo) lo 0 none
  let f := match first with | some a => toString a | none => "-"
  s!"mulremscan bad={bad} first={f}"

end RFV
