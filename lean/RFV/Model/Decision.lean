/-
L7 Decision tables — which planner constructs, and which one `FftPlanner::new` chooses, as a function of
(cargo features compiled in, CPU features detected, element type).  Transcribes `FftPlanner::new` (plan.rs),
`FftPlannerAvx::new` (avx_planner.rs), `FftPlannerSse::new` (sse_planner.rs) and the `#[cfg]` stubs in lib.rs,
on x86_64 (the NEON and WASM planners are stubs returning `Err` there).
-/
import RFV.Model.Avx

namespace RFV

structure CpuFeatures where
  avx : Bool
  fma : Bool
  avx2 : Bool
  sse41 : Bool
  deriving Repr, DecidableEq, Inhabited

structure CargoFeatures where
  avx : Bool
  sse : Bool
  deriving Repr, DecidableEq, Inhabited

inductive PlannerChoice where
  | avx | sse | neon | wasm | scalar
  deriving Repr, DecidableEq, Inhabited

def isFloat (ty : ElemTy) : Bool := ty == .f32 || ty == .f64

/-- `FftPlannerAvx::<T>::new().is_ok()` -/
def avxPlannerNew (cf : CargoFeatures) (cpu : CpuFeatures) (ty : ElemTy) : Bool :=
  cf.avx && cpu.avx && cpu.fma && isFloat ty

/-- `FftPlannerSse::<T>::new().is_ok()` -/
def ssePlannerNew (cf : CargoFeatures) (cpu : CpuFeatures) (ty : ElemTy) : Bool :=
  cf.sse && cpu.sse41 && isFloat ty

/-- `FftPlannerNeon::new()` / `FftPlannerWasmSimd::new()` on x86_64: the stubs -/
def neonPlannerNew : Bool := false
def wasmPlannerNew : Bool := false

/-- `FftPlanner::<T>::new()`: first planner that constructs, in the order AVX, SSE, NEON, WASM, scalar -/
def choosePlanner (cf : CargoFeatures) (cpu : CpuFeatures) (ty : ElemTy) : PlannerChoice :=
  if avxPlannerNew cf cpu ty then .avx
  else if ssePlannerNew cf cpu ty then .sse
  else if neonPlannerNew then .neon
  else if wasmPlannerNew then .wasm
  else .scalar

/-- does the AVX planner take the avx2 branches (`RadersAvx2`, relaxed Rader heuristic)? -/
def avxUsesAvx2 (cpu : CpuFeatures) : Bool := cpu.avx2

def PlannerChoice.text : PlannerChoice → String
  | .avx => "avx" | .sse => "sse" | .neon => "neon" | .wasm => "wasm" | .scalar => "scalar"

end RFV
