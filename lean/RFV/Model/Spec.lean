/-
L2 Spec — what a built instance advertises: `len()`, and the three scratch lengths
`get_inplace_scratch_len / get_outofplace_scratch_len / get_immutable_scratch_len`, computed with the
constructors' own formulas; every constructor `assert!` is an `Except.error`.

The scratch *formulas* of the portable algorithms and of the AVX / SSE algorithms that wrap inner transforms live in `RFV.Gen.Scratch`, which the translator T1
regenerates from /repo on every run; this file only wires them to the tree.
-/
import RFV.Model.Avx
import RFV.Gen.Scratch

namespace RFV

def specBfly (n : Nat) : Spec := { len := n, inplace := 0, oop := 0, immut := 0 }

def complexPerVectorSse : ElemTy → Nat
  | .f32 => 2
  | _ => 1
def complexPerVectorAvx : ElemTy → Nat
  | .f32 => 4
  | _ => 2

/-- AVX butterflies built on `boilerplate_fft_simd_butterfly_with_scratch!` (in-place scratch = len) -/
def avxBflyWithScratch : ElemTy → List Nat
  | .f32 => [128, 256, 512]
  | _ => [64, 128, 256, 512]

def smallAsserts (name : String) (w h : Spec) : Except String Unit :=
  if w.oop ≠ 0 then .error s!"{name}::new: assert_eq!(width_fft.get_outofplace_scratch_len(), 0)" else
  if h.oop ≠ 0 then .error s!"{name}::new: assert_eq!(height_fft.get_outofplace_scratch_len(), 0)" else
  if ¬ (w.inplace ≤ w.len) then .error s!"{name}::new: assert!(width_fft.get_inplace_scratch_len() <= width)" else
  if ¬ (h.inplace ≤ h.len) then .error s!"{name}::new: assert!(height_fft.get_inplace_scratch_len() <= height)" else
  .ok ()

def radersAsserts (len : Nat) : Except String Unit :=
  if ¬ isPrimeNat len then .error "RadersAlgorithm::new: assert!(miller_rabin(len))" else
  match primitiveRoot len with
  | none => .error "RadersAlgorithm::new: primitive_root(len).unwrap()"
  | some _ => .ok ()

def Recipe.spec (ty : ElemTy) : Recipe → Except String Spec
  | .dft n => .ok { len := n, inplace := n, oop := 0, immut := 0 }
  | .bfly n => .ok (specBfly n)
  | .primeBfly n => .ok (specBfly n)
  | .mixedRadix l r =>
    match l.spec ty, r.spec ty with
    | .ok w, .ok h =>
      let len := w.len * h.len
      .ok { len, inplace := Gen.mixedRadix_inplace len w h, oop := Gen.mixedRadix_oop len w h,
            immut := Gen.mixedRadix_immut len w h }
    | .error e, _ => .error e
    | _, .error e => .error e
  | .mixedRadixSmall l r =>
    match l.spec ty, r.spec ty with
    | .ok w, .ok h =>
      match smallAsserts "MixedRadixSmall" w h with
      | .error e => .error e
      | .ok _ => let len := w.len * h.len; .ok { len, inplace := len, oop := 0, immut := len }
    | .error e, _ => .error e
    | _, .error e => .error e
  | .goodThomas l r =>
    match l.spec ty, r.spec ty with
    | .ok a, .ok b =>
      if Nat.gcd a.len b.len ≠ 1 then .error "GoodThomasAlgorithm::new: assert!(gcd == 1)" else
      -- `if width > height { swap }`
      let (w, h) := if a.len > b.len then (b, a) else (a, b)
      let len := w.len * h.len
      .ok { len, inplace := Gen.goodThomas_inplace len w h, oop := Gen.goodThomas_oop len w h,
            immut := Gen.goodThomas_immut len w h }
    | .error e, _ => .error e
    | _, .error e => .error e
  | .goodThomasSmall l r =>
    match l.spec ty, r.spec ty with
    | .ok w, .ok h =>
      match smallAsserts "GoodThomasAlgorithmSmall" w h with
      | .error e => .error e
      | .ok _ =>
        if Nat.gcd w.len h.len ≠ 1 then .error "GoodThomasAlgorithmSmall::new: assert!(gcd == 1)" else
        let len := w.len * h.len; .ok { len, inplace := len, oop := 0, immut := len }
    | .error e, _ => .error e
    | _, .error e => .error e
  | .raders i =>
    match i.spec ty with
    | .error e => .error e
    | .ok inner =>
      let len := inner.len + 1
      match radersAsserts len with
      | .error e => .error e
      | .ok _ =>
        .ok { len, inplace := Gen.raders_inplace inner, oop := Gen.raders_oop inner, immut := Gen.raders_immut inner }
  | .bluesteins n i =>
    match i.spec ty with
    | .error e => .error e
    | .ok inner =>
      if n = 0 then .error "BluesteinsAlgorithm::new: len * 2 - 1 underflows" else
      if ¬ (n * 2 - 1 ≤ inner.len) then .error "BluesteinsAlgorithm::new: assert!(len * 2 - 1 <= inner_fft_len)" else
      let s := Gen.bluesteins_scratch inner
      .ok { len := n, inplace := s, oop := s, immut := s }
  | .radixN fs b =>
    match b.spec ty with
    | .error e => .error e
    | .ok base =>
      let len := base.len * fs.foldl (· * ·) 1
      .ok { len, inplace := Gen.radixN_inplace len base, oop := Gen.radixN_oop len base, immut := Gen.radixN_immut len base }
  | .radix4 k b =>
    match b.spec ty with
    | .error e => .error e
    | .ok base =>
      let len := base.len * 2 ^ (2 * k)
      .ok { len, inplace := Gen.radix4_inplace len base, oop := Gen.radix4_oop len base, immut := Gen.radix4_immut len base }
  | .radix3 k b =>
    match b.spec ty with
    | .error e => .error e
    | .ok base =>
      let len := base.len * 3 ^ k
      .ok { len, inplace := Gen.radix3_inplace len base, oop := Gen.radix3_oop len base, immut := Gen.radix3_immut len base }
  | .sseRadix4 k b =>
    match b.spec ty with
    | .error e => .error e
    | .ok base =>
      if ¬ (base.len % (2 * complexPerVectorSse ty) = 0 ∧ base.len > 0) then
        .error "SseRadix4::new: assert!(base_len % (2 * COMPLEX_PER_VECTOR) == 0 && base_len > 0)" else
      let len := base.len * 2 ^ (2 * k)
      .ok { len, inplace := Gen.sseRadix4_inplace len, oop := Gen.sseRadix4_oop len, immut := Gen.sseRadix4_immut len }
  | .avxBfly n =>
    .ok { len := n, inplace := if (avxBflyWithScratch ty).contains n then n else 0, oop := 0, immut := 0 }
  | .avxMixedRadix radix i =>
    match i.spec ty with
    | .error e => .error e
    | .ok inner =>
      let len := inner.len * radix
      .ok { len, inplace := Gen.avxMixedRadix_inplace len inner, oop := Gen.avxMixedRadix_oop len inner,
            immut := Gen.avxMixedRadix_immut len inner }
  | .avxRaders i =>
    match i.spec ty with
    | .error e => .error e
    | .ok inner =>
      let len := inner.len + 1
      match radersAsserts len with
      | .error e => .error e
      | .ok _ =>
        .ok { len, inplace := Gen.avxRaders_inplace inner, oop := Gen.avxRaders_oop inner,
              immut := Gen.avxRaders_immut inner }
  | .avxBluesteins n i =>
    match i.spec ty with
    | .error e => .error e
    | .ok inner =>
      if n = 0 then .error "BluesteinsAvx::new: len * 2 - 1 underflows" else
      if ¬ (n * 2 - 1 ≤ inner.len) then .error "BluesteinsAvx::new: assert!(len * 2 - 1 <= inner_fft_len)" else
      if inner.len % complexPerVectorAvx ty ≠ 0 then .error "BluesteinsAvx::new: assert_eq!(inner_fft_len % COMPLEX_PER_VECTOR, 0)" else
      let s := Gen.avxBluesteins_scratch inner
      .ok { len := n, inplace := s, oop := s, immut := s }

def Spec.text (s : Spec) : String := s!"{s.len} {s.inplace} {s.oop} {s.immut}"

end RFV
