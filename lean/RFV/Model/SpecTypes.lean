namespace RFV

/-- what a built instance advertises -/
structure Spec where
  len : Nat
  inplace : Nat
  oop : Nat
  immut : Nat
  deriving Repr, DecidableEq, Inhabited

end RFV
