/-
L1 (AVX) — transcription of /repo/src/avx/avx_planner.rs: `plan_fft`, the two `plan_mixed_radix_base`
variants (f32 / f64), `plan_power12_power6`, `plan_mixed_radix`, `plan_bluesteins`, `replan_with_cache`,
and `construct_plan` as a state machine over the instance cache.
-/
import RFV.Model.Plan

namespace RFV

inductive ElemTy where
  | f32 | f64 | other
  deriving Repr, DecidableEq, Inhabited

inductive AvxBase where
  | bfly (n : Nat)
  | raders (n : Nat)
  | bluesteins (n m : Nat)
  | cache (n : Nat)
  deriving Repr, DecidableEq, Inhabited

def AvxBase.baseLen : AvxBase → Nat
  | .bfly n => n
  | .raders n => n
  | .bluesteins n _ => n
  | .cache n => n

structure AvxPlan where
  len : Nat
  base : AvxBase
  radixes : List Nat       -- innermost first
  deriving Repr, DecidableEq, Inhabited

namespace AvxPlan

def mk' (base : AvxBase) (radixes : List Nat) : AvxPlan :=
  { len := base.baseLen * radixes.foldl (· * ·) 1, base, radixes }
def butterfly (n : Nat) (radixes : List Nat) : AvxPlan := mk' (.bfly n) radixes
def cached (n : Nat) : AvxPlan := { len := n, base := .cache n, radixes := [] }
def pushRadix (p : AvxPlan) (r : Nat) : AvxPlan := { p with radixes := p.radixes ++ [r], len := p.len * r }
def pushRadixPower (p : AvxPlan) (r k : Nat) : AvxPlan :=
  { p with radixes := p.radixes ++ List.replicate k r, len := p.len * r ^ k }

def text (p : AvxPlan) : String :=
  let b := match p.base with
    | .bfly n => s!"(Bfly {n})"
    | .raders n => s!"(Raders {n})"
    | .bluesteins n m => s!"(Bluesteins {n} {m})"
    | .cache n => s!"(Cache {n})"
  s!"(AvxPlan {p.len} {b} [{" ".intercalate (p.radixes.map toString)}])"

end AvxPlan

def avxButterflies32 : List Nat :=
  [0, 1, 2, 3, 4, 5, 6, 7, 8, 9, 11, 12, 13, 16, 17, 19, 23, 24, 27, 29, 31, 32, 36, 48, 54, 64, 72, 128, 256, 512]
def avxButterflies64 : List Nat :=
  [0, 1, 2, 3, 4, 5, 6, 7, 8, 9, 11, 12, 13, 16, 17, 18, 19, 23, 24, 27, 29, 31, 32, 36, 64, 128, 256, 512]

def avxIsButterfly (ty : ElemTy) (n : Nat) : Bool :=
  match ty with
  | .f32 => avxButterflies32.contains n
  | _ => avxButterflies64.contains n

/-- trial-division primality: the specification of `primal_check::miller_rabin` (exact below 2^64) -/
def isPrimeAux (n : Nat) : Nat → Nat → Bool
  | 0, _ => true
  | fuel + 1, d => if d * d > n then true else if n % d = 0 then false else isPrimeAux n fuel (d + 1)
def isPrimeNat (n : Nat) : Bool := n ≥ 2 && isPrimeAux n n 2

/-- the candidate-generation loop of `plan_bluesteins` -/
def bluesteinCandidates (minLen baseline : Nat) : Nat → Nat → Nat → Nat → List (Nat × Nat × Nat) → List (Nat × Nat × Nat)
  | 0, _, _, _, acc => acc
  | fuel + 1, candidate, f2, f3, acc =>
    if f2 ≥ 2 then
      let acc := if candidate ≥ minLen then acc ++ [(candidate, f2, f3)] else acc
      if candidate ≥ baseline then bluesteinCandidates minLen baseline fuel (candidate / 2) (f2 - 1) f3 acc
      else bluesteinCandidates minLen baseline fuel (candidate * 3) f2 (f3 + 1) acc
    else acc

def insertSorted (x : Nat × Nat × Nat) : List (Nat × Nat × Nat) → List (Nat × Nat × Nat)
  | [] => [x]
  | y :: ys => if x.1 < y.1 ∨ (x.1 = y.1 ∧ (x.2.1 < y.2.1 ∨ (x.2.1 = y.2.1 ∧ x.2.2 ≤ y.2.2))) then x :: y :: ys
               else y :: insertSorted x ys
def sortCandidates (l : List (Nat × Nat × Nat)) : List (Nat × Nat × Nat) := l.foldr insertSorted []

def bluesteinFilter (ty : ElemTy) (c : Nat × Nat × Nat) : Bool :=
  let f2 := c.2.1
  let f3 := c.2.2
  match ty with
  | .f32 => ¬ (f2 > 16 ∧ f3 < 3)
  | _ => ¬ (f3 < 1 ∧ f2 > 13) ∧ ¬ (f3 < 4 ∧ f2 > 14)

/-- `plan_bluesteins(len, filter)` -/
def avxPlanBluesteins (ty : ElemTy) (len : Nat) : Except String Nat :=
  if ¬ (len > 1) then .error "plan_bluesteins: assert!(len > 1)" else
  let minLen := len * 2 - 1
  let baseline := nextPowerOfTwo minLen
  let f2 := trailingZeros baseline
  let cands := sortCandidates (bluesteinCandidates minLen baseline (4 * f2 + 8) baseline f2 0 [])
  match cands.find? (bluesteinFilter ty) with
  | some c => .ok c.1
  | none => .error "plan_bluesteins: Failed to find a bluestein's candidate"

/-- first branch of `plan_mixed_radix_base`: the length has a factor other than 2, 3, 5, 7, 11 -/
def avxBaseOther (ty : ElemTy) (avx2 : Bool) (len other : Nat) : Except String AvxPlan :=
  if avxIsButterfly ty other then .ok (AvxPlan.butterfly other []) else
  let inner := PartialFactors.compute (other - 1)
  if isPrimeNat other ∧ avxIsButterfly ty inner.other ∧ (avx2 ∨ inner.productP2P3 = len - 1) then
    .ok (AvxPlan.mk' (.raders other) [])
  else
    match avxPlanBluesteins ty other with
    | .ok m => .ok (AvxPlan.mk' (.bluesteins other m) [])
    | .error e => .error e

/-- the `hardcoded_base` tables -/
def avxHardcoded (ty : ElemTy) (p23 : Nat) : Option AvxPlan :=
  match ty with
  | .f32 =>
    if p23 = 96 then some (AvxPlan.butterfly 32 [3]) else
    if p23 = 192 then some (AvxPlan.butterfly 48 [4]) else
    if p23 = 1536 then some (AvxPlan.butterfly 48 [8, 4]) else
    if p23 = 18 then some (AvxPlan.butterfly 3 [6]) else
    if p23 = 144 then some (AvxPlan.butterfly 36 [4]) else none
  | _ =>
    if p23 = 64 then some (AvxPlan.butterfly 16 [4]) else
    if p23 = 48 then some (AvxPlan.butterfly 12 [4]) else
    if p23 = 96 then some (AvxPlan.butterfly 12 [8]) else
    if p23 = 768 then some (AvxPlan.butterfly 12 [8, 8]) else
    if p23 = 72 then some (AvxPlan.butterfly 24 [3]) else
    if p23 = 288 then some (AvxPlan.butterfly 32 [9]) else
    if p23 = 108 then some (AvxPlan.butterfly 18 [6]) else none

/-- the f32 heuristics after the hard-coded table: `(base butterfly, radixes)` or `none` = "Couldn't find a base" -/
def avxHeuristic32 (len : Nat) (f : PartialFactors) : Option (Nat × List Nat) :=
  if f.p2 ≥ 5 then
    match f.p3 with
    | 0 => some (match f.p2 % 3 with | 0 => (512, []) | _ => (256, []))
    | 1 => some (match f.p2 % 3 with | 0 => (64, [12, 16]) | 1 => (48, []) | _ => (64, []))
    | _ => some (72, [])
  else if f.p3 ≥ 3 then
    match f.p2 with
    | 0 => some (27, [])
    | 1 => some (54, [])
    | 2 => some (if f.p3 % 2 = 0 then (36, []) else ((if len < 1000 then 36 else 12), []))
    | 3 => some (if f.p3 % 2 = 0 then (72, []) else ((if f.p3 > 7 then 24 else 72), []))
    | 4 => some (if f.p3 % 2 = 0 then ((if f.p3 > 6 then 16 else 72), []) else ((if f.p3 > 9 then 48 else 72), []))
    | _ => some (72, [])
  else if f.p11 > 0 then some (11, [])
  else if f.p7 > 0 then some (7, [])
  else if f.p5 > 0 then some (5, [])
  else none

/-- the f64 heuristics after the hard-coded table -/
def avxHeuristic64 (f : PartialFactors) : Option (Nat × List Nat) :=
  if f.p2 ≥ 4 then
    match f.p3 with
    | 0 => some (match f.p2 % 3 with | 0 => (512, []) | 1 => (128, []) | _ => (256, []))
    | 1 => some (match f.p2 % 3 with | 0 => (24, []) | 1 => (32, [12]) | _ => (32, [12, 16]))
    | 2 => some (match f.p2 % 3 with | 0 => (36, [16]) | 1 => (36, []) | _ => (18, []))
    | _ => some (36, [])
  else if f.p3 ≥ 3 then
    match f.p2 with
    | 0 => some (if f.p3 % 2 = 0 then ((if f.p3 > 10 then 9 else 27), []) else (27, []))
    | 1 => some (18, [])
    | 2 => some (if f.p3 % 2 = 0 then (36, []) else ((if f.p3 > 10 then 36 else 18), []))
    | 3 => some (18, [])
    | _ => some (36, [])
  else if f.p11 > 0 then some (11, [])
  else if f.p7 > 0 then some (7, [])
  else if f.p5 > 0 then some (5, [])
  else none

/-- `plan_mixed_radix_base` (both element types; the differences are exactly the tables above) -/
def avxPlanBase (ty : ElemTy) (avx2 : Bool) (len : Nat) (f : PartialFactors) : Except String AvxPlan :=
  if f.other > 1 then avxBaseOther ty avx2 len f.other
  else if avxIsButterfly ty len then .ok (AvxPlan.butterfly len []) else
  let p23 := f.productP2P3
  if p23 > 4 ∧ avxIsButterfly ty p23 then .ok (AvxPlan.butterfly p23 []) else
  match avxHardcoded ty p23 with
  | some p => .ok p
  | none =>
    match (match ty with | .f32 => avxHeuristic32 len f | _ => avxHeuristic64 f) with
    | some (b, rs) => .ok (AvxPlan.butterfly b rs)
    | none => .error "plan_mixed_radix_base: Couldn't find a base"

/-- the loop of `plan_power12_power6`: `required_sixes[i] = Some(k)` as a function `Fin 4 → Option Nat` in a list -/
def power12Loop (p2 p3 : Nat) : List Nat → List (Option Nat) → List (Option Nat)
  | [], req => req
  | k :: ks, req =>
    let twos := p2 - k * 2
    let threes := p3 - k
    let sixes : Option Nat := match twos % 3, threes % 2 with
      | 0, 0 => some 0
      | 1, 1 => some 1
      | 2, 0 => some 2
      | 0, 1 => some 3
      | _, _ => none
    match sixes with
    | some s => if s ≤ twos ∧ s ≤ threes then power12Loop p2 p3 ks (req.set s (some k)) else power12Loop p2 p3 ks req
    | none => power12Loop p2 p3 ks req

def avxPower12Power6 (rf : PartialFactors) : Nat × Nat :=
  let maxTwelves := min (rf.p2 / 2) rf.p3
  let req := power12Loop rf.p2 rf.p3 (List.range (maxTwelves + 1)) [none, none, none, none]
  -- fold over (twelve, i) pairs, keeping the last with twelve ≥ best.twelve
  let pairs : List (Nat × Nat) := (req.zipIdx).filterMap (fun (o, i) => o.map (fun t => (t, i)))
  let best := pairs.foldl (fun best cur => if cur.1 ≥ best.1 then cur else best) (0, 0)
  let p12 := best.1
  let p6 := best.2
  let p6 := if rf.p2 = 1 ∧ rf.p3 > 0 then 1 else p6
  let p6 := if rf.p2 > 1 ∧ rf.p3 = 1 ∧ p12 = 0 then 1 else p6
  (p12, p6)

/-- the optional leading 16xn step of `plan_mixed_radix` -/
def avxStep16 (rf : PartialFactors) (plan : AvxPlan) : Except String (PartialFactors × AvxPlan) :=
  if rf.p2 % 3 = 1 ∧ rf.p2 > 1 then
    match rf.divideBy (PartialFactors.compute 16) with
    | none => .error "plan_mixed_radix: divide_by(16).unwrap()"
    | some rf' => .ok (rf', plan.pushRadix 16)
  else .ok (rf, plan)

/-- the descending-radix chain pushed by `plan_mixed_radix` -/
def avxPushChain (rf : PartialFactors) (p12 p6 : Nat) (plan : AvxPlan) : AvxPlan :=
  let plan := plan.pushRadixPower 12 p12
  let plan := plan.pushRadixPower 11 rf.p11
  let plan := plan.pushRadixPower 9 (rf.p3 / 2)
  let plan := plan.pushRadixPower 8 (rf.p2 / 3)
  let plan := plan.pushRadixPower 7 rf.p7
  let plan := plan.pushRadixPower 6 p6
  let plan := plan.pushRadixPower 5 rf.p5
  let plan := if rf.p2 % 3 = 2 then plan.pushRadix 4 else plan
  let plan := if rf.p3 % 2 = 1 then plan.pushRadix 3 else plan
  let plan := if rf.p2 % 3 = 1 then plan.pushRadix 2 else plan
  plan

/-- `plan_mixed_radix(radix_factors, plan)` -/
def avxPlanMixedRadix (rf : PartialFactors) (plan : AvxPlan) : Except String AvxPlan :=
  if [2, 3, 4, 5, 6, 7, 8, 9, 12, 16].contains rf.product then .ok (plan.pushRadix rf.product) else
  let p := avxPower12Power6 rf
  match rf.divideBy (PartialFactors.compute (6 ^ p.2 * 12 ^ p.1)) with
  | none => .error "plan_mixed_radix: divide_by(6^j*12^k).unwrap()"
  | some rf =>
    match avxStep16 rf plan with
    | .error e => .error e
    | .ok (rf, plan) => .ok (avxPushChain rf p.1 p.2 plan)

/-- `replan_with_cache` against a "contains" predicate for the requested direction -/
def avxReplan (cached : Nat → Bool) (plan : AvxPlan) : AvxPlan :=
  let baseLen := plan.base.baseLen
  -- walk up the chain: (current_len, best: none | base | radix(len, index))
  let rec walk : List Nat → Nat → Nat → Option (Nat × Nat) → Option (Nat × Nat)
    | [], _, _, best => best
    | r :: rs, cur, i, best =>
      let cur := cur * r
      walk rs cur (i + 1) (if cached cur then some (cur, i) else best)
  match walk plan.radixes baseLen 0 none with
  | some (clen, idx) => AvxPlan.mk' (.cache clen) (plan.radixes.drop (idx + 1))
  | none => if cached baseLen then AvxPlan.mk' (.cache baseLen) plan.radixes else plan

/-- `plan_fft(len, direction, base_fn)` -/
def avxPlanFft (ty : ElemTy) (avx2 : Bool) (cached : Nat → Bool) (len : Nat) : Except String AvxPlan :=
  if cached len then .ok (AvxPlan.cached len) else
  if len < 10 then .ok (AvxPlan.butterfly len []) else
  let factors := PartialFactors.compute len
  match avxPlanBase ty avx2 len factors with
  | .error e => .error e
  | .ok base =>
    let uncached : Except String AvxPlan :=
      if base.len = len then .ok base else
      match factors.divideBy (PartialFactors.compute base.len) with
      | none => .error "plan_fft: Invalid base"
      | some rf => avxPlanMixedRadix rf base
    match uncached with
    | .error e => .error e
    | .ok p => .ok (avxReplan cached p)

/-- lengths for which `construct_butterfly` builds an AVX kernel (the rest of the table are scalar butterflies / Dft) -/
def avxKernelLens (ty : ElemTy) : List Nat :=
  match ty with
  | .f32 => [5, 7, 8, 9, 11, 12, 16, 24, 27, 32, 36, 48, 54, 64, 72, 128, 256, 512]
  | _ => [5, 7, 8, 9, 11, 12, 16, 18, 24, 27, 32, 36, 64, 128, 256, 512]

def avxConstructButterfly (ty : ElemTy) (n : Nat) : Except String Recipe :=
  if n ≤ 1 then .ok (.dft n)
  else if (avxKernelLens ty).contains n then .ok (.avxBfly n)
  else if [2, 3, 4, 6, 13, 17, 19, 23, 29, 31].contains n then .ok (.bfly n)
  else .error "construct_butterfly: Invalid butterfly len"

def avxRadixes : List Nat := [2, 3, 4, 5, 6, 7, 8, 9, 11, 12, 16]

/-- instance cache of one direction: association list length ↦ built tree (later inserts shadow earlier ones, as `HashMap::insert`) -/
abbrev InstCache := List (Nat × Recipe)

def InstCache.get? (c : InstCache) (len : Nat) : Option Recipe := (c.find? (fun e => e.1 = len)).map (·.2)
def InstCache.contains (c : InstCache) (len : Nat) : Bool := (c.get? len).isSome
def InstCache.insert (c : InstCache) (r : Recipe) : InstCache := (r.len, r) :: c.filter (fun e => e.1 ≠ r.len)

/-- wrap `fft` in the radix chain, inserting every stage into the cache -/
def avxWrapChain : List Nat → Recipe → InstCache → Except String (Recipe × InstCache)
  | [], fft, c => .ok (fft, c)
  | r :: rs, fft, c =>
    if avxRadixes.contains r then
      let fft' := Recipe.avxMixedRadix r fft
      avxWrapChain rs fft' (c.insert fft')
    else .error "construct_plan: unreachable!() radix"

/-- `plan_and_construct_fft` = `plan_fft` + `construct_plan`, threading the cache of the requested direction -/
def avxPlanAndConstruct (ty : ElemTy) (avx2 : Bool) : Nat → InstCache → Nat → Except String (Recipe × InstCache)
  | 0, _, _ => .error "fuel"
  | fuel + 1, c, len =>
    match avxPlanFft ty avx2 c.contains len with
    | .error e => .error e
    | .ok plan =>
      let base : Except String (Recipe × InstCache) :=
        match plan.base with
        | .cache n =>
          match c.get? n with
          | some r => .ok (r, c)
          | none => .error "construct_plan: cache.get(len).unwrap()"
        | .bfly n =>
          match avxConstructButterfly ty n with
          | .ok r => .ok (r, c.insert r)
          | .error e => .error e
        | .raders n =>
          match avxPlanAndConstruct ty avx2 fuel c (n - 1) with
          | .error e => .error e
          | .ok (inner, c) =>
            let r := if avx2 then Recipe.avxRaders inner else Recipe.raders inner
            .ok (r, c.insert r)
        | .bluesteins n m =>
          match avxPlanAndConstruct ty avx2 fuel c m with
          | .error e => .error e
          | .ok (inner, c) =>
            let r := Recipe.avxBluesteins n inner
            .ok (r, c.insert r)
      match base with
      | .error e => .error e
      | .ok (fft, c) => avxWrapChain plan.radixes fft c

end RFV
