/-
Thread model for C11: one shared, immutable instance `inst : I`; every thread owns a private memory `M`
(its own buffer, output and scratch slices) and runs the same deterministic program of `nsteps` atomic steps,
`stepFn inst pc mem` being step number `pc`.  A schedule is an arbitrary sequence of thread ids; scheduling a thread
advances it by one step (a finished thread ignores further scheduling).
What the model *assumes* is exactly what translator T4 scans for and the witness crate compiles: a step reads `inst`
and reads/writes only its own thread's memory.
-/
namespace RFV

structure TState (M : Type) where
  mem : M
  pc : Nat

/-- state of all threads: thread id ↦ (private memory, steps done) -/
abbrev Threads (M : Type) := Nat → TState M

def tick {I M : Type} (inst : I) (stepFn : I → Nat → M → M) (nsteps : Nat) (s : Threads M) (tid : Nat) : Threads M :=
  fun t => if t = tid then
      (if (s t).pc < nsteps then ⟨stepFn inst (s t).pc (s t).mem, (s t).pc + 1⟩ else s t)
    else s t

def runSchedule {I M : Type} (inst : I) (stepFn : I → Nat → M → M) (nsteps : Nat) : List Nat → Threads M → Threads M
  | [], s => s
  | tid :: rest, s => runSchedule inst stepFn nsteps rest (tick inst stepFn nsteps s tid)

/-- `k` steps of one thread run in isolation, starting at program counter `pc` -/
def runAlone {I M : Type} (inst : I) (stepFn : I → Nat → M → M) (nsteps : Nat) : Nat → TState M → TState M
  | 0, st => st
  | k + 1, st => runAlone inst stepFn nsteps k
      (if st.pc < nsteps then ⟨stepFn inst st.pc st.mem, st.pc + 1⟩ else st)

end RFV
