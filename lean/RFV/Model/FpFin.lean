/-
The executable instance of `RFV.Model.Fp`, over canonical representatives: `Gp p = GF(p)[i]` as pairs of `Fin p`
with core `Fin` arithmetic.  Same formulas as `Fp2`/`fpCtx`/`runFp` (every `Fp2` operation reduces modulo `p`, so for
inputs reduced modulo `p` the observable outputs coincide); the point of this copy is that `Gp p` is *literally* a
commutative ring (`RFV.Proofs.FpLawful`), so the theorems about `Recipe.sem` apply to the function that runs.
Mathlib-free.
-/
import RFV.Model.Fp

namespace RFV

structure Gp (p : Nat) where
  re : Fin p
  im : Fin p
  deriving DecidableEq, Repr

namespace Gp
variable {p : Nat}

instance instAdd : Add (Gp p) := ⟨fun a b => ⟨a.re + b.re, a.im + b.im⟩⟩
instance instMul : Mul (Gp p) := ⟨fun a b => ⟨a.re * b.re - a.im * b.im, a.re * b.im + a.im * b.re⟩⟩
instance instNeg : Neg (Gp p) := ⟨fun a => ⟨-a.re, -a.im⟩⟩
instance instSub : Sub (Gp p) := ⟨fun a b => ⟨a.re - b.re, a.im - b.im⟩⟩
instance instZero [NeZero p] : Zero (Gp p) := ⟨⟨0, 0⟩⟩
instance instOne [NeZero p] : One (Gp p) := ⟨⟨1, 0⟩⟩
instance [NeZero p] : Inhabited (Gp p) := ⟨0⟩

/-- `Complex::conj` -/
def conj (a : Gp p) : Gp p := ⟨a.re, -a.im⟩

/-- `T::from_usize(n)` as a complex number -/
def ofNat [NeZero p] (n : Nat) : Gp p := ⟨Fin.ofNat p n, 0⟩

end Gp

/-- `Ctx` of the transform direction (`inverse = true` conjugates every twiddle); the formulas of `fpCtx` -/
def gpCtx (p N ω : Nat) [NeZero p] (inverse : Bool) : Ctx (Gp p) :=
  { tw := fun i n =>
      let a := (i * (N / n)) % N
      let c := Fin.ofNat p (cosE p N ω a)
      let ms := Fin.ofNat p (cosE p N ω (a + N / 4))       -- = -sin element
      if inverse then ⟨c, -ms⟩ else ⟨c, ms⟩
    conj := Gp.conj
    inv := fun m => ⟨Fin.ofNat p (modPow (m % p) (p - 2) p), 0⟩ }

/-- run a tree over `GF(p)[i]` on consecutive chunks; values are `re im re im …` (the convention of `runFp`) -/
def runGp (p N ω : Nat) [NeZero p] (inverse : Bool) (tree : Recipe) (vals : List Nat) : List Nat :=
  let rec pairs : List Nat → List (Gp p)
    | a :: b :: rest => ⟨Fin.ofNat p a, Fin.ofNat p b⟩ :: pairs rest
    | _ => []
  let x : Array (Gp p) := (pairs vals).toArray
  let c := gpCtx p N ω inverse
  let y := mapChunks tree.len (tree.sem c) x
  y.toList.flatMap (fun v => [v.re.val, v.im.val])

/-- `runGp` for a modulus only known at run time (drop-in for `runFp` in the driver; `p = 0` is never used) -/
def runGpD (p N ω : Nat) (inverse : Bool) (tree : Recipe) (vals : List Nat) : List Nat :=
  if h : p = 0 then [] else
    haveI : NeZero p := ⟨h⟩
    runGp p N ω inverse tree vals

end RFV
