/-
L0 Arith — transcription of /repo/src/math_utils.rs (no Mathlib; executable).

`usize`/`u64` are modelled by `Nat`. Every Rust loop is a fuel-bounded structural recursion whose fuel
is large enough for the loop to finish (proved where a theorem needs it). Places where the Rust code
would panic / loop forever (`compute(0)`, `unwrap()` on `None`, `checked_sub`) are `Except.error`s or
explicit guards.

The trial-division limit `(n as f32).sqrt() as usize + 1` is modelled by `Nat.sqrt n + 1`
(correspondence K1 checks that the real limit is never below it, and that the factorisations agree).
-/

namespace RFV

/-- strip every factor `d` from `n` (Rust: `while n % d == 0 { n /= d; count += 1 }`), fuel-bounded. -/
def stripAux (d : Nat) : Nat → Nat → Nat → Nat × Nat
  | 0, n, c => (n, c)
  | fuel + 1, n, c => if n % d = 0 ∧ 0 < n then stripAux d fuel (n / d) (c + 1) else (n, c)

/-- `(n / d^k, k)` with `k` maximal; requires `1 < d`, `0 < n` to mirror the Rust loop. -/
def strip (d n : Nat) : Nat × Nat := stripAux d n n 0

/-- `n.trailing_zeros()` for `n > 0`. -/
def trailingZeros (n : Nat) : Nat := (strip 2 n).2

/-- the f32 square-root trial-division limit, modelled exactly by the integer square root. -/
def sqrtLimit (n : Nat) : Nat := Nat.sqrt n + 1

structure PrimeFactor where
  value : Nat
  count : Nat
  deriving Repr, DecidableEq, Inhabited

structure PrimeFactors where
  others : List PrimeFactor   -- ascending by value, values ≥ 5
  n : Nat
  p2 : Nat
  p3 : Nat
  total : Nat
  distinct : Nat
  deriving Repr, DecidableEq, Inhabited

/-- the `while divisor < limit` loop of `PrimeFactors::compute`.
State: remaining n, divisor, limit, accumulated factors (in order), total, distinct. -/
def trialLoop : Nat → Nat → Nat → Nat → List PrimeFactor → Nat → Nat →
    (Nat × List PrimeFactor × Nat × Nat)
  | 0, n, _, _, acc, tot, dis => (n, acc, tot, dis)
  | fuel + 1, n, divisor, limit, acc, tot, dis =>
    if divisor < limit then
      let (n', count) := strip divisor n
      if count > 0 then
        trialLoop fuel n' (divisor + 2) (sqrtLimit n') (acc ++ [⟨divisor, count⟩]) (tot + count) (dis + 1)
      else
        trialLoop fuel n (divisor + 2) limit acc tot dis
    else (n, acc, tot, dis)

/-- `PrimeFactors::compute(n)`; the Rust code is only ever called with `n ≥ 1`
(`compute(0)` would spin in `while n % 3 == 0`), so `0` is an error here. -/
def PrimeFactors.compute (n0 : Nat) : Except String PrimeFactors :=
  if n0 = 0 then .error "PrimeFactors::compute(0) does not terminate" else
  let (n1, p2) := strip 2 n0
  let tot := p2
  let dis := if p2 > 0 then 1 else 0
  let (n2, p3) := strip 3 n1
  let tot := tot + p3
  let dis := if p3 > 0 then dis + 1 else dis
  if n2 > 1 then
    let (n3, others, tot, dis) := trialLoop n2 n2 5 (sqrtLimit n2) [] tot dis
    if n3 > 1 then
      .ok { others := others ++ [⟨n3, 1⟩], n := n0, p2 := p2, p3 := p3, total := tot + 1, distinct := dis + 1 }
    else
      .ok { others := others, n := n0, p2 := p2, p3 := p3, total := tot, distinct := dis }
  else
    .ok { others := [], n := n0, p2 := p2, p3 := p3, total := tot, distinct := dis }

namespace PrimeFactors

def isPrime (f : PrimeFactors) : Bool := f.total == 1
def product (f : PrimeFactors) : Nat := f.n

def hasFactorsLeq (f : PrimeFactors) (k : Nat) : Bool :=
  f.p2 > 0 || f.p3 > 0 || (match f.others.head? with | some x => x.value ≤ k | none => false)

def hasFactorsGt (f : PrimeFactors) (k : Nat) : Bool :=
  (k < 2 && f.p2 > 0) || (k < 3 && f.p3 > 0) ||
    (match f.others.getLast? with | some x => x.value > k | none => false)

def productAbove (f : PrimeFactors) (k : Nat) : Nat :=
  ((f.others.dropWhile (fun x => x.value ≤ k)).map (fun x => x.value ^ x.count)).foldl (· * ·) 1

/-- `remove_factors` restricted to the only call shape in the crate (`value = 2`);
other values are transcribed too. `none` = the Rust `None`; `.error` = an `unwrap()` panic. -/
def removeFactors (f : PrimeFactors) (factor : PrimeFactor) : Except String (Option PrimeFactors) :=
  if factor.count = 0 then .ok (some f) else
  if factor.value = 2 then
    if f.p2 < factor.count then .error "remove_factors: checked_sub" else
    let p2 := f.p2 - factor.count
    let n := f.n / 2 ^ factor.count
    let f' := { f with p2 := p2, n := n, total := f.total - factor.count,
                       distinct := if p2 = 0 then f.distinct - 1 else f.distinct }
    .ok (if n > 1 then some f' else none)
  else if factor.value = 3 then
    if f.p3 < factor.count then .error "remove_factors: checked_sub" else
    let p3 := f.p3 - factor.count
    let n := f.n / 3 ^ factor.count
    -- NB the Rust code tests `self.power_two == 0` here (sic); transcribed as is
    let f' := { f with p3 := p3, n := n, total := f.total - factor.count,
                       distinct := if f.p2 = 0 then f.distinct - 1 else f.distinct }
    .ok (if n > 1 then some f' else none)
  else
    match f.others.find? (fun x => x.value = factor.value) with
    | none => .error "remove_factors: factor not found"
    | some found =>
      if found.count < factor.count then .error "remove_factors: checked_sub" else
      let c := found.count - factor.count
      let n := f.n / factor.value ^ factor.count
      let others := if c = 0 then f.others.filter (fun x => x.value ≠ factor.value)
                    else f.others.map (fun x => if x.value = factor.value then ⟨x.value, c⟩ else x)
      let f' := { f with others := others, n := n, total := f.total - factor.count,
                         distinct := if c = 0 then f.distinct - 1 else f.distinct }
      .ok (if n > 1 then some f' else none)

/-- the greedy loop of the third branch of `partition_factors` -/
def greedySplit : List PrimeFactor → Nat → Nat → Nat × Nat
  | [], l, r => (l, r)
  | x :: xs, l, r =>
    let fp := x.value ^ x.count
    if l ≤ r then greedySplit xs (l * fp) r else greedySplit xs l (r * fp)

/-- `partition_factors`; `.error` = `assert!(!self.is_prime())` or the inner `assert!(count > 1)`. -/
def partition (f : PrimeFactors) : Except String (PrimeFactors × PrimeFactors) :=
  if f.isPrime then .error "partition_factors: assert!(!self.is_prime())" else
  if f.p2 % 2 = 0 ∧ f.p3 % 2 = 0 ∧ f.others.all (fun x => x.count % 2 = 0) then
    let p2 := f.p2 / 2
    let p3 := f.p3 / 2
    let others := f.others.map (fun x => (⟨x.value, x.count / 2⟩ : PrimeFactor))
    let prod := others.foldl (fun acc x => acc * x.value ^ x.count) (2 ^ p2 * 3 ^ p3)
    let h : PrimeFactors := { others := others, n := prod, p2 := p2, p3 := p3,
                              total := f.total / 2, distinct := f.distinct }
    .ok (h, h)
  else if f.distinct = 1 then
    let halfP2 := f.p2 / 2
    let halfP3 := f.p3 / 2
    let halfTotal := f.total / 2
    let selfP2 := f.p2 - halfP2
    let selfP3 := f.p3 - halfP3
    let selfTotal := f.total - halfTotal
    match f.others with
    | first :: rest =>
      if first.count ≤ 1 then .error "partition_factors: assert!(first_factor.count > 1)" else
      let hc := first.count / 2
      let sc := first.count - hc
      let half : PrimeFactors := { others := [⟨first.value, hc⟩], n := first.value ^ hc, p2 := halfP2, p3 := halfP3,
                                   total := halfTotal, distinct := 1 }
      let self' : PrimeFactors := { others := ⟨first.value, sc⟩ :: rest, n := first.value ^ sc, p2 := selfP2, p3 := selfP3,
                                    total := selfTotal, distinct := f.distinct }
      .ok (self', half)
    | [] =>
      if halfP2 > 0 then
        .ok ({ others := [], n := 2 ^ selfP2, p2 := selfP2, p3 := selfP3, total := selfTotal, distinct := f.distinct },
             { others := [], n := 2 ^ halfP2, p2 := halfP2, p3 := halfP3, total := halfTotal, distinct := 1 })
      else if halfP3 > 0 then
        .ok ({ others := [], n := 3 ^ selfP3, p2 := selfP2, p3 := selfP3, total := selfTotal, distinct := f.distinct },
             { others := [], n := 3 ^ halfP3, p2 := halfP2, p3 := halfP3, total := halfTotal, distinct := 1 })
      else
        .ok ({ others := [], n := f.n, p2 := selfP2, p3 := selfP3, total := selfTotal, distinct := f.distinct },
             { others := [], n := f.n, p2 := halfP2, p3 := halfP3, total := halfTotal, distinct := 1 })
  else
    let (l, r) := greedySplit f.others 1 1
    let (l, r) := if l ≤ r then (l * 2 ^ f.p2, r) else (l, r * 2 ^ f.p2)
    let (l, r) := if f.p3 > 0 ∧ l ≤ r then (l * 3 ^ f.p3, r) else (l, r * 3 ^ f.p3)
    match PrimeFactors.compute l, PrimeFactors.compute r with
    | .ok a, .ok b => .ok (a, b)
    | .error e, _ => .error e
    | _, .error e => .error e

end PrimeFactors

structure PartialFactors where
  p2 : Nat
  p3 : Nat
  p5 : Nat
  p7 : Nat
  p11 : Nat
  other : Nat
  deriving Repr, DecidableEq, Inhabited

namespace PartialFactors

/-- `PartialFactors::compute(len)`, `len ≥ 1` (every caller guards `len ≥ 10` or passes a positive product). -/
def compute (len : Nat) : PartialFactors :=
  let (o, p2) := strip 2 len
  let (o, p3) := strip 3 o
  let (o, p5) := strip 5 o
  let (o, p7) := strip 7 o
  let (o, p11) := strip 11 o
  { p2, p3, p5, p7, p11, other := o }

def product (f : PartialFactors) : Nat :=
  (f.other * 3 ^ f.p3 * 5 ^ f.p5 * 7 ^ f.p7 * 11 ^ f.p11) * 2 ^ f.p2

def productP2P3 (f : PartialFactors) : Nat := 3 ^ f.p3 * 2 ^ f.p2

/-- `divide_by`; `other % divisor.other` with `divisor.other = 0` would be a division panic, never reached. -/
def divideBy (f d : PartialFactors) : Option PartialFactors :=
  if d.other = 0 then none else
  if f.p2 ≥ d.p2 ∧ f.p3 ≥ d.p3 ∧ f.p5 ≥ d.p5 ∧ f.p7 ≥ d.p7 ∧ f.p11 ≥ d.p11 ∧ f.other % d.other = 0 then
    some { p2 := f.p2 - d.p2, p3 := f.p3 - d.p3, p5 := f.p5 - d.p5, p7 := f.p7 - d.p7, p11 := f.p11 - d.p11,
           other := if f.other = d.other then 1 else f.other / d.other }
  else none

end PartialFactors

/-- `modular_exponent(base, exponent, modulo)` — square and multiply, fuel = exponent bits. -/
def modPowAux (m : Nat) : Nat → Nat → Nat → Nat → Nat
  | 0, _, _, result => result
  | fuel + 1, base, e, result =>
    if e > 0 then
      let result := if e % 2 = 1 then result * base % m else result
      modPowAux m fuel (base * base % m) (e / 2) result
    else result

def modPow (base e m : Nat) : Nat := modPowAux m (e + 1) base e 1

/-- `distinct_prime_factors` odd-divisor loop -/
def distinctLoop : Nat → Nat → Nat → Nat → List Nat → Nat × List Nat
  | 0, n, _, _, acc => (n, acc)
  | fuel + 1, n, divisor, limit, acc =>
    if divisor < limit then
      if n % divisor = 0 then
        let (n', _) := strip divisor n
        distinctLoop fuel n' (divisor + 2) (sqrtLimit n') (acc ++ [divisor])
      else distinctLoop fuel n (divisor + 2) limit acc
    else (n, acc)

/-- `distinct_prime_factors(n)`, `n ≥ 1`. -/
def distinctPrimeFactors (n0 : Nat) : List Nat :=
  let (n, res) := if n0 % 2 = 0 then ((strip 2 n0).1, [2]) else (n0, [])
  if n > 1 then
    let (n', res') := distinctLoop n n 3 (sqrtLimit n) res
    if n' > 1 then res' ++ [n'] else res'
  else res

/-- `primitive_root(prime)`: smallest `g ∈ [2, prime)` with `g^((p-1)/q) ≠ 1` for every prime `q ∣ p-1`. -/
def primitiveRootSearch (p : Nat) (exps : List Nat) : Nat → Nat → Option Nat
  | 0, _ => none
  | fuel + 1, g =>
    if g < p then
      if exps.all (fun e => modPow g e p ≠ 1) then some g else primitiveRootSearch p exps fuel (g + 1)
    else none

def primitiveRoot (p : Nat) : Option Nat :=
  if p < 2 then none else
  if p = 2 then some 1 else      -- the `if prime == 2 { return Some(1) }` of the repaired code (fix e613fc1)
  let exps := (distinctPrimeFactors (p - 1)).map (fun q => (p - 1) / q)
  primitiveRootSearch p exps p 2

end RFV
