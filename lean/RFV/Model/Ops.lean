/-
Operation-count model (C05): the exact number of element-type additions, subtractions and multiplications one chunk
costs, per node.  A complex multiplication is 6 operations (4 mul + 2 add/sub, `num_complex`'s formula), a complex
addition 2; conjugation, negation, copies and transposes are free.  Fixed-size butterflies come from the table measured
on the real code (`Gen.bflyOpsTable`, regenerated on every run).  Correspondence K8 compares with the real portable code
run at the operation-counting element type, for every planned length.
-/
import RFV.Model.Plan
import RFV.Gen.BflyOps

namespace RFV

def bflyOps (n : Nat) : Nat :=
  match Gen.bflyOpsTable.find? (fun e => e.1 = n) with
  | some e => e.2
  | none => 8 * n * n     -- not a butterfly length: cost of the naive DFT

/-- one cross-FFT layer of radix `f` over `len` elements: `len / f` butterflies, each with `f - 1` twiddle multiplications -/
def layerOps (len f : Nat) : Nat := len / f * (6 * (f - 1) + bflyOps f)

def layersOps : List Nat → Nat → Nat → Nat
  | [], _, acc => acc
  | f :: fs, len, acc => layersOps fs len (acc + layerOps len f)

def Recipe.ops : Recipe → Nat
  | .dft n => 8 * n * n
  | .bfly n => bflyOps n
  | .primeBfly n => bflyOps n
  | .avxBfly n => bflyOps n
  | .mixedRadix l r => l.len * r.ops + r.len * l.ops + 6 * (l.len * r.len)
  | .mixedRadixSmall l r => l.len * r.ops + r.len * l.ops + 6 * (l.len * r.len)
  | .goodThomas l r => l.len * r.ops + r.len * l.ops
  | .goodThomasSmall l r => l.len * r.ops + r.len * l.ops
  | .raders i => 2 * i.ops + 6 * i.len + 4
  | .avxRaders i => 2 * i.ops + 6 * i.len + 4
  | .bluesteins n i => 2 * i.ops + 6 * i.len + 12 * n
  | .avxBluesteins n i => 2 * i.ops + 6 * i.len + 12 * n
  | .radixN fs b => fs.foldl (· * ·) 1 * b.ops + layersOps fs (b.len * fs.foldl (· * ·) 1) 0
  | .radix4 k b => 4 ^ k * b.ops + k * layerOps (b.len * 4 ^ k) 4
  | .radix3 k b => 3 ^ k * b.ops + k * layerOps (b.len * 3 ^ k) 3
  | .sseRadix4 k b => 4 ^ k * b.ops + k * layerOps (b.len * 4 ^ k) 4
  | .avxMixedRadix r i => r * i.ops + i.len * (bflyOps r) + 6 * (r * i.len)

end RFV
