/-
Executable instance of the semantics: `K = GF(p)[i]` (pairs modulo a prime `p ≡ 1 mod N`), with the twiddle
`compute_twiddle(k, n, Forward) = (c_a, -s_a)`, `a = k·N/n`, `c_a = (ω^a + ω^-a)/2`, `s_a = (ω^a - ω^-a)/(2j)`,
`j = ω^(N/4)`, for `ω` of multiplicative order `N` modulo `p`.  This is exactly what the unmodified generic Rust
code computes when run at the harness's element type `Fp` (see /verif/harness/src/fp.rs), so the two must agree
bit for bit.
-/
import RFV.Model.Sem

namespace RFV

structure Fp2 (p : Nat) where
  re : Nat
  im : Nat
  deriving Repr, DecidableEq, Inhabited

namespace Fp2
variable {p : Nat}
instance : Zero (Fp2 p) := ⟨⟨0, 0⟩⟩
instance : Add (Fp2 p) := ⟨fun a b => ⟨(a.re + b.re) % p, (a.im + b.im) % p⟩⟩
instance : Mul (Fp2 p) := ⟨fun a b =>
  ⟨(a.re * b.re + (p - a.im * b.im % p)) % p, (a.re * b.im + a.im * b.re) % p⟩⟩
def conj (a : Fp2 p) : Fp2 p := ⟨a.re, (p - a.im) % p⟩
end Fp2

/-- the scalars `GF(p)` themselves (the element type `Fp` of the harness), for running the butterfly programs -/
structure Zp (p : Nat) where
  v : Nat
  deriving Repr, DecidableEq, Inhabited

namespace Zp
variable {p : Nat}
instance : Zero (Zp p) := ⟨⟨0⟩⟩
instance : Add (Zp p) := ⟨fun a b => ⟨(a.v + b.v) % p⟩⟩
instance : Sub (Zp p) := ⟨fun a b => ⟨(a.v + (p - b.v % p)) % p⟩⟩
instance : Mul (Zp p) := ⟨fun a b => ⟨(a.v * b.v) % p⟩⟩
instance : Neg (Zp p) := ⟨fun a => ⟨(p - a.v % p) % p⟩⟩
end Zp

/-- the cosine element `c_a = (ω^a + ω^-a)/2` -/
def cosE (p N ω : Nat) (a : Nat) : Nat :=
  let a := a % N
  let x := modPow ω a p
  let xi := modPow ω (N - a) p
  (x + xi) % p * modPow 2 (p - 2) p % p

/-- `Ctx` of the transform direction (`inverse = true` conjugates every twiddle) -/
def fpCtx (p N ω : Nat) (inverse : Bool) : Ctx (Fp2 p) :=
  { tw := fun i n =>
      let a := (i * (N / n)) % N
      let c := cosE p N ω a
      let ms := cosE p N ω (a + N / 4)       -- = -sin element
      if inverse then ⟨c, (p - ms) % p⟩ else ⟨c, ms⟩
    conj := Fp2.conj
    inv := fun m => ⟨modPow (m % p) (p - 2) p, 0⟩ }

/-! ### a small s-expression reader for `Recipe.text` -/

inductive Tok where
  | lp | rp | lb | rb | atom (s : String)
  deriving Repr, DecidableEq, Inhabited

def tokenize (s : String) : List Tok :=
  let flush (cur : String) (acc : List Tok) : List Tok := if cur.isEmpty then acc else Tok.atom cur :: acc
  let (cur, acc) := s.toList.foldl (fun (st : String × List Tok) ch =>
    let (cur, acc) := st
    if ch = '(' then ("", Tok.lp :: flush cur acc)
    else if ch = ')' then ("", Tok.rp :: flush cur acc)
    else if ch = '[' then ("", Tok.lb :: flush cur acc)
    else if ch = ']' then ("", Tok.rb :: flush cur acc)
    else if ch = ' ' then ("", flush cur acc)
    else (cur.push ch, acc)) ("", [])
  (flush cur acc).reverse

def parseNats : List Tok → List Nat → Option (List Nat × List Tok)
  | Tok.rb :: rest, acc => some (acc.reverse, rest)
  | Tok.atom a :: rest, acc => match a.toNat? with | some n => parseNats rest (n :: acc) | none => none
  | _, _ => none

/-- parse one recipe; fuel bounds the nesting depth -/
def parseRecipe : Nat → List Tok → Option (Recipe × List Tok)
  | 0, _ => none
  | fuel + 1, Tok.lp :: Tok.atom name :: rest =>
    let nat1 : List Tok → Option (Nat × List Tok) := fun ts =>
      match ts with
      | Tok.atom a :: r => a.toNat?.map (fun n => (n, r))
      | _ => none
    let close : List Tok → Option (List Tok) := fun ts => match ts with | Tok.rp :: r => some r | _ => none
    match name with
    | "Dft" => do let (n, r) ← nat1 rest; let r ← close r; pure (.dft n, r)
    | "Butterfly" => do let (n, r) ← nat1 rest; let r ← close r; pure (.bfly n, r)
    | "PrimeButterfly" => do let (n, r) ← nat1 rest; let r ← close r; pure (.primeBfly n, r)
    | "AvxButterfly" => do let (n, r) ← nat1 rest; let r ← close r; pure (.avxBfly n, r)
    | "MixedRadix" => do
        let (a, r) ← parseRecipe fuel rest; let (b, r) ← parseRecipe fuel r; let r ← close r; pure (.mixedRadix a b, r)
    | "MixedRadixSmall" => do
        let (a, r) ← parseRecipe fuel rest; let (b, r) ← parseRecipe fuel r; let r ← close r; pure (.mixedRadixSmall a b, r)
    | "GoodThomas" => do
        let (a, r) ← parseRecipe fuel rest; let (b, r) ← parseRecipe fuel r; let r ← close r; pure (.goodThomas a b, r)
    | "GoodThomasSmall" => do
        let (a, r) ← parseRecipe fuel rest; let (b, r) ← parseRecipe fuel r; let r ← close r; pure (.goodThomasSmall a b, r)
    | "Raders" => do let (a, r) ← parseRecipe fuel rest; let r ← close r; pure (.raders a, r)
    | "AvxRaders" => do let (a, r) ← parseRecipe fuel rest; let r ← close r; pure (.avxRaders a, r)
    | "Bluesteins" => do
        let (n, r) ← nat1 rest; let (a, r) ← parseRecipe fuel r; let r ← close r; pure (.bluesteins n a, r)
    | "AvxBluesteins" => do
        let (n, r) ← nat1 rest; let (a, r) ← parseRecipe fuel r; let r ← close r; pure (.avxBluesteins n a, r)
    | "Radix4" => do
        let (k, r) ← nat1 rest; let (a, r) ← parseRecipe fuel r; let r ← close r; pure (.radix4 k a, r)
    | "Radix3" => do
        let (k, r) ← nat1 rest; let (a, r) ← parseRecipe fuel r; let r ← close r; pure (.radix3 k a, r)
    | "SseRadix4" => do
        let (k, r) ← nat1 rest; let (a, r) ← parseRecipe fuel r; let r ← close r; pure (.sseRadix4 k a, r)
    | "AvxMixedRadix" => do
        let (k, r) ← nat1 rest; let (a, r) ← parseRecipe fuel r; let r ← close r; pure (.avxMixedRadix k a, r)
    | "RadixN" =>
      match rest with
      | Tok.lb :: r => do
        let (fs, r) ← parseNats r []; let (a, r) ← parseRecipe fuel r; let r ← close r; pure (.radixN fs a, r)
      | _ => none
    | _ => none
  | _, _ => none

def Recipe.parse (s : String) : Option Recipe :=
  match parseRecipe 64 (tokenize s) with
  | some (r, []) => some r
  | _ => none

/-- run a tree over `GF(p)[i]` on `chunks` consecutive chunks; values are `re im re im …` -/
def runFp (p N ω : Nat) (inverse : Bool) (tree : Recipe) (vals : List Nat) : List Nat :=
  let rec pairs : List Nat → List (Fp2 p)
    | a :: b :: rest => ⟨a % p, b % p⟩ :: pairs rest
    | _ => []
  let x : Array (Fp2 p) := (pairs vals).toArray
  let c := fpCtx p N ω inverse
  let y := mapChunks tree.len (tree.sem c) x
  y.toList.flatMap (fun v => [v.re, v.im])

end RFV
