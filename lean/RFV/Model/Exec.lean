/-
L3 Exec — which inner transforms each portable algorithm (and each AVX / SSE algorithm that wraps inner transforms) calls, through which entry point, on which region of the
caller's buffers and with which scratch region: a transcription of the `perform_fft_inplace / _out_of_place / _immut`
bodies (and of `boilerplate_fft_oop!`'s in-place wrapper) of /repo/src/algorithm/*.rs, including the run-time choice
between the caller's buffer and the extra scratch (`if inner_scratch.len() > buffer.len() { … }`).

A region is `(buffer name, offset, length)`.  Outer buffers: `data` (the in-place buffer), `input`, `output`,
`scratch` — the latter already trimmed to the advertised length by `validate_*`.
Correspondence K9 drives the real algorithms with recording mock inner transforms and compares the call lists.
-/
import RFV.Model.Spec

namespace RFV

inductive BufName where
  | data | input | output | scratch
  deriving Repr, DecidableEq, Inhabited

structure Region where
  buf : BufName
  off : Nat
  len : Nat
  deriving Repr, DecidableEq, Inhabited

inductive EntryKind where
  | inplace | oop | immut
  deriving Repr, DecidableEq, Inhabited

/-- one call of an inner transform: `which` = 0 for the first/only inner (width / inner / base), 1 for the second (height) -/
structure Call where
  which : Nat
  kind : EntryKind
  data : Region                -- the buffer transformed in place, or the input of an out-of-place call
  out : Option Region          -- the output of an out-of-place call
  scratch : Region
  deriving Repr, DecidableEq, Inhabited

def reg (b : BufName) (off len : Nat) : Region := ⟨b, off, len⟩

/-- `if a.len() > b.len() { a } else { b }` -/
def pick (a b : Region) : Region := if a.len > b.len then a else b
/-- `if a.len() > 0 { a } else { b }` -/
def pickNonEmpty (a b : Region) : Region := if a.len > 0 then a else b

inductive Algo where
  | mixedRadix | mixedRadixSmall | goodThomas | goodThomasSmall | raders | bluesteins (n : Nat)
  | radixN | radix4 | radix3     -- boilerplate_fft_oop!: identical call structure, separately generated scratch formulas
  -- the crate-private SIMD algorithms that wrap inner transforms (reached through the AVX / SSE planners):
  | avxMixedRadix                -- MixedRadix{2,3,4,5,6,7,8,9,11,12,16}xnAvx: one `boilerplate_mixedradix!` body
  | avxRaders                    -- RadersAvx2
  | avxBluesteins (n : Nat)      -- BluesteinsAvx
  | sseRadix4                    -- SseRadix4 (boilerplate_fft_sse_oop!)
  deriving Repr, DecidableEq, Inhabited

/-- the calls one *chunk* makes.  `len` = the algorithm's length; `s0`, `s1` the specs of its inner transforms
(`s0` = width / inner / base, `s1` = height); `adv` = the advertised scratch length of this entry (the length of the
trimmed scratch slice).  For Good–Thomas `s0`/`s1` are taken after the constructor's swap (`s0.len ≤ s1.len`). -/
def calls (a : Algo) (e : EntryKind) (len : Nat) (s0 s1 : Spec) (adv : Nat) : List Call :=
  let buffer := reg .data 0 len
  let input := reg .input 0 len
  let output := reg .output 0 len
  let scratch := reg .scratch 0 adv
  let selfS := reg .scratch 0 len
  let innerS := reg .scratch len (adv - len)
  match a, e with
  | .mixedRadix, .inplace =>
    [⟨1, .inplace, selfS, none, pick innerS buffer⟩, ⟨0, .oop, buffer, some selfS, innerS⟩]
  | .mixedRadix, .immut =>
    [⟨1, .inplace, output, none, scratch⟩, ⟨0, .inplace, selfS, none, innerS⟩]
  | .mixedRadix, .oop =>
    [⟨1, .inplace, output, none, pick scratch input⟩, ⟨0, .inplace, input, none, pick scratch output⟩]
  | .mixedRadixSmall, .inplace =>
    [⟨1, .inplace, scratch, none, buffer⟩, ⟨0, .oop, buffer, some scratch, reg .scratch 0 0⟩]
  | .mixedRadixSmall, .immut =>
    [⟨1, .inplace, output, none, scratch⟩, ⟨0, .inplace, scratch, none, output⟩]
  | .mixedRadixSmall, .oop =>
    [⟨1, .inplace, output, none, input⟩, ⟨0, .inplace, input, none, output⟩]
  | .goodThomas, .inplace =>
    [⟨0, .inplace, selfS, none, pick innerS buffer⟩, ⟨1, .oop, buffer, some selfS, innerS⟩]
  | .goodThomas, .immut =>
    [⟨0, .inplace, output, none, scratch⟩, ⟨1, .inplace, selfS, none, innerS⟩]
  | .goodThomas, .oop =>
    [⟨0, .inplace, output, none, pick scratch input⟩, ⟨1, .inplace, input, none, pick scratch output⟩]
  | .goodThomasSmall, .inplace =>
    [⟨0, .inplace, scratch, none, buffer⟩, ⟨1, .oop, buffer, some scratch, reg .scratch 0 0⟩]
  | .goodThomasSmall, .immut =>
    [⟨0, .inplace, output, none, scratch⟩, ⟨1, .inplace, scratch, none, output⟩]
  | .goodThomasSmall, .oop =>
    [⟨0, .inplace, output, none, input⟩, ⟨1, .inplace, input, none, output⟩]
  | .raders, .inplace =>
    let m := len - 1
    let s := reg .scratch 0 m
    let extra := reg .scratch m (adv - m)
    let inner := pickNonEmpty extra (reg .data 1 m)
    [⟨0, .inplace, s, none, inner⟩, ⟨0, .inplace, s, none, inner⟩]
  | .raders, .immut =>
    let m := len - 1
    let s := reg .scratch 0 m
    let extra := reg .scratch m (adv - m)
    [⟨0, .inplace, s, none, extra⟩, ⟨0, .inplace, s, none, extra⟩]
  | .raders, .oop =>
    let m := len - 1
    [⟨0, .inplace, reg .output 1 m, none, pickNonEmpty scratch (reg .input 1 m)⟩,
     ⟨0, .inplace, reg .input 1 m, none, pickNonEmpty scratch (reg .output 1 m)⟩]
  | .bluesteins _, _ =>
    let M := s0.len
    let x := reg .scratch 0 M
    let is := reg .scratch M (adv - M)
    [⟨0, .inplace, x, none, is⟩, ⟨0, .inplace, x, none, is⟩]
  | .radixN, .immut => [⟨0, .inplace, output, none, scratch⟩]
  | .radixN, .oop => [⟨0, .inplace, output, none, pickNonEmpty scratch input⟩]
  | .radixN, .inplace =>
    -- boilerplate_fft_oop!: split the scratch at len, run the out-of-place body into it, copy back
    [⟨0, .inplace, selfS, none, pickNonEmpty innerS buffer⟩]
  | .radix4, .immut => [⟨0, .inplace, output, none, scratch⟩]
  | .radix4, .oop => [⟨0, .inplace, output, none, pickNonEmpty scratch input⟩]
  | .radix4, .inplace => [⟨0, .inplace, selfS, none, pickNonEmpty innerS buffer⟩]
  | .radix3, .immut => [⟨0, .inplace, output, none, scratch⟩]
  | .radix3, .oop => [⟨0, .inplace, output, none, pickNonEmpty scratch input⟩]
  | .radix3, .inplace => [⟨0, .inplace, selfS, none, pickNonEmpty innerS buffer⟩]
  -- avx_mixed_radix.rs `boilerplate_mixedradix!`: column butterflies (no inner call), row FFTs, transpose
  | .avxMixedRadix, .inplace => [⟨0, .oop, buffer, some selfS, innerS⟩]
  | .avxMixedRadix, .immut => [⟨0, .inplace, selfS, none, innerS⟩]
  | .avxMixedRadix, .oop => [⟨0, .inplace, input, none, pickNonEmpty scratch output⟩]
  -- avx_raders.rs: `scratch.split_at_mut(self.len())`, the inner FFTs run on `scratch[1..len]`
  | .avxRaders, .inplace =>
    let m := len - 1
    let inner := pickNonEmpty (reg .scratch len (adv - len)) buffer
    [⟨0, .inplace, reg .scratch 1 m, none, inner⟩, ⟨0, .inplace, reg .scratch 1 m, none, inner⟩]
  | .avxRaders, .immut =>
    let m := len - 1
    [⟨0, .inplace, reg .output 1 m, none, reg .scratch 1 m⟩,
     ⟨0, .inplace, reg .scratch 1 m, none, reg .scratch len (adv - len)⟩]
  | .avxRaders, .oop =>
    let m := len - 1
    [⟨0, .inplace, reg .output 1 m, none, pickNonEmpty scratch (reg .input 1 m)⟩,
     ⟨0, .inplace, reg .input 1 m, none, pickNonEmpty scratch (reg .output 1 m)⟩]
  -- avx_bluesteins.rs: `split_at_mut(inner_fft_multiplier.len() * COMPLEX_PER_VECTOR)` (= inner length: the
  -- constructor asserts that the inner length is a multiple of the vector width); out-of-place calls the immutable body
  | .avxBluesteins _, _ =>
    let M := s0.len
    let x := reg .scratch 0 M
    let is := reg .scratch M (adv - M)
    [⟨0, .inplace, x, none, is⟩, ⟨0, .inplace, x, none, is⟩]
  -- sse_radix4.rs: the base FFTs always get an EMPTY scratch (`&mut []`)
  | .sseRadix4, .immut => [⟨0, .inplace, output, none, reg .scratch 0 0⟩]
  | .sseRadix4, .oop => [⟨0, .inplace, output, none, reg .scratch 0 0⟩]
  | .sseRadix4, .inplace => [⟨0, .inplace, selfS, none, reg .scratch 0 0⟩]

/-- the advertised scratch length of (algorithm, entry) from the inner specs — the generated formulas -/
def advertised (a : Algo) (e : EntryKind) (len : Nat) (s0 s1 : Spec) : Nat :=
  match a, e with
  | .mixedRadix, .inplace => Gen.mixedRadix_inplace len s0 s1
  | .mixedRadix, .oop => Gen.mixedRadix_oop len s0 s1
  | .mixedRadix, .immut => Gen.mixedRadix_immut len s0 s1
  | .mixedRadixSmall, .inplace => len
  | .mixedRadixSmall, .oop => 0
  | .mixedRadixSmall, .immut => len
  | .goodThomas, .inplace => Gen.goodThomas_inplace len s0 s1
  | .goodThomas, .oop => Gen.goodThomas_oop len s0 s1
  | .goodThomas, .immut => Gen.goodThomas_immut len s0 s1
  | .goodThomasSmall, .inplace => len
  | .goodThomasSmall, .oop => 0
  | .goodThomasSmall, .immut => len
  | .raders, .inplace => Gen.raders_inplace s0
  | .raders, .oop => Gen.raders_oop s0
  | .raders, .immut => Gen.raders_immut s0
  | .bluesteins _, _ => Gen.bluesteins_scratch s0
  | .radixN, .inplace => Gen.radixN_inplace len s0
  | .radixN, .oop => Gen.radixN_oop len s0
  | .radixN, .immut => Gen.radixN_immut len s0
  | .radix4, .inplace => Gen.radix4_inplace len s0
  | .radix4, .oop => Gen.radix4_oop len s0
  | .radix4, .immut => Gen.radix4_immut len s0
  | .radix3, .inplace => Gen.radix3_inplace len s0
  | .radix3, .oop => Gen.radix3_oop len s0
  | .radix3, .immut => Gen.radix3_immut len s0
  | .avxMixedRadix, .inplace => Gen.avxMixedRadix_inplace len s0
  | .avxMixedRadix, .oop => Gen.avxMixedRadix_oop len s0
  | .avxMixedRadix, .immut => Gen.avxMixedRadix_immut len s0
  | .avxRaders, .inplace => Gen.avxRaders_inplace s0
  | .avxRaders, .oop => Gen.avxRaders_oop s0
  | .avxRaders, .immut => Gen.avxRaders_immut s0
  | .avxBluesteins _, _ => Gen.avxBluesteins_scratch s0
  | .sseRadix4, .inplace => Gen.sseRadix4_inplace len
  | .sseRadix4, .oop => Gen.sseRadix4_oop len
  | .sseRadix4, .immut => Gen.sseRadix4_immut len

/-- what a call needs: scratch for its entry point -/
def Call.need (c : Call) (s0 s1 : Spec) : Nat :=
  let s := if c.which = 0 then s0 else s1
  match c.kind with
  | .inplace => s.inplace
  | .oop => s.oop
  | .immut => s.immut

/-- length of the outer buffer a region lives in -/
def bufLen (len adv : Nat) : BufName → Nat
  | .scratch => adv
  | _ => len

def Region.text (r : Region) : String :=
  let b := match r.buf with | .data => "data" | .input => "input" | .output => "output" | .scratch => "scratch"
  if r.len = 0 then "empty" else s!"{b}[{r.off}+{r.len}]"

def Call.text (c : Call) : String :=
  let k := match c.kind with | .inplace => "inplace" | .oop => "oop" | .immut => "immut"
  let o := match c.out with | some r => " out=" ++ r.text | none => ""
  s!"{c.which}:{k} data={c.data.text}{o} scratch={c.scratch.text}"

end RFV
