/-
L4' Loops — literal transcriptions of the Rust loops that `RFV.Model.Sem` writes in closed ("gather") form.

Conventions
* Index arithmetic is data independent in all of these loops, so every loop is split into
  (1) the literal index computation, producing the list of `(source index, destination index)` pairs in execution
      order, and (2) `copyPairs`, which runs the copies `destination[d] = source[s]` in that order.
* Everything that can panic (or be undefined behaviour) in the Rust code is an `Option`:
  `csub` is a `usize` subtraction (`none` = underflow), `copyPairs`/`applyWrites` return `none` on an out-of-bounds
  access (also for the `get_unchecked` accesses), `assert!`s and divisions by zero return `none`.
  The theorems of `RFV.Props.C01Loops` have the form `loop … = some (closed form)`.
* Loops with a statically unknown trip count carry fuel; `none` on exhausted fuel (proved not to happen).
Mathlib-free; executable (used by the `loops;…` ops of the line-protocol driver once the hooks exist).
-/
import RFV.Model.Sem

namespace RFV
namespace Loops

/-- checked `usize` subtraction -/
def csub (a b : Nat) : Option Nat := if b ≤ a then some (a - b) else none

/-- `l.mapM f` in `Option`, by plain recursion -/
def optMap {β γ : Type} (f : β → Option γ) : List β → Option (List γ)
  | [] => some []
  | b :: bs =>
    match f b with
    | none => none
    | some c =>
      match optMap f bs with
      | none => none
      | some cs => some (c :: cs)

section copy
variable {α : Type}

/-- run the writes `out[o] = v` in order -/
def applyWrites : List (Nat × α) → Array α → Option (Array α)
  | [], out => some out
  | (o, v) :: ws, out => if o < out.size then applyWrites ws (out.setIfInBounds o v) else none

/-- run the copies `out[o] = inp[i]` in order, for a list of pairs `(i, o)` -/
def copyPairs : List (Nat × Nat) → Array α → Array α → Option (Array α)
  | [], _, out => some out
  | (i, o) :: ps, inp, out =>
    match inp[i]? with
    | none => none
    | some v => if o < out.size then copyPairs ps inp (out.setIfInBounds o v) else none

end copy

/-! ## 4. Rader: the index recurrences of `RadersAlgorithm::new` and `perform_fft_*` -/

/-- `for … { idx = (idx * g) % p; use idx }`, `n` iterations -/
def mulIdxLoop (p g : Nat) : Nat → Nat → List Nat
  | 0, _ => []
  | n + 1, idx =>
    let idx' := idx * g % p
    idx' :: mulIdxLoop p g n idx'

/-- the values of `input_index` in the input-reordering loop (`let mut input_index = 1`) -/
def radersInputIdx (p g : Nat) : List Nat := mulIdxLoop p g (p - 1) 1

/-- the values of `output_index` in the output-reordering loop (`let mut output_index = 1`) -/
def radersOutputIdx (p gi : Nat) : List Nat := mulIdxLoop p gi (p - 1) 1

/-- `for … { use t; t = (t * gi) % p }`, `n` iterations -/
def twiddleInputLoop (p gi : Nat) : Nat → Nat → List Nat
  | 0, _ => []
  | n + 1, t => t :: twiddleInputLoop p gi n (t * gi % p)

/-- the values of `twiddle_input` in the constructor (`let mut twiddle_input = 1`) -/
def radersTwiddleInputs (p gi : Nat) : List Nat := twiddleInputLoop p gi (p - 1) 1

section raders
variable {α : Type}

/-- `let (input_first, input) = input.split_first(); scratch[i] = input[input_index - 1]` -/
def radersGather (p g : Nat) (x : Array α) : Option (Array α) :=
  let tail := x.extract 1 x.size
  (optMap (fun idx => match csub idx 1 with
    | none => none
    | some j => tail[j]?) (radersInputIdx p g)).map List.toArray

/-- `let (output_first, output) = output.split_first_mut(); output[output_index - 1] = vals[i]`;
position `j` of the tail is position `1 + j` of the whole buffer -/
def radersScatter (p gi : Nat) (vals : List α) (out : Array α) : Option (Array α) :=
  match optMap (fun (iv : Nat × α) => match csub iv.1 1 with
    | none => none
    | some j => if j < out.size - 1 then some (1 + j, iv.2) else none) ((radersOutputIdx p gi).zip vals) with
  | none => none
  | some ws => applyWrites ws out

end raders

/-! ## 3. `array_utils`: `reverse_bits`, `reverse_remainders`, `compute_logarithm`, the two transposes -/

/-- `for _ in 0..rev_digits { result = result * D + value % D; value = value / D }` -/
def reverseBitsLoop (D : Nat) : Nat → Nat → Nat → Nat
  | 0, _, result => result
  | n + 1, value, result => reverseBitsLoop D n (value / D) (result * D + value % D)

/-- `reverse_bits::<D>(value, rev_digits)` -/
def reverseBits (D value revDigits : Nat) : Nat := reverseBitsLoop D revDigits value 0

/-- the inner `for _ in 0..f.count` loop of `reverse_remainders`, on the state `(value, result)` -/
def digitLoop (f : Nat) : Nat → Nat × Nat → Nat × Nat
  | 0, s => s
  | n + 1, (value, result) => digitLoop f n (value / f, result * f + value % f)

/-- the outer `for f in factors.iter()` loop, `factors` as `(radix, count)` pairs -/
def reverseRemaindersLoop : List (Nat × Nat) → Nat × Nat → Nat × Nat
  | [], s => s
  | (f, cnt) :: rest, s => reverseRemaindersLoop rest (digitLoop f cnt s)

/-- `reverse_remainders(value, factors)` -/
def reverseRemaindersTf (value : Nat) (factors : List (Nat × Nat)) : Nat :=
  (reverseRemaindersLoop factors (value, 0)).2

/-- one iteration of the run-length encoding in `RadixN::new`: `last.count += 1` or `push (f, 1)` -/
def rlePush (acc : List (Nat × Nat)) (f : Nat) : List (Nat × Nat) :=
  match acc.getLast? with
  | some (g, cnt) => if g = f then acc.dropLast ++ [(g, cnt + 1)] else acc ++ [(f, 1)]
  | none => acc ++ [(f, 1)]

/-- `RadixN::new`: `for f in factors.iter().rev() { … }` -/
def transposeFactors (fs : List Nat) : List (Nat × Nat) := fs.reverse.foldl rlePush []

/-- `while current_value % D == 0 { current_exponent += 1; current_value /= D }` -/
def logLoop (D : Nat) : Nat → Nat → Nat → Option (Nat × Nat)
  | 0, _, _ => none
  | fuel + 1, e, cur => if cur % D = 0 then logLoop D fuel (e + 1) (cur / D) else some (e, cur)

/-- `compute_logarithm::<D>(value)` -/
def computeLogarithm (D value : Nat) : Option Nat :=
  if value = 0 ∨ D < 2 then none else
  match logLoop D (value + 1) 0 value with
  | some (e, cur) => if cur = 1 then some e else none
  | none => none

/-- `usize::trailing_zeros` for a non-zero argument (`0` is mapped to `0` here; the intrinsic gives the bit width) -/
def trailingZerosLoop : Nat → Nat → Nat
  | 0, _ => 0
  | fuel + 1, n => if n = 0 then 0 else if n % 2 = 0 then trailingZerosLoop fuel (n / 2) + 1 else 0

def trailingZeros (n : Nat) : Nat := trailingZerosLoop n n

/-- `usize::is_power_of_two` -/
def isPowerOfTwo (n : Nat) : Bool := n != 0 && 2 ^ trailingZeros n == n

/-- the `rev_digits` computation at the top of `bitreversed_transpose` (with its `assert!`/`unwrap`) -/
def revDigits (D width : Nat) : Option Nat :=
  if isPowerOfTwo D then
    let widthBits := trailingZeros width
    let dBits := trailingZeros D
    if dBits = 0 then none                       -- `% 0`
    else if widthBits % dBits = 0 then some (widthBits / dBits) else none
  else computeLogarithm D width

/-- the index pairs `(input_index, output_index)` of the three nested loops
`for x in 0..width/D { for y in 0..height { for i in 0..D { … } } }`, `x_fwd[i] = D*x + i`, `x_rev[i] = rev (x_fwd[i])` -/
def transposePairs (D height width : Nat) (rev : Nat → Nat) : List (Nat × Nat) :=
  (List.range (width / D)).flatMap fun x =>
    (List.range height).flatMap fun y =>
      (List.range D).map fun i => (D * x + i + y * width, y + rev (D * x + i) * height)

/-- `for r in x_rev { assert!(r < width) }` for every `x` -/
def transposeAsserts (D width : Nat) (rev : Nat → Nat) : Bool :=
  (List.range (width / D)).all fun x => (List.range D).all fun i => rev (D * x + i) < width

section transposes
variable {α : Type}

/-- `bitreversed_transpose::<T, D>(height, input, output)` -/
def bitreversedTranspose (D height : Nat) (input output : Array α) : Option (Array α) :=
  if height = 0 then none else                   -- `input.len() / height`
  let width := input.size / height
  if ¬ (D > 1 ∧ input.size % height = 0 ∧ input.size = output.size) then none else
  match revDigits D width with
  | none => none
  | some digits =>
    let rev := fun v => reverseBits D v digits
    if transposeAsserts D width rev then copyPairs (transposePairs D height width rev) input output else none

/-- `factor_transpose::<T, D>(height, input, output, factors)` -/
def factorTranspose (D height : Nat) (input output : Array α) (factors : List (Nat × Nat)) : Option (Array α) :=
  if height = 0 then none else                   -- `input.len() / height`
  let width := input.size / height
  if width = 0 then none else                    -- the assert fails on `D > 1`, or `input.len() % width` divides by zero
  if ¬ (width % D = 0 ∧ D > 1 ∧ input.size % width = 0 ∧ input.size = output.size) then none else
  let rev := fun v => reverseRemaindersTf v factors
  if transposeAsserts D width rev then copyPairs (transposePairs D height width rev) input output else none

/-- the transpose step of `RadixN::perform_fft_*`: unroll by the first transpose factor; plain copy without factors -/
def radixNTranspose (fs : List Nat) (baseLen : Nat) (input output : Array α) : Option (Array α) :=
  match transposeFactors fs with
  | [] => if input.size = output.size then some input else none      -- `output.copy_from_slice(input)`
  | (d, cnt) :: rest => factorTranspose d baseLen input output ((d, cnt) :: rest)

/-- the transpose step of `Radix4`/`Radix3`/`SseRadix4::perform_fft_*`:
`if self.len() == self.base_len { output.copy_from_slice(input) } else { bitreversed_transpose::<_, D>(…) }`
(`bitreversed_transpose` itself writes nothing when `width = 1`, because `strided_width = 1 / D = 0`) -/
def radixDTranspose (D baseLen : Nat) (input output : Array α) : Option (Array α) :=
  if input.size = baseLen then (if input.size = output.size then some input else none)
  else bitreversedTranspose D baseLen input output

end transposes

/-! ## 2. `GoodThomasAlgorithmSmall::new`: `extended_gcd` and the two index maps -/

/-- the loop of `num_integer::Integer::extended_gcd` on the state `(r, s, t)` of pairs -/
def extGcdLoop : Nat → (Int × Int) → (Int × Int) → (Int × Int) → Option ((Int × Int) × (Int × Int) × (Int × Int))
  | 0, _, _, _ => none
  | fuel + 1, r, s, t =>
    if r.1 = 0 then some (r, s, t) else
    let q := Int.tdiv r.2 r.1                     -- `/` of `i64` truncates
    extGcdLoop fuel (r.2 - q * r.1, r.1) (s.2 - q * s.1, s.1) (t.2 - q * t.1, t.1)

/-- `i64::extended_gcd(a, b)` as `(gcd, x, y)` -/
def extendedGcd (a b : Int) : Option (Int × Int × Int) :=
  match extGcdLoop (b.toNat + 2) (b, a) (0, 1) (1, 0) with
  | none => none
  | some (r, s, t) => if r.2 ≥ 0 then some (r.2, s.2, t.2) else some (0 - r.2, 0 - s.2, 0 - t.2)

/-- `(… ) as usize` of an `i64`: `none` stands for the wrap-around of a negative value -/
def asUsize (z : Int) : Option Nat := if 0 ≤ z then some z.toNat else none

/-- `(width_inverse, height_inverse)` of `GoodThomasAlgorithmSmall::new` -/
def gtSmallInverses (w h : Nat) : Option (Nat × Nat) :=
  match extendedGcd (w : Int) (h : Int) with
  | none => none
  | some (g, x, y) =>
    if g ≠ 1 then none else                        -- `assert!(gcd_data.gcd == 1, …)`
    match asUsize (if x ≥ 0 then x else x + (h : Int)), asUsize (if y ≥ 0 then y else y + (w : Int)) with
    | some wi, some hi => some (wi, hi)
    | _, _ => none

/-- `input_iter`: `(0..len).map(|i| (i % width, i / width)).map(|(x, y)| (x * height + y * width) % len)` -/
def gtSmallInputMap (w h : Nat) : List Nat :=
  (List.range (w * h)).map fun i =>
    let x := i % w
    let y := i / w
    (x * h + y * w) % (w * h)

/-- `output_iter` -/
def gtSmallOutputMap (w h wInv hInv : Nat) : List Nat :=
  (List.range (w * h)).map fun i =>
    let y := i % h
    let x := i / h
    (x * h * hInv + y * w * wInv) % (w * h)

section gtSmall
variable {α : Type}

/-- `for (output_element, &input_index) in output.iter_mut().zip(input_map.iter()) { *output_element = input[input_index] }` -/
def gtSmallReindexInput (w h : Nat) (input output : Array α) : Option (Array α) :=
  copyPairs ((gtSmallInputMap w h).zip (List.range output.size)) input output

/-- `for (input_element, &output_index) in scratch.iter().zip(output_map.iter()) { output[output_index] = *input_element }` -/
def gtSmallReindexOutput (w h wInv hInv : Nat) (input output : Array α) : Option (Array α) :=
  copyPairs ((List.range input.size).zip (gtSmallOutputMap w h wInv hInv)) input output

end gtSmall

/-! ## 1. `GoodThomasAlgorithm::reindex_input` / `reindex_output` -/

/-- `for e in row { destination[di] = *e; di += step }` over `n` elements: the indices written, and the final `di` -/
def incRun (step : Nat) : Nat → Nat → List Nat × Nat
  | 0, di => ([], di)
  | n + 1, di =>
    let r := incRun step n (di + step)
    (di :: r.1, r.2)

/-- the body of `for mut source_row in source.chunks_exact(self.width)`: destination indices of the row's `w` elements
in order, and `destination_index` after the row -/
def reindexInputRow (w len di : Nat) : Option (List Nat × Nat) :=
  match csub len di with                                   -- `self.len() - destination_index`
  | none => none
  | some rem =>
    let incrementsUntilCycle := 1 + rem / (w + 1)
    if incrementsUntilCycle < w then
      let pre := incRun (w + 1) incrementsUntilCycle di       -- `pre_cycle_row`
      match csub pre.2 len with                            -- `destination_index -= self.len()`
      | none => none
      | some di1 =>
        let post := incRun (w + 1) (w - incrementsUntilCycle) di1   -- `post_cycle_row`
        match csub post.2 w with                           -- `destination_index -= self.width`
        | none => none
        | some di2 => some (pre.1 ++ post.1, di2)
    else
      let run := incRun (w + 1) w di
      match csub run.2 w with
      | none => none
      | some di2 => some (run.1, di2)

/-- all rows -/
def reindexInputRows (w len : Nat) : Nat → Nat → Option (List Nat)
  | 0, _ => some []
  | rows + 1, di =>
    match reindexInputRow w len di with
    | none => none
    | some (l, di') =>
      match reindexInputRows w len rows di' with
      | none => none
      | some rest => some (l ++ rest)

/-- the destination index of every source element, in source order (`chunks_exact(w)` yields `len / w` rows) -/
def reindexInputIdx (w h : Nat) : Option (List Nat) :=
  if w = 0 then none else reindexInputRows w (w * h) (w * h / w) 0     -- `chunks_exact(0)` panics

/-- the body of `for (y, source_chunk) in source.chunks_exact(self.height).enumerate()`:
pairs `(index in the chunk, destination index)` in execution order -/
def reindexOutputRow (w h y : Nat) : Option (List (Nat × Nat)) :=
  if w = 0 then none else                                  -- `div_rem(_, 0)`
  let quotient := y * h / w
  let remainder := y * h % w
  match csub h quotient with                               -- `self.height - quotient`
  | none => none
  | some startX =>
    let first := incRun w (h - startX) remainder            -- `for x in start_x..self.height`
    let second := incRun w startX first.2                   -- `for x in 0..start_x`
    some (((List.range (h - startX)).map (startX + ·)).zip first.1 ++ (List.range startX).zip second.1)

def reindexOutputRows (w h : Nat) : List Nat → Option (List (Nat × Nat))
  | [] => some []
  | y :: ys =>
    match reindexOutputRow w h y with
    | none => none
    | some l =>
      match reindexOutputRows w h ys with
      | none => none
      | some rest => some (l.map (fun p => (y * h + p.1, p.2)) ++ rest)

/-- `(source index, destination index)` pairs of `reindex_output` (`chunks_exact(h)` yields `len / h` chunks) -/
def reindexOutputPairs (w h : Nat) : Option (List (Nat × Nat)) :=
  if h = 0 then none else reindexOutputRows w h (List.range (w * h / h))

section gtBig
variable {α : Type}

/-- `GoodThomasAlgorithm::reindex_input(source, destination)` -/
def reindexInput (w h : Nat) (source destination : Array α) : Option (Array α) :=
  match reindexInputIdx w h with
  | none => none
  | some idx => copyPairs ((List.range (w * h)).zip idx) source destination

/-- `GoodThomasAlgorithm::reindex_output(source, destination)` -/
def reindexOutput (w h : Nat) (source destination : Array α) : Option (Array α) :=
  match reindexOutputPairs w h with
  | none => none
  | some ps => copyPairs ps source destination

end gtBig

section gtBigFft
variable {K : Type} [Add K] [Mul K] [Zero K]

/-- `GoodThomasAlgorithm::perform_fft_*` (after the constructor's swap, so `w ≤ h`): literal re-indexing loops,
inner FFTs on consecutive chunks, and the `transpose` crate's out-of-place transpose in closed form.
`buf` is the (arbitrary) previous content of the buffers that the re-indexing loops overwrite. -/
def goodThomasBig (w h : Nat) (fw fh : Array K → Array K) (buf x : Array K) : Option (Array K) :=
  match reindexInput w h x buf with
  | none => none
  | some a =>
    let b := mapChunks w fw a
    let t := tab (w * h) (fun i => at' b (i / h + (i % h) * w))       -- `transpose::transpose(b, t, w, h)`
    let d := mapChunks h fh t
    reindexOutput w h d buf

end gtBigFft

end Loops
end RFV
