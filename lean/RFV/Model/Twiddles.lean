/-
Twiddle-index model for C02 (here overflow *is* the property, so machine words are modelled):
`fill_bluesteins_twiddles` computes `i*i` in `u64` when `len < u32::MAX` and in `u128` otherwise, reduces it modulo
`2*len` in integer arithmetic, and only then converts to floating point.
-/
namespace RFV

def u32Max : Nat := 2 ^ 32 - 1

/-- the index handed to `compute_twiddle` for entry `i` of a Bluestein twiddle table of length `len`,
with wrapping machine multiplication in the word size the code selects (release-build semantics) -/
def chirpIndex (len i : Nat) : Nat :=
  if len < u32Max then ((i % 2 ^ 64) * (i % 2 ^ 64) % 2 ^ 64) % (2 * len)
  else ((i % 2 ^ 128) * (i % 2 ^ 128) % 2 ^ 128) % (2 * len)

end RFV
