/-
L1 Planner — transcription of /repo/src/plan.rs (FftPlannerScalar) and /repo/src/sse/sse_planner.rs
(FftPlannerSse) recipe design, branch for branch. Every `assert!/unwrap/panic!` is an `Except.error`.
Recursion is fuel-bounded (`Props/C04` proves that fuel never runs out and that no error is reachable).
-/
import RFV.Model.Arith

namespace RFV

inductive Recipe where
  | dft (n : Nat)
  | bfly (n : Nat)
  | primeBfly (n : Nat)
  | mixedRadix (l r : Recipe)
  | mixedRadixSmall (l r : Recipe)
  | goodThomas (l r : Recipe)
  | goodThomasSmall (l r : Recipe)
  | raders (inner : Recipe)
  | bluesteins (n : Nat) (inner : Recipe)
  | radixN (fs : List Nat) (base : Recipe)
  | radix4 (k : Nat) (base : Recipe)
  | radix3 (k : Nat) (base : Recipe)          -- public constructor only; no planner emits it
  | sseRadix4 (k : Nat) (base : Recipe)       -- `SseRadix4`, what the SSE planner builds for `Recipe::Radix4`
  | avxBfly (n : Nat)                         -- `Butterfly{n}Avx[64]`
  | avxMixedRadix (radix : Nat) (inner : Recipe)   -- `MixedRadix{radix}xnAvx`
  | avxRaders (inner : Recipe)                -- `RadersAvx2`
  | avxBluesteins (n : Nat) (inner : Recipe)  -- `BluesteinsAvx`
  deriving Repr, DecidableEq, Inhabited

namespace Recipe

def len : Recipe → Nat
  | dft n => n
  | bfly n => n
  | primeBfly n => n
  | mixedRadix l r => l.len * r.len
  | mixedRadixSmall l r => l.len * r.len
  | goodThomas l r => l.len * r.len
  | goodThomasSmall l r => l.len * r.len
  | raders i => i.len + 1
  | bluesteins n _ => n
  | radixN fs b => b.len * fs.foldl (· * ·) 1
  | radix4 k b => b.len * 2 ^ (2 * k)
  | radix3 k b => b.len * 3 ^ k
  | sseRadix4 k b => b.len * 2 ^ (2 * k)
  | avxBfly n => n
  | avxMixedRadix r i => r * i.len
  | avxRaders i => i.len + 1
  | avxBluesteins n _ => n

def text : Recipe → String
  | dft n => s!"(Dft {n})"
  | bfly n => s!"(Butterfly {n})"
  | primeBfly n => s!"(PrimeButterfly {n})"
  | mixedRadix l r => s!"(MixedRadix {l.text} {r.text})"
  | mixedRadixSmall l r => s!"(MixedRadixSmall {l.text} {r.text})"
  | goodThomas l r => s!"(GoodThomas {l.text} {r.text})"
  | goodThomasSmall l r => s!"(GoodThomasSmall {l.text} {r.text})"
  | raders i => s!"(Raders {i.text})"
  | bluesteins n i => s!"(Bluesteins {n} {i.text})"
  | radixN fs b => s!"(RadixN [{" ".intercalate (fs.map toString)}] {b.text})"
  | radix4 k b => s!"(Radix4 {k} {b.text})"
  | radix3 k b => s!"(Radix3 {k} {b.text})"
  | sseRadix4 k b => s!"(Radix4 {k} {b.text})"
  | avxBfly n => s!"(AvxButterfly {n})"
  | avxMixedRadix r i => s!"(AvxMixedRadix {r} {i.text})"
  | avxRaders i => s!"(AvxRaders {i.text})"
  | avxBluesteins n i => s!"(AvxBluesteins {n} {i.text})"

end Recipe

/-- `usize::is_power_of_two` -/
def isPowerOfTwo (n : Nat) : Bool := n > 0 && (strip 2 n).1 == 1

/-- `usize::checked_next_power_of_two` (none on overflow is out of range for the model: `Nat`). -/
def nextPowerOfTwoAux : Nat → Nat → Nat → Nat
  | 0, _, p => p
  | fuel + 1, n, p => if p < n then nextPowerOfTwoAux fuel n (2 * p) else p
def nextPowerOfTwo (n : Nat) : Nat := nextPowerOfTwoAux (n + 1) n 1

def scalarButterflies : List Nat := [2, 3, 4, 5, 6, 7, 8, 9, 11, 12, 13, 16, 17, 19, 23, 24, 27, 29, 31, 32]
/-- the list inside `design_butterfly_product` (note: no 12) -/
def scalarProductButterflies : List Nat := [2, 3, 4, 5, 6, 7, 8, 9, 11, 13, 16, 17, 19, 23, 24, 27, 29, 31, 32]

def MAX_RADIXN_FACTOR : Nat := 7
def MAX_RADER_PRIME_FACTOR : Nat := 23

/-- `(len as f64).sqrt().ceil() as usize + 1` for `len ≤ 992` (exact in f64): ceil of the real square root. -/
def ceilSqrt (n : Nat) : Nat := let s := Nat.sqrt n; if s * s = n then s else s + 1

/-- the search loop of `design_butterfly_product` -/
def butterflyProductSearch (len limit : Nat) : List Nat → Nat → Option (Nat × Nat) → Option (Nat × Nat)
  | [], _, found => found
  | left :: rest, minSum, found =>
    if left < limit then
      let right := len / left
      if left * right = len ∧ scalarProductButterflies.contains right then
        let sum := left + right
        if sum < minSum then butterflyProductSearch len limit rest sum (some (left, right))
        else butterflyProductSearch len limit rest minSum found
      else butterflyProductSearch len limit rest minSum found
    else found   -- take_while stops at the first element ≥ limit

/-- peel `cross_len` by 7, 6, 5, 3 as in `design_radixn` -/
def peel (d : Nat) (cross : Nat) : Nat × List Nat :=
  let (c, k) := strip d cross
  (c, List.replicate k d)

def countOf (others : List PrimeFactor) (v : Nat) : Nat :=
  match others.find? (fun f => f.value = v) with
  | some f => f.count
  | none => 0

/-- Bluestein inner length of the scalar and SSE planners (`design_prime`) -/
def bluesteinInnerLen (len : Nat) : Nat :=
  let minInner := 2 * len - 1
  let pow2 := nextPowerOfTwo minInner
  let f3 := pow2 / 4 * 3
  if f3 ≥ minInner then f3 else pow2

mutual

/-- `FftPlannerScalar::design_fft_for_len` (the recipe cache is semantically transparent: see Props/C10) -/
def scalarForLen : Nat → Nat → Except String Recipe
  | 0, _ => .error "fuel"
  | fuel + 1, len =>
    if len < 2 then .ok (.dft len) else
    match PrimeFactors.compute len with
    | .error e => .error e
    | .ok factors => scalarWithFactors fuel len factors

/-- `design_fft_with_factors` -/
def scalarWithFactors : Nat → Nat → PrimeFactors → Except String Recipe
  | 0, _, _ => .error "fuel"
  | fuel + 1, len, factors =>
    if scalarButterflies.contains len then .ok (.bfly len)
    else if factors.isPrime then scalarPrime fuel len
    else
      -- design_butterfly_product
      let prod : Option (Nat × Nat) :=
        if len > 992 ∨ isPowerOfTwo len then none
        else butterflyProductSearch len (ceilSqrt len + 1) scalarProductButterflies (2 ^ 64) none
      match prod with
      | some (l, r) =>
        match scalarForLen fuel l, scalarForLen fuel r with
        | .ok lf, .ok rf =>
          if Nat.gcd l r = 1 then .ok (.goodThomasSmall lf rf) else .ok (.mixedRadixSmall lf rf)
        | .error e, _ => .error e
        | _, .error e => .error e
      | none =>
        if factors.hasFactorsLeq MAX_RADIXN_FACTOR then scalarRadixN fuel factors
        else
          match factors.partition with
          | .error e => .error e
          | .ok (lf, rf) => scalarMixedRadix fuel lf rf

/-- `design_mixed_radix` -/
def scalarMixedRadix : Nat → PrimeFactors → PrimeFactors → Except String Recipe
  | 0, _, _ => .error "fuel"
  | fuel + 1, lf, rf =>
    let l := lf.product
    let r := rf.product
    match scalarWithFactors fuel l lf, scalarWithFactors fuel r rf with
    | .ok a, .ok b =>
      if l < 31 ∧ r < 31 then
        if Nat.gcd l r = 1 then .ok (.goodThomasSmall a b) else .ok (.mixedRadixSmall a b)
      else .ok (.mixedRadix a b)
    | .error e, _ => .error e
    | _, .error e => .error e

/-- `design_radixn` -/
def scalarRadixN : Nat → PrimeFactors → Except String Recipe
  | 0, _ => .error "fuel"
  | fuel + 1, factors =>
    let p2 := factors.p2
    let p3 := factors.p3
    let p5 := countOf factors.others 5
    let p7 := countOf factors.others 7
    let baseLen : Except String Nat :=
      if factors.hasFactorsGt MAX_RADIXN_FACTOR then .ok (factors.productAbove MAX_RADIXN_FACTOR)
      else if p7 = 0 ∧ p5 = 0 ∧ p3 < 2 then
        if p3 = 0 then
          if ¬ (p2 > 5) then .error "design_radixn: assert!(p2 > 5)"
          else .ok (if p2 % 2 = 1 then 8 else 16)
        else
          if ¬ (p2 > 3) then .error "design_radixn: assert!(p2 > 3)"
          else .ok (if p2 % 2 = 1 then 24 else 12)
      else if p2 > 0 ∧ p3 > 0 then
        .ok (match p2 - p3 with | 0 => 6 | 1 => 12 | _ => 24)
      else if p3 > 2 then .ok 27
      else if p3 > 1 then .ok 9
      else if p7 > 0 then .ok 7
      else if ¬ (p5 > 0) then .error "design_radixn: assert!(p5 > 0)"
      else .ok 5
    match baseLen with
    | .error e => .error e
    | .ok baseLen =>
      if baseLen = 0 then .error "design_radixn: division by zero" else
      match scalarForLen fuel baseLen with
      | .error e => .error e
      | .ok base =>
        let cross := factors.product / baseLen
        let crossBits := trailingZeros cross
        if isPowerOfTwo cross ∧ crossBits % 2 = 0 then .ok (.radix4 (crossBits / 2) base)
        else
          let (c, f7) := peel 7 cross
          let (c, f6) := peel 6 c
          let (c, f5) := peel 5 c
          let (c, f3) := peel 3 c
          if ¬ isPowerOfTwo c then .error "design_radixn: assert!(cross_len.is_power_of_two())" else
          let bits := trailingZeros c
          let f2 := if bits % 2 = 1 then [2] else []
          .ok (.radixN (f7 ++ f6 ++ f5 ++ f3 ++ f2 ++ List.replicate (bits / 2) 4) base)

/-- `design_prime` -/
def scalarPrime : Nat → Nat → Except String Recipe
  | 0, _ => .error "fuel"
  | fuel + 1, len =>
    match PrimeFactors.compute (len - 1) with
    | .error e => .error e
    | .ok rf =>
      if rf.others.any (fun f => f.value > MAX_RADER_PRIME_FACTOR) then
        match scalarForLen fuel (bluesteinInnerLen len) with
        | .ok inner => .ok (.bluesteins len inner)
        | .error e => .error e
      else
        match scalarWithFactors fuel (len - 1) rf with
        | .ok inner => .ok (.raders inner)
        | .error e => .error e

end

/-- fuel that provably suffices (Props/C04): the recursion depth is at most logarithmic, we give linear + slack -/
def planFuel (len : Nat) : Nat := 4 * len + 64

def planScalar (len : Nat) : Except String Recipe := scalarForLen (planFuel len) len

/-! ### SSE planner -/

def sseHandButterflies : List Nat := [2, 3, 4, 5, 6, 8, 9, 10, 12, 15, 16, 24, 32]
def ssePrimeButterflies : List Nat := [7, 11, 13, 17, 19, 23, 29, 31]
/-- `all_butterflies`, sorted -/
def sseAllButterflies : List Nat := [2, 3, 4, 5, 6, 7, 8, 9, 10, 11, 12, 13, 15, 16, 17, 19, 23, 24, 29, 31, 32]
def MIN_RADIX4_BITS : Nat := 6

/-- the butterfly-pair loop in `design_fft_with_factors` (SSE): the *last* admissible pair wins -/
def ssePairSearch (len : Nat) : List Nat → Nat × Nat → Nat × Nat
  | [], acc => acc
  | l :: rest, acc =>
    if len % l = 0 ∧ (l :: rest).contains (len / l) then ssePairSearch len rest (l, len / l)
    else ssePairSearch len rest acc

def sseButterfly (len : Nat) : Option Recipe :=
  if len = 1 ∨ sseHandButterflies.contains len then some (.bfly len)
  else if ssePrimeButterflies.contains len then some (.primeBfly len)
  else none

mutual

def sseForLen : Nat → Nat → Except String Recipe
  | 0, _ => .error "fuel"
  | fuel + 1, len =>
    if len < 1 then .ok (.dft len) else
    match PrimeFactors.compute len with
    | .error e => .error e
    | .ok factors => sseWithFactors fuel len factors

def sseWithFactors : Nat → Nat → PrimeFactors → Except String Recipe
  | 0, _, _ => .error "fuel"
  | fuel + 1, len, factors =>
    match sseButterfly len with
    | some r => .ok r
    | none =>
    if factors.isPrime then ssePrime fuel len
    else if trailingZeros len ≥ MIN_RADIX4_BITS then
      if factors.others.isEmpty ∧ factors.p3 < 2 then sseRadix4 fuel factors
      else
        match factors.removeFactors ⟨2, trailingZeros len⟩ with
        | .error e => .error e
        | .ok none => .error "design_fft_with_factors: remove_factors(..).unwrap()"
        | .ok (some npt) =>
          match PrimeFactors.compute (2 ^ trailingZeros len) with
          | .error e => .error e
          | .ok pt => sseMixedRadix fuel pt npt
    else
      let pair := if len > 13 ∧ len ≤ 1024 then ssePairSearch len sseAllButterflies (0, 0) else (0, 0)
      if pair.1 > 0 then
        match PrimeFactors.compute pair.1, PrimeFactors.compute pair.2 with
        | .ok fl, .ok fr => sseMixedRadix fuel fl fr
        | .error e, _ => .error e
        | _, .error e => .error e
      else
        match factors.partition with
        | .error e => .error e
        | .ok (lf, rf) => sseMixedRadix fuel lf rf

def sseMixedRadix : Nat → PrimeFactors → PrimeFactors → Except String Recipe
  | 0, _, _ => .error "fuel"
  | fuel + 1, lf, rf =>
    let l := lf.product
    let r := rf.product
    match sseWithFactors fuel l lf, sseWithFactors fuel r rf with
    | .ok a, .ok b =>
      if l < 33 ∧ r < 33 then
        if Nat.gcd l r = 1 then .ok (.goodThomasSmall a b) else .ok (.mixedRadixSmall a b)
      else .ok (.mixedRadix a b)
    | .error e, _ => .error e
    | _, .error e => .error e

def sseRadix4 : Nat → PrimeFactors → Except String Recipe
  | 0, _ => .error "fuel"
  | fuel + 1, factors =>
    if ¬ (factors.others.isEmpty ∧ factors.p3 < 2) then .error "design_radix4: assert!(other_factors.is_empty() && p3 < 2)" else
    let p2 := factors.p2
    let baseLen : Nat :=
      if factors.p3 = 0 then
        match p2 with
        | 0 => 1 | 1 => 2 | 2 => 4 | 3 => 8
        | _ => if p2 % 2 = 1 then 32 else 16
      else
        match p2 with
        | 0 => 3 | 1 => 6
        | _ => if p2 % 2 = 1 then 24 else 12
    let cross := factors.product / baseLen
    if ¬ isPowerOfTwo cross then .error "design_radix4: assert!(cross_len.is_power_of_two())" else
    let bits := trailingZeros cross
    if bits % 2 ≠ 0 then .error "design_radix4: assert!(cross_bits % 2 == 0)" else
    match sseForLen fuel baseLen with
    | .ok base => .ok (.sseRadix4 (bits / 2) base)
    | .error e => .error e

def ssePrime : Nat → Nat → Except String Recipe
  | 0, _ => .error "fuel"
  | fuel + 1, len =>
    match PrimeFactors.compute (len - 1) with
    | .error e => .error e
    | .ok rf =>
      if rf.others.any (fun f => f.value > MAX_RADER_PRIME_FACTOR) then
        match sseForLen fuel (bluesteinInnerLen len) with
        | .ok inner => .ok (.bluesteins len inner)
        | .error e => .error e
      else
        match sseWithFactors fuel (len - 1) rf with
        | .ok inner => .ok (.raders inner)
        | .error e => .error e

end

def planSse (len : Nat) : Except String Recipe := sseForLen (planFuel len) len

end RFV
