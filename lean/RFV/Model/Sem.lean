/-
L4 Sem — the function each algorithm computes, written as the algorithm's own decomposition
(index maps, twiddles, inner transforms), generic in the element type `K` (a commutative ring in the theorems;
`GF(p)[i]` in the executable instance).  Arrays are used so that every stage is materialised once.

`Ctx.tw i n` stands for `compute_twiddle(i, n, direction)` *in the direction of the transform*
(the inverse direction is the conjugate), `Ctx.conj` for `Complex::conj`, `Ctx.inv m` for `T::one() / T::from_usize(m)`.

Scatter loops of the Rust code whose target index is a bijection are written here in gather form
(the inverse index map is stated next to each); correspondence K4 compares outputs exactly, so a wrong
inverse would show up as a disagreement.
-/
import RFV.Model.Plan

namespace RFV

structure Ctx (K : Type) where
  tw : Nat → Nat → K
  conj : K → K
  inv : Nat → K

section
variable {K : Type} [Add K] [Mul K] [Zero K]

/-- `Σ_{j<n} f j` -/
def sumTo (f : Nat → K) : Nat → K
  | 0 => 0
  | n + 1 => sumTo f n + f n

/-- the array `[f 0, …, f (n-1)]` -/
def tab (n : Nat) (f : Nat → K) : Array K := Array.ofFn (n := n) (fun i => f i.val)

/-- total indexing (0 outside) -/
def at' (a : Array K) (i : Nat) : K := a.getD i 0

/-- apply `f` to every consecutive chunk of length `n` (what `process_with_scratch` does on a longer buffer) -/
def mapChunks (n : Nat) (f : Array K → Array K) (x : Array K) : Array K :=
  if n = 0 then x else
  let outs : Array (Array K) := Array.ofFn (n := x.size / n) (fun c => f (x.extract (c.val * n) (c.val * n + n)))
  tab x.size (fun i => at' (outs.getD (i / n) #[]) (i % n))

/-- naive DFT: `Dft`, and the specification of every fixed-size butterfly -/
def semDft (c : Ctx K) (n : Nat) (x : Array K) : Array K :=
  tab n (fun k => sumTo (fun j => at' x j * c.tw (j * k) n) n)

/-- six-step mixed radix (`MixedRadix`, `MixedRadixSmall`): width `w` (left), height `h` (right) -/
def semMixedRadix (c : Ctx K) (w h : Nat) (fw fh : Array K → Array K) (x : Array K) : Array K :=
  -- steps 1-2: for every column xx (stride w), the height-FFT over y of x[xx + y*w]
  let cols : Array (Array K) := Array.ofFn (n := w) (fun xx => fh (tab h (fun y => at' x (xx.val + y * w))))
  -- steps 3-5: twiddle tw(xx*ky, len), then the width-FFT over xx
  let rows : Array (Array K) := Array.ofFn (n := h) (fun ky =>
    fw (tab w (fun xx => at' (cols.getD xx #[]) ky.val * c.tw (xx * ky.val) (w * h))))
  -- step 6: output index k = kx*h + ky
  tab (w * h) (fun k => at' (rows.getD (k % h) #[]) (k / h))

/-- Good–Thomas (`GoodThomasAlgorithmSmall`; `GoodThomasAlgorithm` computes the same maps incrementally).
Input map `(x, y) ↦ (x*h + y*w) % len`; the output scatter `out[(x*h*h⁻¹ + y*w*w⁻¹) % len] = d[y + x*h]`
is written as the gather `out[k] = d[k % h + (k % w) * h]` (its inverse by the CRT). -/
def semGoodThomas (w h : Nat) (fw fh : Array K → Array K) (x : Array K) : Array K :=
  let len := w * h
  let a := tab len (fun i => at' x (((i % w) * h + (i / w) * w) % len))
  let b := mapChunks w fw a
  let t := tab len (fun i => at' b ((i / h) + (i % h) * w))
  let d := mapChunks h fh t
  tab len (fun k => at' d (k % h + (k % w) * h))

/-- Rader (`RadersAlgorithm`, `RadersAvx2`): prime `p`, primitive root `g`, its inverse `gi`, inner transform of length `p-1`.
The output scatter `out[gi^(i+1) % p] = conj(t[i])` is written as a table built by folding the writes in order. -/
def semRaders (c : Ctx K) (p g gi : Nat) (fI : Array K → Array K) (x : Array K) : Array K :=
  let m := p - 1
  let data := fI (tab m (fun i => c.tw (modPow gi i p) p * c.inv m))
  let s := fI (tab m (fun i => at' x (modPow g (i + 1) p)))
  let t := fI (tab m (fun i =>
    let v := c.conj (at' s i * at' data i)
    if i = 0 then v + c.conj (at' x 0) else v))
  let out0 : Array K := (Array.replicate p 0).setIfInBounds 0 (at' x 0 + at' s 0)
  (List.range m).foldl (fun (o : Array K) i => o.setIfInBounds (modPow gi (i + 1) p) (c.conj (at' t i))) out0

/-- Bluestein (`BluesteinsAlgorithm`, `BluesteinsAvx`): length `n`, inner length `M ≥ 2n-1` -/
def semBluesteins (c : Ctx K) (n M : Nat) (fI : Array K → Array K) (x : Array K) : Array K :=
  let twb := fun i => c.tw (i * i % (2 * n)) (2 * n)
  let mult := fI (tab M (fun i =>
    if i < n then c.conj (twb i) * c.inv M
    else if i + n > M then c.conj (twb (M - i)) * c.inv M
    else 0))
  let a := fI (tab M (fun i => if i < n then at' x i * twb i else 0))
  let b := fI (tab M (fun i => c.conj (at' a i * at' mult i)))
  tab n (fun i => c.conj (at' b i) * twb i)

/-- `reverse_remainders(value, factors)` over a plain list of radixes -/
def reverseRemainders : List Nat → Nat → Nat → Nat
  | [], _, result => result
  | f :: fs, value, result => reverseRemainders fs (value / f) (result * f + value % f)

/-- one cross-FFT layer of `RadixN`/`Radix4`/`Radix3` (`butterfly_k` on every chunk of `cols * f` elements) -/
def semRadixLayer (c : Ctx K) (cols f : Nat) (data : Array K) : Array K :=
  let cross := cols * f
  tab data.size (fun o =>
    let ch := o / cross
    let i := o % cross
    let idx := i % cols
    let q := i / cols
    sumTo (fun r => at' data (ch * cross + idx + r * cols) * c.tw (idx * r) cross * c.tw (r * q) f) f)

def semRadixLayers (c : Ctx K) : List Nat → Nat → Array K → Array K
  | [], _, data => data
  | f :: fs, cols, data => semRadixLayers c fs (cols * f) (semRadixLayer c cols f data)

/-- `RadixN` (and `Radix4 = RadixN [4,…,4]`, `Radix3 = RadixN [3,…,3]`): digit-reversed transpose
`out[y + rev(x)*height] = in[x + y*width]` (written as the gather `out[y + r*height] = in[rev⁻¹(r) + y*width]`,
`rev⁻¹ = reverse_remainders` over the factors in their original order), base FFTs, then one layer per factor. -/
def semRadixN (c : Ctx K) (fs : List Nat) (baseLen : Nat) (fB : Array K → Array K) (x : Array K) : Array K :=
  let width := fs.foldl (· * ·) 1
  let len := baseLen * width
  let t := tab len (fun o => at' x (reverseRemainders fs (o / baseLen) 0 + (o % baseLen) * width))
  let b := mapChunks baseLen fB t
  semRadixLayers c fs baseLen b

/-- `MixedRadix{r}xnAvx`: radix-`r` column butterflies with twiddles, inner FFTs on the `r` rows, transpose -/
def semAvxMixedRadix (c : Ctx K) (r m : Nat) (fI : Array K → Array K) (x : Array K) : Array K :=
  let a := tab (r * m) (fun o =>
    let q := o / m
    let col := o % m
    sumTo (fun i => at' x (col + i * m) * c.tw (i * q) r) r * c.tw (col * q) (r * m))
  let b := mapChunks m fI a
  tab (r * m) (fun k => at' b (k / r + (k % r) * m))

end

/-- modular inverse by search (`extended_gcd` in the Rust code; canonical representative in `[0, m)`) -/
def modInv (a m : Nat) : Nat :=
  match (List.range m).find? (fun x => a * x % m = 1 % m) with
  | some x => x
  | none => 0

/-- the semantics of a tree.  Butterflies are specified as the DFT of their size. -/
def Recipe.sem {K : Type} [Add K] [Mul K] [Zero K] (c : Ctx K) : Recipe → Array K → Array K
  | .dft n => semDft c n
  | .bfly n => semDft c n
  | .primeBfly n => semDft c n
  | .avxBfly n => semDft c n
  | .mixedRadix l r => semMixedRadix c l.len r.len (l.sem c) (r.sem c)
  | .mixedRadixSmall l r => semMixedRadix c l.len r.len (l.sem c) (r.sem c)
  | .goodThomas l r =>
    if l.len > r.len then semGoodThomas r.len l.len (r.sem c) (l.sem c)
    else semGoodThomas l.len r.len (l.sem c) (r.sem c)
  | .goodThomasSmall l r => semGoodThomas l.len r.len (l.sem c) (r.sem c)
  | .raders i =>
    let p := i.len + 1
    let g := (primitiveRoot p).getD 0
    semRaders c p g (modPow g (p - 2) p) (i.sem c)
  | .avxRaders i =>
    let p := i.len + 1
    let g := (primitiveRoot p).getD 0
    semRaders c p g (modPow g (p - 2) p) (i.sem c)
  | .bluesteins n i => semBluesteins c n i.len (i.sem c)
  | .avxBluesteins n i => semBluesteins c n i.len (i.sem c)
  | .radixN fs b => semRadixN c fs b.len (b.sem c)
  | .radix4 k b => semRadixN c (List.replicate k 4) b.len (b.sem c)
  | .radix3 k b => semRadixN c (List.replicate k 3) b.len (b.sem c)
  | .sseRadix4 k b => semRadixN c (List.replicate k 4) b.len (b.sem c)
  | .avxMixedRadix r i => semAvxMixedRadix c r i.len (i.sem c)

end RFV
