/-
L6 Cache state machine — `FftCache` (separate forward / inverse maps keyed by length), `build_fft` /
`build_new_fft` of the scalar and SSE planners (lookup by length before building every sub-transform, insert after),
and the planner step `plan_fft(len, direction)` for all three planners.  A built instance is represented by its tree
(a value: it keeps no reference to the planner, which is the model's rendering of "instances own `Arc`s").
-/
import RFV.Model.Spec

namespace RFV

structure PlannerState where
  fwd : InstCache
  inv : InstCache
  deriving Repr, Inhabited

def PlannerState.empty : PlannerState := { fwd := [], inv := [] }
def PlannerState.cache (s : PlannerState) (inverse : Bool) : InstCache := if inverse then s.inv else s.fwd
def PlannerState.setCache (s : PlannerState) (inverse : Bool) (c : InstCache) : PlannerState :=
  if inverse then { s with inv := c } else { s with fwd := c }

/-- a constructor call: the node is built only if none of its constructor asserts fires (`Recipe.spec` on the node,
whose children are already-built instances) -/
def construct (ty : ElemTy) (node : Recipe) : Except String Recipe :=
  match node.spec ty with
  | .ok _ => .ok node
  | .error e => .error e

/-- finish a one-child node: construct it from the built child, then `algorithm_cache.insert` -/
def finish1 (ty : ElemTy) (res : Except String (Recipe × InstCache)) (mk : Recipe → Recipe) :
    Except String (Recipe × InstCache) :=
  match res with
  | .error e => .error e
  | .ok (ii, c) => match construct ty (mk ii) with | .ok t => .ok (t, c.insert t) | .error e => .error e

/-- the cache lookup in front of every build: by *length* -/
def orBuild (c : InstCache) (len : Nat) (build : Unit → Except String (Recipe × InstCache)) :
    Except String (Recipe × InstCache) :=
  match c.get? len with
  | some inst => .ok (inst, c)
  | none => build ()

/-- finish a two-child node given the built left child and the (cache-threaded) build of the right child -/
def finish2 (ty : ElemTy) (bl : Except String (Recipe × InstCache))
    (br : InstCache → Except String (Recipe × InstCache)) (mk : Recipe → Recipe → Recipe) :
    Except String (Recipe × InstCache) :=
  match bl with
  | .error e => .error e
  | .ok (li, c1) => finish1 ty (br c1) (mk li)

/-- `build_fft(recipe, direction)` with `build_new_fft` inlined: take the instance from the cache by *length* if
present; otherwise build the children (each through `build_fft`, threading the cache), construct the node from the
built children, and insert it. -/
def buildFft (ty : ElemTy) (c : InstCache) : Recipe → Except String (Recipe × InstCache)
  | .mixedRadix l r => orBuild c (l.len * r.len) fun _ =>
      finish2 ty (buildFft ty c l) (fun c1 => buildFft ty c1 r) Recipe.mixedRadix
  | .mixedRadixSmall l r => orBuild c (l.len * r.len) fun _ =>
      finish2 ty (buildFft ty c l) (fun c1 => buildFft ty c1 r) Recipe.mixedRadixSmall
  | .goodThomas l r => orBuild c (l.len * r.len) fun _ =>
      finish2 ty (buildFft ty c l) (fun c1 => buildFft ty c1 r) Recipe.goodThomas
  | .goodThomasSmall l r => orBuild c (l.len * r.len) fun _ =>
      finish2 ty (buildFft ty c l) (fun c1 => buildFft ty c1 r) Recipe.goodThomasSmall
  | .raders i => orBuild c (i.len + 1) fun _ => finish1 ty (buildFft ty c i) Recipe.raders
  | .bluesteins n i => orBuild c n fun _ => finish1 ty (buildFft ty c i) (Recipe.bluesteins n)
  | .radixN fs b => orBuild c (b.len * fs.foldl (· * ·) 1) fun _ => finish1 ty (buildFft ty c b) (Recipe.radixN fs)
  | .radix4 k b => orBuild c (b.len * 2 ^ (2 * k)) fun _ => finish1 ty (buildFft ty c b) (Recipe.radix4 k)
  | .radix3 k b => orBuild c (b.len * 3 ^ k) fun _ => finish1 ty (buildFft ty c b) (Recipe.radix3 k)
  | .sseRadix4 k b => orBuild c (b.len * 2 ^ (2 * k)) fun _ => finish1 ty (buildFft ty c b) (Recipe.sseRadix4 k)
  | .avxMixedRadix r i => orBuild c (r * i.len) fun _ => finish1 ty (buildFft ty c i) (Recipe.avxMixedRadix r)
  | .avxRaders i => orBuild c (i.len + 1) fun _ => finish1 ty (buildFft ty c i) Recipe.avxRaders
  | .avxBluesteins n i => orBuild c n fun _ => finish1 ty (buildFft ty c i) (Recipe.avxBluesteins n)
  | .dft n => orBuild c n fun _ => finish1 ty (.ok (.dft n, c)) id
  | .bfly n => orBuild c n fun _ => finish1 ty (.ok (.bfly n, c)) id
  | .primeBfly n => orBuild c n fun _ => finish1 ty (.ok (.primeBfly n, c)) id
  | .avxBfly n => orBuild c n fun _ => finish1 ty (.ok (.avxBfly n, c)) id

inductive PlannerKind where
  | scalar | sse | avx (avx2 : Bool)
  deriving Repr, DecidableEq, Inhabited

/-- one `plan_fft(len, direction)` request: the instance returned and the planner state afterwards -/
def planStep (k : PlannerKind) (ty : ElemTy) (s : PlannerState) (len : Nat) (inverse : Bool) :
    Except String (Recipe × PlannerState) :=
  let c := s.cache inverse
  match k with
  | .scalar =>
    match planScalar len with
    | .error e => .error e
    | .ok r => match buildFft ty c r with
      | .error e => .error e
      | .ok (inst, c') => .ok (inst, s.setCache inverse c')
  | .sse =>
    match planSse len with
    | .error e => .error e
    | .ok r => match buildFft ty c r with
      | .error e => .error e
      | .ok (inst, c') => .ok (inst, s.setCache inverse c')
  | .avx avx2 =>
    match avxPlanAndConstruct ty avx2 (planFuel len) c len with
    | .error e => .error e
    | .ok (inst, c') =>
      match inst.spec ty with
      | .error e => .error e
      | .ok _ => .ok (inst, s.setCache inverse c')

/-- a whole request history from the fresh planner -/
def planHistory (k : PlannerKind) (ty : ElemTy) : List (Nat × Bool) → PlannerState → Except String (List Recipe × PlannerState)
  | [], s => .ok ([], s)
  | (len, inv) :: rest, s =>
    match planStep k ty s len inv with
    | .error e => .error e
    | .ok (inst, s') =>
      match planHistory k ty rest s' with
      | .error e => .error e
      | .ok (insts, s'') => .ok (inst :: insts, s'')

def InstCache.keys (c : InstCache) : List Nat := (c.map (·.1)).mergeSort

end RFV
