/-
L4b Prog — the scalar butterflies as the straight-line programs the real code executes.

`RawProg` is what translator T7 (`rfv-harness bfx gen`: the real `ButterflyN` run on a symbolic element type) emits into
`RFV/Gen/Butterflies.lean`: registers are defined one per instruction, in order;
  (0, j, _) input  j   (2k = re of x[k], 2k+1 = im of x[k])
  (1, a, _) the constant cos(2π a / grid)        (every `T::from_f64` of the butterfly code is one: twiddles, root2)
  (2, a, b) reg a + reg b     (3, a, b) reg a - reg b     (4, a, b) reg a * reg b     (5, a, _) - reg a
`outs` lists the registers holding re/im of the outputs.  (The instruction list is stored packed in one numeral, see `RawProg.code`.)

This file has no imports: `run` is the executable semantics over any carrier (the driver runs it over GF(p) for
correspondence K12), and `RawProg.check` is the symbolic checker (linear forms over the inputs with coefficients that
are dyadic combinations of grid cosines) whose soundness is proved in `Proofs/ProgSound.lean`.
-/
namespace RFV

structure RawProg where
  n : Nat
  grid : Nat
  inverse : Bool
  /-- number of instructions -/
  len : Nat
  /-- the instructions, one 32-bit word each, little-endian in one natural number: word = op + 8·a + 65536·b
  (a single numeric literal elaborates instantly; a 2000-element list literal does not) -/
  packed : Nat
  outs : List Nat
  deriving Repr, Inhabited

def decodeWord (w : Nat) : Nat × Nat × Nat := (w % 8, (w / 8) % 8192, (w / 65536) % 8192)

def unpackAux : Nat → Nat → List (Nat × Nat × Nat)
  | 0, _ => []
  | k + 1, x => decodeWord (x % 4294967296) :: unpackAux k (x / 4294967296)

/-- the instruction list -/
def RawProg.code (P : RawProg) : List (Nat × Nat × Nat) := unpackAux P.len P.packed

section
variable {R : Type} [Add R] [Sub R] [Mul R] [Neg R] [Zero R]

/-- one instruction, given the registers so far.  The registers are kept in a `List` in *reverse* order (newest first;
register `i` is element `size - 1 - i`), exactly as in the symbolic run below. -/
def stepInstr (cs : Nat → R) (inp : Nat → R) (size : Nat) (regs : List R) (ins : Nat × Nat × Nat) : R :=
  let get := fun (i : Nat) => regs.getD (size - 1 - i) 0
  match ins with
  | (0, j, _) => inp j
  | (1, a, _) => cs a
  | (2, a, b) => get a + get b
  | (3, a, b) => get a - get b
  | (4, a, b) => get a * get b
  | (5, a, _) => - get a
  | _ => 0

def runL (cs : Nat → R) (inp : Nat → R) : List (Nat × Nat × Nat) → Nat → List R → Nat × List R
  | [], size, regs => (size, regs)
  | ins :: rest, size, regs => runL cs inp rest (size + 1) (stepInstr cs inp size regs ins :: regs)

/-- the register file after running the whole program (size, registers newest first) -/
def RawProg.run (P : RawProg) (cs : Nat → R) (inp : Nat → R) : Nat × List R := runL cs inp P.code 0 []

/-- register `r` of a finished run -/
def regOf (st : Nat × List R) (r : Nat) : R := st.2.getD (st.1 - 1 - r) 0

/-- the output scalars (re, im interleaved) -/
def RawProg.outputs (P : RawProg) (cs : Nat → R) (inp : Nat → R) : List R :=
  let st := P.run cs inp
  P.outs.map (regOf st)

end

/-! ### the symbolic checker -/

/-- `k · (1/2)^e · cos(2π·idx/N) · v`, `v` = input `inp - 1`, or `1` when `inp = 0` -/
structure Term where
  inp : Nat
  idx : Nat
  k : Int
  e : Nat
  deriving Repr, DecidableEq, Inhabited

abbrev Poly := List Term

def Poly.neg (p : Poly) : Poly := p.map (fun t => { t with k := -t.k })

def Poly.hasInput (p : Poly) : Bool := p.any (fun t => t.inp != 0)

/-- product-to-sum: `cos a · cos b = (cos(a+b) + cos(a-b)) / 2` -/
def Term.mul (N : Nat) (t u : Term) : List Term :=
  [{ inp := t.inp + u.inp, idx := t.idx + u.idx, k := t.k * u.k, e := t.e + u.e + 1 },
   { inp := t.inp + u.inp, idx := t.idx + (N - u.idx % N), k := t.k * u.k, e := t.e + u.e + 1 }]

def Poly.mul (N : Nat) (p q : Poly) : Poly := p.flatMap (fun t => q.flatMap (fun u => Term.mul N t u))

/-- symbolic step; `none` when two input-dependent registers are multiplied (not a linear circuit) or an instruction is malformed.
The registers are kept in a `List` in *reverse* order (newest first; register `i` is element `size - 1 - i`): cheap to
extend and to index for the kernel's evaluator. -/
def symStep (N : Nat) (size : Nat) (regs : List Poly) (ins : Nat × Nat × Nat) : Option Poly :=
  let get := fun (i : Nat) => regs.getD (size - 1 - i) []
  match ins with
  | (0, j, _) => some [{ inp := j + 1, idx := 0, k := 1, e := 0 }]
  | (1, a, _) => some [{ inp := 0, idx := a, k := 1, e := 0 }]
  | (2, a, b) => if a < size ∧ b < size then some (get a ++ get b) else none
  | (3, a, b) => if a < size ∧ b < size then some (get a ++ (get b).neg) else none
  | (4, a, b) =>
    if a < size ∧ b < size then
      let p := get a
      let q := get b
      if p.hasInput && q.hasInput then none else some (Poly.mul N p q)
    else none
  | (5, a, _) => if a < size then some (get a).neg else none
  | _ => none

def symRun (N : Nat) : List (Nat × Nat × Nat) → Nat → List Poly → Option (Nat × List Poly)
  | [], size, regs => some (size, regs)
  | ins :: rest, size, regs =>
    match symStep N size regs ins with
    | none => none
    | some p => symRun N rest (size + 1) (p :: regs)

/-- canonical grid cosine: `(sign, a')` with `cos(2π·idx/N) = sign · cos(2π·a'/N)`, `a' < N/4` (or sign 0) -/
def canon (N idx : Nat) : Int × Nat :=
  let r := idx % N
  let r1 := if r > N / 2 then N - r else r
  if r1 = N / 4 then (0, 0)
  else if r1 > N / 4 then (-1, N / 2 - r1)
  else (1, r1)

/-- a term normalised once: its key `(input, canonical cosine index)` and its integer coefficient
`sign · k · 2^(E - e)` at the common exponent `E` -/
def Term.norm (N E : Nat) (t : Term) : (Nat × Nat) × Int :=
  let c := canon N t.idx
  ((t.inp, c.2), c.1 * t.k * (2 : Int) ^ (E - t.e))

/-- do all (key, coefficient) pairs cancel?  group by key, sum the coefficients -/
def vanishN : Nat → List ((Nat × Nat) × Int) → Bool
  | 0, l => l.isEmpty
  | _ + 1, [] => true
  | fuel + 1, t :: rest =>
    let same := rest.filter (fun u => u.1 = t.1)
    let others := rest.filter (fun u => ¬ (u.1 = t.1))
    (t.2 + (same.map (·.2)).foldl (· + ·) 0 == 0) && vanishN fuel others

/-- do all terms cancel?  first split by input (cheap), then group by cosine index within each input -/
def vanish (N E : Nat) (inputs : Nat) (l : List Term) : Bool :=
  l.all (fun t => t.inp ≤ inputs) &&
  (List.range (inputs + 1)).all (fun j =>
    let lj := l.filter (fun t => t.inp = j)
    vanishN lj.length (lj.map (Term.norm N E)))

def maxE (l : List Term) : Nat := l.foldl (fun m t => max m t.e) 0

/-- the polynomial the DFT prescribes for output scalar `o` (`o = 2k` : re of `X[k]`, `o = 2k+1` : im of `X[k]`):
forward `X[k] = Σ_j x[j]·(cos θ - i sin θ)`, `θ = 2π·jk/n`; `sin θ = cos(θ + 3/4 turn)` -/
def expected (n N : Nat) (inverse : Bool) (o : Nat) : Poly :=
  let k := o / 2
  let isIm := o % 2 == 1
  (List.range n).flatMap (fun j =>
    let a := (j * k % n) * (N / n)
    let c : Nat := a
    let s : Nat := a + 3 * (N / 4)
    -- forward: re = xr·c + xi·s ; im = xi·c - xr·s      inverse: re = xr·c - xi·s ; im = xi·c + xr·s
    let sgn : Int := if inverse then -1 else 1
    if isIm then
      [{ inp := 2 * j + 2, idx := c, k := 1, e := 0 }, { inp := 2 * j + 1, idx := s, k := -sgn, e := 0 }]
    else
      [{ inp := 2 * j + 1, idx := c, k := 1, e := 0 }, { inp := 2 * j + 2, idx := s, k := sgn, e := 0 }])

/-- the whole check: the program is a linear circuit and each of its `2n` outputs is the DFT's polynomial -/
def RawProg.check (P : RawProg) : Bool :=
  P.grid % 4 == 0 && P.grid > 0 && P.n > 0 && P.grid % P.n == 0 && P.outs.length == 2 * P.n &&
  match symRun P.grid P.code 0 [] with
  | none => false
  | some (size, regs) =>
    (List.range (2 * P.n)).all (fun o =>
      let r := P.outs.getD o 0
      r < size &&
      let d := regs.getD (size - 1 - r) [] ++ (expected P.n P.grid P.inverse o).neg
      let E := maxE d
      d.all (fun t => t.e ≤ E) && vanish P.grid E (2 * P.n) d)

end RFV
