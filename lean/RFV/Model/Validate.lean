/-
L5 Validate — transcription of /repo/src/array_utils.rs `validate_and_*` (+ `_unroll2x`),
/repo/src/fft_helper.rs `fft_helper_*`, and the `fft_error_*` functions of /repo/src/common.rs,
as functions from *lengths* to (the chunk calls made, in order; how the call ends).

A chunk call is `(offset, len)` into the data buffer(s); every call of the non-unrolled helpers also receives
the scratch slice `[0, required)`. The `while buffer.len() >= chunk_size` loops terminate only for
`chunk_size ≥ 1`; every `fft_helper_*` returns early on `chunk_size == 0`, which is what makes them total.
-/
namespace RFV

inductive PanicKind where
  | tooSmall        -- "Provided FFT buffer was too small"
  | notMultiple     -- "Input FFT buffer must be a multiple of FFT length"
  | scratch         -- "Not enough scratch space was provided"
  | inOutMismatch   -- "Provided FFT input buffer and output buffer must have the same length"
  deriving Repr, DecidableEq, Inhabited

inductive Outcome where
  | returned
  | panicked (k : PanicKind)
  deriving Repr, DecidableEq, Inhabited

/-- `while rem >= step { call(off, step); off += step; rem -= step }` with fuel; returns (calls, remaining) -/
def chunkLoop (step : Nat) : Nat → Nat → Nat → List (Nat × Nat) × Nat
  | 0, rem, _ => ([], rem)
  | fuel + 1, rem, off =>
    if rem ≥ step then
      let r := chunkLoop step fuel (rem - step) (off + step)
      ((off, step) :: r.1, r.2)
    else ([], rem)

/-- `validate_and_iter` (requires `chunk ≥ 1`): calls made, and `Ok`/`Err` -/
def validateAndIter (buf scratch chunk required : Nat) : List (Nat × Nat) × Bool :=
  if scratch < required then ([], false) else
  let r := chunkLoop chunk buf buf 0
  (r.1, r.2 = 0)

/-- `validate_and_zip` / `validate_and_zip_mut` (identical control flow) -/
def validateAndZip (buf1 buf2 scratch chunk required : Nat) : List (Nat × Nat) × Bool :=
  if scratch < required then ([], false) else
  if buf1 ≠ buf2 then ([], false) else
  let r := chunkLoop chunk buf1 buf1 0
  (r.1, r.2 = 0)

/-- `validate_and_iter_unroll2x`: double-length calls first, then at most one single call -/
def validateAndIterUnroll2x (buf chunk : Nat) : List (Nat × Nat) × Bool :=
  let r := chunkLoop (chunk * 2) buf buf 0
  if r.2 = chunk then (r.1 ++ [(buf - r.2, chunk)], true)
  else if r.2 = 0 then (r.1, true)
  else (r.1, false)

def validateAndZipUnroll2x (buf1 buf2 chunk : Nat) : List (Nat × Nat) × Bool :=
  if buf1 ≠ buf2 then ([], false) else validateAndIterUnroll2x buf1 chunk

/-- `fft_error_inplace`: the first failing assert, or `returned` if none fails -/
def fftErrorInplace (expectedLen actualLen expectedScratch actualScratch : Nat) : Outcome :=
  if ¬ (actualLen ≥ expectedLen) then .panicked .tooSmall
  else if actualLen % expectedLen ≠ 0 then .panicked .notMultiple
  else if ¬ (actualScratch ≥ expectedScratch) then .panicked .scratch
  else .returned

/-- `fft_error_outofplace` / `fft_error_immut` (identical) -/
def fftErrorOop (expectedLen actualIn actualOut expectedScratch actualScratch : Nat) : Outcome :=
  if actualIn ≠ actualOut then .panicked .inOutMismatch
  else if ¬ (actualIn ≥ expectedLen) then .panicked .tooSmall
  else if actualIn % expectedLen ≠ 0 then .panicked .notMultiple
  else if ¬ (actualScratch ≥ expectedScratch) then .panicked .scratch
  else .returned

/-- `fft_helper_inplace` -/
def helperInplace (buf scratch chunk required : Nat) : List (Nat × Nat) × Outcome :=
  if chunk = 0 then ([], .returned) else
  let r := validateAndIter buf scratch chunk required
  if r.2 then (r.1, .returned) else (r.1, fftErrorInplace chunk buf required scratch)

/-- `fft_helper_immut` / `fft_helper_outofplace` -/
def helperOop (inp out scratch chunk required : Nat) : List (Nat × Nat) × Outcome :=
  if chunk = 0 then ([], .returned) else
  let r := validateAndZip inp out scratch chunk required
  if r.2 then (r.1, .returned) else (r.1, fftErrorOop chunk inp out required scratch)

/-- `fft_helper_inplace_unroll2x` -/
def helperInplaceUnroll2x (buf chunk : Nat) : List (Nat × Nat) × Outcome :=
  if chunk = 0 then ([], .returned) else
  let r := validateAndIterUnroll2x buf chunk
  if r.2 then (r.1, .returned) else (r.1, fftErrorInplace chunk buf 0 0)

/-- `fft_helper_immut_unroll2x` / `fft_helper_outofplace_unroll2x` -/
def helperOopUnroll2x (inp out chunk : Nat) : List (Nat × Nat) × Outcome :=
  if chunk = 0 then ([], .returned) else
  let r := validateAndZipUnroll2x inp out chunk
  if r.2 then (r.1, .returned) else (r.1, fftErrorOop chunk inp out 0 0)

def PanicKind.text : PanicKind → String
  | .tooSmall => "too-small"
  | .notMultiple => "not-multiple"
  | .scratch => "scratch"
  | .inOutMismatch => "in-out"

def Outcome.text : Outcome → String
  | .returned => "ret"
  | .panicked k => "panic:" ++ k.text

def callsText (cs : List (Nat × Nat)) : String :=
  "[" ++ " ".intercalate (cs.map (fun c => s!"{c.1}+{c.2}")) ++ "]"

end RFV
