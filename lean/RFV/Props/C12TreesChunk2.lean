/- one eighth of the closed evaluation of Props/C12Trees (split so that the parts build in parallel) -/
import RFV.Gen.Trees
namespace RFV
theorem trees_chunk2_check : Gen.treesChunk2.all RawProg.check = true := by native_decide
end RFV
