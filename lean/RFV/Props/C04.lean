/-
C04 — every planner plans every length, reporting the right length and direction.

Property theorems only (helper lemmas live in RFV/Proofs). The scalar/SSE totality theorems are in
`RFV.Props.C04Scalar`; this file carries the AVX side and the length-0/1 clauses.
-/
import RFV.Model.Avx
import RFV.Model.Spec
import RFV.Proofs.AvxPlan

namespace RFV

/-- `construct_butterfly` never reaches `panic!("Invalid butterfly len")` on a length its own planner calls a
butterfly, and the instance it builds has that length. -/
theorem avxConstructButterfly_ok (ty : ElemTy) (n : Nat) (h : avxIsButterfly ty n = true) :
    ∃ r, avxConstructButterfly ty n = .ok r ∧ r.len = n := by
  have h32 : ∀ m ∈ avxButterflies32, (avxConstructButterfly .f32 m).toOption.map Recipe.len = some m := by decide
  have h64 : ∀ m ∈ avxButterflies64, (avxConstructButterfly .f64 m).toOption.map Recipe.len = some m := by decide
  have hot : ∀ m ∈ avxButterflies64, (avxConstructButterfly .other m).toOption.map Recipe.len = some m := by decide
  have key : (avxConstructButterfly ty n).toOption.map Recipe.len = some n := by
    cases ty
    · exact h32 n (by simpa [avxIsButterfly] using h)
    · exact h64 n (by simpa [avxIsButterfly] using h)
    · exact hot n (by simpa [avxIsButterfly] using h)
  cases hr : avxConstructButterfly ty n with
  | error e => simp [hr, Except.toOption] at key
  | ok r => exact ⟨r, rfl, by simpa [hr, Except.toOption] using key⟩

/-- lengths below 10 are planned as a single butterfly of that length, whatever the element type (no factorisation:
this is what makes `plan_fft(0)` safe). -/
theorem avxPlanFft_small (ty : ElemTy) (avx2 : Bool) (n : Nat) (h : n < 10) :
    avxPlanFft ty avx2 (fun _ => false) n = .ok (AvxPlan.butterfly n []) := by
  simp [avxPlanFft, h]

/-- **No "Invalid butterfly len" panic, for every length, element type, avx2 setting and cache content**:
whenever `plan_fft` returns a plan whose base is a butterfly, `construct_butterfly` has an arm for that length and
builds an instance of exactly that length. -/
theorem avxPlanFft_base_constructible (ty : ElemTy) (avx2 : Bool) (cached : Nat → Bool) (len : Nat) (p : AvxPlan) (b : Nat)
    (hp : avxPlanFft ty avx2 cached len = .ok p) (hb : p.base = .bfly b) :
    ∃ r, avxConstructButterfly ty b = .ok r ∧ r.len = b := by
  apply avxConstructButterfly_ok
  unfold avxPlanFft at hp
  split at hp
  · injection hp with hp; subst hp; simp [AvxPlan.cached] at hb
  · split at hp
    · rename_i hlt
      injection hp with hp; subst hp
      simp only [AvxPlan.butterfly, AvxPlan.mk', AvxBase.bfly.injEq] at hb; subst hb
      have : ∀ m, m < 10 → avxIsButterfly ty m = true := by
        intro m hm
        have hm' : m = 0 ∨ m = 1 ∨ m = 2 ∨ m = 3 ∨ m = 4 ∨ m = 5 ∨ m = 6 ∨ m = 7 ∨ m = 8 ∨ m = 9 := by omega
        cases ty <;> rcases hm' with h | h | h | h | h | h | h | h | h | h <;> subst h <;> decide
      exact this _ hlt
    · simp only at hp
      cases hbase : avxPlanBase ty avx2 len (PartialFactors.compute len) with
      | error e => simp [hbase] at hp
      | ok base =>
        simp only [hbase] at hp
        split at hp
        · simp at hp
        · rename_i q hq
          injection hp with hp; subst hp
          have hqb : q.base = base.base := by
            split at hq
            · injection hq with hq; subst hq; rfl
            · split at hq
              · simp at hq
              · exact avxPlanMixedRadix_base _ _ _ hq
          rcases avxReplan_base cached q with h1 | ⟨n, h1⟩
          · rw [h1, hqb] at hb
            exact avxPlanBase_bfly_valid _ _ _ _ _ _ hbase hb
          · rw [h1] at hb; simp at hb

example : avxPlanFft .f32 true (fun _ => false) 0 = .ok (AvxPlan.butterfly 0 []) := avxPlanFft_small _ _ 0 (by decide)

end RFV
