/-
C07 — a buffer of k·n elements is processed as k independent length-n transforms.

Property theorems only (helper lemmas, `expand2x` and `runCalls` live in `RFV/Proofs/Validate.lean`).

* `helperInplace_calls` / `helperOop_calls`: the calls are exactly `(i·n, n)`, `i = 0 … k-1`, in that order.
* `unroll2x_expand` / `unroll2x_expand_oop`: the 2×-unrolled iteration covers the same chunks in the same order.
* `runCalls_chunks`: on data, running the calls equals mapping the single-chunk transform over the chunks;
  `runCalls_chunk_eq`, `chunk_isolated`: the i-th output chunk is a function of the i-th input chunk alone.
-/
import RFV.Proofs.Validate

namespace RFV

/-! ## the calls -/

/-- C07.1 in-place: a buffer of `k` chunks gets exactly the calls `(i·chunk, chunk)`, `i < k`, ascending, and the call
returns -/
theorem helperInplace_calls (k chunk scratch required buf : Nat) (hc : 1 ≤ chunk) (hb : buf = k * chunk)
    (hs : required ≤ scratch) :
    helperInplace buf scratch chunk required
      = ((List.range k).map (fun i => (i * chunk, chunk)), .returned) := by
  subst hb
  have h1 : ¬ scratch < required := by omega
  rw [helperInplace_eq _ _ _ _ hc]
  simp [h1, fullCalls, Nat.mul_div_cancel _ (show 0 < chunk by omega)]

example : helperInplace 12 0 4 0 = ([(0, 4), (4, 4), (8, 4)], .returned) :=
  helperInplace_calls 3 4 0 0 12 (by decide) (by decide) (by decide)

/-- C07.1 out-of-place (calls are offsets into both the input and the output buffer) -/
theorem helperOop_calls (k chunk scratch required inp out : Nat) (hc : 1 ≤ chunk) (hb : inp = k * chunk)
    (hio : inp = out) (hs : required ≤ scratch) :
    helperOop inp out scratch chunk required
      = ((List.range k).map (fun i => (i * chunk, chunk)), .returned) := by
  subst hio
  subst hb
  have h1 : ¬ scratch < required := by omega
  rw [helperOop_eq _ _ _ _ _ hc]
  simp [h1, fullCalls, Nat.mul_div_cancel _ (show 0 < chunk by omega)]

example : helperOop 12 12 7 4 5 = ([(0, 4), (4, 4), (8, 4)], .returned) :=
  helperOop_calls 3 4 7 5 12 12 (by decide) (by decide) rfl (by decide)

/-- the number of calls is `k` -/
theorem helperInplace_calls_length (k chunk scratch required : Nat) (hc : 1 ≤ chunk) (hs : required ≤ scratch) :
    (helperInplace (k * chunk) scratch chunk required).1.length = k := by
  rw [helperInplace_calls k chunk scratch required (k * chunk) hc rfl hs]
  simp

/-! ## the 2×-unrolled iteration visits the same chunks in the same order -/

/-- C07.2 in-place: expanding every double call `(o, 2·chunk)` into `(o, chunk), (o + chunk, chunk)` turns the call list
of the unrolled helper into the call list of the plain helper (even `k`: `k/2` double calls; odd `k`: plus one single
tail call) -/
theorem unroll2x_expand (k chunk buf : Nat) (hc : 1 ≤ chunk) (hb : buf = k * chunk) :
    expand2x chunk (helperInplaceUnroll2x buf chunk).1 = (helperInplace buf 0 chunk 0).1 := by
  subst hb
  rw [helperInplace_calls k chunk 0 0 (k * chunk) hc rfl (Nat.le_refl 0), helperInplaceUnroll2x_eq _ _ hc]
  have hm : k * chunk % chunk = 0 := Nat.mul_mod_left _ _
  simp only [hm, if_true]
  exact expand2x_unrollCalls k chunk hc

example : (helperInplaceUnroll2x 20 4).1 = [(0, 8), (8, 8), (16, 4)] := by decide
example : expand2x 4 (helperInplaceUnroll2x 20 4).1 = [(0, 4), (4, 4), (8, 4), (12, 4), (16, 4)] := by decide
example : expand2x 4 (helperInplaceUnroll2x 20 4).1 = (helperInplace 20 0 4 0).1 :=
  unroll2x_expand 5 4 20 (by decide) (by decide)
example : expand2x 4 (helperInplaceUnroll2x 16 4).1 = (helperInplace 16 0 4 0).1 :=
  unroll2x_expand 4 4 16 (by decide) (by decide)

/-- C07.2 out-of-place -/
theorem unroll2x_expand_oop (k chunk inp out : Nat) (hc : 1 ≤ chunk) (hb : inp = k * chunk) (hio : inp = out) :
    expand2x chunk (helperOopUnroll2x inp out chunk).1 = (helperOop inp out 0 chunk 0).1 := by
  subst hio
  subst hb
  rw [helperOop_calls k chunk 0 0 (k * chunk) (k * chunk) hc rfl rfl (Nat.le_refl 0),
    helperOopUnroll2x_eq _ _ _ hc]
  have hm : k * chunk % chunk = 0 := Nat.mul_mod_left _ _
  simp only [hm, if_true, ne_eq, not_true_eq_false, if_false]
  exact expand2x_unrollCalls k chunk hc

example : expand2x 4 (helperOopUnroll2x 20 20 4).1 = (helperOop 20 20 0 4 0).1 :=
  unroll2x_expand_oop 5 4 20 20 (by decide) (by decide) rfl

/-- the unrolled and the plain out-of-place/in-place helpers all visit the same chunks -/
theorem helperOop_calls_eq_inplace (k chunk scratch required : Nat) (hc : 1 ≤ chunk) (hs : required ≤ scratch) :
    (helperOop (k * chunk) (k * chunk) scratch chunk required).1
      = (helperInplace (k * chunk) scratch chunk required).1 := by
  rw [helperOop_calls k chunk scratch required _ _ hc rfl rfl hs,
    helperInplace_calls k chunk scratch required _ hc rfl hs]

/-! ## data-level independence -/

/-- C07.3 processing a buffer made of `k` chunks of length `n` through the in-place entry point, with any
length-preserving single-chunk transform `f`, equals mapping `f` over the chunks -/
theorem runCalls_chunks {α : Type _} (f : List α → List α) (hf : ∀ x, (f x).length = x.length)
    (chunks : List (List α)) (n : Nat) (hn : 1 ≤ n) (hlen : ∀ c ∈ chunks, c.length = n) :
    runCalls f (helperInplace (chunks.length * n) 0 n 0).1 chunks.flatten = (chunks.map f).flatten := by
  rw [helperInplace_calls chunks.length n 0 0 _ hn rfl (Nat.le_refl 0)]
  have := runCalls_fullCalls_aux f hf n chunks hlen [] 0 rfl
  simpa using this

example : runCalls List.reverse (helperInplace 6 0 2 0).1 [1, 2, 3, 4, 5, 6] = [2, 1, 4, 3, 6, 5] := by decide
example : runCalls List.reverse (helperInplace (3 * 2) 0 2 0).1 [[1, 2], [3, 4], [5, 6]].flatten
    = ([[1, 2], [3, 4], [5, 6]].map List.reverse).flatten :=
  runCalls_chunks List.reverse (fun _ => List.length_reverse) [[1, 2], [3, 4], [5, 6]] 2 (by decide) (by decide)

/-- the same through the 2×-unrolled entry point, once each double call is read as its two single calls (which is what
the `chunk2x_fn` closures do: two interleaved single-chunk transforms) -/
theorem runCalls_chunks_unroll2x {α : Type _} (f : List α → List α) (hf : ∀ x, (f x).length = x.length)
    (chunks : List (List α)) (n : Nat) (hn : 1 ≤ n) (hlen : ∀ c ∈ chunks, c.length = n) :
    runCalls f (expand2x n (helperInplaceUnroll2x (chunks.length * n) n).1) chunks.flatten
      = (chunks.map f).flatten := by
  rw [unroll2x_expand chunks.length n _ hn rfl]
  exact runCalls_chunks f hf chunks n hn hlen

/-- the `i`-th chunk of the result is `f` of the `i`-th chunk of the input -/
theorem runCalls_chunk_eq {α : Type _} (f : List α → List α) (hf : ∀ x, (f x).length = x.length)
    (chunks : List (List α)) (n : Nat) (hn : 1 ≤ n) (hlen : ∀ c ∈ chunks, c.length = n)
    (i : Nat) (hi : i < chunks.length) :
    ((runCalls f (helperInplace (chunks.length * n) 0 n 0).1 chunks.flatten).drop (i * n)).take n
      = f chunks[i] := by
  rw [runCalls_chunks f hf chunks n hn hlen]
  have hlen' : ∀ c ∈ chunks.map f, c.length = n := by
    intro c hc
    obtain ⟨x, hx, rfl⟩ := List.mem_map.1 hc
    rw [hf, hlen x hx]
  rw [flatten_slice n (chunks.map f) hlen' i (by simpa using hi)]
  simp

/-- C07.3 corollary: if two buffers of the same shape agree on chunk `i`, the results agree on chunk `i` (elements
`[i·n, (i+1)·n)`) — the result for one chunk does not depend on the contents of any other chunk -/
theorem chunk_isolated {α : Type _} (f : List α → List α) (hf : ∀ x, (f x).length = x.length)
    (chunks chunks' : List (List α)) (n : Nat) (hn : 1 ≤ n)
    (hlen : ∀ c ∈ chunks, c.length = n) (hlen' : ∀ c ∈ chunks', c.length = n)
    (hk : chunks.length = chunks'.length)
    (i : Nat) (hi : i < chunks.length) (heq : chunks[i] = chunks'[i]'(hk ▸ hi)) :
    ((runCalls f (helperInplace (chunks.length * n) 0 n 0).1 chunks.flatten).drop (i * n)).take n
      = ((runCalls f (helperInplace (chunks'.length * n) 0 n 0).1 chunks'.flatten).drop (i * n)).take n := by
  rw [runCalls_chunk_eq f hf chunks n hn hlen i hi, runCalls_chunk_eq f hf chunks' n hn hlen' i (hk ▸ hi), heq]

example :
    ((runCalls List.reverse (helperInplace (3 * 2) 0 2 0).1 [[1, 2], [3, 4], [5, 6]].flatten).drop (1 * 2)).take 2
      = ((runCalls List.reverse (helperInplace (3 * 2) 0 2 0).1 [[9, 8], [3, 4], [7, 0]].flatten).drop (1 * 2)).take 2 :=
  chunk_isolated List.reverse (fun _ => List.length_reverse) [[1, 2], [3, 4], [5, 6]] [[9, 8], [3, 4], [7, 0]] 2
    (by decide) (by decide) (by decide) rfl 1 (by decide) rfl

end RFV
