/-
C03 — no access outside the caller's buffers (the slice-level part).  Theorems only; proofs in
`Proofs/ExecLemmas.lean`.  `bufLen len adv b` is the length of the outer buffer `b` (`scratch` has length `adv`,
the advertised length, after `validate_*`'s trimming); `Region.Disjoint` is "different buffers, or non-overlapping
ranges of the same buffer".
-/
import RFV.Proofs.ExecLemmas

namespace RFV

/-- the `split_at_mut(self.len())` / `split_at_mut(inner_fft_len)` calls never panic: the (trimmed) scratch is at
least as long as the split point, for all inner specs -/
theorem split_points_valid (len : Nat) (s0 s1 : Spec) :
    len ≤ advertised .mixedRadix .inplace len s0 s1 ∧ len ≤ advertised .mixedRadix .immut len s0 s1 ∧
    len ≤ advertised .goodThomas .inplace len s0 s1 ∧ len ≤ advertised .goodThomas .immut len s0 s1 ∧
    len ≤ advertised .radixN .inplace len s0 s1 ∧ len ≤ advertised .radix4 .inplace len s0 s1 ∧
    len ≤ advertised .radix3 .inplace len s0 s1 ∧
    s0.len ≤ advertised .raders .inplace len s0 s1 ∧ s0.len ≤ advertised .raders .immut len s0 s1 ∧
    (∀ n e, s0.len ≤ advertised (.bluesteins n) e len s0 s1) :=
  exec_split_points_valid len s0 s1

/-- … and the same for the crate-private SIMD algorithms the AVX planner builds -/
theorem split_points_valid_simd (len : Nat) (s0 s1 : Spec) :
    len ≤ advertised .avxMixedRadix .inplace len s0 s1 ∧ len ≤ advertised .avxMixedRadix .immut len s0 s1 ∧
    (len = s0.len + 1 → len ≤ advertised .avxRaders .inplace len s0 s1 ∧ len ≤ advertised .avxRaders .immut len s0 s1) ∧
    (∀ n e, s0.len ≤ advertised (.avxBluesteins n) e len s0 s1) :=
  exec_split_points_valid_simd len s0 s1

/-- (4) every region handed to an inner call lies inside the outer buffer it names -/
theorem calls_in_bounds (a : Algo) (e : EntryKind) (len : Nat) (s0 s1 : Spec) (h : Shape a len s0 s1) :
    ∀ c ∈ calls a e len s0 s1 (advertised a e len s0 s1),
      c.data.off + c.data.len ≤ bufLen len (advertised a e len s0 s1) c.data.buf ∧
      c.scratch.off + c.scratch.len ≤ bufLen len (advertised a e len s0 s1) c.scratch.buf ∧
      (∀ r, c.out = some r → r.off + r.len ≤ bufLen len (advertised a e len s0 s1) r.buf) :=
  exec_calls_in_bounds a e len s0 s1 h

example : ∀ c ∈ calls .raders .inplace 8 ⟨7, 9, 0, 0⟩ ⟨0, 0, 0, 0⟩ 16,
    c.data.off + c.data.len ≤ bufLen 8 16 c.data.buf ∧ c.scratch.off + c.scratch.len ≤ bufLen 8 16 c.scratch.buf ∧
    (∀ r, c.out = some r → r.off + r.len ≤ bufLen 8 16 r.buf) :=
  calls_in_bounds .raders .inplace 8 ⟨7, 9, 0, 0⟩ ⟨0, 0, 0, 0⟩ rfl
example : calls .raders .inplace 8 ⟨7, 9, 0, 0⟩ ⟨0, 0, 0, 0⟩ 16 =
    [⟨0, .inplace, ⟨.scratch, 0, 7⟩, none, ⟨.scratch, 7, 9⟩⟩,
     ⟨0, .inplace, ⟨.scratch, 0, 7⟩, none, ⟨.scratch, 7, 9⟩⟩] := by decide

/-- (5) within one call the transformed region, the output region and the scratch region are pairwise disjoint —
the aliasing discipline the `&mut` borrows express.  (Holds for every `adv`, and without assuming the regions are
non-empty; `0 < len` because a length-0 instance never runs a chunk — `RadersAvx2` would panic in
`split_first_mut().unwrap()` there.) -/
theorem calls_disjoint (a : Algo) (e : EntryKind) (len : Nat) (s0 s1 : Spec) (adv : Nat) (hl : 0 < len) :
    ∀ c ∈ calls a e len s0 s1 adv,
      c.data.Disjoint c.scratch ∧ (∀ r, c.out = some r → c.data.Disjoint r ∧ r.Disjoint c.scratch) :=
  exec_calls_disjoint a e len s0 s1 adv hl

theorem region_disjoint_iff (r1 r2 : Region) :
    r1.Disjoint r2 ↔ (r1.buf ≠ r2.buf ∨ r1.off + r1.len ≤ r2.off ∨ r2.off + r2.len ≤ r1.off) := Iff.rfl

/-! ### (6) index arithmetic of the unchecked loops -/

/-- `transpose_small`: both `get_unchecked` indices are in range -/
theorem transpose_small_in_range (w h x y : Nat) (hx : x < w) (hy : y < h) :
    x + y * w < w * h ∧ y + x * h < w * h := transpose_small_index w h x y hx hy

/-- `reverse_bits::<D>(value, rev_digits)` stays below `D ^ rev_digits` (for every `value`) -/
theorem reverseDigits_lt (d k v : Nat) (hd : 2 ≤ d) (_hv : v < d ^ k) : reverseDigits d k v < d ^ k :=
  reverseDigits_lt' d k v (by omega)

/-- it is the `reverse_remainders` of the semantic model with `k` equal radixes -/
theorem reverseDigits_eq_reverseRemainders (d k v : Nat) :
    reverseDigits d k v = reverseRemainders (List.replicate k d) v 0 :=
  reverseDigitsAux_eq_reverseRemainders d k v 0

example : reverseDigits 2 4 0b0011 = 0b1100 := by decide
example : reverseDigits 3 2 5 = 7 := by decide

/-- the `butterfly_k` loops of `radixn.rs`: the data index `idx + r * num_columns` … -/
theorem butterfly_data_index (cols f idx r : Nat) (hi : idx < cols) (hr : r < f) :
    idx + r * cols < cols * f := butterfly_index cols f idx r hi hr

/-- … and the twiddle index `idx * (f - 1) + (r - 1)` for the rows `1 ≤ r < f` -/
theorem butterfly_twiddle_index_in_range (cols f idx r : Nat) (hi : idx < cols) (hr1 : 1 ≤ r) (hr : r < f) :
    idx * (f - 1) + (r - 1) < cols * (f - 1) := butterfly_twiddle_index cols f idx r hi hr1 hr

end RFV
