/-
C03 (memory safety of the AVX2 Rader index recurrence) — `VectorizedMultiplyMod` computes `(a * b) % divisor`.

  (1) `mulRem_correct`   for `0 < d < 2^31`, `a, b < d` (the range the crate uses: `d` = prime length, residues)
      `mulRem_u32`       the TRUE range is wider: any `u32` `a` and `b`, any 64-bit lane `a` through its low half;
                         the only real restriction is the asserted `d < 2^31` (it keeps `(b as i64) << 32` non-negative)
  (2) `mulRem_lt`        every produced gather index is `< d`; `mulRem_orbit_lt`: along the whole recurrence
  (3) `mulRem_ceil_reciprocal_wrong`  with the reciprocal rounded UP the single correction is not enough: the
                         remainder underflows to `2^64 - k` — an out-of-bounds gather index.  Witnesses in the very
                         configurations `RadersAvx2` builds (`b = g^4 mod p` / `g^2 mod p`); by exhaustive search (not a theorem)
                         the first prime lengths hit are `p = 72911` (f32) and `p = 74609` (f64).
      `mulRemCeil_correct_small`      … and why small tests cannot see it: the rounded-up variant is CORRECT
                         whenever `a * (d - 1) < 2^32`, in particular for every `d ≤ 2^16`.
-/
import Mathlib.Tactic.Ring
import Mathlib.Tactic.Linarith
import Mathlib.Tactic.NormNum
import RFV.Model.MulRem

namespace RFV

/-! ### arithmetic core (word size `T` abstract) -/

/-- quotient estimate with the reciprocal rounded DOWN: `q ≤ ⌊N/d⌋ ≤ q + 1`, as `q·d ≤ N < (q+2)·d` -/
theorem quot_estimate (a b d T : Nat) (hd : 0 < d) (hT : 0 < T) (haT : a ≤ T) :
    (a * (b * T / d) / T) * d ≤ a * b ∧ a * b < (a * (b * T / d) / T + 2) * d := by
  have h1 : b * T / d * d ≤ b * T := Nat.div_mul_le_self _ _
  have h2 : a * (b * T / d) / T * T ≤ a * (b * T / d) := Nat.div_mul_le_self _ _
  have h3 : b * T < d * (b * T / d + 1) := Nat.lt_mul_div_succ _ hd
  have h4 : a * (b * T / d) < T * (a * (b * T / d) / T + 1) := Nat.lt_mul_div_succ _ hT
  generalize b * T / d = m at *
  generalize a * m / T = q at *
  constructor
  · have : q * d * T ≤ a * b * T := by
      have e1 : q * T * d ≤ a * m * d := Nat.mul_le_mul_right d h2
      have e2 : a * (m * d) ≤ a * (b * T) := Nat.mul_le_mul_left a h1
      nlinarith [e1, e2]
    exact Nat.le_of_mul_le_mul_right this hT
  · have : a * b * T < (q + 2) * d * T := by
      have e1 : a * (b * T) ≤ a * (d * (m + 1)) := Nat.mul_le_mul_left a (Nat.le_of_lt h3)
      have e2 : a * m * d < T * (q + 1) * d := Nat.mul_lt_mul_of_pos_right h4 hd
      have e3 : a * d ≤ T * d := Nat.mul_le_mul_right d haT
      nlinarith [e1, e2, e3]
    exact Nat.lt_of_mul_lt_mul_right this

/-- remainder of `N` from a quotient estimate that is at most one too small, after one conditional correction -/
theorem rem_of_estimate (N q d : Nat) (h1 : q * d ≤ N) (h2 : N < (q + 2) * d) :
    (if N - q * d < d then N - q * d else N - q * d - d) = N % d := by
  obtain ⟨r, hr⟩ : ∃ r, N = q * d + r := ⟨N - q * d, by omega⟩
  have hr2 : r < 2 * d := by
    have : (q + 2) * d = q * d + 2 * d := by ring
    omega
  have hsub : N - q * d = r := by omega
  rw [hsub, hr, Nat.add_comm, Nat.add_mul_mod_self_right]
  split
  · rename_i h; rw [Nat.mod_eq_of_lt h]
  · rename_i h
    have h' : d ≤ r := by omega
    rw [Nat.mod_eq_sub_mod h', Nat.mod_eq_of_lt (by omega)]

/-! ### the machine words -/

theorem two32 : (2 : Nat) ^ 32 = 4294967296 := by norm_num
theorem two31 : (2 : Nat) ^ 31 = 2147483648 := by norm_num
theorem two63 : (2 : Nat) ^ 63 = 9223372036854775808 := by norm_num
theorem two64 : (2 : Nat) ^ 64 = 18446744073709551616 := by norm_num

/-- wrapping subtraction that does not wrap -/
theorem wsub64_of_le (x y : Nat) (hyx : y ≤ x) (hx : x < 2 ^ 64) : wsub64 x y = x - y := by
  unfold wsub64 u64
  rw [Nat.mod_eq_of_lt hx, Nat.mod_eq_of_lt (by omega : y < 2 ^ 64)]
  have : x + (2 ^ 64 - y) = (x - y) + 2 ^ 64 := by omega
  rw [this, Nat.add_mod_right, Nat.mod_eq_of_lt (by omega)]

/-- wrapping subtraction that wraps -/
theorem wsub64_of_lt (x y : Nat) (hxy : x < y) (hy : y < 2 ^ 64) : wsub64 x y = 2 ^ 64 - (y - x) := by
  unfold wsub64 u64
  rw [Nat.mod_eq_of_lt (by omega : x < 2 ^ 64), Nat.mod_eq_of_lt hy, Nat.mod_eq_of_lt (by omega)]
  omega

/-- the blend after the second subtraction is the conditional correction -/
theorem correction_eq (r d : Nat) (hr : r < 2 ^ 63) (hd : d < 2 ^ 32) :
    (if wsub64 r d ≥ 2 ^ 63 then r else wsub64 r d) = (if r < d then r else r - d) := by
  rw [two63] at hr; rw [two32] at hd
  by_cases h : r < d
  · rw [if_pos h, wsub64_of_lt r d h (by rw [two64]; omega), if_pos (by rw [two63, two64]; omega)]
  · rw [if_neg h, wsub64_of_le r d (by omega) (by rw [two64]; omega), if_neg (by rw [two63]; omega)]

/-- `mul_rem` with ANY 32-bit reciprocal `m` whose quotient estimate `q = ⌊a·m / 2^32⌋` satisfies
`q·d ≤ a·b < (q+2)·d` returns `(a·b) mod d`. -/
theorem mulRem_of_estimate (a b d m : Nat) (ha : a < 2 ^ 32) (hb : b < 2 ^ 32) (hd : d < 2 ^ 31)
    (hm : m < 2 ^ 32)
    (h1 : (a * m / 2 ^ 32) * d ≤ a * b) (h2 : a * b < (a * m / 2 ^ 32 + 2) * d) :
    mulRem ⟨b, d, m⟩ a = a * b % d := by
  have hd32 : d < 2 ^ 32 := by rw [two32]; rw [two31] at hd; omega
  have hq : a * m / 2 ^ 32 < 2 ^ 32 := by
    rw [Nat.div_lt_iff_lt_mul (by norm_num)]
    exact Nat.mul_lt_mul'' ha hm
  have ham : a * m < 2 ^ 64 := by
    have := Nat.mul_lt_mul'' ha hm
    rwa [← pow_add] at this
  have hab : a * b < 2 ^ 64 := by
    have := Nat.mul_lt_mul'' ha hb
    rwa [← pow_add] at this
  unfold mulRem
  simp only [mulEpu32, srli64_32, u32, u64, Nat.mod_eq_of_lt ha, Nat.mod_eq_of_lt hb, Nat.mod_eq_of_lt hm,
    Nat.mod_eq_of_lt hd32, Nat.mod_eq_of_lt ham, Nat.mod_eq_of_lt hq]
  generalize a * m / 2 ^ 32 = q at *
  rw [wsub64_of_le _ _ h1 hab]
  have hr : a * b - q * d < 2 ^ 63 := by
    have : (q + 2) * d = q * d + 2 * d := by ring
    rw [two63]; rw [two31] at hd; omega
  rw [correction_eq _ _ hr hd32]
  exact rem_of_estimate _ _ _ h1 h2

/-- the reciprocal that `new` stores, in the asserted range -/
theorem reciprocalI64_eq (b d : Nat) (hb : b < 2 ^ 31) : reciprocalI64 b d = b * 2 ^ 32 / d := by
  have hx : b * 2 ^ 32 < 2 ^ 63 := by rw [two31] at hb; rw [two32, two63]; omega
  unfold reciprocalI64 u64
  rw [Nat.mod_eq_of_lt (by rw [two64]; rw [two63] at hx; omega)]
  simp only [if_pos hx]

theorem mulRemNew_eq (b d : Nat) (hd : 0 < d) (hd31 : d < 2 ^ 31) (hb : b < 2 ^ 32) :
    mulRemNew b d = ⟨b % d, d, (b % d) * 2 ^ 32 / d⟩ := by
  have hd32 : d < 2 ^ 32 := by rw [two32]; rw [two31] at hd31; omega
  have hbd : b % d < 2 ^ 31 := lt_trans (Nat.mod_lt _ hd) hd31
  unfold mulRemNew
  simp only [u32, Nat.mod_eq_of_lt hd32, Nat.mod_eq_of_lt hb, reciprocalI64_eq _ _ hbd]

/-! ### (1) correctness -/

/-- **The true range.** For every divisor the constructor accepts (`0 < d < 2^31`), every `u32` multiplier `b`
and every `u32` operand `a` (not only residues), `mul_rem` is exactly `(a * b) % d`. -/
theorem mulRem_u32 (a b d : Nat) (hd : 0 < d) (hd31 : d < 2 ^ 31) (ha : a < 2 ^ 32) (hb : b < 2 ^ 32) :
    mulRem (mulRemNew b d) a = a * b % d := by
  have hd32 : d < 2 ^ 32 := by rw [two32]; rw [two31] at hd31; omega
  have hbd : b % d < d := Nat.mod_lt _ hd
  rw [mulRemNew_eq b d hd hd31 hb]
  have hm : (b % d) * 2 ^ 32 / d < 2 ^ 32 := by
    rw [Nat.div_lt_iff_lt_mul hd]
    calc b % d * 2 ^ 32 < d * 2 ^ 32 := Nat.mul_lt_mul_of_pos_right hbd (by norm_num)
      _ = 2 ^ 32 * d := Nat.mul_comm _ _
  obtain ⟨h1, h2⟩ := quot_estimate a (b % d) d (2 ^ 32) hd (by norm_num) (Nat.le_of_lt ha)
  rw [mulRem_of_estimate a (b % d) d _ ha (by omega) hd31 hm h1 h2, Nat.mul_mod, Nat.mod_mod, ← Nat.mul_mod]

/-- a 64-bit lane enters only through its low 32 bits (`_mm256_mul_epu32`) -/
theorem mulRem_lane (a b d : Nat) (hd : 0 < d) (hd31 : d < 2 ^ 31) (hb : b < 2 ^ 32) :
    mulRem (mulRemNew b d) a = (a % 2 ^ 32) * b % d := by
  rw [← mulRem_u32 (a % 2 ^ 32) b d hd hd31 (Nat.mod_lt _ (by norm_num)) hb]
  unfold mulRem mulEpu32 u32
  simp only [Nat.mod_mod]

/-- **(1)** in the range the crate uses: `d` the (prime) length `< 2^31`, `a` and `b` residues. -/
theorem mulRem_correct (a b d : Nat) (hd : 0 < d) (hd31 : d < 2 ^ 31) (ha : a < d) (hb : b < d) :
    mulRem (mulRemNew b d) a = a * b % d := by
  have hd32 : d < 2 ^ 32 := by rw [two32]; rw [two31] at hd31; omega
  exact mulRem_u32 a b d hd hd31 (by omega) (by omega)

/-! ### (2) every gather index is in range -/

/-- **(2)** -/
theorem mulRem_lt (a b d : Nat) (hd : 0 < d) (hd31 : d < 2 ^ 31) (ha : a < d) (hb : b < d) :
    mulRem (mulRemNew b d) a < d := by
  rw [mulRem_correct a b d hd hd31 ha hb]; exact Nat.mod_lt _ hd

/-- no hypothesis on the operand at all: any 64-bit lane value goes to an index `< d` -/
theorem mulRem_lt_any (a b d : Nat) (hd : 0 < d) (hd31 : d < 2 ^ 31) (hb : b < 2 ^ 32) :
    mulRem (mulRemNew b d) a < d := by
  rw [mulRem_lane a b d hd hd31 hb]; exact Nat.mod_lt _ hd

/-- the index recurrence of `prepare_raders`: `k` steps from `a₀` -/
def mulRemIter (s : MulRemState) : Nat → Nat → Nat
  | 0, a => a
  | k + 1, a => mulRemIter s k (mulRem s a)

/-- along the whole recurrence the lane is `a₀ · b^k mod d`, in particular `< d` -/
theorem mulRem_orbit (a b d : Nat) (hd : 0 < d) (hd31 : d < 2 ^ 31) (ha : a < d) (hb : b < d) :
    ∀ k, mulRemIter (mulRemNew b d) k a = a * b ^ k % d := by
  intro k
  induction k generalizing a with
  | zero => simp [mulRemIter, Nat.mod_eq_of_lt ha]
  | succ k ih =>
    rw [mulRemIter, ih _ (mulRem_lt a b d hd hd31 ha hb), mulRem_correct a b d hd hd31 ha hb,
      Nat.mul_mod, Nat.mod_mod, ← Nat.mul_mod, pow_succ]
    congr 1; ring

theorem mulRem_orbit_lt (a b d : Nat) (hd : 0 < d) (hd31 : d < 2 ^ 31) (ha : a < d) (hb : b < d) (k : Nat) :
    mulRemIter (mulRemNew b d) k a < d := by
  rw [mulRem_orbit a b d hd hd31 ha hb]; exact Nat.mod_lt _ hd

/-! ### (3) the rounding direction matters -/

/-- **(3)** With the reciprocal rounded UP there are residues `a, b < d < 2^31` for which the estimate is one
too LARGE, `numerator - quotient·d` underflows, the single correction does not repair it and the "index"
is `≥ d` (here `2^64 - 1`).  `d = 72911` is prime, `11` its least primitive root, `b = 11^4 = 14641` is exactly
the multiplier `RadersAvx2<f32>` builds (`root_powers[4]`), and `a = 71671` is on the orbit. -/
theorem mulRem_ceil_reciprocal_wrong :
    ∃ a b d, 0 < d ∧ d < 2 ^ 31 ∧ a < d ∧ b < d ∧
      ¬ mulRem (mulRemNewCeil b d) a < d ∧ mulRem (mulRemNewCeil b d) a ≠ a * b % d :=
  ⟨71671, 14641, 72911, by decide⟩

/-- the witness of the seeded-bug hunt, `p = 200971` (prime, least primitive root 2), f32 multiplier `2^4` -/
theorem mulRemCeil_200971_f32 : mulRem (mulRemNewCeil 16 200971) 37682 = 2 ^ 64 - 1 := by decide
/-- same length, f64 multiplier `2^2` -/
theorem mulRemCeil_200971_f64 : mulRem (mulRemNewCeil 4 200971) 100485 = 2 ^ 64 - 2 := by decide
/-- first length at which the f64 configuration (`b = g^2`) breaks: `p = 74609`, `g = 3` -/
theorem mulRemCeil_74609_f64 : mulRem (mulRemNewCeil 9 74609) 66319 = 2 ^ 64 - 1 := by decide
/-- the smallest divisor for which ANY residues break (see `mulRemCeil_correct_small`): `d = 2^16 + 1` -/
theorem mulRemCeil_65537 : mulRem (mulRemNewCeil 1 65537) 65536 = 2 ^ 64 - 1 := by decide
/-- the real (rounded-down) code on the same operands -/
example : mulRem (mulRemNew 14641 72911) 71671 = 71671 * 14641 % 72911 := by decide
example : mulRem (mulRemNew 16 200971) 37682 = 37682 * 16 % 200971 := by decide
example : mulRem (mulRemNew 4 200971) 100485 = 100485 * 4 % 200971 := by decide
example : mulRem (mulRemNew 1 65537) 65536 = 65536 := by decide

theorem mulRemNewCeil_eq (b d : Nat) (hd : 0 < d) (hd31 : d < 2 ^ 31) (hb : b < 2 ^ 32) :
    mulRemNewCeil b d = ⟨b % d, d, ((b % d) * 2 ^ 32 + d - 1) / d⟩ := by
  have hd32 : d < 2 ^ 32 := by rw [two32]; rw [two31] at hd31; omega
  have hbd : b % d < 2 ^ 31 := lt_trans (Nat.mod_lt _ hd) hd31
  have hx : b % d * 2 ^ 32 < 2 ^ 64 := by rw [two31] at hbd; rw [two32, two64]; omega
  unfold mulRemNewCeil
  simp only [u32, u64, Nat.mod_eq_of_lt hd32, Nat.mod_eq_of_lt hb, Nat.mod_eq_of_lt hx]

/-- quotient estimate with the reciprocal rounded UP, for small operands (`a·(d-1) < T`) -/
theorem quot_estimate_ceil (a b d T : Nat) (hd : 0 < d) (hT : 0 < T) (haT : a ≤ T) (hsmall : a * (d - 1) < T) :
    (a * ((b * T + d - 1) / d) / T) * d ≤ a * b ∧ a * b < (a * ((b * T + d - 1) / d) / T + 2) * d := by
  have hmono : b * T / d ≤ (b * T + d - 1) / d := Nat.div_le_div_right (by omega)
  have hq := quot_estimate a b d T hd hT haT
  have h1 : (b * T + d - 1) / d * d ≤ b * T + d - 1 := Nat.div_mul_le_self _ _
  have h2 : a * ((b * T + d - 1) / d) / T * T ≤ a * ((b * T + d - 1) / d) := Nat.div_mul_le_self _ _
  have hqmono : a * (b * T / d) / T ≤ a * ((b * T + d - 1) / d) / T :=
    Nat.div_le_div_right (Nat.mul_le_mul_left a hmono)
  generalize (b * T + d - 1) / d = m' at *
  generalize a * m' / T = q' at *
  generalize a * (b * T / d) / T = q at *
  refine ⟨?_, ?_⟩
  · -- q'·T·d ≤ a·m'·d ≤ a·(b·T + d - 1) = a·b·T + a·(d-1) < a·b·T + T, and q'·d·T is a multiple of T
    have e1 : q' * T * d ≤ a * m' * d := Nat.mul_le_mul_right d h2
    have e2 : a * (m' * d) ≤ a * (b * T + d - 1) := Nat.mul_le_mul_left a h1
    have e3 : a * (b * T + d - 1) = a * b * T + a * (d - 1) := by
      have : b * T + d - 1 = b * T + (d - 1) := by omega
      rw [this]; ring
    have e4 : q' * d * T < (a * b + 1) * T := by nlinarith [e1, e2, e3, hsmall]
    have := Nat.lt_of_mul_lt_mul_right e4
    omega
  · have : (q + 2) * d ≤ (q' + 2) * d := Nat.mul_le_mul_right d (by omega)
    omega

/-- **Why small tests are blind to the seeded bug**: with the reciprocal rounded up, `mul_rem` is still
correct for all residues whenever `a·(d-1) < 2^32` … -/
theorem mulRemCeil_correct_of_small (a b d : Nat) (hd : 0 < d) (hd31 : d < 2 ^ 31) (ha : a < 2 ^ 32)
    (hb : b < d) (hsmall : a * (d - 1) < 2 ^ 32) :
    mulRem (mulRemNewCeil b d) a = a * b % d := by
  have hd32 : d < 2 ^ 32 := by rw [two32]; rw [two31] at hd31; omega
  rw [mulRemNewCeil_eq b d hd hd31 (by omega), Nat.mod_eq_of_lt hb]
  have hm : (b * 2 ^ 32 + d - 1) / d < 2 ^ 32 := by
    rw [Nat.div_lt_iff_lt_mul hd]
    have : (b + 1) * 2 ^ 32 ≤ d * 2 ^ 32 := Nat.mul_le_mul_right _ hb
    have e : (b + 1) * 2 ^ 32 = b * 2 ^ 32 + 2 ^ 32 := by ring
    rw [Nat.mul_comm (2 ^ 32) d]
    omega
  obtain ⟨h1, h2⟩ := quot_estimate_ceil a b d (2 ^ 32) hd (by norm_num) (Nat.le_of_lt ha) hsmall
  exact mulRem_of_estimate a b d _ ha (by omega) hd31 hm h1 h2

/-- … in particular for EVERY length up to `2^16 = 65536` (and `mulRemCeil_65537` shows this is sharp). -/
theorem mulRemCeil_correct_small (a b d : Nat) (hd : 0 < d) (hd16 : d ≤ 2 ^ 16) (ha : a < d) (hb : b < d) :
    mulRem (mulRemNewCeil b d) a = a * b % d := by
  have h16 : (2 : Nat) ^ 16 = 65536 := by norm_num
  have hd31 : d < 2 ^ 31 := by rw [two31]; omega
  have ha32 : a < 2 ^ 32 := by rw [two32]; omega
  refine mulRemCeil_correct_of_small a b d hd hd31 ha32 hb ?_
  have h1 : a * (d - 1) ≤ (d - 1) * (d - 1) := Nat.mul_le_mul_right _ (by omega)
  have h2 : (d - 1) * (d - 1) ≤ 65535 * 65535 := Nat.mul_le_mul (by omega) (by omega)
  rw [two32]; omega

/-! ### concrete values -/

example : mulRemNew 16 200971 = ⟨16, 200971, 341937⟩ := by decide
example : mulRem (mulRemNew 16 200971) 2 = 32 := by decide
example : mulRem (mulRemNew 16 200971) 200970 = 200970 * 16 % 200971 := by decide
example : mulRem (mulRemNew 2147483646 2147483647) 2147483646 = 1 := by decide      -- (-1)·(-1) mod (2^31 - 1)
example : mulRem (mulRemNew 4294967295 2147483647) 4294967295 = 4294967295 * 4294967295 % 2147483647 := by decide
example : mulRem (mulRemNew 5 7) (2 ^ 32 + 3) = 1 := by decide                     -- only the low half of the lane counts
example : mulRemNewPanics 0 = true ∧ mulRemNewPanics (2 ^ 31) = true ∧ mulRemNewPanics (2 ^ 31 - 1) = false := by decide
example : mulRemLine 37682 16 200971 = "mulrem ok b=16 divisor=200971 intermediate=341937 rem=200970" := by decide
example : mulRemIter (mulRemNew 16 200971) 1000 2 = 2 * 16 ^ 1000 % 200971 :=
  mulRem_orbit 2 16 200971 (by decide) (by decide) (by decide) (by decide) 1000
/-- the assert is needed by the `i64` arithmetic of `new`, not by the algorithm: for `b ≥ 2^31` the shift
`(b as i64) << 32` is negative and the stored reciprocal is garbage -/
example : reciprocalI64 (2 ^ 31) (2 ^ 31 + 1) ≠ 2 ^ 31 * 2 ^ 32 / (2 ^ 31 + 1) := by decide

end RFV
