/-
The butterfly theorem in the form `Recipe.sem` uses for its leaves: over the complex pairs `Cx R` on any commutative
ring with a lawful cosine system, the real code's butterfly (the extracted program, run on the re/im parts of the input
array) IS `semDft` — the function `Recipe.sem` assigns to a `bfly n` leaf — with the twiddle `tw k n = cos θ ∓ i sin θ`,
`θ = 2π k/n`.  So for scalar butterflies "specified as the DFT of their size" is no longer an assumption of the model.
-/
import RFV.Props.C01Bfly
import RFV.Model.Sem

open Finset BigOperators

namespace RFV

variable {R : Type} [CommRing R]

/-- complex numbers over `R` as pairs (only the structure `semDft` needs) -/
@[ext] structure Cx (R : Type) where
  re : R
  im : R

instance : Zero (Cx R) := ⟨⟨0, 0⟩⟩
instance : Add (Cx R) := ⟨fun a b => ⟨a.re + b.re, a.im + b.im⟩⟩
instance : Mul (Cx R) := ⟨fun a b => ⟨a.re * b.re - a.im * b.im, a.re * b.im + a.im * b.re⟩⟩

@[simp] theorem Cx.zero_re : (0 : Cx R).re = 0 := rfl
@[simp] theorem Cx.zero_im : (0 : Cx R).im = 0 := rfl
@[simp] theorem Cx.add_re (a b : Cx R) : (a + b).re = a.re + b.re := rfl
@[simp] theorem Cx.add_im (a b : Cx R) : (a + b).im = a.im + b.im := rfl
@[simp] theorem Cx.mul_re (a b : Cx R) : (a * b).re = a.re * b.re - a.im * b.im := rfl
@[simp] theorem Cx.mul_im (a b : Cx R) : (a * b).im = a.re * b.im + a.im * b.re := rfl

/-- the twiddle system of a cosine system: `compute_twiddle(k, n, direction)` = `(cos θ, ∓ sin θ)` -/
def cosCtx {N : Nat} (S : CosSys R N) (inverse : Bool) (invR : Nat → R) : Ctx (Cx R) where
  tw := fun k n => ⟨gridCos S n k, (if inverse then 1 else -1) * gridSin S n k⟩
  conj := fun a => ⟨a.re, -a.im⟩
  inv := fun m => ⟨invR m, 0⟩

/-- what the real butterfly does to an array of complex pairs: run the program on the re/im parts -/
def bflySem {N : Nat} (P : RawProg) (S : CosSys R N) (x : Array (Cx R)) : Array (Cx R) :=
  let inp : Nat → R := fun j => if j % 2 = 0 then (at' x (j / 2)).re else (at' x (j / 2)).im
  let st := P.run S.cs inp
  tab P.n (fun k => ⟨regOf st (P.outs.getD (2 * k) 0), regOf st (P.outs.getD (2 * k + 1) 0)⟩)

theorem sumTo_re (f : Nat → Cx R) (n : Nat) : (sumTo f n).re = ∑ j ∈ range n, (f j).re := by
  induction n with
  | zero => simp [sumTo]
  | succ n ih => rw [sumTo, Cx.add_re, ih, Finset.sum_range_succ]

theorem sumTo_im (f : Nat → Cx R) (n : Nat) : (sumTo f n).im = ∑ j ∈ range n, (f j).im := by
  induction n with
  | zero => simp [sumTo]
  | succ n ih => rw [sumTo, Cx.add_im, ih, Finset.sum_range_succ]

theorem tab_congr' {K : Type} (n : Nat) (f g : Nat → K) (h : ∀ i, i < n → f i = g i) : tab n f = tab n g := by
  apply Array.ext
  · simp [tab]
  · intro i h1 h2
    have hi : i < n := by simpa [tab] using h1
    simp [tab, h i hi]

/-- a program that passes the check, run on the re/im parts of an array of complex pairs, is `semDft` -/
theorem checked_program_eq_semDft (P : RawProg) (hc : P.check = true) (S : CosSys R P.grid)
    (invR : Nat → R) (x : Array (Cx R)) :
    bflySem P S x = semDft (cosCtx S P.inverse invR) P.n x := by
  unfold bflySem semDft
  apply tab_congr'
  intro k hk
  obtain ⟨hre, him⟩ := checked_program_is_dft P hc S
    (fun j => if j % 2 = 0 then (at' x (j / 2)).re else (at' x (j / 2)).im) k hk
  have e0 : ∀ j : Nat, (2 * j) % 2 = 0 := fun j => by omega
  have e1 : ∀ j : Nat, ¬ ((2 * j + 1) % 2 = 0) := fun j => by omega
  have d0 : ∀ j : Nat, (2 * j) / 2 = j := fun j => by omega
  have d1 : ∀ j : Nat, (2 * j + 1) / 2 = j := fun j => by omega
  simp only [e0, e1, d0, d1, if_true, if_false] at hre him
  apply Cx.ext
  · show regOf _ _ = _
    rw [hre, sumTo_re]
    apply Finset.sum_congr rfl
    intro j _
    simp only [cosCtx, Cx.mul_re]
    cases P.inverse <;> simp <;> ring
  · show regOf _ _ = _
    rw [him, sumTo_im]
    apply Finset.sum_congr rfl
    intro j _
    simp only [cosCtx, Cx.mul_im]
    cases P.inverse <;> simp <;> ring

/-- **the real scalar butterfly is `semDft`** — the semantics `Recipe.sem` gives a `bfly n` leaf -/
theorem butterfly_program_eq_semDft (P : RawProg) (hP : P ∈ Gen.allButterflies) (S : CosSys R P.grid)
    (invR : Nat → R) (x : Array (Cx R)) :
    bflySem P S x = semDft (cosCtx S P.inverse invR) P.n x :=
  checked_program_eq_semDft P (List.all_eq_true.mp scalar_butterflies_check P hP) S invR x

/-- in particular for the `Recipe.bfly` leaf of the tree semantics -/
theorem bfly_leaf_is_real_code (P : RawProg) (hP : P ∈ Gen.allButterflies) (S : CosSys R P.grid) (invR : Nat → R)
    (x : Array (Cx R)) :
    (Recipe.bfly P.n).sem (cosCtx S P.inverse invR) x = bflySem P S x := by
  rw [butterfly_program_eq_semDft P hP S invR x]; rfl

end RFV
