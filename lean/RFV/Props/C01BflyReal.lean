/-
Non-vacuity of `CosSys`: the real cosines `cos(2π a / N)` (with `half = 1/2`) satisfy every law, for every grid `N`
divisible by 4.  Hence `scalar_butterflies_are_dft` applies to exact real arithmetic: the operation sequence of every
scalar butterfly of /repo, carried out over ℝ with the exact twiddle values, is the DFT.
-/
import Mathlib.Analysis.SpecialFunctions.Trigonometric.Basic
import RFV.Props.C01Bfly

open Real

namespace RFV

theorem angle_split (N : Nat) (hN : 0 < N) (a : Nat) :
    (2 * π * (a : ℝ) / N) = 2 * π * ((a % N : ℕ) : ℝ) / N + ((a / N : ℕ) : ℝ) * (2 * π) := by
  have hN' : (N : ℝ) ≠ 0 := by exact_mod_cast hN.ne'
  have h : (a : ℝ) = (N : ℝ) * ((a / N : ℕ) : ℝ) + ((a % N : ℕ) : ℝ) := by
    exact_mod_cast (Nat.div_add_mod a N).symm
  field_simp
  rw [h]; ring

theorem cos_angle_mod (N : Nat) (hN : 0 < N) (a : Nat) :
    cos (2 * π * ((a % N : ℕ) : ℝ) / N) = cos (2 * π * (a : ℝ) / N) := by
  rw [angle_split N hN a, Real.cos_add_nat_mul_two_pi]

/-- the real cosines are a lawful cosine system -/
noncomputable def realCos (N : Nat) (hN : 0 < N) (h4 : 4 ∣ N) : CosSys ℝ N where
  half := 1 / 2
  cs := fun a => cos (2 * π * (a : ℝ) / N)
  two_half := by norm_num
  cs_zero := by simp
  cs_mod := fun a => cos_angle_mod N hN a
  cs_even := fun a ha => by
    have hN' : (N : ℝ) ≠ 0 := by exact_mod_cast hN.ne'
    have : (2 * π * ((N - a : ℕ) : ℝ) / N) = 2 * π - 2 * π * (a : ℝ) / N := by
      rw [Nat.cast_sub ha]; field_simp
    rw [this, Real.cos_two_pi_sub]
  cs_quarter := by
    obtain ⟨q, rfl⟩ := h4
    have hq : 0 < q := by omega
    have hq' : (q : ℝ) ≠ 0 := by exact_mod_cast hq.ne'
    have : (4 * q) / 4 = q := by omega
    rw [this]
    have : (2 * π * (q : ℝ) / ((4 * q : ℕ) : ℝ)) = π / 2 := by push_cast; field_simp; ring
    rw [this, Real.cos_pi_div_two]
  cs_half := fun a => by
    obtain ⟨q, rfl⟩ := h4
    have hq : 0 < q := by omega
    have hq' : (q : ℝ) ≠ 0 := by exact_mod_cast hq.ne'
    have : (4 * q) / 2 = 2 * q := by omega
    rw [this]
    have : (2 * π * ((a + 2 * q : ℕ) : ℝ) / ((4 * q : ℕ) : ℝ)) = 2 * π * (a : ℝ) / ((4 * q : ℕ) : ℝ) + π := by
      push_cast; field_simp; ring
    rw [this, Real.cos_add_pi]
  prod := fun a b => by
    have hN' : (N : ℝ) ≠ 0 := by exact_mod_cast hN.ne'
    have hb : b % N ≤ N := (Nat.mod_lt b hN).le
    -- the second angle is A + 2π - B', B' the angle of b % N
    have e2 : (2 * π * ((a + (N - b % N) : ℕ) : ℝ) / N) =
        (2 * π * (a : ℝ) / N - 2 * π * ((b % N : ℕ) : ℝ) / N) + 2 * π := by
      rw [Nat.cast_add, Nat.cast_sub hb]; field_simp; ring
    -- the first angle is A + B' + k·2π
    have e1 : (2 * π * ((a + b : ℕ) : ℝ) / N) =
        (2 * π * (a : ℝ) / N + 2 * π * ((b % N : ℕ) : ℝ) / N) + ((b / N : ℕ) : ℝ) * (2 * π) := by
      have h : (b : ℝ) = (N : ℝ) * ((b / N : ℕ) : ℝ) + ((b % N : ℕ) : ℝ) := by
        exact_mod_cast (Nat.div_add_mod b N).symm
      rw [Nat.cast_add]; field_simp; rw [h]; ring
    show 2 * (cos (2 * π * (a : ℝ) / N) * cos (2 * π * (b : ℝ) / N)) =
      cos (2 * π * ((a + b : ℕ) : ℝ) / N) + cos (2 * π * ((a + (N - b % N) : ℕ) : ℝ) / N)
    rw [e1, e2, Real.cos_add_nat_mul_two_pi, Real.cos_add_two_pi, ← cos_angle_mod N hN b, Real.cos_add, Real.cos_sub]
    ring

/-- over the reals: every scalar butterfly of /repo, executed with exact arithmetic on the exact twiddle values,
computes the DFT of its length -/
theorem scalar_butterflies_are_dft_real (P : RawProg) (hP : P ∈ Gen.allButterflies) (hN : 0 < P.grid)
    (h4 : 4 ∣ P.grid) (x : Nat → ℝ) (k : Nat) (hk : k < P.n) :
    regOf (P.run (realCos P.grid hN h4).cs x) (P.outs.getD (2 * k) 0) =
      ∑ j ∈ Finset.range P.n, (x (2 * j) * gridCos (realCos P.grid hN h4) P.n (j * k) +
        (if P.inverse then -1 else 1) * (x (2 * j + 1) * gridSin (realCos P.grid hN h4) P.n (j * k))) :=
  (scalar_butterflies_are_dft P hP (realCos P.grid hN h4) x k hk).1

end RFV
