/- one sixth of the closed evaluation of Props/C01Planned (split so that the parts build in parallel) -/
import RFV.Gen.Planned
namespace RFV
theorem planned_chunk5_check : Gen.plannedChunk5.all RawProg.check = true := by native_decide
end RFV
