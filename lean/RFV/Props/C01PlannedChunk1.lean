/- one sixth of the closed evaluation of Props/C01Planned (split so that the parts build in parallel) -/
import RFV.Gen.Planned
namespace RFV
theorem planned_chunk1_check : Gen.plannedChunk1.all RawProg.check = true := by native_decide
end RFV
