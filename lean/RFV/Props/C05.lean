/-
C05 — quasi-linear work and linear workspace for every length (first part; the planner-wide bounds are in Props/C05Bounds).
-/
import RFV.Model.Ops
import RFV.Props.C04Scalar
import RFV.Props.C04Avx

namespace RFV

/-- the AVX planner's `construct_butterfly` falls back to the naive `Dft` only for lengths 0 and 1 -/
theorem avx_base_naive_only_trivial (ty : ElemTy) (n m : Nat) (h : avxConstructButterfly ty n = .ok (.dft m)) : m ≤ 1 := by
  unfold avxConstructButterfly at h
  split at h
  · injection h with h; injection h with h; omega
  · split at h
    · simp at h
    · split at h <;> simp at h

/-- Bluestein's inner length stays within a constant factor of the length, for every prime the scalar/SSE planners
send to Bluestein: `2n - 1 ≤ M < 4n` -/
theorem scalar_bluestein_inner_linear (len : Nat) (h : 1 ≤ len) :
    2 * len - 1 ≤ bluesteinInnerLen len ∧ bluesteinInnerLen len < 4 * len :=
  bluesteinInnerLen_bounds len h

/-- … and for the AVX planner: `M ≤ 81/16 · n` -/
theorem avx_bluestein_inner_linear (ty : ElemTy) (len : Nat) (h : 1 < len) :
    ∃ m, avxPlanBluesteins ty len = .ok m ∧ 2 * len - 1 ≤ m ∧ m * 16 ≤ 81 * len := by
  obtain ⟨m, hm, h1, _, _, h5⟩ := avxPlanBluesteins_ok ty len h
  exact ⟨m, hm, h1, h5⟩

example : (Recipe.radix4 3 (.bfly 16)).ops = 64 * 172 + 3 * (1024 / 4 * (18 + 16)) := by decide

end RFV
