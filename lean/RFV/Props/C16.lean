/-
C16 — programs written against the 6.x public API keep compiling (the finite core).

A finite table check, labelled as what it is: every declaration of the committed 6.4.1 baseline surface is still
present, verbatim (path, kind, generics, bounds, normalised signature), in the surface regenerated from /repo by
translator T5 on this run.  That "all downstream programs" are unaffected by *additions* is a stated, unproved
meta-argument; that the baseline items still type-check as used is what the witness crate (compiled on every run,
guard off) decides — rustc is the deciding procedure for "compiles", no model of Rust's type system is attempted.
-/
import RFV.Gen.Surface

namespace RFV

/-- the translator's own set difference is empty … -/
theorem surface_nothing_missing : Surface.missingFromCurrent = [] := by decide

/-- … and, independently of the translator's set arithmetic, membership is re-checked by the kernel on 60-bit hashes of
the entries (the string lists themselves are in `Gen/Surface.lean` for reading; comparing 194 x 194 strings in the kernel
takes minutes, hashes take a second) -/
theorem surface_superset : ∀ b ∈ Surface.baselineHashes, b ∈ Surface.currentHashes := by decide +kernel

theorem surface_not_vacuous : 150 ≤ Surface.baselineCount ∧ Surface.baselineCount ≤ Surface.currentCount := by decide

end RFV
