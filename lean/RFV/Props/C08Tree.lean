/-
C08 / C03 / C12 / C15 for WHOLE TREES — theorems only; proofs in `Proofs/TreeFit.lean` and `Proofs/AvxInv.lean`.

`Recipe.NodesFit ty t` (Proofs/TreeFit.lean): at every node of `t`, the node's algorithm, its length and its children's
advertised specs satisfy the `Shape` under which `scratch_suffices`, `calls_in_bounds`, `calls_disjoint`,
`immut_never_touches_input` hold.  So `NodesFit` says: in the whole tree, through every entry point, every inner call
is handed at least the scratch its callee advertises, on regions inside the caller's buffers (`fit1_gives`,
`fit2_gives` spell this out for one node).

  * `constructed_tree_nodesFit`      any tree over the public constructors that constructs (C12)
  * `planScalar_nodesFit`, `planSse_nodesFit`   every tree the scalar / SSE planner designs, every n > 0
  * `planHistory_avx_nodesFit`       every tree the AVX planner returns after ANY request history (both `avx2` values)

The two crate-private SIMD algorithms whose constructors do not assert what their bodies rely on are covered by the
planner invariants, and the reliance is shown necessary:
  * `RadersAvx2::perform_fft_immut` gives its first inner call `scratch[1..len]` (`len - 1` elements):
    `avxRaders_immut_starves_large_inner`; the AVX planner only ever wraps inner transforms with
    `inplace ≤ len` (part of `AvxGood`, preserved along every history).
  * `SseRadix4` gives its base an empty scratch: `sseRadix4_starves_base_with_scratch`; the SSE planner only uses
    butterflies as bases (`simdFits_sseClosed`).
-/
import RFV.Proofs.AvxInv
import RFV.Props.C05Bounds
import RFV.Props.C08
import RFV.Props.C03

namespace RFV

/-- what `fit1` gives for a one-child node: through every entry point every inner call has enough scratch and stays
inside the caller's buffers -/
theorem fit1_gives (ty : ElemTy) (a : Algo) (len : Nat) (i : Recipe) (h : fit1 ty a len i) :
    ∃ s, i.spec ty = .ok s ∧ ∀ e, ∀ c ∈ calls a e len s s (advertised a e len s s),
      c.need s s ≤ c.scratch.len ∧
      c.data.off + c.data.len ≤ bufLen len (advertised a e len s s) c.data.buf ∧
      c.scratch.off + c.scratch.len ≤ bufLen len (advertised a e len s s) c.scratch.buf ∧
      (∀ r, c.out = some r → r.off + r.len ≤ bufLen len (advertised a e len s s) r.buf) := by
  obtain ⟨s, hs, hsh⟩ := h
  refine ⟨s, hs, fun e c hc => ⟨scratch_suffices a e len s s hsh c hc, calls_in_bounds a e len s s hsh c hc⟩⟩

/-- the same for a two-child node -/
theorem fit2_gives (ty : ElemTy) (a : Algo) (len : Nat) (l r : Recipe) (h : fit2 ty a len l r) :
    ∃ w hh, l.spec ty = .ok w ∧ r.spec ty = .ok hh ∧ ∀ e, ∀ c ∈ calls a e len w hh (advertised a e len w hh),
      c.need w hh ≤ c.scratch.len ∧
      c.data.off + c.data.len ≤ bufLen len (advertised a e len w hh) c.data.buf ∧
      c.scratch.off + c.scratch.len ≤ bufLen len (advertised a e len w hh) c.scratch.buf ∧
      (∀ q, c.out = some q → q.off + q.len ≤ bufLen len (advertised a e len w hh) q.buf) := by
  obtain ⟨w, hh, hl, hr, hsh⟩ := h
  exact ⟨w, hh, hl, hr, fun e c hc => ⟨scratch_suffices a e len w hh hsh c hc, calls_in_bounds a e len w hh hsh c hc⟩⟩

/-- **C12**: a tree over the public constructors that constructs fits at every node -/
theorem constructed_tree_nodesFit (ty : ElemTy) (t : Recipe) (s : Spec) (h : t.spec ty = .ok s) (hpos : 0 < s.len)
    (hp : t.Portable) : t.NodesFit ty :=
  nodesFit_of_spec_portable ty t s h hpos hp

example : (Recipe.mixedRadix (.raders (.bfly 4)) (.bluesteins 3 (.bfly 8))).NodesFit .f32 :=
  constructed_tree_nodesFit .f32 _ ⟨15, 15, 0, 19⟩ (by decide) (by decide) (by simp [Recipe.Portable])

/-- every tree the scalar planner designs, for every length -/
theorem planScalar_nodesFit (ty : ElemTy) (n : Nat) (r : Recipe) (hn : 0 < n) (h : planScalar n = .ok r) :
    r.NodesFit ty := by
  obtain ⟨hl, ⟨s, hs, hsl, _⟩⟩ := planScalar_closed _ (specOK_scalarClosed ty (fun p hp => primitiveRoot_isSome p hp)) n r h
  obtain ⟨_, hf⟩ := planScalar_closed _ (simdFits_scalarClosed ty) n r h
  exact nodesFit_of_spec ty r s hs (by rw [hsl, hl]; exact hn) hf

/-- every tree the SSE planner designs, for every length — including that every `SseRadix4` base needs no scratch -/
theorem planSse_nodesFit (ty : ElemTy) (n : Nat) (r : Recipe) (hn : 0 < n) (h : planSse n = .ok r) :
    r.NodesFit ty := by
  obtain ⟨hl, ⟨s, hs, hsl, _⟩⟩ := planSse_closed _ (specOK_sseClosed ty (fun p hp => primitiveRoot_isSome p hp)) n r h
  obtain ⟨_, hf⟩ := planSse_closed _ (simdFits_sseClosed ty) n r h
  exact nodesFit_of_spec ty r s hs (by rw [hsl, hl]; exact hn) hf

/-- every tree the AVX planner returns after any request history from the fresh planner, with or without AVX2 —
including that every `RadersAvx2` inner transform needs at most its own length of in-place scratch -/
theorem planHistory_avx_nodesFit (ty : ElemTy) (avx2 : Bool) (reqs : List (Nat × Bool)) (ts : List Recipe)
    (s' : PlannerState) (h : planHistory (.avx avx2) ty reqs PlannerState.empty = .ok (ts, s')) :
    ∀ t ∈ ts, 0 < t.len → t.NodesFit ty := by
  obtain ⟨hg, _⟩ := planHistory_avx_good ty avx2 reqs _ ts s' (avxStateGood_empty ty) h
  exact fun t ht hpos => (hg t ht).nodesFit hpos

/-- one request from any cache of good trees (what `planHistory_avx_nodesFit` iterates) -/
theorem avxPlanAndConstruct_nodesFit (ty : ElemTy) (avx2 : Bool) (fuel : Nat) (c : InstCache) (len : Nat)
    (t : Recipe) (c' : InstCache) (hc : CacheAll (AvxGood ty) c) (hci : CacheInv c)
    (h : avxPlanAndConstruct ty avx2 fuel c len = .ok (t, c')) (hpos : 0 < len) :
    t.NodesFit ty ∧ CacheAll (AvxGood ty) c' := by
  obtain ⟨g1, g2, g3, _⟩ := avxPlanAndConstruct_good ty avx2 fuel c len t c' hc hci h
  exact ⟨g1.nodesFit (by rw [g3]; exact hpos), g2⟩

/-! ### the planner invariants are needed -/

/-- `RadersAvx2::perform_fft_immut`: an inner transform that wants more in-place scratch than its own length is
starved by the first inner call (it gets `scratch[1..len]`), although the constructor accepts it -/
theorem avxRaders_immut_starves_large_inner :
    ∃ c ∈ calls .avxRaders .immut 5 ⟨4, 9, 0, 0⟩ ⟨4, 9, 0, 0⟩ (advertised .avxRaders .immut 5 ⟨4, 9, 0, 0⟩ ⟨4, 9, 0, 0⟩),
      c.scratch.len < c.need ⟨4, 9, 0, 0⟩ ⟨4, 9, 0, 0⟩ := by decide

/-- … while the in-place and out-of-place entries of the same instance are fine (they switch to the extra scratch) -/
example : ∀ c ∈ calls .avxRaders .inplace 5 ⟨4, 9, 0, 0⟩ ⟨4, 9, 0, 0⟩ (advertised .avxRaders .inplace 5 ⟨4, 9, 0, 0⟩ ⟨4, 9, 0, 0⟩),
    c.need ⟨4, 9, 0, 0⟩ ⟨4, 9, 0, 0⟩ ≤ c.scratch.len := by decide

/-- `SseRadix4`: a base that wants any scratch is starved (it is handed `&mut []`) -/
theorem sseRadix4_starves_base_with_scratch :
    ∃ c ∈ calls .sseRadix4 .immut 16 ⟨4, 1, 0, 0⟩ ⟨4, 1, 0, 0⟩ (advertised .sseRadix4 .immut 16 ⟨4, 1, 0, 0⟩ ⟨4, 1, 0, 0⟩),
      c.scratch.len < c.need ⟨4, 1, 0, 0⟩ ⟨4, 1, 0, 0⟩ := by decide

/-- non-vacuity: a tree with a `RadersAvx2` node under an AVX mixed-radix step fits at every node -/
example : (Recipe.avxMixedRadix 2 (.avxRaders (.bfly 4))).NodesFit .f32 := by
  refine nodesFit_of_spec .f32 _ ⟨10, 10, 0, 15⟩ (by decide) (by decide) ?_
  simp only [Recipe.SimdFits, and_true]
  intro s hs
  simp only [Recipe.spec, Except.ok.injEq] at hs
  subst hs; decide

end RFV
