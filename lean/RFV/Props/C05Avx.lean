/-
C05, scratch clause for the AVX planner (the former open item) — theorems only; proofs in `Proofs/AvxInv.lean`.

Every tree the AVX planner returns — for any length, after ANY request history, with or without AVX2, f32 or f64 —
advertises at most `12·n + 64` elements of scratch for each of the three entry points; in fact at most `11·n`
(`7.5·n` for a mixed-radix chain over a Rader/Bluestein base; `n`, `0`, `2n` when no Rader/Bluestein step is needed).
The invariant `AvxGood` behind it is preserved by every `plan_fft` request (`avxPlanAndConstruct_good`), whatever the
cache holds, as long as the cache itself holds good trees — which it does from the empty planner on.
-/
import RFV.Proofs.AvxInv

namespace RFV

theorem avx_scratch_le (ty : ElemTy) (avx2 : Bool) (reqs : List (Nat × Bool)) (ts : List Recipe)
    (s' : PlannerState) (h : planHistory (.avx avx2) ty reqs PlannerState.empty = .ok (ts, s')) :
    ∀ t ∈ ts, ∃ s, t.spec ty = .ok s ∧
      s.inplace ≤ 12 * t.len + 64 ∧ s.oop ≤ 12 * t.len + 64 ∧ s.immut ≤ 12 * t.len + 64 := by
  obtain ⟨hg, _⟩ := planHistory_avx_good ty avx2 reqs _ ts s' (avxStateGood_empty ty) h
  exact fun t ht => (hg t ht).scratch_le

/-- the sharper bounds the invariant carries -/
theorem avx_scratch_le' (ty : ElemTy) (avx2 : Bool) (reqs : List (Nat × Bool)) (ts : List Recipe)
    (s' : PlannerState) (h : planHistory (.avx avx2) ty reqs PlannerState.empty = .ok (ts, s')) :
    ∀ t ∈ ts, ∃ s, t.spec ty = .ok s ∧
      (t.hasPrime = false → s.inplace ≤ t.len ∧ s.oop = 0 ∧ s.immut ≤ 2 * t.len) ∧
      2 * s.inplace ≤ 22 * t.len ∧ 2 * s.oop ≤ 22 * t.len ∧ 2 * s.immut ≤ 22 * t.len := by
  obtain ⟨hg, _⟩ := planHistory_avx_good ty avx2 reqs _ ts s' (avxStateGood_empty ty) h
  exact fun t ht => (hg t ht).scratch_le'

/-- one request, from any cache of good trees: the returned tree has the requested length, is good, and so is
everything the request adds to the cache -/
theorem avx_request_good (ty : ElemTy) (avx2 : Bool) (fuel : Nat) (c : InstCache) (len : Nat) (t : Recipe)
    (c' : InstCache) (hc : CacheAll (AvxGood ty) c) (hci : CacheInv c)
    (h : avxPlanAndConstruct ty avx2 fuel c len = .ok (t, c')) :
    t.len = len ∧ (∃ s, t.spec ty = .ok s ∧ s.inplace ≤ 12 * len + 64 ∧ s.oop ≤ 12 * len + 64 ∧
      s.immut ≤ 12 * len + 64) ∧ CacheAll (AvxGood ty) c' := by
  obtain ⟨g1, g2, g3, _⟩ := avxPlanAndConstruct_good ty avx2 fuel c len t c' hc hci h
  refine ⟨g3, ?_, g2⟩
  rw [← g3]; exact g1.scratch_le

/-- the Bluestein inner length the AVX planner picks is what makes the bound linear: `M ≤ 81/16 · n` -/
theorem avx_bluestein_inner_bounds (ty : ElemTy) (n m : Nat) (hn : 1 < n) (h : avxPlanBluesteins ty n = .ok m) :
    2 * n - 1 ≤ m ∧ m * 16 ≤ 81 * n := by
  obtain ⟨m', hm', hge, _⟩ := avxPlanBluesteins_spec ty n hn
  rw [h] at hm'; cases hm'
  exact ⟨hge, avxPlanBluesteins_upper ty n m hn h⟩

/-- non-vacuity: the worst measured case of the sweep, n = 4099 (f32): Bluestein with inner length 8748 = 2²·3⁷ -/
example : avxPlanBluesteins .f32 4099 = .ok 8748 := by decide
example : (Recipe.avxBluesteins 37 (.avxMixedRadix 2 (.avxBfly 48))).spec .f32 = .ok ⟨37, 192, 192, 192⟩ := by decide

end RFV
