/-
C06 — forward and inverse undo each other up to the factor n; no normalisation.

`c` is the context of one direction, `cinv c` (every twiddle conjugated) that of the other; `Recipe.sem` of the same
tree under the two contexts are the transforms a planner returns for the two directions of one length
(the direction enters every constructor only through `compute_twiddle(_, _, direction)`).
-/
import RFV.Props.C01

namespace RFV

variable {K : Type} [CommRing K]

/-- forward then inverse (same tree, opposite direction) returns `n • x`, unscaled — for every well-formed tree,
every length, every input -/
theorem roundtrip_fwd_inv (c : Ctx K) (ok : Nat → Prop) (hc : c.Lawful ok) (r : Recipe) (h : r.Good ok)
    (hn : ok r.len) (x : Array K) (hx : x.size = r.len) :
    r.sem (cinv c) (r.sem c x) = tab r.len (fun k => (r.len : K) * at' x k) := by
  rw [Recipe.sem_isDft c ok hc r h x hx,
    Recipe.sem_isDft (cinv c) ok (cinv_lawful hc) r h _ (semDft_size c _ x)]
  exact semDft_inverse c ok hc _ hn x

/-- inverse then forward: the same -/
theorem roundtrip_inv_fwd (c : Ctx K) (ok : Nat → Prop) (hc : c.Lawful ok) (r : Recipe) (h : r.Good ok)
    (hn : ok r.len) (x : Array K) (hx : x.size = r.len) :
    r.sem c (r.sem (cinv c) x) = tab r.len (fun k => (r.len : K) * at' x k) := by
  rw [Recipe.sem_isDft (cinv c) ok (cinv_lawful hc) r h x hx,
    Recipe.sem_isDft c ok hc r h _ (semDft_size (cinv c) _ x)]
  exact semDft_inverse' c ok hc _ hn x

/-- the two directions may even come from *different* trees of the same length (e.g. planned at different times,
under different cache contents): the round trip is still `n • x` -/
theorem roundtrip_two_trees (c : Ctx K) (ok : Nat → Prop) (hc : c.Lawful ok) (r₁ r₂ : Recipe)
    (h₁ : r₁.Good ok) (h₂ : r₂.Good ok) (hlen : r₂.len = r₁.len) (hn : ok r₁.len)
    (x : Array K) (hx : x.size = r₁.len) :
    r₂.sem (cinv c) (r₁.sem c x) = tab r₁.len (fun k => (r₁.len : K) * at' x k) := by
  rw [Recipe.sem_isDft c ok hc r₁ h₁ x hx,
    Recipe.sem_isDft (cinv c) ok (cinv_lawful hc) r₂ h₂ _ (by rw [semDft_size, hlen]), hlen]
  exact semDft_inverse c ok hc _ hn x

/-- `inverse(x) = conj(forward(conj(x)))` -/
theorem inverse_eq_conj_forward_conj (c : Ctx K) (ok : Nat → Prop) (hc : c.Lawful ok) (r : Recipe) (h : r.Good ok)
    (x : Array K) (hx : x.size = r.len) :
    r.sem (cinv c) x =
      tab r.len (fun k => c.conj (at' (r.sem c (tab r.len (fun j => c.conj (at' x j)))) k)) := by
  rw [Recipe.sem_isDft (cinv c) ok (cinv_lawful hc) r h x hx,
    Recipe.sem_isDft c ok hc r h _ (tab_size _ _)]
  exact semDft_cinv c ok hc _ x

/-- no entry point scales: the length-1 transform of every well-formed tree is the identity -/
theorem len1_identity (c : Ctx K) (ok : Nat → Prop) (hc : c.Lawful ok) (r : Recipe) (h : r.Good ok)
    (h1 : r.len = 1) (hok : ok 1) (x : Array K) (hx : x.size = 1) : r.sem c x = x := by
  rw [Recipe.sem_isDft c ok hc r h x (by rw [hx, h1]), h1, semDft_eq_tab]
  conv_rhs => rw [← tab_at' x, hx]
  refine tab_congr 1 _ _ (fun k hk => ?_)
  have hk0 : k = 0 := by omega
  subst hk0
  simp [dftF, hc.tw_zero 1 hok]

end RFV
