/-
C01 / C14 — WHOLE scalar-planned transforms, on the code's own operation sequences (translator T8).

For every length `2 ≤ n ≤ 64` whose scalar plan has no Rader / Bluestein node (56 lengths), both directions and all three
explicit entry points (in-place, out-of-place, immutable; scratch of exactly the advertised length), the REAL transform
returned by `FftPlannerScalar::<T>::plan_fft` — what `FftPlanner` falls back to for a third element type — was run on
the symbolic element type; for `n ≤ 32` (forward) additionally on a buffer of TWO chunks, each chunk checked on its own.
Everything the call can read besides the chunk under consideration — the scratch, the initial contents of the output
buffer, the other chunk — is filled with further symbolic inputs ("garbage", numbered from `2n`): a program whose
outputs mention any of them is rejected by the checker.  The 522 recorded programs (455 670 instructions; regenerated
on every run) all pass.  Hence each of them computes exactly the unnormalised DFT of its length, over every commutative ring
with a lawful cosine system, for EVERY input: a statement about the code (MixedRadix, MixedRadixSmall,
GoodThomasAlgorithmSmall, RadixN, Radix4, the butterflies, the chunk helpers and the scratch plumbing of three entry
points), not about a model of it.  The six closed evaluations `planned_chunk{0..5}_check` (Props/C01PlannedChunk*.lean, split only so that they build in
parallel) are, with `scalar_butterflies_check`, the only uses of `native_decide` in the project.
-/
import RFV.Props.C01BflyCx
import RFV.Gen.Planned
import RFV.Props.C01PlannedChunk0
import RFV.Props.C01PlannedChunk1
import RFV.Props.C01PlannedChunk2
import RFV.Props.C01PlannedChunk3
import RFV.Props.C01PlannedChunk4
import RFV.Props.C01PlannedChunk5

open Finset BigOperators

namespace RFV

variable {R : Type} [CommRing R]

theorem small_planned_check : Gen.allPlanned.all RawProg.check = true := by
  unfold Gen.allPlanned
  simp only [List.all_append, Bool.and_eq_true]
  exact ⟨⟨⟨⟨⟨planned_chunk0_check, planned_chunk1_check⟩, planned_chunk2_check⟩, planned_chunk3_check⟩,
    planned_chunk4_check⟩, planned_chunk5_check⟩

theorem small_planned_are_dft (P : RawProg) (hP : P ∈ Gen.allPlanned) (S : CosSys R P.grid) (x : Nat → R)
    (k : Nat) (hk : k < P.n) :
    regOf (P.run S.cs x) (P.outs.getD (2 * k) 0) =
      ∑ j ∈ range P.n, (x (2 * j) * gridCos S P.n (j * k) +
        (if P.inverse then -1 else 1) * (x (2 * j + 1) * gridSin S P.n (j * k))) ∧
    regOf (P.run S.cs x) (P.outs.getD (2 * k + 1) 0) =
      ∑ j ∈ range P.n, (x (2 * j + 1) * gridCos S P.n (j * k) -
        (if P.inverse then -1 else 1) * (x (2 * j) * gridSin S P.n (j * k))) :=
  checked_program_is_dft P (List.all_eq_true.mp small_planned_check P hP) S x k hk

/-- the same in the form of the tree semantics: the whole real transform, run on an array of complex pairs (the rest of
what it can read being arbitrary), is `semDft` of its length -/
theorem small_planned_eq_semDft (P : RawProg) (hP : P ∈ Gen.allPlanned) (S : CosSys R P.grid) (invR : Nat → R)
    (x : Array (Cx R)) : bflySem P S x = semDft (cosCtx S P.inverse invR) P.n x :=
  checked_program_eq_semDft P (List.all_eq_true.mp small_planned_check P hP) S invR x

/-- **C08 / C07 on the code**: the outputs do not depend on anything but the chunk's own `2n` input scalars — not on
the initial contents of the scratch, not on the initial contents of the output buffer, not on the other chunk of a
two-chunk call (all of these are inputs `≥ 2n` of the recorded program) -/
theorem planned_outputs_ignore_garbage (P : RawProg) (hP : P ∈ Gen.allPlanned) (S : CosSys R P.grid)
    (x x' : Nat → R) (hx : ∀ i, i < 2 * P.n → x i = x' i) (o : Nat) (ho : o < 2 * P.n) :
    regOf (P.run S.cs x) (P.outs.getD o 0) = regOf (P.run S.cs x') (P.outs.getD o 0) := by
  have hc := List.all_eq_true.mp small_planned_check P hP
  have key : ∀ k, k < P.n → ∀ (b : Bool),
      regOf (P.run S.cs x) (P.outs.getD (2 * k + (if b then 1 else 0)) 0) =
      regOf (P.run S.cs x') (P.outs.getD (2 * k + (if b then 1 else 0)) 0) := by
    intro k hk b
    obtain ⟨h1, h2⟩ := checked_program_is_dft P hc S x k hk
    obtain ⟨h1', h2'⟩ := checked_program_is_dft P hc S x' k hk
    have e : ∀ j, j < P.n → x (2 * j) = x' (2 * j) ∧ x (2 * j + 1) = x' (2 * j + 1) :=
      fun j hj => ⟨hx _ (by omega), hx _ (by omega)⟩
    cases b
    · simp only [Bool.false_eq_true, if_false, Nat.add_zero]
      rw [h1, h1']
      apply Finset.sum_congr rfl
      intro j hj
      have hj' := Finset.mem_range.mp hj
      rw [(e j hj').1, (e j hj').2]
    · simp only [if_true]
      rw [h2, h2']
      apply Finset.sum_congr rfl
      intro j hj
      have hj' := Finset.mem_range.mp hj
      rw [(e j hj').1, (e j hj').2]
  have ho2 : o = 2 * (o / 2) + (if o % 2 = 1 then 1 else 0) := by split <;> omega
  have := key (o / 2) (by omega) (decide (o % 2 = 1))
  simp only [decide_eq_true_eq] at this
  rw [ho2]; exact this

/-- there are two-chunk programs among them (non-vacuity of the chunk clause) -/
theorem planned_two_chunk_pos : 0 < Gen.plannedTwoChunk := by decide

end RFV
