/-
C01 / C14 — WHOLE scalar-planned transforms, on the code's own operation sequences (translator T8).

For every length `2 ≤ n ≤ 64` whose scalar plan has no Rader / Bluestein node (56 lengths), both directions and all three
explicit entry points (in-place, out-of-place, immutable; scratch of exactly the advertised length), the REAL transform
returned by `FftPlannerScalar::<T>::plan_fft` — what `FftPlanner` falls back to for a third element type — was run on
the symbolic element type; the 336 recorded programs (362 682 instructions; regenerated on every run) all pass the
verified checker.  Hence each of them computes exactly the unnormalised DFT of its length, over every commutative ring
with a lawful cosine system, for EVERY input: a statement about the code (MixedRadix, MixedRadixSmall,
GoodThomasAlgorithmSmall, RadixN, Radix4, the butterflies, the chunk helpers and the scratch plumbing of three entry
points), not about a model of it.  The six closed evaluations `planned_chunk{0..5}_check` (Props/C01PlannedChunk*.lean, split only so that they build in
parallel) are, with `scalar_butterflies_check`, the only uses of `native_decide` in the project.
-/
import RFV.Props.C01Bfly
import RFV.Gen.Planned
import RFV.Props.C01PlannedChunk0
import RFV.Props.C01PlannedChunk1
import RFV.Props.C01PlannedChunk2
import RFV.Props.C01PlannedChunk3
import RFV.Props.C01PlannedChunk4
import RFV.Props.C01PlannedChunk5

open Finset BigOperators

namespace RFV

variable {R : Type} [CommRing R]

theorem small_planned_check : Gen.allPlanned.all RawProg.check = true := by
  unfold Gen.allPlanned
  simp only [List.all_append, Bool.and_eq_true]
  exact ⟨⟨⟨⟨⟨planned_chunk0_check, planned_chunk1_check⟩, planned_chunk2_check⟩, planned_chunk3_check⟩,
    planned_chunk4_check⟩, planned_chunk5_check⟩

theorem small_planned_are_dft (P : RawProg) (hP : P ∈ Gen.allPlanned) (S : CosSys R P.grid) (x : Nat → R)
    (k : Nat) (hk : k < P.n) :
    regOf (P.run S.cs x) (P.outs.getD (2 * k) 0) =
      ∑ j ∈ range P.n, (x (2 * j) * gridCos S P.n (j * k) +
        (if P.inverse then -1 else 1) * (x (2 * j + 1) * gridSin S P.n (j * k))) ∧
    regOf (P.run S.cs x) (P.outs.getD (2 * k + 1) 0) =
      ∑ j ∈ range P.n, (x (2 * j + 1) * gridCos S P.n (j * k) -
        (if P.inverse then -1 else 1) * (x (2 * j) * gridSin S P.n (j * k))) :=
  checked_program_is_dft P (List.all_eq_true.mp small_planned_check P hP) S x k hk

end RFV
