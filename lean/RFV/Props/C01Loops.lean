/-
C01 (loop level) — the literal Rust loops transcribed in `RFV.Model.Loops` compute the closed ("gather") forms that
`RFV.Model.Sem` uses, for all sizes.  Every theorem has the shape `loop … = some (closed form)`: `some` says that no
`usize` subtraction underflows, no access is out of bounds (including the `get_unchecked` ones) and no `assert!` fires.

 4. Rader: `input_index`, `output_index`, `twiddle_input` recurrences  = `g^(i+1) % p`, `gi^(i+1) % p`, `gi^i % p`
 3. `bitreversed_transpose`, `factor_transpose` (+ `reverse_bits`, `reverse_remainders`, the run-length encoded
    reversed factor list of `RadixN::new`, `compute_logarithm`)       = the gather of `semRadixN`
 2. `GoodThomasAlgorithmSmall::new`: `extended_gcd`, input map, output scatter = the maps of `semGoodThomas`
 1. `GoodThomasAlgorithm::reindex_input` / `reindex_output`: closed forms, and the end-to-end statement
-/
import Mathlib.Data.Nat.Prime.Basic
import RFV.Proofs.LoopLemmas

namespace RFV

open Loops

/-! # C01-loops, item 4: Rader -/

/-- `input_index = (input_index * g) % p` from 1: the `i`-th value used is `g^(i+1) mod p` (`modular_exponent`) -/
theorem Loops.radersInputIdx_closed (p g : Nat) :
    radersInputIdx p g = (List.range (p - 1)).map (fun i => modPow g (i + 1) p) := by
  unfold radersInputIdx
  rw [mulIdxLoop_eq]
  apply List.map_congr_left
  intro i _
  rw [modPow_succ_eq]

theorem Loops.radersOutputIdx_closed (p gi : Nat) :
    radersOutputIdx p gi = (List.range (p - 1)).map (fun i => modPow gi (i + 1) p) :=
  Loops.radersInputIdx_closed p gi

/-- the constructor's `twiddle_input` recurrence: the `i`-th value used is `gi^i mod p` -/
theorem Loops.radersTwiddleInputs_closed (p gi : Nat) :
    radersTwiddleInputs p gi = (List.range (p - 1)).map (fun i => modPow gi i p) := by
  unfold radersTwiddleInputs
  rcases Nat.lt_or_ge 1 p with hp | hp
  · rw [twiddleInputLoop_eq p gi _ 1 hp]
    apply List.map_congr_left
    intro i _
    rw [Nat.one_mul, modPow_eq gi i p (Or.inl (by omega))]
  · have : p - 1 = 0 := by omega
    rw [this]; rfl

section
variable {α : Type} [Zero α]

/-- the input-reordering loop is the gather `scratch[i] = x[g^(i+1) mod p]` of `semRaders`
(no underflow of `input_index - 1`, no out-of-bounds read) -/
theorem Loops.radersGather_closed (p g : Nat) (x : Array α) (hx : x.size = p)
    (hnz : ∀ i, i < p - 1 → g ^ (i + 1) % p ≠ 0) :
    radersGather p g x = some (tab (p - 1) (fun i => at' x (modPow g (i + 1) p))) := by
  unfold radersGather
  simp only
  rw [Loops.radersInputIdx_closed, optMap_eq_some _ (fun idx => at' x idx)]
  · rw [List.map_map, Option.map_some, toArray_map_range]
    rfl
  · intro idx hidx
    obtain ⟨i, hi, rfl⟩ := List.mem_map.mp hidx
    have hi' : i < p - 1 := List.mem_range.mp hi
    have hp : 0 < p := by omega
    have h1 : modPow g (i + 1) p ≠ 0 := by
      rw [modPow_eq g (i + 1) p (Or.inr (by omega))]; exact hnz i hi'
    have h2 : modPow g (i + 1) p < p := by
      rw [modPow_eq g (i + 1) p (Or.inr (by omega))]; exact Nat.mod_lt _ hp
    rw [csub_of_le (by omega)]
    simp only
    have hsz : (x.extract 1 x.size).size = p - 1 := by simp [hx]
    rw [getElem?_eq_at' _ _ (by rw [hsz]; omega), at'_extract', if_pos (by omega)]
    congr 2
    omega

omit [Zero α] in
/-- the output-reordering loop is the scatter of `semRaders` (`out[gi^(i+1) mod p] = v i`, in the same order) -/
theorem Loops.radersScatter_closed (p gi : Nat) (v : Nat → α) (out : Array α) (ho : out.size = p)
    (hnz : ∀ i, i < p - 1 → gi ^ (i + 1) % p ≠ 0) :
    radersScatter p gi ((List.range (p - 1)).map v) out =
      some ((List.range (p - 1)).foldl (fun (o : Array α) i => o.setIfInBounds (modPow gi (i + 1) p) (v i)) out) := by
  unfold radersScatter
  rw [Loops.radersOutputIdx_closed, List.zip_map']
  have hfacts : ∀ i, i < p - 1 → 1 ≤ modPow gi (i + 1) p ∧ modPow gi (i + 1) p < p := by
    intro i hi
    have hp : 0 < p := by omega
    rw [modPow_eq gi (i + 1) p (Or.inr (by omega))]
    exact ⟨Nat.pos_of_ne_zero (hnz i hi), Nat.mod_lt _ hp⟩
  rw [optMap_eq_some _ (fun iv => (iv.1, iv.2))]
  · simp only
    rw [List.map_map, applyWrites_eq_foldl, List.foldl_map]
    · rfl
    · intro q hq
      obtain ⟨i, hi, rfl⟩ := List.mem_map.mp hq
      have := hfacts i (List.mem_range.mp hi)
      simp only [Function.comp]
      omega
  · intro iv hiv
    obtain ⟨i, hi, rfl⟩ := List.mem_map.mp hiv
    have := hfacts i (List.mem_range.mp hi)
    simp only
    rw [csub_of_le this.1]
    simp only
    rw [if_pos (by omega)]
    congr 2
    omega

end

/-- the side condition of the two theorems above holds for a unit modulo a prime -/
theorem Loops.pow_mod_ne_zero (p g : Nat) (hp : Nat.Prime p) (hg : ¬ p ∣ g) (i : Nat) : g ^ (i + 1) % p ≠ 0 := by
  intro h
  exact hg (hp.dvd_of_dvd_pow (Nat.dvd_of_mod_eq_zero h))

/-! # C01-loops, item 3: the digit-reversed transposes -/

section
variable {α : Type} [Zero α]

/-- `reverse_bits::<D>(v, k)` is the digit reversal over `k` factors `D` -/
theorem Loops.reverseBits_closed (D v k : Nat) : reverseBits D v k = reverseRemainders (List.replicate k D) v 0 :=
  reverseBits_eq D v k

/-- `reverse_remainders(v, self.factors)` with the run-length encoded reversed list built by `RadixN::new`
is the digit reversal over the reversed factor list -/
theorem Loops.reverseRemaindersTf_closed (fs : List Nat) (v : Nat) :
    reverseRemaindersTf v (transposeFactors fs) = reverseRemainders fs.reverse v 0 :=
  reverseRemaindersTf_transposeFactors fs v

/-- digit reversal over the reversed list is the inverse permutation of `[0, ∏ fs)`; both stay in range
(`assert!(r < width)`) -/
theorem Loops.reverseRemainders_inverse (fs : List Nat) (v : Nat) (hv : v < fs.prod) :
    reverseRemainders fs v 0 < fs.prod ∧ reverseRemainders fs.reverse v 0 < fs.prod ∧
    reverseRemainders fs.reverse (reverseRemainders fs v 0) 0 = v ∧
    reverseRemainders fs (reverseRemainders fs.reverse v 0) 0 = v :=
  ⟨reverseRemainders_lt fs v hv, reverseRemainders_reverse_lt fs v hv, reverseRemainders_reverse_cancel fs v hv,
    reverseRemainders_reverse_cancel' fs v hv⟩

/-- `factor_transpose::<_, D>(height, input, output, factors)` with the factor list of `RadixN::new`:
no assert fires, every access is in range, and the result is the gather `out[y + r*height] = in[rev⁻¹ r + y*width]`
with `rev⁻¹ = reverseRemainders fs` over the factors in their original order -/
theorem Loops.factorTranspose_closed (fs : List Nat) (hfs : ∀ f ∈ fs, 1 ≤ f) (D height : Nat) (hD : 2 ≤ D)
    (hdvd : D ∣ fs.prod) (hh : 0 < height) (input output : Array α)
    (hin : input.size = height * fs.prod) (hout : output.size = height * fs.prod) :
    factorTranspose D height input output (transposeFactors fs) =
      some (tab (height * fs.prod) (fun o =>
        at' input (reverseRemainders fs (o / height) 0 + (o % height) * fs.prod))) := by
  have hP : 0 < fs.prod := by
    clear hdvd hin hout
    induction fs with
    | nil => simp
    | cons a l ih =>
      rw [List.prod_cons]
      exact Nat.mul_pos (hfs a List.mem_cons_self) (ih (fun f hf => hfs f (List.mem_cons_of_mem _ hf)))
  have hw : input.size / height = fs.prod := by rw [hin, Nat.mul_div_cancel_left _ hh]
  unfold factorTranspose
  rw [if_neg (by omega)]
  simp only [hw]
  rw [if_neg (by omega), if_neg (by
    rw [not_not]
    exact ⟨Nat.mod_eq_zero_of_dvd hdvd, by omega, by rw [hin]; exact Nat.mul_mod_left _ _, by rw [hin, hout]⟩)]
  have hrevfun : (fun v => reverseRemaindersTf v (transposeFactors fs)) = fun v => reverseRemainders fs.reverse v 0 :=
    funext (reverseRemaindersTf_transposeFactors fs)
  rw [hrevfun, transposeAsserts_true _ _ _ (fun v hv => reverseRemainders_reverse_lt fs v hv), if_pos rfl]
  exact transposeLoops_eq D height fs.prod _ (fun r => reverseRemainders fs r 0) input output (by omega) hdvd hh hin hout
    (fun v hv => ⟨reverseRemainders_reverse_lt fs v hv, reverseRemainders_reverse_cancel' fs v hv⟩)
    (fun r hr => ⟨reverseRemainders_lt fs r hr, reverseRemainders_reverse_cancel fs r hr⟩)

/-- the transpose step of `RadixN::perform_fft_*` is the array `t` of `semRadixN` -/
theorem Loops.radixNTranspose_closed (fs : List Nat) (hfs : ∀ f ∈ fs, 2 ≤ f) (baseLen : Nat) (hb : 0 < baseLen)
    (input output : Array α) (hin : input.size = baseLen * fs.foldl (· * ·) 1)
    (hout : output.size = baseLen * fs.foldl (· * ·) 1) :
    radixNTranspose fs baseLen input output =
      some (tab (baseLen * fs.foldl (· * ·) 1) (fun o =>
        at' input (reverseRemainders fs (o / baseLen) 0 + (o % baseLen) * fs.foldl (· * ·) 1))) := by
  rw [foldl_mul_eq_list_prod] at hin hout ⊢
  unfold radixNTranspose
  have hexp := expand_transposeFactors fs
  have hcnt := transposeFactors_count_pos fs
  cases htf : transposeFactors fs with
  | nil =>
    rw [htf] at hexp
    have hnil : fs = [] := by
      have : fs.reverse = [] := by rw [← hexp]; rfl
      simpa using this
    subst hnil
    simp only [List.prod_nil, Nat.mul_one] at hin hout ⊢
    rw [if_pos (by rw [hin, hout])]
    congr 1
    apply eq_tab_of_at'' _ _ _ hin
    intro i hi
    simp [reverseRemainders, Nat.mod_eq_of_lt hi]
  | cons p rest =>
    obtain ⟨d, cnt⟩ := p
    rw [htf] at hexp hcnt
    have hc : 1 ≤ cnt := hcnt (d, cnt) List.mem_cons_self
    have hmem : d ∈ fs := by
      have h1 : d ∈ expand ((d, cnt) :: rest) := by
        simp only [expand, List.flatMap_cons, List.mem_append, List.mem_replicate]
        refine Or.inl ⟨by omega, ?_⟩
        first | rfl | trivial
      rw [hexp] at h1
      exact List.mem_reverse.mp h1
    simp only
    rw [← htf]
    exact Loops.factorTranspose_closed fs (fun f hf => by have := hfs f hf; omega) d baseLen (hfs d hmem)
      (List.dvd_prod hmem) hb input output hin hout

/-- `bitreversed_transpose::<_, D>(height, input, output)` for `width = D^k`, `k ≥ 1` -/
theorem Loops.bitreversedTranspose_closed (D k height : Nat) (hD : 2 ≤ D) (hk : 1 ≤ k) (hh : 0 < height)
    (input output : Array α) (hin : input.size = height * D ^ k) (hout : output.size = height * D ^ k) :
    bitreversedTranspose D height input output =
      some (tab (height * D ^ k) (fun o =>
        at' input (reverseRemainders (List.replicate k D) (o / height) 0 + (o % height) * D ^ k))) := by
  have hw : input.size / height = D ^ k := by rw [hin, Nat.mul_div_cancel_left _ hh]
  have hprod : (List.replicate k D).prod = D ^ k := List.prod_replicate k D
  have hrevl : (List.replicate k D).reverse = List.replicate k D := List.reverse_replicate
  unfold bitreversedTranspose
  rw [if_neg (by omega)]
  simp only [hw]
  rw [if_neg (by
    rw [not_not]
    exact ⟨by omega, by rw [hin]; exact Nat.mul_mod_right _ _, by rw [hin, hout]⟩), revDigits_pow D k hD]
  simp only
  have hrevfun : (fun v => reverseBits D v k) = fun v => reverseRemainders (List.replicate k D).reverse v 0 := by
    funext v; rw [hrevl, reverseBits_eq]
  have hlt : ∀ v, v < D ^ k → reverseRemainders (List.replicate k D).reverse v 0 < D ^ k := by
    intro v hv; rw [← hprod] at hv ⊢; exact reverseRemainders_reverse_lt _ v hv
  rw [hrevfun, transposeAsserts_true _ _ _ hlt, if_pos rfl]
  have hdvd : D ∣ D ^ k := dvd_pow_self D (by omega)
  exact transposeLoops_eq D height (D ^ k) _ (fun r => reverseRemainders (List.replicate k D) r 0) input output
    (by omega) hdvd hh hin hout
    (fun v hv => ⟨hlt v hv, by rw [← hprod] at hv; exact reverseRemainders_reverse_cancel' _ v hv⟩)
    (fun r hr => by
      rw [← hprod] at hr ⊢
      exact ⟨reverseRemainders_lt _ r hr, reverseRemainders_reverse_cancel _ r hr⟩)

/-- the transpose step of `Radix4` (`D = 4`), `Radix3` (`D = 3`), `SseRadix4::perform_fft_*`
is the array `t` of `semRadixN` for `fs = [D, …, D]` (`k` times, `k = 0` included) -/
theorem Loops.radixDTranspose_closed (D k baseLen : Nat) (hD : 2 ≤ D) (hb : 0 < baseLen)
    (input output : Array α) (hin : input.size = baseLen * (List.replicate k D).foldl (· * ·) 1)
    (hout : output.size = baseLen * (List.replicate k D).foldl (· * ·) 1) :
    radixDTranspose D baseLen input output =
      some (tab (baseLen * (List.replicate k D).foldl (· * ·) 1) (fun o =>
        at' input (reverseRemainders (List.replicate k D) (o / baseLen) 0 +
          (o % baseLen) * (List.replicate k D).foldl (· * ·) 1))) := by
  rw [foldl_mul_eq_list_prod, List.prod_replicate] at hin hout ⊢
  unfold radixDTranspose
  rcases Nat.eq_zero_or_pos k with hk | hk
  · subst hk
    simp only [pow_zero, Nat.mul_one] at hin hout ⊢
    rw [if_pos hin, if_pos (by rw [hin, hout])]
    congr 1
    apply eq_tab_of_at'' _ _ _ hin
    intro i hi
    simp [reverseRemainders, Nat.mod_eq_of_lt hi]
  · have h2 : 2 ≤ D ^ k := by
      calc 2 ≤ D := hD
        _ = D ^ 1 := (pow_one D).symm
        _ ≤ D ^ k := Nat.pow_le_pow_right (by omega) hk
    have hne : input.size ≠ baseLen := by
      rw [hin]
      intro h
      have : baseLen * 2 ≤ baseLen * D ^ k := Nat.mul_le_mul_left _ h2
      omega
    rw [if_neg hne]
    exact Loops.bitreversedTranspose_closed D k baseLen hD hk hb input output hin hout

end

/-! # C01-loops, item 2: `GoodThomasAlgorithmSmall` -/

section
variable {α : Type} [Zero α]

/-- the input copy loop through `input_map` is the array `a` of `semGoodThomas` -/
theorem Loops.gtSmallReindexInput_closed (w h : Nat) (hw : 0 < w) (hh : 0 < h) (input output : Array α)
    (hin : input.size = w * h) (hout : output.size = w * h) :
    gtSmallReindexInput w h input output =
      some (tab (w * h) (fun i => at' input (((i % w) * h + (i / w) * w) % (w * h)))) := by
  unfold gtSmallReindexInput gtSmallInputMap
  rw [hout, zip_map_range]
  have hlen : 0 < w * h := Nat.mul_pos hw hh
  apply copyPairs_eq_tab _ _ _ _ _ hout
  · intro p hp
    obtain ⟨i, hi, rfl⟩ := List.mem_map.mp hp
    exact ⟨by rw [hin]; exact Nat.mod_lt _ hlen, List.mem_range.mp hi, rfl⟩
  · intro k hk
    exact ⟨_, List.mem_map.mpr ⟨k, List.mem_range.mpr hk, rfl⟩, rfl⟩

/-- **the output scatter of `GoodThomasAlgorithmSmall` is the gather of `semGoodThomas`**:
`out[(x*h*hinv + y*w*winv) % len] = d[y + x*h]` for all `(x, y)` is `out[k] = d[k % h + (k % w) * h]` for all `k`,
for any inverses `hinv = h⁻¹ mod w`, `winv = w⁻¹ mod h` (in particular the scatter is a bijection on `[0, len)`) -/
theorem Loops.gtSmallReindexOutput_closed (w h wInv hInv : Nat) (hw : 0 < w) (hh : 0 < h) (co : Nat.Coprime w h)
    (hwi : w * wInv % h = 1 % h) (hhi : h * hInv % w = 1 % w) (d output : Array α)
    (hd : d.size = w * h) (hout : output.size = w * h) :
    gtSmallReindexOutput w h wInv hInv d output =
      some (tab (w * h) (fun k => at' d (k % h + (k % w) * h))) := by
  unfold gtSmallReindexOutput gtSmallOutputMap
  rw [hd, zip_range_map]
  have hlen : 0 < w * h := Nat.mul_pos hw hh
  have hrur : ∀ x y, (x * h * hInv + y * w * wInv) % (w * h) = rur w h wInv hInv x y := fun _ _ => rfl
  apply copyPairs_eq_tab _ _ _ _ _ hout
  · intro p hp
    obtain ⟨i, hi, rfl⟩ := List.mem_map.mp hp
    have hi' : i < w * h := List.mem_range.mp hi
    have hx : i / h < w := Nat.div_lt_of_lt_mul (by rwa [Nat.mul_comm] at hi')
    refine ⟨by rw [hd]; exact hi', Nat.mod_lt _ hlen, ?_⟩
    simp only
    rw [hrur, rur_mod_h _ _ _ _ _ _ hwi, rur_mod_w _ _ _ _ _ _ hhi, Nat.mod_mod, Nat.mod_eq_of_lt hx,
      Nat.mod_add_div']
  · intro k hk
    have hi : k % h + (k % w) * h < w * h := by
      rw [Nat.mul_comm w h]; exact add_mul_lt _ _ _ _ (Nat.mod_lt _ hh) (Nat.mod_lt _ hw)
    refine ⟨_, List.mem_map.mpr ⟨k % h + (k % w) * h, List.mem_range.mpr hi, rfl⟩, ?_⟩
    simp only
    rw [hrur, Nat.add_mul_div_right _ _ hh, Nat.div_eq_of_lt (Nat.mod_lt _ hh), Nat.zero_add,
      Nat.add_mul_mod_self_right, Nat.mod_mod]
    apply crt_unique w h co _ _ (Nat.mod_lt _ hlen) hk
    · rw [hrur, rur_mod_w _ _ _ _ _ _ hhi, Nat.mod_mod]
    · rw [hrur, rur_mod_h _ _ _ _ _ _ hwi, Nat.mod_mod]

/-- the same with the inverses that `GoodThomasAlgorithmSmall::new` computes with `extended_gcd`
(`assert!(gcd == 1)` passes and the `as usize` casts do not wrap) -/
theorem Loops.gtSmallReindexOutput_extendedGcd (w h : Nat) (hw : 0 < w) (hh : 0 < h) (co : Nat.Coprime w h)
    (d output : Array α) (hd : d.size = w * h) (hout : output.size = w * h) :
    ∃ wInv hInv, gtSmallInverses w h = some (wInv, hInv) ∧
      gtSmallReindexOutput w h wInv hInv d output = some (tab (w * h) (fun k => at' d (k % h + (k % w) * h))) := by
  obtain ⟨wi, hi, heq, h1, h2⟩ := gtSmallInverses_spec w h hw hh co
  exact ⟨wi, hi, heq, Loops.gtSmallReindexOutput_closed w h wi hi hw hh co h1 h2 d output hd hout⟩

end

/-! # C01-loops, item 1: `GoodThomasAlgorithm::reindex_input` / `reindex_output` -/

/-- the destination index sequence of `reindex_input` in closed form: source element `s` goes to
`(s mod w) + (s mod h)·w`; in particular none of the three `usize` subtractions underflows -/
theorem Loops.reindexInputIdx_closed (w h : Nat) (hw : 0 < w) (hwh : w ≤ h) (co : Nat.Coprime w h) :
    reindexInputIdx w h = some ((List.range (w * h)).map (fun s => s % w + (s % h) * w)) :=
  reindexInputIdx_eq w h hw hwh co

section
variable {α : Type} [Zero α]

/-- **`reindex_input` in gather form**: `destination[d] = source[crt (d mod w) (d / w)]`, the CRT map written with any
inverses `wInv = w⁻¹ mod h`, `hInv = h⁻¹ mod w` (it is the *output* map of the Small variant) -/
theorem Loops.reindexInput_closed (w h wInv hInv : Nat) (hw : 0 < w) (hwh : w ≤ h) (co : Nat.Coprime w h)
    (hwi : w * wInv % h = 1 % h) (hhi : h * hInv % w = 1 % w) (src dst : Array α)
    (hs : src.size = w * h) (hd : dst.size = w * h) :
    reindexInput w h src dst =
      some (tab (w * h) (fun d => at' src ((d % w * h * hInv + d / w * w * wInv) % (w * h)))) := by
  have hh : 0 < h := by omega
  unfold reindexInput
  rw [reindexInputIdx_eq w h hw hwh co]
  simp only
  rw [zip_range_map]
  apply copyPairs_eq_tab _ _ _ _ _ hd
  · intro p hp
    obtain ⟨s, hs', rfl⟩ := List.mem_map.mp hp
    have hs'' : s < w * h := List.mem_range.mp hs'
    refine ⟨by rw [hs]; exact hs'', inPos_lt w h s hw hh, ?_⟩
    simp only
    have := rur_inPos w h wInv hInv s hw hh co hwi hhi hs''
    unfold rur at this
    rw [this]
  · intro k hk
    refine ⟨_, List.mem_map.mpr ⟨rur w h wInv hInv (k % w) (k / w), List.mem_range.mpr ?_, rfl⟩, ?_⟩
    · exact Nat.mod_lt _ (Nat.mul_pos hw hh)
    · exact inPos_rur w h wInv hInv k hwi hhi hk

/-- **`reindex_input` in scatter form** -/
theorem Loops.reindexInput_scatter (w h : Nat) (hw : 0 < w) (hwh : w ≤ h) (co : Nat.Coprime w h)
    (src dst : Array α) (hs : src.size = w * h) (hd : dst.size = w * h) :
    ∃ a, reindexInput w h src dst = some a ∧ a.size = w * h ∧
      ∀ s, s < w * h → at' a (s % w + (s % h) * w) = at' src s := by
  have hh : 0 < h := by omega
  obtain ⟨wi, hi, _, hwi, hhi⟩ := gtSmallInverses_spec w h hw hh co
  refine ⟨_, Loops.reindexInput_closed w h wi hi hw hwh co hwi hhi src dst hs hd, tab_size' _ _, ?_⟩
  intro s hs'
  have hlt := inPos_lt w h s hw hh
  unfold inPos at hlt
  rw [at'_tab' _ _ _ hlt]
  have := rur_inPos w h wi hi s hw hh co hwi hhi hs'
  unfold rur inPos at this
  rw [this]

/-- **`reindex_output` in gather form**: `destination[k] = source[(k·wInv mod h) + (k·hInv mod w)·h]`
(`self.height - quotient` does not underflow, all accesses in range) -/
theorem Loops.reindexOutput_closed (w h wInv hInv : Nat) (hw : 0 < w) (hh : 0 < h) (co : Nat.Coprime w h)
    (hwi : w * wInv % h = 1 % h) (hhi : h * hInv % w = 1 % w) (src dst : Array α)
    (hs : src.size = w * h) (hd : dst.size = w * h) :
    reindexOutput w h src dst =
      some (tab (w * h) (fun k => at' src (k * wInv % h + (k * hInv % w) * h))) := by
  obtain ⟨ps, hps, hmem⟩ := mem_reindexOutputPairs w h hw hh
  unfold reindexOutput
  rw [hps]
  simp only
  apply copyPairs_eq_tab _ _ _ _ _ hd
  · intro p hp
    obtain ⟨y, hy, x, hx, rfl⟩ := (hmem p).mp hp
    refine ⟨?_, Nat.mod_lt _ (Nat.mul_pos hw hh), ?_⟩
    · rw [hs, Nat.add_comm, Nat.mul_comm w h]; exact add_mul_lt _ _ _ _ hx hy
    · simp only
      have h1 := outPos_mul_wInv w h wInv y x hwi
      have h2 := outPos_mul_hInv w h hInv y x hhi
      unfold outPos at h1 h2
      rw [h1, h2, Nat.mod_eq_of_lt hx, Nat.mod_eq_of_lt hy, Nat.add_comm]
  · intro k hk
    refine ⟨(k * hInv % w * h + k * wInv % h, outPos w h (k * hInv % w) (k * wInv % h)), ?_, ?_⟩
    · exact (hmem _).mpr ⟨_, Nat.mod_lt _ hw, _, Nat.mod_lt _ hh, rfl⟩
    · exact outPos_inv w h wInv hInv k hw hh co hwi hhi hk

/-- **`reindex_output` in scatter form**: element `x` of chunk `y` lands at the Ruritanian index `(y·h + x·w) mod len` -/
theorem Loops.reindexOutput_scatter (w h : Nat) (hw : 0 < w) (hh : 0 < h) (co : Nat.Coprime w h)
    (src dst : Array α) (hs : src.size = w * h) (hd : dst.size = w * h) :
    ∃ o, reindexOutput w h src dst = some o ∧ o.size = w * h ∧
      ∀ y, y < w → ∀ x, x < h → at' o ((y * h + x * w) % (w * h)) = at' src (y * h + x) := by
  obtain ⟨wi, hi, _, hwi, hhi⟩ := gtSmallInverses_spec w h hw hh co
  refine ⟨_, Loops.reindexOutput_closed w h wi hi hw hh co hwi hhi src dst hs hd, tab_size' _ _, ?_⟩
  intro y hy x hx
  rw [at'_tab' _ _ _ (Nat.mod_lt _ (Nat.mul_pos hw hh))]
  have h1 := outPos_mul_wInv w h wi y x hwi
  have h2 := outPos_mul_hInv w h hi y x hhi
  unfold outPos at h1 h2
  rw [h1, h2, Nat.mod_eq_of_lt hx, Nat.mod_eq_of_lt hy, Nat.add_comm]

end

/-! # C01-loops, item 1, end to end: `GoodThomasAlgorithm::perform_fft_*` with the literal re-indexing loops -/

section
open Finset BigOperators
variable {K : Type} [CommRing K]

/-- summing over `s < w·h` is summing over the residue pairs `(s mod w, s mod h)` (CRT) -/
theorem Loops.sum_crt_mod (w h : Nat) (hw : 0 < w) (hh : 0 < h) (co : Nat.Coprime w h) (f : ℕ → ℕ → K) :
    ∑ s ∈ range (w * h), f (s % w) (s % h) = ∑ x ∈ range w, ∑ y ∈ range h, f x y := by
  have hinj : Set.InjOn (fun s : ℕ => (s % w, s % h)) (range (w * h) : Finset ℕ) := by
    intro a ha b hb hab
    simp only [coe_range, Set.mem_Iio] at ha hb
    simp only [Prod.mk.injEq] at hab
    exact crt_unique w h co a b ha hb hab.1 hab.2
  have himg : (range (w * h)).image (fun s : ℕ => (s % w, s % h)) = range w ×ˢ range h := by
    apply Finset.eq_of_subset_of_card_le
    · intro p hp
      obtain ⟨s, _, rfl⟩ := mem_image.mp hp
      exact mem_product.mpr ⟨mem_range.mpr (Nat.mod_lt _ hw), mem_range.mpr (Nat.mod_lt _ hh)⟩
    · rw [card_image_of_injOn hinj]; simp
  rw [← sum_product', ← himg, sum_image hinj]

/-- **`GoodThomasAlgorithm` (the non-Small variant) computes the DFT**: CRT re-indexing by the incremental loop of
`reindex_input`, width FFTs, transpose, height FFTs, Ruritanian re-indexing by the rotated loop of `reindex_output`.
`w ≤ h` is what the constructor's swap establishes. -/
theorem Loops.goodThomasBig_eq_semDft (c : Ctx K) (ok : Nat → Prop) (hc : c.Lawful ok) (w h : Nat)
    (hw : 0 < w) (hwh : w ≤ h) (co : Nat.Coprime w h) (hok : ok (w * h))
    (fw fh : Array K → Array K) (hfw : IsDft c w fw) (hfh : IsDft c h fh)
    (buf x : Array K) (hb : buf.size = w * h) (hx : x.size = w * h) :
    goodThomasBig w h fw fh buf x = some (semDft c (w * h) x) := by
  have hh : 0 < h := by omega
  obtain ⟨a, ha, hasz, hscat⟩ := Loops.reindexInput_scatter w h hw hwh co x buf hx hb
  obtain ⟨wi, hi, _, hwi, hhi⟩ := gtSmallInverses_spec w h hw hh co
  unfold goodThomasBig
  rw [ha]
  simp only
  rw [Loops.reindexOutput_closed w h wi hi hw hh co hwi hhi _ buf (by rw [mapChunks_size, tab_size]) hb]
  congr 1
  rw [semDft_eq_tab]
  apply tab_congr
  intro k hk
  obtain ⟨kx, hkxdef⟩ : ∃ kx, kx = k * hi % w := ⟨_, rfl⟩
  obtain ⟨ky, hkydef⟩ : ∃ ky, ky = k * wi % h := ⟨_, rfl⟩
  have hkx : kx < w := by rw [hkxdef]; exact Nat.mod_lt _ hw
  have hky : ky < h := by rw [hkydef]; exact Nat.mod_lt _ hh
  have hkeq : (kx * h + ky * w) % (w * h) = k := by
    rw [hkxdef, hkydef]; exact outPos_inv w h wi hi k hw hh co hwi hhi hk
  rw [← hkydef, ← hkxdef, Nat.add_comm ky (kx * h),
    at'_mapChunks_isDft c h fh hfh _ w kx ky (tab_size _ _) hkx hky]
  -- the twiddle of the big DFT splits along the CRT
  have htw : ∀ s, c.tw (s * k) (w * h) = c.tw ((s % w) * kx) w * c.tw ((s % h) * ky) h := by
    intro s
    have e : s * (kx * h + ky * w) = 0 + h * (s * kx) + w * (s * ky) + w * h * 0 := by ring
    rw [← hkeq, tw_mul_mod hc (w * h) hok, ← tw_combine hc w h hok 0 (s * kx) (s * ky) _ 0 e, hc.tw_zero _ hok,
      one_mul, tw_mod_mul hc w (ok_left hc w h hok), tw_mod_mul hc h (ok_right hc w h hok)]
  unfold dftF
  obtain ⟨F, hF⟩ : ∃ F : ℕ → ℕ → K, F = fun x' y' => at' a (x' + y' * w) * (c.tw (x' * kx) w * c.tw (y' * ky) h) :=
    ⟨_, rfl⟩
  have hrhs : ∑ s ∈ range (w * h), at' x s * c.tw (s * k) (w * h) = ∑ s ∈ range (w * h), F (s % w) (s % h) := by
    apply sum_congr rfl
    intro s hs
    rw [htw s, ← hscat s (mem_range.mp hs), hF]
  rw [hrhs, Loops.sum_crt_mod w h hw hh co F, sum_comm, hF]
  apply sum_congr rfl
  intro y' hy'
  have hy'' : y' < h := mem_range.mp hy'
  have hlt : kx * h + y' < w * h := by
    rw [Nat.add_comm, Nat.mul_comm w h]; exact add_mul_lt _ _ _ _ hy'' hkx
  beta_reduce
  rw [at'_tab_lt _ _ _ hlt, Nat.add_comm (kx * h) y', add_mul_div_of_lt _ _ _ hy'', add_mul_mod_of_lt _ _ _ hy'',
    Nat.add_comm kx (y' * w),
    at'_mapChunks_isDft c w fw hfw a h y' kx (by rw [hasz, Nat.mul_comm]) hy'' hkx]
  unfold dftF
  rw [sum_mul]
  apply sum_congr rfl
  intro x' _
  beta_reduce
  rw [Nat.add_comm (y' * w) x']
  ring

/-- the same, against the model: the literal non-Small pipeline agrees with `semGoodThomas` (whose index maps are the
Small variant's) on every input, although the two variants use different permutations inside -/
theorem Loops.goodThomasBig_eq_semGoodThomas (c : Ctx K) (ok : Nat → Prop) (hc : c.Lawful ok) (w h : Nat)
    (hw : 0 < w) (hwh : w ≤ h) (co : Nat.Coprime w h) (hok : ok (w * h))
    (fw fh : Array K → Array K) (hfw : IsDft c w fw) (hfh : IsDft c h fh)
    (buf x : Array K) (hb : buf.size = w * h) (hx : x.size = w * h) :
    goodThomasBig w h fw fh buf x = some (semGoodThomas w h fw fh x) := by
  rw [Loops.goodThomasBig_eq_semDft c ok hc w h hw hwh co hok fw fh hfw hfh buf x hb hx,
    semGoodThomas_isDft c ok hc w h hok co fw fh hfw hfh x hx]

end

/-! # C01-loops: the model functions with the literal loops plugged in -/

section
variable {K : Type} [CommRing K]

/-- `semRadixN` is: the literal transpose step of `RadixN::perform_fft_*`, base FFTs on the chunks, the layers -/
theorem Loops.semRadixN_literal (c : Ctx K) (fs : List Nat) (hfs : ∀ f ∈ fs, 2 ≤ f) (baseLen : Nat) (hb : 0 < baseLen)
    (fB : Array K → Array K) (x out : Array K) (hx : x.size = baseLen * fs.foldl (· * ·) 1)
    (hout : out.size = baseLen * fs.foldl (· * ·) 1) :
    ∃ t, radixNTranspose fs baseLen x out = some t ∧
      semRadixN c fs baseLen fB x = semRadixLayers c fs baseLen (mapChunks baseLen fB t) :=
  ⟨_, Loops.radixNTranspose_closed fs hfs baseLen hb x out hx hout, rfl⟩

/-- `semRadixN [D, …, D]` (`Radix4`: `D = 4`, `Radix3`: `D = 3`) with the literal `bitreversed_transpose` step -/
theorem Loops.semRadixD_literal (c : Ctx K) (D k baseLen : Nat) (hD : 2 ≤ D) (hb : 0 < baseLen)
    (fB : Array K → Array K) (x out : Array K) (hx : x.size = baseLen * (List.replicate k D).foldl (· * ·) 1)
    (hout : out.size = baseLen * (List.replicate k D).foldl (· * ·) 1) :
    ∃ t, radixDTranspose D baseLen x out = some t ∧
      semRadixN c (List.replicate k D) baseLen fB x =
        semRadixLayers c (List.replicate k D) baseLen (mapChunks baseLen fB t) :=
  ⟨_, Loops.radixDTranspose_closed D k baseLen hD hb x out hx hout, rfl⟩

/-- `semRaders` is: the literal input-reordering loop, inner FFT, pointwise product with the precomputed spectrum
(whose twiddle indices come from the literal `twiddle_input` recurrence), inner FFT, the literal output-reordering loop -/
theorem Loops.semRaders_literal (c : Ctx K) (p g gi : Nat) (fI : Array K → Array K) (x : Array K) (hx : x.size = p)
    (hg : ∀ i, i < p - 1 → g ^ (i + 1) % p ≠ 0) (hgi : ∀ i, i < p - 1 → gi ^ (i + 1) % p ≠ 0) :
    ∃ sIn, radersGather p g x = some sIn ∧
      let data := fI (((radersTwiddleInputs p gi).map (fun e => c.tw e p * c.inv (p - 1))).toArray)
      let s := fI sIn
      let t := fI (tab (p - 1) (fun i =>
        let v := c.conj (at' s i * at' data i)
        if i = 0 then v + c.conj (at' x 0) else v))
      radersScatter p gi ((List.range (p - 1)).map (fun i => c.conj (at' t i)))
          ((Array.replicate p 0).setIfInBounds 0 (at' x 0 + at' s 0)) =
        some (semRaders c p g gi fI x) := by
  refine ⟨_, Loops.radersGather_closed p g x hx hg, ?_⟩
  simp only
  rw [Loops.radersScatter_closed p gi _ _ (by simp) hgi, Loops.radersTwiddleInputs_closed, List.map_map,
    toArray_map_range]
  rfl

end

end RFV
