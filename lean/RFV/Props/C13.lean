/-
C13 — correct under every SIMD capability level and feature-flag combination.

The decision logic (which planner constructs / is chosen) as theorems over the L7 table; the planner theorems of C04
(`Props/C04Avx`) are already quantified over *both* values of `avx2`, every element type and every cache.
-/
import RFV.Model.Decision
import RFV.Props.C04Avx

namespace RFV

/-- a dedicated SIMD planner returns `Err` exactly when its instruction set is unavailable, compiled out, or the
element type is not f32/f64 -/
theorem avxPlannerNew_err_iff (cf : CargoFeatures) (cpu : CpuFeatures) (ty : ElemTy) :
    avxPlannerNew cf cpu ty = false ↔ (cf.avx = false ∨ cpu.avx = false ∨ cpu.fma = false ∨ (ty ≠ .f32 ∧ ty ≠ .f64)) := by
  obtain ⟨a, b⟩ := cf
  obtain ⟨c, d, e, f⟩ := cpu
  cases ty <;> cases a <;> cases c <;> cases d <;> simp [avxPlannerNew, isFloat]

theorem ssePlannerNew_err_iff (cf : CargoFeatures) (cpu : CpuFeatures) (ty : ElemTy) :
    ssePlannerNew cf cpu ty = false ↔ (cf.sse = false ∨ cpu.sse41 = false ∨ (ty ≠ .f32 ∧ ty ≠ .f64)) := by
  obtain ⟨a, b⟩ := cf
  obtain ⟨c, d, e, f⟩ := cpu
  cases ty <;> cases b <;> cases f <;> simp [ssePlannerNew, isFloat]

/-- the automatic planner always constructs (it is a total function with a scalar fallback), and what it selects
always has its requirements met and is the first such in the order AVX, SSE, (NEON, WASM,) scalar -/
theorem choosePlanner_sound (cf : CargoFeatures) (cpu : CpuFeatures) (ty : ElemTy) :
    (choosePlanner cf cpu ty = .avx ↔ avxPlannerNew cf cpu ty = true) ∧
    (choosePlanner cf cpu ty = .sse ↔ (avxPlannerNew cf cpu ty = false ∧ ssePlannerNew cf cpu ty = true)) ∧
    (choosePlanner cf cpu ty = .scalar ↔ (avxPlannerNew cf cpu ty = false ∧ ssePlannerNew cf cpu ty = false)) ∧
    choosePlanner cf cpu ty ≠ .neon ∧ choosePlanner cf cpu ty ≠ .wasm := by
  unfold choosePlanner
  cases h1 : avxPlannerNew cf cpu ty <;> cases h2 : ssePlannerNew cf cpu ty <;>
    simp [neonPlannerNew, wasmPlannerNew]

/-- AVX without AVX2 is a supported level: the AVX planner still constructs (only `avx` and `fma` are required) -/
theorem avx_without_avx2_constructs (ty : ElemTy) (h : ty = .f32 ∨ ty = .f64) :
    avxPlannerNew ⟨true, true⟩ ⟨true, true, false, true⟩ ty = true := by
  rcases h with h | h <;> subst h <;> decide

/-- under that level every length is still planned and constructed (C04 for `avx2 = false`, from any reachable cache) -/
theorem avx_without_avx2_plans (ty : ElemTy) (c : InstCache) (hc : CacheInv c) (len : Nat) :
    ∃ r c', avxPlanAndConstruct ty false (planFuel len) c len = .ok (r, c') ∧ r.len = len :=
  let ⟨r, c', h, hl, _⟩ := avxPlanAndConstruct_planFuel ty false c hc len
  ⟨r, c', h, hl⟩

example : choosePlanner ⟨true, true⟩ ⟨false, true, true, true⟩ .f64 = .sse := by decide
example : choosePlanner ⟨false, false⟩ ⟨true, true, true, true⟩ .f64 = .scalar := by decide

end RFV
