/-
C04 (no constructor assert fires on a scalar- or SSE-planned tree) — final statements only.

`Recipe.spec` (Model/Spec.lean) replays every constructor of the planned tree with the constructors' own scratch
formulas (generated from the Rust source into `RFV/Gen/Scratch.lean`) and turns every constructor `assert!` into an
`.error`.  `planScalar_spec_ok` says that no such error is reachable from the scalar planner, for every length and
element type.  The only hypothesis is that `primitive_root` finds a root for every prime (`hroot`; proved separately).
-/
import RFV.Proofs.SpecLemmas

namespace RFV

/-- `isPrimeNat` (the model of `miller_rabin`, asserted by `RadersAlgorithm::new`) is primality -/
theorem isPrimeNat_eq_true_iff (n : Nat) : isPrimeNat n = true ↔ Nat.Prime n := isPrimeNat_iff n

example : Nat.Prime 1009 := (isPrimeNat_eq_true_iff 1009).1 (by decide)
example : isPrimeNat 1001 = false := by decide

/-- THE PROPERTY: on the tree the scalar planner emits for `n`, no constructor assert fires, and the instance
advertises length `n`. -/
theorem planScalar_spec_ok (ty : ElemTy) (n : Nat) (hroot : ∀ p, Nat.Prime p → (primitiveRoot p).isSome) :
    ∃ r s, planScalar n = .ok r ∧ r.spec ty = .ok s ∧ s.len = n := by
  obtain ⟨r, hr, hl, s, hs, hsl, _⟩ :=
    scalarForLen_okQ (SpecOK ty) (specOK_scalarClosed ty hroot) n (planFuel n) (by unfold planFuel; omega)
  exact ⟨r, s, hr, hs, by rw [hsl, hl]⟩

/-- in addition, a planned tree shorter than 33 needs no out-of-place scratch and at most `len` in-place scratch
(the requirement of `MixedRadixSmall::new` / `GoodThomasAlgorithmSmall::new` on their children) -/
theorem planScalar_spec_small (ty : ElemTy) (n : Nat) (hn : n < 33)
    (hroot : ∀ p, Nat.Prime p → (primitiveRoot p).isSome) :
    ∃ r s, planScalar n = .ok r ∧ r.spec ty = .ok s ∧ s.len = n ∧ s.oop = 0 ∧ s.inplace ≤ n := by
  obtain ⟨r, hr, hl, s, hs, hsl, hsm⟩ :=
    scalarForLen_okQ (SpecOK ty) (specOK_scalarClosed ty hroot) n (planFuel n) (by unfold planFuel; omega)
  obtain ⟨h1, h2⟩ := hsm (by omega)
  exact ⟨r, s, hr, hs, by rw [hsl, hl], h1, by rw [← hl, ← hsl]; exact h2⟩

example (hroot : ∀ p, Nat.Prime p → (primitiveRoot p).isSome) :
    ∃ r s, planScalar 1009 = .ok r ∧ r.spec .f32 = .ok s ∧ s.len = 1009 := planScalar_spec_ok .f32 1009 hroot

/-- the same for the SSE planner (here also the `SseRadix4::new` assert
`base_len % (2 * COMPLEX_PER_VECTOR) == 0 && base_len > 0`) -/
theorem planSse_spec_ok (ty : ElemTy) (n : Nat) (hroot : ∀ p, Nat.Prime p → (primitiveRoot p).isSome) :
    ∃ r s, planSse n = .ok r ∧ r.spec ty = .ok s ∧ s.len = n := by
  obtain ⟨r, hr, hl, s, hs, hsl, _⟩ :=
    sseForLen_okQ (SpecOK ty) (specOK_sseClosed ty hroot) n (planFuel n) (by unfold planFuel; omega)
  exact ⟨r, s, hr, hs, by rw [hsl, hl]⟩

example (hroot : ∀ p, Nat.Prime p → (primitiveRoot p).isSome) :
    ∃ r s, planSse (3 * 2 ^ 20) = .ok r ∧ r.spec .f32 = .ok s ∧ s.len = 3 * 2 ^ 20 :=
  planSse_spec_ok .f32 _ hroot
example : (Recipe.goodThomasSmall (.bfly 2) (.bfly 5)).spec .f64 = .ok ⟨10, 10, 0, 10⟩ := by decide

end RFV
