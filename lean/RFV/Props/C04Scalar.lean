/-
C04 (scalar planner totality) — final statements only; all proofs are in `RFV/Proofs/*`.

  (A)  `strip_spec`               the `while n % d == 0 { n /= d }` loop computes the exact d-adic split
  (B)  `compute_wf`               `PrimeFactors::compute(n)` returns the prime factorisation of `n`
  (B') `compute_isPrime_iff`      `is_prime()` on it is exactly primality (trial division is correct)
  (C)  `partition_wf`             `partition_factors` never hits an assert and returns two proper cofactors
  (D)  `planScalar_ok`            the scalar planner reaches no `.error` (assert / unwrap / fuel) for any length,
                                  and the recipe it builds has the requested length
  (E)  `bluesteinInnerLen_bounds` `2n-1 ≤ M < 4n` for the Bluestein inner length
       `planSse_ok`               the SSE twin of (D)
  (F)  `planScalar_fuel_irrelevant`, `planSse_fuel_irrelevant`
                                  any run of the fuel-bounded recursion that succeeds, at any fuel, returns the
                                  planner's recipe (so the value chosen for `planFuel` cannot change a result)
-/
import RFV.Proofs.ArithLemmas
import RFV.Proofs.PlanScalar

namespace RFV

/-! ## (A) `strip` -/

theorem strip_spec (d n : Nat) (hd : 1 < d) (hn : 0 < n) :
    n = (strip d n).1 * d ^ (strip d n).2 ∧ ¬ d ∣ (strip d n).1 ∧ 0 < (strip d n).1 :=
  strip_prop d n hd hn

example : 360 = (strip 2 360).1 * 2 ^ (strip 2 360).2 ∧ ¬ 2 ∣ (strip 2 360).1 ∧ 0 < (strip 2 360).1 :=
  strip_spec 2 360 (by decide) (by decide)
example : strip 2 360 = (45, 3) := by decide
example : strip 7 360 = (360, 0) := by decide

/-! ## (B) `PrimeFactors::compute` -/

/-- what the invariant `PrimeFactors.WF` (defined in `Proofs/ArithLemmas.lean`) says, spelled out -/
theorem PrimeFactors.wf_iff (f : PrimeFactors) : f.WF ↔
    (0 < f.n ∧
     f.n = 2 ^ f.p2 * 3 ^ f.p3 * (f.others.map (fun x => x.value ^ x.count)).prod ∧
     (∀ x ∈ f.others, 1 ≤ x.count ∧ 5 ≤ x.value ∧ Nat.Prime x.value) ∧
     f.others.Pairwise (fun a b => a.value < b.value) ∧
     f.total = f.p2 + f.p3 + (f.others.map (fun x => x.count)).sum ∧
     f.distinct = (if f.p2 > 0 then 1 else 0) + (if f.p3 > 0 then 1 else 0) + f.others.length) :=
  ⟨fun h => ⟨h.pos, h.prod_eq, h.entries, h.sorted, h.total_eq, h.distinct_eq⟩,
   fun ⟨a, b, c, d, e, g⟩ => ⟨a, b, c, d, e, g⟩⟩

theorem compute_wf (n : Nat) (hn : 0 < n) : ∃ f, PrimeFactors.compute n = .ok f ∧ f.WF ∧ f.n = n := by
  obtain ⟨f, h1, h2, h3, _⟩ := compute_spec n hn
  exact ⟨f, h1, h2, h3⟩

/-- (B') trial division is correct: `is_prime()` is primality -/
theorem compute_isPrime_iff (n : Nat) (hn : 0 < n) :
    ∃ f, PrimeFactors.compute n = .ok f ∧ (f.isPrime = true ↔ Nat.Prime n) := by
  obtain ⟨f, h1, h2, h3, _⟩ := compute_spec n hn
  exact ⟨f, h1, h3 ▸ h2.isPrime_iff⟩

example : ∃ f, PrimeFactors.compute 1009 = .ok f ∧ f.WF ∧ f.n = 1009 := compute_wf 1009 (by decide)
example : ∃ f, PrimeFactors.compute 720720 = .ok f ∧ (f.isPrime = true ↔ Nat.Prime 720720) :=
  compute_isPrime_iff 720720 (by decide)
example : PrimeFactors.compute 12 = .ok ⟨[], 12, 2, 1, 3, 2⟩ := by decide

/-! ## (C) `partition_factors` -/

theorem partition_wf (f : PrimeFactors) (hwf : f.WF) (hnp : f.isPrime = false) (h2 : 2 ≤ f.n) :
    ∃ l r, f.partition = .ok (l, r) ∧ l.WF ∧ r.WF ∧ l.n * r.n = f.n ∧ 1 < l.n ∧ 1 < r.n :=
  partition_spec f hwf hnp h2

/-- composite `n`: factor, then partition — never an assert, two proper cofactors -/
theorem compute_partition_ok (n : Nat) (h2 : 2 ≤ n) (hc : ¬ Nat.Prime n) :
    ∃ f l r, PrimeFactors.compute n = .ok f ∧ f.partition = .ok (l, r) ∧ l.n * r.n = n ∧ 1 < l.n ∧ 1 < r.n := by
  obtain ⟨f, h1, hwf, hn, _⟩ := compute_spec n (by omega)
  have hnp : f.isPrime = false := by
    cases hp : f.isPrime with
    | false => rfl
    | true => exact absurd (hn ▸ hwf.isPrime_iff.1 hp) hc
  obtain ⟨l, r, hp, _, _, hm, hl, hr⟩ := partition_spec f hwf hnp (by omega)
  exact ⟨f, l, r, h1, hp, by omega, hl, hr⟩

example : ∃ f l r, PrimeFactors.compute 1001 = .ok f ∧ f.partition = .ok (l, r) ∧ l.n * r.n = 1001 ∧
    1 < l.n ∧ 1 < r.n :=
  compute_partition_ok 1001 (by decide)
    (fun hp => by have := hp.eq_one_or_self_of_dvd 7 (by decide); omega)

/-! ## (D) the scalar planner is total and length-correct -/

theorem planScalar_ok (n : Nat) : ∃ r, planScalar n = .ok r ∧ r.len = n :=
  scalarForLen_ok n (planFuel n) (by unfold planFuel; omega)

/-- the same at every fuel `≥ 2n + 9` -/
theorem scalarForLen_total (n fuel : Nat) (h : 2 * n + 9 ≤ fuel) :
    ∃ r, scalarForLen fuel n = .ok r ∧ r.len = n :=
  scalarForLen_ok n fuel h

/-- (F) a successful run at *any* fuel gives exactly the recipe of `planScalar` -/
theorem planScalar_fuel_irrelevant (fuel n : Nat) (r : Recipe) (h : scalarForLen fuel n = .ok r) :
    planScalar n = .ok r := by
  obtain ⟨r', hr', _⟩ := planScalar_ok n
  have h1 := scalarForLen_mono (Nat.le_max_left fuel (planFuel n)) h
  have h2 := scalarForLen_mono (Nat.le_max_right fuel (planFuel n)) hr'
  rw [h1] at h2
  rw [hr']; exact h2.symm

example : ∃ r, planScalar 1009 = .ok r ∧ r.len = 1009 := planScalar_ok 1009
example : ∃ r, planScalar (2 ^ 61 - 1) = .ok r ∧ r.len = 2 ^ 61 - 1 := planScalar_ok _
example : planScalar 0 = .ok (.dft 0) := by decide
example : planScalar 12 = .ok (.bfly 12) := by decide

/-! ## (E) Bluestein inner length -/

theorem bluesteinInnerLen_bounds (len : Nat) (h : 1 ≤ len) :
    2 * len - 1 ≤ bluesteinInnerLen len ∧ bluesteinInnerLen len < 4 * len :=
  (bluesteinInnerLen_spec len h).2

/-- the inner length is `2^k` or `3·2^k` -/
theorem bluesteinInnerLen_shape (len : Nat) (h : 1 ≤ len) :
    ∃ k, bluesteinInnerLen len = 2 ^ k ∨ bluesteinInnerLen len = 3 * 2 ^ k :=
  (bluesteinInnerLen_spec len h).1

example : 2 * 1009 - 1 ≤ bluesteinInnerLen 1009 ∧ bluesteinInnerLen 1009 < 4 * 1009 :=
  bluesteinInnerLen_bounds 1009 (by decide)
example : bluesteinInnerLen 1009 = 2048 := by decide
example : bluesteinInnerLen 47 = 96 := by decide

/-! ## (E) the SSE planner is total and length-correct -/

theorem planSse_ok (n : Nat) : ∃ r, planSse n = .ok r ∧ r.len = n :=
  sseForLen_ok n (planFuel n) (by unfold planFuel; omega)

theorem planSse_fuel_irrelevant (fuel n : Nat) (r : Recipe) (h : sseForLen fuel n = .ok r) :
    planSse n = .ok r := by
  obtain ⟨r', hr', _⟩ := planSse_ok n
  have h1 := sseForLen_mono (Nat.le_max_left fuel (planFuel n)) h
  have h2 := sseForLen_mono (Nat.le_max_right fuel (planFuel n)) hr'
  rw [h1] at h2
  rw [hr']; exact h2.symm

example : ∃ r, planSse 1009 = .ok r ∧ r.len = 1009 := planSse_ok 1009
example : ∃ r, planSse (3 * 2 ^ 40 * 1000003) = .ok r ∧ r.len = 3 * 2 ^ 40 * 1000003 := planSse_ok _
example : planSse 0 = .ok (.dft 0) := by decide
example : planSse 1 = .ok (.bfly 1) := by decide
example : planSse 24 = .ok (.bfly 24) := by decide

end RFV
