/-
C01 — every planned FFT computes the unnormalised DFT in ascending-frequency order.

Property theorems only. `IsDft c n f` says `f x = semDft c n x` for every array `x` of length `n`, where `semDft` is
the three-line specification `X[k] = Σ_j x[j]·tw(j·k, n)`; `c : Ctx K` ranges over *every* commutative ring `K` with a
lawful twiddle system (`Ctx.Lawful`: hypotheses, not axioms) — ℂ for the reading "up to rounding", `GF(p)[i]` for the
executable instance that correspondence K4 compares bit-for-bit with the real generic code.
-/
import RFV.Proofs.Algebra.MixedRadix
import RFV.Proofs.Algebra.GoodThomas
import RFV.Proofs.Algebra.RadixN
import RFV.Proofs.Algebra.Rader
import RFV.Proofs.Algebra.Bluestein
import RFV.Proofs.PrimitiveRoot

namespace RFV

variable {K : Type} [CommRing K]

/-- structural well-formedness of a tree relative to the lengths `ok` at which twiddles exist: exactly the
constructors' documented preconditions (coprime lengths for Good–Thomas; `len + 1` prime for Rader;
`2n - 1 ≤ inner length` for Bluestein). -/
inductive Recipe.Good (ok : Nat → Prop) : Recipe → Prop
  | raders (i) : Good ok i → Nat.Prime (i.len + 1) → ok (i.len + 1) → ok i.len → Good ok (.raders i)
  | avxRaders (i) : Good ok i → Nat.Prime (i.len + 1) → ok (i.len + 1) → ok i.len → Good ok (.avxRaders i)
  | bluesteins (n i) : Good ok i → 1 ≤ n → 2 * n - 1 ≤ i.len → ok (2 * n) → ok i.len → Good ok (.bluesteins n i)
  | avxBluesteins (n i) : Good ok i → 1 ≤ n → 2 * n - 1 ≤ i.len → ok (2 * n) → ok i.len →
      Good ok (.avxBluesteins n i)
  | dft (n) : ok n → Good ok (.dft n)
  | bfly (n) : ok n → Good ok (.bfly n)
  | primeBfly (n) : ok n → Good ok (.primeBfly n)
  | avxBfly (n) : ok n → Good ok (.avxBfly n)
  | mixedRadix (l r) : Good ok l → Good ok r → ok (l.len * r.len) → Good ok (.mixedRadix l r)
  | mixedRadixSmall (l r) : Good ok l → Good ok r → ok (l.len * r.len) → Good ok (.mixedRadixSmall l r)
  | goodThomas (l r) : Good ok l → Good ok r → ok (l.len * r.len) → Nat.Coprime l.len r.len →
      Good ok (.goodThomas l r)
  | goodThomasSmall (l r) : Good ok l → Good ok r → ok (l.len * r.len) → Nat.Coprime l.len r.len →
      Good ok (.goodThomasSmall l r)
  | radixN (fs b) : Good ok b → ok (b.len * fs.foldl (· * ·) 1) → Good ok (.radixN fs b)
  | radix4 (k b) : Good ok b → ok (b.len * 2 ^ (2 * k)) → Good ok (.radix4 k b)
  | radix3 (k b) : Good ok b → ok (b.len * 3 ^ k) → Good ok (.radix3 k b)
  | sseRadix4 (k b) : Good ok b → ok (b.len * 2 ^ (2 * k)) → Good ok (.sseRadix4 k b)
  | avxMixedRadix (r i) : Good ok i → ok (r * i.len) → Good ok (.avxMixedRadix r i)

theorem foldl_replicate_mul (k f : Nat) : (List.replicate k f).foldl (· * ·) 1 = f ^ k := by
  rw [foldl_mul_eq_list_prod]; simp

theorem semRaders_model (c : Ctx K) (ok : Nat → Prop) (hc : c.Lawful ok) (m : Nat) (hp : Nat.Prime (m + 1))
    (hokp : ok (m + 1)) (hokm : ok m) (fI : Array K → Array K) (hI : IsDft c m fI) :
    IsDft c (m + 1) (semRaders c (m + 1) ((primitiveRoot (m + 1)).getD 0)
      (modPow ((primitiveRoot (m + 1)).getD 0) (m + 1 - 2) (m + 1)) fI) := by
  obtain ⟨g, hg, _, _, _, hord, _, _⟩ := primitiveRoot_inverse (m + 1) hp
  rw [hg]
  exact semRaders_isDft_modPow c ok hc (m + 1) g hp hord hokp (by simpa using hokm) fI (by simpa using hI)

/-- **C01, algebraic core**: every well-formed tree over the constructors of all three planners and of the public
algorithm API (Dft, butterflies, MixedRadix(Small), GoodThomasAlgorithm(Small), RadersAlgorithm, BluesteinsAlgorithm,
Radix4, Radix3, RadixN, and the SSE/AVX twins) computes exactly the DFT of its length, for every input, every length,
over every commutative ring with a lawful twiddle system (the primitive root is the one the code's own search finds). -/
theorem Recipe.sem_isDft (c : Ctx K) (ok : Nat → Prop) (hc : c.Lawful ok) (r : Recipe)
    (h : r.Good ok) : IsDft c r.len (r.sem c) := by
  induction h with
  | raders i _ hp hokp hokm ih => exact semRaders_model c ok hc _ hp hokp hokm _ ih
  | avxRaders i _ hp hokp hokm ih => exact semRaders_model c ok hc _ hp hokp hokm _ ih
  | bluesteins n i _ hn hM hok2 hokM ih => exact semBluesteins_isDft c ok hc n _ hn hM hok2 hokM _ ih
  | avxBluesteins n i _ hn hM hok2 hokM ih => exact semBluesteins_isDft c ok hc n _ hn hM hok2 hokM _ ih
  | dft n _ => exact isDft_semDft c n
  | bfly n _ => exact isDft_semDft c n
  | primeBfly n _ => exact isDft_semDft c n
  | avxBfly n _ => exact isDft_semDft c n
  | mixedRadix l r _ _ hok ihl ihr => exact semMixedRadix_isDft c ok hc _ _ hok _ _ ihl ihr
  | mixedRadixSmall l r _ _ hok ihl ihr => exact semMixedRadix_isDft c ok hc _ _ hok _ _ ihl ihr
  | goodThomas l r _ _ hok hco ihl ihr =>
    show IsDft c (l.len * r.len) (if l.len > r.len then _ else _)
    split
    · rw [Nat.mul_comm]
      exact semGoodThomas_isDft c ok hc _ _ (by rwa [Nat.mul_comm]) hco.symm _ _ ihr ihl
    · exact semGoodThomas_isDft c ok hc _ _ hok hco _ _ ihl ihr
  | goodThomasSmall l r _ _ hok hco ihl ihr => exact semGoodThomas_isDft c ok hc _ _ hok hco _ _ ihl ihr
  | radixN fs b _ hok ihb =>
    exact semRadixN_isDft c ok hc fs (fun f hf => by
      have := hc.ok_pos _ hok
      rw [foldl_mul_eq_list_prod] at this
      have hp : 0 < fs.prod := Nat.pos_of_mul_pos_left this |> fun _ => by
        rcases Nat.eq_zero_or_pos fs.prod with h0 | h0
        · rw [h0] at this; simp at this
        · exact h0
      exact Nat.pos_of_ne_zero (fun h0 => by
        have : fs.prod = 0 := List.prod_eq_zero (h0 ▸ hf)
        omega)) _ hok _ ihb
  | radix4 k b _ hok ihb =>
    have := semRadixN_isDft c ok hc (List.replicate k 4) (fun f hf => by
      rw [List.mem_replicate] at hf; omega) b.len (by rw [foldl_replicate_mul, show (4:Nat) ^ k = 2 ^ (2 * k) by rw [Nat.pow_mul]]; exact hok) _ ihb
    rw [foldl_replicate_mul] at this
    show IsDft c (b.len * 2 ^ (2 * k)) _
    rw [show (2:Nat) ^ (2 * k) = 4 ^ k by rw [Nat.pow_mul]]; exact this
  | radix3 k b _ hok ihb =>
    have := semRadixN_isDft c ok hc (List.replicate k 3) (fun f hf => by
      rw [List.mem_replicate] at hf; omega) b.len (by rwa [foldl_replicate_mul]) _ ihb
    rw [foldl_replicate_mul] at this
    exact this
  | sseRadix4 k b _ hok ihb =>
    have := semRadixN_isDft c ok hc (List.replicate k 4) (fun f hf => by
      rw [List.mem_replicate] at hf; omega) b.len (by rw [foldl_replicate_mul, show (4:Nat) ^ k = 2 ^ (2 * k) by rw [Nat.pow_mul]]; exact hok) _ ihb
    rw [foldl_replicate_mul] at this
    show IsDft c (b.len * 2 ^ (2 * k)) _
    rw [show (2:Nat) ^ (2 * k) = 4 ^ k by rw [Nat.pow_mul]]; exact this
  | avxMixedRadix r i _ hok ihi => exact semAvxMixedRadix_isDft c ok hc _ _ hok _ ihi

end RFV
