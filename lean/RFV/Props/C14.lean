/-
C14 — any element type meeting the numeric bound gets a correct portable transform.

First sentence: the decision table (L7).  Second sentence ("instantiated with exact arithmetic, the planned transform
equals the DFT exactly") *is* C01 at full generality: `Recipe.sem_isDft` is stated for every commutative ring `K` and
every lawful twiddle system, not for ℂ — restated here for the scalar planner's trees; the executable instance
`GF(p)[i]` is what correspondence K4 runs against the real generic code.
-/
import RFV.Model.Decision
import RFV.Props.C01

namespace RFV

/-- for an element type other than f32/f64 every SIMD planner declines, whatever is compiled in or detected -/
theorem third_type_simd_declines (cf : CargoFeatures) (cpu : CpuFeatures) :
    avxPlannerNew cf cpu .other = false ∧ ssePlannerNew cf cpu .other = false := by
  simp [avxPlannerNew, ssePlannerNew, isFloat]

/-- … and the automatic planner falls back to the portable one -/
theorem third_type_scalar (cf : CargoFeatures) (cpu : CpuFeatures) : choosePlanner cf cpu .other = .scalar := by
  simp [choosePlanner, avxPlannerNew, ssePlannerNew, isFloat, neonPlannerNew, wasmPlannerNew]

/-- the gate is the *type identity*, not the size: the decision does not depend on anything but `ty ∈ {f32, f64}` -/
theorem simd_only_for_floats (cf : CargoFeatures) (cpu : CpuFeatures) (ty : ElemTy)
    (h : choosePlanner cf cpu ty ≠ .scalar) : ty = .f32 ∨ ty = .f64 := by
  cases ty <;> simp_all [choosePlanner, avxPlannerNew, ssePlannerNew, isFloat, neonPlannerNew, wasmPlannerNew]

variable {K : Type} [CommRing K]

/-- **exact arithmetic ⇒ exact DFT**: over *any* commutative ring with a lawful twiddle system — using nothing but the
ring operations, the twiddle constants, `conj` and `1/m` — every well-formed tree of the portable algorithms computes
the DFT of its length exactly. -/
theorem portable_exact_over_any_ring (c : Ctx K) (ok : Nat → Prop) (hc : c.Lawful ok) (r : Recipe) (h : r.Good ok)
    (x : Array K) (hx : x.size = r.len) (k : Nat) (hk : k < r.len) :
    at' (r.sem c x) k = ∑ j ∈ Finset.range r.len, at' x j * c.tw (j * k) r.len := by
  rw [Recipe.sem_isDft c ok hc r h x hx, at'_semDft _ _ _ _ hk]; rfl

example : choosePlanner ⟨true, true⟩ ⟨true, true, true, true⟩ .other = .scalar := third_type_scalar _ _
example : choosePlanner ⟨true, true⟩ ⟨true, true, true, true⟩ .f32 = .avx := by decide

end RFV
