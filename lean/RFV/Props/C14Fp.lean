/-
C14 / C01 — the executable instance is an instance of the theorems.

Correspondence K4 compares the real generic Rust code, run at the harness's exact element type over GF(p), with the
output of the model driver, which evaluates `Recipe.sem (gpCtx p N ω inverse)` over `Gp p = GF(p)[i]`
(Model/FpFin.lean).  Here: that context is *proved* lawful, so what the driver prints is, for every well-formed tree whose
twiddle moduli divide N, the DFT over GF(p)[i] of every chunk — bit-for-bit agreement of K4 therefore means the real
code computed exactly the DFT, not merely "the same as a hand-written model".
Hypotheses on (p, N, ω) — p prime, 8 ∣ N, N ∣ p − 1, ω of multiplicative order N mod p — are what the harness's
`setup(grid)` constructs; the driver re-checks them per request line (`gpParamsOk`) and refuses otherwise.
-/
import RFV.Proofs.FpLawful

namespace RFV

/-- the executable twiddle system over GF(p)[i] satisfies every law the algebraic theorems assume -/
theorem executable_instance_lawful (p N ω : ℕ) [Fact p.Prime] (hN8 : 8 ∣ N) (hNp : N ∣ p - 1)
    (hω : orderOf (ω : ZMod p) = N) (inverse : Bool) :
    (gpCtx p N ω inverse).Lawful (fun n => 0 < n ∧ n ∣ N) :=
  gpCtx_lawful p N ω hN8 hNp hω inverse

/-- what the model driver answers to a K4 request is the naive DFT over GF(p)[i] of every chunk -/
theorem driver_answer_is_exact_dft (p N ω : ℕ) [Fact p.Prime] (hN8 : 8 ∣ N) (hNp : N ∣ p - 1)
    (hω : orderOf (ω : ZMod p) = N) (inverse : Bool) (r : Recipe) (h : r.Good (fun n => 0 < n ∧ n ∣ N))
    (vals : List ℕ) :
    runGp p N ω inverse r vals
      = (mapChunks r.len (semDft (gpCtx p N ω inverse) r.len) (runGp.pairs p vals).toArray).toList.flatMap
          (fun v => [v.re.val, v.im.val]) :=
  runGp_eq_dft p N ω hN8 hNp hω inverse r h vals

end RFV
