/-
C10 — planner cache: correctness of what a planner returns does not depend on the request history.

Property theorems only (helper lemmas live in `RFV/Proofs/CacheLemmas.lean`). The model is `RFV/Model/Cache.lean`:
`planStep kind ty s len inverse` is one `plan_fft(len, direction)` request against the planner state `s` (one instance
cache per direction), `planHistory` a whole request sequence.

  1. `good_of_spec`            no constructor assert fires on a tree of positive length ⇒ it is `Recipe.Good` (C01)
  2. `CacheInvSpec`, `buildFft_inv`
                               every instance a scalar/SSE cache hands out has its key as length and was
                               constructible; `build_fft` keeps this, returns such an instance of the recipe's length,
                               forgets no key and replaces no cached instance
  3. `planStep_inv`, `planStep_inv_avx`, `planStep_inv_avx_len`, `planStep_avx_never_fails`
                               one request, all three planners (AVX with the membership-form invariant
                               `CacheInvFull`, which also covers the intermediate stages `construct_plan` inserts;
                               or with the length-only `CacheInv` of `Proofs/AvxTotal.lean`)
  4. `planHistory_good`, `planHistory_isDft`
                               THE PROPERTY: after any request history, from the fresh planner, every returned
                               transform has the requested length, is well-formed, and computes the DFT of that length
  5. `planStep_deterministic`, `planHistory_deterministic`
  6. `planStep_other_direction`, `planStep_returns_cached`, `planStep_idempotent`, `planStep_keeps_instances`,
     `planHistory_later_same`  direction separation; the instance returned is the cached one, now and later
  7. `planStep_canonical`, `planHistory_canonical`, `planHistory_history_independent`, `avx_tree_depends_on_history`
                               scalar / SSE: the tree returned for `len` is `planScalar len` / `planSse len` whatever
                               the history; AVX: a concrete history on which the tree differs

Naming: the task's `CacheInv ty c` is `CacheInvSpec ty c` here, because `RFV.CacheInv c` already names the length-only
invariant in `Proofs/AvxTotal.lean` (the task's `CacheInvLen`).
-/
import RFV.Proofs.CacheLemmas

namespace RFV

/-! ## 1. constructor asserts ⇒ well-formed tree -/

/-- a tree none of whose constructor asserts fires (`spec` is `.ok`), of positive length, is well-formed in the sense
of C01 with twiddles available at every positive length; and the length the instance advertises is the tree's.
True for every constructor of the model as stated (no restriction needed). -/
theorem good_of_spec (ty : ElemTy) (t : Recipe) (s : Spec) (h : t.spec ty = .ok s) (hpos : 0 < s.len) :
    t.Good (fun n => 0 < n) ∧ s.len = t.len :=
  good_of_spec_aux ty t s h hpos

/-- the same from the tree's own length -/
theorem good_of_constructible (ty : ElemTy) (t : Recipe) (h : t.Constructible ty) (hpos : 0 < t.len) :
    t.Good (fun n => 0 < n) := by
  obtain ⟨s, hs⟩ := h
  rcases Nat.eq_zero_or_pos s.len with h0 | hp
  · -- `spec` reports the tree's length also when it is 0: rule the case out through the positive-length lemma's twin
    exact absurd (spec_len_eq ty t s hs) (by omega)
  · exact (good_of_spec ty t s hs hp).1

example : (Recipe.goodThomasSmall (.bfly 3) (.bfly 4)).Good (fun n => 0 < n) :=
  (good_of_spec .f64 _ _ (by decide : (Recipe.goodThomasSmall (.bfly 3) (.bfly 4)).spec .f64 = .ok ⟨12, 12, 0, 12⟩)
    (by decide)).1
-- a constructor assert that fires: Good–Thomas on non-coprime lengths
example : ∃ e, (Recipe.goodThomasSmall (.bfly 2) (.bfly 4)).spec .f64 = .error e := ⟨_, rfl⟩

/-! ## 2. the cache invariant and `build_fft` -/

theorem cacheInv_nil (ty : ElemTy) : CacheInvSpec ty [] := cacheInvSpec_nil ty

theorem cacheInv_insert (ty : ElemTy) (c : InstCache) (hc : CacheInvSpec ty c) (t : Recipe)
    (ht : ∃ s, t.spec ty = .ok s) : CacheInvSpec ty (c.insert t) :=
  cacheInvSpec_insert hc t ht

/-- what `CacheInvSpec` says, spelled out -/
theorem cacheInvSpec_iff (ty : ElemTy) (c : InstCache) :
    CacheInvSpec ty c ↔ ∀ k t, c.get? k = some t → t.len = k ∧ ∃ s, t.spec ty = .ok s := Iff.rfl

/-- `build_fft(recipe)` against a cache satisfying the invariant: the instance has the recipe's length and was
constructible, the new cache satisfies the invariant, no key is forgotten, the instance is now the one cached under its
length, and no instance that was already cached has been replaced -/
theorem buildFft_inv (ty : ElemTy) (c : InstCache) (r : Recipe) (hc : CacheInvSpec ty c) (t : Recipe)
    (c' : InstCache) (h : buildFft ty c r = .ok (t, c')) :
    t.len = r.len ∧ (∃ s, t.spec ty = .ok s) ∧ CacheInvSpec ty c' ∧
      (∀ k, c.contains k = true → c'.contains k = true) ∧
      c'.get? r.len = some t ∧ (∀ k t0, c.get? k = some t0 → c'.get? k = some t0) :=
  let p := buildFft_post ty r c hc t c' h
  ⟨p.len_eq, p.ok, p.inv, p.mono, p.cached, p.stable⟩

/-- the lookup is by *length*: a cached instance of the right length is returned whatever recipe was asked for -/
theorem buildFft_cached (ty : ElemTy) (c : InstCache) (r t : Recipe) (h : c.get? r.len = some t) :
    buildFft ty c r = .ok (t, c) :=
  buildFft_hit ty c r t h

example : buildFft .f64 [] (.mixedRadixSmall (.bfly 3) (.bfly 4))
    = .ok (.mixedRadixSmall (.bfly 3) (.bfly 4),
           [(12, .mixedRadixSmall (.bfly 3) (.bfly 4)), (4, .bfly 4), (3, .bfly 3)]) := by decide
-- length-keyed lookup: asking for a 12 = 3·4 recipe against a cache that holds `Butterfly12` returns the butterfly
example : buildFft .f64 [(12, .bfly 12)] (.mixedRadixSmall (.bfly 3) (.bfly 4)) = .ok (.bfly 12, [(12, .bfly 12)]) :=
  buildFft_cached _ _ _ _ rfl

/-! ## 3. one request -/

/-- scalar and SSE planners -/
theorem planStep_inv (kind : PlannerKind) (hk : kind = .scalar ∨ kind = .sse) (ty : ElemTy) (s : PlannerState)
    (hf : CacheInvSpec ty s.fwd) (hi : CacheInvSpec ty s.inv) (len : Nat) (inverse : Bool) (t : Recipe)
    (s' : PlannerState) (h : planStep kind ty s len inverse = .ok (t, s')) :
    t.len = len ∧ (∃ sp, t.spec ty = .ok sp) ∧ CacheInvSpec ty s'.fwd ∧ CacheInvSpec ty s'.inv ∧
      s'.cache (!inverse) = s.cache (!inverse) := by
  have hs : StateInv kind ty s := by rcases hk with rfl | rfl <;> exact ⟨hf, hi⟩
  obtain ⟨h1, h2, h3⟩ := planStep_stateInv kind ty s s' len inverse t hs h
  have h4 := planStep_other kind ty s s' len inverse t h
  rcases hk with rfl | rfl <;> exact ⟨h1, h2, h3.1, h3.2, h4⟩

/-- AVX planner, with the invariant in membership form (`CacheInvFull`: every *entry*, shadowed or not, is filed under
its length and was constructible — it implies `CacheInvSpec`, see `cacheInvFull_toSpec`). Also the intermediate stages
that `construct_plan` inserts are covered: a Rader base is only planned for a prime, a Bluestein inner length
satisfies `2n-1 ≤ M` and `M % 4 = 0`, and the `MixedRadix*xn` wrappers assert nothing. -/
theorem planStep_inv_avx (avx2 : Bool) (ty : ElemTy) (s : PlannerState) (hf : CacheInvFull ty s.fwd)
    (hi : CacheInvFull ty s.inv) (len : Nat) (inverse : Bool) (t : Recipe) (s' : PlannerState)
    (h : planStep (.avx avx2) ty s len inverse = .ok (t, s')) :
    t.len = len ∧ (∃ sp, t.spec ty = .ok sp) ∧ CacheInvFull ty s'.fwd ∧ CacheInvFull ty s'.inv ∧
      s'.cache (!inverse) = s.cache (!inverse) := by
  obtain ⟨h1, h2, h3, h4⟩ := planStep_avx_full hf hi h
  exact ⟨h1, h2, h3, h4, planStep_other _ ty s s' len inverse t h⟩

theorem cacheInvFull_iff (ty : ElemTy) (c : InstCache) :
    CacheInvFull ty c ↔ ∀ e ∈ c, e.2.len = e.1 ∧ ∃ s, e.2.spec ty = .ok s := Iff.rfl

theorem cacheInvFull_toSpec (ty : ElemTy) (c : InstCache) (h : CacheInvFull ty c) : CacheInvSpec ty c := h.toSpec

/-- AVX planner with the length-only invariant `CacheInv` of `Proofs/AvxTotal.lean` (every entry is filed under its own
length): enough for the returned tree, whose constructor asserts `planStep` checks itself -/
theorem planStep_inv_avx_len (avx2 : Bool) (ty : ElemTy) (s : PlannerState) (hf : CacheInv s.fwd)
    (hi : CacheInv s.inv) (len : Nat) (inverse : Bool) (t : Recipe) (s' : PlannerState)
    (h : planStep (.avx avx2) ty s len inverse = .ok (t, s')) :
    t.len = len ∧ (∃ sp, t.spec ty = .ok sp) ∧ CacheInv s'.fwd ∧ CacheInv s'.inv ∧
      s'.cache (!inverse) = s.cache (!inverse) := by
  obtain ⟨h1, h2, h3, h4, h5, _⟩ := planStep_avx_post hf hi h
  exact ⟨h1, h2, h3, h4, h5⟩

/-- AVX: a request never fails — planning, construction, and the constructor asserts of the returned instance -/
theorem planStep_avx_never_fails (avx2 : Bool) (ty : ElemTy) (s : PlannerState) (hf : CacheInvFull ty s.fwd)
    (hi : CacheInvFull ty s.inv) (len : Nat) (inverse : Bool) :
    ∃ t s', planStep (.avx avx2) ty s len inverse = .ok (t, s') :=
  planStep_avx_total ty avx2 s hf hi len inverse

/-- AVX: no request history makes the planner fail -/
theorem planHistory_avx_never_fails (avx2 : Bool) (ty : ElemTy) (reqs : List (Nat × Bool)) :
    ∃ ts s', planHistory (.avx avx2) ty reqs PlannerState.empty = .ok (ts, s') :=
  planHistory_avx_total_aux ty avx2 reqs _ (stateInv_empty _ ty)

example : planStep .scalar .f64 PlannerState.empty 12 false
    = .ok (.bfly 12, { fwd := [(12, .bfly 12)], inv := [] }) := by rfl
example : planStep (.avx true) .f32 PlannerState.empty 12 true
    = .ok (.avxBfly 12, { fwd := [], inv := [(12, .avxBfly 12)] }) := by rfl

/-! ## 4. THE PROPERTY: history independence of correctness -/

/-- every transform returned after ANY request history (any lengths, any directions, any order, any planner kind,
any element type) has the requested length and — for a positive length — is a well-formed tree -/
theorem planHistory_good (kind : PlannerKind) (ty : ElemTy) (reqs : List (Nat × Bool)) (ts : List Recipe)
    (s' : PlannerState) (h : planHistory kind ty reqs PlannerState.empty = .ok (ts, s')) :
    ∃ hlen : ts.length = reqs.length, ∀ i (hi : i < reqs.length),
      (ts[i]'(hlen ▸ hi)).len = (reqs[i]).1 ∧
      (0 < (reqs[i]).1 → (ts[i]'(hlen ▸ hi)).Good (fun n => 0 < n)) := by
  obtain ⟨hall, _⟩ := planHistory_stateInv kind ty reqs _ ts s' (stateInv_empty kind ty) h
  obtain ⟨hlen, hidx⟩ := forall₂_index hall
  refine ⟨hlen, fun i hi => ⟨(hidx i hi).1, fun hpos => ?_⟩⟩
  exact good_of_constructible ty _ (hidx i hi).2 (by rw [(hidx i hi).1]; exact hpos)

/-- the same from any state that satisfies the planner kind's invariant (not only the fresh planner) -/
theorem planHistory_good_from (kind : PlannerKind) (ty : ElemTy) (s : PlannerState) (hs : StateInv kind ty s)
    (reqs : List (Nat × Bool)) (ts : List Recipe) (s' : PlannerState)
    (h : planHistory kind ty reqs s = .ok (ts, s')) :
    StateInv kind ty s' ∧ ∃ hlen : ts.length = reqs.length, ∀ i (hi : i < reqs.length),
      (ts[i]'(hlen ▸ hi)).len = (reqs[i]).1 ∧
      (0 < (reqs[i]).1 → (ts[i]'(hlen ▸ hi)).Good (fun n => 0 < n)) := by
  obtain ⟨hall, hs'⟩ := planHistory_stateInv kind ty reqs s ts s' hs h
  obtain ⟨hlen, hidx⟩ := forall₂_index hall
  refine ⟨hs', hlen, fun i hi => ⟨(hidx i hi).1, fun hpos => ?_⟩⟩
  exact good_of_constructible ty _ (hidx i hi).2 (by rw [(hidx i hi).1]; exact hpos)

/-- corollary: whatever was requested before, the `i`-th returned transform computes the unnormalised DFT of the
requested length, over every commutative ring with a lawful twiddle system, in the direction it was requested for: the
direction only selects which cache map is used and under which context — `c` (forward) or `cinv c` (inverse, all
twiddles conjugated) — the tree is interpreted. -/
theorem planHistory_isDft {K : Type} [CommRing K] (c : Ctx K) (hc : c.Lawful (fun n => 0 < n))
    (kind : PlannerKind) (ty : ElemTy) (reqs : List (Nat × Bool)) (ts : List Recipe) (s' : PlannerState)
    (h : planHistory kind ty reqs PlannerState.empty = .ok (ts, s')) :
    ∃ hlen : ts.length = reqs.length, ∀ i (hi : i < reqs.length), 0 < (reqs[i]).1 →
      IsDft (if (reqs[i]).2 then cinv c else c) (reqs[i]).1
        ((ts[i]'(hlen ▸ hi)).sem (if (reqs[i]).2 then cinv c else c)) := by
  obtain ⟨hlen, hidx⟩ := planHistory_good kind ty reqs ts s' h
  refine ⟨hlen, fun i hi hpos => ?_⟩
  obtain ⟨hl, hg⟩ := hidx i hi
  have hc' : (if (reqs[i]).2 then cinv c else c).Lawful (fun n => 0 < n) := by
    split
    · exact cinv_lawful hc
    · exact hc
  have := Recipe.sem_isDft _ _ hc' _ (hg hpos)
  rwa [hl] at this

-- a two-step history: the second request runs against the state the first left
example : planHistory .scalar .f64 [(12, false), (24, false)] PlannerState.empty
    = .ok ([.bfly 12, .bfly 24], { fwd := [(24, .bfly 24), (12, .bfly 12)], inv := [] }) := by rfl
-- both directions, with a repeated request
example : planHistory .sse .f32 [(12, false), (12, true), (24, true), (12, false)] PlannerState.empty
    = .ok ([.bfly 12, .bfly 12, .bfly 24, .bfly 12],
           { fwd := [(12, .bfly 12)], inv := [(24, .bfly 24), (12, .bfly 12)] }) := by rfl
example : ∃ hlen : [Recipe.bfly 12, Recipe.bfly 24].length = [(12, false), (24, false)].length,
    ∀ i (hi : i < [(12, false), (24, false)].length),
      ([Recipe.bfly 12, Recipe.bfly 24][i]'(hlen ▸ hi)).len = ([(12, false), (24, false)][i]).1 ∧
      (0 < ([(12, false), (24, false)][i]).1 →
        ([Recipe.bfly 12, Recipe.bfly 24][i]'(hlen ▸ hi)).Good (fun n => 0 < n)) :=
  planHistory_good .scalar .f64 [(12, false), (24, false)] _ _ (by rfl)

/-! ## 5. determinism -/

/-- the planner is a function of (state, request): no hidden inputs -/
theorem planStep_deterministic (kind : PlannerKind) (ty : ElemTy) (s : PlannerState) (len : Nat) (inverse : Bool)
    (a b : Recipe × PlannerState) (ha : planStep kind ty s len inverse = .ok a)
    (hb : planStep kind ty s len inverse = .ok b) : a = b := by
  rw [ha] at hb; cases hb; rfl

/-- two planners of the same kind fed the same request sequence return the same trees (and end in the same state) -/
theorem planHistory_deterministic (kind : PlannerKind) (ty : ElemTy) (reqs : List (Nat × Bool))
    (a b : List Recipe × PlannerState) (ha : planHistory kind ty reqs PlannerState.empty = .ok a)
    (hb : planHistory kind ty reqs PlannerState.empty = .ok b) : a = b := by
  rw [ha] at hb; cases hb; rfl

/-! ## 6. direction separation and reuse -/

/-- planning direction `d` never writes the cache map of the other direction (all kinds, no hypothesis) … -/
theorem planStep_other_direction (kind : PlannerKind) (ty : ElemTy) (s s' : PlannerState) (len : Nat)
    (inverse : Bool) (t : Recipe) (h : planStep kind ty s len inverse = .ok (t, s')) :
    s'.cache (!inverse) = s.cache (!inverse) :=
  planStep_other kind ty s s' len inverse t h

/-- … and never reads it: the result is a function of the requested direction's map alone -/
theorem planStep_reads_own_direction (kind : PlannerKind) (ty : ElemTy) (s₁ s₂ : PlannerState) (len : Nat)
    (inverse : Bool) (hsame : s₁.cache inverse = s₂.cache inverse) :
    (planStep kind ty s₁ len inverse).map (fun p => (p.1, p.2.cache inverse))
      = (planStep kind ty s₂ len inverse).map (fun p => (p.1, p.2.cache inverse)) := by
  cases kind with
  | scalar =>
    simp only [planStep, hsame]
    cases planScalar len with
    | error e => rfl
    | ok r =>
      simp only
      cases buildFft ty (s₂.cache inverse) r with
      | error e => rfl
      | ok p => simp [Except.map, PlannerState.cache_setCache]
  | sse =>
    simp only [planStep, hsame]
    cases planSse len with
    | error e => rfl
    | ok r =>
      simp only
      cases buildFft ty (s₂.cache inverse) r with
      | error e => rfl
      | ok p => simp [Except.map, PlannerState.cache_setCache]
  | avx avx2 =>
    simp only [planStep, hsame]
    cases avxPlanAndConstruct ty avx2 (planFuel len) (s₂.cache inverse) len with
    | error e => rfl
    | ok p =>
      simp only
      cases p.1.spec ty with
      | error e => rfl
      | ok sp => simp [Except.map, PlannerState.cache_setCache]

/-- the instance returned is the one now cached for `(len, direction)` (all kinds) -/
theorem planStep_returns_cached (kind : PlannerKind) (ty : ElemTy) (s s' : PlannerState) (len : Nat)
    (inverse : Bool) (t : Recipe) (hs : StateInv kind ty s) (h : planStep kind ty s len inverse = .ok (t, s')) :
    (s'.cache inverse).get? len = some t :=
  planStep_cached kind ty s s' len inverse t hs h

/-- idempotence (all kinds): repeating a successful request returns the same instance and leaves the state unchanged
(scalar/SSE: `build_fft` hits the cache; AVX: `plan_fft` answers `cached(len)` and `construct_plan` returns the cached
instance) -/
theorem planStep_idempotent (kind : PlannerKind) (ty : ElemTy) (s s' : PlannerState) (len : Nat) (inverse : Bool)
    (t : Recipe) (hs : StateInv kind ty s) (h : planStep kind ty s len inverse = .ok (t, s')) :
    planStep kind ty s' len inverse = .ok (t, s') :=
  planStep_hit kind ty s' len inverse t (planStep_cached kind ty s s' len inverse t hs h)
    (planStep_stateInv kind ty s s' len inverse t hs h).2.1

/-- scalar / SSE: no request ever replaces an instance that is already cached, in either direction -/
theorem planStep_keeps_instances (kind : PlannerKind) (hk : kind = .scalar ∨ kind = .sse) (ty : ElemTy)
    (s s' : PlannerState) (len : Nat) (inverse : Bool) (t : Recipe) (hs : StateInv kind ty s)
    (h : planStep kind ty s len inverse = .ok (t, s')) (b : Bool) (k : Nat) (t0 : Recipe)
    (hg : (s.cache b).get? k = some t0) : (s'.cache b).get? k = some t0 :=
  planStep_stable kind (by rcases hk with rfl | rfl <;> rfl) ty s s' len inverse t hs h b k t0 hg

/-- scalar / SSE: the instance returned for `(len, d)` is the one every *later* request for `(len, d)` returns, whatever
is requested in between, and such a later request leaves the state unchanged -/
theorem planHistory_later_same (kind : PlannerKind) (hk : kind = .scalar ∨ kind = .sse) (ty : ElemTy)
    (s s₁ s₂ : PlannerState) (hs : StateInv kind ty s) (len : Nat) (d : Bool) (t : Recipe)
    (h1 : planStep kind ty s len d = .ok (t, s₁))
    (between : List (Nat × Bool)) (ts : List Recipe) (h2 : planHistory kind ty between s₁ = .ok (ts, s₂)) :
    planStep kind ty s₂ len d = .ok (t, s₂) := by
  have hk' : kind.usesRecipes = true := by rcases hk with rfl | rfl <;> rfl
  obtain ⟨_, hok, hs1⟩ := planStep_stateInv kind ty s s₁ len d t hs h1
  have hc := planStep_cached kind ty s s₁ len d t hs h1
  exact planStep_hit kind ty s₂ len d t (planHistory_stable kind hk' ty between s₁ ts s₂ hs1 h2 d len t hc) hok

example : planStep .sse .f32 { fwd := [(12, .bfly 12)], inv := [] } 12 false
    = .ok (.bfly 12, { fwd := [(12, .bfly 12)], inv := [] }) :=
  planStep_idempotent .sse .f32 PlannerState.empty _ 12 false _ (stateInv_empty _ _) (by rfl)

/-! ## 7. canonicity: scalar / SSE trees do not depend on the history; AVX trees do -/

/-- scalar / SSE recipes are functions of the length: every sub-recipe of the recipe designed for `n` is the recipe
the planner designs for the sub-recipe's own length (`Hered`, by uniqueness of well-formed factorisations
`PrimeFactors.WF.unique` and fuel irrelevance) -/
theorem planScalar_subrecipes {n : Nat} {r : Recipe} (h : planScalar n = .ok r) : Hered planScalar r :=
  planScalar_hered h

theorem planSse_subrecipes {n : Nat} {r : Recipe} (h : planSse n = .ok r) : Hered planSse r :=
  planSse_hered h

/-- what `Hered P r` says, spelled out -/
theorem hered_iff (P : Nat → Except String Recipe) (r : Recipe) :
    Hered P r ↔ (P r.len = .ok r ∧ ∀ c ∈ r.children, Hered P c) :=
  ⟨fun h => ⟨h.top, h.child⟩, fun h => Hered.mk r h.1 h.2⟩

/-- one request: if every instance cached for the requested direction is the canonical tree of its key
(`canon k` := the recipe `kind.design k`, i.e. `planScalar k` / `planSse k`), then the returned tree is the canonical
tree of `len`, and the cache stays canonical. (The built instance tree *is* the recipe tree.) -/
theorem planStep_canonical (kind : PlannerKind) (hk : kind = .scalar ∨ kind = .sse) (ty : ElemTy)
    (s s' : PlannerState) (len : Nat) (inverse : Bool) (t : Recipe)
    (h : planStep kind ty s len inverse = .ok (t, s'))
    (hc : ∀ k t', (s.cache inverse).get? k = some t' → kind.design k = .ok t') :
    kind.design len = .ok t ∧ ∀ k t', (s'.cache inverse).get? k = some t' → kind.design k = .ok t' :=
  planStep_canon kind (by rcases hk with rfl | rfl <;> rfl) ty s s' len inverse t hc h

/-- the canonical tree is the one the fresh planner builds -/
theorem planStep_fresh (kind : PlannerKind) (hk : kind = .scalar ∨ kind = .sse) (ty : ElemTy) (len : Nat)
    (inverse : Bool) (t : Recipe) (s' : PlannerState)
    (h : planStep kind ty PlannerState.empty len inverse = .ok (t, s')) : kind.design len = .ok t :=
  (planStep_canon kind (by rcases hk with rfl | rfl <;> rfl) ty _ s' len inverse t
    (canonState_empty _ inverse) h).1

/-- a whole history from the fresh planner: the `i`-th returned tree is `planScalar` / `planSse` of the requested
length — whatever was requested before, in whichever direction -/
theorem planHistory_canonical (kind : PlannerKind) (hk : kind = .scalar ∨ kind = .sse) (ty : ElemTy)
    (reqs : List (Nat × Bool)) (ts : List Recipe) (s' : PlannerState)
    (h : planHistory kind ty reqs PlannerState.empty = .ok (ts, s')) :
    ∃ hlen : ts.length = reqs.length, ∀ i (hi : i < reqs.length),
      kind.design (reqs[i]).1 = .ok (ts[i]'(hlen ▸ hi)) := by
  obtain ⟨hall, _⟩ := planHistory_canon kind (by rcases hk with rfl | rfl <;> rfl) ty reqs _ ts s'
    (canonState_empty _) h
  exact forall₂_index hall

/-- history independence of the *tree* (scalar, SSE): two planners with different request histories, asked — at any
point, in any direction — for the same length, return the same tree -/
theorem planHistory_history_independent (kind : PlannerKind) (hk : kind = .scalar ∨ kind = .sse) (ty : ElemTy)
    (reqs₁ reqs₂ : List (Nat × Bool)) (ts₁ ts₂ : List Recipe) (s₁ s₂ : PlannerState)
    (h₁ : planHistory kind ty reqs₁ PlannerState.empty = .ok (ts₁, s₁))
    (h₂ : planHistory kind ty reqs₂ PlannerState.empty = .ok (ts₂, s₂))
    (i j : Nat) (hi : i < reqs₁.length) (hj : j < reqs₂.length) (hlen : (reqs₁[i]).1 = (reqs₂[j]).1) :
    ts₁[i]? = ts₂[j]? := by
  obtain ⟨hl₁, hc₁⟩ := planHistory_canonical kind hk ty reqs₁ ts₁ s₁ h₁
  obtain ⟨hl₂, hc₂⟩ := planHistory_canonical kind hk ty reqs₂ ts₂ s₂ h₂
  have e₁ := hc₁ i hi
  have e₂ := hc₂ j hj
  rw [hlen, e₂] at e₁
  rw [List.getElem?_eq_getElem (hl₁ ▸ hi), List.getElem?_eq_getElem (hl₂ ▸ hj)]
  first | exact congrArg some (Except.ok.inj e₁) | exact congrArg some (Except.ok.inj e₁).symm

example : planStep .scalar .f64 PlannerState.empty 24 true = .ok (.bfly 24, { fwd := [], inv := [(24, .bfly 24)] }) ∧
    PlannerKind.design .scalar 24 = .ok (.bfly 24) :=
  ⟨by rfl, planStep_fresh .scalar (Or.inl rfl) .f64 24 true _ _ (by rfl)⟩

/-- AVX trees are NOT canonical: the tree returned for a length depends on what was requested before, because
`construct_plan` caches every intermediate stage under its length and `plan_fft` answers `cached(len)` for it.
With f64 + AVX2: the fresh planner builds 216 as `12xn(Butterfly18)`, but after a request for 864 — planned as
`4xn(6xn(Butterfly36))` — the stage `6xn(Butterfly36)` is what a request for 216 returns.
(Both are correct DFTs by `planHistory_isDft`; only the shape differs.) -/
theorem avx_tree_depends_on_history :
    ((planHistory (.avx true) .f64 [(216, false)] PlannerState.empty).toOption.map (·.1))
      = some [.avxMixedRadix 12 (.avxBfly 18)] ∧
    ((planHistory (.avx true) .f64 [(864, false), (216, false)] PlannerState.empty).toOption.map (·.1))
      = some [.avxMixedRadix 4 (.avxMixedRadix 6 (.avxBfly 36)), .avxMixedRadix 6 (.avxBfly 36)] := by
  constructor <;> rfl

-- OPEN (not attempted): canonicity up to *history-closed* caches for AVX, i.e. a characterisation of which trees a
-- length can get; and `planStep` totality for scalar / SSE (no constructor assert fires on planner recipes — the
-- `SpecOK` closure of `Proofs/SpecLemmas.lean`), under which `planHistory_canonical` would also give
-- "the scalar / SSE planner never fails, and returns exactly `planScalar len` / `planSse len`".

end RFV
