/-
Grid-free forms of the exact-real-arithmetic theorems.  `real_arithmetic_tree_is_dft` / `real_arithmetic_roundtrip`
are stated on a grid `N` that every length of the tree divides.  Here: (1) `Recipe.Good` is monotone in the length
predicate; (2) every tree whose lengths are merely *positive* lives on some grid divisible by 4 (`exists_grid`, by
induction over all 17 constructors — the grid is a product of the lengths met, since Rader's `p`, `p-1` and
Bluestein's `2n`, inner `M` do not divide one another); hence (3) for every well-formed tree there is a real cosine
system on which the tree with the real butterfly code at its leaves is exactly the DFT, and any two trees of one length
round-trip to `n • x`.  No hypothesis about a grid, a number system or the trees' lengths (beyond positivity and the
constructors' own preconditions: primality for Rader, `2n-1 ≤ M` for Bluestein, coprimality for Good–Thomas) is left.
-/
import RFV.Props.C06Real

namespace RFV

theorem Recipe.Good.mono {ok ok' : Nat → Prop} (hm : ∀ n, ok n → ok' n) {t : Recipe} (h : t.Good ok) : t.Good ok' := by
  induction h with
  | raders i _ hp a b ih => exact .raders i ih hp (hm _ a) (hm _ b)
  | avxRaders i _ hp a b ih => exact .avxRaders i ih hp (hm _ a) (hm _ b)
  | bluesteins n i _ h1 h2 a b ih => exact .bluesteins n i ih h1 h2 (hm _ a) (hm _ b)
  | avxBluesteins n i _ h1 h2 a b ih => exact .avxBluesteins n i ih h1 h2 (hm _ a) (hm _ b)
  | dft n a => exact .dft n (hm _ a)
  | bfly n a => exact .bfly n (hm _ a)
  | primeBfly n a => exact .primeBfly n (hm _ a)
  | avxBfly n a => exact .avxBfly n (hm _ a)
  | mixedRadix l r _ _ a ihl ihr => exact .mixedRadix l r ihl ihr (hm _ a)
  | mixedRadixSmall l r _ _ a ihl ihr => exact .mixedRadixSmall l r ihl ihr (hm _ a)
  | goodThomas l r _ _ a hc ihl ihr => exact .goodThomas l r ihl ihr (hm _ a) hc
  | goodThomasSmall l r _ _ a hc ihl ihr => exact .goodThomasSmall l r ihl ihr (hm _ a) hc
  | radixN fs b _ a ih => exact .radixN fs b ih (hm _ a)
  | radix4 k b _ a ih => exact .radix4 k b ih (hm _ a)
  | radix3 k b _ a ih => exact .radix3 k b ih (hm _ a)
  | sseRadix4 k b _ a ih => exact .sseRadix4 k b ih (hm _ a)
  | avxMixedRadix r i _ a ih => exact .avxMixedRadix r i ih (hm _ a)

theorem liftG {N : Nat} (M : Nat) {t : Recipe} (h : t.Good (fun n => 0 < n ∧ n ∣ N)) :
    t.Good (fun n => 0 < n ∧ n ∣ N * M) :=
  h.mono (fun _ hn => ⟨hn.1, Dvd.dvd.mul_right hn.2 M⟩)

theorem liftG' {N : Nat} (M : Nat) {t : Recipe} (h : t.Good (fun n => 0 < n ∧ n ∣ N)) :
    t.Good (fun n => 0 < n ∧ n ∣ M * N) :=
  h.mono (fun _ hn => ⟨hn.1, Dvd.dvd.mul_left hn.2 M⟩)

/-- every tree whose lengths are merely positive lives on some grid divisible by 4 -/
theorem Recipe.Good.exists_grid {t : Recipe} (h : t.Good (fun n => 0 < n)) :
    ∃ N, 0 < N ∧ 4 ∣ N ∧ t.Good (fun n => 0 < n ∧ n ∣ N) := by
  induction h with
  | raders i _ hp a b ih =>
    obtain ⟨N, hN, h4, hg⟩ := ih
    exact ⟨N * ((i.len + 1) * i.len), Nat.mul_pos hN (Nat.mul_pos a b), Dvd.dvd.mul_right h4 _,
      .raders i (liftG _ hg) hp ⟨a, Dvd.dvd.mul_left (Dvd.intro _ rfl) N⟩ ⟨b, Dvd.dvd.mul_left (Dvd.intro_left _ rfl) N⟩⟩
  | avxRaders i _ hp a b ih =>
    obtain ⟨N, hN, h4, hg⟩ := ih
    exact ⟨N * ((i.len + 1) * i.len), Nat.mul_pos hN (Nat.mul_pos a b), Dvd.dvd.mul_right h4 _,
      .avxRaders i (liftG _ hg) hp ⟨a, Dvd.dvd.mul_left (Dvd.intro _ rfl) N⟩ ⟨b, Dvd.dvd.mul_left (Dvd.intro_left _ rfl) N⟩⟩
  | bluesteins n i _ h1 h2 a b ih =>
    obtain ⟨N, hN, h4, hg⟩ := ih
    exact ⟨N * ((2 * n) * i.len), Nat.mul_pos hN (Nat.mul_pos a b), Dvd.dvd.mul_right h4 _,
      .bluesteins n i (liftG _ hg) h1 h2 ⟨a, Dvd.dvd.mul_left (Dvd.intro _ rfl) N⟩ ⟨b, Dvd.dvd.mul_left (Dvd.intro_left _ rfl) N⟩⟩
  | avxBluesteins n i _ h1 h2 a b ih =>
    obtain ⟨N, hN, h4, hg⟩ := ih
    exact ⟨N * ((2 * n) * i.len), Nat.mul_pos hN (Nat.mul_pos a b), Dvd.dvd.mul_right h4 _,
      .avxBluesteins n i (liftG _ hg) h1 h2 ⟨a, Dvd.dvd.mul_left (Dvd.intro _ rfl) N⟩ ⟨b, Dvd.dvd.mul_left (Dvd.intro_left _ rfl) N⟩⟩
  | dft n a => exact ⟨4 * n, Nat.mul_pos (by decide) a, Dvd.intro _ rfl, .dft n ⟨a, Dvd.intro_left _ rfl⟩⟩
  | bfly n a => exact ⟨4 * n, Nat.mul_pos (by decide) a, Dvd.intro _ rfl, .bfly n ⟨a, Dvd.intro_left _ rfl⟩⟩
  | primeBfly n a => exact ⟨4 * n, Nat.mul_pos (by decide) a, Dvd.intro _ rfl, .primeBfly n ⟨a, Dvd.intro_left _ rfl⟩⟩
  | avxBfly n a => exact ⟨4 * n, Nat.mul_pos (by decide) a, Dvd.intro _ rfl, .avxBfly n ⟨a, Dvd.intro_left _ rfl⟩⟩
  | mixedRadix l r _ _ a ihl ihr =>
    obtain ⟨Nl, hNl, h4l, hgl⟩ := ihl
    obtain ⟨Nr, hNr, _, hgr⟩ := ihr
    exact ⟨Nl * Nr * (l.len * r.len), Nat.mul_pos (Nat.mul_pos hNl hNr) a, Dvd.dvd.mul_right (Dvd.dvd.mul_right h4l _) _,
      .mixedRadix l r (liftG _ (liftG _ hgl)) (liftG _ (liftG' _ hgr)) ⟨a, Dvd.intro_left _ rfl⟩⟩
  | mixedRadixSmall l r _ _ a ihl ihr =>
    obtain ⟨Nl, hNl, h4l, hgl⟩ := ihl
    obtain ⟨Nr, hNr, _, hgr⟩ := ihr
    exact ⟨Nl * Nr * (l.len * r.len), Nat.mul_pos (Nat.mul_pos hNl hNr) a, Dvd.dvd.mul_right (Dvd.dvd.mul_right h4l _) _,
      .mixedRadixSmall l r (liftG _ (liftG _ hgl)) (liftG _ (liftG' _ hgr)) ⟨a, Dvd.intro_left _ rfl⟩⟩
  | goodThomas l r _ _ a hc ihl ihr =>
    obtain ⟨Nl, hNl, h4l, hgl⟩ := ihl
    obtain ⟨Nr, hNr, _, hgr⟩ := ihr
    exact ⟨Nl * Nr * (l.len * r.len), Nat.mul_pos (Nat.mul_pos hNl hNr) a, Dvd.dvd.mul_right (Dvd.dvd.mul_right h4l _) _,
      .goodThomas l r (liftG _ (liftG _ hgl)) (liftG _ (liftG' _ hgr)) ⟨a, Dvd.intro_left _ rfl⟩ hc⟩
  | goodThomasSmall l r _ _ a hc ihl ihr =>
    obtain ⟨Nl, hNl, h4l, hgl⟩ := ihl
    obtain ⟨Nr, hNr, _, hgr⟩ := ihr
    exact ⟨Nl * Nr * (l.len * r.len), Nat.mul_pos (Nat.mul_pos hNl hNr) a, Dvd.dvd.mul_right (Dvd.dvd.mul_right h4l _) _,
      .goodThomasSmall l r (liftG _ (liftG _ hgl)) (liftG _ (liftG' _ hgr)) ⟨a, Dvd.intro_left _ rfl⟩ hc⟩
  | radixN fs b _ a ih =>
    obtain ⟨N, hN, h4, hg⟩ := ih
    exact ⟨N * _, Nat.mul_pos hN a, Dvd.dvd.mul_right h4 _, .radixN fs b (liftG _ hg) ⟨a, Dvd.intro_left _ rfl⟩⟩
  | radix4 k b _ a ih =>
    obtain ⟨N, hN, h4, hg⟩ := ih
    exact ⟨N * _, Nat.mul_pos hN a, Dvd.dvd.mul_right h4 _, .radix4 k b (liftG _ hg) ⟨a, Dvd.intro_left _ rfl⟩⟩
  | radix3 k b _ a ih =>
    obtain ⟨N, hN, h4, hg⟩ := ih
    exact ⟨N * _, Nat.mul_pos hN a, Dvd.dvd.mul_right h4 _, .radix3 k b (liftG _ hg) ⟨a, Dvd.intro_left _ rfl⟩⟩
  | sseRadix4 k b _ a ih =>
    obtain ⟨N, hN, h4, hg⟩ := ih
    exact ⟨N * _, Nat.mul_pos hN a, Dvd.dvd.mul_right h4 _, .sseRadix4 k b (liftG _ hg) ⟨a, Dvd.intro_left _ rfl⟩⟩
  | avxMixedRadix r i _ a ih =>
    obtain ⟨N, hN, h4, hg⟩ := ih
    exact ⟨N * _, Nat.mul_pos hN a, Dvd.dvd.mul_right h4 _, .avxMixedRadix r i (liftG _ hg) ⟨a, Dvd.intro_left _ rfl⟩⟩

/-- **grid-free**: for every tree with positive lengths there is a real cosine system on which the tree, with the
real scalar-butterfly code at its leaves, is exactly the unnormalised DFT of its length in both directions -/
theorem real_arithmetic_tree_is_dft_some_grid (t : Recipe) (h : t.Good (fun n => 0 < n)) :
    ∃ (N : Nat) (hN : 0 < N) (h4 : 4 ∣ N), ∀ (inverse : Bool) (x : Array (Cx ℝ)), x.size = t.len →
      t.semP (realCos N hN h4) inverse (fun m => 1 / (m : ℝ)) x =
        semDft (cosCtx (realCos N hN h4) inverse (fun m => 1 / (m : ℝ))) t.len x := by
  obtain ⟨N, hN, h4, hg⟩ := h.exists_grid
  exact ⟨N, hN, h4, fun inverse x hx => real_arithmetic_tree_is_dft N hN h4 inverse t hg x hx⟩

/-- **grid-free round trip**: any two trees of one positive length (the two directions as planned at any two times)
undo each other up to the factor `n`, exactly, in real arithmetic, through the real butterfly code -/
theorem real_arithmetic_roundtrip_some_grid (t₁ t₂ : Recipe) (h₁ : t₁.Good (fun n => 0 < n))
    (h₂ : t₂.Good (fun n => 0 < n)) (hlen : t₂.len = t₁.len) (hpos : 0 < t₁.len) :
    ∃ (N : Nat) (hN : 0 < N) (h4 : 4 ∣ N), ∀ (inverse : Bool) (x : Array (Cx ℝ)), x.size = t₁.len →
      t₂.semP (realCos N hN h4) (!inverse) (fun m => 1 / (m : ℝ))
          (t₁.semP (realCos N hN h4) inverse (fun m => 1 / (m : ℝ)) x) =
        tab t₁.len (fun k => (t₁.len : Cx ℝ) * at' x k) := by
  obtain ⟨N₁, hN₁, h4₁, hg₁⟩ := h₁.exists_grid
  obtain ⟨N₂, hN₂, _, hg₂⟩ := h₂.exists_grid
  refine ⟨N₁ * N₂ * t₁.len, Nat.mul_pos (Nat.mul_pos hN₁ hN₂) hpos,
    Dvd.dvd.mul_right (Dvd.dvd.mul_right h4₁ _) _, fun inverse x hx => ?_⟩
  exact real_arithmetic_roundtrip _ _ _ inverse t₁ t₂ (liftG _ (liftG _ hg₁)) (liftG _ (liftG' _ hg₂)) hlen
    ⟨hpos, Dvd.intro_left _ rfl⟩ x hx

/-- non-vacuity: Rader 7 over a 3×2 mixed radix has only positive lengths (7 is prime) -/
example : (Recipe.raders (.mixedRadix (.bfly 3) (.bfly 2))).Good (fun n => 0 < n) :=
  .raders _ (.mixedRadix _ _ (.bfly 3 (by decide)) (.bfly 2 (by decide)) (by decide)) (by decide) (by decide) (by decide)

end RFV
