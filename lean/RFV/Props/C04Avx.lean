/-
C04 (AVX planner totality) — final statements only; proofs are in `RFV/Proofs/AvxTotal.lean`.

  (a) `avxPlanBluesteins_ok`      `plan_bluesteins` always finds a candidate: `2n-1 ≤ m`, `m % 4 = 0`,
                                  `m = 2^a·3^b` with `a ≥ 2`, and `16·m ≤ 81·n`
  (b) `avxPlanFft_ok`             `plan_fft` never fails ("Couldn't find a base", "Invalid base", the `unwrap()`s of
                                  `plan_mixed_radix`), the plan's length is base × radixes and is the requested one
  (c) `avxPlanFft_radixes`        every radix of a plan is one `construct_plan` can wrap
  (d) `avxPlanAndConstruct_ok`    plan + construct succeeds for every length from every well-formed cache, with fuel 2
-/
import RFV.Proofs.AvxTotal

namespace RFV

/-! ## `PartialFactors::compute` -/

theorem partialFactors_compute_product (n : Nat) (hn : 0 < n) : (PartialFactors.compute n).product = n :=
  pf_compute_product n hn

example : (PartialFactors.compute 720720).product = 720720 := partialFactors_compute_product _ (by decide)
example : PartialFactors.compute 720 = ⟨4, 2, 1, 0, 0, 1⟩ := by decide

/-! ## (a) `plan_bluesteins` -/

theorem avxPlanBluesteins_ok (ty : ElemTy) (len : Nat) (h : 1 < len) :
    ∃ m, avxPlanBluesteins ty len = .ok m ∧ 2 * len - 1 ≤ m ∧ m % 4 = 0 ∧
      (∃ a b, m = 2 ^ a * 3 ^ b ∧ 2 ≤ a) ∧ m * 16 ≤ 81 * len := by
  obtain ⟨m, h1, h2, h3, h4, _⟩ := avxPlanBluesteins_spec ty len h
  exact ⟨m, h1, h2, h3, h4, avxPlanBluesteins_upper ty len m h h1⟩

example : ∃ m, avxPlanBluesteins .f32 1009 = .ok m ∧ 2 * 1009 - 1 ≤ m ∧ m % 4 = 0 ∧
    (∃ a b, m = 2 ^ a * 3 ^ b ∧ 2 ≤ a) ∧ m * 16 ≤ 81 * 1009 := avxPlanBluesteins_ok .f32 1009 (by decide)
example : avxPlanBluesteins .f64 47 = .ok 96 := by decide

/-! ## (b), (c) `plan_fft` -/

theorem avxPlanFft_ok (ty : ElemTy) (avx2 : Bool) (cached : Nat → Bool) (len : Nat) :
    ∃ p, avxPlanFft ty avx2 cached len = .ok p ∧ p.len = len ∧
      p.len = p.base.baseLen * p.radixes.prod := by
  obtain ⟨p, h1, h2, h3, _⟩ := avxPlanFft_spec ty avx2 cached len
  exact ⟨p, h1, h3, h2.1⟩

theorem avxPlanFft_radixes (ty : ElemTy) (avx2 : Bool) (cached : Nat → Bool) (len : Nat) (p : AvxPlan)
    (h : avxPlanFft ty avx2 cached len = .ok p) : ∀ r ∈ p.radixes, r ∈ avxRadixes := by
  obtain ⟨p', h1, h2, _⟩ := avxPlanFft_spec ty avx2 cached len
  rw [h] at h1; cases h1; exact h2.2

example : ∃ p, avxPlanFft .f32 true (fun _ => false) 1009 = .ok p ∧ p.len = 1009 ∧
    p.len = p.base.baseLen * p.radixes.prod := avxPlanFft_ok _ _ _ _
example : avxPlanFft .f64 true (fun _ => false) 720 = .ok ⟨720, .bfly 36, [5, 4]⟩ := by decide

/-! ## (d) plan + construct -/

/-- `CacheInv c` (from `Proofs/AvxTotal.lean`): every entry of the instance cache is filed under its own length -/
theorem cacheInv_iff (c : InstCache) : CacheInv c ↔ ∀ e ∈ c, e.2.len = e.1 := Iff.rfl

theorem cacheInv_empty : CacheInv [] := CacheInv.nil

/-- fuel 2 suffices, for every length and every well-formed cache; the new cache is again well-formed -/
theorem avxPlanAndConstruct_fuel (ty : ElemTy) (avx2 : Bool) (fuel : Nat) (hf : 2 ≤ fuel) (c : InstCache)
    (hc : CacheInv c) (len : Nat) :
    ∃ r c', avxPlanAndConstruct ty avx2 fuel c len = .ok (r, c') ∧ r.len = len ∧ CacheInv c' := by
  obtain ⟨f, rfl⟩ : ∃ f, fuel = f + 2 := ⟨fuel - 2, by omega⟩
  exact avxConstruct_any ty avx2 f c len hc

theorem avxPlanAndConstruct_ok (ty : ElemTy) (avx2 : Bool) (c : InstCache) (hc : CacheInv c) (len : Nat) :
    ∃ fuel r c', avxPlanAndConstruct ty avx2 fuel c len = .ok (r, c') ∧ r.len = len ∧ CacheInv c' :=
  ⟨2, avxPlanAndConstruct_fuel ty avx2 2 (le_refl _) c hc len⟩

/-- the fuel the driver uses -/
theorem avxPlanAndConstruct_planFuel (ty : ElemTy) (avx2 : Bool) (c : InstCache) (hc : CacheInv c) (len : Nat) :
    ∃ r c', avxPlanAndConstruct ty avx2 (planFuel len) c len = .ok (r, c') ∧ r.len = len ∧ CacheInv c' :=
  avxPlanAndConstruct_fuel ty avx2 (planFuel len) (by unfold planFuel; omega) c hc len

example : ∃ r c', avxPlanAndConstruct .f32 true (planFuel 1009) [] 1009 = .ok (r, c') ∧ r.len = 1009 ∧
    CacheInv c' := avxPlanAndConstruct_planFuel _ _ _ cacheInv_empty _
example : ∃ r c', avxPlanAndConstruct .f64 false 2 [] (2 ^ 40 * 1000003) = .ok (r, c') ∧
    r.len = 2 ^ 40 * 1000003 ∧ CacheInv c' := avxPlanAndConstruct_fuel _ _ 2 (le_refl _) _ cacheInv_empty _
example : (avxPlanAndConstruct .f32 true 2 [] 12).map (·.1) = .ok (.avxBfly 12) := by decide

end RFV
