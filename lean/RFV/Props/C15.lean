/-
C15 — the immutable-input entry point never modifies its input (slice-level part).  Theorems only; proofs in
`Proofs/ExecLemmas.lean`.
-/
import RFV.Proofs.ExecLemmas

namespace RFV

/-- (7) in the immutable entry no inner call is ever given (any part of) the input as the buffer it transforms in
place, as its output, or as its scratch — for every algorithm, length, inner specs and scratch length -/
theorem immut_never_touches_input (a : Algo) (len : Nat) (s0 s1 : Spec) (adv : Nat) :
    ∀ c ∈ calls a .immut len s0 s1 adv,
      c.data.buf ≠ .input ∧ c.scratch.buf ≠ .input ∧ (∀ r, c.out = some r → r.buf ≠ .input) ∧
      c.data.buf ≠ .data :=
  exec_immut_never_touches_input a len s0 s1 adv

/-- the statement is not vacuous: the out-of-place entry DOES hand the input to an inner call to transform in place … -/
theorem oop_does_touch_input (len : Nat) (s0 s1 : Spec) (adv : Nat) :
    ∃ c ∈ calls .mixedRadix .oop len s0 s1 adv, c.data.buf = .input :=
  ⟨_, List.mem_cons_of_mem _ (List.mem_cons_self ..), rfl⟩

/-- … and as scratch -/
theorem oop_does_lend_input_as_scratch (len : Nat) (s0 s1 : Spec) :
    ∃ c ∈ calls .mixedRadixSmall .oop len s0 s1 0, c.scratch.buf = .input :=
  ⟨_, List.mem_cons_self .., rfl⟩

example : calls .mixedRadix .immut 12 ⟨3, 5, 0, 0⟩ ⟨4, 2, 0, 0⟩ 17 =
    [⟨1, .inplace, ⟨.output, 0, 12⟩, none, ⟨.scratch, 0, 17⟩⟩,
     ⟨0, .inplace, ⟨.scratch, 0, 12⟩, none, ⟨.scratch, 12, 5⟩⟩] := by decide
example : ∀ c ∈ calls (.bluesteins 5) .immut 5 ⟨16, 0, 0, 0⟩ ⟨0, 0, 0, 0⟩ 16, c.data.buf ≠ .input :=
  fun c hc => (immut_never_touches_input _ _ _ _ _ c hc).1

end RFV
