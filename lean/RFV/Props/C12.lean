/-
C12 — public algorithm constructors compose into correct transforms.

`t.spec ty = .ok s` says: constructing the tree `t` bottom-up through the public constructors trips none of their
asserts (the asserts *are* the documented preconditions: coprime lengths, `len + 1` prime, `2n - 1 ≤ inner`, equal
directions are by construction, the `*Small` variants' "inner transforms need no out-of-place and little in-place
scratch").  Everything the property asks of the composite then follows for *any* finite expression tree.
-/
import RFV.Props.C10
import RFV.Props.C08
import RFV.Props.C03
import RFV.Props.C15

namespace RFV

variable {K : Type} [CommRing K]

/-- **a tree that constructs is a correct transform** (C01 for the composite): over every lawful ring, in either
direction, for every input -/
theorem constructed_tree_is_dft (ty : ElemTy) (t : Recipe) (s : Spec) (h : t.spec ty = .ok s) (hpos : 0 < s.len)
    (c : Ctx K) (hc : c.Lawful (fun n => 0 < n)) : IsDft c t.len (t.sem c) ∧ IsDft (cinv c) t.len (t.sem (cinv c)) :=
  have hg := (good_of_spec ty t s h hpos).1
  ⟨Recipe.sem_isDft c _ hc t hg, Recipe.sem_isDft (cinv c) _ (cinv_lawful hc) t hg⟩

/-- the reported length of a constructed tree is the composite length -/
theorem constructed_tree_len (ty : ElemTy) (t : Recipe) (s : Spec) (h : t.spec ty = .ok s) : s.len = t.len :=
  spec_len_eq ty t s h

/-- Rader's constructor accepts exactly the inner transforms whose length plus one is prime — *including* inner
length 1 (prime 2), which panicked in `primitive_root(2).unwrap()` before fix e613fc1 -/
theorem raders_constructs_iff (ty : ElemTy) (i : Recipe) :
    (∃ s, (Recipe.raders i).spec ty = .ok s) ↔ (∃ si, i.spec ty = .ok si ∧ Nat.Prime (si.len + 1)) := by
  constructor
  · rintro ⟨s, h⟩
    simp only [Recipe.spec] at h
    split at h
    · simp at h
    · rename_i inner hi
      simp only [radersAsserts] at h
      split at h
      · simp at h
      · rename_i hp
        refine ⟨inner, hi, ?_⟩
        have : isPrimeNat (inner.len + 1) = true := by
          by_contra hc; simp [hc] at hp
        exact (isPrimeNat_iff _).mp this
  · rintro ⟨si, hi, hp⟩
    have h1 : isPrimeNat (si.len + 1) = true := (isPrimeNat_iff _).mpr hp
    obtain ⟨g, hg⟩ := Option.isSome_iff_exists.mp (primitiveRoot_isSome _ hp)
    simp [Recipe.spec, hi, radersAsserts, h1, hg]

/-- scratch hand-off inside a constructed composite (C08 for the composite): every inner call of a constructed
MixedRadix node gets the scratch its callee advertises, whatever the inner transforms are -/
theorem constructed_mixedRadix_scratch_ok (e : EntryKind) (w h : Spec) :
    ∀ c ∈ calls .mixedRadix e (w.len * h.len) w h (advertised .mixedRadix e (w.len * h.len) w h),
      c.need w h ≤ c.scratch.len :=
  scratch_suffices .mixedRadix e _ w h rfl

example : (Recipe.raders (.bfly 1)).spec .f64 = .ok ⟨2, 1, 0, 1⟩ := by decide
example : ((Recipe.mixedRadix (.raders (.bfly 4)) (.bluesteins 3 (.bfly 8))).spec .f32).toOption.isSome = true := by decide

end RFV
