/- one eighth of the closed evaluation of Props/C12Trees (split so that the parts build in parallel) -/
import RFV.Gen.Trees
namespace RFV
theorem trees_chunk6_check : Gen.treesChunk6.all RawProg.check = true := by native_decide
end RFV
