/-
C01 / C14, whole trees with the REAL scalar butterflies at the leaves.

`Recipe.semP S inverse invR t` is the tree semantics `Recipe.sem` in which every `bfly n` leaf is replaced by what the
real `ButterflyN` executes (the program extracted by T7, run on the re/im parts).  Over the complex pairs `Cx R` of any
commutative ring with a lawful, principal cosine system on a grid `N` that all the tree's lengths divide:

  * `semP_eq_sem`            : replacing the leaves changes nothing (`butterfly_program_eq_semDft`);
  * `cosCtx_lawful` (Proofs/CosCtx.lean) : the twiddle system of a cosine system satisfies `Ctx.Lawful`
    (angle addition, periodicity, scaling, `cos² + sin² = 1` derived; orthogonality is the hypothesis "principal");
  * `real_code_tree_is_dft`  : hence every well-formed tree — whatever planner or constructor built it — with the real
    butterfly code at its scalar-butterfly leaves computes exactly the unnormalised DFT of its length, ascending
    frequency, in either direction, for every input.

(The SIMD butterflies at `avxBfly` leaves and behind the SSE planner's butterflies stay specified: intrinsics cannot be
run on a symbolic element type.)
-/
import RFV.Proofs.CosCtx
import RFV.Props.C01

open Finset BigOperators

namespace RFV

variable {R : Type} [CommRing R]

/-- the cosine system of the grid `N` seen on a coarser grid `g ∣ N` -/
def CosSys.restrict {N : Nat} (S : CosSys R N) (g : Nat) (hg : g ∣ N) (h4 : 4 ∣ g) (hg0 : 0 < g) : CosSys R g where
  half := S.half
  cs := fun a => S.cs (a * (N / g))
  two_half := S.two_half
  cs_zero := by simp [S.cs_zero]
  cs_mod := fun a => by
    obtain ⟨m, rfl⟩ := hg
    have hm : g * m / g = m := Nat.mul_div_cancel_left m hg0
    rw [hm, ← S.cs_mod (a * m), ← S.cs_mod (a % g * m), Nat.mul_mod_mul_right, Nat.mul_mod_mul_right, Nat.mod_mod]
  cs_even := fun a ha => by
    obtain ⟨m, rfl⟩ := hg
    have hm : g * m / g = m := Nat.mul_div_cancel_left m hg0
    rw [hm]
    have e : (g - a) * m = g * m - a * m := Nat.sub_mul g a m
    rw [e]
    exact S.cs_even (a * m) (Nat.mul_le_mul_right m ha)
  cs_quarter := by
    obtain ⟨m, rfl⟩ := hg
    obtain ⟨q, rfl⟩ := h4
    have hq : 0 < q := by omega
    have hm : 4 * q * m / (4 * q) = m := Nat.mul_div_cancel_left m hg0
    have e1 : 4 * q / 4 = q := by omega
    have e2 : 4 * q * m / 4 = q * m := by
      rw [show 4 * q * m = 4 * (q * m) by ring]; omega
    rw [hm, e1]
    have := S.cs_quarter
    rwa [e2] at this
  cs_half := fun a => by
    obtain ⟨m, rfl⟩ := hg
    obtain ⟨q, rfl⟩ := h4
    have hq : 0 < q := by omega
    have hm : 4 * q * m / (4 * q) = m := Nat.mul_div_cancel_left m hg0
    have e1 : 4 * q / 2 = 2 * q := by omega
    have e2 : 4 * q * m / 2 = 2 * q * m := by
      rw [show 4 * q * m = 2 * (2 * q * m) by ring]; omega
    rw [hm, e1]
    have := S.cs_half (a * m)
    rw [e2] at this
    rw [← this]; congr 1; ring
  prod := fun a b => by
    obtain ⟨m, rfl⟩ := hg
    have hm : g * m / g = m := Nat.mul_div_cancel_left m hg0
    rw [hm]
    have h := S.prod (a * m) (b * m)
    rw [h]
    congr 1
    · congr 1; ring
    · congr 1
      rw [Nat.mul_mod_mul_right]
      have hb : b % g ≤ g := (Nat.mod_lt b hg0).le
      rw [Nat.add_mul, Nat.sub_mul]

/-- on lengths dividing the coarser grid the two twiddle systems agree -/
theorem cosCtx_restrict_tw {N : Nat} (S : CosSys R N) (g : Nat) (hg : g ∣ N) (h4 : 4 ∣ g) (hg0 : 0 < g)
    (inverse : Bool) (invR : Nat → R) (n : Nat) (hn : n ∣ g) (hn0 : 0 < n) (k : Nat) :
    (cosCtx (S.restrict g hg h4 hg0) inverse invR).tw k n = (cosCtx S inverse invR).tw k n := by
  obtain ⟨m, rfl⟩ := hg
  obtain ⟨t, rfl⟩ := hn
  obtain ⟨q, hq⟩ := h4
  have ht0 : 0 < t := Nat.pos_of_mul_pos_left hg0
  have hm : n * t * m / (n * t) = m := Nat.mul_div_cancel_left m hg0
  have e1 : n * t / n = t := Nat.mul_div_cancel_left t hn0
  have e2 : n * t * m / n = t * m := by
    rw [show n * t * m = n * (t * m) by ring]; exact Nat.mul_div_cancel_left _ hn0
  have e3 : n * t / 4 = q := by rw [hq]; omega
  have e4 : n * t * m / 4 = q * m := by
    rw [hq, show 4 * q * m = 4 * (q * m) by ring]; omega
  unfold cosCtx gridCos gridSin CosSys.restrict
  simp only [hm, e1, e2, e3, e4]
  ext
  · simp only; congr 1; ring
  · simp only; congr 2; ring

theorem semDft_congr_tw {K : Type} [Add K] [Mul K] [Zero K] (c c' : Ctx K) (n : Nat)
    (h : ∀ k, c.tw k n = c'.tw k n) (x : Array K) : semDft c n x = semDft c' n x := by
  unfold semDft
  simp only [h]

/-- the real code of the `bfly n` leaf (if T7 extracted a program for this length and direction and its grid divides `N`) -/
noncomputable def leafP {N : Nat} (S : CosSys R N) (inverse : Bool) (n : Nat) :
    Option (Array (Cx R) → Array (Cx R)) :=
  match Gen.allButterflies.find? (fun P => P.n == n && P.inverse == inverse) with
  | none => none
  | some P =>
    if h : P.grid ∣ N ∧ 4 ∣ P.grid ∧ 0 < P.grid then some (bflySem P (S.restrict P.grid h.1 h.2.1 h.2.2)) else none

theorem leafP_eq {N : Nat} (S : CosSys R N) (inverse : Bool) (invR : Nat → R) (n : Nat)
    (f : Array (Cx R) → Array (Cx R)) (h : leafP S inverse n = some f) :
    f = semDft (cosCtx S inverse invR) n := by
  unfold leafP at h
  split at h
  · cases h
  · rename_i P hfind
    split at h
    · rename_i hg
      simp only [Option.some.injEq] at h
      subst h
      have hmem : P ∈ Gen.allButterflies := List.mem_of_find?_eq_some hfind
      have hprop := List.find?_some hfind
      simp only [Bool.and_eq_true, beq_iff_eq] at hprop
      obtain ⟨hPn, hPi⟩ := hprop
      -- the program passes the check, so its own side conditions hold: n ∣ grid, 0 < n
      have hchk := List.all_eq_true.mp scalar_butterflies_check P hmem
      have hside : 0 < P.n ∧ P.n ∣ P.grid := by
        unfold RawProg.check at hchk
        simp only [Bool.and_eq_true, beq_iff_eq, decide_eq_true_eq] at hchk
        exact ⟨hchk.1.1.1.2, Nat.dvd_of_mod_eq_zero hchk.1.1.2⟩
      funext x
      rw [butterfly_program_eq_semDft P hmem (S.restrict P.grid hg.1 hg.2.1 hg.2.2) invR x, hPi, hPn]
      apply semDft_congr_tw
      intro k
      exact cosCtx_restrict_tw S P.grid hg.1 hg.2.1 hg.2.2 inverse invR n (hPn ▸ hside.2) (hPn ▸ hside.1) k
    · cases h

/-- `Recipe.sem` with the real scalar butterflies at the `bfly` leaves -/
noncomputable def Recipe.semP {N : Nat} (S : CosSys R N) (inverse : Bool) (invR : Nat → R) :
    Recipe → Array (Cx R) → Array (Cx R)
  | .dft n => semDft (cosCtx S inverse invR) n
  | .bfly n => (leafP S inverse n).getD (semDft (cosCtx S inverse invR) n)
  | .primeBfly n => semDft (cosCtx S inverse invR) n
  | .avxBfly n => semDft (cosCtx S inverse invR) n
  | .mixedRadix l r =>
    semMixedRadix (cosCtx S inverse invR) l.len r.len (l.semP S inverse invR) (r.semP S inverse invR)
  | .mixedRadixSmall l r =>
    semMixedRadix (cosCtx S inverse invR) l.len r.len (l.semP S inverse invR) (r.semP S inverse invR)
  | .goodThomas l r =>
    if l.len > r.len then semGoodThomas r.len l.len (r.semP S inverse invR) (l.semP S inverse invR)
    else semGoodThomas l.len r.len (l.semP S inverse invR) (r.semP S inverse invR)
  | .goodThomasSmall l r => semGoodThomas l.len r.len (l.semP S inverse invR) (r.semP S inverse invR)
  | .raders i =>
    let p := i.len + 1
    let g := (primitiveRoot p).getD 0
    semRaders (cosCtx S inverse invR) p g (modPow g (p - 2) p) (i.semP S inverse invR)
  | .avxRaders i =>
    let p := i.len + 1
    let g := (primitiveRoot p).getD 0
    semRaders (cosCtx S inverse invR) p g (modPow g (p - 2) p) (i.semP S inverse invR)
  | .bluesteins n i => semBluesteins (cosCtx S inverse invR) n i.len (i.semP S inverse invR)
  | .avxBluesteins n i => semBluesteins (cosCtx S inverse invR) n i.len (i.semP S inverse invR)
  | .radixN fs b => semRadixN (cosCtx S inverse invR) fs b.len (b.semP S inverse invR)
  | .radix4 k b => semRadixN (cosCtx S inverse invR) (List.replicate k 4) b.len (b.semP S inverse invR)
  | .radix3 k b => semRadixN (cosCtx S inverse invR) (List.replicate k 3) b.len (b.semP S inverse invR)
  | .sseRadix4 k b => semRadixN (cosCtx S inverse invR) (List.replicate k 4) b.len (b.semP S inverse invR)
  | .avxMixedRadix r i => semAvxMixedRadix (cosCtx S inverse invR) r i.len (i.semP S inverse invR)

/-- replacing the specified leaves by the real code changes nothing -/
theorem semP_eq_sem {N : Nat} (S : CosSys R N) (inverse : Bool) (invR : Nat → R) (t : Recipe) :
    t.semP S inverse invR = t.sem (cosCtx S inverse invR) := by
  induction t with
  | dft n => rfl
  | bfly n =>
    unfold Recipe.semP Recipe.sem
    cases h : leafP S inverse n with
    | none => rfl
    | some f => simp only [Option.getD_some]; exact leafP_eq S inverse invR n f h
  | primeBfly n => rfl
  | avxBfly n => rfl
  | mixedRadix l r ihl ihr => simp only [Recipe.semP, Recipe.sem, ihl, ihr]
  | mixedRadixSmall l r ihl ihr => simp only [Recipe.semP, Recipe.sem, ihl, ihr]
  | goodThomas l r ihl ihr => simp only [Recipe.semP, Recipe.sem, ihl, ihr]
  | goodThomasSmall l r ihl ihr => simp only [Recipe.semP, Recipe.sem, ihl, ihr]
  | raders i ih => simp only [Recipe.semP, Recipe.sem, ih]
  | avxRaders i ih => simp only [Recipe.semP, Recipe.sem, ih]
  | bluesteins n i ih => simp only [Recipe.semP, Recipe.sem, ih]
  | avxBluesteins n i ih => simp only [Recipe.semP, Recipe.sem, ih]
  | radixN fs b ih => simp only [Recipe.semP, Recipe.sem, ih]
  | radix4 k b ih => simp only [Recipe.semP, Recipe.sem, ih]
  | radix3 k b ih => simp only [Recipe.semP, Recipe.sem, ih]
  | sseRadix4 k b ih => simp only [Recipe.semP, Recipe.sem, ih]
  | avxMixedRadix r i ih => simp only [Recipe.semP, Recipe.sem, ih]

/-- **every well-formed tree with the real scalar-butterfly code at its leaves computes exactly the DFT of its length**
over the complex pairs of any commutative ring with a lawful, principal cosine system on a grid all lengths divide -/
theorem real_code_tree_is_dft {N : Nat} (S : CosSys R N) (hN : 0 < N) (h4 : 4 ∣ N) (inverse : Bool) (invR : Nat → R)
    (hinv : ∀ m, 0 < m → m ∣ N → invR m * (m : R) = 1)
    (horth : ∀ n j, 0 < n → n ∣ N → 0 < j → j < n →
      ∑ k ∈ range n, (cosCtx S inverse invR).tw (j * k) n = 0)
    (t : Recipe) (hg : t.Good (fun n => 0 < n ∧ n ∣ N)) (x : Array (Cx R)) (hx : x.size = t.len) :
    t.semP S inverse invR x = semDft (cosCtx S inverse invR) t.len x := by
  rw [semP_eq_sem]
  exact Recipe.sem_isDft (cosCtx S inverse invR) _ (cosCtx_lawful S hN h4 inverse invR hinv horth) t hg x hx

/-- the leaves really are the extracted programs: e.g. the `bfly 5` leaf on a grid divisible by 20 -/
example {N : Nat} (S : CosSys R N) (h : Gen.bfly5F.grid ∣ N ∧ 4 ∣ Gen.bfly5F.grid ∧ 0 < Gen.bfly5F.grid)
    (hfind : Gen.allButterflies.find? (fun P => P.n == 5 && P.inverse == false) = some Gen.bfly5F) :
    leafP S false 5 = some (bflySem Gen.bfly5F (S.restrict Gen.bfly5F.grid h.1 h.2.1 h.2.2)) := by
  unfold leafP; rw [hfind]; simp only [h, and_self, dif_pos]

end RFV
