/-
C12 on the code (translator T9): transforms built by nesting the PUBLIC algorithm constructors — MixedRadix,
MixedRadixSmall, GoodThomasAlgorithm, GoodThomasAlgorithmSmall, Radix4, Radix3, RadixN over Dft / butterfly leaves, depth
≤ 2, composite length ≤ 72 (no Rader / Bluestein node: they divide by a length, which the symbolic element type does not
offer) — were run on the symbolic element type through all three explicit entry points (forward), the scratch and the
initial output contents being symbolic garbage.  A deterministic stratified sample (16 trees per outermost
constructor, 116 trees, 348 programs, 254 337 instructions, regenerated on every run; the tree texts are
`Gen.treeTexts`) all pass the verified checker: each composite, as executed by the real code, computes the exact DFT of
the composite length for every input over every commutative ring with a lawful cosine system, whatever the scratch and
the output buffer held before (C01, C08 for the composite — on the code, not on a model of it).
`trees_chunk{0..7}_check` are declared `native_decide` evaluations like those of Props/C01Planned.
-/
import RFV.Props.C01Bfly
import RFV.Gen.Trees
import RFV.Props.C12TreesChunk0
import RFV.Props.C12TreesChunk1
import RFV.Props.C12TreesChunk2
import RFV.Props.C12TreesChunk3
import RFV.Props.C12TreesChunk4
import RFV.Props.C12TreesChunk5
import RFV.Props.C12TreesChunk6
import RFV.Props.C12TreesChunk7

open Finset BigOperators

namespace RFV

variable {R : Type} [CommRing R]

theorem ctor_trees_check : Gen.allTrees.all RawProg.check = true := by
  unfold Gen.allTrees
  simp only [List.all_append, Bool.and_eq_true]
  exact ⟨⟨⟨⟨⟨⟨⟨trees_chunk0_check, trees_chunk1_check⟩, trees_chunk2_check⟩, trees_chunk3_check⟩, trees_chunk4_check⟩,
    trees_chunk5_check⟩, trees_chunk6_check⟩, trees_chunk7_check⟩

theorem ctor_trees_are_dft (P : RawProg) (hP : P ∈ Gen.allTrees) (S : CosSys R P.grid) (x : Nat → R)
    (k : Nat) (hk : k < P.n) :
    regOf (P.run S.cs x) (P.outs.getD (2 * k) 0) =
      ∑ j ∈ range P.n, (x (2 * j) * gridCos S P.n (j * k) +
        (if P.inverse then -1 else 1) * (x (2 * j + 1) * gridSin S P.n (j * k))) ∧
    regOf (P.run S.cs x) (P.outs.getD (2 * k + 1) 0) =
      ∑ j ∈ range P.n, (x (2 * j + 1) * gridCos S P.n (j * k) -
        (if P.inverse then -1 else 1) * (x (2 * j) * gridSin S P.n (j * k))) :=
  checked_program_is_dft P (List.all_eq_true.mp ctor_trees_check P hP) S x k hk

end RFV
