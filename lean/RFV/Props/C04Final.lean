/-
C04, closed form: the primitive-root hypothesis of `Props/C04Spec` discharged by `Proofs/PrimitiveRoot`.
-/
import RFV.Props.C04Spec
import RFV.Proofs.PrimitiveRoot

namespace RFV

/-- **For every length n the scalar planner designs a recipe of length n, and constructing it trips no constructor
assert** (`MixedRadixSmall`/`GoodThomasAlgorithmSmall` inner-scratch asserts, Good–Thomas coprimality, Rader primality
and `primitive_root(..).unwrap()`, Bluestein `2n-1 ≤ M`, …). -/
theorem planScalar_constructs (ty : ElemTy) (n : Nat) :
    ∃ r s, planScalar n = .ok r ∧ r.spec ty = .ok s ∧ s.len = n :=
  planScalar_spec_ok ty n (fun p hp => primitiveRoot_isSome p hp)

/-- the same for the SSE planner (incl. the `SseRadix4::new` base-length assert) -/
theorem planSse_constructs (ty : ElemTy) (n : Nat) :
    ∃ r s, planSse n = .ok r ∧ r.spec ty = .ok s ∧ s.len = n :=
  planSse_spec_ok ty n (fun p hp => primitiveRoot_isSome p hp)

example : ∃ r s, planScalar 1009 = .ok r ∧ r.spec .f64 = .ok s ∧ s.len = 1009 := planScalar_constructs _ _

end RFV
