/-
C01 / C14 for the scalar butterflies — theorems only; proofs in `Proofs/ProgSound.lean`.

`RFV/Gen/Butterflies.lean` is regenerated on every run by translator T7: the REAL `ButterflyN::new(direction)` of /repo
(N = 1, 2, 3, 4, 5, 6, 7, 8, 9, 11, 12, 13, 16, 17, 19, 23, 24, 27, 29, 31, 32) is run on a symbolic element type and
the operations it performs are recorded: a straight-line program over `+ - * neg` whose constants are the grid cosines
the code converted from f64.  `RawProg.check` (Model/Prog.lean) evaluates such a program symbolically — every register a
linear form in the inputs with coefficients in the dyadic span of the grid cosines, products of constants by
product-to-sum — and compares every output with the DFT's linear form.

  * `check_sound` (Proofs/ProgSound.lean, kernel-checked, axioms: the standard three): `P.check = true` implies that
    over EVERY commutative ring with a lawful cosine system, for EVERY input, every output scalar of `P` is the DFT's.
  * `scalar_butterflies_check`: all 42 generated programs pass the check.  This is a closed computation on generated
    data; it is discharged by `native_decide` (axioms `Lean.ofReduceBool` / `Lean.trustCompiler`: the Lean compiler is
    trusted for this evaluation — kernel evaluation of the largest programs takes hours), and additionally by the
    kernel alone for the smallest programs (`small_butterflies_check_kernel`).
  * `scalar_butterflies_are_dft`: the combination, in real/imaginary form.
  * `realCos`: the real cosines `cos(2π a / N)` are a lawful cosine system, so the statement is about exact real
    arithmetic in particular (non-vacuity).
-/
import RFV.Proofs.ProgSound
import RFV.Gen.Butterflies
import RFV.Model.Plan

open Finset BigOperators

namespace RFV

variable {R : Type} [CommRing R]

theorem pval_flatMap_range {N : Nat} (S : CosSys R N) (x : Nat → R) (f : Nat → Poly) (n : Nat) :
    pval S x ((List.range n).flatMap f) = ∑ j ∈ range n, pval S x (f j) := by
  induction n with
  | zero => simp
  | succ n ih =>
    rw [List.range_succ, List.flatMap_append, pval_append, ih, Finset.sum_range_succ]
    simp

/-- cosine and sine of the twiddle angle `2π·m/n` on the grid `N` (`n ∣ N`, `4 ∣ N`): `sin θ = cos(θ + ¾ turn)` -/
def gridCos {N : Nat} (S : CosSys R N) (n m : Nat) : R := S.cs ((m % n) * (N / n))
def gridSin {N : Nat} (S : CosSys R N) (n m : Nat) : R := S.cs ((m % n) * (N / n) + 3 * (N / 4))

/-- the DFT's linear form, spelled out: with `w = cos θ ∓ i sin θ` (`-` forward, `+` inverse), `θ = 2π jk/n`,
`re X[k] = Σ_j (re x[j]·cos θ ± im x[j]·sin θ)` and `im X[k] = Σ_j (im x[j]·cos θ ∓ re x[j]·sin θ)` -/
theorem pval_expected_re {N : Nat} (S : CosSys R N) (x : Nat → R) (n : Nat) (inverse : Bool) (k : Nat) :
    pval S x (expected n N inverse (2 * k)) =
      ∑ j ∈ range n, (x (2 * j) * gridCos S n (j * k) +
        (if inverse then -1 else 1) * (x (2 * j + 1) * gridSin S n (j * k))) := by
  unfold expected
  have hk : 2 * k / 2 = k := by omega
  have hm : (2 * k % 2 == 1) = false := by simp
  simp only [hk, hm]
  rw [pval_flatMap_range]
  apply Finset.sum_congr rfl
  intro j _
  simp only [Bool.false_eq_true, if_false, pval_cons, pval_nil, tval, add_zero, pow_zero, mul_one, Int.cast_one, one_mul,
    xin, gridCos, gridSin]
  cases inverse <;> simp <;> ring

theorem pval_expected_im {N : Nat} (S : CosSys R N) (x : Nat → R) (n : Nat) (inverse : Bool) (k : Nat) :
    pval S x (expected n N inverse (2 * k + 1)) =
      ∑ j ∈ range n, (x (2 * j + 1) * gridCos S n (j * k) -
        (if inverse then -1 else 1) * (x (2 * j) * gridSin S n (j * k))) := by
  unfold expected
  have hk : (2 * k + 1) / 2 = k := by omega
  have hm : ((2 * k + 1) % 2 == 1) = true := by simp [Nat.add_mod]
  simp only [hk, hm]
  rw [pval_flatMap_range]
  apply Finset.sum_congr rfl
  intro j _
  simp only [if_true, pval_cons, pval_nil, tval, add_zero, pow_zero, mul_one, Int.cast_one, one_mul,
    xin, gridCos, gridSin]
  cases inverse <;> simp <;> ring

/-- a program that passes the check computes the unnormalised DFT of its length, in its direction, ascending
frequency — over every commutative ring with a lawful cosine system, for every input -/
theorem checked_program_is_dft (P : RawProg) (h : P.check = true) (S : CosSys R P.grid) (x : Nat → R) (k : Nat)
    (hk : k < P.n) :
    regOf (P.run S.cs x) (P.outs.getD (2 * k) 0) =
      ∑ j ∈ range P.n, (x (2 * j) * gridCos S P.n (j * k) +
        (if P.inverse then -1 else 1) * (x (2 * j + 1) * gridSin S P.n (j * k))) ∧
    regOf (P.run S.cs x) (P.outs.getD (2 * k + 1) 0) =
      ∑ j ∈ range P.n, (x (2 * j + 1) * gridCos S P.n (j * k) -
        (if P.inverse then -1 else 1) * (x (2 * j) * gridSin S P.n (j * k))) := by
  constructor
  · rw [check_sound P h S x (2 * k) (by omega), pval_expected_re]
  · rw [check_sound P h S x (2 * k + 1) (by omega), pval_expected_im]

/-! ### the generated programs -/

/-- every generated program passes the check (closed computation; compiler trusted, see the header) -/
theorem scalar_butterflies_check : Gen.allButterflies.all RawProg.check = true := by native_decide

/-- the smallest ones by the kernel alone -/
theorem small_butterflies_check_kernel :
    [Gen.bfly1F, Gen.bfly1I, Gen.bfly2F, Gen.bfly2I, Gen.bfly3F, Gen.bfly3I, Gen.bfly4F, Gen.bfly4I].all
      RawProg.check = true := by decide +kernel

/-- the programs are those of every scalar butterfly the planners use, in both directions -/
theorem scalar_butterflies_cover :
    Gen.allButterflies.map (fun P => (P.n, P.inverse)) =
      [1, 2, 3, 4, 5, 6, 7, 8, 9, 11, 12, 13, 16, 17, 19, 23, 24, 27, 29, 31, 32].flatMap
        (fun n => [(n, false), (n, true)]) := by decide

/-- **every scalar butterfly of /repo computes the DFT of its length** (what `Recipe.sem` assumes of its `bfly`
leaves), exactly, over every commutative ring with a lawful cosine system -/
theorem scalar_butterflies_are_dft (P : RawProg) (hP : P ∈ Gen.allButterflies) (S : CosSys R P.grid) (x : Nat → R)
    (k : Nat) (hk : k < P.n) :
    regOf (P.run S.cs x) (P.outs.getD (2 * k) 0) =
      ∑ j ∈ range P.n, (x (2 * j) * gridCos S P.n (j * k) +
        (if P.inverse then -1 else 1) * (x (2 * j + 1) * gridSin S P.n (j * k))) ∧
    regOf (P.run S.cs x) (P.outs.getD (2 * k + 1) 0) =
      ∑ j ∈ range P.n, (x (2 * j + 1) * gridCos S P.n (j * k) -
        (if P.inverse then -1 else 1) * (x (2 * j) * gridSin S P.n (j * k))) :=
  checked_program_is_dft P (List.all_eq_true.mp scalar_butterflies_check P hP) S x k hk

/-- a program that is NOT the DFT is rejected: Butterfly2 with its two outputs swapped -/
example : ({ Gen.bfly2F with outs := [Gen.bfly2F.outs.getD 2 0, Gen.bfly2F.outs.getD 3 0,
    Gen.bfly2F.outs.getD 0 0, Gen.bfly2F.outs.getD 1 0] } : RawProg).check = false := by decide +kernel

end RFV
