/-
C06 in exact real arithmetic, through the extracted scalar-butterfly code (`semP`), with no hypothesis left on the
number system: the tree run in one direction and then in the other returns `n • x`, unscaled, and the inverse is
`conj ∘ forward ∘ conj`.  `C06.lean` states this for the abstract `Recipe.sem` over any lawful context; here the leaves
are the translated Rust butterflies (T7) and the context is the real cosine system, whose lawfulness is proved
(`realCos`, `realCos_orth`), and whose opposite direction *is* the conjugated context (`cosCtx_not`).
-/
import RFV.Props.C01TreeReal
import RFV.Props.C06

open Finset BigOperators Real

namespace RFV

/-- the context of the opposite direction is the conjugated context: the direction enters `cosCtx` only through the
sign of the sine, which is what `compute_twiddle(_, _, direction)` does -/
theorem cosCtx_not {R : Type} [CommRing R] {N : Nat} (S : CosSys R N) (inverse : Bool) (invR : Nat → R) :
    cosCtx S (!inverse) invR = cinv (cosCtx S inverse invR) := by
  cases inverse <;> simp [cosCtx, cinv]

section
variable (N : Nat) (hN : 0 < N) (h4 : 4 ∣ N)

/-- the real cosine context of either direction is lawful on the divisors of the grid -/
theorem realCtx_lawful (inverse : Bool) :
    (cosCtx (realCos N hN h4) inverse (fun m => 1 / (m : ℝ))).Lawful (fun n => 0 < n ∧ n ∣ N) :=
  cosCtx_lawful (realCos N hN h4) hN h4 inverse _
    (fun m hm _ => by
      have : (m : ℝ) ≠ 0 := by exact_mod_cast hm.ne'
      field_simp)
    (fun n j hn0 hnN hj hjn => realCos_orth N hN h4 inverse _ n j hn0 hnN hj hjn)

/-- **round trip of the real code in exact real arithmetic**: a well-formed tree `t₁` in one direction followed by any
well-formed tree `t₂` of the same length in the other direction (same tree, or one planned at another time) returns
`n • x` — no scaling anywhere, for every length dividing the grid and every input -/
theorem real_arithmetic_roundtrip (inverse : Bool) (t₁ t₂ : Recipe)
    (h₁ : t₁.Good (fun n => 0 < n ∧ n ∣ N)) (h₂ : t₂.Good (fun n => 0 < n ∧ n ∣ N))
    (hlen : t₂.len = t₁.len) (hn : 0 < t₁.len ∧ t₁.len ∣ N)
    (x : Array (Cx ℝ)) (hx : x.size = t₁.len) :
    t₂.semP (realCos N hN h4) (!inverse) (fun m => 1 / (m : ℝ))
        (t₁.semP (realCos N hN h4) inverse (fun m => 1 / (m : ℝ)) x) =
      tab t₁.len (fun k => (t₁.len : Cx ℝ) * at' x k) := by
  rw [real_arithmetic_tree_is_dft N hN h4 inverse t₁ h₁ x hx,
    real_arithmetic_tree_is_dft N hN h4 (!inverse) t₂ h₂ _ (by rw [semDft_size, hlen]), hlen, cosCtx_not]
  exact semDft_inverse _ _ (realCtx_lawful N hN h4 inverse) _ hn x

/-- `inverse(x) = conj(forward(conj(x)))` for the real code in exact real arithmetic -/
theorem real_arithmetic_inverse_eq_conj_forward_conj (inverse : Bool) (t : Recipe)
    (hg : t.Good (fun n => 0 < n ∧ n ∣ N)) (x : Array (Cx ℝ)) (hx : x.size = t.len) :
    t.semP (realCos N hN h4) (!inverse) (fun m => 1 / (m : ℝ)) x =
      tab t.len (fun k => (⟨(at' (t.semP (realCos N hN h4) inverse (fun m => 1 / (m : ℝ))
        (tab t.len (fun j => (⟨(at' x j).re, -(at' x j).im⟩ : Cx ℝ)))) k).re,
        -(at' (t.semP (realCos N hN h4) inverse (fun m => 1 / (m : ℝ))
        (tab t.len (fun j => (⟨(at' x j).re, -(at' x j).im⟩ : Cx ℝ)))) k).im⟩ : Cx ℝ)) := by
  rw [real_arithmetic_tree_is_dft N hN h4 (!inverse) t hg x hx,
    real_arithmetic_tree_is_dft N hN h4 inverse t hg _ (tab_size _ _), cosCtx_not]
  exact semDft_cinv _ _ (realCtx_lawful N hN h4 inverse) _ x

/-- no scaling in the real code: a well-formed tree of length 1 is the identity in exact real arithmetic -/
theorem real_arithmetic_len1_identity (inverse : Bool) (t : Recipe) (hg : t.Good (fun n => 0 < n ∧ n ∣ N))
    (h1 : t.len = 1) (x : Array (Cx ℝ)) (hx : x.size = 1) :
    t.semP (realCos N hN h4) inverse (fun m => 1 / (m : ℝ)) x = x := by
  have hc := realCtx_lawful N hN h4 inverse
  rw [real_arithmetic_tree_is_dft N hN h4 inverse t hg x (by rw [hx, h1]), h1, semDft_eq_tab]
  conv_rhs => rw [← tab_at' x, hx]
  refine tab_congr 1 _ _ (fun k hk => ?_)
  have hk0 : k = 0 := by omega
  subst hk0
  have ht := hc.tw_zero 1 ⟨Nat.one_pos, one_dvd N⟩
  simp only [one_div] at ht ⊢
  simp [dftF, ht]

end

/-- non-vacuity: forward by a 4×3 mixed-radix tree, inverse by a 3×4 one, on the grid 12 -/
example : (Recipe.mixedRadix (.bfly 3) (.bfly 4)).Good (fun n => 0 < n ∧ n ∣ 12) ∧
    (Recipe.mixedRadix (.bfly 3) (.bfly 4)).len = (Recipe.mixedRadix (.bfly 4) (.bfly 3)).len :=
  ⟨.mixedRadix _ _ (.bfly 3 ⟨by decide, by decide⟩) (.bfly 4 ⟨by decide, by decide⟩) ⟨by decide, by decide⟩, by decide⟩

end RFV
