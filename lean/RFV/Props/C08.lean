/-
C08 — scratch is pure workspace: the advertised size suffices.  Theorems only; proofs in `Proofs/ExecLemmas.lean`.

`calls a e len s0 s1 adv` (Model/Exec.lean) lists the inner-transform calls one chunk of algorithm `a` makes through
entry point `e`; `advertised a e len s0 s1` is the advertised scratch length from the generated formulas
(`RFV/Gen/Scratch.lean`).  `Shape a len s0 s1` (Proofs/ExecLemmas.lean) is what the constructor guarantees:
  mixedRadix / goodThomas : `len = s0.len * s1.len`
  *Small                  : additionally `0 < len` and the constructor asserts
                            `s0.oop = 0 ∧ s1.oop = 0 ∧ s0.inplace ≤ s0.len ∧ s1.inplace ≤ s1.len`
  raders                  : `len = s0.len + 1`
  bluesteins n            : `len = n ∧ 1 ≤ n ∧ 2 * n - 1 ≤ s0.len`
  radixN / radix4 / radix3 : `s0.len ∣ len ∧ 0 < s0.len`
-/
import RFV.Proofs.ExecLemmas
import RFV.Props.C09

namespace RFV

/-- the `*Small` clause of `Shape` is exactly "the constructor asserts pass" -/
theorem shape_small_iff_asserts (name : String) (w h : Spec) :
    smallAsserts name w h = .ok () ↔ (w.oop = 0 ∧ h.oop = 0 ∧ w.inplace ≤ w.len ∧ h.inplace ≤ h.len) :=
  smallAsserts_ok_iff name w h

/-- (1) every inner call is handed at least the scratch its callee advertises for that entry point -/
theorem scratch_suffices (a : Algo) (e : EntryKind) (len : Nat) (s0 s1 : Spec) (h : Shape a len s0 s1) :
    ∀ c ∈ calls a e len s0 s1 (advertised a e len s0 s1), c.need s0 s1 ≤ c.scratch.len :=
  exec_scratch_suffices a e len s0 s1 h

example : calls .mixedRadix .inplace 12 ⟨3, 0, 0, 0⟩ ⟨4, 20, 0, 0⟩ 32 =
    [⟨1, .inplace, ⟨.scratch, 0, 12⟩, none, ⟨.scratch, 12, 20⟩⟩,
     ⟨0, .oop, ⟨.data, 0, 12⟩, some ⟨.scratch, 0, 12⟩, ⟨.scratch, 12, 20⟩⟩] := by decide
example : advertised .mixedRadix .inplace 12 ⟨3, 0, 0, 0⟩ ⟨4, 20, 0, 0⟩ = 32 := by decide
example : ∀ c ∈ calls .mixedRadix .inplace 12 ⟨3, 0, 0, 0⟩ ⟨4, 20, 0, 0⟩ 32,
    c.need ⟨3, 0, 0, 0⟩ ⟨4, 20, 0, 0⟩ ≤ c.scratch.len :=
  scratch_suffices .mixedRadix .inplace 12 ⟨3, 0, 0, 0⟩ ⟨4, 20, 0, 0⟩ rfl

/-- the `*Small` constructor asserts are needed: a width instance that wants out-of-place scratch would be starved
(`MixedRadixSmall` hands its out-of-place inner call an empty scratch) -/
theorem small_asserts_needed :
    ∃ c ∈ calls .mixedRadixSmall .inplace 12 ⟨3, 0, 1, 0⟩ ⟨4, 0, 0, 0⟩
        (advertised .mixedRadixSmall .inplace 12 ⟨3, 0, 1, 0⟩ ⟨4, 0, 0, 0⟩),
      c.scratch.len < c.need ⟨3, 0, 1, 0⟩ ⟨4, 0, 0, 0⟩ := by decide

/-- … and so is `inplace ≤ len` of the children (they are given the other buffer, of length `len`, as scratch) -/
theorem small_asserts_needed' :
    ∃ c ∈ calls .mixedRadixSmall .oop 12 ⟨3, 0, 0, 0⟩ ⟨4, 13, 0, 0⟩
        (advertised .mixedRadixSmall .oop 12 ⟨3, 0, 0, 0⟩ ⟨4, 13, 0, 0⟩),
      c.scratch.len < c.need ⟨3, 0, 0, 0⟩ ⟨4, 13, 0, 0⟩ := by decide

/-- the immutable-entry scratch of `RadixN`/`Radix4`/`Radix3` must be the base's full in-place requirement: with the
out-of-place formula (`if base.inplace > len then base.inplace else 0`) in its place, the inner call of the
immutable entry would be starved whenever `0 < base.inplace ≤ len`.  (`scratch_suffices` is proved separately for
the three algorithms from their own generated formulas `Gen.radixN_*`, `Gen.radix4_*`, `Gen.radix3_*`, so lowering
any one of them makes the corresponding case fail.) -/
theorem radix_immut_needs_base_inplace :
    ∃ len s0, Shape .radix4 len s0 s0 ∧
      ∃ c ∈ calls .radix4 .immut len s0 s0 (if s0.inplace > len then s0.inplace else 0),
        c.scratch.len < c.need s0 s0 :=
  ⟨4, ⟨4, 2, 0, 0⟩, ⟨by decide, by decide⟩, by decide⟩

example : ∀ c ∈ calls .radix4 .immut 16 ⟨4, 2, 0, 0⟩ ⟨4, 2, 0, 0⟩ (advertised .radix4 .immut 16 ⟨4, 2, 0, 0⟩ ⟨4, 2, 0, 0⟩),
    c.need ⟨4, 2, 0, 0⟩ ⟨4, 2, 0, 0⟩ ≤ c.scratch.len := scratch_suffices .radix4 .immut 16 _ _ ⟨by decide, by decide⟩
example : ∀ e, ∀ c ∈ calls .radix3 e 9 ⟨3, 5, 0, 0⟩ ⟨0, 0, 0, 0⟩ (advertised .radix3 e 9 ⟨3, 5, 0, 0⟩ ⟨0, 0, 0, 0⟩),
    c.need ⟨3, 5, 0, 0⟩ ⟨0, 0, 0, 0⟩ ≤ c.scratch.len := fun e => scratch_suffices .radix3 e 9 _ _ ⟨by decide, by decide⟩

/-- (2) the call list depends on the caller's scratch only through the advertised length: `validate_*` trims a longer
scratch to exactly `advertised` (`&mut scratch[..required]`), so with `actual ≥ advertised` the slice the algorithm
sees has length `min actual advertised = advertised` -/
theorem longer_scratch_same (a : Algo) (e : EntryKind) (len : Nat) (s0 s1 : Spec) (actual : Nat)
    (h : advertised a e len s0 s1 ≤ actual) :
    calls a e len s0 s1 (min actual (advertised a e len s0 s1)) =
      calls a e len s0 s1 (advertised a e len s0 s1) := by
  rw [Nat.min_eq_right h]

/-- … and the chunking of the validating helper does not depend on the scratch length either, once it is long
enough (C09's `helperInplace_wellshaped`) -/
theorem longer_scratch_same_chunks (buf s s' chunk required : Nat) (hc : 1 ≤ chunk) (hm : buf % chunk = 0)
    (hs : required ≤ s) (hs' : required ≤ s') :
    helperInplace buf s chunk required = helperInplace buf s' chunk required := by
  rw [helperInplace_wellshaped buf s chunk required hc hm hs,
    helperInplace_wellshaped buf s' chunk required hc hm hs']

/-- (3) every call's data region is a (positive) multiple of the callee's length, and an out-of-place call's output
has the length of its input — so the callee's own validation accepts the call -/
theorem calls_data_multiple (a : Algo) (e : EntryKind) (len : Nat) (s0 s1 : Spec) (h : Shape a len s0 s1)
    (hl : 0 < len) (h0 : 0 < s0.len) (_h1 : 0 < s1.len) :
    ∀ c ∈ calls a e len s0 s1 (advertised a e len s0 s1),
      (if c.which = 0 then s0 else s1).len ∣ c.data.len ∧ 0 < c.data.len ∧
      (∀ r, c.out = some r → r.len = c.data.len) := fun c hc =>
  ⟨(exec_calls_data_multiple a e len s0 s1 h c hc).1, exec_calls_data_pos a e len s0 s1 h hl h0 c hc,
    (exec_calls_data_multiple a e len s0 s1 h c hc).2⟩

example : ∀ c ∈ calls .raders .oop 8 ⟨7, 9, 0, 0⟩ ⟨0, 0, 0, 0⟩ (advertised .raders .oop 8 ⟨7, 9, 0, 0⟩ ⟨0, 0, 0, 0⟩),
    c.need ⟨7, 9, 0, 0⟩ ⟨0, 0, 0, 0⟩ ≤ c.scratch.len := scratch_suffices .raders .oop 8 _ _ rfl

end RFV
